(* allmydata.util.netstring.netstring:  b"%d:%s," % (len(s), s) *)
From Coq Require Import List NArith Bool.
From Verif Require Import Lib.Decimal.
Import ListNotations.
Local Open Scope N_scope.

Definition blen (s : list N) : N := N.of_nat (length s).

Definition netstring (s : list N) : list N := dec (blen s) ++ [58] ++ s ++ [44].
