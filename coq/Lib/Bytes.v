(* Bytes, fixed-width big-endian fields, `struct`-style records.

   Bytes are [N]; [bytes_ok] says every element is below 256.

   - [be_digits b k v]   the k low-order base-b digits of v, most significant first
                         (b = 256: big-endian packing of a k-byte unsigned field;
                          b = 2: the bits of a value; b = 62: base-62 digits)
   - [be_value b l]      the value of a digit list, most significant first
   - [groups w c l]      cut l into c consecutive pieces of w elements
   - [field]/[fval], [struct_pack]/[struct_unpack], [calcsize]
                         Python's struct module for formats built from
                         ">", "B", "H", "L", "Q" and "<n>s"
   Round-trip lemmas: be_value_digits, be_digits_value, struct_unpack_pack,
   struct_pack_unpack, groups_concat, concat_groups. *)
From Coq Require Import List NArith ZArith Bool Lia ZifyBool ZifyNat ZifyN.
Import ListNotations.
Local Open Scope N_scope.
Local Ltac Zify.zify_post_hook ::= Z.to_euclidean_division_equations.

Definition byte_ok (b : N) : bool := b <? 256.
Definition bytes_ok (l : list N) : bool := forallb byte_ok l.

Definition digits_below (b : N) (l : list N) : bool := forallb (fun d => d <? b) l.

(* ---------------------------------------------------------------------- *)
(* Positional notation                                                     *)

Fixpoint be_digits (b : N) (k : nat) (v : N) : list N :=
  match k with
  | O => []
  | S k' => be_digits b k' (v / b) ++ [v mod b]
  end.

Definition be_value (b : N) (l : list N) : N :=
  fold_left (fun acc d => acc * b + d) l 0.

Lemma be_digits_length b k : forall v, length (be_digits b k v) = k.
Proof.
  induction k as [|k IH]; intro v; cbn [be_digits].
  - reflexivity.
  - rewrite app_length, IH. cbn. lia.
Qed.

Lemma be_value_snoc b l d : be_value b (l ++ [d]) = be_value b l * b + d.
Proof. unfold be_value. rewrite fold_left_app. reflexivity. Qed.

Lemma be_value_nil b : be_value b [] = 0.
Proof. reflexivity. Qed.

Lemma fold_left_be_acc b : forall l a,
  fold_left (fun acc d => acc * b + d) l a = a * b ^ N.of_nat (length l) + be_value b l.
Proof.
  induction l as [|d l IH] using rev_ind; intro a.
  - cbn. lia.
  - rewrite fold_left_app. cbn [fold_left]. rewrite IH, be_value_snoc, app_length.
    cbn [length]. replace (N.of_nat (length l + 1)) with (N.succ (N.of_nat (length l))) by lia.
    rewrite N.pow_succ_r'. lia.
Qed.

Lemma be_value_cons b d l : be_value b (d :: l) = d * b ^ N.of_nat (length l) + be_value b l.
Proof.
  unfold be_value at 1. cbn [fold_left]. rewrite fold_left_be_acc. lia.
Qed.

Lemma be_value_app b l1 l2 :
  be_value b (l1 ++ l2) = be_value b l1 * b ^ N.of_nat (length l2) + be_value b l2.
Proof.
  unfold be_value at 1. rewrite fold_left_app. rewrite fold_left_be_acc. reflexivity.
Qed.

Lemma pow_of_nat_S b k : b ^ N.of_nat (S k) = b * b ^ N.of_nat k.
Proof. rewrite Nat2N.inj_succ, N.pow_succ_r'. reflexivity. Qed.

Lemma be_value_digits b k : 0 < b -> forall v, be_value b (be_digits b k v) = v mod b ^ N.of_nat k.
Proof.
  intro Hb. induction k as [|k IH]; intro v.
  - cbn. rewrite N.mod_1_r. reflexivity.
  - cbn [be_digits]. rewrite be_value_snoc, IH, pow_of_nat_S.
    assert (Hp : b ^ N.of_nat k <> 0) by (apply N.pow_nonzero; lia).
    rewrite (N.mod_mul_r v b (b ^ N.of_nat k)) by lia. lia.
Qed.

Lemma be_digits_below b k : 0 < b -> forall v, digits_below b (be_digits b k v) = true.
Proof.
  intro Hb. induction k as [|k IH]; intro v; cbn [be_digits].
  - reflexivity.
  - unfold digits_below in *. rewrite forallb_app, IH. cbn [forallb].
    assert (v mod b < b) by (apply N.mod_lt; lia).
    apply N.ltb_lt in H. rewrite H. reflexivity.
Qed.

Lemma be_digits_value b : forall l,
  digits_below b l = true -> be_digits b (length l) (be_value b l) = l.
Proof.
  induction l as [|d l IH] using rev_ind; intro H.
  - reflexivity.
  - unfold digits_below in H. rewrite forallb_app in H. apply andb_true_iff in H.
    destruct H as [Hl Hd]. cbn [forallb] in Hd. rewrite andb_true_r in Hd.
    apply N.ltb_lt in Hd.
    rewrite app_length. cbn [length]. rewrite Nat.add_1_r. cbn [be_digits].
    rewrite be_value_snoc.
    assert (Hq : (be_value b l * b + d) / b = be_value b l).
    { symmetry. apply N.div_unique with d; lia. }
    assert (Hm : (be_value b l * b + d) mod b = d).
    { symmetry. apply N.mod_unique with (be_value b l); lia. }
    rewrite Hq, Hm, IH by exact Hl. reflexivity.
Qed.

Lemma be_value_bound b : forall l,
  digits_below b l = true -> be_value b l < b ^ N.of_nat (length l).
Proof.
  induction l as [|d l IH] using rev_ind; intro H.
  - cbn. lia.
  - unfold digits_below in H. rewrite forallb_app in H. apply andb_true_iff in H.
    destruct H as [Hl Hd]. cbn [forallb] in Hd. rewrite andb_true_r in Hd.
    apply N.ltb_lt in Hd. specialize (IH Hl).
    rewrite be_value_snoc, app_length. cbn [length]. rewrite Nat.add_1_r, pow_of_nat_S.
    nia.
Qed.

Lemma be_digits_small b k v : 0 < b -> v < b ^ N.of_nat k -> be_value b (be_digits b k v) = v.
Proof. intros Hb Hv. rewrite be_value_digits by assumption. apply N.mod_small. assumption. Qed.

Lemma be_digits_inj b k v w :
  0 < b -> v < b ^ N.of_nat k -> w < b ^ N.of_nat k -> be_digits b k v = be_digits b k w -> v = w.
Proof.
  intros Hb Hv Hw H. rewrite <- (be_digits_small b k v), <- (be_digits_small b k w) by assumption.
  rewrite H. reflexivity.
Qed.

Lemma bytes_ok_digits l : bytes_ok l = digits_below 256 l.
Proof. reflexivity. Qed.

Lemma bytes_ok_app a b : bytes_ok (a ++ b) = bytes_ok a && bytes_ok b.
Proof. apply forallb_app. Qed.

Lemma be_digits_bytes_ok k v : bytes_ok (be_digits 256 k v) = true.
Proof. rewrite bytes_ok_digits. apply be_digits_below. lia. Qed.

Lemma bytes_ok_firstn n l : bytes_ok l = true -> bytes_ok (firstn n l) = true.
Proof.
  revert l; induction n as [|n IH]; intros [|b l] H; cbn in *; try reflexivity.
  apply andb_true_iff in H. destruct H as [-> H]. cbn. apply IH. assumption.
Qed.

Lemma bytes_ok_skipn n l : bytes_ok l = true -> bytes_ok (skipn n l) = true.
Proof.
  revert l; induction n as [|n IH]; intros [|b l] H; cbn in *; try reflexivity; try assumption.
  apply andb_true_iff in H. destruct H as [_ H]. apply IH. assumption.
Qed.

Lemma bytes_ok_repeat0 n : bytes_ok (repeat 0 n) = true.
Proof. induction n; cbn; [reflexivity|assumption]. Qed.

(* ---------------------------------------------------------------------- *)
(* Regrouping                                                              *)

Fixpoint groups {A} (w c : nat) (l : list A) : list (list A) :=
  match c with
  | O => []
  | S c' => firstn w l :: groups w c' (skipn w l)
  end.

Lemma groups_length {A} w c (l : list A) : length (groups w c l) = c.
Proof. revert l; induction c as [|c IH]; intro l; cbn; [reflexivity|rewrite IH; reflexivity]. Qed.

Lemma skipn_app_exact {A} (a b : list A) n : length a = n -> skipn n (a ++ b) = b.
Proof.
  intros <-. rewrite skipn_app, Nat.sub_diag, skipn_all. reflexivity.
Qed.

Lemma firstn_app_exact {A} (a b : list A) n : length a = n -> firstn n (a ++ b) = a.
Proof.
  intros <-. rewrite firstn_app, Nat.sub_diag, firstn_all. cbn. apply app_nil_r.
Qed.

(* Cutting a concatenation of w-wide pieces (followed by anything) gives the pieces back. *)
Lemma groups_concat {A} w : forall (ll : list (list A)) rest,
  Forall (fun g => length g = w) ll ->
  groups w (length ll) (concat ll ++ rest) = ll.
Proof.
  induction ll as [|g ll IH]; intros rest H.
  - reflexivity.
  - inversion H as [|? ? Hg Hll]; subst. cbn [length concat groups].
    rewrite <- app_assoc.
    rewrite firstn_app_exact, skipn_app_exact by reflexivity.
    rewrite IH by assumption. reflexivity.
Qed.

Lemma concat_groups {A} w : forall c (l : list A),
  (c * w <= length l)%nat -> concat (groups w c l) = firstn (c * w) l.
Proof.
  induction c as [|c IH]; intros l H.
  - reflexivity.
  - cbn [groups concat]. rewrite IH.
    + cbn [Nat.mul].
      rewrite <- (firstn_skipn w l) at 3.
      rewrite firstn_app, firstn_length, Nat.min_l by lia.
      replace (w + c * w - w)%nat with (c * w)%nat by lia.
      rewrite (firstn_all2 (n := (w + c * w)%nat) (firstn w l)); [reflexivity|].
      rewrite firstn_length. lia.
    + rewrite skipn_length. cbn [Nat.mul] in H. lia.
Qed.

Lemma groups_all_length {A} w : forall c (l : list A),
  (c * w <= length l)%nat -> Forall (fun g => length g = w) (groups w c l).
Proof.
  induction c as [|c IH]; intros l H; cbn [groups].
  - constructor.
  - cbn [Nat.mul] in H. constructor.
    + rewrite firstn_length. lia.
    + apply IH. rewrite skipn_length. lia.
Qed.

(* ---------------------------------------------------------------------- *)
(* struct                                                                  *)

Inductive field := FUInt (w : nat) | FBytes (n : nat).
Inductive fval := VInt (v : N) | VBytes (s : list N).

Definition field_size (f : field) : nat := match f with FUInt w => w | FBytes n => n end.

Fixpoint struct_size (fmt : list field) : nat :=
  match fmt with [] => 0%nat | f :: r => (field_size f + struct_size r)%nat end.

Definition calcsize (fmt : list field) : N := N.of_nat (struct_size fmt).

(* "<n>s": shorter values are padded with NUL, longer ones truncated (struct.pack does both silently). *)
Definition pad_to (n : nat) (s : list N) : list N := firstn n s ++ repeat 0 (n - length s).

(* struct.error (None) when an integer does not fit its field or the kinds do not match. *)
Definition pack_field (f : field) (v : fval) : option (list N) :=
  match f, v with
  | FUInt w, VInt x => if x <? 256 ^ N.of_nat w then Some (be_digits 256 w x) else None
  | FBytes n, VBytes s => Some (pad_to n s)
  | _, _ => None
  end.

Fixpoint struct_pack (fmt : list field) (vals : list fval) : option (list N) :=
  match fmt, vals with
  | [], [] => Some []
  | f :: fmt', v :: vals' =>
    match pack_field f v, struct_pack fmt' vals' with
    | Some a, Some b => Some (a ++ b)
    | _, _ => None
    end
  | _, _ => None
  end.

Definition unpack_field (f : field) (s : list N) : fval :=
  match f with
  | FUInt _ => VInt (be_value 256 s)
  | FBytes _ => VBytes s
  end.

Fixpoint struct_unpack_aux (fmt : list field) (s : list N) : list fval :=
  match fmt with
  | [] => []
  | f :: fmt' => unpack_field f (firstn (field_size f) s) :: struct_unpack_aux fmt' (skipn (field_size f) s)
  end.

(* struct.unpack requires exactly calcsize bytes (struct.error otherwise). *)
Definition struct_unpack (fmt : list field) (s : list N) : option (list fval) :=
  if Nat.eqb (length s) (struct_size fmt) then Some (struct_unpack_aux fmt s) else None.

(* The values a format can represent exactly. *)
Definition fval_fits (f : field) (v : fval) : bool :=
  match f, v with
  | FUInt w, VInt x => x <? 256 ^ N.of_nat w
  | FBytes n, VBytes s => Nat.eqb (length s) n
  | _, _ => false
  end.

Fixpoint vals_fit (fmt : list field) (vals : list fval) : bool :=
  match fmt, vals with
  | [], [] => true
  | f :: fmt', v :: vals' => fval_fits f v && vals_fit fmt' vals'
  | _, _ => false
  end.

Lemma pad_to_length n s : length (pad_to n s) = n.
Proof.
  unfold pad_to. rewrite app_length, firstn_length, repeat_length. lia.
Qed.

Lemma pad_to_exact n s : length s = n -> pad_to n s = s.
Proof.
  intros <-. unfold pad_to. rewrite firstn_all, Nat.sub_diag. cbn. apply app_nil_r.
Qed.

Lemma pack_field_length f v s : pack_field f v = Some s -> length s = field_size f.
Proof.
  destruct f as [w|n], v as [x|t]; cbn; try discriminate.
  - destruct (x <? 256 ^ N.of_nat w); [|discriminate]. intro H; injection H as <-. apply be_digits_length.
  - intro H; injection H as <-. apply pad_to_length.
Qed.

Lemma struct_pack_length : forall fmt vals s,
  struct_pack fmt vals = Some s -> length s = struct_size fmt.
Proof.
  induction fmt as [|f fmt IH]; intros [|v vals] s H; cbn in H; try discriminate.
  - injection H as <-. reflexivity.
  - destruct (pack_field f v) as [a|] eqn:Ea; [|discriminate].
    destruct (struct_pack fmt vals) as [b|] eqn:Eb; [|discriminate].
    injection H as <-. rewrite app_length. cbn [struct_size].
    rewrite (pack_field_length _ _ _ Ea), (IH _ _ Eb). reflexivity.
Qed.

Lemma unpack_pack_field f v : fval_fits f v = true ->
  exists s, pack_field f v = Some s /\ unpack_field f s = v.
Proof.
  destruct f as [w|n], v as [x|t]; cbn; try discriminate; intro H.
  - rewrite H. eexists; split; [reflexivity|]. f_equal.
    apply be_digits_small; [lia|]. apply N.ltb_lt. assumption.
  - apply Nat.eqb_eq in H. eexists; split; [reflexivity|]. rewrite pad_to_exact by assumption. reflexivity.
Qed.

Lemma struct_unpack_aux_pack : forall fmt vals,
  vals_fit fmt vals = true ->
  exists s, struct_pack fmt vals = Some s /\ struct_unpack_aux fmt s = vals.
Proof.
  induction fmt as [|f fmt IH]; intros [|v vals] H; cbn in H; try discriminate.
  - exists []. split; reflexivity.
  - apply andb_true_iff in H. destruct H as [Hv Hr].
    destruct (unpack_pack_field f v Hv) as (a & Ea & Ua).
    destruct (IH vals Hr) as (b & Eb & Ub).
    exists (a ++ b). cbn [struct_pack]. rewrite Ea, Eb. split; [reflexivity|].
    cbn [struct_unpack_aux].
    pose proof (pack_field_length _ _ _ Ea) as La.
    rewrite firstn_app_exact, skipn_app_exact by assumption.
    rewrite Ua, Ub. reflexivity.
Qed.

(* decode (encode x) = Some x, for every tuple of values that fits the format. *)
Theorem struct_unpack_pack fmt vals :
  vals_fit fmt vals = true ->
  exists s, struct_pack fmt vals = Some s /\ struct_unpack fmt s = Some vals.
Proof.
  intro H. destruct (struct_unpack_aux_pack fmt vals H) as (s & Es & Us).
  exists s. split; [assumption|]. unfold struct_unpack.
  rewrite (struct_pack_length _ _ _ Es), Nat.eqb_refl, Us. reflexivity.
Qed.

Lemma pack_unpack_field f s :
  bytes_ok s = true -> length s = field_size f -> pack_field f (unpack_field f s) = Some s.
Proof.
  intros Hok Hl. destruct f as [w|n]; cbn in *.
  - subst w. pose proof (be_value_bound 256 s Hok) as Hb.
    apply N.ltb_lt in Hb. rewrite Hb. rewrite be_digits_value by exact Hok. reflexivity.
  - rewrite pad_to_exact by assumption. reflexivity.
Qed.

Lemma struct_pack_unpack_aux : forall fmt s,
  bytes_ok s = true -> length s = struct_size fmt ->
  struct_pack fmt (struct_unpack_aux fmt s) = Some s.
Proof.
  induction fmt as [|f fmt IH]; intros s Hok Hl; cbn [struct_size] in Hl.
  - destruct s; [reflexivity|discriminate].
  - cbn [struct_unpack_aux struct_pack].
    rewrite pack_unpack_field.
    + rewrite IH.
      * rewrite firstn_skipn. reflexivity.
      * apply bytes_ok_skipn; assumption.
      * rewrite skipn_length. lia.
    + apply bytes_ok_firstn; assumption.
    + rewrite firstn_length. lia.
Qed.

(* Strict converse: whatever unpacks, packs back to the very same bytes. *)
Theorem struct_pack_unpack fmt s vals :
  bytes_ok s = true -> struct_unpack fmt s = Some vals -> struct_pack fmt vals = Some s.
Proof.
  intros Hok H. unfold struct_unpack in H.
  destruct (Nat.eqb (length s) (struct_size fmt)) eqn:E; [|discriminate].
  injection H as <-. apply Nat.eqb_eq in E. apply struct_pack_unpack_aux; assumption.
Qed.

Lemma struct_unpack_fits fmt s vals :
  bytes_ok s = true -> struct_unpack fmt s = Some vals -> vals_fit fmt vals = true.
Proof.
  intros Hok H. unfold struct_unpack in H.
  destruct (Nat.eqb (length s) (struct_size fmt)) eqn:E; [|discriminate].
  injection H as <-. apply Nat.eqb_eq in E. revert s Hok E.
  induction fmt as [|f fmt IH]; intros s Hok E; cbn [struct_size] in E.
  - reflexivity.
  - cbn [struct_unpack_aux vals_fit]. apply andb_true_iff. split.
    + assert (Hlen : length (firstn (field_size f) s) = field_size f) by (rewrite firstn_length; lia).
      destruct f as [w|n]; cbn [unpack_field fval_fits field_size] in *.
      * apply N.ltb_lt. rewrite <- Hlen at 2. apply be_value_bound. apply bytes_ok_firstn. assumption.
      * apply Nat.eqb_eq. assumption.
    + apply IH; [apply bytes_ok_skipn; assumption|]. rewrite skipn_length. lia.
Qed.

Lemma struct_pack_bytes_ok : forall fmt vals s,
  (forall f v t, In (f, v) (combine fmt vals) -> v = VBytes t -> bytes_ok t = true) ->
  struct_pack fmt vals = Some s -> bytes_ok s = true.
Proof.
  induction fmt as [|f fmt IH]; intros [|v vals] s Hb H; cbn in H; try discriminate.
  - injection H as <-. reflexivity.
  - destruct (pack_field f v) as [a|] eqn:Ea; [|discriminate].
    destruct (struct_pack fmt vals) as [b|] eqn:Eb; [|discriminate].
    injection H as <-. rewrite bytes_ok_app. apply andb_true_iff. split.
    + destruct f as [w|n], v as [x|t]; cbn in Ea; try discriminate.
      * destruct (x <? 256 ^ N.of_nat w); [|discriminate]. injection Ea as <-. apply be_digits_bytes_ok.
      * injection Ea as <-. unfold pad_to. rewrite bytes_ok_app. apply andb_true_iff. split.
        -- apply bytes_ok_firstn. apply (Hb (FBytes n) (VBytes t) t); [left; reflexivity|reflexivity].
        -- apply bytes_ok_repeat0.
    + apply (IH vals b); [|assumption]. intros f' v' t Hin Hv. apply (Hb f' v' t); [right; assumption|assumption].
Qed.
