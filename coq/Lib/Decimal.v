(* ASCII decimal rendering of naturals, as Python's b"%d" produces it. *)
From Coq Require Import List NArith Bool Lia.
Import ListNotations.
Local Open Scope N_scope.

Fixpoint dec_aux (fuel : nat) (n : N) (acc : list N) : list N :=
  match fuel with
  | O => acc
  | S f =>
    let acc' := (48 + n mod 10) :: acc in
    if n <? 10 then acc' else dec_aux f (n / 10) acc'
  end.

(* N.size n (number of bits) + 1 always suffices: every step divides by 10. *)
Definition dec (n : N) : list N := dec_aux (S (N.to_nat (N.size n))) n [].

Definition is_digit (b : N) : bool := (48 <=? b) && (b <=? 57).

(* Strict reader: one or more ASCII digits, nothing else. *)
Fixpoint undec_acc (l : list N) (acc : N) : option N :=
  match l with
  | [] => Some acc
  | b :: r => if is_digit b then undec_acc r (acc * 10 + (b - 48)) else None
  end.

Definition undec (l : list N) : option N :=
  match l with
  | [] => None
  | _ => undec_acc l 0
  end.

(* Canonical: strict, and no leading zero unless the numeral is exactly "0". *)
Definition canonical_dec (l : list N) : bool :=
  match l with
  | [] => false
  | [b] => is_digit b
  | b :: _ => is_digit b && negb (b =? 48) && forallb is_digit l
  end.
