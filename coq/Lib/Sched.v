(* Generic labelled transition systems run over event lists (C03, C46, C04).

   A machine is a total step function  step : S -> E -> S * list O  (new state and
   the outputs emitted by that step).  `run` folds it over an event list and
   concatenates the outputs.  Invariants are lifted to every state reached through
   events accepted by a guard; `run_measure` bounds the number of strictly
   decreasing steps of a run by the initial value of a measure. *)
From Coq Require Import List Arith Lia.
Import ListNotations.

Section LTS.
  Variables S E O : Type.
  Variable step : S -> E -> S * list O.

  Fixpoint run (s : S) (evs : list E) : S * list O :=
    match evs with
    | [] => (s, [])
    | e :: r => let (s1, o1) := step s e in
                let (s2, o2) := run s1 r in (s2, o1 ++ o2)
    end.

  Lemma run_app : forall a b s,
    run s (a ++ b) = let (s1, o1) := run s a in let (s2, o2) := run s1 b in (s2, o1 ++ o2).
  Proof.
    induction a as [|e a IH]; intros b s; cbn [run app].
    - destruct (run s b); reflexivity.
    - destruct (step s e) as [s1 o1]. rewrite IH.
      destruct (run s1 a) as [s2 o2]. destruct (run s2 b) as [s3 o3].
      now rewrite app_assoc.
  Qed.

  Lemma run_snoc : forall a e s,
    run s (a ++ [e]) = let (s1, o1) := run s a in let (s2, o2) := step s1 e in (s2, o1 ++ o2).
  Proof.
    intros. rewrite run_app. destruct (run s a) as [s1 o1]. cbn [run].
    destruct (step s1 e) as [s2 o2]. now rewrite app_nil_r.
  Qed.

  (* the guard may look at the current state: ok s e = "event e may happen in s" *)
  Variable ok : S -> E -> Prop.

  Inductive accepted : S -> list E -> Prop :=
  | acc_nil : forall s, accepted s []
  | acc_cons : forall s e r, ok s e -> accepted (fst (step s e)) r -> accepted s (e :: r).

  Lemma accepted_app : forall a b s,
    accepted s (a ++ b) <-> accepted s a /\ accepted (fst (run s a)) b.
  Proof.
    induction a as [|e a IH]; intros b s; cbn [app run fst].
    - split; [intros H; split; [constructor|exact H]|intros [_ H]; exact H].
    - split.
      + intros H. inversion H as [|? ? ? Hok Hacc]; subst. apply IH in Hacc. destruct Hacc as [Ha Hb].
        split; [constructor; assumption|].
        destruct (step s e) as [s1 o1]. cbn [fst] in *. destruct (run s1 a); exact Hb.
      + intros [Ha Hb]. inversion Ha as [|? ? ? Hok Hacc]; subst. constructor; [assumption|].
        apply IH. split; [assumption|].
        destruct (step s e) as [s1 o1]. cbn [fst] in *. destruct (run s1 a); exact Hb.
  Qed.

  (* invariants of all states reached by accepted runs *)
  Lemma invariant_run (Inv : S -> Prop) :
    (forall s e, Inv s -> ok s e -> Inv (fst (step s e))) ->
    forall evs s, Inv s -> accepted s evs -> Inv (fst (run s evs)).
  Proof.
    intros Hstep. induction evs as [|e r IH]; intros s Hi Ha; cbn [run].
    - exact Hi.
    - inversion Ha as [|? ? ? Hok Hacc]; subst. specialize (Hstep s e Hi Hok).
      destruct (step s e) as [s1 o1]. cbn [fst] in *.
      specialize (IH s1 Hstep Hacc). destruct (run s1 r). exact IH.
  Qed.

  (* a property of every single step's outputs holds for the whole run's outputs *)
  Lemma outputs_run (Inv : S -> Prop) (P : O -> Prop) :
    (forall s e, Inv s -> ok s e -> Inv (fst (step s e))) ->
    (forall s e, Inv s -> ok s e -> Forall P (snd (step s e))) ->
    forall evs s, Inv s -> accepted s evs -> Forall P (snd (run s evs)).
  Proof.
    intros Hstep Hout. induction evs as [|e r IH]; intros s Hi Ha; cbn [run].
    - constructor.
    - inversion Ha as [|? ? ? Hok Hacc]; subst. pose proof (Hstep s e Hi Hok) as Hi1. pose proof (Hout s e Hi Hok) as Ho.
      destruct (step s e) as [s1 o1]. cbn [fst snd] in *.
      specialize (IH s1 Hi1 Hacc). destruct (run s1 r). cbn [snd] in *.
      apply Forall_app. split; assumption.
  Qed.

  (* measure-based bound: the measure never grows on accepted steps and drops on the
     steps counted by `strict`; then a run contains at most  mu s  strict steps. *)
  Variable mu : S -> nat.
  Variable strict : S -> E -> bool.

  Fixpoint strict_steps (s : S) (evs : list E) : nat :=
    match evs with
    | [] => 0
    | e :: r => (if strict s e then 1 else 0) + strict_steps (fst (step s e)) r
    end.

  Lemma run_measure (Inv : S -> Prop) :
    (forall s e, Inv s -> ok s e -> Inv (fst (step s e))) ->
    (forall s e, Inv s -> ok s e -> mu (fst (step s e)) <= mu s) ->
    (forall s e, Inv s -> ok s e -> strict s e = true -> mu (fst (step s e)) < mu s) ->
    forall evs s, Inv s -> accepted s evs ->
      strict_steps s evs + mu (fst (run s evs)) <= mu s.
  Proof.
    intros Hinv Hle Hlt. induction evs as [|e r IH]; intros s Hi Ha; cbn [run strict_steps fst].
    - lia.
    - inversion Ha as [|? ? ? Hok Hacc]; subst.
      pose proof (Hinv s e Hi Hok) as Hi1. pose proof (Hle s e Hi Hok) as L. pose proof (Hlt s e Hi Hok) as T.
      specialize (IH (fst (step s e)) Hi1 Hacc).
      destruct (step s e) as [s1 o1]. cbn [fst] in *. destruct (run s1 r) as [s2 o2]. cbn [fst] in *.
      destruct (strict s e); [specialize (T eq_refl)|]; lia.
  Qed.
End LTS.

Arguments run {S E O} step s evs.
Arguments accepted {S E O} step ok s evs.
Arguments strict_steps {S E O} step strict s evs.
