(* Executable SHA-256 and SHA-1 over byte lists (list N), used so that the
   models compute the very digests the implementation computes.  These are
   plain functional programs; they are validated against hashlib by the
   correspondence checks (C17, C38) and no theorem relies on any cryptographic
   property of them: theorems that need collision-freeness take an abstract
   hash with an explicit injectivity hypothesis (Lib/Hash.v). *)
From Coq Require Import List NArith Bool.
Import ListNotations.
Local Open Scope N_scope.

Definition w32 (x : N) : N := N.land x 4294967295.
Definition add32 (a b : N) : N := w32 (a + b).
Definition rotr (n x : N) : N := N.lor (N.shiftr x n) (w32 (N.shiftl x (32 - n))).
Definition rotl (n x : N) : N := rotr (32 - n) x.
Definition shr (n x : N) : N := N.shiftr x n.
Definition not32 (x : N) : N := N.lxor x 4294967295.

Definition K256 : list N := [
 1116352408; 1899447441; 3049323471; 3921009573; 961987163; 1508970993; 2453635748; 2870763221;
 3624381080; 310598401; 607225278; 1426881987; 1925078388; 2162078206; 2614888103; 3248222580;
 3835390401; 4022224774; 264347078; 604807628; 770255983; 1249150122; 1555081692; 1996064986;
 2554220882; 2821834349; 2952996808; 3210313671; 3336571891; 3584528711; 113926993; 338241895;
 666307205; 773529912; 1294757372; 1396182291; 1695183700; 1986661051; 2177026350; 2456956037;
 2730485921; 2820302411; 3259730800; 3345764771; 3516065817; 3600352804; 4094571909; 275423344;
 430227734; 506948616; 659060556; 883997877; 958139571; 1322822218; 1537002063; 1747873779;
 1955562222; 2024104815; 2227730452; 2361852424; 2428436474; 2756734187; 3204031479; 3329325298].

Definition H256 : list N :=
 [1779033703; 3144134277; 1013904242; 2773480762; 1359893119; 2600822924; 528734635; 1541459225].

(* big-endian encodings *)
Fixpoint be_bytes (n : nat) (x : N) : list N :=
  match n with
  | O => []
  | S n' => be_bytes n' (N.shiftr x 8) ++ [N.land x 255]
  end.

Fixpoint be_value (l : list N) (acc : N) : N :=
  match l with
  | [] => acc
  | b :: r => be_value r (acc * 256 + b)
  end.

Definition pad_message (m : list N) : list N :=
  let len := N.of_nat (length m) in
  let zeros := N.to_nat ((119 - (len mod 64)) mod 64) in
  m ++ [128] ++ repeat 0 zeros ++ be_bytes 8 (len * 8).

Fixpoint words_of (fuel : nat) (l : list N) : list N :=
  match fuel with
  | O => []
  | S f =>
    match l with
    | a :: b :: c :: d :: r => be_value [a; b; c; d] 0 :: words_of f r
    | _ => []
    end
  end.

Fixpoint chunks (fuel : nat) (n : nat) (l : list N) : list (list N) :=
  match fuel with
  | O => []
  | S f => match l with [] => [] | _ => firstn n l :: chunks f n (skipn n l) end
  end.

Definition ssig0 x := N.lxor (N.lxor (rotr 7 x) (rotr 18 x)) (shr 3 x).
Definition ssig1 x := N.lxor (N.lxor (rotr 17 x) (rotr 19 x)) (shr 10 x).
Definition bsig0 x := N.lxor (N.lxor (rotr 2 x) (rotr 13 x)) (rotr 22 x).
Definition bsig1 x := N.lxor (N.lxor (rotr 6 x) (rotr 11 x)) (rotr 25 x).
Definition ch x y z := N.lxor (N.land x y) (N.land (not32 x) z).
Definition maj x y z := N.lxor (N.lxor (N.land x y) (N.land x z)) (N.land y z).

(* message schedule: w is kept reversed (most recent first) *)
Fixpoint schedule (n : nat) (w : list N) : list N :=
  match n with
  | O => w
  | S n' =>
    let a := nth 1 w 0 in let b := nth 6 w 0 in
    let c := nth 14 w 0 in let d := nth 15 w 0 in
    schedule n' (add32 (add32 (ssig1 a) b) (add32 (ssig0 c) d) :: w)
  end.

Definition st8 := (N * N * N * N * N * N * N * N)%type.

Definition round256 (s : st8) (kw : N * N) : st8 :=
  let '(a, b, c, d, e, f, g, h) := s in
  let '(k, w) := kw in
  let t1 := add32 (add32 (add32 h (bsig1 e)) (add32 (ch e f g) k)) w in
  let t2 := add32 (bsig0 a) (maj a b c) in
  (add32 t1 t2, a, b, c, add32 d t1, e, f, g).

Definition compress256 (s : st8) (block : list N) : st8 :=
  let w := rev (schedule 48 (rev (words_of 16 block))) in
  let '(a, b, c, d, e, f, g, h) := fold_left round256 (combine K256 w) s in
  let '(a0, b0, c0, d0, e0, f0, g0, h0) := s in
  (add32 a0 a, add32 b0 b, add32 c0 c, add32 d0 d, add32 e0 e, add32 f0 f, add32 g0 g, add32 h0 h).

Definition sha256 (m : list N) : list N :=
  let p := pad_message m in
  let s0 := (1779033703, 3144134277, 1013904242, 2773480762, 1359893119, 2600822924, 528734635, 1541459225) in
  let '(a, b, c, d, e, f, g, h) := fold_left compress256 (chunks (S (length p)) 64 p) s0 in
  be_bytes 4 a ++ be_bytes 4 b ++ be_bytes 4 c ++ be_bytes 4 d ++
  be_bytes 4 e ++ be_bytes 4 f ++ be_bytes 4 g ++ be_bytes 4 h.

(* ---- SHA-1 (server permutation only) ---- *)
Fixpoint schedule1 (n : nat) (w : list N) : list N :=
  match n with
  | O => w
  | S n' =>
    schedule1 n' (rotl 1 (N.lxor (N.lxor (nth 2 w 0) (nth 7 w 0)) (N.lxor (nth 13 w 0) (nth 15 w 0))) :: w)
  end.

Definition st5 := (N * N * N * N * N)%type.

Definition round1 (s : st5 * N) (w : N) : st5 * N :=
  let '((a, b, c, d, e), i) := s in
  let '(f, k) :=
    if i <? 20 then (N.lor (N.land b c) (N.land (not32 b) d), 1518500249)
    else if i <? 40 then (N.lxor (N.lxor b c) d, 1859775393)
    else if i <? 60 then (N.lor (N.lor (N.land b c) (N.land b d)) (N.land c d), 2400959708)
    else (N.lxor (N.lxor b c) d, 3395469782) in
  let t := add32 (add32 (add32 (rotl 5 a) f) (add32 e k)) w in
  ((t, a, rotl 30 b, c, d), i + 1).

Definition compress1 (s : st5) (block : list N) : st5 :=
  let w := rev (schedule1 64 (rev (words_of 16 block))) in
  let '((a, b, c, d, e), _) := fold_left round1 w (s, 0) in
  let '(a0, b0, c0, d0, e0) := s in
  (add32 a0 a, add32 b0 b, add32 c0 c, add32 d0 d, add32 e0 e).

Definition sha1 (m : list N) : list N :=
  let p := pad_message m in
  let s0 := (1732584193, 4023233417, 2562383102, 271733878, 3285377520) in
  let '(a, b, c, d, e) := fold_left compress1 (chunks (S (length p)) 64 p) s0 in
  be_bytes 4 a ++ be_bytes 4 b ++ be_bytes 4 c ++ be_bytes 4 d ++ be_bytes 4 e.
