(* Hex literals for byte strings in generated case files:  unhex "0aff" = [10; 255]. *)
From Coq Require Import List NArith Ascii String Bool.
Import ListNotations.
Local Open Scope N_scope.
Local Open Scope bool_scope.

Definition hexval (c : ascii) : N :=
  let n := N_of_ascii c in
  if (48 <=? n) && (n <=? 57) then n - 48
  else if (97 <=? n) && (n <=? 102) then n - 87
  else if (65 <=? n) && (n <=? 70) then n - 55
  else 0.

Fixpoint unhex (s : string) : list N :=
  match s with
  | String a (String b r) => (16 * hexval a + hexval b) :: unhex r
  | _ => []
  end.

(* Bytes of an ASCII string literal. *)
Fixpoint bytes_of_string (s : string) : list N :=
  match s with
  | EmptyString => []
  | String a r => N_of_ascii a :: bytes_of_string r
  end.

Fixpoint list_N_eqb (a b : list N) : bool :=
  match a, b with
  | [], [] => true
  | x :: a', y :: b' => (x =? y) && list_N_eqb a' b'
  | _, _ => false
  end.

Lemma list_N_eqb_eq a b : list_N_eqb a b = true <-> a = b.
Proof.
  revert b; induction a as [|x a IH]; destruct b as [|y b]; simpl; split; intro H;
    try reflexivity; try discriminate.
  - apply andb_prop in H. destruct H as [H1 H2]. apply N.eqb_eq in H1. apply IH in H2. subst. reflexivity.
  - inversion H; subst. rewrite N.eqb_refl. simpl. apply IH. reflexivity.
Qed.
