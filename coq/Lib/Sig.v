(* Abstract digital-signature scheme and an executable symbolic instance.

   The code under verification uses Ed25519 through allmydata.crypto.ed25519
   (`verify_signature(public_key, alleged_signature, data)`, raising BadSignature).
   No cryptographic fact is proved here.  Models take the scheme as Section
   variables; theorems that speak about forgery carry the explicit hypothesis
   `sig_sound verify signed`: verification succeeds only for (key, message)
   pairs the key holder genuinely signed.

   The symbolic instance makes the models runnable: a signature is the pair
   (key id, message id) it was made for (or junk), so verification is a
   comparison.  Drivers map real Ed25519 keys / byte strings to these ids. *)
From Coq Require Import List NArith Bool.
Import ListNotations.
Local Open Scope N_scope.

Section Scheme.
  Variables pubkey msg sig : Type.
  Variable verify : pubkey -> msg -> sig -> bool.

  (* `signed k m`: the holder of k's private key has signed exactly m. *)
  Definition sig_sound (signed : pubkey -> msg -> Prop) : Prop :=
    forall k m s, verify k m s = true -> signed k m.

  (* some key of the list verifies (m, s) *)
  Definition verifies_any (keys : list pubkey) (m : msg) (s : sig) : bool :=
    existsb (fun k => verify k m s) keys.

  Lemma verifies_any_iff : forall keys m s,
    verifies_any keys m s = true <-> exists k, In k keys /\ verify k m s = true.
  Proof.
    intros keys m s. unfold verifies_any. rewrite existsb_exists. tauto.
  Qed.
End Scheme.

Arguments sig_sound {pubkey msg sig} verify signed.
Arguments verifies_any {pubkey msg sig} verify keys m s.

(* ---- symbolic instance ---------------------------------------------------- *)
Inductive sym_sig : Type :=
| SigOf (k : N) (m : N)      (* the signature made with key k over message m *)
| SigJunk (n : N).           (* any other byte string *)

Definition sym_sign (k m : N) : sym_sig := SigOf k m.

Definition sym_verify (k : N) (m : N) (s : sym_sig) : bool :=
  match s with
  | SigOf k' m' => (k =? k') && (m =? m')
  | SigJunk _ => false
  end.

Lemma sym_verify_iff : forall k m s, sym_verify k m s = true <-> s = sym_sign k m.
Proof.
  intros k m s. destruct s as [k' m'|n]; cbn [sym_verify sym_sign].
  - rewrite andb_true_iff, !N.eqb_eq. split.
    + intros [-> ->]. reflexivity.
    + intros H. inversion H. auto.
  - split; discriminate.
Qed.

(* The symbolic scheme is sound for "signed = a signature SigOf k m exists". *)
Lemma sym_sound : sig_sound sym_verify (fun k m => exists s, s = sym_sign k m).
Proof.
  intros k m s H. exists s. apply sym_verify_iff. exact H.
Qed.

Lemma sym_verify_sign : forall k m, sym_verify k m (sym_sign k m) = true.
Proof. intros. apply sym_verify_iff. reflexivity. Qed.

Lemma sym_verify_other_key : forall k k' m, k <> k' -> sym_verify k' m (sym_sign k m) = false.
Proof.
  intros k k' m H. cbn. destruct (N.eqb_spec k' k); [congruence|reflexivity].
Qed.

Lemma sym_verify_other_msg : forall k m m', m <> m' -> sym_verify k m' (sym_sign k m) = false.
Proof.
  intros k m m' H. cbn. destruct (N.eqb_spec m' m); [congruence|]. apply andb_false_r.
Qed.
