(* Facts about Lib/Netstring.v.  Self-contained (uses only Lib/Decimal.v,
   Lib/DecimalFacts.v and the standard library); the definitions in
   Netstring.v are not changed.

   Main statements (all closed, no axioms):
     netstring_inj            netstring a = netstring b -> a = b
     netstring_prefix_free    netstring a ++ x = netstring b ++ y -> a = b /\ x = y
     netstrings_unique        concat (map netstring l1) ++ x = concat (map netstring l2) ++ y ->
                              length l1 = length l2 -> l1 = l2 /\ x = y
     netstrings_inj           concat (map netstring l1) = concat (map netstring l2) ->
                              length l1 = length l2 -> l1 = l2
     netstring_pair_inj       netstring a ++ netstring b = netstring c ++ netstring d -> a = c /\ b = d
   Auxiliary, reusable:
     app_eq_length            equal-length prefixes of equal lists are equal
     split_at_sep_unique      l1 ++ s :: r1 = l2 ++ s :: r2 with s in neither l1 nor l2
     netstring_length, netstring_nonempty, netstring_unfold, blen_inj *)
From Coq Require Import List NArith Bool Lia.
From Verif Require Import Lib.Decimal Lib.DecimalFacts Lib.Netstring.
Import ListNotations.
Local Open Scope N_scope.

(* ---------------------------------------------------------------------- *)
(* List lemmas                                                             *)

Lemma app_eq_length {A} : forall (a b x y : list A),
  length a = length b -> a ++ x = b ++ y -> a = b /\ x = y.
Proof.
  induction a as [|h a IH]; intros [|k b] x y Hl H; cbn in *; try discriminate.
  - split; [reflexivity|assumption].
  - injection H as -> H. injection Hl as Hl. destruct (IH b x y Hl H) as [-> ->]. split; reflexivity.
Qed.

(* Splitting at the first occurrence of a separator is unique. *)
Lemma split_at_sep_unique {A} (s : A) : forall (l1 l2 r1 r2 : list A),
  ~ In s l1 -> ~ In s l2 -> l1 ++ s :: r1 = l2 ++ s :: r2 -> l1 = l2 /\ r1 = r2.
Proof.
  induction l1 as [|h l1 IH]; intros [|k l2] r1 r2 H1 H2 H; cbn in *.
  - injection H as ->. split; reflexivity.
  - injection H as -> _. exfalso. apply H2. left; reflexivity.
  - injection H as -> _. exfalso. apply H1. left; reflexivity.
  - injection H as -> H.
    destruct (IH l2 r1 r2) as [-> ->]; [tauto|tauto|assumption|]. split; reflexivity.
Qed.

(* ---------------------------------------------------------------------- *)
(* netstring                                                               *)

Lemma blen_inj (a b : list N) : blen a = blen b -> length a = length b.
Proof. unfold blen. intro H. apply Nat2N.inj in H. assumption. Qed.

Lemma netstring_unfold s : netstring s = dec (blen s) ++ 58 :: s ++ [44].
Proof. reflexivity. Qed.

Lemma netstring_nonempty s : netstring s <> [].
Proof.
  rewrite netstring_unfold. intro H. apply app_eq_nil in H. destruct H; discriminate.
Qed.

Lemma netstring_length s :
  length (netstring s) = (length (dec (blen s)) + length s + 2)%nat.
Proof. rewrite netstring_unfold, app_length. cbn [length]. rewrite app_length. cbn [length]. lia. Qed.

Lemma colon_not_in_dec n : ~ In 58 (dec n).
Proof. apply dec_no_byte. reflexivity. Qed.

(* Prefix-freeness: a netstring followed by anything decomposes uniquely. *)
Theorem netstring_prefix_free a b x y :
  netstring a ++ x = netstring b ++ y -> a = b /\ x = y.
Proof.
  rewrite !netstring_unfold. rewrite <- !app_assoc. cbn [app]. intro H.
  apply split_at_sep_unique in H; try apply colon_not_in_dec.
  destruct H as [Hd H].
  apply dec_inj in Hd. apply blen_inj in Hd.
  rewrite <- !app_assoc in H. cbn [app] in H.
  apply app_eq_length in H; [|assumption].
  destruct H as [-> H]. injection H as ->. split; reflexivity.
Qed.

Theorem netstring_inj a b : netstring a = netstring b -> a = b.
Proof.
  intro H. apply (netstring_prefix_free a b [] []). rewrite !app_nil_r. assumption.
Qed.

(* Unique decomposition of a concatenation of netstrings (followed by anything). *)
Theorem netstrings_unique : forall l1 l2 x y,
  concat (map netstring l1) ++ x = concat (map netstring l2) ++ y ->
  length l1 = length l2 -> l1 = l2 /\ x = y.
Proof.
  induction l1 as [|a l1 IH]; intros [|b l2] x y H Hl; cbn [length] in Hl; try discriminate.
  - cbn in H. split; [reflexivity|assumption].
  - cbn [map concat] in H. rewrite <- !app_assoc in H.
    apply netstring_prefix_free in H. destruct H as [-> H].
    injection Hl as Hl. destruct (IH l2 x y H Hl) as [-> ->]. split; reflexivity.
Qed.

Corollary netstrings_inj l1 l2 :
  concat (map netstring l1) = concat (map netstring l2) -> length l1 = length l2 -> l1 = l2.
Proof.
  intros H Hl. apply (netstrings_unique l1 l2 [] []); [|assumption].
  rewrite !app_nil_r. assumption.
Qed.

Corollary netstring_pair_inj a b c d :
  netstring a ++ netstring b = netstring c ++ netstring d -> a = c /\ b = d.
Proof.
  intro H. apply netstring_prefix_free in H. destruct H as [-> H].
  apply netstring_inj in H. subst. split; reflexivity.
Qed.

(* A tag netstring followed by data determines both (the shape of tagged hashes). *)
Corollary netstring_tag_data_inj tag1 tag2 d1 d2 :
  netstring tag1 ++ d1 = netstring tag2 ++ d2 -> tag1 = tag2 /\ d1 = d2.
Proof. apply netstring_prefix_free. Qed.
