(* Facts about Lib/Decimal.v (ASCII decimal numerals).  Self-contained; the
   definitions in Decimal.v are not changed.

   Main statements (all closed, no axioms):
     dec_small, dec_step        recursion equations of [dec]
     dec_all_digits             forallb is_digit (dec n) = true
     dec_nonempty, dec_no_byte  dec n <> [] ; a non-digit byte does not occur in dec n
     undec_dec                  undec (dec n) = Some n
     canonical_dec_dec          canonical_dec (dec n) = true
     dec_inj                    dec n = dec m -> n = m
     canonical_dec_spec         canonical_dec as a conjunction
     canonical_dec_inv          canonical_dec l = true -> exists n, undec l = Some n /\ dec n = l
     undec_canonical_unique     two canonical numerals with the same value are equal *)
From Coq Require Import List NArith ZArith Bool Lia ZifyBool ZifyNat ZifyN.
From Verif Require Import Lib.Decimal.
Import ListNotations.
Local Open Scope N_scope.
Local Ltac Zify.zify_post_hook ::= Z.to_euclidean_division_equations.

(* ---------------------------------------------------------------------- *)
(* dec_aux: accumulator and fuel                                           *)

Lemma dec_aux_acc : forall f n acc, dec_aux f n acc = dec_aux f n [] ++ acc.
Proof.
  induction f as [|f IH]; intros n acc; cbn [dec_aux].
  - reflexivity.
  - destruct (n <? 10).
    + reflexivity.
    + rewrite IH. rewrite (IH (n / 10) [48 + n mod 10]). rewrite <- app_assoc. reflexivity.
Qed.

Lemma pow10_S (f : nat) : 10 ^ N.of_nat (S f) = 10 * 10 ^ N.of_nat f.
Proof. rewrite Nat2N.inj_succ. rewrite N.pow_succ_r'. reflexivity. Qed.

(* Any two fuels that both exceed the number of decimal digits give the same result. *)
Lemma dec_aux_fuel : forall f1 f2 n acc,
  n < 10 ^ N.of_nat (S f1) -> n < 10 ^ N.of_nat (S f2) ->
  dec_aux (S f1) n acc = dec_aux (S f2) n acc.
Proof.
  induction f1 as [|f1 IH]; intros f2 n acc H1 H2.
  - change (10 ^ N.of_nat 1) with 10 in H1.
    cbn [dec_aux]. apply N.ltb_lt in H1. rewrite H1. reflexivity.
  - cbn [dec_aux]. destruct (n <? 10) eqn:E; [reflexivity|].
    apply N.ltb_ge in E.
    destruct f2 as [|f2].
    + change (10 ^ N.of_nat 1) with 10 in H2. lia.
    + change (dec_aux (S f1) (n / 10) ((48 + n mod 10) :: acc) =
              dec_aux (S f2) (n / 10) ((48 + n mod 10) :: acc)).
      apply IH.
      * rewrite pow10_S in H1. apply N.div_lt_upper_bound; lia.
      * rewrite pow10_S in H2. apply N.div_lt_upper_bound; lia.
Qed.

Lemma lt_pow10_size (n : N) : n < 10 ^ N.size n.
Proof.
  destruct n as [|p]; [cbn; lia|].
  apply N.lt_le_trans with (2 ^ N.size (N.pos p)).
  - apply N.size_gt.
  - apply N.pow_le_mono_l. lia.
Qed.

Lemma lt_pow10_fuel (n : N) : n < 10 ^ N.of_nat (S (N.to_nat (N.size n))).
Proof.
  rewrite pow10_S, N2Nat.id. pose proof (lt_pow10_size n). lia.
Qed.

(* ---------------------------------------------------------------------- *)
(* Recursion equations                                                     *)

Lemma dec_small n : n < 10 -> dec n = [48 + n].
Proof.
  intro H. unfold dec. cbn [dec_aux].
  apply N.ltb_lt in H. rewrite H. apply N.ltb_lt in H.
  rewrite N.mod_small by assumption. reflexivity.
Qed.

Lemma dec_step n : 10 <= n -> dec n = dec (n / 10) ++ [48 + n mod 10].
Proof.
  intro H. unfold dec at 1. cbn [dec_aux].
  destruct (n <? 10) eqn:E; [apply N.ltb_lt in E; lia|].
  rewrite dec_aux_acc. f_equal.
  unfold dec.
  assert (Hs : exists k, N.to_nat (N.size n) = S k).
  { destruct (N.to_nat (N.size n)) eqn:Es; [|eauto].
    assert (N.size n = 0) by lia.
    destruct n; [lia|]. cbn in H0. lia. }
  destruct Hs as [k Hk]. rewrite Hk.
  apply dec_aux_fuel.
  - rewrite <- Hk, N2Nat.id. pose proof (lt_pow10_size n).
    apply N.lt_trans with n; [|assumption].
    apply N.div_lt; lia.
  - apply lt_pow10_fuel.
Qed.

(* Induction principle following the two equations. *)
Lemma dec_ind (P : N -> Prop) :
  (forall n, n < 10 -> P n) ->
  (forall n, 10 <= n -> P (n / 10) -> P n) ->
  forall n, P n.
Proof.
  intros Hs Hb n. induction n as [n IH] using (well_founded_induction N.lt_wf_0).
  destruct (N.lt_ge_cases n 10) as [H|H].
  - apply Hs; assumption.
  - apply Hb; [assumption|]. apply IH. apply N.div_lt; lia.
Qed.

(* ---------------------------------------------------------------------- *)
(* Shape of dec n                                                          *)

Lemma is_digit_spec b : is_digit b = true <-> 48 <= b <= 57.
Proof.
  unfold is_digit. rewrite andb_true_iff, !N.leb_le. reflexivity.
Qed.

Lemma is_digit_48_plus d : d < 10 -> is_digit (48 + d) = true.
Proof. intro H. apply is_digit_spec. lia. Qed.

Lemma dec_nonempty n : dec n <> [].
Proof.
  pattern n. apply dec_ind; clear n; intros n H.
  - rewrite dec_small by assumption. discriminate.
  - intros _. rewrite dec_step by assumption. intro E. apply app_eq_nil in E. destruct E; discriminate.
Qed.

Lemma dec_all_digits n : forallb is_digit (dec n) = true.
Proof.
  pattern n. apply dec_ind; clear n; intros n H.
  - rewrite dec_small by assumption. cbn [forallb]. rewrite is_digit_48_plus by assumption. reflexivity.
  - intro IH. rewrite dec_step by assumption. rewrite forallb_app, IH. cbn [forallb].
    rewrite is_digit_48_plus; [reflexivity|]. apply N.mod_lt. lia.
Qed.

(* A byte that is not an ASCII digit (':' = 58, ',' = 44, '-' = 45, ...) does not occur in dec n. *)
Lemma dec_no_byte n b : is_digit b = false -> ~ In b (dec n).
Proof.
  intros Hb Hin. pose proof (dec_all_digits n) as H.
  rewrite forallb_forall in H. specialize (H b Hin). congruence.
Qed.

Lemma dec_head n :
  exists d r, dec n = d :: r /\ is_digit d = true /\ (0 < n -> d <> 48) /\ (n = 0 -> d = 48 /\ r = []).
Proof.
  pattern n. apply dec_ind; clear n; intros n H.
  - exists (48 + n), []. rewrite dec_small by assumption. repeat split.
    + apply is_digit_48_plus; assumption.
    + lia.
    + subst; reflexivity.
  - intros (d & r & E & Hd & Hnz & _). rewrite dec_step by assumption. rewrite E.
    exists d, (r ++ [48 + n mod 10]). repeat split; try assumption.
    + intros _. apply Hnz. apply N.div_str_pos. lia.
    + lia.
    + lia.
Qed.

Lemma dec_0 : dec 0 = [48].
Proof. reflexivity. Qed.

Lemma dec_length_pos n : (0 < length (dec n))%nat.
Proof. pose proof (dec_nonempty n). destruct (dec n); [congruence|cbn; lia]. Qed.

(* ---------------------------------------------------------------------- *)
(* undec (dec n) = Some n                                                  *)

Lemma undec_acc_app : forall l d acc,
  undec_acc (l ++ [d]) acc =
  match undec_acc l acc with
  | Some v => if is_digit d then Some (v * 10 + (d - 48)) else None
  | None => None
  end.
Proof.
  induction l as [|b l IH]; intros d acc; cbn [app undec_acc].
  - destruct (is_digit d); reflexivity.
  - destruct (is_digit b); [apply IH|reflexivity].
Qed.

Lemma undec_nonempty l : l <> [] -> undec l = undec_acc l 0.
Proof. destruct l; [congruence|reflexivity]. Qed.

Theorem undec_dec n : undec (dec n) = Some n.
Proof.
  rewrite undec_nonempty by apply dec_nonempty.
  pattern n. apply dec_ind; clear n; intros n H.
  - rewrite dec_small by assumption. cbn [undec_acc].
    rewrite is_digit_48_plus by assumption. f_equal. lia.
  - intro IH. rewrite dec_step by assumption. rewrite undec_acc_app, IH.
    rewrite is_digit_48_plus by (apply N.mod_lt; lia). f_equal.
    lia.
Qed.

Theorem dec_inj n m : dec n = dec m -> n = m.
Proof.
  intro H. pose proof (undec_dec n) as Hn. rewrite H, undec_dec in Hn. congruence.
Qed.

(* ---------------------------------------------------------------------- *)
(* Canonical numerals                                                      *)

Lemma canonical_dec_spec l :
  canonical_dec l = true <->
  l <> [] /\ forallb is_digit l = true /\ ((1 < length l)%nat -> hd 0 l <> 48).
Proof.
  destruct l as [|b [|c r]]; cbn [canonical_dec hd length].
  - split; [discriminate|]. intros [H _]; congruence.
  - cbn [forallb]. rewrite andb_true_r. split.
    + intro H. repeat split; [discriminate|assumption|lia].
    + intros (_ & H & _); assumption.
  - rewrite !andb_true_iff, negb_true_iff, N.eqb_neq. split.
    + intros [[H1 H2] H3]. repeat split; [discriminate|assumption|intros _; assumption].
    + intros (_ & H & Hh). repeat split; try assumption.
      * cbn [forallb] in H. apply andb_true_iff in H. tauto.
      * apply Hh. lia.
Qed.

Theorem canonical_dec_dec n : canonical_dec (dec n) = true.
Proof.
  apply canonical_dec_spec. repeat split.
  - apply dec_nonempty.
  - apply dec_all_digits.
  - intro Hlen. destruct (dec_head n) as (d & r & E & _ & Hnz & Hz).
    rewrite E. cbn [hd]. destruct (N.eq_dec n 0) as [->|Hn].
    + rewrite dec_0 in Hlen. cbn in Hlen. lia.
    + apply Hnz. lia.
Qed.

(* Strict converse: a canonical numeral is the rendering of the value it reads as. *)
Theorem canonical_dec_inv l :
  canonical_dec l = true -> exists n, undec l = Some n /\ dec n = l.
Proof.
  induction l as [|d l IH] using rev_ind; intro H.
  - discriminate.
  - apply canonical_dec_spec in H. destruct H as (_ & Hdig & Hhd).
    rewrite forallb_app in Hdig. apply andb_true_iff in Hdig. destruct Hdig as [Hl Hd].
    cbn [forallb] in Hd. rewrite andb_true_r in Hd.
    pose proof Hd as Hd'. apply is_digit_spec in Hd'.
    destruct l as [|b l].
    + exists (d - 48). split.
      * cbn. rewrite Hd. reflexivity.
      * cbn [app]. rewrite dec_small by lia. f_equal. lia.
    + assert (Hcan : canonical_dec (b :: l) = true).
      { apply canonical_dec_spec. repeat split; [discriminate|assumption|].
        intros _. cbn [hd]. apply Hhd. rewrite app_length. cbn. lia. }
      destruct (IH Hcan) as (n & Hun & Hdec).
      assert (Hn : 0 < n).
      { destruct (N.eq_dec n 0) as [->|]; [|lia].
        rewrite dec_0 in Hdec. injection Hdec as Hb Hl0. subst.
        exfalso. apply Hhd; [cbn; lia|reflexivity]. }
      exists (n * 10 + (d - 48)). split.
      * rewrite undec_nonempty by (destruct l; discriminate).
        rewrite undec_nonempty in Hun by discriminate.
        change ((b :: l) ++ [d]) with ((b :: l) ++ [d]).
        rewrite undec_acc_app, Hun, Hd. reflexivity.
      * rewrite dec_step by lia.
        assert (Hq : (n * 10 + (d - 48)) / 10 = n).
        { symmetry. apply N.div_unique with (d - 48); lia. }
        assert (Hm : (n * 10 + (d - 48)) mod 10 = d - 48).
        { symmetry. apply N.mod_unique with n; lia. }
        rewrite Hq, Hm, Hdec. f_equal. f_equal. lia.
Qed.

Corollary undec_canonical_unique l1 l2 n :
  canonical_dec l1 = true -> canonical_dec l2 = true ->
  undec l1 = Some n -> undec l2 = Some n -> l1 = l2.
Proof.
  intros C1 C2 U1 U2.
  destruct (canonical_dec_inv l1 C1) as (n1 & E1 & D1).
  destruct (canonical_dec_inv l2 C2) as (n2 & E2 & D2).
  congruence.
Qed.

(* Reading a canonical numeral and printing the value gives the numeral back. *)
Corollary dec_undec_canonical l n :
  canonical_dec l = true -> undec l = Some n -> dec n = l.
Proof.
  intros C U. destruct (canonical_dec_inv l C) as (m & E & D). congruence.
Qed.
