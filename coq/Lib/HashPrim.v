(* Hand model of allmydata.util.hashutil._SHA256d_Hasher (pinned by AST
   fingerprint in Gen/Hashutil.v): an accumulating SHA-256d hasher whose
   digest is optionally truncated.  `if self.truncate_to:` is a truthiness
   test, so Some 0 behaves like None. *)
From Coq Require Import List NArith Bool.
From Verif Require Import Lib.SHA256.
Import ListNotations.
Local Open Scope N_scope.

Record hasher := { h_trunc : option N; h_acc : list N }.

Definition mk_hasher (t : option N) : hasher := {| h_trunc := t; h_acc := [] |}.
Definition hasher_update (h : hasher) (d : list N) : hasher :=
  {| h_trunc := h_trunc h; h_acc := h_acc h ++ d |}.

Definition sha256d (m : list N) : list N := sha256 (sha256 m).

Definition truncate (t : option N) (d : list N) : list N :=
  match t with
  | Some n => if n =? 0 then d else firstn (N.to_nat n) d
  | None => d
  end.

Definition hasher_digest (h : hasher) : list N := truncate (h_trunc h) (sha256d (h_acc h)).

(* hashutil._xor / hashutil.hmac (pinned) *)
Definition xor_bytes (a : list N) (b : N) : list N := map (fun c => N.lxor c b) a.
Definition hmac (tag data : list N) : list N :=
  let ikey := xor_bytes tag 54 in
  let okey := xor_bytes tag 92 in
  sha256 (okey ++ sha256 (ikey ++ data)).
