(* A byte-array file system at system-call granularity.

   A file is its content (list of bytes, `list N`); a file system maps keys
   (paths) to files.  Directories are implicit: a path exists iff a file is
   stored under it.  Low-level operations are the system calls the storage code
   issues: creat/open(O_TRUNC), pwrite, ftruncate, rename, unlink.  Each is
   atomic with respect to a crash.  A storage operation is a *list* of such
   calls; the states a crash can leave behind are the results of running the
   prefixes of that list (`crash_prefixes`).

   Semantics are POSIX: a write past the end of the file zero-fills the hole, a
   zero-length write changes nothing, ftruncate shortens or zero-extends,
   rename replaces the destination, calls on a missing file change nothing
   (the real call raises; the storage code never issues one, see Model/Crash.v). *)
From Coq Require Import List Arith NArith Bool Lia.
Import ListNotations.
Local Open Scope N_scope.

Definition file := list N.

Definition flen (f : list N) : N := N.of_nat (length f).

Definition zeros (n : N) : list N := repeat 0 (N.to_nat n).

(* bytes [off, off+len) of f, clipped to the end of f (what seek+read returns) *)
Definition sub (off len : N) (f : list N) : list N :=
  firstn (N.to_nat len) (skipn (N.to_nat off) f).

Definition write_at (f : file) (off : N) (bs : list N) : file :=
  match bs with
  | [] => f
  | _ => firstn (N.to_nat off) f ++ zeros (off - flen f) ++ bs
         ++ skipn (N.to_nat off + length bs) f
  end.

Definition truncate (f : file) (n : N) : file :=
  firstn (N.to_nat n) f ++ zeros (n - flen f).

(* operations on one open file *)
Inductive fop :=
| FWrite (off : N) (bs : list N)
| FTrunc (n : N).

Definition apply_fop (o : fop) (f : file) : file :=
  match o with
  | FWrite off bs => write_at f off bs
  | FTrunc n => truncate f n
  end.

Definition run_fops (ops : list fop) (f : file) : file :=
  fold_left (fun f o => apply_fop o f) ops f.

Section FS.
  Variable K : Type.
  Variable keqb : K -> K -> bool.

  Definition fs := K -> option file.

  Definition empty_fs : fs := fun _ => None.

  Inductive op :=
  | Create (p : K)                          (* open(p, "wb"): create or truncate to empty *)
  | WriteAt (p : K) (off : N) (bs : list N)  (* seek(off); write(bs) on an open file *)
  | Truncate (p : K) (n : N)
  | Rename (src dst : K)
  | Unlink (p : K).

  Definition upd (s : fs) (p : K) (v : option file) : fs :=
    fun q => if keqb q p then v else s q.

  Definition apply_op (o : op) (s : fs) : fs :=
    match o with
    | Create p => upd s p (Some [])
    | WriteAt p off bs =>
        match s p with
        | Some f => let v := Some (write_at f off bs) in upd s p v
        | None => s
        end
    | Truncate p n =>
        match s p with
        | Some f => let v := Some (truncate f n) in upd s p v
        | None => s
        end
    | Rename a b =>
        match s a with
        | Some f => upd (upd s a None) b (Some f)
        | None => s
        end
    | Unlink p => upd s p None
    end.

  Definition run (ops : list op) (s : fs) : fs :=
    fold_left (fun s o => apply_op o s) ops s.

  (* every state a crash during `ops` can leave: the first k calls completed *)
  Definition crash_prefixes (ops : list op) : list (list op) :=
    map (fun k => firstn k ops) (seq 0 (S (length ops))).

  Definition targets (o : op) : list K :=
    match o with
    | Create p | WriteAt p _ _ | Truncate p _ | Unlink p => [p]
    | Rename a b => [a; b]
    end.

  Definition lift (p : K) (o : fop) : op :=
    match o with
    | FWrite off bs => WriteAt p off bs
    | FTrunc n => Truncate p n
    end.

  (* ---------------------------------------------------------------- lemmas *)
  Hypothesis keqb_eq : forall a b, keqb a b = true <-> a = b.

  Lemma keqb_refl a : keqb a a = true.
  Proof. apply keqb_eq. reflexivity. Qed.

  Lemma keqb_neq a b : a <> b -> keqb a b = false.
  Proof.
    intro H. destruct (keqb a b) eqn:E; [|reflexivity].
    apply keqb_eq in E. contradiction.
  Qed.

  Lemma upd_same s p v : upd s p v p = v.
  Proof. unfold upd. rewrite keqb_refl. reflexivity. Qed.

  Lemma upd_other s p v q : q <> p -> upd s p v q = s q.
  Proof. intro H. unfold upd. rewrite (keqb_neq q p H). reflexivity. Qed.

  Lemma run_app a b s : run (a ++ b) s = run b (run a s).
  Proof. unfold run. apply fold_left_app. Qed.

  Lemma run_cons o ops s : run (o :: ops) s = run ops (apply_op o s).
  Proof. reflexivity. Qed.

  Lemma apply_op_untouched o s q : ~ In q (targets o) -> apply_op o s q = s q.
  Proof.
    destruct o as [p|p off bs|p n|a b|p]; simpl; intro H.
    - apply upd_other. intuition.
    - destruct (s p); [|reflexivity]. apply upd_other. intuition.
    - destruct (s p); [|reflexivity]. apply upd_other. intuition.
    - destruct (s a); [|reflexivity].
      rewrite upd_other by intuition. apply upd_other. intuition.
    - apply upd_other. intuition.
  Qed.

  Lemma run_untouched ops : forall s q,
    (forall o, In o ops -> ~ In q (targets o)) -> run ops s q = s q.
  Proof.
    induction ops as [|o ops IH]; intros s q H; [reflexivity|].
    rewrite run_cons, IH.
    - apply apply_op_untouched. apply H. left. reflexivity.
    - intros o' Ho'. apply H. right. exact Ho'.
  Qed.

  Lemma In_firstn {A} (x : A) k l : In x (firstn k l) -> In x l.
  Proof.
    revert l; induction k as [|k IH]; intros [|y l]; simpl; intuition.
  Qed.

  Lemma crash_prefixes_spec ops pre :
    In pre (crash_prefixes ops) <-> exists k, (k <= length ops)%nat /\ pre = firstn k ops.
  Proof.
    unfold crash_prefixes. rewrite in_map_iff. split.
    - intros [k [E Hk]]. apply in_seq in Hk. exists k. split; [lia|congruence].
    - intros [k [Hk E]]. exists k. split; [congruence|]. apply in_seq. lia.
  Qed.

  Lemma crash_prefix_firstn ops k : In (firstn k ops) (crash_prefixes ops).
  Proof.
    apply crash_prefixes_spec. exists (Nat.min k (length ops)). split; [lia|].
    destruct (Nat.le_ge_cases k (length ops)) as [H|H].
    - rewrite Nat.min_l by exact H. reflexivity.
    - rewrite Nat.min_r by exact H. rewrite !firstn_all2; [reflexivity|lia|exact H].
  Qed.

  Lemma crash_prefix_nil ops : In [] (crash_prefixes ops).
  Proof. apply (crash_prefix_firstn ops 0). Qed.

  Lemma crash_prefix_all ops : In ops (crash_prefixes ops).
  Proof.
    pose proof (crash_prefix_firstn ops (length ops)) as H.
    rewrite firstn_all in H. exact H.
  Qed.

  Lemma crash_prefix_In ops pre o : In pre (crash_prefixes ops) -> In o pre -> In o ops.
  Proof.
    intros H Ho. apply crash_prefixes_spec in H. destruct H as [k [_ E]]. subst pre.
    eapply In_firstn. exact Ho.
  Qed.

  (* a crash leaves untouched every path that no call of the operation names *)
  Lemma crash_untouched ops pre s q :
    In pre (crash_prefixes ops) ->
    (forall o, In o ops -> ~ In q (targets o)) ->
    run pre s q = s q.
  Proof.
    intros Hp H. apply run_untouched. intros o Ho. apply H.
    eapply crash_prefix_In; eassumption.
  Qed.

  (* calls on one open file act on that file only *)
  Lemma run_lift_same p fops : forall s f,
    s p = Some f -> run (map (lift p) fops) s p = Some (run_fops fops f).
  Proof.
    induction fops as [|o fops IH]; intros s f Hs; [exact Hs|].
    simpl map. rewrite run_cons. unfold run_fops. simpl fold_left.
    apply IH. destruct o as [off bs|n]; simpl; rewrite Hs; cbv zeta; apply upd_same.
  Qed.

  Lemma run_lift_missing p fops : forall s q,
    s p = None -> run (map (lift p) fops) s q = s q.
  Proof.
    induction fops as [|o fops IH]; intros s q Hs; [reflexivity|].
    simpl map. rewrite run_cons.
    assert (E : apply_op (lift p o) s = s) by (destruct o; simpl; rewrite Hs; reflexivity).
    rewrite E. apply IH. exact Hs.
  Qed.

  Lemma lift_targets p o : targets (lift p o) = [p].
  Proof. destruct o; reflexivity. Qed.

  Lemma run_lift_other p fops s q : q <> p -> run (map (lift p) fops) s q = s q.
  Proof.
    intro H. apply run_untouched. intros o Ho. apply in_map_iff in Ho.
    destruct Ho as [fo [E _]]. subst o. rewrite lift_targets. simpl. intuition.
  Qed.
End FS.

Arguments Create {K}.
Arguments WriteAt {K}.
Arguments Truncate {K}.
Arguments Rename {K}.
Arguments Unlink {K}.
Arguments empty_fs {K}.
Arguments upd {K}.
Arguments apply_op {K}.
Arguments run {K}.
Arguments crash_prefixes {K}.
Arguments targets {K}.
Arguments lift {K}.
