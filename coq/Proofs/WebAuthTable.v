(* C41: facts about the regenerated table Gen/WebOps.v, all by computation on the table itself.
   When the source changes, these are the obligations that move. *)
From Coq Require Import List NArith Bool String.
From Verif Require Import Gen.WebOps Model.WebAuth.
Import ListNotations.
Local Open Scope string_scope.

(* ---- coverage: every dispatch entry has a script, every call is known, the script's calls are the entry's ---- *)
Fixpoint script_calls (s : script) : list string :=
  match s with
  | Call c k => c :: script_calls k
  | If _ a b => script_calls a ++ script_calls b
  | _ => []
  end.

Definition subset (a b : list string) : bool := forallb (fun x => existsb (String.eqb x) b) a.
Definition same_set (a b : list string) : bool := subset a b && subset b a.

Definition known_call (c : string) : bool := match call_sem c with Some _ => true | None => false end.

Definition entry_covered (e : web_op) : bool :=
  match op_script (wo_class e) (wo_method e) (wo_t e) with
  | Some s => forallb (fun c => known_call (fst c)) (wo_calls e) && same_set (script_calls s) (map fst (wo_calls e))
  | None => false
  end.

Lemma table_covered_ok : forall e, In e web_ops -> entry_covered e = true.
Proof. apply forallb_forall. vm_compute. reflexivity. Qed.

(* every (class, method) with a t= dispatch refuses unmatched values; the three DELETE handlers take any t *)
Definition defaults_ok : bool :=
  forallb (fun d => snd d || String.eqb (snd (fst d)) "DELETE") web_defaults.

Lemma defaults_refuse_ok : defaults_ok = true.
Proof. vm_compute. reflexivity. Qed.

(* the handlers for verify caps / unknown caps and for /file have no modifying method at all *)
Lemma passive_handlers_ok :
  assoc "UnknownNodeHandler" handler_methods = Some [] /\ assoc "FileHandler" handler_methods = Some []
  /\ file_handler_get_head_only = true.
Proof. vm_compute. repeat split; reflexivity. Qed.

(* no getChild other than DirectoryNodeHandler's reaches a mutating node-layer call *)
Definition other_getchild_ok : bool :=
  forallb (fun cc => forallb (fun c => negb (match call_sem c with Some k => is_mutating k | None => false end)) (snd cc))
          other_getchild_calls.
Lemma other_getchild_passive_ok : other_getchild_ok = true.
Proof. vm_compute. reflexivity. Qed.

(* DirectoryNodeHandler._got_child creates only through create_subdirectory *)
Lemma getchild_calls_ok :
  getchild_calls = ["node.get"; "node.create_subdirectory"; "PlaceHolderNodeHandler"; "make_handler_for"].
Proof. reflexivity. Qed.

(* ---- structure of the DirectoryNode mutators the model (dn_refusal & co) was written for ---- *)
Definition dn_is_mutator_call (c : string) : bool :=
  existsb (String.eqb c) ["self.set_node"; "self.set_nodes"; "self.delete"; "self.set_children"; "self.set_uri";
                          "self.add_file"; "self.create_subdirectory"; "self.move_child_to"; "self.set_metadata_for";
                          "new_parent.set_node"; "new_parent.delete"; "new_parent.set_nodes"; "new_parent.add_file";
                          "new_parent.set_children"; "new_parent.set_uri"; "new_parent.create_subdirectory"].

Definition dn_mutator_structure : list (string * bool * list string) :=
  map (fun r => (dn_name r, dn_modifies r, filter dn_is_mutator_call (dn_calls r)))
      (filter (fun r => dn_modifies r || existsb dn_is_mutator_call (dn_calls r)) dn_methods).

Lemma dn_structure_ok :
  dn_mutator_structure =
  [ ("set_metadata_for", true, []); ("set_uri", false, ["self.set_node"]); ("set_children", true, []);
    ("set_node", true, []); ("set_nodes", true, []); ("add_file", false, ["self.set_node"]);
    ("delete", true, []); ("create_subdirectory", true, []);
    ("move_child_to", false, ["new_parent.set_node"; "self.delete"]) ].
Proof. vm_compute. reflexivity. Qed.

(* ---- which calls are refused on a read-only target, as a function of the regenerated guard flags ---- *)
Definition ro_version_refuses (m : string) : bool :=
  flag m mfn_via_version && best_version_is_mutable_version && ro_node_gets_readable_version && flag m mfv_asserts.

Definition dn_safe (dn : string) : bool := dn_guards_self dn || ro_version_refuses "modify".

Definition dn_safe_call (dn : string) : bool :=
  if String.eqb dn "set_uri" || String.eqb dn "add_file" then dn_guards_self dn || dn_safe "set_node" else dn_safe dn.

Definition call_safe (ec : list (string * bool)) (c : string) : bool :=
  match call_sem c with
  | None => false
  | Some (KMutDir _ dn) => dn_safe_call dn
  | Some KMove => dn_guards_self "move_child_to"
  | Some KOverwrite => flag c ec || ro_version_refuses "overwrite"
  | Some KUpdate => flag c ec || flag "update" mfv_asserts
  | Some _ => true
  end.

Fixpoint script_safe (ec : list (string * bool)) (s : script) : bool :=
  match s with
  | Call c k => call_safe ec c && script_safe ec k
  | If _ a b => script_safe ec a && script_safe ec b
  | _ => true
  end.

Definition entry_safe (e : web_op) : bool :=
  match op_script (wo_class e) (wo_method e) (wo_t e) with
  | Some s => script_safe (wo_calls e) s
  | None => false
  end.

Lemma all_entries_safe : forall e, In e web_ops -> entry_safe e = true.
Proof. apply forallb_forall. vm_compute. reflexivity. Qed.

Lemma traversal_mkdir_safe : dn_safe "create_subdirectory" = true.
Proof. vm_compute. reflexivity. Qed.

Lemma move_checks_destination : dn_guards_other "move_child_to" "new_parent" || dn_safe "set_node" = true.
Proof. vm_compute. reflexivity. Qed.

(* get_write_uri of the node classes that can be read-only hides the cap when read-only *)
Lemma write_uri_shapes_ok :
  assoc "DirectoryNode" write_uri_sources = Some "unless_readonly"
  /\ assoc "MutableFileNode" write_uri_sources = Some "unless_readonly"
  /\ assoc "ImmutableFileNode" write_uri_sources = Some "never"
  /\ assoc "LiteralFileNode" write_uri_sources = Some "never"
  /\ assoc "UnknownNode" write_uri_sources = Some "stored:rw_uri".
Proof. vm_compute. repeat split; reflexivity. Qed.

(* every rw_uri field of the JSON renderers comes from <node>.get_write_uri() *)
Lemma rw_uri_emitters_ok :
  rw_uri_emitters = [("_file_json_metadata", "filenode"); ("_directory_json_metadata", "dirnode");
                     ("_directory_json_metadata", "childnode"); ("UnknownJSONMetadata", "node")].
Proof. reflexivity. Qed.
