(* C12, trace level: once a cell has been overwritten by another writer after writer j's
   survey, it never again holds the value j saw -- so an applied write of j always lands on
   a cell that was NOT touched by anybody else since j's survey.  Uses that version ids are
   fresh: a publish surveys once (hypothesis `single_survey`), writer j writes new_version j,
   nobody writes the old id 0. *)
From Coq Require Import List NArith Bool Lia Arith.
From Verif Require Import Model.TestAndSet Proofs.TestAndSet.
Import ListNotations.
Local Open Scope N_scope.

Definition applied (s : sys) (e : ev) : bool :=
  match e with
  | Survey _ => false
  | Write j i =>
      match nth_error (ws s) j with
      | Some w =>
          match snapshot w, nth_error (cells s) i with
          | Some snap, Some cur =>
              match nth_error snap i with Some seen => cur =? seen | None => false end
          | _, _ => false
          end
      | None => false
      end
  end.

(* ghost: dirty g j = the cells to which ANOTHER writer's write was applied since j's survey *)
Record gstate := { gs : sys; dirty : nat -> list nat }.

Definition gstep (g : gstate) (e : ev) : gstate :=
  match e with
  | Survey j => {| gs := step (gs g) e; dirty := fun x => if Nat.eqb x j then [] else dirty g x |}
  | Write j i =>
      if applied (gs g) e
      then {| gs := step (gs g) e; dirty := fun x => if Nat.eqb x j then dirty g x else i :: dirty g x |}
      else {| gs := step (gs g) e; dirty := dirty g |}
  end.

Definition ginit (ncells nwriters : nat) : gstate := {| gs := init ncells nwriters; dirty := fun _ => [] |}.
Definition grun (ncells nwriters : nat) (evs : list ev) : gstate := fold_left gstep evs (ginit ncells nwriters).

Lemma gstep_gs g e : gs (gstep g e) = step (gs g) e.
Proof. destruct e; cbn [gstep gs]; [reflexivity|]. destruct (applied (gs g) (Write j i)); reflexivity. Qed.

Lemma grun_gs ncells n evs : gs (grun ncells n evs) = run ncells n evs.
Proof.
  unfold grun, run.
  assert (G : forall evs g, gs (fold_left gstep evs g) = fold_left step evs (gs g)).
  { induction evs0 as [|e r IH]; intro g; [reflexivity|]. cbn [fold_left]. rewrite IH, gstep_gs. reflexivity. }
  apply G.
Qed.

(* a publish surveys once: Survey j is issued only while j has no snapshot *)
Definition survey_ok (s : sys) (e : ev) : Prop :=
  match e with
  | Survey j => forall w, nth_error (ws s) j = Some w -> snapshot w = None
  | Write _ _ => True
  end.

Fixpoint single_survey_from (s : sys) (evs : list ev) : Prop :=
  match evs with
  | [] => True
  | e :: r => survey_ok s e /\ single_survey_from (step s e) r
  end.

Definition single_survey (ncells n : nat) (evs : list ev) : Prop := single_survey_from (init ncells n) evs.

Lemma new_version_inj a b : new_version a = new_version b -> a = b.
Proof. unfold new_version. lia. Qed.
Lemma new_version_nz a : new_version a <> 0.
Proof. unfold new_version. lia. Qed.

(* ---- the invariant ---- *)
Record WInv (g : gstate) (j : nat) (w : wstate) : Prop := {
  wi_R : forall i, nth_error (cells (gs g)) i = Some (new_version j) -> In i (acked w);
  wi_none : snapshot w = None -> acked w = [];
  wi_S : forall snap i v, snapshot w = Some snap -> nth_error snap i = Some v -> v <> new_version j;
  wi_U : forall snap i j2, snapshot w = Some snap -> nth_error snap i = Some (new_version j2) ->
           exists w2, nth_error (ws (gs g)) j2 = Some w2 /\ In i (acked w2);
  wi_P : forall snap i cur seen, snapshot w = Some snap -> In i (acked w) ->
           nth_error (cells (gs g)) i = Some cur -> nth_error snap i = Some seen -> cur <> seen;
  wi_T : forall snap i cur seen, snapshot w = Some snap -> In i (dirty g j) ->
           nth_error (cells (gs g)) i = Some cur -> nth_error snap i = Some seen -> cur <> seen
}.

Definition GInv (g : gstate) : Prop :=
  forall j w, nth_error (ws (gs g)) j = Some w -> WInv g j w.

Lemma ginv_init ncells n : GInv (ginit ncells n).
Proof.
  intros j w Hw. cbn in Hw. apply nth_error_In, repeat_spec in Hw. subst w.
  split; cbn; try discriminate; auto.
  intros i Hi. apply nth_error_In, repeat_spec in Hi. exfalso. apply (new_version_nz j). auto.
Qed.

Lemma nth_error_set_nth {A} n m (x : A) l :
  nth_error (set_nth n x l) m = if Nat.eqb n m then (if Nat.ltb n (length l) then Some x else None) else nth_error l m.
Proof.
  destruct (Nat.eqb_spec n m) as [->|Hne].
  - destruct (Nat.ltb_spec m (length l)) as [Hl|Hl].
    + apply nth_error_set_nth_same, Hl.
    + clear -Hl. revert m Hl. induction l as [|y r IH]; intros [|m] Hl; cbn in *; auto; try lia. apply IH. lia.
  - apply nth_error_set_nth_other, Hne.
Qed.

Lemma ws_lookup_after {A} (l : list A) j (w w' : A) x wx :
  nth_error l j = Some w ->
  nth_error (set_nth j w' l) x = Some wx ->
  (x = j /\ wx = w') \/ (x <> j /\ nth_error l x = Some wx).
Proof.
  intros Hj H. rewrite nth_error_set_nth in H.
  destruct (Nat.eqb_spec j x) as [->|Hne].
  - assert (Hl : (x < length l)%nat) by (apply nth_error_Some; congruence).
    apply Nat.ltb_lt in Hl. rewrite Hl in H. inversion H. left. auto.
  - right. split; [congruence|exact H].
Qed.

Lemma cells_lookup_after (l : list vid) i v x c :
  nth_error (set_nth i v l) x = Some c ->
  (x = i /\ c = v) \/ (x <> i /\ nth_error l x = Some c).
Proof.
  intro H. rewrite nth_error_set_nth in H.
  destruct (Nat.eqb_spec i x) as [->|Hne].
  - destruct (Nat.ltb x (length l)); inversion H. left. auto.
  - right. split; [congruence|exact H].
Qed.

(* every cell holds the old id or the id of an existing writer *)
Definition VInv (s : sys) : Prop :=
  forall i v, nth_error (cells s) i = Some v -> v = 0 \/ exists j2 w2, v = new_version j2 /\ nth_error (ws s) j2 = Some w2.

Definition Inv (g : gstate) : Prop := GInv g /\ VInv (gs g).

Lemma inv_init ncells n : Inv (ginit ncells n).
Proof.
  split; [apply ginv_init|]. intros i v H. cbn in H. apply nth_error_In, repeat_spec in H. left. exact H.
Qed.

(* ---- Survey ---- *)
Lemma inv_survey g j : Inv g -> survey_ok (gs g) (Survey j) -> Inv (gstep g (Survey j)).
Proof.
  intros [HG HV] Hok. cbn [gstep]. cbn [step].
  destruct (nth_error (ws (gs g)) j) as [w|] eqn:Hw; [|split; [|exact HV]].
  2: { intros x wx Hx. cbn [gs] in *. specialize (HG x wx Hx). destruct HG as [R N S U P T].
       split; cbn [gs dirty]; auto.
       intros snap i cur seen Hs Hd. destruct (Nat.eqb x j); [contradiction|]. eapply T; eauto. }
  pose proof (Hok w Hw) as Hnone.
  pose proof (HG j w Hw) as [Rj Nj Sj Uj Pj Tj].
  specialize (Nj Hnone).
  split.
  - intros x wx Hx. cbn [gs ws cells dirty] in *.
    destruct (ws_lookup_after _ _ _ _ _ _ Hw Hx) as [[-> ->]|[Hne Hold]].
    + (* the surveying writer *)
      split; cbn [snapshot acked w_surprised gs cells ws dirty].
      * intros i Hi. apply Rj, Hi.
      * discriminate.
      * intros snap i v Hs Hn Hv. inversion Hs; subst snap. subst v. apply Rj in Hn. rewrite Nj in Hn. contradiction.
      * intros snap i j2 Hs Hn. inversion Hs; subst snap.
        destruct (HV i _ Hn) as [H0|[j3 [w3 [Hv3 Hw3]]]]; [exfalso; apply (new_version_nz j2); auto|].
        apply new_version_inj in Hv3. subst j3.
        pose proof (HG j2 w3 Hw3) as [R3 _ _ _ _ _]. specialize (R3 i Hn).
        destruct (Nat.eq_dec j2 j) as [->|Hne].
        -- rewrite Hw in Hw3. inversion Hw3; subst w3. rewrite Nj in R3. contradiction.
        -- exists w3. split; [|exact R3]. rewrite nth_error_set_nth_other by congruence. exact Hw3.
      * intros snap i cur seen _ Hin. rewrite Nj in Hin. contradiction.
      * intros snap i cur seen _ Hin. rewrite Nat.eqb_refl in Hin. contradiction.
    + pose proof (HG x wx Hold) as [R N S U P T].
      split; cbn [gs cells ws dirty]; auto.
      * intros snap i j2 Hs Hn. destruct (U snap i j2 Hs Hn) as [w2 [Hw2 Hin]].
        destruct (Nat.eq_dec j2 j) as [->|Hn2].
        -- rewrite Hw in Hw2. inversion Hw2; subst w2. rewrite Nj in Hin. contradiction.
        -- exists w2. split; [|exact Hin]. rewrite nth_error_set_nth_other by congruence. exact Hw2.
      * intros snap i cur seen Hs Hd. apply Nat.eqb_neq in Hne. rewrite Hne in Hd. eapply T; eauto.
  - intros i v Hi. cbn [gs cells ws] in *. destruct (HV i v Hi) as [H0|[j2 [w2 [Hv Hw2]]]]; [left; exact H0|].
    right. destruct (Nat.eq_dec j2 j) as [->|Hn2].
    + eexists j, _. split; [exact Hv|]. apply nth_error_set_nth_same. apply nth_error_Some. congruence.
    + exists j2, w2. split; [exact Hv|]. rewrite nth_error_set_nth_other by congruence. exact Hw2.
Qed.

(* ---- Write ---- *)
Lemma inv_write g j i : Inv g -> Inv (gstep g (Write j i)).
Proof.
  intros [HG HV]. destruct g as [s0 d0]. cbn [gstep]. unfold applied. cbn [step gs dirty] in *.
  destruct (nth_error (ws s0) j) as [w|] eqn:Hw; [|split; assumption].
  destruct (snapshot w) as [snap|] eqn:Hs; [|split; assumption].
  destruct (nth_error (cells s0) i) as [cur|] eqn:Hc; [|split; assumption].
  destruct (nth_error snap i) as [seen|] eqn:Hn; [|split; assumption].
  pose proof (HG j w Hw) as [Rj Nj Sj Uj Pj Tj]. cbn [gs dirty] in Rj, Nj, Sj, Uj, Pj, Tj.
  destruct (cur =? seen) eqn:E.
  - (* applied *)
    apply N.eqb_eq in E. subst seen.
    assert (Hnd : ~ In i (d0 j)).
    { intro Hin. exact (Tj snap i cur cur Hs Hin Hc Hn eq_refl). }
    assert (Hna : ~ In i (acked w)).
    { intro Hin. exact (Pj snap i cur cur Hs Hin Hc Hn eq_refl). }
    split.
    + intros x wx Hx. cbn [gs ws cells dirty] in *.
      destruct (ws_lookup_after _ _ _ _ _ _ Hw Hx) as [[-> ->]|[Hne Hold]].
      * (* the writer itself *)
        split; cbn [snapshot acked w_surprised gs cells ws dirty].
        -- intros i0 Hi0. destruct (cells_lookup_after _ _ _ _ _ Hi0) as [[-> _]|[Hne0 Ho]]; [left; reflexivity|].
           right. apply Rj, Ho.
        -- try rewrite Hs; discriminate.
        -- intros snap0 i0 v Hs0 Hn0. try rewrite Hs in Hs0; inversion Hs0; subst snap0. eapply Sj; eauto.
        -- intros snap0 i0 j2 Hs0 Hn0. try rewrite Hs in Hs0; inversion Hs0; subst snap0.
           destruct (Uj snap i0 j2 Hs Hn0) as [w2 [Hw2 Hin]].
           destruct (Nat.eq_dec j2 j) as [->|Hn2].
           ++ rewrite Hw in Hw2. inversion Hw2; subst w2.
              eexists. split; [apply nth_error_set_nth_same; apply nth_error_Some; congruence|]. cbn. right. exact Hin.
           ++ exists w2. split; [|exact Hin]. rewrite nth_error_set_nth_other by congruence. exact Hw2.
        -- intros snap0 i0 cur0 seen0 Hs0 Hin0 Hc0 Hn0. try rewrite Hs in Hs0; inversion Hs0; subst snap0.
           destruct (cells_lookup_after _ _ _ _ _ Hc0) as [[-> ->]|[Hne0 Ho]].
           ++ intro Heq. subst seen0. exact (Sj snap i _ Hs Hn0 eq_refl).
           ++ destruct Hin0 as [->|Hin0]; [congruence|]. eapply Pj; eauto.
        -- intros snap0 i0 cur0 seen0 Hs0 Hin0 Hc0 Hn0. try rewrite Hs in Hs0; inversion Hs0; subst snap0.
           rewrite Nat.eqb_refl in Hin0.
           destruct (cells_lookup_after _ _ _ _ _ Hc0) as [[-> ->]|[Hne0 Ho]]; [contradiction|].
           eapply Tj; eauto.
      * (* another writer x *)
        pose proof (HG x wx Hold) as [R N S U P T]. cbn [gs dirty] in R, N, S, U, P, T.
        assert (Hfresh : forall snapx seenx, snapshot wx = Some snapx -> nth_error snapx i = Some seenx -> new_version j <> seenx).
        { intros snapx seenx Hsx Hnx Heq. subst seenx.
          destruct (U snapx i j Hsx Hnx) as [w2 [Hw2 Hin2]]. rewrite Hw in Hw2. inversion Hw2; subst w2. contradiction. }
        split; cbn [gs cells ws dirty].
        -- intros i0 Hi0. destruct (cells_lookup_after _ _ _ _ _ Hi0) as [[-> Hv]|[Hne0 Ho]].
           ++ apply new_version_inj in Hv. congruence.
           ++ apply R, Ho.
        -- exact N.
        -- exact S.
        -- intros snapx i0 j2 Hsx Hnx. destruct (U snapx i0 j2 Hsx Hnx) as [w2 [Hw2 Hin2]].
           destruct (Nat.eq_dec j2 j) as [->|Hn2].
           ++ rewrite Hw in Hw2. inversion Hw2; subst w2.
              eexists. split; [apply nth_error_set_nth_same; apply nth_error_Some; congruence|]. cbn. right. exact Hin2.
           ++ exists w2. split; [|exact Hin2]. rewrite nth_error_set_nth_other by congruence. exact Hw2.
        -- intros snapx i0 cur0 seen0 Hsx Hin0 Hc0 Hn0.
           destruct (cells_lookup_after _ _ _ _ _ Hc0) as [[-> ->]|[Hne0 Ho]]; [eapply Hfresh; eauto|eapply P; eauto].
        -- intros snapx i0 cur0 seen0 Hsx Hin0 Hc0 Hn0.
           apply Nat.eqb_neq in Hne. rewrite Hne in Hin0.
           destruct (cells_lookup_after _ _ _ _ _ Hc0) as [[-> ->]|[Hne0 Ho]]; [eapply Hfresh; eauto|].
           destruct Hin0 as [->|Hin0]; [congruence|]. eapply T; eauto.
    + intros i0 v Hi0. cbn [gs cells ws] in *.
      destruct (cells_lookup_after _ _ _ _ _ Hi0) as [[-> ->]|[Hne0 Ho]].
      * right. eexists j, _. split; [reflexivity|]. apply nth_error_set_nth_same. apply nth_error_Some. congruence.
      * destruct (HV i0 v Ho) as [H0|[j2 [w2 [Hv Hw2]]]]; [left; exact H0|]. right.
        destruct (Nat.eq_dec j2 j) as [->|Hn2].
        -- eexists j, _. split; [exact Hv|]. apply nth_error_set_nth_same. apply nth_error_Some. congruence.
        -- exists j2, w2. split; [exact Hv|]. rewrite nth_error_set_nth_other by congruence. exact Hw2.
  - (* refused: cells unchanged, only the surprised flag of j *)
    split.
    + intros x wx Hx. cbn [gs ws cells dirty] in *.
      destruct (ws_lookup_after _ _ _ _ _ _ Hw Hx) as [[-> ->]|[Hne Hold]].
      * split; cbn [snapshot acked w_surprised gs cells ws dirty].
        -- exact Rj.
        -- discriminate.
        -- intros snap0 i0 v Hs0 Hn0. inversion Hs0; subst snap0. eapply Sj; eauto.
        -- intros snap0 i0 j2 Hs0 Hn0. inversion Hs0; subst snap0.
           destruct (Uj snap i0 j2 Hs Hn0) as [w2 [Hw2 Hin]].
           destruct (Nat.eq_dec j2 j) as [->|Hn2].
           ++ rewrite Hw in Hw2. inversion Hw2; subst w2.
              eexists. split; [apply nth_error_set_nth_same; apply nth_error_Some; congruence|]. cbn. exact Hin.
           ++ exists w2. split; [|exact Hin]. rewrite nth_error_set_nth_other by congruence. exact Hw2.
        -- intros snap0 i0 cur0 seen0 Hs0 Hin0 Hc0 Hn0. inversion Hs0; subst snap0. eapply Pj; eauto.
        -- intros snap0 i0 cur0 seen0 Hs0 Hin0 Hc0 Hn0. inversion Hs0; subst snap0. eapply Tj; eauto.
      * pose proof (HG x wx Hold) as [R N S U P T]. cbn [gs dirty] in R, N, S, U, P, T.
        split; cbn [gs cells ws dirty]; auto.
        intros snapx i0 j2 Hsx Hnx. destruct (U snapx i0 j2 Hsx Hnx) as [w2 [Hw2 Hin2]].
        destruct (Nat.eq_dec j2 j) as [->|Hn2].
        -- rewrite Hw in Hw2. inversion Hw2; subst w2.
           eexists. split; [apply nth_error_set_nth_same; apply nth_error_Some; congruence|]. cbn. exact Hin2.
        -- exists w2. split; [|exact Hin2]. rewrite nth_error_set_nth_other by congruence. exact Hw2.
    + intros i0 v Hi0. cbn [gs cells ws] in *.
      destruct (HV i0 v Hi0) as [H0|[j2 [w2 [Hv Hw2]]]]; [left; exact H0|]. right.
      destruct (Nat.eq_dec j2 j) as [->|Hn2].
      * eexists j, _. split; [exact Hv|]. apply nth_error_set_nth_same. apply nth_error_Some. congruence.
      * exists j2, w2. split; [exact Hv|]. rewrite nth_error_set_nth_other by congruence. exact Hw2.
Qed.

Lemma inv_run_gen evs : forall g, Inv g -> single_survey_from (gs g) evs -> Inv (fold_left gstep evs g).
Proof.
  induction evs as [|e r IH]; intros g HI Hss; [exact HI|].
  cbn [fold_left]. destruct Hss as [Hok Hrest]. apply IH.
  - destruct e as [j|j i]; [apply inv_survey; assumption|apply inv_write; assumption].
  - rewrite gstep_gs. exact Hrest.
Qed.

Lemma inv_run ncells n evs : single_survey ncells n evs -> Inv (grun ncells n evs).
Proof. intro H. apply inv_run_gen; [apply inv_init|exact H]. Qed.

(* the trace-level statement: an applied write of writer j always lands on a cell that no
   other writer has written since j's survey *)
Lemma applied_write_on_untouched_cell_ok ncells n evs j i :
  single_survey ncells n evs ->
  applied (gs (grun ncells n evs)) (Write j i) = true ->
  ~ In i (dirty (grun ncells n evs) j).
Proof.
  intros Hss Ha Hin. destruct (inv_run ncells n evs Hss) as [HG _].
  set (g := grun ncells n evs) in *. unfold applied in Ha.
  destruct (nth_error (ws (gs g)) j) as [w|] eqn:Hw; [|discriminate].
  destruct (snapshot w) as [snap|] eqn:Hs; [|discriminate].
  destruct (nth_error (cells (gs g)) i) as [cur|] eqn:Hc; [|discriminate].
  destruct (nth_error snap i) as [seen|] eqn:Hn; [|discriminate].
  apply N.eqb_eq in Ha. destruct (HG j w Hw) as [_ _ _ _ _ T].
  exact (T snap i cur seen Hs Hin Hc Hn Ha).
Qed.

(* conversely: a write to a cell another writer has touched since the survey is refused, changes
   nothing on the server and leaves the writer surprised *)
Lemma touched_cell_write_refused_ok ncells n evs j i :
  single_survey ncells n evs ->
  In i (dirty (grun ncells n evs) j) ->
  applied (gs (grun ncells n evs)) (Write j i) = false /\
  cells (step (run ncells n evs) (Write j i)) = cells (run ncells n evs).
Proof.
  intros Hss Hin.
  assert (Ha : applied (gs (grun ncells n evs)) (Write j i) = false).
  { destruct (applied (gs (grun ncells n evs)) (Write j i)) eqn:E; [|reflexivity].
    exfalso. exact (applied_write_on_untouched_cell_ok ncells n evs j i Hss E Hin). }
  split; [exact Ha|]. rewrite grun_gs in Ha. unfold applied in Ha. cbn [step].
  destruct (nth_error (ws (run ncells n evs)) j) as [w|]; [|reflexivity].
  destruct (snapshot w); [|reflexivity].
  destruct (nth_error (cells (run ncells n evs)) i); [|reflexivity].
  destruct (nth_error l i); [|reflexivity]. rewrite Ha. reflexivity.
Qed.
