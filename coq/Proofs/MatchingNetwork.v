(* _reindex / _flow_network_for: the graph built from a servermap is a layered
   network whose server rows are the servermap's share lists under an injective
   numbering of the shares. *)
From Coq Require Import List NArith ZArith Bool Arith Lia.
From Verif Require Import Model.Matching Proofs.Matching Proofs.MatchingLists Proofs.MatchingAugment.
Import ListNotations.

(* ---------- the share table --------------------------------------------------------- *)

Definition tbl_inv (base : nat) (tbl : list (N * nat)) : Prop :=
  NoDup (map fst tbl) /\ map snd tbl = rev (seq base (length tbl)).

Lemma lookup_idx_In : forall s tbl i, lookup_idx s tbl = Some i -> In (s, i) tbl.
Proof.
  intros s. induction tbl as [|[k j] r IH]; intros i H; cbn [lookup_idx] in H; [discriminate|].
  destruct (N.eqb s k) eqn:E.
  - apply N.eqb_eq in E. subst k. inversion H; subst. left. reflexivity.
  - right. apply IH. exact H.
Qed.

Lemma lookup_idx_None : forall s tbl, lookup_idx s tbl = None <-> ~ In s (map fst tbl).
Proof.
  intros s. induction tbl as [|[k j] r IH]; cbn [lookup_idx map fst In].
  - split; [intros _ [] | reflexivity].
  - destruct (N.eqb s k) eqn:E.
    + apply N.eqb_eq in E. subst k. split; [discriminate | intros H; exfalso; apply H; left; reflexivity].
    + apply N.eqb_neq in E. rewrite IH. split.
      * intros H [H1|H1]; [apply E; symmetry; exact H1 | contradiction].
      * intros H H1. apply H. right. exact H1.
Qed.

Lemma lookup_idx_app_r : forall s new tbl, ~ In s (map fst new) -> lookup_idx s (new ++ tbl) = lookup_idx s tbl.
Proof.
  intros s. induction new as [|[k j] r IH]; intros tbl H; cbn [app lookup_idx]; [reflexivity|].
  cbn [map fst In] in H. destruct (N.eqb s k) eqn:E.
  - apply N.eqb_eq in E. exfalso. apply H. left. symmetry. exact E.
  - apply IH. intro H1. apply H. right. exact H1.
Qed.

Lemma NoDup_app_disjoint : forall (A : Type) (a b : list A) x, NoDup (a ++ b) -> In x b -> ~ In x a.
Proof.
  intros A a b x H Hb Ha. induction a as [|y r IH]; [destruct Ha|].
  cbn [app] in H. inversion H as [|z w Hn Hr]; subst. destruct Ha as [Ha|Ha].
  - subst y. apply Hn. apply in_app_iff. right. exact Hb.
  - apply IH; assumption.
Qed.

Lemma idx_of_stable : forall new tbl s, NoDup (map fst (new ++ tbl)) -> In s (map fst tbl) ->
  idx_of (new ++ tbl) s = idx_of tbl s.
Proof.
  intros new tbl s Hnd Hs. unfold idx_of. rewrite lookup_idx_app_r; [reflexivity|].
  rewrite map_app in Hnd. apply (NoDup_app_disjoint _ _ _ _ Hnd Hs).
Qed.

Lemma tbl_inv_range : forall base tbl s i, tbl_inv base tbl -> In (s, i) tbl -> base <= i < base + length tbl.
Proof.
  intros base tbl s i [_ H] Hin.
  assert (Hi : In i (map snd tbl)) by (apply in_map_iff; exists (s, i); split; [reflexivity | exact Hin]).
  rewrite H in Hi. apply in_rev in Hi. apply in_seq in Hi. exact Hi.
Qed.

Lemma NoDup_snd_functional : forall (l : list (N * nat)) a b i,
  NoDup (map snd l) -> In (a, i) l -> In (b, i) l -> a = b.
Proof.
  induction l as [|[k j] r IH]; intros a b i Hnd Ha Hb; [destruct Ha|].
  cbn [map snd] in Hnd. inversion Hnd as [|x y Hn Hr]; subst.
  destruct Ha as [Ha|Ha], Hb as [Hb|Hb].
  - inversion Ha; inversion Hb; subst. reflexivity.
  - inversion Ha; subst. exfalso. apply Hn. apply in_map_iff. exists (b, i). split; [reflexivity | exact Hb].
  - inversion Hb; subst. exfalso. apply Hn. apply in_map_iff. exists (a, i). split; [reflexivity | exact Ha].
  - eapply IH; eassumption.
Qed.

Lemma tbl_inv_snd_NoDup : forall base tbl, tbl_inv base tbl -> NoDup (map snd tbl).
Proof. intros base tbl [_ H]. rewrite H. apply NoDup_rev. apply seq_NoDup. Qed.

Lemma idx_of_In : forall tbl s, In s (map fst tbl) -> In (s, idx_of tbl s) tbl.
Proof.
  intros tbl s Hs. unfold idx_of. destruct (lookup_idx s tbl) as [i|] eqn:E.
  - apply lookup_idx_In. exact E.
  - apply lookup_idx_None in E. contradiction.
Qed.

Lemma idx_of_inj : forall base tbl s s', tbl_inv base tbl ->
  In s (map fst tbl) -> In s' (map fst tbl) -> idx_of tbl s = idx_of tbl s' -> s = s'.
Proof.
  intros base tbl s s' HT Hs Hs' E.
  pose proof (idx_of_In tbl s Hs) as H1. pose proof (idx_of_In tbl s' Hs') as H2. rewrite <- E in H2.
  apply (NoDup_snd_functional tbl s s' _ (tbl_inv_snd_NoDup _ _ HT) H1 H2).
Qed.

(* ---------- assign / reindex_rows ---------------------------------------------------- *)

Lemma assign_spec : forall shs base tbl tbl' num',
  tbl_inv base tbl -> assign shs tbl (base + length tbl) = (tbl', num') ->
  tbl_inv base tbl' /\ num' = base + length tbl' /\ (exists new, tbl' = new ++ tbl) /\
  (forall s, In s shs -> In s (map fst tbl')) /\
  (forall s, In s (map fst tbl') -> In s (map fst tbl) \/ In s shs).
Proof.
  induction shs as [|s r IH]; intros base tbl tbl' num' HT H; cbn [assign] in H.
  - inversion H; subst. split; [exact HT|]. split; [reflexivity|]. split; [exists []; reflexivity|].
    split; [intros s [] | intros s Hs; left; exact Hs].
  - destruct (lookup_idx s tbl) as [i|] eqn:El.
    + destruct (IH _ _ _ _ HT H) as [H1 [H2 [[new H3] [H4 H5]]]].
      split; [exact H1|]. split; [exact H2|]. split; [exists new; exact H3|]. split.
      * intros x [Hx|Hx]; [|apply H4; exact Hx]. subst x. subst tbl'. rewrite map_app. apply in_app_iff. right.
        apply lookup_idx_In in El. apply in_map_iff. exists (s, i). split; [reflexivity | exact El].
      * intros x Hx. destruct (H5 x Hx) as [Hl|Hr]; [left; exact Hl | right; right; exact Hr].
    + apply lookup_idx_None in El.
      assert (HT' : tbl_inv base ((s, base + length tbl) :: tbl)).
      { destruct HT as [T1 T2]. split.
        - cbn [map fst]. constructor; assumption.
        - cbn [map snd length]. rewrite T2, seq_S, rev_app_distr. reflexivity. }
      replace (S (base + length tbl)) with (base + length ((s, base + length tbl) :: tbl)) in H by (cbn [length]; lia).
      destruct (IH _ _ _ _ HT' H) as [H1 [H2 [[new H3] [H4 H5]]]].
      split; [exact H1|]. split; [exact H2|]. split.
      * exists (new ++ [(s, base + length tbl)]). rewrite <- app_assoc. exact H3.
      * split.
        -- intros x [Hx|Hx]; [|apply H4; exact Hx]. subst x. subst tbl'. rewrite map_app. apply in_app_iff. right.
           left. reflexivity.
        -- intros x Hx. destruct (H5 x Hx) as [[Hl|Hl]|Hr]; [right; left; exact Hl | left; exact Hl | right; right; exact Hr].
Qed.

Lemma reindex_rows_spec : forall rows base tbl rs t,
  tbl_inv base tbl -> reindex_rows rows tbl (base + length tbl) = (rs, t) ->
  tbl_inv base t /\ (exists new, t = new ++ tbl) /\
  rs = map (map (idx_of t)) rows /\
  (forall shs s, In shs rows -> In s shs -> In s (map fst t)) /\
  (forall s, In s (map fst t) -> In s (map fst tbl) \/ exists shs, In shs rows /\ In s shs).
Proof.
  induction rows as [|shs r IH]; intros base tbl rs t HT H; cbn [reindex_rows] in H.
  - inversion H; subst. split; [exact HT|]. split; [exists []; reflexivity|]. split; [reflexivity|].
    split; [intros shs s [] | intros s Hs; left; exact Hs].
  - destruct (assign shs tbl (base + length tbl)) as [tbl' num'] eqn:Ea.
    destruct (assign_spec _ _ _ _ _ HT Ea) as [A1 [A2 [[new1 A3] [A4 A5]]]].
    subst num'. destruct (reindex_rows r tbl' (base + length tbl')) as [rs' t'] eqn:Er.
    inversion H; subst rs t. clear H.
    destruct (IH _ _ _ _ A1 Er) as [R1 [[new2 R2] [R3 [R4 R5]]]].
    split; [exact R1|]. split; [exists (new2 ++ new1); rewrite <- app_assoc; subst; reflexivity|]. split.
    + cbn [map]. f_equal; [|exact R3].
      apply map_ext_in. intros s Hs. subst t'. symmetry. apply idx_of_stable.
      * apply R1.
      * apply A4. exact Hs.
    + split.
      * intros l s [Hl|Hl] Hs.
        -- subst l. subst t'. rewrite map_app. apply in_app_iff. right. apply A4. exact Hs.
        -- apply (R4 l s Hl Hs).
      * intros s Hs. destruct (R5 s Hs) as [Hl|[l [Hl Hsl]]].
        -- destruct (A5 s Hl) as [H1|H1]; [left; exact H1 | right; exists shs; split; [left; reflexivity | exact H1]].
        -- right. exists l. split; [right; exact Hl | exact Hsl].
Qed.

(* ---------- the network ------------------------------------------------------------- *)

Definition wf_svm (svm : servermap) : Prop :=
  NoDup (map fst svm) /\ forall p l, In (p, l) svm -> NoDup l.

Lemma NoDup_map_inj : forall (A B : Type) (h : A -> B) (l : list A),
  NoDup l -> (forall x y, In x l -> In y l -> h x = h y -> x = y) -> NoDup (map h l).
Proof.
  intros A B h l Hnd Hinj. induction Hnd as [|a r Ha Hr IH]; cbn [map]; [constructor|].
  constructor.
  - intro Hin. apply in_map_iff in Hin. destruct Hin as [b [Eb Hb]].
    assert (b = a) by (apply Hinj; [right; exact Hb | left; reflexivity | exact Eb]). subst b. contradiction.
  - apply IH. intros x y Hx Hy. apply Hinj; right; assumption.
Qed.

Section Network.
Variable svm : servermap.
Hypothesis Hwf : wf_svm svm.

Let g := fst (flow_network_for svm).
Let tbl := snd (flow_network_for svm).
Let ns := length svm.
Let nsh := length tbl.

Lemma fnf_unfold : exists rows,
  reindex_rows (map snd svm) [] (S ns) = (rows, tbl) /\
  g = (seq 1 ns :: rows) ++ repeat [ns + nsh + 1] nsh ++ [[]].
Proof.
  unfold g, tbl, nsh, tbl, flow_network_for. fold ns.
  destruct (reindex_rows (map snd svm) [] (S ns)) as [rows tb] eqn:E. cbn [fst snd].
  exists rows. split; reflexivity.
Qed.

Lemma tbl_facts :
  tbl_inv (S ns) tbl /\
  (forall p l s, In (p, l) svm -> In s l -> In s (map fst tbl)) /\
  (exists rows, rows = map (map (idx_of tbl)) (map snd svm) /\
     g = (seq 1 ns :: rows) ++ repeat [ns + nsh + 1] nsh ++ [[]]).
Proof.
  destruct fnf_unfold as [rows [Er Eg]].
  assert (HT0 : tbl_inv (S ns) []) by (split; [constructor | reflexivity]).
  replace (S ns) with (S ns + length (@nil (N * nat))) in Er by (cbn [length]; lia).
  destruct (reindex_rows_spec _ _ _ _ _ HT0 Er) as [R1 [_ [R3 [R4 _]]]].
  split; [exact R1|]. split.
  - intros p l s Hin Hs. apply (R4 l s); [|exact Hs]. apply in_map_iff. exists (p, l). split; [reflexivity | exact Hin].
  - exists rows. split; [exact R3 | exact Eg].
Qed.

Lemma adj_server : forall k p l, nth_error svm k = Some (p, l) -> adj g (S k) = map (idx_of tbl) l.
Proof.
  intros k p l Hk. destruct tbl_facts as [_ [_ [rows [Er Eg]]]].
  rewrite Eg. unfold adj. cbn [app nth].
  assert (Hlt : k < length rows).
  { rewrite Er, !map_length. apply nth_error_Some. rewrite Hk. discriminate. }
  rewrite app_nth1 by exact Hlt.
  rewrite Er. rewrite map_map.
  rewrite (nth_indep _ [] (map (idx_of tbl) (snd (p, l)))) by (rewrite map_length; apply nth_error_Some; rewrite Hk; discriminate).
  rewrite (map_nth (fun x : N * list N => map (idx_of tbl) (snd x)) svm (p, l) k).
  rewrite (nth_error_nth svm k (p, l) Hk). reflexivity.
Qed.

Lemma network_is_net : Net g ns nsh.
Proof.
  destruct tbl_facts as [HT [Hkeys [rows [Er Eg]]]].
  assert (Lr : length rows = ns) by (rewrite Er, !map_length; reflexivity).
  constructor.
  - rewrite Eg. rewrite !app_length, repeat_length. cbn [length]. lia.
  - rewrite Eg. reflexivity.
  - intros i Hi. destruct i as [|k]; [lia|].
    assert (Hk : k < length svm) by (fold ns; lia).
    destruct (nth_error svm k) as [[p l]|] eqn:Ek; [|apply nth_error_None in Ek; lia].
    rewrite (adj_server k p l Ek).
    assert (Hin : In (p, l) svm) by (eapply nth_error_In; exact Ek).
    split.
    + intros s Hs. apply in_map_iff in Hs. destruct Hs as [x [Ex Hx]]. subst s.
      pose proof (idx_of_In tbl x (Hkeys p l x Hin Hx)) as Hi'.
      pose proof (tbl_inv_range _ _ _ _ HT Hi') as Hr. fold nsh in Hr. lia.
    + apply NoDup_map_inj; [apply (proj2 Hwf p l Hin)|].
      intros x y Hx Hy. apply (idx_of_inj (S ns) tbl x y HT (Hkeys p l x Hin Hx) (Hkeys p l y Hin Hy)).
  - intros s Hs. rewrite Eg. unfold adj.
    rewrite app_nth2 by (cbn [length]; lia). cbn [length]. rewrite Lr.
    rewrite app_nth1 by (rewrite repeat_length; lia).
    apply nth_repeat_lt. lia.
  - rewrite Eg. unfold adj.
    rewrite app_nth2 by (cbn [length]; lia). cbn [length]. rewrite Lr.
    rewrite app_nth2 by (rewrite repeat_length; lia). rewrite repeat_length.
    replace (ns + nsh + 1 - S ns - nsh) with 0 by lia. reflexivity.
Qed.

(* ---------- positions of the servers --------------------------------------------------- *)

Fixpoint posN (p : N) (keys : list N) : nat :=
  match keys with
  | [] => 0
  | k :: r => if N.eqb p k then 0 else S (posN p r)
  end.

Lemma posN_nth_error : forall (l : servermap) p shs,
  NoDup (map fst l) -> In (p, shs) l -> nth_error l (posN p (map fst l)) = Some (p, shs).
Proof.
  induction l as [|[k v] r IH]; intros p shs Hnd Hin; [destruct Hin|].
  cbn [map fst posN]. cbn [map fst] in Hnd. inversion Hnd as [|x y Hn Hr]; subst.
  destruct (N.eqb p k) eqn:E.
  - apply N.eqb_eq in E. subst k. destruct Hin as [Hin|Hin]; [inversion Hin; subst; reflexivity|].
    exfalso. apply Hn. apply in_map_iff. exists (p, shs). split; [reflexivity | exact Hin].
  - apply N.eqb_neq in E. destruct Hin as [Hin|Hin]; [inversion Hin; subst; contradiction|].
    cbn [nth_error]. apply IH; assumption.
Qed.

Lemma posN_inj : forall keys p q, In p keys -> In q keys -> posN p keys = posN q keys -> p = q.
Proof.
  induction keys as [|k r IH]; intros p q Hp Hq E; [destruct Hp|].
  cbn [posN] in E. destruct (N.eqb p k) eqn:Ep; destruct (N.eqb q k) eqn:Eq.
  - apply N.eqb_eq in Ep. apply N.eqb_eq in Eq. subst. reflexivity.
  - discriminate.
  - discriminate.
  - apply N.eqb_neq in Ep. apply N.eqb_neq in Eq.
    destruct Hp as [Hp|Hp]; [exfalso; apply Ep; symmetry; exact Hp|].
    destruct Hq as [Hq|Hq]; [exfalso; apply Eq; symmetry; exact Hq|].
    apply IH; [assumption | assumption | lia].
Qed.

Definition vmap (e : N * N) : nat * nat := (S (posN (fst e) (map fst svm)), idx_of tbl (snd e)).

Lemma edge_vertex : forall p s, edge svm p s ->
  server ns (S (posN p (map fst svm))) /\ E g (S (posN p (map fst svm))) (idx_of tbl s) /\
  In p (map fst svm) /\ In s (map fst tbl).
Proof.
  intros p s [l [Hin Hs]]. destruct tbl_facts as [_ [Hkeys _]].
  pose proof (posN_nth_error svm p l (proj1 Hwf) Hin) as Hn.
  assert (Hlt : posN p (map fst svm) < ns) by (apply nth_error_Some; rewrite Hn; discriminate).
  split; [unfold server; lia|]. split.
  - unfold E. rewrite (adj_server _ p l Hn). apply in_map. exact Hs.
  - split; [apply in_map_iff; exists (p, l); split; [reflexivity | exact Hin] | apply (Hkeys p l s Hin Hs)].
Qed.

End Network.
