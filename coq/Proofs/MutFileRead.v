(* C09: a whole-file publish stores the segments of the data (segments_roundtrip) and
   Retrieve's range selection + trimming returns exactly the requested slice (read_range_exact). *)
From Coq Require Import List Arith NArith Bool Lia.
From Verif Require Import Lib.Hex Model.MutFile Proofs.MutFileLists.
Import ListNotations.

(* ---- tail segment size --------------------------------------------------------- *)
Definition tail_of (n seg : nat) : nat := if n mod seg =? 0 then seg else n mod seg.

Lemma tail_of_eq n seg : seg <> 0 -> 0 < n -> tail_of n seg = n - (div_ceil n seg - 1) * seg.
Proof.
  intros Hs Hn. unfold tail_of, div_ceil. destruct (divmod_eq n seg Hs) as [H1 H2].
  destruct (n mod seg =? 0) eqn:E.
  - apply Nat.eqb_eq in E. rewrite E in H1.
    assert (n / seg <> 0) by (intro Z; rewrite Z in H1; lia).
    replace (n / seg + 0 - 1) with (n / seg - 1) by lia. nia.
  - replace (n / seg + 1 - 1) with (n / seg) by lia. nia.
Qed.

Lemma tail_of_range n seg : seg <> 0 -> 0 < tail_of n seg <= seg.
Proof.
  intros Hs. unfold tail_of. destruct (divmod_eq n seg Hs) as [_ H2].
  destruct (n mod seg =? 0) eqn:E; [lia|]. apply Nat.eqb_neq in E. lia.
Qed.

(* ---- setup_encoding_parameters, field by field (segment size > 0) ---------------- *)
Lemma sep_seg sdmf maxseg k dl ds off :
  e_seg (setup_encoding_parameters sdmf maxseg k dl ds off) = seg_size_of sdmf maxseg k dl.
Proof. reflexivity. Qed.

Lemma sep_num sdmf maxseg k dl ds off : seg_size_of sdmf maxseg k dl <> 0 ->
  e_num (setup_encoding_parameters sdmf maxseg k dl ds off) = div_ceil dl (seg_size_of sdmf maxseg k dl).
Proof.
  intros H. unfold setup_encoding_parameters, seg_size_of in *. cbn [e_num].
  destruct (_ =? 0) eqn:E; [apply Nat.eqb_eq in E; contradiction|reflexivity].
Qed.

Lemma sep_num0 sdmf maxseg k dl ds off : seg_size_of sdmf maxseg k dl = 0 ->
  e_num (setup_encoding_parameters sdmf maxseg k dl ds off) = 0 /\ e_start (setup_encoding_parameters sdmf maxseg k dl ds off) = 0.
Proof.
  intros H. unfold setup_encoding_parameters, seg_size_of in *. cbn [e_num e_start]. rewrite H. split; reflexivity.
Qed.

Lemma sep_start sdmf maxseg k dl ds off : seg_size_of sdmf maxseg k dl <> 0 ->
  e_start (setup_encoding_parameters sdmf maxseg k dl ds off) = off / seg_size_of sdmf maxseg k dl.
Proof.
  intros H. unfold setup_encoding_parameters, seg_size_of in *. cbn [e_start].
  destruct (_ =? 0) eqn:E; [apply Nat.eqb_eq in E; contradiction|reflexivity].
Qed.

Lemma sep_tail sdmf maxseg k dl ds off : seg_size_of sdmf maxseg k dl <> 0 -> 0 < dl ->
  e_tail (setup_encoding_parameters sdmf maxseg k dl ds off) = tail_of dl (seg_size_of sdmf maxseg k dl).
Proof.
  intros H Hd. unfold setup_encoding_parameters, seg_size_of, tail_of in *. cbn [e_tail].
  destruct (next_multiple _ k =? 0) eqn:E; [apply Nat.eqb_eq in E; contradiction|].
  destruct (dl =? 0) eqn:E2; [apply Nat.eqb_eq in E2; lia|]. cbn [negb andb].
  destruct (dl mod _ =? 0); reflexivity.
Qed.

Lemma sep_end1_full sdmf maxseg k dl off :
  e_end1 (setup_encoding_parameters sdmf maxseg k dl dl off) = e_num (setup_encoding_parameters sdmf maxseg k dl dl off).
Proof. unfold setup_encoding_parameters. cbn [e_end1 e_num]. rewrite Nat.eqb_refl. reflexivity. Qed.

Lemma sep_end1_part sdmf maxseg k dl ds off : ds <> dl -> seg_size_of sdmf maxseg k dl <> 0 ->
  e_end1 (setup_encoding_parameters sdmf maxseg k dl ds off) = div_ceil ds (seg_size_of sdmf maxseg k dl).
Proof.
  intros Hne Hs. unfold setup_encoding_parameters, seg_size_of, div_ceil in *. cbn [e_end1].
  destruct (ds =? dl) eqn:E; [apply Nat.eqb_eq in E; contradiction|].
  destruct (ds mod _ =? 0); lia.
Qed.

(* ---- the push loop over a MutableData ------------------------------------------- *)
Lemma push_md_chunks (p : enc) (d : bytes) :
  e_seg p <> 0 -> 0 < length d ->
  e_num p = div_ceil (length d) (e_seg p) -> e_tail p = tail_of (length d) (e_seg p) ->
  forall n segnum pos, (n = 0 \/ pos = segnum * e_seg p) -> segnum + n <= e_num p ->
  push_md n segnum p d pos = Some (chunks_n n (e_seg p) (skipn pos d)).
Proof.
  intros Hs Hd Hnum Htail.
  pose proof (tail_of_eq (length d) (e_seg p) Hs Hd) as Teq.
  pose proof (tail_of_range (length d) (e_seg p) Hs) as Tr.
  destruct (div_ceil_bounds (length d) (e_seg p) Hs Hd) as [B1 B2].
  induction n as [|n IH]; intros segnum pos Hpos Hle; [reflexivity|].
  destruct Hpos as [Hpos|Hpos]; [discriminate|].
  cbn [push_md chunks_n]. unfold seg_read_size, md_read.
  destruct (segnum + 1 =? e_num p) eqn:E.
  - (* last segment of the file *)
    apply Nat.eqb_eq in E. assert (n = 0) by lia. subst n.
    assert (Hp : pos = (div_ceil (length d) (e_seg p) - 1) * e_seg p) by (rewrite <- Hnum, <- E, Hpos; f_equal; lia).
    rewrite slice_length.
    replace (Nat.min (pos + e_tail p - pos) (length d - pos)) with (e_tail p) by lia.
    rewrite Nat.eqb_refl. cbn [push_md chunks_n]. f_equal. f_equal.
    unfold slice. replace (pos + e_tail p - pos) with (e_tail p) by lia.
    rewrite !firstn_all2; try reflexivity; rewrite skipn_length; lia.
  - apply Nat.eqb_neq in E.
    assert (Hlt : (segnum + 1) * e_seg p <= (div_ceil (length d) (e_seg p) - 1) * e_seg p)
      by (apply Nat.mul_le_mono_r; lia).
    rewrite slice_length.
    replace (Nat.min (pos + e_seg p - pos) (length d - pos)) with (e_seg p) by lia.
    rewrite Nat.eqb_refl.
    rewrite (IH (S segnum) (pos + e_seg p)); [| right; lia | lia].
    f_equal. f_equal.
    + unfold slice. f_equal. lia.
    + f_equal. rewrite skipn_skipn. reflexivity.
Qed.

Lemma seg_size_sdmf_ge k n : 0 < k -> n <= seg_size_of true 0 k n.
Proof. intros. unfold seg_size_of. apply next_multiple_ge. assumption. Qed.

(* ---- publish stores the segments ---------------------------------------------------- *)
Lemma publish_represents sdmf maxseg k (d : bytes) :
  0 < k -> (sdmf = false -> 0 < maxseg) ->
  exists f, publish sdmf maxseg k d = Some f /\ represents sdmf maxseg k f d.
Proof.
  intros Hk Hm. unfold publish.
  destruct (k =? 0) eqn:Ek; [apply Nat.eqb_eq in Ek; lia|].
  set (p := setup_encoding_parameters sdmf maxseg k (length d) (length d) 0).
  set (seg := seg_size_of sdmf maxseg k (length d)).
  assert (Hseg : e_seg p = seg) by reflexivity.
  destruct (Nat.eq_dec seg 0) as [Z|NZ].
  - (* empty SDMF file *)
    assert (Hd : length d = 0).
    { unfold seg, seg_size_of in Z. destruct sdmf.
      - pose proof (next_multiple_ge (length d) k Hk). lia.
      - pose proof (next_multiple_pos maxseg k Hk (Hm eq_refl)). lia. }
    destruct (sep_num0 sdmf maxseg k (length d) (length d) 0 Z) as [Hnum Hst]. fold p in Hnum, Hst.
    assert (He : e_end1 p = 0) by (unfold p; rewrite sep_end1_full; exact Hnum).
    rewrite Hnum, He, Hst. cbn [Nat.leb negb andb Nat.sub push_md map].
    rewrite andb_false_r. eexists. split; [reflexivity|].
    unfold represents. cbn. repeat split; try reflexivity.
    change (next_multiple (if sdmf then length d else maxseg) k) with seg. rewrite Z. reflexivity.
  - assert (Hnum : e_num p = div_ceil (length d) seg) by (apply sep_num; exact NZ).
    assert (Hst : e_start p = 0) by (unfold p; rewrite sep_start by exact NZ; apply Nat.div_0_l; exact NZ).
    assert (He : e_end1 p = e_num p) by (unfold p; apply sep_end1_full).
    assert (Hle1 : sdmf = true -> e_num p <= 1).
    { intros HS. rewrite Hnum. destruct (Nat.eq_dec (length d) 0) as [L0|L0]; [rewrite L0, div_ceil_0 by exact NZ; lia|].
      rewrite (div_ceil_uniq (length d) seg 1); [lia|exact NZ|lia|].
      unfold seg, seg_size_of. rewrite HS. pose proof (next_multiple_ge (length d) k Hk). lia. }
    replace (sdmf && negb (e_num p <=? 1)) with false.
    2:{ destruct sdmf; [|reflexivity]. cbn. symmetry. apply negb_false_iff. apply Nat.leb_le. auto. }
    rewrite He, Hst, Nat.sub_0_r.
    destruct (Nat.eq_dec (length d) 0) as [L0|L0].
    + (* empty MDMF file: no segments *)
      rewrite Hnum. replace (div_ceil (length d) seg) with 0 by (rewrite L0, div_ceil_0 by exact NZ; reflexivity).
      cbn [push_md map].
      eexists. split; [reflexivity|]. unfold represents. cbn [mf_sdmf mf_k mf_segsize mf_len mf_segs].
      repeat split; try reflexivity.
      rewrite Hseg. unfold chunks. destruct (seg =? 0); [reflexivity|]. rewrite L0, div_ceil_0 by exact NZ. reflexivity.
    + assert (P1 : e_seg p <> 0) by (rewrite Hseg; exact NZ).
      assert (P2 : 0 < length d) by lia.
      assert (P3 : e_num p = div_ceil (length d) (e_seg p)) by (rewrite Hseg; exact Hnum).
      assert (P4 : e_tail p = tail_of (length d) (e_seg p)) by (rewrite Hseg; unfold p; apply sep_tail; [exact NZ|lia]).
      rewrite (push_md_chunks p d P1 P2 P3 P4 (e_num p) 0 0); [| right; reflexivity | lia].
      cbn [skipn]. eexists. split; [reflexivity|].
      unfold represents. cbn [mf_sdmf mf_k mf_segsize mf_len mf_segs].
      repeat split; try reflexivity.
      rewrite Hseg. unfold chunks. destruct (seg =? 0) eqn:E0; [apply Nat.eqb_eq in E0; contradiction|].
      rewrite Hnum. reflexivity.
Qed.

(* ---- what Retrieve decodes ------------------------------------------------------------ *)
Lemma pad_nil k : pad k [] = [].
Proof. unfold pad, next_multiple. destruct k; [reflexivity|]. rewrite div_ceil_0 by lia. reflexivity. Qed.

Lemma represents_seg_pos sdmf maxseg k f d :
  represents sdmf maxseg k f d -> 0 < k -> (sdmf = false -> 0 < maxseg) -> 0 < length d -> mf_segsize f <> 0.
Proof.
  intros (_ & _ & Hs & _ & _) Hk Hm Hd. rewrite Hs. unfold seg_size_of. destruct sdmf.
  - pose proof (next_multiple_ge (length d) k Hk). lia.
  - pose proof (next_multiple_pos maxseg k Hk (Hm eq_refl)). lia.
Qed.

Lemma represents_retr_num sdmf maxseg k f d :
  represents sdmf maxseg k f d -> 0 < k -> (sdmf = false -> 0 < maxseg) -> 0 < length d ->
  retr_num f = div_ceil (length d) (mf_segsize f).
Proof.
  intros R Hk Hm Hd. pose proof (represents_seg_pos _ _ _ _ _ R Hk Hm Hd) as NZ.
  destruct R as (_ & _ & _ & Hl & _). unfold retr_num. rewrite Hl.
  destruct (length d =? 0) eqn:E; [apply Nat.eqb_eq in E; lia|].
  destruct (mf_segsize f =? 0) eqn:E2; [apply Nat.eqb_eq in E2; contradiction|]. reflexivity.
Qed.

Lemma retr_num_empty f : mf_len f = 0 -> retr_num f = 0.
Proof. intros H. unfold retr_num. rewrite H. reflexivity. Qed.

Lemma decoded_segment_represents sdmf maxseg k f (d : bytes) i :
  represents sdmf maxseg k f d -> 0 < k -> (sdmf = false -> 0 < maxseg) ->
  i < retr_num f ->
  decoded_segment f i = slice (i * mf_segsize f) (i * mf_segsize f + mf_segsize f) d.
Proof.
  intros R Hk Hm Hi.
  assert (Hd : 0 < length d).
  { destruct (length d) eqn:L; [|lia]. destruct R as (_ & _ & _ & Hl & _). rewrite retr_num_empty in Hi by congruence. lia. }
  pose proof (represents_seg_pos _ _ _ _ _ R Hk Hm Hd) as NZ.
  pose proof (represents_retr_num _ _ _ _ _ R Hk Hm Hd) as Hn.
  destruct R as (_ & _ & _ & Hl & Hsegs).
  unfold decoded_segment. rewrite Hsegs.
  rewrite <- (pad_nil k) at 1. rewrite map_nth.
  rewrite Hn in Hi. rewrite chunks_nth by assumption.
  set (c := slice (i * mf_segsize f) (i * mf_segsize f + mf_segsize f) d).
  assert (Hc : length c = if S i =? div_ceil (length d) (mf_segsize f) then length d - i * mf_segsize f else mf_segsize f)
    by (apply chunk_len; assumption).
  assert (Hsz : (if i + 1 =? retr_num f then retr_tail_data f else mf_segsize f) = length c).
  { rewrite Hc, Hn. replace (i + 1) with (S i) by lia.
    destruct (S i =? div_ceil (length d) (mf_segsize f)) eqn:E; [|reflexivity].
    apply Nat.eqb_eq in E. unfold retr_tail_data. rewrite Hl.
    destruct (length d =? 0) eqn:E0; [apply Nat.eqb_eq in E0; lia|].
    destruct (mf_segsize f =? 0) eqn:E1; [apply Nat.eqb_eq in E1; contradiction|]. cbn [orb].
    fold (tail_of (length d) (mf_segsize f)). rewrite tail_of_eq by assumption. rewrite <- E. f_equal. f_equal. lia. }
  rewrite Hsz. unfold pad. rewrite firstn_app, Nat.sub_diag, firstn_O, app_nil_r. apply firstn_all.
Qed.

(* segments_roundtrip: the stored segments, decoded and trimmed, concatenate to the data *)
Lemma decoded_concat sdmf maxseg k f (d : bytes) :
  represents sdmf maxseg k f d -> 0 < k -> (sdmf = false -> 0 < maxseg) ->
  concat (map (decoded_segment f) (seq 0 (retr_num f))) = d.
Proof.
  intros R Hk Hm.
  destruct (Nat.eq_dec (length d) 0) as [L|L].
  - destruct R as (_ & _ & _ & Hl & _). rewrite retr_num_empty by congruence. destruct d; [reflexivity|discriminate].
  - assert (Hd : 0 < length d) by lia.
    pose proof (represents_seg_pos _ _ _ _ _ R Hk Hm Hd) as NZ.
    pose proof (represents_retr_num _ _ _ _ _ R Hk Hm Hd) as Hn.
    transitivity (concat (chunks (mf_segsize f) d)); [|apply concat_chunks; exact NZ].
    f_equal. apply nth_ext with (d := []) (d' := []).
    + rewrite map_length, seq_length, chunks_length by exact NZ. exact Hn.
    + intros i Hi. rewrite map_length, seq_length in Hi.
      rewrite (nth_indep _ [] (decoded_segment f 0)) by (rewrite map_length, seq_length; exact Hi).
      rewrite map_nth, seq_nth by exact Hi. cbn [Nat.add].
      rewrite (decoded_segment_represents sdmf maxseg k f d i R Hk Hm Hi).
      rewrite chunks_nth; [reflexivity|exact NZ|rewrite <- Hn; exact Hi].
Qed.

(* ---- trimming ----------------------------------------------------------------------- *)
Lemma concat_seg_slices (d : bytes) seg a b : seg <> 0 -> a <= b ->
  forall n start, 0 < n -> a < (start + 1) * seg -> (start + n - 1) * seg <= b ->
  concat (map (fun c => slice (Nat.max (c * seg) a) (Nat.min (c * seg + seg) b) d) (seq start n))
  = slice (Nat.max (start * seg) a) (Nat.min ((start + n) * seg) b) d.
Proof.
  intros Hs Hab. induction n as [|n IH]; intros start Hn Ha Hb; [lia|].
  cbn [seq map concat]. destruct n.
  - cbn [seq map concat]. rewrite app_nil_r. f_equal. f_equal. lia.
  - rewrite (IH (S start)); [| lia | nia | replace (S start + S n - 1) with (start + S (S n) - 1) by lia; exact Hb].
    assert ((start + 1) * seg <= (start + S (S n) - 1) * seg) by (apply Nat.mul_le_mono_r; lia).
    replace (Nat.min (start * seg + seg) b) with ((start + 1) * seg) by lia.
    replace (Nat.max (S start * seg) a) with ((start + 1) * seg) by lia.
    replace ((S start + S n) * seg) with ((start + S (S n)) * seg) by (f_equal; lia).
    apply slice_adj; [lia|].
    assert ((start + 1) * seg <= (start + S (S n)) * seg) by (apply Nat.mul_le_mono_r; lia). lia.
Qed.

Lemma set_segment_slice (d : bytes) seg off sz cur :
  seg <> 0 -> 0 < sz ->
  let start := off / seg in
  let last := (off + sz - 1) / seg in
  start <= cur <= last ->
  set_segment seg off sz start last cur (slice (cur * seg) (cur * seg + seg) d)
  = slice (Nat.max (cur * seg) off) (Nat.min (cur * seg + seg) (off + sz)) d.
Proof.
  intros Hs Hsz start last Hc.
  destruct (divmod_eq off seg Hs) as [Ho1 Ho2]. fold start in Ho1.
  destruct (divmod_eq (off + sz - 1) seg Hs) as [Hl1 Hl2]. fold last in Hl1.
  unfold set_segment.
  (* the tail trim *)
  set (s1 := if cur =? last then
               if (off + sz) mod seg =? 0 then slice (cur * seg) (cur * seg + seg) d
               else firstn ((off + sz) mod seg) (slice (cur * seg) (cur * seg + seg) d)
             else slice (cur * seg) (cur * seg + seg) d).
  assert (H1 : s1 = slice (cur * seg) (Nat.min (cur * seg + seg) (off + sz)) d).
  { unfold s1. destruct (cur =? last) eqn:E.
    - apply Nat.eqb_eq in E. subst cur.
      destruct ((off + sz) mod seg =? 0) eqn:E2.
      + apply Nat.eqb_eq in E2.
        (* off+sz is a multiple of seg, last = (off+sz)/seg - 1 *)
        destruct (divmod_eq (off + sz) seg Hs) as [Hq _]. rewrite E2 in Hq.
        destruct (mul_sandwich seg ((off + sz) / seg) last ((off + sz - 1) mod seg + 1)) as [Q1 Q2]; [lia|lia|lia|].
        assert (last * seg + seg = off + sz) by lia.
        f_equal. lia.
      + apply Nat.eqb_neq in E2.
        destruct (divmod_eq (off + sz) seg Hs) as [Hq Hq2].
        assert ((off + sz) / seg = last).
        { destruct (div_uniq (off + sz) seg last ((off + sz - 1) mod seg + 1)) as [Q _]; [lia| |exact Q].
          assert ((off + sz - 1) mod seg + 1 <> seg); [|lia].
          intro Z. destruct (div_uniq (off + sz) seg (last + 1) 0) as [_ R]; [nia|lia|]. contradiction. }
        rewrite firstn_slice. f_equal. rewrite H in Hq. nia.
    - f_equal. apply Nat.eqb_neq in E.
      assert ((cur + 1) * seg <= last * seg) by (apply Nat.mul_le_mono_r; lia). nia. }
  fold s1. rewrite H1.
  destruct (cur =? start) eqn:E.
  - apply Nat.eqb_eq in E. subst cur. rewrite skipn_slice. f_equal. nia.
  - apply Nat.eqb_neq in E. f_equal.
    assert ((start + 1) * seg <= cur * seg) by (apply Nat.mul_le_mono_r; lia). nia.
Qed.

(* read_range_exact *)
Lemma retrieve_read_represents sdmf maxseg k f (d : bytes) off sz :
  represents sdmf maxseg k f d -> 0 < k -> (sdmf = false -> 0 < maxseg) ->
  off + sz <= length d ->
  retrieve_read f off (Some sz) = Some (slice off (off + sz) d).
Proof.
  intros R Hk Hm Hle. unfold retrieve_read.
  destruct (sz =? 0) eqn:Ez.
  - apply Nat.eqb_eq in Ez. subst sz. rewrite slice_nil by lia. reflexivity.
  - apply Nat.eqb_neq in Ez.
    assert (Hd : 0 < length d) by lia.
    pose proof (represents_seg_pos _ _ _ _ _ R Hk Hm Hd) as NZ.
    pose proof (represents_retr_num _ _ _ _ _ R Hk Hm Hd) as Hn.
    assert (Hl : mf_len f = length d) by (destruct R as (_ & _ & _ & Hl & _); exact Hl).
    rewrite Hl.
    replace (off <? length d) with true by (symmetry; apply Nat.ltb_lt; lia).
    replace (off + sz <=? length d) with true by (symmetry; apply Nat.leb_le; lia).
    cbn [andb negb].
    set (seg := mf_segsize f) in *.
    assert (Hst : (if off =? 0 then 0 else off / seg) = off / seg).
    { destruct (off =? 0) eqn:E; [|reflexivity]. apply Nat.eqb_eq in E. subst off. symmetry. apply Nat.div_0_l. exact NZ. }
    rewrite Hst.
    set (start := off / seg). set (last := (off + sz - 1) / seg).
    destruct (divmod_eq off seg NZ) as [Ho1 Ho2]. fold start in Ho1.
    destruct (divmod_eq (off + sz - 1) seg NZ) as [Hl1 Hl2]. fold last in Hl1.
    destruct (div_ceil_bounds (length d) seg NZ Hd) as [B1 B2]. rewrite <- Hn in B1, B2.
    assert (Hsl : start <= last).
    { destruct (Nat.le_gt_cases start last); [assumption|].
      assert ((last + 1) * seg <= start * seg) by (apply Nat.mul_le_mono_r; lia). nia. }
    assert (Hln : last < retr_num f).
    { destruct (Nat.le_gt_cases (retr_num f) last); [|assumption].
      assert (retr_num f * seg <= last * seg) by (apply Nat.mul_le_mono_r; lia). nia. }
    replace (start <=? retr_num f) with true by (symmetry; apply Nat.leb_le; lia).
    replace (last <? retr_num f) with true by (symmetry; apply Nat.ltb_lt; lia).
    cbn [negb orb]. f_equal.
    rewrite (map_ext_in _ (fun c => slice (Nat.max (c * seg) off) (Nat.min (c * seg + seg) (off + sz)) d)).
    2:{ intros c Hc. apply in_seq in Hc.
        rewrite (decoded_segment_represents sdmf maxseg k f d c R Hk Hm) by lia.
        fold seg. apply set_segment_slice; [exact NZ|lia|]. fold start last. lia. }
    rewrite concat_seg_slices; [| exact NZ | lia | lia | nia | ].
    2:{ replace (start + (last + 1 - start) - 1) with last by lia. nia. }
    replace (start + (last + 1 - start)) with (last + 1) by lia.
    f_equal; nia.
Qed.

Lemma retrieve_read_to_end sdmf maxseg k f (d : bytes) off :
  represents sdmf maxseg k f d -> 0 < k -> (sdmf = false -> 0 < maxseg) ->
  off <= length d ->
  retrieve_read f off None = Some (skipn off d).
Proof.
  intros R Hk Hm Hle.
  assert (Hl : mf_len f = length d) by (destruct R as (_ & _ & _ & Hl & _); exact Hl).
  pose proof (retrieve_read_represents sdmf maxseg k f d off (length d - off) R Hk Hm) as H.
  unfold retrieve_read in *. rewrite Hl.
  replace (length d <? off) with false by (symmetry; apply Nat.ltb_ge; lia).
  rewrite Hl in H. rewrite H by lia. f_equal. apply slice_to_end. lia.
Qed.

Lemma read_all_represents sdmf maxseg k f (d : bytes) :
  represents sdmf maxseg k f d -> 0 < k -> (sdmf = false -> 0 < maxseg) -> read_all f = Some d.
Proof.
  intros R Hk Hm. unfold read_all. rewrite (retrieve_read_to_end sdmf maxseg k f d 0 R Hk Hm) by lia. reflexivity.
Qed.

(* what the real code rejects: a non-empty range that is not inside the file *)
Lemma retrieve_read_rejects f off sz : 0 < sz -> mf_len f < off + sz -> retrieve_read f off (Some sz) = None.
Proof.
  intros Hs H. unfold retrieve_read.
  destruct (sz =? 0) eqn:E; [apply Nat.eqb_eq in E; lia|].
  replace (off + sz <=? mf_len f) with false by (symmetry; apply Nat.leb_gt; lia).
  rewrite andb_false_r. reflexivity.
Qed.

Lemma retrieve_read_rejects_start f off : mf_len f < off -> retrieve_read f off None = None.
Proof.
  intros H. unfold retrieve_read. replace (mf_len f <? off) with true by (symmetry; apply Nat.ltb_lt; lia). reflexivity.
Qed.
