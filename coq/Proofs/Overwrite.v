(* C39: invariant of OverwriteableFileConsumer (DESIGN.md A.4) and its preservation
   by every operation of Model/Overwrite.v. *)
From Coq Require Import List NArith Bool Lia Sorted.
From Verif Require Import Model.Overwrite Proofs.OverwriteLists.
Import ListNotations.
Local Open Scope N_scope.

(* ---------- coverage by the overwrite heap ---------- *)
Definition srt (l : list (N * N)) : Prop := StronglySorted (fun a b => fst a <= fst b) l.
Definition owf (l : list (N * N)) : Prop := Forall (fun p => fst p <= snd p) l.

Lemma inow_nil i : ~ inow [] i.
Proof. intros (st & en & H & _). destruct H. Qed.

Lemma inow_cons a b l i : inow ((a, b) :: l) i <-> (a <= i < b) \/ inow l i.
Proof.
  unfold inow. split.
  - intros (st & en & [H | H] & Hr).
    + inversion H; subst. left. exact Hr.
    + right. eauto.
  - intros [H | (st & en & H & Hr)].
    + exists a, b. split; [left; reflexivity | exact H].
    + exists st, en. split; [right; exact H | exact Hr].
Qed.

Lemma inow_app a b i : inow (a ++ b) i <-> inow a i \/ inow b i.
Proof.
  unfold inow. split.
  - intros (st & en & H & Hr). apply in_app_or in H. destruct H; [left | right]; eauto.
  - intros [(st & en & H & Hr) | (st & en & H & Hr)]; exists st, en; split; auto using in_or_app.
Qed.

Lemma in_insert x l y : In y (ow_insert x l) <-> y = x \/ In y l.
Proof.
  induction l as [|z r IH]; simpl.
  - intuition.
  - destruct (ow_leb x z); simpl; rewrite ?IH; intuition.
Qed.

Lemma inow_insert a b l i : inow (ow_insert (a, b) l) i <-> (a <= i < b) \/ inow l i.
Proof.
  unfold inow. split.
  - intros (st & en & H & Hr). apply in_insert in H. destruct H as [H | H].
    + inversion H; subst. left. exact Hr.
    + right. eauto.
  - intros [H | (st & en & H & Hr)].
    + exists a, b. split; [apply in_insert; left; reflexivity | exact H].
    + exists st, en. split; [apply in_insert; right; exact H | exact Hr].
Qed.

Lemma Forall_insert (P : N * N -> Prop) x l : Forall P (ow_insert x l) <-> P x /\ Forall P l.
Proof.
  rewrite !Forall_forall. split.
  - intro H. split; [apply H, in_insert; auto | intros y Hy; apply H, in_insert; auto].
  - intros [H1 H2] y Hy. apply in_insert in Hy. destruct Hy; subst; auto.
Qed.

Lemma srt_insert x l : srt l -> srt (ow_insert x l).
Proof.
  unfold srt. induction l as [|y r IH]; intro H; simpl.
  - constructor; constructor.
  - inversion H as [|? ? Hr Hy]; subst.
    destruct (ow_leb x y) eqn:E.
    + constructor; [exact H|].
      assert (fst x <= fst y) as Hxy.
      { unfold ow_leb in E. apply orb_prop in E. destruct E as [E | E].
        - apply N.ltb_lt in E. lia.
        - apply andb_prop in E. destruct E as [E _]. apply N.eqb_eq in E. lia. }
      constructor; [exact Hxy|].
      rewrite Forall_forall in *. intros z Hz. specialize (Hy z Hz). simpl in *. lia.
    + constructor; [apply IH; exact Hr|].
      apply Forall_insert. split; [|exact Hy].
      unfold ow_leb in E. apply orb_false_elim in E. destruct E as [E1 E2].
      apply N.ltb_ge in E1.
      destruct (N.eq_dec (fst x) (fst y)) as [e|e]; [|lia]. lia.
Qed.

Lemma owf_insert x l : fst x <= snd x -> owf l -> owf (ow_insert x l).
Proof. unfold owf. intros. apply Forall_insert. auto. Qed.

Lemma srt_head_min a b l i : srt ((a, b) :: l) -> inow ((a, b) :: l) i -> a <= i.
Proof.
  intros H (st & en & Hin & Hr). inversion H as [|? ? _ Hall]; subst.
  destruct Hin as [Hin | Hin].
  - inversion Hin; subst. lia.
  - rewrite Forall_forall in Hall. specialize (Hall _ Hin). simpl in Hall. lia.
Qed.

(* the inner merge loop *)
Lemma merge_spec : forall l en en' l',
  merge en l = (en', l') ->
  en <= en' /\ (exists pre, l = pre ++ l') /\
  (forall i, (i < en \/ inow l i) <-> (i < en' \/ inow l' i)).
Proof.
  induction l as [|[s1 e1] r IH]; intros en en' l' H; simpl in H.
  - inversion H; subst. split; [lia|]. split; [exists []; reflexivity | tauto].
  - destruct (N.ltb_spec en s1).
    + inversion H; subst. split; [lia|]. split; [exists []; reflexivity | tauto].
    + apply IH in H. destruct H as (Hle & (pre & Hpre) & Hcov).
      split; [lia|]. split.
      * exists ((s1, e1) :: pre). simpl. rewrite Hpre. reflexivity.
      * intro i. rewrite <- Hcov. rewrite inow_cons. split.
        -- intros [H | [H | H]]; [left; lia | left; lia | right; exact H].
        -- intros [H | H]; [|right; right; exact H].
           destruct (N.lt_ge_cases i en); [left; assumption|].
           right; left. lia.
Qed.

Lemma srt_suffix pre l : srt (pre ++ l) -> srt l.
Proof.
  unfold srt. induction pre as [|x pre IH]; simpl; intro H; [exact H|].
  inversion H; subst. auto.
Qed.

Lemma owf_suffix pre l : owf (pre ++ l) -> owf l.
Proof. unfold owf. intro H. apply Forall_app in H. tauto. Qed.

Lemma merge_length l en en' l' : merge en l = (en', l') -> (length l' <= length l)%nat.
Proof.
  intro H. apply merge_spec in H. destruct H as (_ & (pre & Hp) & _).
  subst. rewrite app_length. lia.
Qed.

(* ---------- the invariant (DESIGN.md A.4) ---------- *)
Section Inv.
Variable g : N -> N.          (* contents of file holes: arbitrary *)
Variable O : list N.          (* original contents *)

(* I1-I3 over the components they depend on *)
Definition I123 (ref fl : list N) (c ds d : N) (l : list (N * N)) : Prop :=
  (forall i, i < c -> cov d l i -> get fl i = get ref i) /\
  (forall i, ds <= i -> i < c -> get fl i = get ref i) /\
  (forall i, i < ds -> ~ cov d l i -> get ref i = get O i).

Record Core (s : state) (ref : list N) : Prop := mkCore {
  c_cur : cur s = len ref;
  c_ds : dsize s <= cur s;
  c_len : len (f s) <= cur s;
  c_srt : srt (ows s);
  c_wf : owf (ows s);
  c_I : I123 ref (f s) (cur s) (dsize s) (dl s) (ows s);
  c_D : done s = true -> closed s = false -> forall i, i < dsize s -> covered s i
}.

(* outstanding reads *)
Definition outst (s : state) (r : rd) : Prop := In r (fired s) \/ exists n, In (n, r) (ms s).

Definition RInv (s : state) : Prop :=
  closed s = false ->
  (forall n r, In (n, r) (ms s) -> roff r + rlen r <= cur s /\ N.min (roff r + rlen r) (dsize s) <= n) /\
  (forall r, In r (fired s) -> roff r + rlen r <= cur s /\
     forall i, roff r <= i < roff r + rlen r -> i < dsize s -> covered s i).

(* ---------- download_done / update_downloaded ---------- *)
Lemma dd_proj s :
  f (download_done s) = f s /\ cur (download_done s) = cur s /\ dsize (download_done s) = dsize s /\
  dl (download_done s) = dl s /\ ows (download_done s) = ows s /\ closed (download_done s) = closed s /\
  done (download_done s) = true.
Proof. unfold download_done. destruct (done s) eqn:E; simpl; auto 10. Qed.

Lemma dd_core s ref :
  Core s ref -> (closed s = false -> forall i, i < dsize s -> covered s i) -> Core (download_done s) ref.
Proof.
  intros [H1 H2 H2' H3 H4 H5 H6] Hc.
  destruct (dd_proj s) as (E1 & E2 & E3 & E4 & E5 & E6 & E7).
  constructor; unfold covered; rewrite ?E1, ?E2, ?E3, ?E4, ?E5, ?E6; auto.
Qed.

Lemma dd_outst s r : outst (download_done s) r -> outst s r.
Proof.
  unfold download_done, outst. destruct (done s); simpl; [tauto|].
  intros [H | [n []]]. apply in_app_or in H. destruct H as [H | H]; [left; exact H|].
  apply in_map_iff in H. destruct H as ([n r'] & E & H). simpl in E. subst. right. eauto.
Qed.

Lemma dd_R s :
  RInv s -> (closed s = false -> forall i, i < dsize s -> covered s i) -> RInv (download_done s).
Proof.
  unfold RInv, download_done, covered. intros HR Hc. destruct (done s); simpl; [exact HR|].
  intro Hcl. specialize (HR Hcl). specialize (Hc Hcl). destruct HR as [HM HF].
  split; [intros n r []|].
  intros r H. apply in_app_or in H. destruct H as [H | H]; [apply HF; exact H|].
  apply in_map_iff in H. destruct H as ([n r'] & E & H). simpl in E. subst.
  destruct (HM _ _ H) as [Ha _]. split; [exact Ha|]. intros i _ Hi. apply Hc. exact Hi.
Qed.

Lemma ms_split_spec : forall l m a b,
  ms_split m l = (a, b) ->
  (forall r, In r a -> exists n, In (n, r) l /\ n <= m) /\ (forall x, In x b -> In x l).
Proof.
  induction l as [|[n r0] l IH]; intros m a b H; simpl in H.
  - inversion H; subst. split; intros ? [].
  - destruct (N.ltb_spec m n).
    + inversion H; subst. split; [intros ? []|auto].
    + destruct (ms_split m l) as [a' b'] eqn:E. inversion H; subst.
      destruct (IH _ _ _ E) as [Ha Hb]. split.
      * intros r [Hr | Hr].
        -- subst. exists n. split; [left; reflexivity | lia].
        -- destruct (Ha _ Hr) as (n' & Hin & Hle). exists n'. split; [right; exact Hin | exact Hle].
      * intros x Hx. right. auto.
Qed.

Lemma milestone_cov l nd i : i < milestone_of l nd -> cov nd l i.
Proof.
  unfold milestone_of, cov. destruct l as [|[st en] r]; [auto|].
  destruct (N.leb_spec st nd); destruct (N.ltb_spec nd en); simpl; auto.
  intro Hi. destruct (N.lt_ge_cases i nd); [auto|].
  right. apply inow_cons. left. lia.
Qed.

Lemma milestone_ge l nd : nd <= milestone_of l nd.
Proof.
  unfold milestone_of. destruct l as [|[st en] r]; [lia|].
  destruct (N.leb_spec st nd); destruct (N.ltb_spec nd en); simpl; lia.
Qed.

Lemma upd_proj s nd :
  let s' := update_downloaded s nd in
  f s' = f s /\ cur s' = cur s /\ dsize s' = dsize s /\ dl s' = nd /\ ows s' = ows s /\ closed s' = closed s /\
  (done s = true -> done s' = true) /\
  (done s' = true -> done s = true \/ dsize s <= milestone_of (ows s) nd).
Proof.
  unfold update_downloaded. destruct (ms_split (milestone_of (ows s) nd) (ms s)) as [now rest].
  destruct rest as [|x rest].
  - destruct (N.leb_spec (dsize s) (milestone_of (ows s) nd)).
    + match goal with |- context [download_done ?t] => destruct (dd_proj t) as (E1 & E2 & E3 & E4 & E5 & E6 & E7) end.
      simpl in *. rewrite E1, E2, E3, E4, E5, E6, E7. auto 10.
    + simpl. auto 10.
  - simpl. auto 10.
Qed.

Lemma upd_core s nd ref :
  Core (set_dl s nd) ref -> Core (update_downloaded s nd) ref.
Proof.
  intros [H1 H2 H2' H3 H4 H5 H6]. simpl in *.
  destruct (upd_proj s nd) as (E1 & E2 & E3 & E4 & E5 & E6 & E7 & E8).
  constructor; unfold covered in *; simpl in *; rewrite ?E1, ?E2, ?E3, ?E4, ?E5, ?E6; auto.
  intros Hd Hc i Hi. destruct (E8 Hd) as [Hd' | Hm]; [auto|].
  apply milestone_cov. lia.
Qed.

Lemma upd_outst s nd r : outst (update_downloaded s nd) r -> outst s r.
Proof.
  unfold update_downloaded.
  destruct (ms_split (milestone_of (ows s) nd) (ms s)) as [now rest] eqn:E.
  destruct (ms_split_spec _ _ _ _ E) as [Ha Hb].
  assert (forall t, (fired t = fired s ++ now) -> ms t = rest -> outst t r -> outst s r) as Hgen.
  { intros t Ef Em [H | [n H]].
    - rewrite Ef in H. apply in_app_or in H. destruct H as [H | H]; [left; exact H|].
      destruct (Ha _ H) as (n & Hin & _). right. eauto.
    - rewrite Em in H. right. exists n. auto. }
  destruct rest as [|x rest].
  - destruct (dsize s <=? milestone_of (ows s) nd).
    + intro H. apply dd_outst in H. revert H. apply Hgen; reflexivity.
    + apply Hgen; reflexivity.
  - apply Hgen; reflexivity.
Qed.

Lemma upd_R s nd :
  RInv s -> dl s <= nd -> RInv (update_downloaded s nd).
Proof.
  intros HR Hle.
  unfold update_downloaded.
  destruct (ms_split (milestone_of (ows s) nd) (ms s)) as [now rest] eqn:E.
  destruct (ms_split_spec _ _ _ _ E) as [Ha Hb].
  set (t := mkSt (f s) (cur s) (dsize s) nd (ows s) rest (fired s ++ now) (done s) (closed s)).
  assert (RInv t) as Ht.
  { unfold RInv, covered in *. simpl. intro Hcl. destruct (HR Hcl) as [HM HF]. split.
    - intros n r H. apply HM. apply Hb. exact H.
    - intros r H. apply in_app_or in H. destruct H as [H | H].
      + destruct (HF _ H) as [H1 H2]. split; [exact H1|].
        intros i Hi Hd. destruct (H2 i Hi Hd) as [Hc | Hc]; [left; lia | right; exact Hc].
      + destruct (Ha _ H) as (n & Hin & Hn). destruct (HM _ _ Hin) as [H1 H2].
        split; [exact H1|]. intros i Hi Hd. apply milestone_cov. lia. }
  destruct rest as [|x rest]; [|exact Ht].
  destruct (N.leb_spec (dsize s) (milestone_of (ows s) nd)); [|exact Ht].
  apply dd_R; [exact Ht|]. unfold covered. simpl. intros _ i Hi. apply milestone_cov. lia.
Qed.


(* ---------- write(): one region of downloaded bytes lands in the file ---------- *)
Lemma get_fwrite_in fl pos data i :
  pos <= i < pos + len data -> get (fwrite g fl pos data) i = get data (i - pos).
Proof. intro H. rewrite get_fwrite. nb; simpl; try lia; reflexivity. Qed.

Lemma get_fwrite_out fl pos data i :
  i < len fl -> ~ (pos <= i < pos + len data) -> get (fwrite g fl pos data) i = get fl i.
Proof. intros H1 H2. rewrite get_fwrite. nb; simpl; try lia; reflexivity. Qed.

Lemma get_eq_lt (a b : list N) i : get a i = get b i -> i < len b -> i < len a.
Proof.
  intros E H. destruct (get_some b i H) as [x Hx]. rewrite Hx in E. eapply get_lt; eauto.
Qed.

(* data = O[d, min(next, ds)) *)
Definition aligned (data : list N) (d next ds : N) : Prop :=
  len data = N.min next ds - d /\ forall k, k < len data -> get data k = get O (d + k).

Lemma write_region ref fl c ds d l data next w d' l' :
  c = len ref -> ds <= c ->
  I123 ref fl c ds d l ->
  aligned data d next ds ->
  w <= next ->
  (forall i, d <= i < w -> ~ inow l i) ->
  (forall i, cov d' l' i <-> (cov d l i \/ d <= i < w)) ->
  I123 ref (fwrite g fl d (take (w - d) data)) c ds d' l'.
Proof.
  intros Hc Hds (I1 & I2 & I3) (Hlen & Hdat) Hw Hun Hcov.
  set (wd := take (w - d) data).
  assert (len wd = N.min (w - d) (len data)) as Hwd by (unfold wd; apply len_take).
  assert (forall i, d <= i < d + len wd -> get wd (i - d) = get O i) as Hwdat.
  { intros i Hi. unfold wd. rewrite get_take.
    destruct (N.ltb_spec (i - d) (w - d)); [|lia].
    rewrite Hdat by lia. f_equal. lia. }
  split; [|split].
  - intros i Hi Hcv. apply Hcov in Hcv. destruct Hcv as [Hcv | Hcv].
    + assert (get fl i = get ref i) as E by (apply I1; assumption).
      assert (i < len fl) by (eapply get_eq_lt; [exact E | lia]).
      rewrite get_fwrite_out; [exact E | assumption |].
      intro Hr. destruct Hcv as [Hcv | Hcv]; [lia|]. apply (Hun i); [lia | exact Hcv].
    + destruct (N.lt_ge_cases i (d + len data)) as [Hlt | Hge].
      * rewrite get_fwrite_in by lia. rewrite Hwdat by lia.
        symmetry. apply I3; [lia|]. intros [Hx | Hx]; [lia|]. apply (Hun i); [lia | exact Hx].
      * assert (get fl i = get ref i) as E by (apply I2; lia).
        assert (i < len fl) by (eapply get_eq_lt; [exact E | lia]).
        rewrite get_fwrite_out; [exact E | assumption | lia].
  - intros i Hi1 Hi2.
    assert (get fl i = get ref i) as E by (apply I2; assumption).
    assert (i < len fl) by (eapply get_eq_lt; [exact E | lia]).
    rewrite get_fwrite_out; [exact E | assumption | lia].
  - intros i Hi Hn. apply I3; [exact Hi|]. intro Hx. apply Hn. apply Hcov. left. exact Hx.
Qed.

Lemma write_region_len fl c ds d data next w :
  ds <= c -> len fl <= c -> len data = N.min next ds - d ->
  len (fwrite g fl d (take (w - d) data)) <= c.
Proof.
  intros H1 H2 H3. rewrite len_fwrite, len_take. nb; lia.
Qed.

(* ---------- the while loop of write() ---------- *)
Ltac dj := solve [ assumption | lia | left; dj | right; dj ].

Lemma RInv_mono s t :
  cur t = cur s -> dsize t = dsize s -> ms t = ms s -> fired t = fired s -> closed t = closed s ->
  (forall i, covered s i -> covered t i) -> RInv s -> RInv t.
Proof.
  unfold RInv. intros E1 E2 E3 E4 E5 Hm HR Hcl. rewrite E1, E2, E3, E4. rewrite E5 in Hcl.
  destruct (HR Hcl) as [HM HF]. split; [exact HM|].
  intros r Hr. destruct (HF r Hr) as [Ha Hb]. split; [exact Ha|]. auto.
Qed.

Definition wpost (ref : list N) (next : N) (s s' : state) : Prop :=
  Core s' ref /\ (RInv s -> RInv s') /\ dl s' = next /\ cur s' = cur s /\ dsize s' = dsize s /\ closed s' = false /\
  (forall i, covered s i -> covered s' i) /\ (forall r, outst s' r -> outst s r) /\
  (done s = true -> done s' = true).

Lemma wpost_trans ref next s t s' :
  cur t = cur s -> dsize t = dsize s ->
  (forall i, covered s i -> covered t i) -> (forall r, outst t r -> outst s r) ->
  (done s = true -> done t = true) -> (RInv s -> RInv t) ->
  wpost ref next t s' -> wpost ref next s s'.
Proof.
  intros E1 E2 Hc Ho Hd HRt (P1 & P2 & P3 & P4 & P5 & P6 & P7 & P8 & P9).
  unfold wpost. split; [exact P1|]. split; [auto|]. split; [exact P3|].
  split; [congruence|]. split; [congruence|]. split; [exact P6|].
  split; [auto|]. split; auto.
Qed.

Lemma set_dl_id t d : dl t = d -> set_dl t d = t.
Proof. destruct t. simpl. intro. subst. reflexivity. Qed.

Lemma upd_set_dl t nd : update_downloaded (set_dl t nd) nd = update_downloaded t nd.
Proof. reflexivity. Qed.

Lemma upd_R' s0 t nd :
  RInv s0 -> cur t = cur s0 -> dsize t = dsize s0 -> ms t = ms s0 -> fired t = fired s0 ->
  closed t = closed s0 -> (forall i, covered s0 i -> cov nd (ows t) i) ->
  RInv (update_downloaded t nd).
Proof.
  intros HR E1 E2 E3 E4 E5 Hc. rewrite <- upd_set_dl. apply upd_R; [|simpl; lia].
  eapply RInv_mono; [| | | | | |exact HR]; simpl; auto.
Qed.

(* the state after popping/merging, with the prefix before the first overwrite written *)
Lemma wmid ref next s data st en rest w l' d' :
  Core s ref -> dl s <= next -> aligned data (dl s) next (dsize s) ->
  ows s = (st, en) :: rest -> w <= next ->
  (w = st /\ dl s < st \/ w = dl s /\ st <= dl s) ->
  srt l' -> owf l' ->
  (forall i, cov d' l' i <-> (covered s i \/ dl s <= i < w)) ->
  Core (set_dl (set_ows (if dl s <? st then set_f s (fwrite g (f s) (dl s) (take (st - dl s) data)) else s) l') d') ref.
Proof.
  intros [H1 H2 H2' H3 H4 H5 H6] Hdl Hal Hows Hw Hwc Hs Hf Hcov.
  set (s1 := if dl s <? st then set_f s (fwrite g (f s) (dl s) (take (st - dl s) data)) else s).
  assert (f s1 = fwrite g (f s) (dl s) (take (w - dl s) data) /\ cur s1 = cur s /\ dsize s1 = dsize s /\
          done s1 = done s /\ closed s1 = closed s) as (F1 & F2 & F3 & F4 & F5).
  { unfold s1. destruct Hwc as [[Ew Hlt] | [Ew Hge]]; subst w.
    - destruct (N.ltb_spec (dl s) st); [|lia]. simpl. auto.
    - destruct (N.ltb_spec (dl s) st); [lia|]. rewrite N.sub_diag. unfold take. simpl. auto. }
  assert (forall i, dl s <= i < w -> ~ inow (ows s) i) as Hun.
  { intros i Hi Hin. rewrite Hows in Hin, H3. apply srt_head_min in Hin; [|exact H3]. lia. }
  constructor; simpl; rewrite ?F1, ?F2, ?F3, ?F4, ?F5; auto.
  - destruct Hal as [Hl _]. apply write_region_len with (ds := dsize s) (next := next); auto.
  - apply write_region with (d := dl s) (l := ows s) (next := next); auto.
  - intros Hd Hc i Hi. unfold covered. simpl. apply Hcov. left. apply H6; auto.
Qed.

Lemma wexit ref next s data :
  Core s ref -> closed s = false -> dl s <= next -> aligned data (dl s) next (dsize s) ->
  (forall i, dl s <= i < next -> ~ inow (ows s) i) ->
  wpost ref next s (update_downloaded (set_f s (fwrite g (f s) (dl s) data)) next).
Proof.
  intros HC Hcl Hdl Hal Hun.
  set (t := set_f s (fwrite g (f s) (dl s) data)).
  assert (take (next - dl s) data = data) as Htk.
  { apply take_all. destruct Hal as [Hl _]. lia. }
  assert (Core (set_dl t next) ref) as HCt.
  { destruct HC as [H1 H2 H2' H3 H4 H5 H6]. constructor; simpl; auto.
    - rewrite <- Htk. destruct Hal as [Hl _]. apply write_region_len with (ds := dsize s) (next := next); auto.
    - rewrite <- Htk. apply write_region with (d := dl s) (l := ows s) (next := next); auto; [lia|].
      intro i. unfold cov. split; [intros [H | H] | intros [[H | H] | H]]; dj.
    - intros Hd Hc i Hi. destruct (H6 Hd Hc i Hi) as [H | H]; [left; simpl; lia | right; exact H]. }
  destruct (upd_proj t next) as (E1 & E2 & E3 & E4 & E5 & E6 & E7 & E8).
  unfold wpost; split; [|split; [|split; [|split; [|split; [|split; [|split; [|split]]]]]]].
  - apply upd_core. exact HCt.
  - intro HR. apply upd_R; [|simpl; exact Hdl].
    eapply RInv_mono; [| | | | | |exact HR]; simpl; auto.
  - exact E4.
  - rewrite E2. reflexivity.
  - rewrite E3. reflexivity.
  - rewrite E6. simpl. exact Hcl.
  - intros i [H | H]; unfold covered; rewrite E4, E5; simpl; [left; lia | right; exact H].
  - intros r H. apply upd_outst in H. exact H.
  - intro H. apply E7. simpl. exact H.
Qed.

Lemma aligned_drop data d next ds e :
  aligned data d next ds -> d <= e -> aligned (drop (e - d) data) e next ds.
Proof.
  intros [Hl Hd] He. split.
  - rewrite len_drop. lia.
  - intros k Hk. rewrite len_drop in Hk. rewrite get_drop. rewrite Hd by lia. f_equal. lia.
Qed.

Lemma wloop_ok ref next : forall fuel s data s',
  Core s ref -> closed s = false ->
  dl s <= next -> aligned data (dl s) next (dsize s) ->
  wloop g fuel s data next = Some s' ->
  wpost ref next s s'.
Proof.
  induction fuel as [|k IH]; intros s data s' HC Hcl Hdl Hal Hw; [discriminate|].
  simpl in Hw.
  destruct (ows s) as [|[st en] rest] eqn:Hows.
  { inversion Hw; subst. apply wexit; auto. intros i _. rewrite Hows. apply inow_nil. }
  destruct (N.leb_spec next st) as [Hns | Hns].
  { inversion Hw; subst. apply wexit; auto. intros i Hi Hin. rewrite Hows in Hin.
    apply srt_head_min in Hin; [lia|]. destruct HC. rewrite <- Hows. assumption. }
  (* an overwrite starts inside the chunk *)
  destruct (merge en rest) as [en' rest'] eqn:Hm.
  destruct (merge_spec _ _ _ _ Hm) as (Hee & (pre & Hpre) & Hmc).
  assert (srt rest' /\ owf rest' /\ st <= en) as (Hs' & Hf' & Hse).
  { destruct HC as [_ _ _ H3 H4 _ _]. rewrite Hows, Hpre in H3, H4. split; [|split].
    - apply (srt_suffix ((st, en) :: pre)). exact H3.
    - apply (owf_suffix ((st, en) :: pre)). exact H4.
    - inversion H4; subst. assumption. }
  set (w := if dl s <? st then st else dl s).
  assert (w <= next /\ (w = st /\ dl s < st \/ w = dl s /\ st <= dl s)) as (Hw1 & Hw2).
  { unfold w. destruct (N.ltb_spec (dl s) st); split; try lia. }
  set (s1 := if dl s <? st then set_f s (fwrite g (f s) (dl s) (take (st - dl s) data)) else s) in *.
  assert (cur s1 = cur s /\ dsize s1 = dsize s /\ dl s1 = dl s /\ ms s1 = ms s /\ fired s1 = fired s /\
          closed s1 = closed s /\ done s1 = done s /\ ows s1 = ows s) as (G1 & G2 & G3 & G4 & G5 & G6 & G7 & G8).
  { unfold s1. destruct (dl s <? st); simpl; auto 10. }
  destruct (N.leb_spec next en') as [Hne | Hne].
  - (* the merged overwrite reaches past the chunk *)
    inversion Hw; subst s'. clear Hw.
    set (t := set_ows s1 (ow_insert (next, en') rest')).
    assert (forall i, cov next (ow_insert (next, en') rest') i <-> (covered s i \/ dl s <= i < w)) as Hcov.
    { intro i. unfold covered, cov. rewrite Hows, inow_insert, inow_cons. specialize (Hmc i).
      destruct Hmc as [Hm1 Hm2]. split.
      - intro H. assert (i < en \/ inow rest i) as Hx.
        { destruct H as [H | [H | H]]; [apply Hm2; left; lia | apply Hm2; left; lia | apply Hm2; right; exact H]. }
        destruct Hx as [Hx | Hx]; [|dj].
        destruct (N.lt_ge_cases i (dl s)); [dj|]. destruct (N.lt_ge_cases i st); dj.
      - intros [[H | [H | H]] | H].
        + dj.
        + destruct Hm1 as [Hy | Hy]; [left; lia | destruct (N.lt_ge_cases i next); dj | dj].
        + destruct Hm1 as [Hy | Hy]; [right; exact H | destruct (N.lt_ge_cases i next); dj | dj].
        + dj. }
    assert (Core (set_dl t next) ref) as HCt.
    { unfold t, s1. apply wmid with (next := next) (en := en) (rest := rest) (w := w); auto.
      - apply srt_insert. exact Hs'.
      - apply owf_insert; [simpl; lia | exact Hf']. }
    destruct (upd_proj t next) as (E1 & E2 & E3 & E4 & E5 & E6 & E7 & E8).
    unfold wpost; split; [|split; [|split; [|split; [|split; [|split; [|split; [|split]]]]]]].
    + apply upd_core. exact HCt.
    + intro HR. eapply upd_R'; [exact HR | | | | | |]; unfold t; simpl; auto.
      intros i Hi. apply Hcov. left. exact Hi.
    + exact E4.
    + rewrite E2. unfold t. simpl. exact G1.
    + rewrite E3. unfold t. simpl. exact G2.
    + rewrite E6. unfold t. simpl. congruence.
    + intros i Hi. unfold covered. rewrite E4, E5. unfold t. simpl. apply Hcov. left. exact Hi.
    + intros r H. apply upd_outst in H. unfold t, outst in *. simpl in H. rewrite G4, G5 in H. exact H.
    + intro H. apply E7. unfold t. simpl. congruence.
  - destruct (N.leb_spec (dl s) en') as [Hde | Hde].
    + (* the merged overwrite ends inside the chunk: skip over it *)
      set (t0 := set_ows s1 rest') in *.
      set (t := update_downloaded t0 en') in *.
      assert (forall i, cov en' rest' i <-> (covered s i \/ dl s <= i < w)) as Hcov.
      { intro i. unfold covered, cov. rewrite Hows, inow_cons. specialize (Hmc i).
        destruct Hmc as [Hm1 Hm2]. split.
        - intro H. destruct (Hm2 H) as [Hx | Hx]; [|dj].
          destruct (N.lt_ge_cases i (dl s)); [dj|]. destruct (N.lt_ge_cases i st); dj.
        - intros [[H | [H | H]] | H].
          + dj.
          + dj.
          + apply Hm1. right. exact H.
          + dj. }
      assert (Core (set_dl t0 en') ref) as HCt.
      { unfold t0, s1. apply wmid with (next := next) (en := en) (rest := rest) (w := w); auto. }
      destruct (upd_proj t0 en') as (E1 & E2 & E3 & E4 & E5 & E6 & E7 & E8). fold t in E1, E2, E3, E4, E5, E6, E7, E8.
      assert (wpost ref next t s') as HP.
      { apply IH with (data := drop (en' - dl s) data); auto.
        - apply upd_core. exact HCt.
        - rewrite E6. unfold t0. simpl. congruence.
        - rewrite E4. lia.
        - rewrite E4, E3. unfold t0. simpl. rewrite G2. apply aligned_drop; assumption. }
      revert HP. apply wpost_trans.
      * rewrite E2. unfold t0. simpl. exact G1.
      * rewrite E3. unfold t0. simpl. exact G2.
      * intros i Hi. unfold covered. rewrite E4, E5. unfold t0. simpl. apply Hcov. left. exact Hi.
      * intros r H. apply upd_outst in H. unfold t0, outst in *. simpl in H. rewrite G4, G5 in H. exact H.
      * intro H. apply E7. unfold t0. simpl. congruence.
      * intro HR. eapply upd_R'; [exact HR | | | | | |]; unfold t0; simpl; auto.
        intros i Hi. apply Hcov. left. exact Hi.
    + (* a stale overwrite that lies entirely below downloaded *)
      set (t := set_ows s1 rest') in *.
      assert (forall i, cov (dl s) rest' i <-> (covered s i \/ dl s <= i < w)) as Hcov.
      { intro i. unfold covered, cov. rewrite Hows, inow_cons. specialize (Hmc i).
        destruct Hmc as [Hm1 Hm2]. split.
        - intros [H | H]; [dj|]. destruct (Hm2 (or_intror H)) as [Hx | Hx]; dj.
        - intros [[H | [H | H]] | H].
          + dj.
          + dj.
          + destruct (Hm1 (or_intror H)) as [Hx | Hx]; dj.
          + dj. }
      assert (Core t ref) as HCt.
      { assert (set_dl t (dl s) = t) as Et.
        { apply set_dl_id. unfold t. simpl. exact G3. }
        rewrite <- Et. unfold t, s1. apply wmid with (next := next) (en := en) (rest := rest) (w := w); auto. }
      assert (wpost ref next t s') as HP.
      { apply IH with (data := data); auto.
        - unfold t. simpl. congruence.
        - unfold t. simpl. lia.
        - unfold t. simpl. rewrite G2, G3. exact Hal. }
      revert HP. apply wpost_trans.
      * unfold t. simpl. exact G1.
      * unfold t. simpl. exact G2.
      * intros i Hi. unfold covered, t. simpl. rewrite G3. apply Hcov. left. exact Hi.
      * intros r H. unfold t, outst in *. simpl in H. rewrite G4, G5 in H. exact H.
      * intro H. unfold t. simpl. congruence.
      * intro HR. eapply RInv_mono; [| | | | | |exact HR]; unfold t; simpl; auto.
        intros i Hi. unfold covered. simpl. rewrite G3. apply Hcov. left. exact Hi.
Qed.

Lemma wloop_total next : forall fuel s data,
  (length (ows s) < fuel)%nat -> exists s', wloop g fuel s data next = Some s'.
Proof.
  induction fuel as [|k IH]; intros s data Hl; [lia|].
  simpl. destruct (ows s) as [|[st en] rest] eqn:Hows; [eauto|].
  destruct (next <=? st); [eauto|].
  destruct (merge en rest) as [en' rest'] eqn:Hm.
  pose proof (merge_length _ _ _ _ Hm) as Hlen. simpl in Hl.
  destruct (next <=? en'); [eauto|].
  destruct (dl s <=? en').
  - apply IH.
    match goal with |- context [update_downloaded ?t ?n] => destruct (upd_proj t n) as (_ & _ & _ & _ & E5 & _) end.
    rewrite E5. simpl. lia.
  - apply IH. simpl. lia.
Qed.

Lemma write_total s data : exists s', write g s data = Some s'.
Proof.
  unfold write. destruct (closed s); [eauto|]. destruct (dsize s <=? dl s); [eauto|].
  apply wloop_total. lia.
Qed.

(* write(data) where data are the next bytes of the original contents *)
Lemma write_ok ref s data s' p :
  Core s ref ->
  (closed s = false -> dl s < dsize s -> p = dl s) ->
  (forall k, k < len data -> get data k = get O (p + k)) ->
  write g s data = Some s' ->
  Core s' ref /\ (RInv s -> RInv s') /\ cur s' = cur s /\ dsize s' = dsize s /\ closed s' = closed s /\
  (forall i, covered s i -> covered s' i) /\ (forall r, outst s' r -> outst s r) /\
  (done s = true -> done s' = true) /\
  (closed s' = false -> dl s' < dsize s' -> p + len data = dl s').
Proof.
  intros HC Hp Hd Hw. unfold write in Hw.
  destruct (closed s) eqn:Hcl.
  { inversion Hw; subst. repeat (split; auto); congruence. }
  destruct (N.leb_spec (dsize s) (dl s)) as [Hdone | Hlt].
  { inversion Hw; subst. repeat (split; auto); lia. }
  specialize (Hp eq_refl Hlt). subst p.
  apply wloop_ok with (ref := ref) in Hw; auto; [| lia |].
  - destruct Hw as (P1 & P2 & P3 & P4 & P5 & P6 & P7 & P8 & P9).
    repeat (split; auto); congruence.
  - unfold aligned. destruct (N.ltb_spec (dsize s) (dl s + len data)).
    + split; [rewrite len_take; lia|]. intros k Hk. rewrite len_take in Hk. rewrite get_take.
      destruct (N.ltb_spec k (dsize s - dl s)); [|lia]. apply Hd. lia.
    + split; [lia|]. exact Hd.
Qed.

(* ---------- overwrite ---------- *)
Lemma ow_file fl c off data :
  len fl <= c ->
  let f1 := if c <? off then fwrite g fl c (zeros (off - c)) else fl in
  let f2 := fwrite g f1 off data in
  (forall i, off <= i < off + len data -> get f2 i = get data (i - off)) /\
  (forall i, i < len fl -> ~ (off <= i < off + len data) -> get f2 i = get fl i) /\
  (forall i, c <= i < off -> ~ (off <= i < off + len data) -> get f2 i = Some 0) /\
  len f2 <= N.max c (off + len data).
Proof.
  intros Hl f1 f2.
  assert (len fl <= len f1 /\ len f1 <= N.max c off /\ (c < off -> len f1 = off) /\
          (forall i, i < len fl -> get f1 i = get fl i) /\
          (forall i, c <= i < off -> get f1 i = Some 0)) as (L1 & L2 & L3 & L4 & L5).
  { unfold f1. destruct (N.ltb_spec c off).
    - rewrite len_fwrite, len_zeros. destruct (N.eqb_spec (off - c) 0); [lia|].
      split; [lia|]. split; [lia|]. split; [lia|]. split.
      + intros i Hi. apply get_fwrite_out; [exact Hi | rewrite len_zeros; lia].
      + intros i Hi. rewrite get_fwrite_in by (rewrite len_zeros; lia). rewrite get_zeros.
        destruct (N.ltb_spec (i - c) (off - c)); [reflexivity | lia].
    - split; [lia|]. split; [lia|]. split; [lia|]. split; [auto|]. intros i Hi. lia. }
  split; [|split; [|split]].
  - intros i Hi. unfold f2. apply get_fwrite_in. exact Hi.
  - intros i Hi Hn. unfold f2. rewrite get_fwrite_out; [apply L4; exact Hi | lia | exact Hn].
  - intros i Hi Hn. unfold f2. rewrite get_fwrite_out; [apply L5; exact Hi | | exact Hn].
    rewrite L3; lia.
  - unfold f2. rewrite len_fwrite. destruct (len data =? 0); lia.
Qed.

Lemma overwrite_ok ref s off data :
  Core s ref ->
  let s' := overwrite g s off data in
  Core s' (ref_write ref off data) /\ dsize s' = dsize s /\ dl s' = dl s /\ ms s' = ms s /\
  fired s' = fired s /\ done s' = done s /\ closed s' = closed s /\
  (forall i, covered s i -> covered s' i) /\
  (forall i, off <= i < off + len data -> covered s' i).
Proof.
  intros [H1 H2 H2' H3 H4 (I1 & I2 & I3) H6].
  destruct (ow_file (f s) (cur s) off data H2') as (F1 & F2 & F3 & F4).
  set (start := if cur s <? off then cur s else off).
  set (en := off + len data).
  set (l' := if dl s <? en then ow_insert (start, en) (ows s) else ows s).
  assert (start <= off /\ (start < off -> start = cur s /\ cur s < off)) as (Hso & Hsc).
  { unfold start. destruct (N.ltb_spec (cur s) off); lia. }
  assert (forall i, cov (dl s) l' i <-> (cov (dl s) (ows s) i \/ (dl s < en /\ start <= i < en))) as Hcov.
  { intro i. unfold l', cov. destruct (N.ltb_spec (dl s) en).
    - rewrite inow_insert. split; intros Hq; intuition lia.
    - split; intros Hq; intuition lia. }
  assert (overwrite g s off data =
          mkSt (fwrite g (if cur s <? off then fwrite g (f s) (cur s) (zeros (off - cur s)) else f s) off data)
               (N.max (cur s) en) (dsize s) (dl s) l' (ms s) (fired s) (done s) (closed s)) as Es.
  { unfold overwrite, l', en, start. destruct (cur s <? off); destruct (dl s <? off + len data); reflexivity. }
  simpl. rewrite Es. simpl.
  assert (forall i, ~ (off <= i < en) -> i < cur s -> cov (dl s) l' i -> cov (dl s) (ows s) i) as Hold.
  { intros i Hn Hi Hc. apply Hcov in Hc. destruct Hc as [Hc | [_ Hc]]; [exact Hc|]. lia. }
  assert (forall i, off <= i < en -> cov (dl s) l' i) as Hnew.
  { intros i Hi. apply Hcov. destruct (N.ltb_spec (dl s) en); [right; lia | left; left; lia]. }
  split; [|repeat (split; auto)].
  - constructor; simpl.
    + rewrite len_ref_write. unfold en. lia.
    + lia.
    + exact F4.
    + unfold l'. destruct (dl s <? en); [apply srt_insert|]; exact H3.
    + unfold l'. destruct (dl s <? en); [apply owf_insert; [simpl; unfold en; lia|]|]; exact H4.
    + split; [|split].
      * intros i Hi Hc. rewrite get_ref_write.
        destruct (N.leb_spec off i); destruct (N.ltb_spec i (off + len data)); simpl;
          try (apply F1; lia).
        all: destruct (N.ltb_spec i (len ref)).
        all: try (assert (get (f s) i = get ref i) as E by (apply I1; [lia | apply Hold; unfold en; lia || assumption]);
                  rewrite F2; [exact E | eapply get_eq_lt; [exact E | lia] | lia]).
        all: destruct (N.ltb_spec i off); try (apply F3; lia).
        all: unfold en in *; lia.
      * intros i Hd Hi. rewrite get_ref_write.
        destruct (N.leb_spec off i); destruct (N.ltb_spec i (off + len data)); simpl;
          try (apply F1; lia).
        all: destruct (N.ltb_spec i (len ref)).
        all: try (assert (get (f s) i = get ref i) as E by (apply I2; lia);
                  rewrite F2; [exact E | eapply get_eq_lt; [exact E | lia] | lia]).
        all: destruct (N.ltb_spec i off); try (apply F3; lia).
        all: unfold en in *; lia.
      * intros i Hi Hn.
        assert (~ (off <= i < en)) as Hout by (intro Hx; apply Hn, Hnew; exact Hx).
        rewrite get_ref_write.
        destruct (N.leb_spec off i); destruct (N.ltb_spec i (off + len data)); simpl; try (unfold en in *; lia).
        all: destruct (N.ltb_spec i (len ref)); try lia.
        all: apply I3; [exact Hi|]; intro Hx; apply Hn, Hcov; left; exact Hx.
    + intros Hd Hc i Hi. unfold covered. simpl. apply Hcov. left. apply H6; auto.
  - intros i Hi. unfold covered. simpl. apply Hcov. left. exact Hi.
Qed.

(* ---------- set_current_size ---------- *)
Lemma ss_file fl c d size :
  len fl <= c ->
  let ft := if (size <? c) || (size <? d) then ftrunc g fl size else fl in
  let f' := if c <? size then fwrite g ft c (zeros (size - c)) else ft in
  (forall i, c <= i < size -> get f' i = Some 0) /\
  (forall i, i < len fl -> i < size -> i < c -> get f' i = get fl i) /\
  len f' <= size.
Proof.
  intros Hl ft f'.
  assert ((len ft = size \/ (len ft = len fl /\ c <= size)) /\
          (forall i, i < len fl -> i < size -> get ft i = get fl i)) as (L1 & L2).
  { unfold ft. destruct (N.ltb_spec size c); destruct (N.ltb_spec size d); simpl.
    all: try (split; [left; apply len_ftrunc|];
              intros i H1 H2; rewrite get_ftrunc;
              destruct (N.ltb_spec i size); [|lia]; destruct (N.ltb_spec i (len fl)); [reflexivity | lia]).
    split; [right; lia | auto]. }
  unfold f'. destruct (N.ltb_spec c size).
  - split; [|split].
    + intros i Hi. rewrite get_fwrite_in by (rewrite len_zeros; lia). rewrite get_zeros.
      destruct (N.ltb_spec (i - c) (size - c)); [reflexivity | lia].
    + intros i H1 H2 H3. rewrite get_fwrite_out; [apply L2; assumption | lia | rewrite len_zeros; lia].
    + rewrite len_fwrite, len_zeros. destruct (N.eqb_spec (size - c) 0); lia.
  - split; [|split].
    + intros i Hi. lia.
    + intros i H1 H2 H3. apply L2; assumption.
    + lia.
Qed.

Definition ss_pre (s : state) (size : N) : state :=
  let ft := if (size <? cur s) || (size <? dl s) then ftrunc g (f s) size else f s in
  mkSt (if cur s <? size then fwrite g ft (cur s) (zeros (size - cur s)) else ft)
       size (if size <? dsize s then size else dsize s) (dl s)
       (if (cur s <? size) && (dl s <? size) then ow_insert (cur s, size) (ows s) else ows s)
       (ms s) (fired s) (done s) (closed s).

Lemma ss_eq s size :
  dsize s <= cur s ->
  set_current_size g s size =
    let t := ss_pre s size in if dsize t <=? dl t then download_done t else t.
Proof.
  intro Hds. unfold set_current_size, ss_pre.
  destruct ((size <? cur s) || (size <? dl s)) eqn:Et; simpl.
  - destruct (N.ltb_spec (cur s) size) as [Hc | Hc]; simpl.
    + unfold overwrite. simpl. rewrite N.ltb_irrefl, len_zeros.
      replace (cur s + (size - cur s)) with size by lia.
      replace (N.max (cur s) size) with size by lia.
      destruct (dl s <? size); simpl; destruct (N.ltb_spec size (dsize s)); try lia; reflexivity.
    + destruct (N.ltb_spec size (dsize s)); reflexivity.
  - destruct (N.ltb_spec (cur s) size) as [Hc | Hc]; simpl.
    + unfold overwrite. simpl. rewrite N.ltb_irrefl, len_zeros.
      replace (cur s + (size - cur s)) with size by lia.
      replace (N.max (cur s) size) with size by lia.
      destruct (dl s <? size); simpl; destruct (N.ltb_spec size (dsize s)); try lia; reflexivity.
    + destruct (N.ltb_spec size (dsize s)); reflexivity.
Qed.

Lemma setsize_ok ref s size :
  Core s ref ->
  let s' := set_current_size g s size in
  Core s' (ref_resize ref size) /\ dl s' = dl s /\ closed s' = closed s /\ dsize s' <= dsize s /\
  (forall i, covered s i -> covered s' i) /\ (done s = true -> done s' = true) /\
  (ms s = [] -> fired s = [] -> ms s' = [] /\ fired s' = []).
Proof.
  intros [H1 H2 H2' H3 H4 (I1 & I2 & I3) H6]. simpl. rewrite (ss_eq s size H2).
  destruct (ss_file (f s) (cur s) (dl s) size H2') as (F1 & F2 & F3).
  set (t := ss_pre s size).
  set (l' := if (cur s <? size) && (dl s <? size) then ow_insert (cur s, size) (ows s) else ows s).
  assert (forall i, cov (dl s) l' i <-> (cov (dl s) (ows s) i \/ (dl s < size /\ cur s <= i < size))) as Hcov.
  { intro i. unfold l', cov. destruct (N.ltb_spec (cur s) size); destruct (N.ltb_spec (dl s) size); simpl.
    - rewrite inow_insert. split; intros Hq; intuition lia.
    - split; intros Hq; intuition lia.
    - split; intros Hq; intuition lia.
    - split; intros Hq; intuition lia. }
  assert (dsize t <= dsize s /\ dsize t <= size /\ (dsize t = dsize s \/ dsize t = size)) as (D1 & D2 & D3).
  { unfold t, ss_pre. simpl. destruct (N.ltb_spec size (dsize s)); lia. }
  assert (Core t (ref_resize ref size)) as HCt.
  { constructor.
    - unfold t, ss_pre. simpl. rewrite len_ref_resize. reflexivity.
    - unfold t, ss_pre in *. simpl in *. exact D2.
    - unfold t, ss_pre. simpl. exact F3.
    - unfold t, ss_pre. simpl. destruct ((cur s <? size) && (dl s <? size)); [apply srt_insert|]; exact H3.
    - unfold t, ss_pre. simpl. destruct (N.ltb_spec (cur s) size); simpl; [|exact H4].
      destruct (dl s <? size); [apply owf_insert; [simpl; lia|]|]; exact H4.
    - unfold t, ss_pre. simpl. fold l'. split; [|split].
      + intros i Hi Hc. rewrite get_ref_resize.
        destruct (N.ltb_spec i size); [|lia]. destruct (N.ltb_spec i (len ref)).
        * assert (get (f s) i = get ref i) as E.
          { apply I1; [lia|]. apply Hcov in Hc. destruct Hc as [Hc | Hc]; [exact Hc | lia]. }
          rewrite F2; [exact E | eapply get_eq_lt; [exact E | lia] | lia | lia].
        * apply F1. lia.
      + intros i Hd Hi. rewrite get_ref_resize.
        destruct (N.ltb_spec i size); [|lia]. destruct (N.ltb_spec i (len ref)).
        * assert (get (f s) i = get ref i) as E.
          { apply I2; [|lia]. destruct (N.ltb_spec size (dsize s)); lia. }
          rewrite F2; [exact E | eapply get_eq_lt; [exact E | lia] | lia | lia].
        * apply F1. lia.
      + intros i Hi Hn. rewrite get_ref_resize.
        assert (i < dsize s /\ i < size) as [Hi1 Hi2] by (destruct (N.ltb_spec size (dsize s)); lia).
        destruct (N.ltb_spec i size); [|lia]. destruct (N.ltb_spec i (len ref)); [|lia].
        apply I3; [exact Hi1|]. intro Hx. apply Hn, Hcov. left. exact Hx.
    - unfold t at 1 2. unfold ss_pre at 1 2. simpl. intros Hd Hc i Hi. unfold covered, t, ss_pre. simpl. fold l'.
      apply Hcov. left. apply H6; auto. destruct (N.ltb_spec size (dsize s)); lia. }
  assert (dl t = dl s /\ closed t = closed s /\ ms t = ms s /\ fired t = fired s /\ done t = done s /\ ows t = l')
    as (T1 & T2 & T3 & T4 & T5 & T6) by (unfold t, ss_pre; simpl; auto 10).
  assert (forall i, covered s i -> covered t i) as Hmono.
  { intros i Hi. unfold covered. rewrite T1, T6. apply Hcov. left. exact Hi. }
  cbv zeta. fold t. destruct (N.leb_spec (dsize t) (dl t)) as [Hdn | Hdn].
  - destruct (dd_proj t) as (E1 & E2 & E3 & E4 & E5 & E6 & E7).
    split; [apply dd_core; [exact HCt|]; intros _ i Hi; left; lia|].
    split; [congruence|]. split; [congruence|]. split; [rewrite E3; exact D1|].
    split; [intros i Hi; unfold covered; rewrite E4, E5; apply Hmono; exact Hi|].
    split; [auto|].
    intros M1 M2. unfold download_done. destruct (done t); simpl; rewrite ?T3, ?T4, ?M1, ?M2; auto.
  - split; [exact HCt|]. split; [exact T1|]. split; [exact T2|]. split; [exact D1|].
    split; [exact Hmono|]. split; [congruence|]. intros M1 M2. rewrite T3, T4. auto.
Qed.
End Inv.
