(* Facts about the cap-level model: uri.from_string, UnknownNode, NodeMaker.create_from_cap. *)
From Coq Require Import List NArith ZArith Bool Lia.
From Verif Require Import Lib.Hex Model.Dirnode Proofs.DirnodeBase.
Import ListNotations.
Local Open Scope N_scope.

Section CapFacts.
  Variable classify : bytes -> capclass.
  Local Notation from_string := (from_string classify).
  Local Notation unknown_node := (unknown_node classify).
  Local Notation create_from_cap := (create_from_cap classify).

  (* what a known node looks like *)
  Definition body_of (u : bytes) : bytes :=
    if starts_with IMM_PREFIX u then skipn 4 u else if starts_with RO_PREFIX u then skipn 3 u else u.

  Lemma from_string_known u di n :
    from_string u di = FKnown n ->
    n_err n = None /\ is_unknown n = false /\
    ( (exists d c r, classify (body_of u) = KWrite d c r /\ prefixed u = false /\ di = false /\
                     n = {| n_kind := kind_of d; n_rw := Some c; n_ro := Some r; n_mut := true; n_err := None |})
      \/ (exists d c, classify (body_of u) = KRead d c /\ starts_with IMM_PREFIX u = false /\ di = false /\
                      n = {| n_kind := kind_of d; n_rw := None; n_ro := Some c; n_mut := true; n_err := None |})
      \/ (exists d c, classify (body_of u) = KImm d c /\
                      n = {| n_kind := kind_of d; n_rw := None; n_ro := Some c; n_mut := false; n_err := None |}) ).
  Proof.
    unfold Dirnode.from_string, body_of, prefixed.
    destruct (starts_with IMM_PREFIX u) eqn:Ei; [|destruct (starts_with RO_PREFIX u) eqn:Er];
      destruct (classify _) as [d c r|d c|d c|[]| | |] eqn:Ec; destruct di; cbn;
      intro H; inversion H; subst; clear H;
      (split; [reflexivity|split; [destruct d; reflexivity|]]);
      eauto 12.
  Qed.

  Lemma unknown_node_kind w r di :
    n_kind (unknown_node w r di) = NUnknown /\ n_mut (unknown_node w r di) = false.
  Proof.
    unfold Dirnode.unknown_node, opaque_node.
    repeat match goal with |- context [match ?x with _ => _ end] => destruct x eqn:? end; cbn; auto.
  Qed.

  Lemma truthy_some (x : bytes) : x <> [] -> truthy (Some x) = Some x.
  Proof. destruct x; [congruence|reflexivity]. Qed.

  Lemma nonempty_some (x y : bytes) : nonempty x = Some y -> x = y /\ y <> [].
  Proof. destruct x; cbn; [discriminate|]. intro H. inversion H. split; [reflexivity|discriminate]. Qed.

  Lemma nonempty_none (x : bytes) : nonempty x = None -> x = [].
  Proof. destruct x; cbn; [reflexivity|discriminate]. Qed.

  Definition unknown_plain (rw : option bytes) (x : bytes) : node :=
    {| n_kind := NUnknown; n_rw := rw; n_ro := (if prefixed x then Some x else Some (RO_PREFIX ++ x)); n_mut := false; n_err := None |}.

  (* UnknownNode(None, x) in a mutable context *)
  Lemma unknown_node_ro_only (x : bytes) :
    x <> [] ->
    unknown_node None (Some x) false
    = match from_string x false with
      | FUnknown (Some e) => opaque_node (Some e)
      | _ => unknown_plain None x
      end.
  Proof.
    intro H. unfold Dirnode.unknown_node. rewrite (truthy_some _ H). cbn [truthy].
    destruct (from_string x false) as [n|[e|]]; reflexivity.
  Qed.

  (* UnknownNode(w, x) in a mutable context *)
  Lemma unknown_node_both (w x : bytes) :
    w <> [] -> x <> [] ->
    unknown_node (Some w) (Some x) false
    = if starts_with IMM_PREFIX x then opaque_node (Some EMustBeDeepImmutable)
      else match from_string x false with
           | FUnknown (Some e) => opaque_node (Some e)
           | _ => unknown_plain (Some w) x
           end.
  Proof.
    intros Hw Hx. unfold Dirnode.unknown_node. cbv zeta. rewrite !(truthy_some _ Hw), !(truthy_some _ Hx).
    destruct (starts_with IMM_PREFIX x); [reflexivity|].
    destruct (from_string x false) as [n|[e|]]; reflexivity.
  Qed.

  (* UnknownNode(w, None): a single cap given in the write slot *)
  Lemma unknown_node_rw_only (w : bytes) :
    w <> [] ->
    unknown_node (Some w) None false
    = if prefixed w
      then match from_string w false with
           | FUnknown (Some e) => opaque_node (Some e)
           | _ => unknown_plain None w
           end
      else opaque_node (Some EMustNotBeUnknownRW).
  Proof.
    intro H. unfold Dirnode.unknown_node. cbv zeta. rewrite !(truthy_some _ H). cbn [truthy].
    destruct (prefixed w); [|reflexivity].
    destruct (from_string w false) as [n|[e|]]; reflexivity.
  Qed.

  Lemma cfc_none_some di (x : bytes) :
    x <> [] ->
    create_from_cap di None (Some x)
    = match from_string x di with FKnown n => n | FUnknown _ => unknown_node None (Some x) di end.
  Proof. intro H. unfold Dirnode.create_from_cap. rewrite (truthy_some _ H). reflexivity. Qed.

  Lemma cfc_some di (w : bytes) r :
    w <> [] ->
    create_from_cap di (Some w) r
    = match from_string w di with FKnown n => n | FUnknown _ => unknown_node (Some w) r di end.
  Proof. intro H. unfold Dirnode.create_from_cap. rewrite (truthy_some _ H). reflexivity. Qed.

  Lemma cfc_none_none di : create_from_cap di None None = opaque_node None.
  Proof. reflexivity. Qed.

  (* known write-capable nodes are mutable; unknown nodes are never flagged mutable *)
  Definition shape_ok (n : node) : bool := is_unknown n || negb (has_rw n) || n_mut n.

  Lemma cfc_shape_ok di w r : shape_ok (create_from_cap di w r) = true.
  Proof.
    unfold Dirnode.create_from_cap.
    destruct (match truthy w with Some w0 => Some w0 | None => truthy r end) as [b|]; [|reflexivity].
    destruct (from_string b di) as [n|e] eqn:F.
    - destruct (from_string_known _ _ _ F) as (_ & _ & [H|[H|H]]).
      + destruct H as (d & c & r0 & _ & _ & _ & ->). unfold shape_ok. cbn. apply orb_true_r.
      + destruct H as (d & c & _ & _ & _ & ->). unfold shape_ok, has_rw. cbn. destruct (is_unknown _); reflexivity.
      + destruct H as (d & c & _ & ->). unfold shape_ok, has_rw. cbn. destruct (is_unknown _); reflexivity.
    - unfold shape_ok, is_unknown. rewrite (proj1 (unknown_node_kind w r di)). reflexivity.
  Qed.

  (* in an immutable context nothing write-capable is ever built *)
  Lemma cfc_deep_immutable_no_rw w r : n_rw (create_from_cap true w r) = None.
  Proof.
    unfold Dirnode.create_from_cap.
    destruct (match truthy w with Some w0 => Some w0 | None => truthy r end) as [b|]; [|reflexivity].
    destruct (from_string b true) as [n|e] eqn:F.
    - destruct (from_string_known _ _ _ F) as (_ & _ & [H|[H|H]]).
      + destruct H as (d & c & r0 & _ & _ & Hdi & _). discriminate.
      + destruct H as (d & c & _ & _ & Hdi & _). discriminate.
      + destruct H as (d & c & _ & ->). reflexivity.
    - unfold Dirnode.unknown_node, opaque_node.
      repeat match goal with |- context [match ?x with _ => _ end] => destruct x eqn:? end; cbn; auto.
  Qed.

  (* ---------------- coherence of the cap classification (what uri.py must provide) ---------------- *)
  Definition tidy (c : bytes) : Prop := nonempty (rstrip_sp c) = Some c /\ prefixed c = false.

  Definition caps_coherent : Prop :=
    forall s d c r, classify s = KWrite d c r -> tidy c /\ tidy r /\ classify r = KRead d r.

  Lemma tidy_body c : tidy c -> body_of c = c /\ starts_with IMM_PREFIX c = false /\ starts_with RO_PREFIX c = false.
  Proof.
    intros [_ H]. unfold prefixed in H. apply orb_false_iff in H. destruct H as [Hr Hi].
    unfold body_of. rewrite Hi, Hr. auto.
  Qed.

  Lemma tidy_strip c di : tidy c -> strip_prefix_for_ro c di = c.
  Proof. intro H. destruct (tidy_body _ H) as (_ & Hi & Hr). unfold strip_prefix_for_ro. rewrite Hi, Hr. reflexivity. Qed.

  Lemma from_string_tidy_read d r : tidy r -> classify r = KRead d r ->
    from_string r false = FKnown {| n_kind := kind_of d; n_rw := None; n_ro := Some r; n_mut := true; n_err := None |}.
  Proof.
    intros Ht Hc. destruct (tidy_body _ Ht) as (_ & Hi & Hr).
    unfold Dirnode.from_string. rewrite Hi, Hr, Hc. reflexivity.
  Qed.

  (* ---------------- C18: what a read-only reader rebuilds from a stable child ---------------- *)
  Lemma stable_inv n : stableb classify n = true -> n_err n = None /\ reread classify n = n.
  Proof.
    unfold stableb. destruct (n_err n); [discriminate|]. intro H. apply node_eqb_eq in H. auto.
  Qed.

  Theorem reread_ro_readonly n :
    caps_coherent -> stableb classify n = true -> ro_slot_okb classify n = true ->
    n_err (reread_ro classify n) = None /\ n_rw (reread_ro classify n) = None.
  Proof.
    intros Hco Hst Hslot. destruct (stable_inv _ Hst) as [Herr Hre].
    unfold reread_ro. unfold reread in Hre. unfold ro_slot_okb, reread_ro in Hslot.
    remember (rstrip_sp (stored_ro false n)) as x eqn:Hxdef in *.
    destruct (nonempty x) as [x'|] eqn:Ex.
    2:{ rewrite cfc_none_none. split; reflexivity. }
    destruct (nonempty_some _ _ Ex) as [Exx Hx]. subst x'. clear Ex.
    assert (Enx : nonempty x = Some x) by (destruct x; [congruence|reflexivity]).
    rewrite (cfc_none_some false x Hx).
    remember (nonempty (rstrip_sp (or_empty (n_rw n)))) as rw0 eqn:Hrw0 in *.
    destruct (from_string x false) as [n'|e] eqn:F.
    - (* the read-cap slot is a known cap *)
      destruct (from_string_known _ _ _ F) as (E' & U' & [H|[H|H]]).
      + (* ... a write cap: impossible for a stable child outside the excluded class *)
        exfalso. destruct H as (d & c & r & Hc & Hpre & _ & Hn').
        assert (Hbody : body_of x = x).
        { unfold prefixed in Hpre. apply orb_false_iff in Hpre. destruct Hpre as [Hr Hi]. unfold body_of. rewrite Hi, Hr. reflexivity. }
        rewrite Hbody in Hc.
        destruct (is_unknown n && has_rw n) eqn:Ecls.
        *
          rewrite (cfc_none_some false x Hx), F, Hn' in Hslot. discriminate.
        * destruct rw0 as [w|].
          -- destruct (nonempty_some _ _ (eq_sym Hrw0)) as [Ew Hw].
             rewrite (cfc_some false w _ Hw) in Hre.
             destruct (from_string w false) as [nw|ew] eqn:Fw.
             ++ subst nw. destruct (from_string_known _ _ _ Fw) as (_ & _ & [H|[H|H]]).
                ** destruct H as (d2 & c2 & r2 & Hc2 & _ & _ & Hn).
                   destruct (Hco _ _ _ _ Hc2) as (_ & Htr & Hcr).
                   assert (Hxr : x = r2).
                   { rewrite Hxdef. unfold stored_ro. rewrite Hn. cbn [n_ro or_empty]. rewrite (tidy_strip _ _ Htr).
                     destruct Htr as [Hne _]. apply nonempty_some in Hne. tauto. }
                   rewrite Hxr, Hcr in Hc. discriminate.
                ** destruct H as (d2 & c2 & _ & _ & _ & Hn). rewrite Hn in Hrw0. discriminate.
                ** destruct H as (d2 & c2 & _ & Hn). rewrite Hn in Hrw0. discriminate.
             ++ assert (Hu : is_unknown n = true).
                { rewrite <- Hre. unfold is_unknown. rewrite (proj1 (unknown_node_kind _ _ _)). reflexivity. }
                rewrite Hu in Ecls. cbn [andb] in Ecls. unfold has_rw in Ecls.
                destruct (n_rw n); [discriminate|]. discriminate.
          -- rewrite (cfc_none_some false x Hx), F in Hre.
             rewrite <- Hre, Hn' in Hrw0. cbn [n_rw or_empty] in Hrw0.
             destruct (Hco _ _ _ _ Hc) as ([Hne _] & _). rewrite Hne in Hrw0. discriminate.
      + destruct H as (d & c & _ & _ & _ & ->). split; reflexivity.
      + destruct H as (d & c & _ & ->). split; reflexivity.
    - (* the read-cap slot is not a known cap: an UnknownNode with the read cap only *)
      rewrite (unknown_node_ro_only x Hx), F.
      destruct e as [e|]; [|split; reflexivity].
      exfalso.
      destruct rw0 as [w|].
      + destruct (nonempty_some _ _ (eq_sym Hrw0)) as [Ew Hw].
        rewrite (cfc_some false w _ Hw) in Hre.
        destruct (from_string w false) as [nw|ew] eqn:Fw.
        * subst nw. destruct (from_string_known _ _ _ Fw) as (_ & _ & [H|[H|H]]).
          -- destruct H as (d2 & c2 & r2 & Hc2 & _ & _ & Hn).
             destruct (Hco _ _ _ _ Hc2) as (_ & Htr & Hcr).
             assert (Hxr : x = r2).
             { rewrite Hxdef. unfold stored_ro. rewrite Hn. cbn [n_ro or_empty]. rewrite (tidy_strip _ _ Htr).
               destruct Htr as [Hne _]. apply nonempty_some in Hne. tauto. }
             rewrite Hxr, (from_string_tidy_read _ _ Htr Hcr) in F. discriminate.
          -- destruct H as (d2 & c2 & _ & _ & _ & Hn). rewrite Hn in Hrw0. discriminate.
          -- destruct H as (d2 & c2 & _ & Hn). rewrite Hn in Hrw0. discriminate.
        * rewrite (unknown_node_both w x Hw Hx), F in Hre.
          destruct (starts_with IMM_PREFIX x); rewrite <- Hre in Herr; discriminate.
      + rewrite (cfc_none_some false x Hx), F, (unknown_node_ro_only x Hx), F in Hre.
        rewrite <- Hre in Herr. discriminate.
  Qed.

  (* ---------------- C19: the nodes the node maker builds from tidy caps are stable ---------------- *)
  Lemma starts_with_split p s : starts_with p s = true -> s = p ++ skipn (List.length p) s.
  Proof.
    revert s. induction p as [|x p IH]; intros s H; [reflexivity|].
    destruct s as [|y s]; [discriminate|]. cbn in H. apply andb_prop in H. destruct H as [E H].
    apply N.eqb_eq in E. subst y. cbn. f_equal. apply IH. exact H.
  Qed.

  Lemma rstrip_suffix (a b : bytes) : rstrip_sp (a ++ b) = a ++ b -> b <> [] -> rstrip_sp b = b.
  Proof.
    induction a as [|x a IH]; intros H Hb; [exact H|].
    cbn [app rstrip_sp] in H. destruct (rstrip_sp (a ++ b)) as [|y r'] eqn:E.
    - exfalso. destruct (x =? 32); [discriminate|]. inversion H as [H1]. symmetry in H1. apply app_eq_nil in H1. tauto.
    - inversion H as [H1]. apply IH; [|exact Hb]. rewrite H1. reflexivity.
  Qed.

  (* a cap string as a caller may hand it over: no trailing space; an alleged prefix is followed by a
     non-empty body that is not prefixed again *)
  Definition cap_ok (u : bytes) : Prop :=
    rstrip_sp u = u /\ (prefixed u = true -> body_of u <> [] /\ prefixed (body_of u) = false).
  Definition ocap_ok (o : option bytes) : Prop := match o with Some u => cap_ok u | None => True end.

  Definition caps_coherent_full : Prop :=
    forall s, match classify s with
              | KWrite d c r => tidy c /\ tidy r /\ classify c = KWrite d c r /\ classify r = KRead d r
              | KRead d c => tidy c /\ classify c = KRead d c
              | KImm d c => tidy c /\ classify c = KImm d c
              | _ => True
              end.

  Lemma nonempty_tidy c : tidy c -> nonempty (rstrip_sp c) = Some c.
  Proof. intros [H _]. exact H. Qed.

  Lemma tidy_nonempty c : tidy c -> c <> [].
  Proof. intros [H _] E. subst. discriminate. Qed.

  Lemma unknown_node_truthy w r di : unknown_node w r di = unknown_node (truthy w) (truthy r) di.
  Proof.
    unfold Dirnode.unknown_node.
    assert (T : forall o, truthy (truthy o) = truthy o) by (intros [[|? ?]|]; reflexivity).
    rewrite !T. reflexivity.
  Qed.

  Lemma nonempty_rstrip_fixed (u : bytes) : rstrip_sp u = u -> u <> [] -> nonempty (rstrip_sp u) = Some u.
  Proof. intros -> H. destruct u; [congruence|reflexivity]. Qed.

  (* from_string on an unprefixed string, all flags on *)
  Lemma from_string_plain u :
    prefixed u = false ->
    from_string u false
    = match classify u with
      | KWrite d c r => FKnown {| n_kind := kind_of d; n_rw := Some c; n_ro := Some r; n_mut := true; n_err := None |}
      | KRead d c => FKnown {| n_kind := kind_of d; n_rw := None; n_ro := Some c; n_mut := true; n_err := None |}
      | KImm d c => FKnown {| n_kind := kind_of d; n_rw := None; n_ro := Some c; n_mut := false; n_err := None |}
      | KBad _ => FUnknown (Some EBadURI)
      | _ => FUnknown None
      end.
  Proof.
    intro H. unfold prefixed in H. apply orb_false_iff in H. destruct H as [Hr Hi].
    unfold Dirnode.from_string. rewrite Hi, Hr. cbn [negb].
    destruct (classify u) as [d c r|d c|d c|[]| | |]; reflexivity.
  Qed.

  (* ... and behind an ro. prefix *)
  Lemma from_string_ro body :
    from_string (RO_PREFIX ++ body) false
    = match classify body with
      | KWrite _ _ _ => FUnknown (Some EMustBeReadonly)
      | KRead d c => FKnown {| n_kind := kind_of d; n_rw := None; n_ro := Some c; n_mut := true; n_err := None |}
      | KImm d c => FKnown {| n_kind := kind_of d; n_rw := None; n_ro := Some c; n_mut := false; n_err := None |}
      | KBad GWrite => FUnknown (Some EMustBeReadonly)
      | KBad _ => FUnknown (Some EBadURI)
      | KFutureW => FUnknown (Some EMustBeReadonly)
      | _ => FUnknown None
      end.
  Proof.
    unfold Dirnode.from_string.
    change (starts_with IMM_PREFIX (RO_PREFIX ++ body)) with false.
    change (starts_with RO_PREFIX (RO_PREFIX ++ body)) with true.
    change (skipn 3 (RO_PREFIX ++ body)) with body. cbn [negb].
    destruct (classify body) as [d c r|d c|d c|[]| | |]; reflexivity.
  Qed.

  (* the read-cap field written for an UnknownNode whose read cap came from the caller's string x *)
  Definition ro_field (x : bytes) : bytes :=
    if starts_with IMM_PREFIX x then x else if starts_with RO_PREFIX x then skipn 3 x else x.

  Lemma stored_ro_unknown_plain rw x : stored_ro false (unknown_plain rw x) = ro_field x.
  Proof.
    unfold stored_ro, unknown_plain, ro_field, prefixed. cbn [n_ro].
    destruct (starts_with IMM_PREFIX x) eqn:Ei.
    - rewrite orb_true_r. cbn [or_empty]. unfold strip_prefix_for_ro. rewrite Ei. reflexivity.
    - destruct (starts_with RO_PREFIX x) eqn:Er; cbn [orb or_empty].
      + unfold strip_prefix_for_ro. rewrite Ei, Er. reflexivity.
      + reflexivity.
  Qed.

  (* reading the field back gives the same UnknownNode read cap, and no error *)
  Lemma ro_field_back x :
    cap_ok x -> x <> [] ->
    (forall e, from_string x false <> FUnknown (Some e)) ->
    let y := ro_field x in
    y <> [] /\ rstrip_sp y = y /\
    (forall e, from_string y false <> FUnknown (Some e)) /\
    starts_with IMM_PREFIX y = starts_with IMM_PREFIX x /\
    (if prefixed y then Some y else Some (RO_PREFIX ++ y)) = (if prefixed x then Some x else Some (RO_PREFIX ++ x)) /\
    ((exists n, from_string x false = FKnown n) \/ from_string x false = FUnknown None ->
     starts_with IMM_PREFIX x = false -> starts_with RO_PREFIX x = true ->
     (exists n, from_string y false = FKnown n) \/ from_string y false = FUnknown None).
  Proof.
    intros [Hrs Hpre] Hne Herr. unfold ro_field. cbv zeta.
    destruct (starts_with IMM_PREFIX x) eqn:Ei.
    - repeat split; auto; try (intros; discriminate).
    - destruct (starts_with RO_PREFIX x) eqn:Er.
      + assert (Hp : prefixed x = true) by (unfold prefixed; rewrite Er; reflexivity).
        destruct (Hpre Hp) as [Hb Hbp]. unfold body_of in Hb, Hbp. rewrite Ei, Er in Hb, Hbp.
        pose proof (starts_with_split _ _ Er) as Hx. change (List.length RO_PREFIX) with 3%nat in Hx.
        set (body := skipn 3 x) in *.
        assert (Hrb : rstrip_sp body = body) by (apply (rstrip_suffix RO_PREFIX body); [rewrite <- Hx; exact Hrs|exact Hb]).
        assert (Hfs : from_string x false = from_string (RO_PREFIX ++ body) false) by (rewrite <- Hx; reflexivity).
        rewrite from_string_ro in Hfs.
        pose proof (from_string_plain body Hbp) as Hfb.
        unfold prefixed in Hbp. apply orb_false_iff in Hbp. destruct Hbp as [Hbr Hbi].
        split; [exact Hb|]. split; [exact Hrb|]. split; [|split; [exact Hbi|split]].
        * intros e He. rewrite Hfb in He.
          destruct (classify body) as [d c r|d c|d c|g| | |]; try discriminate.
          destruct g; eapply Herr; rewrite Hfs; reflexivity.
        * unfold prefixed. rewrite Hbr, Hbi, Er. cbn [orb]. rewrite <- Hx. reflexivity.
        * intros _ _ _. rewrite Hfb.
          destruct (classify body) as [d c r|d c|d c|g| | |]; eauto.
          exfalso. destruct g; eapply Herr; rewrite Hfs; reflexivity.
      + repeat split; auto; try (intros; discriminate).
  Qed.

  Theorem cfc_stable w r :
    caps_coherent_full -> ocap_ok w -> ocap_ok r ->
    n_err (create_from_cap false w r) = None ->
    stableb classify (create_from_cap false w r) = true.
  Proof.
    intros Hco Hw Hr Herr. unfold stableb. rewrite Herr. apply node_eqb_eq.
    unfold Dirnode.create_from_cap in *.
    destruct (match truthy w with Some w0 => Some w0 | None => truthy r end) as [b|] eqn:Eb.
    2:{ reflexivity. }
    destruct (from_string b false) as [n|e0] eqn:F.
    - (* a known node: its caps are canonical, reading them back classifies the same way *)
      destruct (from_string_known _ _ _ F) as (_ & _ & [H|[H|H]]).
      + destruct H as (d & c & r0 & Hc & _ & _ & ->). specialize (Hco (body_of b)). rewrite Hc in Hco.
        destruct Hco as (Htc & Htr & Hcc & Hcr).
        unfold reread, stored_ro. cbn [n_rw n_ro or_empty]. rewrite (tidy_strip _ _ Htr), (nonempty_tidy _ Htc), (nonempty_tidy _ Htr).
        rewrite (cfc_some false c _ (tidy_nonempty _ Htc)).
        destruct Htc as [_ Hpc]. rewrite (from_string_plain c Hpc), Hcc. reflexivity.
      + destruct H as (d & c & Hc & _ & _ & ->). specialize (Hco (body_of b)). rewrite Hc in Hco.
        destruct Hco as (Htc & Hcc).
        unfold reread, stored_ro. cbn [n_rw n_ro or_empty rstrip_sp nonempty]. rewrite (tidy_strip _ _ Htc), (nonempty_tidy _ Htc).
        rewrite (cfc_none_some false c (tidy_nonempty _ Htc)).
        destruct Htc as [_ Hpc]. rewrite (from_string_plain c Hpc), Hcc. reflexivity.
      + destruct H as (d & c & Hc & ->). specialize (Hco (body_of b)). rewrite Hc in Hco.
        destruct Hco as (Htc & Hcc).
        unfold reread, stored_ro. cbn [n_rw n_ro or_empty rstrip_sp nonempty]. rewrite (tidy_strip _ _ Htc), (nonempty_tidy _ Htc).
        rewrite (cfc_none_some false c (tidy_nonempty _ Htc)).
        destruct Htc as [_ Hpc]. rewrite (from_string_plain c Hpc), Hcc. reflexivity.
    - (* an UnknownNode *)
      rewrite unknown_node_truthy in *.
      destruct (truthy w) as [w1|] eqn:Ew.
      + (* a cap in the write slot *)
        inversion Eb; subst b. clear Eb.
        assert (Hw1 : cap_ok w1 /\ w1 <> []).
        { destruct w as [[|x w0]|]; try discriminate. cbn in Ew. inversion Ew; subst. split; [exact Hw|discriminate]. }
        destruct Hw1 as [Hokw Hnew].
        destruct (truthy r) as [r1|] eqn:Er.
        * assert (Hr1 : cap_ok r1 /\ r1 <> []).
          { destruct r as [[|x r0]|]; try discriminate. cbn in Er. inversion Er; subst. split; [exact Hr|discriminate]. }
          destruct Hr1 as [Hokr Hner].
          rewrite (unknown_node_both w1 r1 Hnew Hner) in *.
          destruct (starts_with IMM_PREFIX r1) eqn:Ei; [discriminate|].
          assert (Hnoerr : forall e, from_string r1 false <> FUnknown (Some e)).
          { intros e He. rewrite He in Herr. discriminate. }
          assert (Hn : match from_string r1 false with FUnknown (Some e) => opaque_node (Some e) | _ => unknown_plain (Some w1) r1 end
                       = unknown_plain (Some w1) r1).
          { destruct (from_string r1 false) as [?|[e|]]; try reflexivity. exfalso. eapply Hnoerr. reflexivity. }
          rewrite Hn. clear Hn Herr.
          destruct (ro_field_back r1 Hokr Hner Hnoerr) as (Hy & Hry & Hey & Hiy & Hroy & _).
          unfold reread. rewrite stored_ro_unknown_plain. cbn [n_rw unknown_plain or_empty].
          destruct Hokw as [Hrw _].
          rewrite (nonempty_rstrip_fixed w1 Hrw Hnew), (nonempty_rstrip_fixed _ Hry Hy).
          rewrite (cfc_some false w1 _ Hnew), F.
          rewrite (unknown_node_both w1 (ro_field r1) Hnew Hy). rewrite Hiy, Ei.
          assert (Hn : match from_string (ro_field r1) false with FUnknown (Some e) => opaque_node (Some e) | _ => unknown_plain (Some w1) (ro_field r1) end
                       = unknown_plain (Some w1) (ro_field r1)).
          { destruct (from_string (ro_field r1) false) as [?|[e|]]; try reflexivity. exfalso. eapply Hey. reflexivity. }
          rewrite Hn. unfold unknown_plain. rewrite Hroy. reflexivity.
        * (* only a write-slot cap: accepted when it carries an alleged prefix; it then is the read cap *)
          rewrite (unknown_node_rw_only w1 Hnew) in *.
          destruct (prefixed w1) eqn:Ep; [|discriminate].
          rewrite F in *. destruct e0 as [e|]; [discriminate|]. clear Herr.
          assert (Hnoerr : forall e, from_string w1 false <> FUnknown (Some e)) by (intros e He; rewrite He in F; discriminate).
          destruct (ro_field_back w1 Hokw Hnew Hnoerr) as (Hy & Hry & Hey & Hiy & Hroy & Hkind).
          unfold reread. rewrite stored_ro_unknown_plain. cbn [n_rw unknown_plain or_empty rstrip_sp nonempty].
          rewrite (nonempty_rstrip_fixed _ Hry Hy). rewrite (cfc_none_some false _ Hy).
          assert (Hfy : from_string (ro_field w1) false = FUnknown None).
          { unfold ro_field in *. destruct (starts_with IMM_PREFIX w1) eqn:Ei; [exact F|].
            destruct (starts_with RO_PREFIX w1) eqn:Er2; [|exact F].
            destruct (Hkind (or_intror F) eq_refl eq_refl) as [[n Hk]|Hk]; [|exact Hk].
            (* a known cap behind ro. would have made from_string w1 known as well *)
            exfalso. pose proof (starts_with_split _ _ Er2) as Hx. change (List.length RO_PREFIX) with 3%nat in Hx.
            assert (Hbp : prefixed (skipn 3 w1) = false).
            { destruct Hokw as [_ Hpre]. destruct (Hpre Ep) as [_ Hbp]. unfold body_of in Hbp. rewrite Ei, Er2 in Hbp. exact Hbp. }
            rewrite (from_string_plain _ Hbp) in Hk. rewrite Hx, from_string_ro in F.
            destruct (classify (skipn 3 w1)) as [d c r0|d c|d c|g| | |]; try discriminate; try (destruct g; discriminate). }
          rewrite Hfy, (unknown_node_ro_only _ Hy), Hfy. unfold unknown_plain. rewrite Hroy. reflexivity.
      + (* only a read-slot cap *)
        destruct (truthy r) as [r1|] eqn:Er; [|discriminate]. inversion Eb; subst b. clear Eb.
        assert (Hr1 : cap_ok r1 /\ r1 <> []).
        { destruct r as [[|x r0]|]; try discriminate. cbn in Er. inversion Er; subst. split; [exact Hr|discriminate]. }
        destruct Hr1 as [Hokr Hner].
        rewrite (unknown_node_ro_only r1 Hner), F in *.
        destruct e0 as [e|]; [discriminate|]. clear Herr.
        assert (Hnoerr : forall e, from_string r1 false <> FUnknown (Some e)) by (intros e He; rewrite He in F; discriminate).
        destruct (ro_field_back r1 Hokr Hner Hnoerr) as (Hy & Hry & Hey & Hiy & Hroy & Hkind).
        unfold reread. rewrite stored_ro_unknown_plain. cbn [n_rw unknown_plain or_empty rstrip_sp nonempty].
        rewrite (nonempty_rstrip_fixed _ Hry Hy). rewrite (cfc_none_some false _ Hy).
        assert (Hfy : from_string (ro_field r1) false = FUnknown None).
        { unfold ro_field in *. destruct (starts_with IMM_PREFIX r1) eqn:Ei; [exact F|].
          destruct (starts_with RO_PREFIX r1) eqn:Er2; [|exact F].
          destruct (Hkind (or_intror F) eq_refl eq_refl) as [[n Hk]|Hk]; [|exact Hk].
          exfalso. pose proof (starts_with_split _ _ Er2) as Hx. change (List.length RO_PREFIX) with 3%nat in Hx.
          assert (Hp : prefixed r1 = true) by (unfold prefixed; rewrite Er2; reflexivity).
          assert (Hbp : prefixed (skipn 3 r1) = false).
          { destruct Hokr as [_ Hpre]. destruct (Hpre Hp) as [_ Hbp]. unfold body_of in Hbp. rewrite Ei, Er2 in Hbp. exact Hbp. }
          rewrite (from_string_plain _ Hbp) in Hk. rewrite Hx, from_string_ro in F.
          destruct (classify (skipn 3 r1)) as [d c r0|d c|d c|g| | |]; try discriminate; try (destruct g; discriminate). }
        rewrite Hfy, (unknown_node_ro_only _ Hy), Hfy. unfold unknown_plain. rewrite Hroy. reflexivity.
  Qed.
End CapFacts.
