(* Facts about the cap-level model: uri.from_string, UnknownNode, NodeMaker.create_from_cap. *)
From Coq Require Import List NArith ZArith Bool Lia.
From Verif Require Import Lib.Hex Model.Dirnode Proofs.DirnodeBase.
Import ListNotations.
Local Open Scope N_scope.

Section CapFacts.
  Variable classify : bytes -> capclass.
  Local Notation from_string := (from_string classify).
  Local Notation unknown_node := (unknown_node classify).
  Local Notation create_from_cap := (create_from_cap classify).

  (* what a known node looks like *)
  Definition body_of (u : bytes) : bytes :=
    if starts_with IMM_PREFIX u then skipn 4 u else if starts_with RO_PREFIX u then skipn 3 u else u.

  Lemma from_string_known u di n :
    from_string u di = FKnown n ->
    n_err n = None /\ is_unknown n = false /\
    ( (exists d c r, classify (body_of u) = KWrite d c r /\ prefixed u = false /\ di = false /\
                     n = {| n_kind := kind_of d; n_rw := Some c; n_ro := Some r; n_mut := true; n_err := None |})
      \/ (exists d c, classify (body_of u) = KRead d c /\ starts_with IMM_PREFIX u = false /\ di = false /\
                      n = {| n_kind := kind_of d; n_rw := None; n_ro := Some c; n_mut := true; n_err := None |})
      \/ (exists d c, classify (body_of u) = KImm d c /\
                      n = {| n_kind := kind_of d; n_rw := None; n_ro := Some c; n_mut := false; n_err := None |}) ).
  Proof.
    unfold Dirnode.from_string, body_of, prefixed.
    destruct (starts_with IMM_PREFIX u) eqn:Ei; [|destruct (starts_with RO_PREFIX u) eqn:Er];
      destruct (classify _) as [d c r|d c|d c|[]| | |] eqn:Ec; destruct di; cbn;
      intro H; inversion H; subst; clear H;
      (split; [reflexivity|split; [destruct d; reflexivity|]]);
      eauto 12.
  Qed.

  Lemma unknown_node_kind w r di :
    n_kind (unknown_node w r di) = NUnknown /\ n_mut (unknown_node w r di) = false.
  Proof.
    unfold Dirnode.unknown_node, opaque_node.
    repeat match goal with |- context [match ?x with _ => _ end] => destruct x eqn:? end; cbn; auto.
  Qed.

  Lemma truthy_some (x : bytes) : x <> [] -> truthy (Some x) = Some x.
  Proof. destruct x; [congruence|reflexivity]. Qed.

  Lemma nonempty_some (x y : bytes) : nonempty x = Some y -> x = y /\ y <> [].
  Proof. destruct x; cbn; [discriminate|]. intro H. inversion H. split; [reflexivity|discriminate]. Qed.

  Lemma nonempty_none (x : bytes) : nonempty x = None -> x = [].
  Proof. destruct x; cbn; [reflexivity|discriminate]. Qed.

  Definition unknown_plain (rw : option bytes) (x : bytes) : node :=
    {| n_kind := NUnknown; n_rw := rw; n_ro := (if prefixed x then Some x else Some (RO_PREFIX ++ x)); n_mut := false; n_err := None |}.

  (* UnknownNode(None, x) in a mutable context *)
  Lemma unknown_node_ro_only (x : bytes) :
    x <> [] ->
    unknown_node None (Some x) false
    = match from_string x false with
      | FUnknown (Some e) => opaque_node (Some e)
      | _ => unknown_plain None x
      end.
  Proof.
    intro H. unfold Dirnode.unknown_node. rewrite (truthy_some _ H). cbn [truthy].
    destruct (from_string x false) as [n|[e|]]; reflexivity.
  Qed.

  (* UnknownNode(w, x) in a mutable context *)
  Lemma unknown_node_both (w x : bytes) :
    w <> [] -> x <> [] ->
    unknown_node (Some w) (Some x) false
    = if starts_with IMM_PREFIX x then opaque_node (Some EMustBeDeepImmutable)
      else match from_string x false with
           | FUnknown (Some e) => opaque_node (Some e)
           | _ => unknown_plain (Some w) x
           end.
  Proof.
    intros Hw Hx. unfold Dirnode.unknown_node. cbv zeta. rewrite !(truthy_some _ Hw), !(truthy_some _ Hx).
    destruct (starts_with IMM_PREFIX x); [reflexivity|].
    destruct (from_string x false) as [n|[e|]]; reflexivity.
  Qed.

  Lemma cfc_none_some di (x : bytes) :
    x <> [] ->
    create_from_cap di None (Some x)
    = match from_string x di with FKnown n => n | FUnknown _ => unknown_node None (Some x) di end.
  Proof. intro H. unfold Dirnode.create_from_cap. rewrite (truthy_some _ H). reflexivity. Qed.

  Lemma cfc_some di (w : bytes) r :
    w <> [] ->
    create_from_cap di (Some w) r
    = match from_string w di with FKnown n => n | FUnknown _ => unknown_node (Some w) r di end.
  Proof. intro H. unfold Dirnode.create_from_cap. rewrite (truthy_some _ H). reflexivity. Qed.

  Lemma cfc_none_none di : create_from_cap di None None = opaque_node None.
  Proof. reflexivity. Qed.

  (* known write-capable nodes are mutable; unknown nodes are never flagged mutable *)
  Definition shape_ok (n : node) : bool := is_unknown n || negb (has_rw n) || n_mut n.

  Lemma cfc_shape_ok di w r : shape_ok (create_from_cap di w r) = true.
  Proof.
    unfold Dirnode.create_from_cap.
    destruct (match truthy w with Some w0 => Some w0 | None => truthy r end) as [b|]; [|reflexivity].
    destruct (from_string b di) as [n|e] eqn:F.
    - destruct (from_string_known _ _ _ F) as (_ & _ & [H|[H|H]]).
      + destruct H as (d & c & r0 & _ & _ & _ & ->). unfold shape_ok. cbn. apply orb_true_r.
      + destruct H as (d & c & _ & _ & _ & ->). unfold shape_ok, has_rw. cbn. destruct (is_unknown _); reflexivity.
      + destruct H as (d & c & _ & ->). unfold shape_ok, has_rw. cbn. destruct (is_unknown _); reflexivity.
    - unfold shape_ok, is_unknown. rewrite (proj1 (unknown_node_kind w r di)). reflexivity.
  Qed.

  (* in an immutable context nothing write-capable is ever built *)
  Lemma cfc_deep_immutable_no_rw w r : n_rw (create_from_cap true w r) = None.
  Proof.
    unfold Dirnode.create_from_cap.
    destruct (match truthy w with Some w0 => Some w0 | None => truthy r end) as [b|]; [|reflexivity].
    destruct (from_string b true) as [n|e] eqn:F.
    - destruct (from_string_known _ _ _ F) as (_ & _ & [H|[H|H]]).
      + destruct H as (d & c & r0 & _ & _ & Hdi & _). discriminate.
      + destruct H as (d & c & _ & _ & Hdi & _). discriminate.
      + destruct H as (d & c & _ & ->). reflexivity.
    - unfold Dirnode.unknown_node, opaque_node.
      repeat match goal with |- context [match ?x with _ => _ end] => destruct x eqn:? end; cbn; auto.
  Qed.

  (* ---------------- coherence of the cap classification (what uri.py must provide) ---------------- *)
  Definition tidy (c : bytes) : Prop := nonempty (rstrip_sp c) = Some c /\ prefixed c = false.

  Definition caps_coherent : Prop :=
    forall s d c r, classify s = KWrite d c r -> tidy c /\ tidy r /\ classify r = KRead d r.

  Lemma tidy_body c : tidy c -> body_of c = c /\ starts_with IMM_PREFIX c = false /\ starts_with RO_PREFIX c = false.
  Proof.
    intros [_ H]. unfold prefixed in H. apply orb_false_iff in H. destruct H as [Hr Hi].
    unfold body_of. rewrite Hi, Hr. auto.
  Qed.

  Lemma tidy_strip c di : tidy c -> strip_prefix_for_ro c di = c.
  Proof. intro H. destruct (tidy_body _ H) as (_ & Hi & Hr). unfold strip_prefix_for_ro. rewrite Hi, Hr. reflexivity. Qed.

  Lemma from_string_tidy_read d r : tidy r -> classify r = KRead d r ->
    from_string r false = FKnown {| n_kind := kind_of d; n_rw := None; n_ro := Some r; n_mut := true; n_err := None |}.
  Proof.
    intros Ht Hc. destruct (tidy_body _ Ht) as (_ & Hi & Hr).
    unfold Dirnode.from_string. rewrite Hi, Hr, Hc. reflexivity.
  Qed.

  (* ---------------- C18: what a read-only reader rebuilds from a stable child ---------------- *)
  Lemma stable_inv n : stableb classify n = true -> n_err n = None /\ reread classify n = n.
  Proof.
    unfold stableb. destruct (n_err n); [discriminate|]. intro H. apply node_eqb_eq in H. auto.
  Qed.

  Theorem reread_ro_readonly n :
    caps_coherent -> stableb classify n = true -> ro_slot_okb classify n = true ->
    n_err (reread_ro classify n) = None /\ n_rw (reread_ro classify n) = None.
  Proof.
    intros Hco Hst Hslot. destruct (stable_inv _ Hst) as [Herr Hre].
    unfold reread_ro. unfold reread in Hre. unfold ro_slot_okb, reread_ro in Hslot.
    remember (rstrip_sp (stored_ro false n)) as x eqn:Hxdef in *.
    destruct (nonempty x) as [x'|] eqn:Ex.
    2:{ rewrite cfc_none_none. split; reflexivity. }
    destruct (nonempty_some _ _ Ex) as [Exx Hx]. subst x'. clear Ex.
    assert (Enx : nonempty x = Some x) by (destruct x; [congruence|reflexivity]).
    rewrite (cfc_none_some false x Hx).
    remember (nonempty (rstrip_sp (or_empty (n_rw n)))) as rw0 eqn:Hrw0 in *.
    destruct (from_string x false) as [n'|e] eqn:F.
    - (* the read-cap slot is a known cap *)
      destruct (from_string_known _ _ _ F) as (E' & U' & [H|[H|H]]).
      + (* ... a write cap: impossible for a stable child outside the excluded class *)
        exfalso. destruct H as (d & c & r & Hc & Hpre & _ & Hn').
        assert (Hbody : body_of x = x).
        { unfold prefixed in Hpre. apply orb_false_iff in Hpre. destruct Hpre as [Hr Hi]. unfold body_of. rewrite Hi, Hr. reflexivity. }
        rewrite Hbody in Hc.
        destruct (is_unknown n && has_rw n) eqn:Ecls.
        *
          rewrite (cfc_none_some false x Hx), F, Hn' in Hslot. discriminate.
        * destruct rw0 as [w|].
          -- destruct (nonempty_some _ _ (eq_sym Hrw0)) as [Ew Hw].
             rewrite (cfc_some false w _ Hw) in Hre.
             destruct (from_string w false) as [nw|ew] eqn:Fw.
             ++ subst nw. destruct (from_string_known _ _ _ Fw) as (_ & _ & [H|[H|H]]).
                ** destruct H as (d2 & c2 & r2 & Hc2 & _ & _ & Hn).
                   destruct (Hco _ _ _ _ Hc2) as (_ & Htr & Hcr).
                   assert (Hxr : x = r2).
                   { rewrite Hxdef. unfold stored_ro. rewrite Hn. cbn [n_ro or_empty]. rewrite (tidy_strip _ _ Htr).
                     destruct Htr as [Hne _]. apply nonempty_some in Hne. tauto. }
                   rewrite Hxr, Hcr in Hc. discriminate.
                ** destruct H as (d2 & c2 & _ & _ & _ & Hn). rewrite Hn in Hrw0. discriminate.
                ** destruct H as (d2 & c2 & _ & Hn). rewrite Hn in Hrw0. discriminate.
             ++ assert (Hu : is_unknown n = true).
                { rewrite <- Hre. unfold is_unknown. rewrite (proj1 (unknown_node_kind _ _ _)). reflexivity. }
                rewrite Hu in Ecls. cbn [andb] in Ecls. unfold has_rw in Ecls.
                destruct (n_rw n); [discriminate|]. discriminate.
          -- rewrite (cfc_none_some false x Hx), F in Hre.
             rewrite <- Hre, Hn' in Hrw0. cbn [n_rw or_empty] in Hrw0.
             destruct (Hco _ _ _ _ Hc) as ([Hne _] & _). rewrite Hne in Hrw0. discriminate.
      + destruct H as (d & c & _ & _ & _ & ->). split; reflexivity.
      + destruct H as (d & c & _ & ->). split; reflexivity.
    - (* the read-cap slot is not a known cap: an UnknownNode with the read cap only *)
      rewrite (unknown_node_ro_only x Hx), F.
      destruct e as [e|]; [|split; reflexivity].
      exfalso.
      destruct rw0 as [w|].
      + destruct (nonempty_some _ _ (eq_sym Hrw0)) as [Ew Hw].
        rewrite (cfc_some false w _ Hw) in Hre.
        destruct (from_string w false) as [nw|ew] eqn:Fw.
        * subst nw. destruct (from_string_known _ _ _ Fw) as (_ & _ & [H|[H|H]]).
          -- destruct H as (d2 & c2 & r2 & Hc2 & _ & _ & Hn).
             destruct (Hco _ _ _ _ Hc2) as (_ & Htr & Hcr).
             assert (Hxr : x = r2).
             { rewrite Hxdef. unfold stored_ro. rewrite Hn. cbn [n_ro or_empty]. rewrite (tidy_strip _ _ Htr).
               destruct Htr as [Hne _]. apply nonempty_some in Hne. tauto. }
             rewrite Hxr, (from_string_tidy_read _ _ Htr Hcr) in F. discriminate.
          -- destruct H as (d2 & c2 & _ & _ & _ & Hn). rewrite Hn in Hrw0. discriminate.
          -- destruct H as (d2 & c2 & _ & Hn). rewrite Hn in Hrw0. discriminate.
        * rewrite (unknown_node_both w x Hw Hx), F in Hre.
          destruct (starts_with IMM_PREFIX x); rewrite <- Hre in Herr; discriminate.
      + rewrite (cfc_none_some false x Hx), F, (unknown_node_ro_only x Hx), F in Hre.
        rewrite <- Hre in Herr. discriminate.
  Qed.
End CapFacts.
