From Coq Require Import List NArith Bool Lia.
From Verif Require Import Model.ServerMap Model.MutCheck Proofs.ServerMap.
Import ListNotations.
Local Open Scope N_scope.

Lemma filter_partition_length {A} (f : A -> bool) l :
  length l = (length (filter f l) + length (filter (fun x => negb (f x)) l))%nat.
Proof. induction l as [|x r IH]; [reflexivity|]. cbn. destruct (f x); cbn; lia. Qed.

Lemma versions_split m :
  length (versions m) = (length (recoverable_versions m) + length (unrecoverable_versions m))%nat.
Proof. unfold recoverable_versions, unrecoverable_versions. apply filter_partition_length. Qed.

Section Check.
  Variable nOf : version -> N.

  (* healthy <-> exactly one version is present at all, it is recoverable, and it has
     at least N distinct shares *)
  Lemma healthy_iff_ok m :
    healthy nOf m = true <->
    exists v, versions m = [v] /\ In v (recoverable_versions m) /\ nOf v <= count_shares m v.
  Proof.
    unfold healthy. split.
    - intro H. apply andb_prop in H. destruct H as [H H4]. apply andb_prop in H. destruct H as [H H3].
      apply andb_prop in H. destruct H as [H1 H2].
      destruct (unrecoverable_versions m) as [|u us] eqn:U; [|discriminate].
      destruct (recoverable_versions m) as [|v [|w r]] eqn:R; cbn in H2, H3; try discriminate.
      pose proof (versions_split m) as L. rewrite U, R in L. cbn in L.
      assert (Hv : In v (versions m)).
      { assert (In v (recoverable_versions m)) by (rewrite R; left; reflexivity).
        unfold recoverable_versions in H. apply filter_In in H. tauto. }
      destruct (versions m) as [|x [|y t]] eqn:V; cbn in L; try lia.
      destruct Hv as [Hv|[]]. subst x.
      exists v. split; [reflexivity|]. split; [left; reflexivity|].
      unfold best_recoverable_version in H4. rewrite R in H4. cbn in H4.
      apply negb_true_iff, N.ltb_ge in H4. exact H4.
    - intros [v [V [Hr Hn]]].
      pose proof (versions_split m) as L. rewrite V in L. cbn in L.
      assert (R : recoverable_versions m = [v]).
      { unfold recoverable_versions in *. rewrite V in *. cbn in *. destruct (is_recoverable m v); [reflexivity|contradiction]. }
      rewrite R in *. cbn in L.
      destruct (unrecoverable_versions m) as [|u us] eqn:U; [|cbn in L; lia].
      cbn. unfold best_recoverable_version. rewrite R. cbn.
      apply negb_true_iff, N.ltb_ge. exact Hn.
  Qed.
End Check.

Lemma repair_refuses_newer_unrecoverable_ok m wk :
  unrecoverable_newer_versions m <> [] ->
  repair_decision m false wk = Unsuccessful \/ repair_decision m false wk = MustForce.
Proof.
  intro H. unfold repair_decision. destruct (best_recoverable_version m); [|left; reflexivity].
  destruct (unrecoverable_newer_versions m); [contradiction|]. right. reflexivity.
Qed.

Lemma repair_refuses_equal_seqnum_merge_ok m wk :
  needs_merge m = true ->
  repair_decision m false wk = Unsuccessful \/ repair_decision m false wk = MustForce.
Proof.
  intro H. unfold repair_decision. destruct (best_recoverable_version m); [|left; reflexivity].
  rewrite H. destruct (unrecoverable_newer_versions m); right; reflexivity.
Qed.

Lemma repair_republishes_best_ok m force wk v :
  repair_decision m force wk = Republish v ->
  best_recoverable_version m = Some v /\ wk = true /\
  (force = true \/ (unrecoverable_newer_versions m = [] /\ needs_merge m = false)).
Proof.
  unfold repair_decision. destruct (best_recoverable_version m) as [b|]; [|discriminate].
  destruct (unrecoverable_newer_versions m) as [|x xs]; destruct force, (needs_merge m), wk; cbn;
    intro H; try discriminate; inversion H; subst; repeat split; auto.
Qed.

(* after the repair publish (a version carrying new_seqnum on >= k distinct share
   numbers) that version is the best recoverable one *)
Lemma dedup_N_length_ge l l' : (forall x, In x l -> In x l') -> NoDup l -> (length l <= length (dedup_N l'))%nat.
Proof.
  intros Hin Hnd. apply NoDup_incl_length; [exact Hnd|].
  intros x Hx. specialize (Hin x Hx). clear -Hin.
  induction l' as [|y r IH]; [contradiction|]. cbn.
  destruct (mem_N y r) eqn:E.
  - destruct Hin as [H|H]; [subst|auto]. apply IH.
    clear -E. induction r as [|z r IH]; [discriminate|]. cbn in E. apply orb_prop in E.
    destruct E as [E|E]; [apply N.eqb_eq in E; left; auto|right; auto].
  - destruct Hin as [H|H]; [left; exact H|right; auto].
Qed.

Lemma repair_result_is_best_ok m v' placement :
  seq v' = new_seqnum m ->
  NoDup (map snd placement) ->
  1 <= vk v' ->
  vk v' <= N.of_nat (length placement) ->
  best_recoverable_version (published m v' placement) = Some v'.
Proof.
  intros Hs Hnd Hk1 Hk. set (m' := published m v' placement).
  assert (Hrec : In v' (recoverable_versions m')).
  { apply recoverable_In. split.
    - destruct placement as [|p ps]; [cbn in Hk; lia|].
      exists {| srv := fst p; shnum := snd p; ver := v' |}. split; [left; reflexivity|reflexivity].
    - unfold count_shares, shnums_of.
      assert (L : (length (map snd placement) <= length (dedup_N (map shnum (filter (fun s => version_eqb (ver s) v') m'))))%nat).
      { apply dedup_N_length_ge; [|exact Hnd].
        intros x Hx. apply in_map_iff in Hx. destruct Hx as [p [Hp Hin]].
        apply in_map_iff. exists {| srv := fst p; shnum := snd p; ver := v' |}. split; [exact Hp|].
        apply filter_In. split.
        - unfold m', published. apply in_or_app. left. apply in_map_iff. exists p. auto.
        - cbn. apply version_eqb_eq. reflexivity. }
      rewrite map_length in L. lia. }
  destruct (best_recoverable_version m') as [b|] eqn:B.
  - destruct (best_is_max_recoverable_ok m' b B) as [Hb Hmax].
    specialize (Hmax v' Hrec). apply version_leb_spec in Hmax.
    apply recoverable_In in Hb. destruct Hb as [[s [Hsin Hsv]] _].
    unfold m', published in Hsin. apply in_app_or in Hsin. destruct Hsin as [Hnew|Hold].
    + apply in_map_iff in Hnew. destruct Hnew as [p [Hp _]]. subst s. cbn in Hsv. subst b. reflexivity.
    + exfalso. pose proof (new_seqnum_gt_all_seen_ok m s Hold) as Hlt. rewrite Hsv in Hlt. lia.
  - apply best_none_iff in B. rewrite B in Hrec. contradiction.
Qed.
