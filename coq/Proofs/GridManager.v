(* Proofs about Model/GridManager.v (C33). *)
From Coq Require Import List NArith ZArith Bool Lia.
From Verif Require Import Lib.Sig Model.GridManager.
Import ListNotations.
Local Open Scope Z_scope.

Section Proofs.
  Variables pubkey msg sig : Type.
  Variable verify : pubkey -> msg -> sig -> bool.
  Variable spk : Type.
  Variable spk_eqb : spk -> spk -> bool.
  Variable decode : msg -> option (cert_json spk).

  Notation scert := (signed_cert msg sig).
  Notation vgc := (validate_grid_manager_certificate pubkey msg sig verify spk decode).
  Notation ckeys := (collect_keys pubkey msg sig verify spk decode).
  Notation coll := (collect pubkey msg sig verify spk decode).
  Notation perm := (permitted verify spk_eqb decode).
  Notation grants := (cert_grants verify spk_eqb decode).
  Notation wf := (certs_wellformed verify decode).

  (* ---- what ends up in valid_certs ---- *)
  Notation entry := (entry_of spk).

  Lemma collect_keys_in : forall keys (c : scert) l e,
    ckeys keys c = Some l ->
    (In e l <-> exists k j, In k keys /\ verify k (sc_cert c) (sc_sig c) = true /\
                            decode (sc_cert c) = Some j /\ entry j = Some e).
  Proof.
    induction keys as [|k ks IH]; intros c l e H; cbn [collect_keys] in H.
    - inversion H; subst. split; [intros []|intros [k [j [[] _]]]].
    - unfold validate_grid_manager_certificate in H.
      destruct (verify k (sc_cert c) (sc_sig c)) eqn:V.
      + destruct (decode (sc_cert c)) as [j0|] eqn:D; [|discriminate].
        destruct (ckeys ks c) as [r|] eqn:R; [|discriminate].
        inversion H; subst. clear H. specialize (IH c r e R).
        destruct (entry j0) as [e0|] eqn:E0.
        * cbn [In]. rewrite IH. split.
          -- intros [->|[k' [j [I [V' [D' E']]]]]].
             ++ exists k, j0. cbn; intuition (auto; congruence).
             ++ exists k', j. cbn; intuition (auto; congruence).
          -- intros [k' [j [[->|I] [V' [D' E']]]]].
             ++ left. congruence.
             ++ right. exists k', j. intuition (auto; congruence).
        * rewrite IH. split.
          -- intros [k' [j [I [V' [D' E']]]]]. exists k', j. cbn; intuition (auto; congruence).
          -- intros [k' [j [[->|I] [V' [D' E']]]]].
             ++ congruence.
             ++ exists k', j. intuition (auto; congruence).
      + rewrite (IH c l e H). split.
        * intros [k' [j [I [V' D']]]]. exists k', j. cbn; intuition (auto; congruence).
        * intros [k' [j [[->|I] [V' D']]]]; [congruence|]. exists k', j. intuition (auto; congruence).
  Qed.

  Lemma collect_keys_none : forall keys (c : scert),
    ckeys keys c = None <->
    (decode (sc_cert c) = None /\ exists k, In k keys /\ verify k (sc_cert c) (sc_sig c) = true).
  Proof.
    induction keys as [|k ks IH]; intros c; cbn [collect_keys].
    - split; [discriminate|intros [_ [k [[] _]]]].
    - unfold validate_grid_manager_certificate.
      destruct (verify k (sc_cert c) (sc_sig c)) eqn:V.
      + destruct (decode (sc_cert c)) as [j0|] eqn:D.
        * destruct (ckeys ks c) as [r|] eqn:R.
          -- split; [discriminate|intros [E _]; discriminate].
          -- split; [intros _|reflexivity]. apply IH in R. destruct R as [E _]. congruence.
        * split; [intros _|reflexivity]. split; [reflexivity|]. exists k. cbn; intuition (auto; congruence).
      + rewrite IH. split.
        * intros [D [k' [I V']]]. split; [exact D|]. exists k'. cbn; intuition (auto; congruence).
        * intros [D [k' [[->|I] V']]]; [congruence|]. split; [exact D|]. exists k'. intuition (auto; congruence).
  Qed.

  Lemma collect_in : forall keys certs l e,
    coll keys certs = Some l ->
    (In e l <-> exists c k j, In c certs /\ In k keys /\
                              verify k (sc_cert c) (sc_sig c) = true /\ decode (sc_cert c) = Some j /\
                              entry j = Some e).
  Proof.
    intros keys. induction certs as [|c cs IH]; intros l e H; cbn [collect] in H.
    - inversion H; subst. split; [intros []|intros [c [k [j [[] _]]]]].
    - destruct (ckeys keys c) as [a|] eqn:A; [|discriminate].
      destruct (coll keys cs) as [b|] eqn:B; [|discriminate].
      inversion H; subst. rewrite in_app_iff, (collect_keys_in keys c a e A), (IH b e eq_refl). split.
      + intros [[k [j [I [V D]]]]|[c' [k [j [I' [I [V D]]]]]]].
        * exists c, k, j. cbn; intuition (auto; congruence).
        * exists c', k, j. cbn; intuition (auto; congruence).
      + intros [c' [k [j [[->|I'] [I [V D]]]]]].
        * left. exists k, j. intuition (auto; congruence).
        * right. exists c', k, j. intuition (auto; congruence).
  Qed.

  Lemma collect_none : forall keys certs,
    coll keys certs = None <->
    exists c k, In c certs /\ In k keys /\ verify k (sc_cert c) (sc_sig c) = true /\ decode (sc_cert c) = None.
  Proof.
    intros keys. induction certs as [|c cs IH]; cbn [collect].
    - split; [discriminate|intros [c [k [[] _]]]].
    - destruct (ckeys keys c) as [a|] eqn:A.
      + destruct (coll keys cs) as [b|] eqn:B.
        * split; [discriminate|]. intros [c' [k [[->|I'] [I [V D]]]]].
          -- assert (ckeys keys c' = None) by (apply collect_keys_none; split; [exact D|exists k; auto]). congruence.
          -- assert (E : Some b = None); [|discriminate].
             apply IH. exists c', k. intuition (auto; congruence).
        * split; [intros _|reflexivity]. destruct (proj1 IH eq_refl) as [c' [k [I' [I [V D]]]]].
          exists c', k. cbn; intuition (auto; congruence).
      + split; [intros _|reflexivity]. apply collect_keys_none in A. destruct A as [D [k [I V]]].
        exists c, k. cbn; intuition (auto; congruence).
  Qed.

  Lemma entry_some_some : forall j f, entry j = Some (Some f) <-> j = JFields f.
  Proof.
    intros j f. destruct j; cbn; split; intros H; try discriminate; congruence.
  Qed.

  (* ---- the closure ---- *)
  (* Soundness of `validate`, no side condition: True is only ever returned
     for an entry that names this server and has a later, zone-aware expiry. *)
  Lemma validate_permit_sound : forall valid pk now,
    validate spk_eqb valid pk now = Permit ->
    exists f e, In (Some f) valid /\ spk_eqb (cf_pk f) pk = true /\ cf_exp f = ExpAware e /\ now < e.
  Proof.
    induction valid as [|[f|] r IH]; intros pk now H; cbn [validate] in H; try discriminate.
    destruct (spk_eqb (cf_pk f) pk) eqn:E.
    - destruct (cf_exp f) as [e|] eqn:X; [|discriminate].
      destruct (now <? e) eqn:L.
      + exists f, e. cbn. apply Z.ltb_lt in L. intuition (auto; congruence).
      + destruct (IH pk now H) as [f' [e' [I R]]]. exists f', e'. cbn; intuition (auto; congruence).
    - destruct (IH pk now H) as [f' [e' [I R]]]. exists f', e'. cbn; intuition (auto; congruence).
  Qed.

  Definition all_aware (valid : list (option (cert_fields spk))) : Prop :=
    forall j, In j valid -> exists f e, j = Some f /\ cf_exp f = ExpAware e.

  Lemma validate_wf : forall valid pk now,
    all_aware valid ->
    validate spk_eqb valid pk now <> Raise /\
    (validate spk_eqb valid pk now = Permit <->
     exists f e, In (Some f) valid /\ spk_eqb (cf_pk f) pk = true /\ cf_exp f = ExpAware e /\ now < e).
  Proof.
    induction valid as [|j r IH]; intros pk now W.
    - cbn. split; [discriminate|]. split; [discriminate|intros [f [e [[] _]]]].
    - assert (Wr : all_aware r) by (intros j' I; apply W; cbn; auto).
      destruct (W j (or_introl eq_refl)) as [f [e [-> X]]].
      destruct (IH pk now Wr) as [NR IFF].
      cbn [validate]. destruct (spk_eqb (cf_pk f) pk) eqn:E.
      + rewrite X. destruct (now <? e) eqn:L.
        * split; [discriminate|]. split; [intros _|reflexivity].
          exists f, e. cbn. apply Z.ltb_lt in L. intuition (auto; congruence).
        * split; [exact NR|]. rewrite IFF. split.
          -- intros [f' [e' [I R]]]. exists f', e'. cbn; intuition (auto; congruence).
          -- intros [f' [e' [[Q|I] [E' [X' L']]]]].
             ++ inversion Q; subst f'. rewrite X in X'. inversion X'; subst e'.
                apply Z.ltb_ge in L. lia.
             ++ exists f', e'. intuition (auto; congruence).
      + split; [exact NR|]. rewrite IFF. split.
        * intros [f' [e' [I R]]]. exists f', e'. cbn; intuition (auto; congruence).
        * intros [f' [e' [[Q|I] [E' R]]]].
          -- inversion Q; subst f'. congruence.
          -- exists f', e'. intuition (auto; congruence).
  Qed.

  (* ---- the property ---- *)
  Lemma no_keys_all_permitted_ok : forall certs pk now, perm [] certs pk now = Permit.
  Proof. reflexivity. Qed.

  Lemma no_verifier_permitted_ok : forall pk now, upload_permitted spk_eqb None pk now = Permit.
  Proof. reflexivity. Qed.

  (* soundness without any side condition on the certificates *)
  Lemma permit_only_with_valid_certificate_ok : forall keys certs pk now,
    keys <> [] -> perm keys certs pk now = Permit ->
    exists c k, In c certs /\ In k keys /\ grants k c pk now.
  Proof.
    intros keys certs pk now NE H. unfold permitted, create_grid_manager_verifier in H.
    destruct keys as [|k0 ks]; [congruence|].
    destruct (coll (k0 :: ks) certs) as [v|] eqn:C; [|discriminate].
    cbn [run_verifier] in H. apply validate_permit_sound in H.
    destruct H as [f [e [I [E [X L]]]]].
    apply (collect_in _ _ _ _ C) in I. destruct I as [c [k [j [Ic [Ik [V [D J]]]]]]].
    apply entry_some_some in J. subst j.
    exists c, k. split; [exact Ic|]. split; [exact Ik|]. split; [exact V|].
    exists f, e. intuition (auto; congruence).
  Qed.

  Lemma permitted_iff_ok : forall keys certs pk now,
    keys <> [] -> wf keys certs ->
    perm keys certs pk now <> Raise /\
    (perm keys certs pk now = Permit <->
     exists c k, In c certs /\ In k keys /\ grants k c pk now).
  Proof.
    intros keys certs pk now NE W.
    destruct (coll keys certs) as [v|] eqn:C.
    - assert (A : all_aware v).
      { intros j I. apply (collect_in _ _ _ _ C) in I. destruct I as [c [k [j0 [Ic [Ik [V [D J]]]]]]].
        destruct (W c k Ic Ik V) as [f [e [D' X]]]. exists f, e. split; [|exact X].
        rewrite D in D'. inversion D'; subst j0. cbn in J. congruence. }
      assert (P : perm keys certs pk now = validate spk_eqb v pk now).
      { unfold permitted, create_grid_manager_verifier. destruct keys; [congruence|]. rewrite C. reflexivity. }
      rewrite P. destruct (validate_wf v pk now A) as [NR IFF]. split; [exact NR|].
      rewrite IFF. split.
      + intros [f [e [I [E [X L]]]]]. apply (collect_in _ _ _ _ C) in I.
        destruct I as [c [k [j [Ic [Ik [V [D J]]]]]]]. apply entry_some_some in J. subst j.
        exists c, k. split; [exact Ic|]. split; [exact Ik|].
        split; [exact V|]. exists f, e. intuition (auto; congruence).
      + intros [c [k [Ic [Ik [V [f [e [D [E [X L]]]]]]]]]]. exists f, e. split; [|auto].
        apply (collect_in _ _ _ _ C). exists c, k, (JFields f). cbn; intuition (auto; congruence).
    - exfalso. apply collect_none in C. destruct C as [c [k [Ic [Ik [V D]]]]].
      destruct (W c k Ic Ik V) as [f [e [D' _]]]. congruence.
  Qed.

  (* A certificate whose bytes were never signed by a configured key cannot grant. *)
  Lemma tampered_never_grants_ok : forall (signed : pubkey -> msg -> Prop) keys certs pk now,
    sig_sound verify signed ->
    keys <> [] ->
    (forall c k, In c certs -> In k keys -> ~ signed k (sc_cert c)) ->
    perm keys certs pk now <> Permit.
  Proof.
    intros signed keys certs pk now S NE U H.
    destruct (permit_only_with_valid_certificate_ok keys certs pk now NE H) as [c [k [Ic [Ik [V _]]]]].
    apply (U c k Ic Ik). apply (S k _ _ V).
  Qed.

  (* individual ways of being invalid, as corollaries of soundness *)
  Lemma invalid_never_grants_ok : forall keys certs pk now,
    keys <> [] ->
    (forall c k, In c certs -> In k keys ->
       verify k (sc_cert c) (sc_sig c) = false                                   (* wrong key / tampered *)
       \/ decode (sc_cert c) = None \/ decode (sc_cert c) = Some JNull
       \/ decode (sc_cert c) = Some JUnreadable                                   (* unreadable *)
       \/ (exists f, decode (sc_cert c) = Some (JFields f) /\
             (spk_eqb (cf_pk f) pk = false                                        (* other server *)
              \/ cf_exp f = ExpNaive
              \/ exists e, cf_exp f = ExpAware e /\ e <= now))) ->                (* expired, incl. now = e *)
    perm keys certs pk now <> Permit.
  Proof.
    intros keys certs pk now NE Hbad H.
    destruct (permit_only_with_valid_certificate_ok keys certs pk now NE H)
      as [c [k [Ic [Ik [V [f [e [D [E [X L]]]]]]]]]].
    destruct (Hbad c k Ic Ik) as [B|[B|[B|[B|[f' [D' [B|[B|[e' [X' L']]]]]]]]]]; try congruence.
    all: rewrite D in D'; inversion D'; subst f'; try congruence.
    rewrite X in X'. inversion X'; subst e'. lia.
  Qed.
End Proofs.

Lemma no_keys_all_permitted_full :
  forall (pubkey msg sig : Type) (verify : pubkey -> msg -> sig -> bool)
         (spk : Type) (spk_eqb : spk -> spk -> bool)
         (decode : msg -> option (cert_json spk))
         (certs : list (signed_cert msg sig)) (public_key : spk) (now : Z),
    permitted verify spk_eqb decode [] certs public_key now = Permit
    /\ upload_permitted spk_eqb None public_key now = Permit.
Proof.
  intros. split.
  - apply no_keys_all_permitted_ok.
  - apply no_verifier_permitted_ok.
Qed.

(* ---- client side: configuration and announcement histories ---- *)
Lemma gm_config_all_or_nothing : forall (pubkey : Type) (entries : list (option pubkey)) keys,
  grid_manager_keys_from_config entries = Some keys ->
  entries = map Some keys.
Proof.
  intros pubkey. induction entries as [|[k|] r IH]; intros keys H; cbn in H.
  - inversion H. reflexivity.
  - destruct (grid_manager_keys_from_config r) as [ks|] eqn:E; [|discriminate].
    inversion H; subst. cbn. rewrite (IH ks eq_refl). reflexivity.
  - discriminate.
Qed.

Lemma gm_config_never_fails_open_full : forall (pubkey : Type) (entries : list (option pubkey)),
  (* a non-empty section never yields "no grid manager" *)
  (grid_manager_keys_from_config entries = Some [] -> entries = []) /\
  (* one unusable entry refuses the whole configuration *)
  (In None entries -> grid_manager_keys_from_config entries = None) /\
  (* otherwise every configured key is used *)
  (forall keys, grid_manager_keys_from_config entries = Some keys -> entries = map Some keys).
Proof.
  intros pubkey entries. split; [|split].
  - intros H. apply gm_config_all_or_nothing in H. exact H.
  - intros I. destruct (grid_manager_keys_from_config entries) as [ks|] eqn:E; [|reflexivity].
    apply gm_config_all_or_nothing in E. subst entries. apply in_map_iff in I. destruct I as [x [Q _]]. discriminate.
  - apply gm_config_all_or_nothing.
Qed.

Lemma latest_app_same : forall (msg sig : Type) (h : ann_history msg sig) id cs, latest (h ++ [(id, cs)]) id = Some cs.
Proof.
  intros msg sig. induction h as [|[i c] r IH]; intros id cs; cbn [app latest].
  - rewrite N.eqb_refl. reflexivity.
  - rewrite IH. reflexivity.
Qed.

Lemma latest_app_other : forall (msg sig : Type) (h : ann_history msg sig) id id' cs, id <> id' ->
  latest (h ++ [(id, cs)]) id' = latest h id'.
Proof.
  intros msg sig. induction h as [|[i c] r IH]; intros id id' cs NE; cbn [app latest].
  - destruct (N.eqb_spec id id'); [contradiction|reflexivity].
  - rewrite (IH id id' cs NE). reflexivity.
Qed.

Lemma verifier_follows_latest_announcement_full :
  forall (pubkey msg sig : Type) (verify : pubkey -> msg -> sig -> bool)
         (spk : Type) (spk_eqb : spk -> spk -> bool) (decode : msg -> option (cert_json spk))
         (keys : list pubkey) (h : ann_history msg sig) (id : N) (cs : list (signed_cert msg sig))
         (public_key : spk) (now : Z),
    broker_permitted verify spk_eqb decode keys (h ++ [(id, cs)]) id public_key now
      = Some (permitted verify spk_eqb decode keys cs public_key now) /\
    (forall id', id <> id' ->
       broker_permitted verify spk_eqb decode keys (h ++ [(id, cs)]) id' public_key now
       = broker_permitted verify spk_eqb decode keys h id' public_key now).
Proof.
  intros. unfold broker_permitted. split.
  - rewrite latest_app_same. reflexivity.
  - intros id' NE. rewrite (latest_app_other _ _ h id id' cs NE). reflexivity.
Qed.
