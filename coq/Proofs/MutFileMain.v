(* C09: the statements of Props/C09.v, assembled from the lemmas. *)
From Coq Require Import List Arith NArith Bool Lia.
From Verif Require Import Lib.Hex Model.MutFile Proofs.MutFileLists Proofs.MutFileRead Proofs.MutFileTU
  Proofs.MutFileUpdate Proofs.MutFileHist.
Import ListNotations.

Lemma region_is_tu_region data s e off seg m : region data s e off seg m = tu_region data s e off seg m.
Proof. reflexivity. Qed.

Lemma transforming_reads_ok data s e off seg m lastlen a :
  seg <> 0 -> off mod seg <= length s ->
  a * seg <= off mod seg + length data ->
  a * seg + lastlen <= length (tu_region data s e off seg m) ->
  concat (tu_reads (tu_init data off seg s e) (repeat seg a ++ [lastlen]))
  = firstn (a * seg + lastlen) (tu_region data s e off seg m).
Proof.
  intros Hs Hf Ha Hl. rewrite <- region_is_tu_region in *.
  pose proof (tu_reads_region data s e off seg m Hs Hf lastlen a 0) as H.
  cbn [Nat.add Nat.mul] in H. rewrite slice_0 in H.
  unfold tu_at in H. rewrite Nat.sub_0_l in H. apply H; assumption.
Qed.

Lemma update_is_splice_ok sdmf maxseg k f old data off :
  0 < k -> (sdmf = false -> 0 < maxseg) ->
  represents sdmf maxseg k f old -> off <= length old ->
  exists f', do_update maxseg f data off = Some f' /\
             represents sdmf maxseg k f' (splice old data off) /\
             read_all f' = Some (splice old data off).
Proof.
  intros Hk Hm R Hoff.
  destruct (do_update_represents sdmf maxseg k Hk Hm f old data off R Hoff) as (f' & H1 & R').
  exists f'. split; [exact H1|]. split; [exact R'|]. apply (read_all_represents sdmf maxseg k f' _ R' Hk Hm).
Qed.

Lemma update_preserves_rest_ok old data off : off <= length old ->
  length (splice old data off) = spec_update_len old data off /\
  (forall i, nth i (splice old data off) 0%N = spec_update_byte old data off i) /\
  (length old < length (splice old data off) <-> length old < off + length data).
Proof.
  intros H. split; [apply splice_length; exact H|]. split; [intros i; apply splice_nth; exact H|].
  rewrite splice_length by exact H. lia.
Qed.

Lemma mdmf_update_past_eof_rejected_ok maxseg k f old data off :
  0 < k -> 0 < maxseg -> represents false maxseg k f old -> length old < off ->
  do_update maxseg f data off = None.
Proof.
  intros Hk Hm (Hs & _ & Hseg & Hlen & _) Hoff. unfold do_update. rewrite Hs.
  assert (NZ : mf_segsize f <> 0).
  { rewrite Hseg. unfold seg_size_of. pose proof (next_multiple_pos maxseg k Hk Hm). lia. }
  destruct (mf_segsize f =? 0) eqn:E0; [apply Nat.eqb_eq in E0; contradiction|].
  rewrite Hlen. replace (off =? length old) with false by (symmetry; apply Nat.eqb_neq; lia). cbn [andb].
  unfold update_in_place. rewrite Hlen.
  replace (off <=? length old) with false by (symmetry; apply Nat.leb_gt; lia). reflexivity.
Qed.

Lemma segments_roundtrip_ok sdmf maxseg k data :
  0 < k -> (sdmf = false -> 0 < maxseg) ->
  exists f, publish sdmf maxseg k data = Some f /\ represents sdmf maxseg k f data /\
            length (mf_segs f) = (if mf_segsize f =? 0 then 0 else div_ceil (length data) (mf_segsize f)) /\
            concat (map (decoded_segment f) (seq 0 (retr_num f))) = data /\
            read_all f = Some data.
Proof.
  intros Hk Hm. destruct (publish_represents sdmf maxseg k data Hk Hm) as (f & H & R).
  exists f. split; [exact H|]. split; [exact R|]. split; [|split].
  - destruct R as (_ & _ & _ & _ & Hsegs). rewrite Hsegs, map_length. unfold chunks.
    destruct (mf_segsize f =? 0); [reflexivity|apply chunks_n_length].
  - apply (decoded_concat sdmf maxseg k f data R Hk Hm).
  - apply (read_all_represents sdmf maxseg k f data R Hk Hm).
Qed.

Lemma read_range_exact_ok sdmf maxseg k f data off sz :
  0 < k -> (sdmf = false -> 0 < maxseg) -> represents sdmf maxseg k f data ->
  (off + sz <= length data -> retrieve_read f off (Some sz) = Some (slice off (off + sz) data)) /\
  (off <= length data -> retrieve_read f off None = Some (skipn off data)) /\
  (0 < sz -> length data < off + sz -> retrieve_read f off (Some sz) = None) /\
  (length data < off -> retrieve_read f off None = None).
Proof.
  intros Hk Hm R.
  assert (Hl : mf_len f = length data) by (destruct R as (_ & _ & _ & Hl & _); exact Hl).
  repeat split.
  - apply (retrieve_read_represents sdmf maxseg k f data off sz R Hk Hm).
  - apply (retrieve_read_to_end sdmf maxseg k f data off R Hk Hm).
  - intros H1 H2. apply retrieve_read_rejects; [exact H1|rewrite Hl; exact H2].
  - intros H. apply retrieve_read_rejects_start. rewrite Hl. exact H.
Qed.

Lemma history_refines_bytearray_ok sdmf maxseg k init ops :
  0 < k -> (sdmf = false -> 0 < maxseg) -> history_ok init ops ->
  exists f0 f, publish sdmf maxseg k init = Some f0 /\ run_impl maxseg f0 ops = Some f /\
               represents sdmf maxseg k f (run_spec init ops) /\
               read_all f = Some (run_spec init ops) /\
               (forall off sz, off + sz <= length (run_spec init ops) ->
                  retrieve_read f off (Some sz) = Some (slice off (off + sz) (run_spec init ops))).
Proof.
  intros Hk Hm Hh. destruct (publish_represents sdmf maxseg k init Hk Hm) as (f0 & H0 & R0).
  destruct (run_impl_represents sdmf maxseg k Hk Hm ops f0 init R0 Hh) as (f & H1 & R1).
  exists f0, f. split; [exact H0|]. split; [exact H1|]. split; [exact R1|]. split.
  - apply (read_all_represents sdmf maxseg k f _ R1 Hk Hm).
  - intros off sz H. apply (retrieve_read_represents sdmf maxseg k f _ off sz R1 Hk Hm H).
Qed.

Lemma history_every_prefix_ok sdmf maxseg k init ops1 ops2 :
  0 < k -> (sdmf = false -> 0 < maxseg) -> history_ok init (ops1 ++ ops2) ->
  exists f0 f, publish sdmf maxseg k init = Some f0 /\ run_impl maxseg f0 ops1 = Some f /\
               read_all f = Some (run_spec init ops1).
Proof.
  intros Hk Hm Hh. apply history_ok_app in Hh.
  destruct (history_refines_bytearray_ok sdmf maxseg k init ops1 Hk Hm Hh) as (f0 & f & A & B & _ & C & _).
  exists f0, f. repeat split; assumption.
Qed.
