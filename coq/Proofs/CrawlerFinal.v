(* The statements of C27 for the prefix table regenerated from
   ShareCrawler.__init__ (Gen/CrawlConsts.v), a decision procedure for the
   layout hypothesis (used for the non-vacuity examples), and the witnesses. *)
From Coq Require Import List NArith Bool Arith Lia Sorting.Sorted String.
From Verif Require Import Gen.CrawlConsts Model.Crawler Proofs.CrawlerOrder Proofs.Crawler.
Import ListNotations.

Lemma prefixes_sorted_ok : StronglySorted nlt prefixes.
Proof. apply sortedb_sound. vm_compute. reflexivity. Qed.

Lemma prefixes_len_ok : forall p q, In p prefixes -> In q prefixes -> List.length p = List.length q.
Proof. apply (lengths_sound 2). vm_compute. reflexivity. Qed.

Lemma prefixes_count_ok : List.length prefixes = 2 ^ prefix_bits.
Proof. vm_compute. reflexivity. Qed.

Lemma prefixes_two_ok : 2 <= List.length prefixes.
Proof. vm_compute. repeat constructor. Qed.

Lemma covers_all_epochs_ok : forall eps dirs specs tr1 m1 tr2 m2 pre c post,
  (forall e, In e eps -> wf_dirs prefixes (fst e)) -> wf_dirs prefixes dirs ->
  epochs_end_idle (load init_pstate) eps ->
  run_epochs (load init_pstate) eps = (tr1, m1) ->
  run dirs m1 specs = (tr2, m2) ->
  tr2 = pre ++ EFinished c :: post ->
  forall i b, In b (nth i dirs []) -> In (EProc c i b) pre.
Proof. exact (covers_all_epochs_gen prefixes prefixes_sorted_ok prefixes_len_ok prefixes_two_ok). Qed.

Lemma covers_all_ok : forall dirs specs tr m pre c post,
  wf_dirs prefixes dirs ->
  run dirs (load init_pstate) specs = (tr, m) ->
  tr = pre ++ EFinished c :: post ->
  forall i b, In b (nth i dirs []) -> In (EProc c i b) pre.
Proof. exact (covers_all_gen prefixes prefixes_sorted_ok prefixes_len_ok prefixes_two_ok). Qed.

Lemma exactly_once_ok : forall dirs specs tr m,
  wf_dirs prefixes dirs ->
  (forall s, In s specs -> sl_kill s = None) ->
  run dirs (load init_pstate) specs = (tr, m) ->
  (forall c i b, count_occ event_eq_dec tr (EProc c i b) <= 1) /\
  (forall c i b, In (EProc c i b) tr -> In b (nth i dirs [])) /\
  (forall c, In (EFinished c) tr -> forall i b, In b (nth i dirs []) ->
     count_occ event_eq_dec tr (EProc c i b) = 1) /\
  finished_cycles tr = map N.of_nat (seq 0 (N.to_nat (completed_cycles (ms_p m)))).
Proof. exact (exactly_once_gen prefixes prefixes_sorted_ok prefixes_len_ok prefixes_two_ok). Qed.

Lemma cycle_numbers_ok_ok : forall dirs specs tr m,
  wf_dirs prefixes dirs ->
  run dirs (load init_pstate) specs = (tr, m) ->
  cycle_numbers_ok (finished_cycles tr) /\
  steps_by_0_or_1 0 (map completed_cycles (saved_states tr)) /\
  last_or (map completed_cycles (saved_states tr)) 0 = completed_cycles (ms_p m).
Proof. exact (cycle_numbers_gen prefixes prefixes_sorted_ok prefixes_len_ok prefixes_two_ok). Qed.

Lemma cycle_numbers_without_kill_ok : forall dirs specs tr m,
  wf_dirs prefixes dirs ->
  (forall s, In s specs -> sl_kill s = None) ->
  run dirs (load init_pstate) specs = (tr, m) ->
  finished_cycles tr = map N.of_nat (seq 0 (N.to_nat (completed_cycles (ms_p m)))).
Proof. intros dirs specs tr m W NK R. exact (proj2 (proj2 (proj2 (exactly_once_ok dirs specs tr m W NK R)))). Qed.

(* ---------- deciding the layout hypothesis on concrete directories ---------- *)

Lemma name_eqb_eq a b : name_eqb a b = true <-> a = b.
Proof.
  revert b; induction a as [|x a IH]; intros [|y b]; cbn; try (split; [discriminate|discriminate]); [tauto|].
  rewrite andb_true_iff, N.eqb_eq, IH. split; [intros [-> ->]; reflexivity|intros E; inversion E; auto].
Qed.

Fixpoint nodupb (l : list name) : bool :=
  match l with
  | [] => true
  | x :: r => negb (existsb (name_eqb x) r) && nodupb r
  end.

Lemma nodupb_sound l : nodupb l = true -> NoDup l.
Proof.
  induction l as [|x r IH]; cbn; [constructor|]. intros H. apply andb_true_iff in H as [H1 H2].
  constructor; [|apply IH; exact H2]. intros I. apply negb_true_iff in H1.
  assert (existsb (name_eqb x) r = true); [|congruence].
  apply existsb_exists. exists x. split; [exact I|]. apply name_eqb_eq. reflexivity.
Qed.

Fixpoint wf_rows (ps : list name) (ds : list (list name)) : bool :=
  match ps, ds with
  | [], [] => true
  | p :: ps', d :: ds' => nodupb d && forallb (is_prefix p) d && wf_rows ps' ds'
  | _, _ => false
  end.

Lemma wf_rows_sound ps ds : wf_rows ps ds = true -> wf_dirs ps ds.
Proof.
  revert ds; induction ps as [|p ps IH]; intros [|d ds] H; cbn in H; try discriminate.
  - split; [reflexivity|]. split; intros [|i]; cbn; try constructor; intros b [].
  - apply andb_true_iff in H as [H H3]. apply andb_true_iff in H as [H1 H2].
    destruct (IH ds H3) as (L & ND & PF).
    split; [cbn; f_equal; exact L|]. split.
    + intros [|i]; cbn; [apply nodupb_sound; exact H1|apply ND].
    + intros [|i] b I; cbn in *; [|apply PF; exact I].
      rewrite forallb_forall in H2. apply H2. exact I.
Qed.

Definition wf_dirsb (dirs : list (list name)) : bool := wf_rows prefixes dirs.

Lemma wf_dirsb_sound dirs : wf_dirsb dirs = true -> wf_dirs prefixes dirs.
Proof. apply wf_rows_sound. Qed.

(* ---------- witnesses ---------- *)

Definition nm (s : string) : name := map (fun a => N.of_nat (Ascii.nat_of_ascii a)) (list_ascii_of_string s).

(* three prefix directories in use: "22" (index 0), "23" (1), "zz" (1023) *)
Definition ex_dirs : list (list name) :=
  mk_dirs 1024 [(0, [nm "22bbbb"; nm "22aaaa"]); (1, [nm "23cccc"]); (1023, [nm "zzdddd"])].

Lemma ex_dirs_wf : wf_dirs prefixes ex_dirs.
Proof. apply wf_dirsb_sound. vm_compute. reflexivity. Qed.

(* slice 1: time is up after the first bucket; slice 2 is killed after two
   events (process_bucket "22bbbb", finished_prefix "22"); slice 3 runs
   undisturbed.  Cycle 0 finishes once, having processed "22bbbb" twice (the
   kill) and everything else once. *)
Definition ex_specs : list slice_spec :=
  [mk_slice [true] None; mk_slice [] (Some 2); mk_slice [] None].

Lemma ex_run_trace :
  map (fun e => match e with EProc c i b => Some (c, i, b) | _ => None end)
      (filter is_proc (fst (run ex_dirs (load init_pstate) ex_specs)))
  = [Some (0%N, 0, nm "22aaaa"); Some (0%N, 0, nm "22bbbb");
     Some (0%N, 0, nm "22bbbb"); Some (0%N, 1, nm "23cccc"); Some (0%N, 1023, nm "zzdddd")]
  /\ finished_cycles (fst (run ex_dirs (load init_pstate) ex_specs)) = [0%N].
Proof. vm_compute. split; reflexivity. Qed.

(* The layout hypothesis is needed: a bucket directory that sits in the wrong
   prefix directory ("22aaaa" inside "23") is skipped by an uninterrupted,
   never-killed crawl, because last-complete-bucket is not reset between
   prefix directories. *)
Definition bad_dirs : list (list name) :=
  mk_dirs 1024 [(0, [nm "22zzzz"]); (1, [nm "22aaaa"])].

Lemma bad_dirs_not_wf : wf_dirsb bad_dirs = false.
Proof. vm_compute. reflexivity. Qed.

Definition bad_run := run bad_dirs (load init_pstate) [mk_slice [] None].
Lemma bad_run_shape : fst bad_run = firstn 1026 (fst bad_run) ++ EFinished 0 :: skipn 1027 (fst bad_run).
Proof. vm_compute. reflexivity. Qed.
Lemma bad_run_skips : ~ In (EProc 0 1 (nm "22aaaa")) (firstn 1026 (fst bad_run)).
Proof.
  assert (D : (if in_dec event_eq_dec (EProc 0 1 (nm "22aaaa")) (firstn 1026 (fst bad_run)) then false else true) = true)
    by (vm_compute; reflexivity).
  destruct (in_dec event_eq_dec (EProc 0 1 (nm "22aaaa")) (firstn 1026 (fst bad_run))); [exfalso; exact (Bool.diff_false_true D)|assumption].
Qed.
Lemma bad_dirs_has : In (nm "22aaaa") (nth 1 bad_dirs []).
Proof. vm_compute. left. reflexivity. Qed.
Lemma misplaced_bucket_is_skipped :
  exists dirs specs tr m pre c post i b,
    run dirs (load init_pstate) specs = (tr, m) /\
    (forall s, In s specs -> sl_kill s = None) /\
    tr = pre ++ EFinished c :: post /\
    In b (nth i dirs []) /\
    ~ In (EProc c i b) pre.
Proof.
  exists bad_dirs, [mk_slice [] None], (fst bad_run), (snd bad_run), (firstn 1026 (fst bad_run)), 0%N, (skipn 1027 (fst bad_run)), 1, (nm "22aaaa").
  split; [exact (surjective_pairing bad_run)|].
  split; [intros s [<-|[]]; reflexivity|].
  split; [exact bad_run_shape|].
  split; [exact bad_dirs_has|exact bad_run_skips].
Qed.
