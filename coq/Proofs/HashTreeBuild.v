(* HashTree.__init__ (Model/HashTree.v: hash_tree) builds the Merkle tree over the
   padded leaves: node p = pair_hash(node 2p+1, node 2p+2), the bottom row is the
   caller's leaves followed by empty_leaf_hash(i). *)
From Coq Require Import List ZArith Bool Lia Arith.
From Verif Require Import Model.HashTree.
Import ListNotations.

Section Build.
  Variable H : Type.
  Variable pair_hash : H -> H -> H.
  Variable empty_leaf_hash : Z -> H.
  Notation pair_up := (pair_up H pair_hash).
  Notation rows_loop := (rows_loop H pair_hash).

  Lemma pair_up_spec : forall m l d, length l = 2 * m ->
    length (pair_up l) = m /\
    forall j, j < m -> nth j (pair_up l) d = pair_hash (nth (2 * j) l d) (nth (2 * j + 1) l d).
  Proof.
    induction m as [|m IH]; intros l d Hl.
    - destruct l; [|cbn in Hl; lia]. split; [reflexivity|intros j Hj; lia].
    - destruct l as [|a [|b r]]; cbn [length] in Hl; try lia.
      destruct (IH r d ltac:(lia)) as [I1 I2]. cbn [HashTree.pair_up length]. split; [lia|].
      intros [|j] Hj.
      + reflexivity.
      + replace (2 * S j) with (S (S (2 * j))) by lia. replace (S (S (2 * j)) + 1) with (S (S (2 * j + 1))) by lia.
        cbn [nth]. apply I2. lia.
  Qed.

  Definition tree_of (fuel : nat) (last : list H) : list H := concat (rev (rows_loop fuel last)).

  Lemma tree_of_S : forall f last,
    tree_of (S f) last = if Nat.eqb (length last) 1 then last else tree_of f (pair_up last) ++ last.
  Proof.
    intros f last. unfold tree_of. cbn [HashTree.rows_loop].
    destruct (Nat.eqb (length last) 1).
    - cbn [rev app concat]. apply app_nil_r.
    - cbn [rev]. rewrite concat_app. cbn [concat]. rewrite app_nil_r. reflexivity.
  Qed.

  Lemma pow2_pos : forall k, 1 <= 2 ^ k.
  Proof. intros k. pose proof (Nat.pow_nonzero 2 k ltac:(lia)). lia. Qed.

  Lemma tree_of_spec : forall k last fuel d,
    length last = 2 ^ k -> k < fuel ->
    let t := tree_of fuel last in
    length t = 2 * 2 ^ k - 1 /\
    (forall i, i < 2 ^ k -> nth (2 ^ k - 1 + i) t d = nth i last d) /\
    (forall p, 2 * p + 2 < length t -> nth p t d = pair_hash (nth (2 * p + 1) t d) (nth (2 * p + 2) t d)).
  Proof.
    induction k as [|k IH]; intros last fuel d Hl Hf; (destruct fuel as [|f]; [lia|]); cbv zeta; rewrite tree_of_S, Hl.
    - cbn [Nat.pow Nat.eqb]. cbn [Nat.pow] in Hl. split; [lia|]. split; [intros i Hi; f_equal; lia|intros p Hp; lia].
    - pose proof (pow2_pos k) as Hp1. rewrite Nat.pow_succ_r' in *.
      assert (Nat.eqb (2 * 2 ^ k) 1 = false) as -> by (apply Nat.eqb_neq; lia).
      destruct (pair_up_spec (2 ^ k) last d Hl) as [P1 P2].
      destruct (IH (pair_up last) f d P1 ltac:(lia)) as [I1 [I2 I3]]. cbv zeta in I1, I2, I3.
      set (t' := tree_of f (pair_up last)) in *.
      split; [rewrite app_length; lia|]. split.
      + intros i Hi. rewrite app_nth2 by lia. f_equal. lia.
      + intros p Hp. rewrite app_length in Hp.
        destruct (Nat.lt_ge_cases (2 * p + 2) (length t')) as [Hlt|Hge].
        * rewrite !app_nth1 by lia. apply I3. exact Hlt.
        * assert (Hpj : exists j, p = 2 ^ k - 1 + j /\ j < 2 ^ k) by (exists (p - (2 ^ k - 1)); lia).
          destruct Hpj as [j [-> Hj]].
          rewrite app_nth1 by lia. rewrite I2 by exact Hj. rewrite P2 by exact Hj.
          rewrite !app_nth2 by lia. f_equal; f_equal; lia.
  Qed.

  (* ---- padding ---------------------------------------------------------------- *)
  Local Open Scope Z_scope.

  Lemma roundup_loop_spec : forall fuel ans x j,
    ans = 2 ^ Z.of_nat j -> x <= ans + Z.of_nat fuel ->
    exists k, roundup_loop fuel ans x = 2 ^ Z.of_nat k /\ x <= roundup_loop fuel ans x /\
              (forall k', 2 ^ Z.of_nat k' < roundup_loop fuel ans x -> (k' < j)%nat \/ 2 ^ Z.of_nat k' < x).
  Proof.
    induction fuel as [|f IH]; intros ans x j Ha Hx; cbn [roundup_loop].
    - exists j. split; [exact Ha|]. split; [lia|]. intros k' Hk. left.
      rewrite Ha in Hk. apply Z.pow_lt_mono_r_iff in Hk; lia.
    - destruct (ans <? x) eqn:E.
      + apply Z.ltb_lt in E.
        assert (Hpos : 0 < ans) by (rewrite Ha; apply Z.pow_pos_nonneg; lia).
        destruct (IH (2 * ans) x (S j)) as [k [K1 [K2 K3]]].
        * rewrite Nat2Z.inj_succ, Z.pow_succ_r by lia. rewrite Ha. reflexivity.
        * lia.
        * exists k. split; [exact K1|]. split; [exact K2|]. intros k' Hk. destruct (K3 k' Hk) as [Hl|Hl]; [|right; exact Hl].
          destruct (Nat.eq_dec k' j) as [->|Hne]; [right; rewrite <- Ha; exact E|left; lia].
      + apply Z.ltb_ge in E. exists j. split; [exact Ha|]. split; [exact E|]. intros k' Hk. left.
        rewrite Ha in Hk. apply Z.pow_lt_mono_r_iff in Hk; lia.
  Qed.

  Lemma roundup_pow2_spec : forall x, exists k : nat, roundup_pow2 x = 2 ^ Z.of_nat k /\ x <= roundup_pow2 x.
  Proof.
    intros x. unfold roundup_pow2. destruct (roundup_loop_spec (Z.to_nat x) 1 x 0) as [k [K1 [K2 _]]]; [reflexivity|lia|].
    exists k. split; assumption.
  Qed.

  Lemma pad_from_spec : forall cnt i d,
    length (pad_from H empty_leaf_hash cnt i) = cnt /\
    forall j, (j < cnt)%nat -> nth j (pad_from H empty_leaf_hash cnt i) d = empty_leaf_hash (i + Z.of_nat j).
  Proof.
    induction cnt as [|c IH]; intros i d; cbn [pad_from length].
    - split; [reflexivity|intros j Hj; lia].
    - destruct (IH (i + 1) d) as [I1 I2]. split; [lia|].
      intros [|j] Hj; cbn [nth]; [f_equal; lia|]. rewrite I2 by lia. f_equal. lia.
  Qed.

  Theorem hash_tree_merkle : forall (L : list H) d,
    let t := hash_tree H pair_hash empty_leaf_hash L in
    let P := roundup_pow2 (zlen L) in
    zlen t = 2 * P - 1 /\
    (forall i, 0 <= i < zlen L -> nth (Z.to_nat (P - 1 + i)) t d = nth (Z.to_nat i) L d) /\
    (forall i, zlen L <= i < P -> nth (Z.to_nat (P - 1 + i)) t d = empty_leaf_hash i) /\
    (forall p, 0 <= p -> 2 * p + 2 < zlen t ->
       nth (Z.to_nat p) t d = pair_hash (nth (Z.to_nat (2 * p + 1)) t d) (nth (Z.to_nat (2 * p + 2)) t d)).
  Proof.
    intros L d. cbv zeta. unfold hash_tree. fold (tree_of (length (padded H empty_leaf_hash L)) (padded H empty_leaf_hash L)).
    destruct (roundup_pow2_spec (zlen L)) as [k [Hk Hge]].
    remember (roundup_pow2 (zlen L)) as P eqn:HeqP in *.
    set (bottom := padded H empty_leaf_hash L).
    destruct (pad_from_spec (Z.to_nat (P - zlen L)) (zlen L) d) as [Pd1 Pd2].
    assert (Hbl : length bottom = (2 ^ k)%nat).
    { unfold bottom, padded. rewrite <- HeqP. rewrite app_length, Pd1.
      apply Nat2Z.inj. rewrite Nat2Z.inj_add. assert (Hq : 0 <= P - zlen L) by (clear - Hge; lia). rewrite Z2Nat.id by exact Hq. rewrite Nat2Z.inj_pow.
      change (Z.of_nat 2) with 2. change (Z.of_nat (length L)) with (zlen L). lia. }
    assert (HP : P = Z.of_nat (2 ^ k)) by (rewrite Nat2Z.inj_pow; exact Hk).
    assert (Hfuel : (k < length bottom)%nat) by (rewrite Hbl; apply Nat.pow_gt_lin_r; lia).
    destruct (tree_of_spec k bottom (length bottom) d Hbl Hfuel) as [S1 [S2 S3]]. cbv zeta in S1, S2, S3.
    set (t := tree_of (length bottom) bottom) in *.
    pose proof (pow2_pos k) as Hp1.
    assert (Hbot : forall i, 0 <= i < P -> nth (Z.to_nat (P - 1 + i)) t d = nth (Z.to_nat i) bottom d).
    { intros i Hi. rewrite <- S2 by lia. f_equal. lia. }
    assert (HL0 : 0 <= zlen L) by (unfold zlen; lia).
    split; [unfold zlen; rewrite S1; lia|]. split; [|split].
    - intros i Hi. rewrite Hbot by lia. unfold bottom, padded. apply app_nth1. unfold zlen in Hi. lia.
    - intros i Hi. rewrite Hbot by lia. unfold bottom, padded. rewrite <- HeqP. rewrite app_nth2 by (unfold zlen in Hi; lia).
      rewrite Pd2 by (unfold zlen in *; lia). f_equal. unfold zlen in *. lia.
    - intros p Hp Hlt. unfold zlen in Hlt. rewrite S3 by lia. f_equal; f_equal; lia.
  Qed.
End Build.
