(* Hash-tree steps of the immutable download/verify pipelines, on top of the C35 theorems
   (Proofs/HashTree*.v: accepted_genuine, accepted_values_genuine, rejected_restores,
   accepted_char, hash_tree_merkle):
     - a tree that holds only genuine nodes and its root stays so through any set_hashes
       call, accepted or rejected, and every accepted value is the genuine one;
     - set_hashes({0: h}) on a new IncompleteHashTree stores exactly the root;
     - a tree filled without a root (the verifier's get_all_blockhashes) is genuine as soon
       as its root is found equal to the genuine root. *)
From Coq Require Import List ZArith NArith Bool Lia.
From Verif Require Import Model.HashTree Proofs.HashTreeBase Proofs.HashTree Proofs.HashTreeStored
  Proofs.HashTreeLeaf Proofs.HashTreeBuild.
Import ListNotations.
Local Open Scope Z_scope.

Section TreeSteps.
  Variable H : Type.
  Variable H_eqb : H -> H -> bool.
  Variable pair_hash : H -> H -> H.
  Variable truthy : H -> bool.
  Hypothesis H_eqb_spec : forall a b, H_eqb a b = true <-> a = b.
  Hypothesis all_truthy_H : forall h, truthy h = true.
  Hypothesis pair_inj : forall a b c d, pair_hash a b = pair_hash c d -> a = c /\ b = d.

  Notation set_hashes := (set_hashes H H_eqb pair_hash truthy).

  Definition merkle (G : Z -> H) (n : Z) : Prop :=
    forall p, 0 <= p -> 2 * p + 2 < n -> G p = pair_hash (G (2 * p + 1)) (G (2 * p + 2)).

  Record TreeOK (G : Z -> H) (n : Z) (T : tree H) : Prop := {
    tk_len : zlen T = n;
    tk_gen : genuine H G T;
    tk_root : slot T 0 <> None }.

  Lemma pair_truthy : forall a b, truthy (pair_hash a b) = true.
  Proof. intros. apply all_truthy_H. Qed.

  Lemma step_accepted : forall G n fl T0 hs ls ord T1,
    merkle G n -> TreeOK G n T0 -> set_hashes fl T0 hs ls ord = Accepted H T1 ->
    TreeOK G n T1 /\
    (forall leafnum h, In (leafnum, h) ls -> 0 <= fl + leafnum < n -> h = G (fl + leafnum)) /\
    (forall k h, In (k, h) hs -> 0 <= k < n -> h = G k).
  Proof.
    intros G n fl T0 hs ls ord T1 Hm [Hl Hg Hr] Hacc.
    assert (Hgt : forall j, 0 <= j < n -> truthy (G j) = true) by (intros; apply all_truthy_H).
    pose proof (accepted_genuine H H_eqb pair_hash truthy H_eqb_spec pair_truthy G n pair_inj Hm Hgt
                  fl T0 hs ls ord T1 Hl Hg Hr Hacc) as Hg1.
    destruct (accepted_char H H_eqb pair_hash truthy H_eqb_spec pair_truthy fl T0 hs ls ord T1 Hacc) as [C1 [C2 _]].
    destruct (accepted_values_genuine H H_eqb pair_hash truthy H_eqb_spec pair_truthy G n pair_inj Hm Hgt
                  fl T0 hs ls ord T1 Hl Hg Hr Hacc) as [V1 V2].
    split; [|split].
    - constructor.
      + unfold zlen in *. rewrite C1. exact Hl.
      + exact Hg1.
      + rewrite (C2 0 ltac:(lia)); [exact Hr|].
        apply (genuine_all_truthy H truthy G n Hgt T0 Hl Hg 0 ltac:(lia) Hr).
    - intros leafnum h Hin Hrg. apply (V1 leafnum h Hin Hrg). apply all_truthy_H.
    - intros k h Hin Hrg. apply (V2 k h Hin Hrg). apply all_truthy_H.
  Qed.

  Lemma step_rejected : forall G n fl T0 hs ls ord e T1,
    TreeOK G n T0 -> set_hashes fl T0 hs ls ord = Rejected H e T1 -> T1 = T0.
  Proof.
    intros G n fl T0 hs ls ord e T1 [Hl Hg Hr] Hrej.
    assert (Hgt : forall j, 0 <= j < n -> truthy (G j) = true) by (intros; apply all_truthy_H).
    pose proof (genuine_all_truthy H truthy G n Hgt T0 Hl Hg) as Hat.
    destruct (rejected_restores H H_eqb pair_hash truthy H_eqb_spec pair_truthy fl T0 hs ls ord e T1 Hat Hrej) as [E _].
    exact E.
  Qed.

  (* either way the tree stays good *)
  Lemma step_keeps : forall G n fl T0 hs ls ord,
    merkle G n -> TreeOK G n T0 ->
    match set_hashes fl T0 hs ls ord with
    | Accepted _ T1 => TreeOK G n T1
    | Rejected _ _ T1 => TreeOK G n T1
    end.
  Proof.
    intros G n fl T0 hs ls ord Hm Hok.
    destruct (set_hashes fl T0 hs ls ord) as [T1|e T1] eqn:E.
    - apply (step_accepted G n fl T0 hs ls ord T1 Hm Hok E).
    - rewrite (step_rejected G n fl T0 hs ls ord e T1 Hok E). exact Hok.
  Qed.

  (* ---- set_hashes({0: h}) on a new tree ---------------------------------------------------- *)
  Lemma upd_same_nil : forall (l : list (list Z)) k, nth k l [] = [] -> upd l k [] = l.
  Proof.
    induction l as [|a l IH]; intros [|k] Hn; cbn [upd]; try reflexivity.
    - cbn in Hn. subst a. reflexivity.
    - f_equal. apply IH. exact Hn.
  Qed.

  Lemma nth_repeat_nilZ : forall (n k : nat), nth k (repeat (@nil Z) n) [] = [].
  Proof. induction n; destruct k; cbn; auto. Qed.

  Lemma run_levels_idle : forall k T lv ruf ord,
    (forall L, (1 <= L < k)%nat -> nth L lv [] = []) ->
    (1 <= k)%nat -> nth 0 lv [] = [0] ->
    run_levels H H_eqb pair_hash truthy k (mkW H T lv ruf) ord = inl (mkW H T (upd lv 0 []) ruf).
  Proof.
    induction k as [|L IH]; intros T lv ruf ord Hnil Hk H0; [lia|].
    cbn [run_levels wlv wT wruf].
    destruct L as [|L'].
    - rewrite H0. cbn [length run_level].
      assert (Hp : exists ord', zpop ord [0] = Some (0, [], ord')).
      { destruct ord as [|c ord']; cbn [zpop]; [eauto|].
        cbn [zmem]. destruct (c =? 0) eqn:Ec.
        - apply Z.eqb_eq in Ec. subst c. cbn. eauto.
        - eauto. }
      destruct Hp as [ord' ->]. cbn [stepC Z.eqb run_level run_levels]. reflexivity.
    - rewrite (Hnil (S L') ltac:(lia)). cbn [length run_level].
      rewrite upd_same_nil by (apply Hnil; lia).
      apply IH; [intros L0 HL0; apply Hnil; lia|lia|exact H0].
  Qed.

  Lemma depth_of_0 : depth_of 0 = 0.
  Proof. reflexivity. Qed.

  Lemma depth_of_nonneg : forall i, 0 <= i -> 0 <= depth_of i.
  Proof.
    intros i Hi. unfold depth_of. destruct (i + 1 <=? 0) eqn:E; [apply Z.leb_le in E; lia|apply Z.log2_nonneg].
  Qed.

  Lemma seed_fresh : forall fl m h ord,
    set_hashes fl (repeat None (S m)) [(0, h)] [] ord = Accepted H (Some h :: repeat None m).
  Proof.
    intros fl m h ord. unfold HashTree.set_hashes. cbn [merge_leaves]. cbv zeta.
    set (T0 := repeat (@None H) (S m)).
    assert (Hz : zlen T0 = Z.of_nat (S m)) by (unfold zlen, T0; rewrite repeat_length; reflexivity).
    pose proof (depth_of_nonneg (zlen T0 - 1) ltac:(lia)) as Hd.
    destruct (Z.to_nat (depth_of (zlen T0 - 1) + 1)) as [|nl] eqn:Enl; [lia|].
    cbn [phaseB stepB wT wlv wruf].
    assert (Hg : get T0 0 = Some None).
    { unfold get, pyidx. rewrite Hz.
      assert ((0 <=? 0) && (0 <? Z.of_nat (S m)) = true) as -> by (apply andb_true_iff; split; [reflexivity|apply Z.ltb_lt; lia]).
      reflexivity. }
    unfold stepB. cbn [wT wlv wruf]. rewrite Hg. cbn [is_truthy]. rewrite depth_of_0.
    assert (Hgl : get (repeat (@nil Z) (S nl)) 0 = Some []).
    { unfold get, pyidx, zlen. rewrite repeat_length.
      assert ((0 <=? 0) && (0 <? Z.of_nat (S nl)) = true) as -> by (apply andb_true_iff; split; [reflexivity|apply Z.ltb_lt; lia]).
      reflexivity. }
    rewrite Hgl.
    assert (Hp : put T0 0 (Some h) = Some (Some h :: repeat None m)).
    { unfold put, pyidx. rewrite Hz.
      assert ((0 <=? 0) && (0 <? Z.of_nat (S m)) = true) as -> by (apply andb_true_iff; split; [reflexivity|apply Z.ltb_lt; lia]).
      reflexivity. }
    rewrite Hp.
    assert (Hpl : put (repeat (@nil Z) (S nl)) 0 (zadd 0 []) = Some ([0] :: repeat [] nl)).
    { unfold put, pyidx, zlen. rewrite repeat_length.
      assert ((0 <=? 0) && (0 <? Z.of_nat (S nl)) = true) as -> by (apply andb_true_iff; split; [reflexivity|apply Z.ltb_lt; lia]).
      reflexivity. }
    rewrite Hpl. cbn [wlv length].
    rewrite repeat_length.
    rewrite run_levels_idle.
    - reflexivity.
    - intros [|L] HL; [lia|]. cbn [nth]. apply nth_repeat_nilZ.
    - lia.
    - reflexivity.
  Qed.

  Lemma slot_cons_S : forall (x : option H) T j, 1 <= j -> slot (x :: T) j = slot T (j - 1).
  Proof.
    intros x T j Hj. unfold slot. replace (Z.to_nat j) with (S (Z.to_nat (j - 1))) by lia. reflexivity.
  Qed.

  Lemma slot_repeat_none : forall m j, slot (repeat (@None H) m) j = None.
  Proof.
    intros m j. unfold slot. generalize (Z.to_nat j). induction m; destruct n; cbn; auto.
  Qed.

  Lemma seeded_ok : forall G m h, h = G 0 -> TreeOK G (Z.of_nat (S m)) (Some h :: repeat None m).
  Proof.
    intros G m h Hh. constructor.
    - unfold zlen. cbn [length]. rewrite repeat_length. reflexivity.
    - intros j v Hj Hs. destruct (Z.eq_dec j 0) as [->|Hn].
      + cbn in Hs. inversion Hs. subst. reflexivity.
      + rewrite slot_cons_S in Hs by lia. rewrite slot_repeat_none in Hs. discriminate.
    - cbn. discriminate.
  Qed.

  (* ---- a tree filled bottom-up without a root, then anchored ---------------------------------- *)
  Definition consistent (T : tree H) : Prop :=
    forall j, 1 <= j < zlen T -> slot T j <> None -> settled H pair_hash 0 T j.

  (* every node a set_hashes call adds to an empty tree hangs under its parent *)
  Lemma accepted_on_empty_consistent : forall fl m hs ls ord T1,
    set_hashes fl (repeat None m) hs ls ord = Accepted H T1 -> consistent T1 /\ zlen T1 = Z.of_nat m.
  Proof.
    intros fl m hs ls ord T1 Hacc.
    destruct (accepted_char H H_eqb pair_hash truthy H_eqb_spec pair_truthy fl _ hs ls ord T1 Hacc) as [C1 [_ C3]].
    assert (Hz : zlen T1 = Z.of_nat m) by (unfold zlen; rewrite C1, repeat_length; reflexivity).
    split; [|exact Hz].
    intros j Hj Hp. apply C3.
    - unfold zlen. rewrite repeat_length. lia.
    - exact Hp.
    - rewrite slot_repeat_none. exact Hp.
  Qed.

  Lemma anchored_genuine : forall G n T,
    merkle G n -> zlen T = n -> consistent T -> slot T 0 = Some (G 0) -> genuine H G T.
  Proof.
    intros G n T Hm Hl Hc H0.
    assert (Hall : forall b, 0 <= b -> forall j h, 0 <= j <= b -> slot T j = Some h -> h = G j).
    { intros b Hb. pattern b. apply natlike_ind; [| |exact Hb].
      - intros j h Hj Hs. assert (j = 0) by lia. subst j. rewrite H0 in Hs. inversion Hs. reflexivity.
      - intros x Hx IH j h Hj Hs.
        destruct (Z.eq_dec j 0) as [->|Hn]; [rewrite H0 in Hs; inversion Hs; reflexivity|].
        assert (Hjl : j < zlen T).
        { destruct (Z_lt_ge_dec j (zlen T)) as [Hlt|Hge]; [exact Hlt|].
          unfold slot in Hs. rewrite nth_overflow in Hs; [discriminate|unfold zlen in Hge; lia]. }
        destruct (Hc j ltac:(lia) ltac:(rewrite Hs; discriminate)) as [Hz|[Hj1 [_ [a [b' [Sp [Sl Sr]]]]]]]; [lia|].
        pose proof (parz_range j Hj1) as Hpr.
        pose proof (IH (parz j) (pair_hash a b') ltac:(lia) Sp) as Hpar.
        assert (Hch : 2 * parz j + 2 < n).
        { destruct (node_cases j Hj1) as [[E1 E2]|[E1 E2]]; [|lia].
          (* j is the left child: its sibling slot 2p+2 is present, hence inside the tree *)
          destruct (Z_lt_ge_dec (2 * parz j + 2) (zlen T)) as [Hlt|Hge]; [lia|].
          unfold slot in Sr. rewrite nth_overflow in Sr; [discriminate|unfold zlen in Hge; lia]. }
        rewrite (Hm (parz j) ltac:(lia) Hch) in Hpar.
        destruct (pair_inj _ _ _ _ Hpar) as [Ea Eb].
        destruct (node_cases j Hj1) as [[E1 E2]|[E1 E2]].
        + rewrite <- E1 in Sl. rewrite Sl in Hs. inversion Hs. subst h. rewrite Ea. rewrite <- E1. reflexivity.
        + rewrite <- E1 in Sr. rewrite Sr in Hs. inversion Hs. subst h. rewrite Eb. rewrite <- E1. reflexivity. }
    intros j h Hj Hs. apply (Hall j Hj j h ltac:(lia) Hs).
  Qed.

  (* nodes stay where they are, and whatever a later accepted call adds hangs under its parent *)
  Lemma accepted_keeps : forall fl T hs ls ord T1,
    set_hashes fl T hs ls ord = Accepted H T1 ->
    zlen T1 = zlen T /\ (forall j v, 0 <= j -> slot T j = Some v -> slot T1 j = Some v).
  Proof.
    intros fl T hs ls ord T1 Hacc.
    destruct (accepted_char H H_eqb pair_hash truthy H_eqb_spec pair_truthy fl T hs ls ord T1 Hacc) as [C1 [C2 _]].
    split; [unfold zlen; rewrite C1; reflexivity|].
    intros j v Hj Hs. rewrite (C2 j Hj); [exact Hs|]. rewrite Hs. cbn [is_truthy]. apply all_truthy_H.
  Qed.

  Lemma consistent_step : forall fl T hs ls ord T1,
    consistent T -> set_hashes fl T hs ls ord = Accepted H T1 -> consistent T1.
  Proof.
    intros fl T hs ls ord T1 Hc Hacc.
    destruct (accepted_keeps fl T hs ls ord T1 Hacc) as [Hz Hkeep].
    destruct (accepted_char H H_eqb pair_hash truthy H_eqb_spec pair_truthy fl T hs ls ord T1 Hacc) as [_ [_ C3]].
    intros j Hj Hp. rewrite Hz in Hj.
    destruct (slot T j) as [v|] eqn:Es.
    - destruct (Hc j Hj ltac:(rewrite Es; discriminate)) as [Hz0|[Hj1 [Hd [a [b [Sp [Sl Sr]]]]]]]; [left; exact Hz0|].
      right. split; [exact Hj1|]. split; [exact Hd|]. exists a, b. pose proof (parz_range j Hj1).
      split; [apply Hkeep; [lia|exact Sp]|]. split; [apply Hkeep; [lia|exact Sl]|apply Hkeep; [lia|exact Sr]].
    - apply C3; [lia|exact Hp|rewrite Es; exact Hp].
  Qed.

  Lemma accepted_root_stored : forall fl T h ord T1,
    1 <= zlen T -> set_hashes fl T [(0, h)] [] ord = Accepted H T1 -> slot T1 0 = Some h.
  Proof.
    intros fl T h ord T1 Hl Hacc.
    destruct (accepted_stores H H_eqb pair_hash truthy H_eqb_spec fl T [(0, h)] [] ord T1 Hacc) as [S1 _].
    assert (Hv : validz (zlen T) 0) by (unfold validz; lia).
    specialize (S1 0 h (or_introl eq_refl) Hv (all_truthy_H h)). rewrite normz_nonneg in S1 by lia. exact S1.
  Qed.
End TreeSteps.
