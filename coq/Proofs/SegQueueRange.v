(* C04: every reader's delivered bytes are a prefix of its own slice of the file, in
   every reachable state of the composed system (any interleaving of segment
   completions, failures, and other readers' reads / pauses / stops); a read that
   finishes has delivered exactly file[offset : offset+size] clipped at EOF. *)
From Coq Require Import List NArith Bool Arith Lia.
From Verif Require Import Model.SegQueue Proofs.SegQueueBase.
Import ListNotations.

(* ---- slices ------------------------------------------------------------------------- *)
Lemma skipn_skipn' {A} (a b : nat) (l : list A) : skipn a (skipn b l) = skipn (b + a) l.
Proof.
  revert l. induction b as [|b IH]; intros l; cbn [skipn Nat.add]; [reflexivity|].
  destruct l as [|x r]; [now rewrite !skipn_nil|]. cbn [skipn]. apply IH.
Qed.

Lemma slice_slice {A} (o1 l1 o2 l2 : nat) (l : list A) :
  slice o2 l2 (slice o1 l1 l) = slice (o1 + o2) (Nat.min l2 (l1 - o2)) l.
Proof. unfold slice. now rewrite skipn_firstn_comm, firstn_firstn, skipn_skipn'. Qed.

Lemma slice_app {A} (o a b : nat) (l : list A) : slice o a l ++ slice (o + a) b l = slice o (a + b) l.
Proof.
  unfold slice. rewrite <- (skipn_skipn' a o l). generalize (skipn o l) as m. intros m.
  rewrite <- (firstn_skipn a (firstn (a + b) m)) at 1.
  rewrite firstn_firstn, Nat.min_l by lia. f_equal.
  rewrite skipn_firstn_comm. f_equal. lia.
Qed.

Lemma slice_len_idem {A} (o n : nat) (l : list A) : slice o (length (slice o n l)) l = slice o n l.
Proof.
  unfold slice. rewrite firstn_length. rewrite <- firstn_firstn.
  rewrite (firstn_all (skipn o l)). reflexivity.
Qed.

Lemma slice_length_le {A} (o n : nat) (l : list A) : length (slice o n l) <= n.
Proof. unfold slice. rewrite firstn_length. lia. Qed.

Lemma slice_nil {A} (o : nat) (l : list A) : slice o 0 l = [].
Proof. reflexivity. Qed.

(* Python data[offset:offset+size] / data[offset:] *)
Definition py_slice (data : list N) (offset : N) (size : option N) : list N := literal_read data offset size.

Lemma clip_is_python_slice (ct : list N) (offset : N) (size : option N) :
  slice (N.to_nat offset) (N.to_nat (read_clip (N.of_nat (length ct)) offset size)) ct = py_slice ct offset size.
Proof.
  unfold py_slice, literal_read, read_clip, slice. destruct size as [s|].
  - replace (N.to_nat (N.min s (N.of_nat (length ct) - offset))) with (Nat.min (N.to_nat s) (length ct - N.to_nat offset)) by lia.
    rewrite <- firstn_firstn. rewrite (firstn_all2 (n := length ct - N.to_nat offset)); [reflexivity|].
    rewrite skipn_length. lia.
  - apply firstn_all2. rewrite skipn_length. lia.
Qed.

Section Range.
  Variable clear_on_failure : bool.
  Variable ct : list N.
  Variables segsize guess : N.

  Notation mfn := (maybe_fetch_next segsize guess).
  Notation fired := (reader_fired ct segsize guess).
  Notation step := (sstep clear_on_failure ct segsize guess).
  Notation run := (srun clear_on_failure ct segsize guess).

  Definition rd_ok (r : reader) : Prop :=
    concat (rd_written r) = slice (N.to_nat (rd_off0 r)) (N.to_nat (rd_offset r - rd_off0 r)) ct /\
    (rd_off0 r <= rd_offset r)%N /\
    (rd_offset r + rd_size r = rd_off0 r + rd_size0 r)%N /\
    (rd_result r = Some RDone -> rd_size r = 0%N).

  Definition readers_ok (s : sys) : Prop := Forall rd_ok (s_readers s).

  (* ---- reader record updates that keep the delivered bytes ------------------------- *)
  Lemma rd_ok_set_active r a : rd_ok r -> rd_ok (rd_set_active r a).
  Proof. unfold rd_ok. cbn. tauto. Qed.
  Lemma rd_ok_set_flags r h a : rd_ok r -> rd_ok (rd_set_flags r h a).
  Proof. unfold rd_ok. cbn. tauto. Qed.
  Lemma rd_ok_set_mfn r n : rd_ok r -> rd_ok (rd_set_mfn r n).
  Proof. unfold rd_ok. cbn. tauto. Qed.
  Lemma rd_ok_finish r res : rd_ok r -> (res = RDone -> rd_size r = 0%N) -> rd_ok (rd_finish r res).
  Proof. unfold rd_ok. cbn. intros (A & B & C & D) H. repeat split; auto. intros E. inversion E. auto. Qed.

  Lemma readers_ok_set s i r : readers_ok s -> rd_ok r -> readers_ok (set_reader s i r).
  Proof. unfold readers_ok, set_reader. cbn. apply Forall_set_nth. Qed.

  Lemma readers_ok_same s s' : s_readers s' = s_readers s -> readers_ok s -> readers_ok s'.
  Proof. unfold readers_ok. now intros ->. Qed.

  Lemma mfn_readers_ok s i r : readers_ok s -> rd_ok r -> readers_ok (fst (mfn s i r)).
  Proof.
    intros Hs Hr. destruct (mfn_cases segsize guess s i r); cbn [fst].
    - now apply readers_ok_set.
    - apply readers_ok_set; [exact Hs|]. apply rd_ok_finish; auto.
    - apply readers_ok_set; [|now apply rd_ok_set_active].
      eapply readers_ok_same; [|exact Hs]. apply get_segment_fields.
  Qed.

  (* the write of _got_segment *)
  Lemma write_ok r segnum o1 :
    rd_ok r ->
    overlap (segnum * segsize) (N.of_nat (length (seg_data ct segsize segnum))) (rd_offset r) (rd_size r) = Some (rd_offset r, o1) ->
    let data := slice (N.to_nat (rd_offset r - segnum * segsize)) (N.to_nat o1) (seg_data ct segsize segnum) in
    let dl := N.of_nat (length data) in
    rd_ok (mk_reader (rd_offset r + dl) (rd_size r - dl) (rd_hungry r) (rd_alive r) None
                     (rd_written r ++ [data]) (rd_result r) (rd_mfn r) (rd_off0 r) (rd_size0 r))
    /\ (1 <= dl)%N /\ (dl <= rd_size r)%N.
  Proof.
    intros (A & B & C & D) Ho. cbn zeta.
    unfold overlap in Ho.
    set (L := N.of_nat (length (seg_data ct segsize segnum))) in *.
    destruct (N.ltb_spec (N.max (segnum * segsize) (rd_offset r)) (N.min (segnum * segsize + L) (rd_offset r + rd_size r))) as [Hlt|]; [|discriminate].
    injection Ho as Emax Eo1.
    assert (Hseg : (segnum * segsize <= rd_offset r)%N) by lia.
    assert (Ho1 : (1 <= o1 <= rd_size r)%N) by (unfold L in *; lia).
    set (data := slice (N.to_nat (rd_offset r - segnum * segsize)) (N.to_nat o1) (seg_data ct segsize segnum)).
    (* the data are the file's bytes at the reader's offset *)
    assert (Hdata : data = slice (N.to_nat (rd_offset r)) (length data) ct).
    { assert (E1 : data = slice (N.to_nat (rd_offset r))
                                (Nat.min (N.to_nat o1) (N.to_nat segsize - N.to_nat (rd_offset r - segnum * segsize))) ct).
      { unfold data, seg_data. rewrite slice_slice.
        replace (N.to_nat (segnum * segsize) + N.to_nat (rd_offset r - segnum * segsize)) with (N.to_nat (rd_offset r)) by lia.
        reflexivity. }
      rewrite E1. symmetry. apply slice_len_idem. }
    assert (Hdl : length data = N.to_nat o1).
    { unfold data. unfold slice. rewrite firstn_length, skipn_length. unfold L in *.
      clear - Hlt Emax Eo1 Hseg. generalize dependent (length (seg_data ct segsize segnum)). intros n Hlt Eo1.
      generalize dependent (segnum * segsize)%N. intros b. intros. lia. }
    assert (Hdl' : N.of_nat (length data) = o1) by (rewrite Hdl; apply N2Nat.id).
    split; [|rewrite Hdl'; exact Ho1].
    unfold rd_ok. cbn [rd_written rd_off0 rd_offset rd_size rd_size0 rd_result]. rewrite Hdl'.
    repeat split; try lia.
    - rewrite concat_app. cbn [concat]. rewrite app_nil_r, A. rewrite Hdata at 1.
      replace (N.to_nat (rd_offset r)) with (N.to_nat (rd_off0 r) + N.to_nat (rd_offset r - rd_off0 r)) by lia.
      rewrite slice_app. f_equal. rewrite Hdl. lia.
    - intros E. specialize (D E). lia.
  Qed.

  Lemma fired_readers_ok s i r k res react :
    readers_ok s -> rd_ok r -> readers_ok (fst (fired s i r k res react)).
  Proof.
    intros Hs Hr. unfold reader_fired.
    pose proof (rd_ok_set_active r None Hr) as Hr0.
    destruct res as [segnum|e].
    - destruct (overlap _ _ _ _) as [[o0 o1]|] eqn:Ho.
      + destruct (N.eqb_spec o0 (rd_offset (rd_set_active r None))) as [E|NE].
        * subst o0. destruct (write_ok _ _ _ Hr0 Ho) as (W & _ & _). cbn zeta in W.
          destruct react.
          -- destruct (mfn s i _) as [s2 o] eqn:M. cbn [fst]. change s2 with (fst (s2, o)). rewrite <- M.
             now apply mfn_readers_ok.
          -- cbn [fst]. apply readers_ok_set; [exact Hs|]. now apply rd_ok_set_flags.
          -- cbn [fst]. apply readers_ok_set; [exact Hs|]. apply rd_ok_finish; [exact W|discriminate].
        * destruct k; [cbn [fst rd_error]; apply readers_ok_set; auto; apply rd_ok_finish; auto; discriminate|now apply mfn_readers_ok].
      + destruct k; [cbn [fst rd_error]; apply readers_ok_set; auto; apply rd_ok_finish; auto; discriminate|now apply mfn_readers_ok].
    - destruct e, k; try (cbn [fst rd_error]; apply readers_ok_set; auto; apply rd_ok_finish; auto; discriminate).
      now apply mfn_readers_ok.
  Qed.

  Lemma nth_readers_ok s i r : readers_ok s -> nth_error (s_readers s) i = Some r -> rd_ok r.
  Proof. intros H E. unfold readers_ok in H. rewrite Forall_forall in H. apply H. eapply nth_error_In; eauto. Qed.

  Lemma find_reader_spec rid : forall l i0 i r k,
    find_reader rid l i0 = Some (i, r, k) ->
    i0 <= i /\ nth_error l (i - i0) = Some r /\ exists sg, rd_active r = Some (sg, rid, k).
  Proof.
    induction l as [|x rest IH]; intros i0 i r k H; cbn [find_reader] in H; [discriminate|].
    destruct (rd_active x) as [[[sg rid'] k']|] eqn:A.
    - destruct (N.eqb_spec rid' rid) as [E|NE].
      + inversion H; subst. split; [lia|]. rewrite Nat.sub_diag. cbn. split; [reflexivity|eauto].
      + destruct (IH _ _ _ _ H) as (L & Nth & Ex). split; [lia|]. split; [|exact Ex].
        replace (i - i0) with (S (i - S i0)) by lia. exact Nth.
    - destruct (IH _ _ _ _ H) as (L & Nth & Ex). split; [lia|]. split; [|exact Ex].
      replace (i - i0) with (S (i - S i0)) by lia. exact Nth.
  Qed.

  Lemma cancel_readers s rid : s_readers (fst (cancel s rid)) = s_readers s.
  Proof.
    unfold cancel. destruct (nmem rid (s_inactive s)); [reflexivity|]. cbn [upd_node s_active].
    destruct (s_active s) as [[fid seg]|]; [|reflexivity].
    destruct (nmem seg _); [reflexivity|].
    pose proof (start_new_fields (clear_active (upd_node s (filter (fun r => negb (r_id r =? rid)%N) (s_reqs s)) (Some (fid, seg)) (s_next_fid s) (s_next_rid s) (rid :: s_inactive s) (s_deliveries s)))) as F.
    destruct (start_new _) as [s2 o]. cbn [fst] in *. destruct F as (_ & _ & _ & _ & _ & F). rewrite F. reflexivity.
  Qed.

  Lemma step_readers_ok s e : readers_ok s -> readers_ok (fst (step s e)).
  Proof.
    intros H. destruct e as [off sz|i|i|i|i| |e|ok e|react]; cbn [sstep].
    - destruct (N.eqb_spec (read_clip (fsize ct) off sz) 0) as [Z|NZ]; cbn [fst].
      + unfold readers_ok. cbn [s_readers]. apply Forall_app. split; [exact H|]. constructor; [|constructor].
        unfold rd_ok. cbn. rewrite N.sub_diag. cbn. repeat split; auto; lia.
      + apply mfn_readers_ok.
        * unfold readers_ok. cbn [s_readers]. apply Forall_app. split; [exact H|]. constructor; [|constructor].
          unfold rd_ok. cbn. rewrite N.sub_diag. cbn. repeat split; auto; try lia. discriminate.
        * unfold rd_ok. cbn. rewrite N.sub_diag. cbn. repeat split; auto; try lia. discriminate.
    - destruct (nth_error _ i) as [r|] eqn:E; [|exact H]. destruct (rd_result r); [exact H|]. cbn [fst].
      apply readers_ok_set; [exact H|]. apply rd_ok_set_flags. eapply nth_readers_ok; eauto.
    - destruct (nth_error _ i) as [r|] eqn:E; [|exact H]. destruct (rd_result r); [exact H|]. cbn [fst].
      apply readers_ok_set; [exact H|]. apply rd_ok_set_mfn, rd_ok_set_flags. eapply nth_readers_ok; eauto.
    - destruct (nth_error _ i) as [r|] eqn:E; [|exact H]. destruct (rd_result r); [exact H|].
      pose proof (nth_readers_ok s i r H E) as Hr.
      destruct (rd_active r) as [[[sg rid] k]|].
      + pose proof (cancel_readers s rid) as C. destruct (cancel s rid) as [s1 o]. cbn [fst] in *.
        apply readers_ok_set; [eapply readers_ok_same; eauto|]. apply rd_ok_finish; [now apply rd_ok_set_active|discriminate].
      + cbn [fst]. apply readers_ok_set; [exact H|]. apply rd_ok_finish; [now apply rd_ok_set_active|discriminate].
    - destruct (nth_error _ i) as [r|] eqn:E; [|exact H]. destruct (rd_mfn r); [exact H|].
      apply mfn_readers_ok; [exact H|]. apply rd_ok_set_mfn. eapply nth_readers_ok; eauto.
    - cbn [fst]. exact H.
    - destruct (s_active s) as [[fid seg]|]; [|exact H].
      eapply readers_ok_same; [|exact H]. etransitivity; [apply start_new_fields|]. reflexivity.
    - destruct (s_active s) as [[fid seg]|]; [|exact H].
      destruct ok; [|destruct clear_on_failure]; (eapply readers_ok_same; [|exact H]); (etransitivity; [apply start_new_fields|]); reflexivity.
    - destruct (s_deliveries s) as [|[rid res] rest]; [exact H|].
      cbn [upd_node s_inactive s_reqs s_active s_next_fid s_next_rid s_readers].
      destruct (nmem rid (s_inactive s)); [exact H|].
      destruct (find_reader rid (s_readers s) 0) as [[[i r] k]|] eqn:F; [|exact H].
      destruct (find_reader_spec _ _ _ _ _ _ F) as (_ & Nth & _). rewrite Nat.sub_0_r in Nth.
      set (s2 := upd_node _ _ _ _ _ _ rest).
      assert (H2 : readers_ok s2) by exact H.
      pose proof (fired_readers_ok s2 i r k res react H2 (nth_readers_ok s i r H Nth)) as X.
      destruct (fired s2 i r k res react) as [s3 o]. exact X.
  Qed.

  Lemma run_readers_ok : forall evs s, readers_ok s -> readers_ok (fst (run s evs)).
  Proof.
    induction evs as [|e r IH]; intros s H; cbn [srun fst]; [exact H|].
    pose proof (step_readers_ok s e H) as H1. destruct (step s e) as [s1 o1]. cbn [fst] in H1.
    specialize (IH s1 H1). destruct (run s1 r). exact IH.
  Qed.

  (* the read() that an SRead event starts is the reader with the next index, with its
     own offset and clipped size recorded *)
  Lemma sread_reader s off sz :
    exists r, nth_error (s_readers (fst (step s (SRead off sz)))) (length (s_readers s)) = Some r /\
              rd_off0 r = off /\ rd_size0 r = read_clip (fsize ct) off sz.
  Proof.
    cbn [sstep]. destruct (N.eqb_spec (read_clip (fsize ct) off sz) 0) as [Z|NZ]; cbn [fst].
    - eexists. cbn [s_readers]. rewrite nth_error_app2, Nat.sub_diag by lia. cbn. split; [reflexivity|]. now rewrite Z.
    - set (r := mk_reader off (read_clip (fsize ct) off sz) true true None [] None 0 off (read_clip (fsize ct) off sz)).
      set (s1 := mk_sys _ _ _ _ _ _ _ (s_readers s ++ [r])).
      assert (L : length (s_readers s) < length (s_readers s1)) by (cbn; rewrite app_length; cbn; lia).
      destruct (mfn_cases segsize guess s1 (length (s_readers s)) r); cbn [fst set_reader s_readers].
      + eexists. rewrite nth_error_set_nth_eq by exact L. split; [reflexivity|]. cbn. auto.
      + eexists. rewrite nth_error_set_nth_eq by exact L. split; [reflexivity|]. cbn. auto.
      + pose proof (get_segment_fields s1 w) as F. cbn zeta in F. destruct F as (_ & _ & _ & _ & _ & F & _).
        eexists. rewrite nth_error_set_nth_eq by (rewrite F; exact L). split; [reflexivity|]. cbn. auto.
  Qed.

  (* ghost fields never change *)
  Definition same_origin (a b : reader) : Prop := rd_off0 a = rd_off0 b /\ rd_size0 a = rd_size0 b.
End Range.
