(* C46 / C04: the invariants over all reachable states and the theorems of Props. *)
From Coq Require Import List NArith Bool Arith Lia.
From Verif Require Import Model.SegQueue Proofs.SegQueueBase Proofs.SegQueueRange Proofs.SegQueueLive Proofs.SegQueueMeasure.
Import ListNotations.

Section Thm.
  Variable ct : list N.
  Variables segsize guess : N.

  Notation mfn := (maybe_fetch_next segsize guess).
  Notation fired := (reader_fired ct segsize guess).
  Notation step := (sstep true ct segsize guess).
  Notation run := (srun true ct segsize guess).

  (* the fetchers respect the guard along the run *)
  Fixpoint guarded (s : sys) (evs : list sev) : Prop :=
    match evs with
    | [] => True
    | e :: r => sev_ok s e /\ guarded (fst (step s e)) r
    end.

  Definition all_inv (s : sys) : Prop := LInv s /\ queue_ok s /\ readers_ok ct s.

  Lemma step_all_inv s e : all_inv s -> sev_ok s e -> all_inv (fst (step s e)).
  Proof.
    intros (L & Q & R) Hok. split; [now apply step_linv|]. split; [now apply step_queue_ok|now apply step_readers_ok].
  Qed.

  Lemma run_all_inv : forall evs s, all_inv s -> guarded s evs -> all_inv (fst (run s evs)).
  Proof.
    induction evs as [|e r IH]; intros s H G; cbn [srun fst]; [exact H|]. destruct G as [G1 G2].
    pose proof (step_all_inv s e H G1) as H1. destruct (step s e) as [s1 o1]. cbn [fst] in *.
    specialize (IH s1 H1 G2). destruct (run s1 r). exact IH.
  Qed.

  Lemma init_all_inv : all_inv sinit.
  Proof. split; [apply linv_init|]. split; [reflexivity|constructor]. Qed.

  Lemma reach_inv evs : guarded sinit evs -> all_inv (fst (run sinit evs)).
  Proof. apply run_all_inv, init_all_inv. Qed.

  Lemma run_app_fst : forall a b s, fst (run s (a ++ b)) = fst (run (fst (run s a)) b).
  Proof.
    induction a as [|e a IH]; intros b s; cbn [app srun fst]; [reflexivity|].
    destruct (step s e) as [s1 o1]. specialize (IH b s1).
    destruct (run s1 (a ++ b)), (run s1 a). cbn [fst] in *. exact IH.
  Qed.

  Lemma guarded_app : forall a b s, guarded s (a ++ b) <-> guarded s a /\ guarded (fst (run s a)) b.
  Proof.
    induction a as [|e a IH]; intros b s; cbn [app guarded srun fst]; [tauto|].
    rewrite IH. destruct (step s e) as [s1 o1]. cbn [fst]. destruct (run s1 a). cbn [fst]. tauto.
  Qed.

  (* ---- C46 --------------------------------------------------------------------------- *)
  Lemma no_stuck evs : guarded sinit evs ->
    let s := fst (run sinit evs) in
    (s_reqs s <> [] -> exists fid seg, s_active s = Some (fid, seg) /\ In seg (map r_seg (s_reqs s))) /\
    (forall fid seg, s_active s = Some (fid, seg) -> In seg (map r_seg (s_reqs s))) /\
    (forall i r, nth_error (s_readers s) i = Some r -> rd_result r = None ->
       (forall sg rid k, rd_active r = Some (sg, rid, k) ->
          ~ In rid (s_inactive s) /\ (In rid (map r_id (s_reqs s)) \/ In rid (map fst (s_deliveries s)))) /\
       (rd_hungry r = true -> rd_mfn r > 0 \/ rd_active r <> None)).
  Proof.
    intros G. destruct (reach_inv evs G) as (L & Q & _). cbn zeta.
    unfold queue_ok, segs in Q. split; [|split].
    - intros NE. destruct (s_active _) as [[fid seg]|]; [eauto|contradiction].
    - intros fid seg A. now rewrite A in Q.
    - intros i r H H0. destruct (l_pending _ _ L i r ltac:(discriminate) H H0) as [P1 P2]. split; [|exact P2].
      intros sg rid k E. exact (P1 sg rid k E).
  Qed.

  Lemma progress evs e : guarded sinit evs ->
    let s := fst (run sinit evs) in
    sev_ok s e -> system_step s e -> weight (fst (step s e)) < weight s.
  Proof. intros G. destruct (reach_inv evs G) as (L & Q & _). cbn zeta. now apply step_weight. Qed.

  (* after a failed segment (decode failure, bad ciphertext hash, not enough shares) the
     next read on the node gets its request queued and a fetcher started *)
  Lemma failed_then_read evs e off sz :
    guarded sinit evs ->
    let s := fst (run sinit evs) in
    (exists err, e = SBlocks false err \/ e = SFetchFailed err) -> sev_ok s e ->
    read_clip (fsize ct) off sz <> 0%N ->
    let s1 := fst (step s e) in
    let s2 := fst (step s1 (SRead off sz)) in
    exists r w rid k fid seg,
      nth_error (s_readers s2) (length (s_readers s1)) = Some r /\ rd_result r = None /\
      rd_active r = Some (w, rid, k) /\ In (mk_req w rid) (s_reqs s2) /\ ~ In rid (s_inactive s2) /\
      s_active s2 = Some (fid, seg) /\ In seg (map r_seg (s_reqs s2)).
  Proof.
    intros G s He Hok NZ s1 s2.
    pose proof (reach_inv evs G) as Inv. fold s in Inv.
    pose proof (step_all_inv s e Inv Hok) as Inv1. fold s1 in Inv1.
    assert (Inv2 : all_inv s2) by (apply step_all_inv; [exact Inv1|exact I]).
    destruct Inv1 as (L1 & Q1 & _). destruct Inv2 as (L2 & Q2 & _).
    unfold s2 in *. cbn [sstep] in *. destruct (N.eqb_spec (read_clip (fsize ct) off sz) 0) as [Z|_]; [contradiction|].
    set (r0 := mk_reader off (read_clip (fsize ct) off sz) true true None [] None 0 off (read_clip (fsize ct) off sz)) in *.
    set (s1' := mk_sys _ _ _ _ _ _ _ (s_readers s1 ++ [r0])) in *.
    destruct (mfn_cases segsize guess s1' (length (s_readers s1)) r0) as [Idle|A H Ac Z|w A H Ac NZ'].
    - exfalso. destruct Idle as [X|[X|X]]; cbn in X; congruence.
    - exfalso. cbn in Z. contradiction.
    - cbn [fst] in *.
      destruct (get_segment_fields s1' w) as (R & Nx & In' & D & K & Rd & _). cbn zeta in *.
      set (sg := fst (fst (get_segment s1' w))) in *.
      set (r := rd_set_active r0 (Some (w, s_next_rid s1', s_known s1'))).
      assert (Hn : nth_error (s_readers (set_reader sg (length (s_readers s1)) r)) (length (s_readers s1)) = Some r).
      { cbn [set_reader s_readers]. apply nth_error_set_nth_eq. rewrite Rd. cbn [s1' s_readers]. rewrite app_length. cbn. lia. }
      assert (Hreq : In (mk_req w (s_next_rid s1')) (s_reqs (set_reader sg (length (s_readers s1)) r))).
      { cbn [set_reader s_reqs]. rewrite R. apply in_or_app. right. now left. }
      unfold queue_ok, segs in Q2. fold r in Q2.
      destruct (s_active (set_reader sg (length (s_readers s1)) r)) as [[fid seg]|] eqn:Act.
      + exists r, w, (s_next_rid s1'), (s_known s1'), fid, seg.
        split; [exact Hn|]. split; [reflexivity|]. split; [reflexivity|]. split; [exact Hreq|].
        split; [|split; [reflexivity|exact Q2]].
        pose proof (l_pending _ _ L2 _ _ ltac:(discriminate) Hn eq_refl) as [P _].
        destruct (P w (s_next_rid s1') (s_known s1') eq_refl) as [NI _]. exact NI.
      + rewrite Q2 in Hreq. destruct Hreq.
  Qed.

  (* ---- C04 --------------------------------------------------------------------------- *)
  (* the ghost origin of a reader never changes, and readers keep their index *)
  Definition keeps (l l' : list reader) : Prop :=
    forall i r, nth_error l i = Some r -> exists r', nth_error l' i = Some r' /\ same_origin r r'.

  Lemma keeps_refl l : keeps l l.
  Proof. intros i r H. exists r. split; [exact H|split; reflexivity]. Qed.

  Lemma keeps_trans a b c : keeps a b -> keeps b c -> keeps a c.
  Proof.
    intros H1 H2 i r H. destruct (H1 i r H) as (r1 & A & B1 & B2). destruct (H2 i r1 A) as (r2 & C & D1 & D2).
    exists r2. split; [exact C|]. split; congruence.
  Qed.

  Lemma keeps_set_nth l i r x : nth_error l i = Some r -> same_origin r x -> keeps l (set_nth i x l).
  Proof.
    intros H S j y Hj. destruct (Nat.eq_dec i j) as [E|NE].
    - subst. exists x. split; [apply nth_error_set_nth_eq; apply nth_error_Some; congruence|]. congruence.
    - exists y. split; [now rewrite nth_error_set_nth_neq|split; reflexivity].
  Qed.

  Lemma keeps_app l x : keeps l (l ++ [x]).
  Proof.
    intros i r H. exists r. split; [|split; reflexivity].
    rewrite nth_error_app1; [exact H|]. apply nth_error_Some. congruence.
  Qed.

  Lemma mfn_keeps s i r0 r :
    nth_error (s_readers s) i = Some r0 -> same_origin r0 r -> keeps (s_readers s) (s_readers (fst (mfn s i r))).
  Proof.
    intros H S. destruct (mfn_cases segsize guess s i r) as [Idle|A Hg Ac Z|w A Hg Ac NZ]; cbn [fst set_reader s_readers].
    - now apply (keeps_set_nth _ i r0).
    - apply (keeps_set_nth _ i r0); [exact H|]. exact S.
    - destruct (get_segment_fields s w) as (_ & _ & _ & _ & _ & Rd & _). cbn zeta in Rd. rewrite Rd.
      apply (keeps_set_nth _ i r0); [exact H|]. exact S.
  Qed.

  Lemma fired_keeps s i r k res react :
    nth_error (s_readers s) i = Some r -> keeps (s_readers s) (s_readers (fst (fired s i r k res react))).
  Proof.
    intros H. unfold reader_fired.
    assert (S0 : same_origin r (rd_set_active r None)) by (split; reflexivity).
    assert (E : forall x, keeps (s_readers s) (s_readers (fst (rd_error s i (rd_set_active r None) x)))).
    { intros x. cbn [rd_error fst set_reader s_readers]. apply (keeps_set_nth _ i r); [exact H|split; reflexivity]. }
    destruct res as [segnum|e].
    - destruct (overlap _ _ _ _) as [[o0 o1]|].
      + destruct (N.eqb o0 _).
        * destruct react.
          -- destruct (mfn s i _) as [s2 o] eqn:M. cbn [fst]. change s2 with (fst (s2, o)). rewrite <- M.
             apply (mfn_keeps s i r); [exact H|split; reflexivity].
          -- cbn [fst set_reader s_readers]. apply (keeps_set_nth _ i r); [exact H|split; reflexivity].
          -- cbn [fst set_reader s_readers]. apply (keeps_set_nth _ i r); [exact H|split; reflexivity].
        * destruct k; [apply E|now apply (mfn_keeps s i r)].
      + destruct k; [apply E|now apply (mfn_keeps s i r)].
    - destruct e, k; try apply E. now apply (mfn_keeps s i r).
  Qed.

  Lemma step_keeps s e : keeps (s_readers s) (s_readers (fst (step s e))).
  Proof.
    destruct e as [off sz|i|i|i|i| |e|ok e|react]; cbn [sstep].
    - destruct (N.eqb _ 0); cbn [fst s_readers]; [apply keeps_app|].
      eapply keeps_trans; [apply keeps_app|].
      set (r := mk_reader _ _ _ _ _ _ _ _ _ _). set (s1 := mk_sys _ _ _ _ _ _ _ (s_readers s ++ [r])).
      change (s_readers s ++ [r]) with (s_readers s1).
      apply (mfn_keeps s1 (length (s_readers s)) r); [|split; reflexivity].
      cbn [s1 s_readers]. now rewrite nth_error_app2, Nat.sub_diag by lia.
    - destruct (nth_error _ i) as [r|] eqn:E; [|apply keeps_refl]. destruct (rd_result r); [apply keeps_refl|].
      cbn [fst set_reader s_readers]. apply (keeps_set_nth _ i r); [exact E|split; reflexivity].
    - destruct (nth_error _ i) as [r|] eqn:E; [|apply keeps_refl]. destruct (rd_result r); [apply keeps_refl|].
      cbn [fst set_reader s_readers]. apply (keeps_set_nth _ i r); [exact E|split; reflexivity].
    - destruct (nth_error _ i) as [r|] eqn:E; [|apply keeps_refl]. destruct (rd_result r); [apply keeps_refl|].
      destruct (rd_active r) as [[[sg rid] k]|].
      + pose proof (cancel_readers s rid) as C. destruct (cancel s rid) as [s1 o]. cbn [fst set_reader s_readers] in *.
        rewrite C. apply (keeps_set_nth _ i r); [exact E|split; reflexivity].
      + cbn [fst set_reader s_readers]. apply (keeps_set_nth _ i r); [exact E|split; reflexivity].
    - destruct (nth_error _ i) as [r|] eqn:E; [|apply keeps_refl]. destruct (rd_mfn r); [apply keeps_refl|].
      apply (mfn_keeps s i r); [exact E|split; reflexivity].
    - apply keeps_refl.
    - destruct (s_active s) as [[fid seg]|]; [|apply keeps_refl].
      destruct (start_new_fields (extract (clear_active s) seg (SegErr e))) as (_ & _ & _ & _ & _ & F). rewrite F. apply keeps_refl.
    - destruct (s_active s) as [[fid seg]|]; [|apply keeps_refl].
      destruct ok.
      + destruct (start_new_fields (extract (clear_active s) seg (SegData seg))) as (_ & _ & _ & _ & _ & F). rewrite F. apply keeps_refl.
      + destruct (start_new_fields (extract (clear_active s) seg (SegErr e))) as (_ & _ & _ & _ & _ & F). rewrite F. apply keeps_refl.
    - destruct (s_deliveries s) as [|[rid res] rest]; [apply keeps_refl|].
      cbn [upd_node s_inactive s_reqs s_active s_next_fid s_next_rid s_readers].
      destruct (nmem rid (s_inactive s)); [apply keeps_refl|].
      destruct (find_reader rid (s_readers s) 0) as [[[i r] k]|] eqn:F; [|apply keeps_refl].
      destruct (find_reader_spec _ _ _ _ _ _ F) as (_ & Nth & _). rewrite Nat.sub_0_r in Nth.
      set (s2 := upd_node _ _ _ _ _ _ rest).
      pose proof (fired_keeps s2 i r k res react Nth) as X. destruct (fired s2 i r k res react) as [s3 o]. exact X.
  Qed.

  Lemma run_keeps : forall evs s, keeps (s_readers s) (s_readers (fst (run s evs))).
  Proof.
    induction evs as [|e r IH]; intros s; cbn [srun fst]; [apply keeps_refl|].
    pose proof (step_keeps s e) as K. destruct (step s e) as [s1 o1]. cbn [fst] in *.
    specialize (IH s1). destruct (run s1 r). cbn [fst] in *. eapply keeps_trans; eauto.
  Qed.

  (* the read started by the event SRead off sz after evs1: at every later moment its
     consumer has received exactly the first bytes of file[off : off+sz] (Python
     slicing: clipped at EOF, sz = None means to EOF), and when the read finishes
     successfully it has received all of them *)
  Lemma range_slice_ok evs1 off sz evs2 :
    let i := length (s_readers (fst (run sinit evs1))) in
    let s := fst (run sinit (evs1 ++ SRead off sz :: evs2)) in
    exists r, nth_error (s_readers s) i = Some r /\
      (exists n, concat (rd_written r) = firstn n (py_slice ct off sz)) /\
      (rd_result r = Some RDone -> concat (rd_written r) = py_slice ct off sz).
  Proof.
    cbn zeta. rewrite run_app_fst. set (s0 := fst (run sinit evs1)).
    cbn [srun]. destruct (sread_reader true ct segsize guess s0 off sz) as (r1 & N1 & O1 & O2).
    destruct (step s0 (SRead off sz)) as [s1 o1] eqn:E1. cbn [fst] in N1.
    pose proof (run_keeps evs2 s1) as K. pose proof (run_readers_ok true ct segsize guess evs2 s1) as RO.
    assert (readers_ok ct s1) as R1.
    { replace s1 with (fst (step s0 (SRead off sz))) by now rewrite E1.
      apply step_readers_ok. unfold s0. apply run_readers_ok. constructor. }
    specialize (RO R1).
    destruct (run s1 evs2) as [s2 o2]. cbn [fst] in *.
    destruct (K _ _ N1) as (r & N2 & S1 & S2). exists r. split; [exact N2|].
    destruct (nth_readers_ok ct s2 _ r RO N2) as (A & B & C & D).
    rewrite <- S1, O1 in *. rewrite <- S2, O2 in *.
    rewrite <- clip_is_python_slice.
    assert (N.to_nat (rd_offset r - off) <= N.to_nat (read_clip (N.of_nat (length ct)) off sz)) as Le by (unfold fsize in *; lia).
    split.
    - exists (N.to_nat (rd_offset r - off)). rewrite A. unfold slice. rewrite firstn_firstn. f_equal. lia.
    - intros Dn. specialize (D Dn). rewrite A. f_equal. unfold fsize in *. lia.
  Qed.
  Lemma readers_independent_ok evs :
    guarded sinit evs ->
    let s := fst (run sinit evs) in
    forall i r, nth_error (s_readers s) i = Some r ->
      (concat (rd_written r) = slice (N.to_nat (rd_off0 r)) (N.to_nat (rd_offset r - rd_off0 r)) ct /\
       (rd_off0 r <= rd_offset r)%N /\ (rd_offset r + rd_size r = rd_off0 r + rd_size0 r)%N /\
       (rd_result r = Some RDone -> rd_size r = 0%N)) /\
      (rd_result r = None ->
       (forall sg rid k, rd_active r = Some (sg, rid, k) ->
          ~ In rid (s_inactive s) /\ (In rid (map r_id (s_reqs s)) \/ In rid (map fst (s_deliveries s)))) /\
       (rd_hungry r = true -> rd_mfn r > 0 \/ rd_active r <> None)).
  Proof.
    intros G s i r H. destruct (reach_inv evs G) as (L & Q & R). fold s in L, Q, R. split.
    - exact (nth_readers_ok ct s i r R H).
    - intros Rr. destruct (l_pending _ _ L i r ltac:(discriminate) H Rr) as [P1 P2]. split; [|exact P2].
      intros sg rid k E. exact (P1 sg rid k E).
  Qed.
End Thm.

(* ---- the code before the repair ------------------------------------------------------- *)
(* two segments of 4 bytes; a read of segment 0 whose ciphertext hash check fails, then a
   read of segment 1: the stopped fetcher of segment 0 is still the active one, nothing
   fetches segment 1 *)
Definition stuck_file : list N := [1; 2; 3; 4; 5; 6; 7; 8]%N.
Definition stuck_events : list sev :=
  [SRead 0 (Some 2); SLearn; SBlocks false EBadCiphertext; SDeliver Quiet; SRead 4 (Some 2)]%N.

Lemma old_code_stuck_ok :
  let s := fst (srun false stuck_file 4 4 sinit stuck_events) in
  s_reqs s = [mk_req 1 1]%N /\ s_active s = Some (0, 0)%N /\ s_deliveries s = [] /\
  (exists r, nth_error (s_readers s) 1 = Some r /\ rd_result r = None /\ rd_hungry r = true /\ rd_written r = []) /\
  ~ queue_ok s.
Proof.
  vm_compute. repeat split; try reflexivity.
  - eexists. repeat split; reflexivity.
  - intros [H|[]]. discriminate.
Qed.

Lemma new_code_not_stuck_ok :
  let s := fst (srun true stuck_file 4 4 sinit stuck_events) in
  s_reqs s = [mk_req 1 1]%N /\ s_active s = Some (1, 1)%N /\ queue_ok s.
Proof. vm_compute. repeat split; try reflexivity. now left. Qed.

(* and the second read then completes with its two bytes *)
Lemma new_code_second_read_ok :
  let s := fst (srun true stuck_file 4 4 sinit (stuck_events ++ [SBlocks true EOther; SDeliver Quiet])) in
  exists r, nth_error (s_readers s) 1 = Some r /\ rd_result r = Some RDone /\ concat (rd_written r) = [5; 6]%N.
Proof. vm_compute. eexists. repeat split; reflexivity. Qed.

(* ---- LiteralFileNode.read ----------------------------------------------------------------- *)
Lemma literal_range_ok (data : list N) (offset : N) (size : option N) :
  literal_read data offset size = slice (N.to_nat offset) (N.to_nat (read_clip (N.of_nat (length data)) offset size)) data /\
  N.of_nat (length (literal_read data offset size)) = read_clip (N.of_nat (length data)) offset size /\
  ((N.of_nat (length data) <= offset)%N -> literal_read data offset size = []).
Proof.
  pose proof (clip_is_python_slice data offset size) as E. unfold py_slice in E.
  split; [now rewrite E|]. split.
  - rewrite <- E. unfold slice. rewrite firstn_length, skipn_length. unfold read_clip. destruct size; lia.
  - intros H. rewrite <- E. unfold read_clip. replace (N.of_nat (length data) - offset)%N with 0%N by lia.
    destruct size as [s|]; [rewrite N.min_0_r|rewrite N.min_0_r]; reflexivity.
Qed.
