(* The Edmonds-Karp loop keeps the flow invariant and stops in a state whose residual
   graph has no augmenting path; there the flow is a maximum matching (vertex level). *)
From Coq Require Import List NArith ZArith Bool Arith Lia.
From Verif Require Import Model.Matching Proofs.Matching Proofs.MatchingLists Proofs.MatchingResidual Proofs.MatchingBfs
     Proofs.MatchingPath Proofs.MatchingAugment.
Import ListNotations.

Section Loop.
Variables (g : graph) (ns nsh : nat).
Hypothesis HN : Net g ns nsh.

Let t := ns + nsh + 1.
Let dim := ns + nsh + 2.

Lemma rg_facts : forall f rg cf, residual_network g f = (rg, cf) ->
  length rg = dim /\ (forall u v, In v (adj rg u) -> v < dim) /\
  (forall u v, In v (adj rg u) <-> residual_edge g f u v) /\
  (forall u v, residual_edge g f u v -> mget cf u v = 1%Z).
Proof.
  intros f rg cf H. destruct (residual_network_spec g f rg cf (net_upward g ns nsh HN) H) as [H1 [H2 H3]].
  split; [rewrite H1; apply (net_len _ _ _ HN)|]. split; [|split; assumption].
  intros u v Hv. apply H2 in Hv. destruct (res_bounds g ns nsh HN f u v Hv) as [_ [Hd _]]. exact Hd.
Qed.

(* a path returned by augmenting_path_for is a good augmenting path *)
Lemma apf_path : forall f rg cf path,
  residual_network g f = (rg, cf) -> augmenting_path_for rg = Some (Some path) ->
  PathOK g ns nsh f path /\ path <> [] /\ (forall u v, In (u, v) path -> mget cf u v = 1%Z).
Proof.
  intros f rg cf path Hr Ha. destruct (rg_facts _ _ _ Hr) as [HL [Hrange [Hadj Hcf]]].
  unfold augmenting_path_for in Ha.
  destruct (bfs rg 0) as [tree|] eqn:Eb; [|discriminate].
  assert (Hpos : 0 < dim) by (unfold dim; lia).
  destruct (bfs_spec rg dim HL Hrange Hpos tree Eb) as [_ [_ [_ [_ [d Hd]]]]].
  rewrite HL in Ha. replace (dim - 1) with t in Ha by (unfold dim, t; lia).
  destruct (nth t tree None) as [[|k]|]; try discriminate.
  destruct (walk_back dim tree t []) as [p|] eqn:Ew; [|discriminate].
  inversion Ha; subst p. clear Ha.
  destruct (walk_back_spec _ _ _ _ _ Ew) as [pre [E [Hc Hp]]]. rewrite app_nil_r in E. subst pre.
  split; [|split].
  - constructor.
    + exact Hc.
    + exists d. intros u v Huv. apply (Hd v u). apply Hp. exact Huv.
    + intros u v Huv. apply Hadj. apply (Hd v u). apply Hp. exact Huv.
  - intro; subst path. cbn [chain] in Hc. unfold t in Hc. lia.
  - intros u v Huv. apply Hcf. apply Hadj. apply (Hd v u). apply Hp. exact Huv.
Qed.

(* the state in which the loop stops *)
Definition final_state (f : matrix) (rg : graph) : Prop :=
  Inv g ns nsh f /\ (exists cf, residual_network g f = (rg, cf)) /\ augmenting_path_for rg = Some None.

Lemma flow_loop_spec : forall fuel f rg cf f' rg',
  Inv g ns nsh f -> residual_network g f = (rg, cf) ->
  flow_loop fuel g f rg cf = Some (f', rg') -> final_state f' rg'.
Proof.
  induction fuel as [|fuel IH]; intros f rg cf f' rg' HI Hr H; cbn [flow_loop] in H; [discriminate|].
  destruct (augmenting_path_for rg) as [[path|]|] eqn:Ea; [| |discriminate].
  - destruct (apf_path _ _ _ _ Hr Ea) as [HP [Hne Hcf]].
    rewrite (path_delta_one cf path Hne Hcf) in H.
    destruct (residual_network g (augment f 1%Z path)) as [rg1 cf1] eqn:Er1.
    apply (IH _ _ _ _ _ (augment_preserves g ns nsh HN f path HI HP) Er1 H).
  - inversion H; subst. split; [exact HI|]. split; [exists cf; exact Hr | exact Ea].
Qed.

Lemma max_flow_spec : forall fuel f rg, max_flow fuel g = Some (f, rg) -> final_state f rg.
Proof.
  intros fuel f rg H. unfold max_flow in H.
  destruct (residual_network g (zero_matrix (length g))) as [rg0 cf0] eqn:Er.
  eapply flow_loop_spec; [| exact Er | exact H].
  rewrite (net_len _ _ _ HN). apply (inv_zero g ns nsh).
Qed.

(* ---------- in a final state the flow is a maximum matching ---------------------------- *)

Definition vmatching (M : list (nat * nat)) : Prop :=
  (forall i s, In (i, s) M -> server ns i /\ E g i s) /\ NoDup (map fst M) /\ NoDup (map snd M).

Definition flow_row (f : matrix) (i : nat) : list (nat * nat) :=
  map (pair i) (filter (fun s => Z.eqb (mget f i s) 1) (adj g i)).

Definition flow_matching (f : matrix) : list (nat * nat) := flat_map (flow_row f) (seq 1 ns).

Lemma in_flow_matching : forall f i s,
  In (i, s) (flow_matching f) <-> server ns i /\ E g i s /\ mget f i s = 1%Z.
Proof.
  intros f i s. unfold flow_matching, flow_row. rewrite in_flat_map. split.
  - intros [j [Hj Hin]]. apply in_map_iff in Hin. destruct Hin as [s' [Eq Hs']]. inversion Eq; subst.
    apply filter_In in Hs'. destruct Hs' as [H1 H2]. apply in_seq in Hj. apply Z.eqb_eq in H2.
    unfold server, E. split; [lia|]. split; assumption.
  - intros [Hi [He Hf]]. exists i. split; [apply in_seq; unfold server in Hi; lia|].
    apply in_map_iff. exists s. split; [reflexivity|]. apply filter_In. split; [exact He | apply Z.eqb_eq; exact Hf].
Qed.

Section Counting.
Variable f : matrix.
Hypothesis HI : Inv g ns nsh f.

(* a NoDup list with at most one element satisfying a predicate *)
Lemma filter_le_one : forall (A : Type) (p : A -> bool) (l : list A),
  (forall x y, In x l -> In y l -> p x = true -> p y = true -> x = y) -> NoDup l ->
  length (filter p l) <= 1.
Proof.
  intros A p l Hu Hnd. induction Hnd as [|a r Ha Hr IH]; cbn [filter length]; [lia|].
  assert (IH' : length (filter p r) <= 1).
  { apply IH. intros x y Hx Hy. apply Hu; right; assumption. }
  destruct (p a) eqn:Ea; [|exact IH']. cbn [length].
  destruct (filter p r) as [|b r'] eqn:Ef; [cbn [length]; lia|]. exfalso.
  assert (Hb : In b (filter p r)) by (rewrite Ef; left; reflexivity).
  apply filter_In in Hb. destruct Hb as [Hb1 Hb2].
  assert (a = b) by (apply Hu; [left; reflexivity | right; exact Hb1 | exact Ea | exact Hb2]).
  subst b. contradiction.
Qed.

Lemma flow_row_count : forall i, server ns i ->
  mget f 0 i = Z.of_nat (length (flow_row f i)).
Proof.
  intros i Hi. unfold flow_row. rewrite map_length.
  assert (Hle : length (filter (fun s => Z.eqb (mget f i s) 1) (adj g i)) <= 1).
  { apply filter_le_one.
    - intros x y Hx Hy Px Py. apply Z.eqb_eq in Px. apply Z.eqb_eq in Py.
      apply (inv_out _ _ _ _ HI i x y Hi Hx Hy Px Py).
    - apply (net_srv _ _ _ HN i Hi). }
  destruct (inv_01 _ _ _ _ HI 0 i (E_src g ns nsh HN i Hi)) as [H0|H1].
  - rewrite H0. destruct (filter _ (adj g i)) as [|s r] eqn:Ef; [reflexivity|]. exfalso.
    assert (Hs : In s (filter (fun s => Z.eqb (mget f i s) 1) (adj g i))) by (rewrite Ef; left; reflexivity).
    apply filter_In in Hs. destruct Hs as [Hs1 Hs2]. apply Z.eqb_eq in Hs2.
    assert (Hx : mget f 0 i = 1%Z) by (apply (inv_srv _ _ _ _ HI i Hi); exists s; split; assumption).
    rewrite H0 in Hx. discriminate.
  - rewrite H1. apply (inv_srv _ _ _ _ HI i Hi) in H1. destruct H1 as [s [Hs Hf]].
    assert (Hin : In s (filter (fun s => Z.eqb (mget f i s) 1) (adj g i))).
    { apply filter_In. split; [exact Hs | apply Z.eqb_eq; exact Hf]. }
    destruct (filter _ (adj g i)) as [|a r]; [destruct Hin|]. cbn [length] in *.
    destruct r; [reflexivity | cbn [length] in Hle; lia].
Qed.

Lemma value_is_length : sum_out f 0 (seq 1 ns) = Z.of_nat (length (flow_matching f)).
Proof.
  unfold flow_matching.
  assert (H : forall l, (forall i, In i l -> server ns i) ->
                        sum_out f 0 l = Z.of_nat (length (flat_map (flow_row f) l))).
  { induction l as [|i r IH]; intros Hl; cbn [sum_out flat_map]; [reflexivity|].
    rewrite app_length, Nat2Z.inj_add, <- IH by (intros j Hj; apply Hl; right; exact Hj).
    rewrite (flow_row_count i) by (apply Hl; left; reflexivity). reflexivity. }
  apply H. intros i Hi. apply in_seq in Hi. unfold server. lia.
Qed.

Lemma NoDup_flat_map_fst : forall (l : list nat) (F : nat -> list (nat * nat)),
  NoDup l -> (forall i, In i l -> length (F i) <= 1) -> (forall i e, In e (F i) -> fst e = i) ->
  NoDup (map fst (flat_map F l)).
Proof.
  intros l F Hnd Hle Hfst. induction Hnd as [|i r Hi Hr IH]; cbn [flat_map map]; [constructor|].
  rewrite map_app. apply NoDup_app_intro.
  - pose proof (Hle i (or_introl eq_refl)) as Hl.
    destruct (F i) as [|e [|e' r']]; cbn [map]; [constructor | | cbn [length] in Hl; lia].
    constructor; [intros [] | constructor].
  - apply IH. intros j Hj. apply Hle. right. exact Hj.
  - intros x Hx Hx'. apply in_map_iff in Hx. destruct Hx as [e [Ee He]]. rewrite (Hfst i e He) in Ee. subst x.
    apply in_map_iff in Hx'. destruct Hx' as [e' [Ee' He']]. apply in_flat_map in He'.
    destruct He' as [j [Hj Hej]]. rewrite (Hfst j e' Hej) in Ee'. subst j. contradiction.
Qed.

Lemma flow_row_le_one : forall i, In i (seq 1 ns) -> length (flow_row f i) <= 1.
Proof.
  intros i Hin. apply in_seq in Hin. assert (Hi : server ns i) by (unfold server; lia).
  pose proof (flow_row_count i Hi) as Hc.
  destruct (inv_01 _ _ _ _ HI 0 i (E_src g ns nsh HN i Hi)) as [H0|H0]; rewrite H0 in Hc; lia.
Qed.

Lemma flow_row_fst : forall i e, In e (flow_row f i) -> fst e = i.
Proof.
  intros i e He. unfold flow_row in He. apply in_map_iff in He. destruct He as [s [Ee _]]. subst e. reflexivity.
Qed.

Lemma flow_matching_is_matching : vmatching (flow_matching f).
Proof.
  assert (Hfst : NoDup (map fst (flow_matching f))).
  { apply NoDup_flat_map_fst; [apply seq_NoDup | apply flow_row_le_one | apply flow_row_fst]. }
  split; [|split; [exact Hfst|]].
  - intros i s H. apply in_flow_matching in H. tauto.
  - (* shares distinct: two flow edges into the same share have the same server *)
    assert (Hinj : forall e1 e2, In e1 (flow_matching f) -> In e2 (flow_matching f) -> snd e1 = snd e2 -> e1 = e2).
    { intros [i s] [i' s'] H1 H2 Es. cbn [snd] in Es. subst s'.
      apply in_flow_matching in H1. apply in_flow_matching in H2.
      destruct H1 as [Hi [He Hf]], H2 as [Hi' [He' Hf']].
      f_equal. apply (inv_in _ _ _ _ HI s i i' He He' Hi Hi' Hf Hf'). }
    pose proof (NoDup_map_inv fst _ Hfst) as Hnd.
    clear Hfst. induction Hnd as [|e r He Hr IH]; cbn [map]; [constructor|].
    constructor.
    + intro Hin. apply in_map_iff in Hin. destruct Hin as [e' [Ee' He']].
      assert (e' = e) by (apply Hinj; [right; exact He' | left; reflexivity | exact Ee']). subst e'. contradiction.
    + apply IH. intros e1 e2 H1 H2. apply Hinj; right; assumption.
Qed.

End Counting.

(* ---------- no augmenting path: the coloured set yields a vertex cover ------------------- *)

Section Final.
Variables (f : matrix) (rg : graph).
Hypothesis HF : final_state f rg.

Let HI : Inv g ns nsh f := proj1 HF.


Lemma matching_le_cover_nat : forall (M : list (nat * nat)) (CL CR : list nat),
  NoDup (map fst M) -> NoDup (map snd M) ->
  (forall i s, In (i, s) M -> In i CL \/ In s CR) ->
  length M <= length CL + length CR.
Proof.
  intros M CL CR Hf Hs Hc.
  set (h := fun e : nat * nat => if in_dec Nat.eq_dec (fst e) CL then true else false).
  rewrite (filter_split_length _ h M).
  assert (HA : length (filter h M) <= length CL).
  { rewrite <- (map_length fst). apply NoDup_incl_length.
    - apply NoDup_map_filter. exact Hf.
    - intros p Hp. apply in_map_iff in Hp. destruct Hp as [[p' s] [Ep Hin]]. cbn [fst] in Ep. subst p'.
      apply filter_In in Hin. destruct Hin as [_ Hg]. unfold h in Hg. cbn [fst] in Hg.
      destruct (in_dec Nat.eq_dec p CL); [assumption | discriminate]. }
  assert (HB : length (filter (fun x => negb (h x)) M) <= length CR).
  { rewrite <- (map_length snd). apply NoDup_incl_length.
    - apply NoDup_map_filter. exact Hs.
    - intros s Hp. apply in_map_iff in Hp. destruct Hp as [[p s'] [Ep Hin]]. cbn [snd] in Ep. subst s'.
      apply filter_In in Hin. destruct Hin as [Hin Hg]. unfold h in Hg. cbn [fst] in Hg.
      destruct (in_dec Nat.eq_dec p CL) as [Hi|Hi]; [discriminate|].
      destruct (Hc _ _ Hin) as [H|H]; [contradiction | exact H]. }
  lia.
Qed.

Lemma final_bfs : exists tree cf,
  residual_network g f = (rg, cf) /\ bfs rg 0 = Some tree /\ reached tree t = false.
Proof.
  pose proof HF as HF0. destruct HF0 as [_ [[cf Hr] Ha]]. destruct (rg_facts _ _ _ Hr) as [HL [Hrange [Hadj _]]].
  unfold augmenting_path_for in Ha.
  destruct (bfs rg 0) as [tree|] eqn:Eb; [|discriminate].
  exists tree, cf. split; [exact Hr|]. split; [reflexivity|].
  assert (Hpos : 0 < dim) by (unfold dim; lia).
  destruct (bfs_spec rg dim HL Hrange Hpos tree Eb) as [_ [_ [_ [_ [d Hd]]]]].
  rewrite HL in Ha. replace (dim - 1) with t in Ha by (unfold dim, t; lia).
  unfold reached. replace t with (S (ns + nsh)) by (unfold t; lia).
  replace t with (S (ns + nsh)) in Ha by (unfold t; lia).
  destruct (nth (S (ns + nsh)) tree None) as [[|k]|] eqn:En; [| |reflexivity].
  - exfalso. destruct (Hd _ _ En) as [Hin _]. apply Hadj in Hin.
    destruct Hin as [[He _]|[He _]]; destruct (E_cases g ns nsh HN _ _ He) as [[E0 Hs]|[[Hs _]|[Hs _]]];
      unfold server, share in *; lia.
  - destruct (walk_back dim tree (S (ns + nsh)) []); discriminate.
Qed.

Theorem flow_matching_maximum : forall M', vmatching M' -> length M' <= length (flow_matching f).
Proof.
  intros M' [HM1 [HM2 HM3]].
  destruct final_bfs as [tree [cf [Hr [Eb Ht]]]].
  destruct (rg_facts _ _ _ Hr) as [HL [Hrange [Hadj _]]].
  assert (Hpos : 0 < dim) by (unfold dim; lia).
  destruct (bfs_spec rg dim HL Hrange Hpos tree Eb) as [_ [R0 [_ [Hclosed [d Hd]]]]].
  set (R := fun v => reached tree v).
  set (CL := filter (fun i => negb (R i)) (seq 1 ns)).
  set (CR := filter R (seq (S ns) nsh)).
  set (Mf := flow_matching f).
  (* closure under residual edges *)
  assert (Hcl : forall u v, R u = true -> residual_edge g f u v -> R v = true).
  { intros u v Hu Hv. apply (Hclosed u v Hu). apply Hadj. exact Hv. }
  (* a server outside R carries flow from the source; a share inside R carries flow to the sink *)
  assert (HsrvOut : forall i, server ns i -> R i = false -> mget f 0 i = 1%Z).
  { intros i Hi Hn. destruct (Z.eq_dec (mget f 0 i) 1) as [H1|H1]; [exact H1|]. exfalso.
    assert (Hx : R i = true) by (apply (Hcl 0 i R0); left; split; [apply (E_src g ns nsh HN i Hi) | exact H1]).
    rewrite Hx in Hn. discriminate. }
  assert (HshrIn : forall s, share ns nsh s -> R s = true -> mget f s t = 1%Z).
  { intros s Hs Hn. destruct (Z.eq_dec (mget f s t) 1) as [H1|H1]; [exact H1|]. exfalso.
    assert (Hx : R t = true) by (apply (Hcl s t Hn); left; split; [apply (E_snk g ns nsh HN s Hs) | exact H1]).
    unfold R in Hx. rewrite Ht in Hx. discriminate. }
  (* |CL| + |CR| <= |Mf| *)
  assert (Hsize : length CL + length CR <= length Mf).
  { rewrite (filter_split_length _ (fun e : nat * nat => R (fst e)) Mf).
    destruct (flow_matching_is_matching f HI) as [_ [Hf1 Hf2]].
    assert (HA : length CL <= length (filter (fun e : nat * nat => negb (R (fst e))) Mf)).
    { rewrite <- (map_length fst (filter _ Mf)). apply NoDup_incl_length.
      - apply NoDup_filter. apply seq_NoDup.
      - intros i Hi. apply filter_In in Hi. destruct Hi as [Hi1 Hi2]. apply in_seq in Hi1.
        assert (Hi : server ns i) by (unfold server; lia).
        apply negb_true_iff in Hi2.
        destruct (proj1 (inv_srv _ _ _ _ HI i Hi) (HsrvOut i Hi Hi2)) as [s [He Hf]].
        apply in_map_iff. exists (i, s). split; [reflexivity|]. apply filter_In. split.
        + apply in_flow_matching. split; [exact Hi|]. split; assumption.
        + cbn [fst]. rewrite Hi2. reflexivity. }
    assert (HB : length CR <= length (filter (fun e : nat * nat => R (fst e)) Mf)).
    { rewrite <- (map_length snd (filter _ Mf)). apply NoDup_incl_length.
      - apply NoDup_filter. apply seq_NoDup.
      - intros s Hs. apply filter_In in Hs. destruct Hs as [Hs1 Hs2]. apply in_seq in Hs1.
        assert (Hs : share ns nsh s) by (unfold share; lia).
        destruct (proj1 (inv_shr _ _ _ _ HI s Hs) (HshrIn s Hs Hs2)) as [i [Hi [He Hf]]].
        apply in_map_iff. exists (i, s). split; [reflexivity|]. apply filter_In. split.
        + apply in_flow_matching. split; [exact Hi|]. split; assumption.
        + cbn [fst]. apply (Hcl s i Hs2). right. split; assumption. }
    lia. }
  (* (CL, CR) covers every server-share edge *)
  assert (Hcover : forall i s, In (i, s) M' -> In i CL \/ In s CR).
  { intros i s Hin. destruct (HM1 i s Hin) as [Hi He].
    assert (Hs : share ns nsh s).
    { destruct (E_cases g ns nsh HN _ _ He) as [[E0 _]|[[_ H]|[H _]]];
        [unfold server in Hi; lia | exact H | unfold server, share in *; lia]. }
    destruct (R i) eqn:Ri.
    - destruct (R s) eqn:Rs.
      + right. apply filter_In. split; [apply in_seq; unfold share in Hs; lia | exact Rs].
      + exfalso.
        assert (Hf : mget f i s = 1%Z).
        { destruct (Z.eq_dec (mget f i s) 1) as [H1|H1]; [exact H1|]. exfalso.
          assert (Hx : R s = true) by (apply (Hcl i s Ri); left; split; assumption).
          rewrite Hx in Rs. discriminate. }
        (* how was i coloured? *)
        unfold R, reached in Ri. destruct i as [|i']; [unfold server in Hi; lia|].
        destruct (nth (S i') tree None) as [u|] eqn:En; [|discriminate].
        destruct (Hd _ _ En) as [Hin' [Ru _]]. apply Hadj in Hin'.
        destruct Hin' as [[Heu Hfu]|[Heu Hfu]].
        * destruct (E_cases g ns nsh HN _ _ Heu) as [[-> _]|[[_ Hsh]|[_ Hsh]]].
          -- apply Hfu. apply (inv_srv _ _ _ _ HI (S i') Hi). exists s. split; assumption.
          -- unfold server, share in *. lia.
          -- unfold server in Hi. lia.
        * assert (u = s) by (apply (inv_out _ _ _ _ HI (S i') u s Hi Heu He Hfu Hf)). subst u.
          fold (R s) in Ru. rewrite Ru in Rs. discriminate.
    - left. apply filter_In. split; [apply in_seq; unfold server in Hi; lia | rewrite Ri; reflexivity]. }
  pose proof (matching_le_cover_nat M' CL CR HM2 HM3 Hcover). lia.
Qed.

End Final.
End Loop.
