(* Termination: the explicit fuel of the model always suffices, so the model of
   servers_of_happiness returns a number on every well-formed servermap. *)
From Coq Require Import List NArith ZArith Bool Arith Lia.
From Verif Require Import Model.Matching Proofs.Matching Proofs.MatchingLists Proofs.MatchingResidual
     Proofs.MatchingBfs Proofs.MatchingPath Proofs.MatchingAugment Proofs.MatchingLoop Proofs.MatchingNetwork Proofs.MatchingFull.
Import ListNotations.

Lemma sum_out_same : forall f f' l, (forall i, In i l -> mget f' 0 i = mget f 0 i) ->
  sum_out f' 0 l = sum_out f 0 l.
Proof.
  intros f f'. induction l as [|a r IH]; intros H; cbn [sum_out]; [reflexivity|].
  rewrite (H a (or_introl eq_refl)), IH; [reflexivity|]. intros i Hi. apply H. right. exact Hi.
Qed.

Lemma sum_out_bump : forall f f' l p, NoDup l -> In p l ->
  mget f' 0 p = (mget f 0 p + 1)%Z ->
  (forall i, In i l -> i <> p -> mget f' 0 i = mget f 0 i) ->
  sum_out f' 0 l = (sum_out f 0 l + 1)%Z.
Proof.
  intros f f'. induction l as [|a r IH]; intros p Hnd Hp Hb Ho; [destruct Hp|].
  inversion Hnd as [|x y Hn Hr]; subst. cbn [sum_out]. destruct Hp as [Hp|Hp].
  - subst a. rewrite Hb, (sum_out_same f f' r); [lia|].
    intros i Hi. apply Ho; [right; exact Hi | intro; subst; contradiction].
  - rewrite (IH p Hr Hp Hb) by (intros i Hi; apply Ho; right; exact Hi).
    rewrite (Ho a (or_introl eq_refl)) by (intro; subst; contradiction). lia.
Qed.

Lemma sum_out_zero : forall dim l, sum_out (zero_matrix dim) 0 l = 0%Z.
Proof. intros dim. induction l as [|a r IH]; cbn [sum_out]; [reflexivity|]. rewrite mget_zero, IH. reflexivity. Qed.

Section Total.
Variables (g : graph) (ns nsh : nat).
Hypothesis HN : Net g ns nsh.

Let t := ns + nsh + 1.
Let dim := ns + nsh + 2.

Lemma apf_total : forall f rg cf, residual_network g f = (rg, cf) -> augmenting_path_for rg <> None.
Proof.
  intros f rg cf Hr. destruct (rg_facts g ns nsh HN _ _ _ Hr) as [HL [Hrange _]].
  assert (Hpos : 0 < ns + nsh + 2) by lia.
  unfold augmenting_path_for.
  destruct (bfs rg 0) as [tree|] eqn:Eb; [|exfalso; apply (bfs_total rg _ HL Hrange Hpos); exact Eb].
  rewrite HL. replace (ns + nsh + 2 - 1) with (S (ns + nsh)) by lia.
  destruct (nth (S (ns + nsh)) tree None) as [[|k]|] eqn:En; try discriminate.
  pose proof (bfs_walk_total rg _ HL Hrange Hpos tree (S (ns + nsh)) [] Eb) as Hw.
  destruct (walk_back (ns + nsh + 2) tree (S (ns + nsh)) []); [discriminate|].
  exfalso. apply Hw; [|reflexivity]. unfold reached. rewrite En. reflexivity.
Qed.

Lemma value_bound : forall f, Inv g ns nsh f -> (sum_out f 0 (seq 1 ns) <= Z.of_nat ns)%Z.
Proof.
  intros f HI. rewrite (value_is_length g ns nsh HN f HI).
  destruct (flow_matching_is_matching g ns nsh HN f HI) as [Hm [Hnd _]].
  apply Nat2Z.inj_le. rewrite <- (map_length fst). rewrite <- (seq_length ns 1) at 2.
  apply NoDup_incl_length; [exact Hnd|].
  intros i Hi. apply in_map_iff in Hi. destruct Hi as [[i' s] [Ei Hin]]. cbn [fst] in Ei. subst i'.
  destruct (Hm i s Hin) as [Hs _]. apply in_seq. unfold server in Hs. lia.
Qed.

Lemma flow_loop_total : forall fuel f rg cf,
  Inv g ns nsh f -> residual_network g f = (rg, cf) ->
  (Z.of_nat ns < sum_out f 0 (seq 1 ns) + Z.of_nat fuel)%Z ->
  flow_loop fuel g f rg cf <> None.
Proof.
  induction fuel as [|fuel IH]; intros f rg cf HI Hr Hm.
  - pose proof (value_bound f HI). lia.
  - cbn [flow_loop]. destruct (augmenting_path_for rg) as [[path|]|] eqn:Ea.
    + destruct (apf_path g ns nsh HN _ _ _ _ Hr Ea) as [HP [Hne Hcf]].
      rewrite (path_delta_one cf path Hne Hcf).
      destruct (residual_network g (augment f 1%Z path)) as [rg1 cf1] eqn:Er1.
      apply (IH _ _ _ (augment_preserves g ns nsh HN f path HI HP) Er1).
      destruct (aug_source_row g ns nsh HN f path HI HP) as [p1 [Hp1 [Hb Ho]]].
      rewrite (sum_out_bump f (augment f 1%Z path) (seq 1 ns) p1).
      * lia.
      * apply seq_NoDup.
      * apply in_seq. unfold server in Hp1. lia.
      * exact Hb.
      * intros i Hi Hne'. apply Ho; [|exact Hne']. apply in_seq in Hi. unfold server. lia.
    + discriminate.
    + exfalso. apply (apf_total _ _ _ Hr). exact Ea.
Qed.

Lemma max_flow_total : max_flow (S ns) g <> None.
Proof.
  unfold max_flow. destruct (residual_network g (zero_matrix (length g))) as [rg cf] eqn:Er.
  apply flow_loop_total with (cf := cf); [| exact Er |].
  - rewrite (net_len _ _ _ HN). apply (inv_zero g ns nsh).
  - rewrite sum_out_zero. lia.
Qed.

End Total.

Theorem soh_servermap_total : forall svm, wf_svm svm -> exists n, soh_servermap svm = Some n.
Proof.
  intros svm Hwf. unfold soh_servermap, soh_state.
  pose proof (max_flow_total _ _ _ (network_is_net svm Hwf)) as H.
  destruct (max_flow (S (length svm)) (fst (flow_network_for svm))) as [[f rg]|]; [|contradiction].
  eexists. reflexivity.
Qed.

Theorem servers_of_happiness_total : forall sm, exists n, servers_of_happiness sm = Some n.
Proof.
  intros sm. unfold servers_of_happiness. destruct sm as [|e r]; [exists 0%Z; reflexivity|].
  apply soh_servermap_total. apply shares_by_server_wf.
Qed.
