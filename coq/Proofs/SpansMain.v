(* C37: the final statements assembled for Props/C37.v. *)
From Coq Require Import List Arith NArith Bool Lia ZifyBool ZifyNat ZifyN.
From Verif Require Import Model.Spans Proofs.SpansBase Proofs.SpansAdd Proofs.SpansRemove Proofs.SpansOps
     Proofs.SpansDataBase Proofs.SpansDataAdd Proofs.SpansDataOps.
Import ListNotations.
Local Open Scope N_scope.

(* ---- the representation invariants, spelled out -------------------------------------- *)
Definition spans_invariant (l : spans) : Prop :=
  (forall sp, In sp l -> 0 < snd sp) /\
  (forall p x y q, l = p ++ x :: y :: q -> fst x + snd x < fst y).

Definition dataspans_invariant (l : dspans) : Prop :=
  (forall sp, In sp l -> snd sp <> []) /\
  (forall p x y q, l = p ++ x :: y :: q -> fst x + nlen (snd x) < fst y).

(* ---- accepted / rejected operations are complementary ----------------------------------- *)
Definition op_okb (op : sop) : bool :=
  match op with
  | OpAdd _ n | OpRemove _ n => 0 <? n
  | OpUnion o | OpDiff o | OpInter o | OpIAdd o | OpISub o => forallb (fun sp => 0 <? snd sp) o
  | OpContains _ _ => true
  end.

Lemma all_pos_b o : forallb (fun sp : span => 0 <? snd sp) o = true <-> all_pos o.
Proof.
  unfold all_pos. rewrite forallb_forall, Forall_forall. split; intros H x Hx; specialize (H x Hx); lia.
Qed.

Lemma has_zero_b o : forallb (fun sp : span => 0 <? snd sp) o = false -> has_zero o.
Proof.
  unfold has_zero. induction o as [|sp o IH]; cbn [forallb]; [discriminate|].
  intro H. destruct (0 <? snd sp) eqn:E.
  - apply Exists_cons_tl. apply IH. exact H.
  - apply Exists_cons_hd. lia.
Qed.

Lemma op_okb_true op : op_okb op = true -> op_ok op.
Proof. destruct op; cbn [op_okb op_ok]; try (intro; lia); apply all_pos_b. Qed.

Lemma op_okb_false op : op_okb op = false -> op_rejected op.
Proof. destruct op; cbn [op_okb op_rejected]; try (intro; lia); apply has_zero_b. Qed.

(* ---- Spans: every history ------------------------------------------------------------------ *)
(* the object after a call, whether it returned or raised AssertionError *)
Definition sp_exec (l : spans) (op : sop) : spans :=
  match sp_step l op with Some l' => l' | None => l end.

Definition set_exec (S : N -> bool) (op : sop) : N -> bool :=
  if op_okb op then set_step S op else S.

Lemma set_exec_ext S S' op : (forall z, S z = S' z) -> forall z, set_exec S op z = set_exec S' op z.
Proof. intros E z. unfold set_exec. destruct (op_okb op); [apply set_step_ext; exact E|apply E]. Qed.

Lemma sp_exec_correct l op : wf l ->
  wf (sp_exec l op) /\ forall z, mem z (sp_exec l op) = set_exec (fun x => mem x l) op z.
Proof.
  intro H. unfold sp_exec, set_exec. destruct (op_okb op) eqn:E.
  - destruct (sp_step_correct l op H (op_okb_true _ E)) as (l' & -> & W & M). split; assumption.
  - rewrite (sp_step_rejected l op (op_okb_false _ E)). split; [exact H|reflexivity].
Qed.

Lemma sp_exec_run ops : forall l S, wf l -> (forall z, mem z l = S z) ->
  wf (fold_left sp_exec ops l) /\
  forall z, mem z (fold_left sp_exec ops l) = fold_left set_exec ops S z.
Proof.
  induction ops as [|op ops IH]; intros l S H E; cbn [fold_left]; [split; assumption|].
  destruct (sp_exec_correct l op H) as [W M]. apply IH; [exact W|].
  intro z. rewrite M. apply set_exec_ext. exact E.
Qed.

Lemma spans_inv_all ops :
  spans_invariant (fold_left sp_exec ops []) /\ spans_check (fold_left sp_exec ops []) = true.
Proof.
  destruct (sp_exec_run ops [] (fun _ => false) wf_nil (fun z => eq_refl)) as [W _].
  split; [apply wf_spelled_out; exact W|apply spans_check_wf; exact W].
Qed.

Lemma spans_inv_run ops l : sp_run ops = Some l -> spans_invariant l.
Proof.
  intro R. apply wf_spelled_out. revert R. unfold sp_run.
  assert (G : forall ops l0, wf l0 ->
            fold_left (fun st op => bind st (fun l => sp_step l op)) ops (Some l0) = Some l -> wf l).
  { clear. induction ops as [|op ops IH]; intros l0 H R; cbn [fold_left bind] in R.
    - injection R as <-. exact H.
    - destruct (op_okb op) eqn:E.
      + destruct (sp_step_correct l0 op H (op_okb_true _ E)) as (l1 & E1 & W1 & _).
        rewrite E1 in R. apply (IH l1 W1 R).
      + rewrite (sp_step_rejected l0 op (op_okb_false _ E)) in R.
        exfalso. clear -R. induction ops as [|o ops IH]; cbn [fold_left bind] in R; [discriminate|auto]. }
  apply (G ops [] wf_nil).
Qed.

Lemma spans_total ops : Forall op_ok ops -> exists l, sp_run ops = Some l.
Proof. intro P. destruct (sp_run_correct ops P) as (l & E & _). eauto. Qed.

Lemma spans_refine_set_ok ops : Forall op_ok ops ->
  exists l, sp_run ops = Some l /\ spans_invariant l /\
    (forall z, mem z l = set_run ops z) /\
    (forall s n, spans_contains s n l = true <->
                 (0 < n /\ forall z, s <= z -> z < s + n -> set_run ops z = true)) /\
    NoDup (spans_each l) /\
    (forall z, In z (spans_each l) <-> set_run ops z = true) /\
    spans_len l = N.of_nat (length (spans_each l)).
Proof.
  intro P. destruct (sp_run_correct ops P) as (l & E & W & M).
  exists l. split; [exact E|]. split; [apply wf_spelled_out; exact W|]. split; [exact M|].
  destruct (spans_len_cardinality l W) as (A & B & C).
  split; [|split; [exact A|split; [|exact C]]].
  - intros s n. rewrite (spans_contains_correct s n l W). split; intros [Hn All]; (split; [exact Hn|]);
      intros z Z1 Z2; [rewrite <- M|rewrite M]; apply All; assumption.
  - intro z. rewrite B, M. reflexivity.
Qed.

Lemma spans_refine_set_all ops :
  let l := fold_left sp_exec ops [] in
  let S := fold_left set_exec ops (fun _ => false) in
  (forall z, mem z l = S z) /\
  (forall s n, spans_contains s n l = true <-> (0 < n /\ forall z, s <= z -> z < s + n -> S z = true)) /\
  NoDup (spans_each l) /\
  (forall z, In z (spans_each l) <-> S z = true) /\
  spans_len l = N.of_nat (length (spans_each l)).
Proof.
  cbn zeta. destruct (sp_exec_run ops [] (fun _ => false) wf_nil (fun z => eq_refl)) as [W M].
  split; [exact M|].
  destruct (spans_len_cardinality _ W) as (A & B & C).
  split; [|split; [exact A|split; [|exact C]]].
  - intros s n. rewrite (spans_contains_correct s n _ W). split; intros [Hn All]; (split; [exact Hn|]);
      intros z Z1 Z2; [rewrite <- M|rewrite M]; apply All; assumption.
  - intro z. rewrite B, M. reflexivity.
Qed.

Lemma spans_rejected_iff l op : wf l -> (sp_step l op = None <-> op_rejected op).
Proof.
  intro H. split; [|apply sp_step_rejected].
  intro E. destruct (op_okb op) eqn:B; [|apply op_okb_false; exact B].
  destruct (sp_step_correct l op H (op_okb_true _ B)) as (l' & E' & _). congruence.
Qed.

Lemma spans_canonical l1 l2 : spans_invariant l1 -> spans_invariant l2 ->
  (forall z, mem z l1 = mem z l2) -> l1 = l2.
Proof. intros H1 H2. apply wf_unique; apply wf_spelled_out; assumption. Qed.

Lemma spans_reachable l : spans_invariant l ->
  sp_run (map (fun sp => OpAdd (fst sp) (snd sp)) l) = Some l.
Proof. intro H. apply wf_reachable. apply wf_spelled_out. exact H. Qed.

(* ---- DataSpans: every history ------------------------------------------------------------------ *)
Lemma dataspans_refine ops :
  exists l, ds_run ops = Some l /\ dataspans_invariant l /\
    (forall z, dget z l = map_run ops z) /\
    (* get *)
    (forall s n bs, 0 < n ->
       (ds_get s n l = Some bs <-> (nlen bs = n /\ forall k, k < n -> map_run ops (s + k) = nget bs k))) /\
    (forall s n, 0 < n ->
       (ds_get s n l = None <-> exists k, k < n /\ map_run ops (s + k) = None)) /\
    (forall s, ds_get s 0 l = if is_some (map_run ops s) then Some [] else None) /\
    (* pop = get, then remove if something was returned *)
    (forall s n, fst (ds_pop s n l) = ds_get s n l /\
                 dataspans_invariant (snd (ds_pop s n l)) /\
                 forall z, dget z (snd (ds_pop s n l)) = map_step (map_run ops) (DPop s n) z) /\
    (* len, get_spans *)
    NoDup (ds_offsets l) /\
    (forall z, In z (ds_offsets l) <-> map_run ops z <> None) /\
    ds_len l = N.of_nat (length (ds_offsets l)) /\
    (exists sp, ds_get_spans l = Some sp /\ spans_invariant sp /\
                forall z, mem z sp = is_some (map_run ops z)).
Proof.
  destruct (ds_run_correct ops) as (l & E & W & M).
  exists l. split; [exact E|]. split; [apply dwf_spelled_out; exact W|]. split; [exact M|].
  split; [|split; [|split; [|split; [|]]]].
  - intros s n bs Hn. rewrite (ds_get_correct s n l W Hn bs).
    split; intros [L A]; (split; [exact L|]); intros k Hk; [rewrite <- M|rewrite M]; apply A; exact Hk.
  - intros s n Hn. rewrite (ds_get_None_iff s n l W Hn).
    split; intros (k & Hk & D); exists k; (split; [exact Hk|]); [rewrite <- M|rewrite M]; exact D.
  - intro s. rewrite (ds_get_zero_length_from s l 0 W), M. reflexivity.
  - intros s n. destruct (ds_pop_correct s n l W) as (P1 & P2 & P3).
    split; [exact P1|]. split; [apply dwf_spelled_out; exact P2|].
    intro z. rewrite P3. cbn [map_step]. rewrite (all_present_ext _ (map_run ops) s n M), M. reflexivity.
  - destruct (ds_len_cardinality l W) as (A & B & C).
    split; [exact A|]. split; [intro z; rewrite B, M; reflexivity|]. split; [exact C|].
    exists (shape l). split; [apply ds_get_spans_shape; exact W|].
    split; [apply wf_spelled_out; apply (proj1 (shape_wf l 0) W)|].
    intro z. rewrite shape_mem, M. reflexivity.
Qed.

Lemma dataspans_later_write_wins ops s d z v :
  in_iv s (nlen d) z = true -> nget d (z - s) = Some v ->
  map_run (ops ++ [DAdd s d]) z = Some v.
Proof.
  intros I G. unfold map_run. rewrite fold_left_app. cbn [fold_left map_step]. rewrite I. exact G.
Qed.
