(* Lease records and share headers over the regenerated struct formats. *)
From Coq Require Import String.
From Coq Require Import List NArith ZArith Bool Lia.
From Verif Require Import Lib.Hex Lib.Decimal Lib.Bytes Lib.SHA256 Lib.HashPrim Gen.Structs Gen.Hashutil Model.LeaseRec Proofs.CodecsBase32.
Import ListNotations.
Local Open Scope N_scope.

(* ---------------------------------------------------------------------- *)
(* layout: every duplicated literal in the five source files agrees        *)

Theorem layout_consistent :
  (* lease record sizes *)
  lease_immutable_size = 72 /\ immutable_LEASE_SIZE = lease_immutable_size /\
  lease_mutable_size = 92 /\ mutable_LEASE_SIZE = lease_mutable_size /\
  (* immutable header: format written = format read, 0xc everywhere *)
  ischema_header_format = immutable_header_read_format /\
  calcsize ischema_header_format = 12 /\
  immutable_header_read_size = 12 /\ immutable_data_offset = 12 /\ immutable_lease_offset_add = 12 /\
  immutable_lease_count_format_default = [FUInt 4] /\
  (* mutable header *)
  mschema_fixed_header_format = mschema_HEADER_FORMAT /\ mutable_header_read_format = mschema_HEADER_FORMAT /\
  mschema_HEADER_SIZE = 100 /\ mutable_HEADER_SIZE = mschema_HEADER_SIZE /\
  mutable_DATA_LENGTH_OFFSET = 84 /\ mutable_EXTRA_LEASE_OFFSET = 92 /\
  mschema_blank_leases_size = 4 * mutable_LEASE_SIZE /\
  mutable_DATA_OFFSET = 468 /\ mschema_EXTRA_LEASE_OFFSET = mutable_DATA_OFFSET /\
  mschema_extra_lease_count_format = [FUInt 4] /\
  forallb (fun b => b) mutable_class_asserts = true /\
  (* field order: what to_*_data packs is what from_*_data names *)
  lease_to_immutable_data_fields = lease_from_immutable_data_fields /\
  lease_to_immutable_data_fields = ["owner_num"; "renew_secret"; "cancel_secret"; "expiration_time"]%string /\
  lease_to_mutable_data_fields = lease_from_mutable_data_fields /\
  lease_to_mutable_data_fields = ["owner_num"; "expiration_time"; "renew_secret"; "cancel_secret"; "nodeid"]%string /\
  immutable_header_read_names = ["version"; "unused"; "num_leases"]%string /\
  mutable_header_read_names = ["magic"; "write_enabler_nodeid"; "write_enabler"; "data_length"; "extra_least_offset"]%string /\
  ischema_versions = [2; 1] /\ mschema_versions = [2; 1].
Proof. repeat split. Qed.

(* ---------------------------------------------------------------------- *)
(* lease records                                                           *)

Theorem lease_immutable_roundtrip l :
  lease_fits_immutable l = true ->
  exists s, lease_to_immutable l = Some s /\ lease_from_immutable s = Some l /\ N.of_nat (length s) = lease_immutable_size.
Proof.
  destruct l as [o r c e nid]. unfold lease_fits_immutable, lease_fits. cbn [l_owner l_renew l_cancel l_expiration l_nodeid].
  rewrite !andb_true_iff. intros [[[[Ho He] Hr] Hc] Hn]. destruct nid; [discriminate|].
  destruct (struct_unpack_pack lease_IMMUTABLE_FORMAT [VInt o; VBytes r; VBytes c; VInt e]) as (s & Hp & Hu).
  { cbn [vals_fit lease_IMMUTABLE_FORMAT fval_fits]. change (256 ^ N.of_nat 4) with (2 ^ 32).
    rewrite Ho, He, Hr, Hc. reflexivity. }
  exists s. unfold lease_to_immutable, lease_from_immutable. cbn [l_owner l_renew l_cancel l_expiration].
  rewrite Hp, Hu. repeat split. rewrite (struct_pack_length _ _ _ Hp). reflexivity.
Qed.

Theorem lease_immutable_converse s l :
  bytes_ok s = true -> lease_from_immutable s = Some l -> lease_to_immutable l = Some s.
Proof.
  intros Hok. unfold lease_from_immutable, struct_unpack.
  destruct (Nat.eqb (length s) (struct_size lease_IMMUTABLE_FORMAT)) eqn:E; [|discriminate].
  apply Nat.eqb_eq in E. cbn [struct_unpack_aux lease_IMMUTABLE_FORMAT unpack_field field_size].
  intro H. injection H as <-. unfold lease_to_immutable. cbn [l_owner l_renew l_cancel l_expiration].
  exact (struct_pack_unpack_aux lease_IMMUTABLE_FORMAT s Hok E).
Qed.

Theorem lease_mutable_roundtrip l :
  lease_fits_mutable l = true ->
  exists s, lease_to_mutable l = Some s /\ lease_from_mutable s = Some l /\ N.of_nat (length s) = lease_mutable_size.
Proof.
  destruct l as [o r c e nid]. unfold lease_fits_mutable, lease_fits. cbn [l_owner l_renew l_cancel l_expiration l_nodeid].
  rewrite !andb_true_iff. intros [[[[Ho He] Hr] Hc] Hn]. destruct nid as [nid|]; [|discriminate].
  destruct (struct_unpack_pack lease_MUTABLE_FORMAT [VInt o; VInt e; VBytes r; VBytes c; VBytes nid]) as (s & Hp & Hu).
  { cbn [vals_fit lease_MUTABLE_FORMAT fval_fits]. change (256 ^ N.of_nat 4) with (2 ^ 32).
    rewrite Ho, He, Hr, Hc, Hn. reflexivity. }
  exists s. unfold lease_to_mutable, lease_from_mutable. cbn [l_owner l_renew l_cancel l_expiration l_nodeid].
  rewrite Hp, Hu, Hn. repeat split. rewrite (struct_pack_length _ _ _ Hp). reflexivity.
Qed.

Theorem lease_mutable_converse s l :
  bytes_ok s = true -> lease_from_mutable s = Some l -> lease_to_mutable l = Some s.
Proof.
  intros Hok. unfold lease_from_mutable, struct_unpack.
  destruct (Nat.eqb (length s) (struct_size lease_MUTABLE_FORMAT)) eqn:E; [|discriminate].
  apply Nat.eqb_eq in E. cbn [struct_unpack_aux lease_MUTABLE_FORMAT unpack_field field_size].
  destruct (Nat.eqb _ 20); [|discriminate].
  intro H. injection H as <-. unfold lease_to_mutable. cbn [l_owner l_renew l_cancel l_expiration l_nodeid].
  exact (struct_pack_unpack_aux lease_MUTABLE_FORMAT s Hok E).
Qed.

(* a secret of the wrong length does not survive: the "s" fields pad and truncate *)
Theorem lease_short_secret_not_preserved :
  exists l s, lease_to_immutable l = Some s /\ lease_from_immutable s <> Some l.
Proof.
  exists (mk_lease 1 [7] (repeat 0 32) 5 None). eexists. split; [vm_compute; reflexivity|vm_compute; discriminate].
Qed.

(* ---------------------------------------------------------------------- *)
(* immutable container header                                              *)

Theorem imm_header_roundtrip version max_size :
  mem_N version ischema_versions = true ->
  exists s, imm_header version max_size = Some s /\
            imm_header_parse s = Some (version, N.min (2 ^ 32 - 1) max_size, 0) /\
            N.of_nat (length s) = immutable_data_offset.
Proof.
  intro Hv.
  assert (Hlt : version < 2 ^ 32).
  { cbn [mem_N ischema_versions] in Hv. rewrite !orb_true_iff, !N.eqb_eq in Hv. destruct Hv as [<-|[<-|H]]; [reflexivity|reflexivity|discriminate]. }
  destruct (struct_unpack_pack ischema_header_format (ischema_header_values version max_size)) as (s & Hp & Hu).
  { cbn [vals_fit ischema_header_format ischema_header_values fval_fits]. change (256 ^ N.of_nat 4) with (2 ^ 32).
    apply N.ltb_lt in Hlt. rewrite Hlt. cbn [andb].
    assert (Hm : N.min (2 ^ 32 - 1) max_size <? 2 ^ 32 = true) by (apply N.ltb_lt; lia).
    rewrite Hm. reflexivity. }
  exists s. unfold imm_header, imm_header_parse. split; [exact Hp|]. split.
  - change immutable_header_read_format with ischema_header_format. rewrite Hu.
    cbn [ischema_header_values]. rewrite Hv. reflexivity.
  - rewrite (struct_pack_length _ _ _ Hp). reflexivity.
Qed.

Theorem imm_header_converse s v u n :
  bytes_ok s = true -> imm_header_parse s = Some (v, u, n) ->
  struct_pack ischema_header_format [VInt v; VInt u; VInt n] = Some s /\ mem_N v ischema_versions = true.
Proof.
  intros Hok. unfold imm_header_parse, struct_unpack.
  destruct (Nat.eqb (length s) (struct_size immutable_header_read_format)) eqn:E; [|discriminate].
  apply Nat.eqb_eq in E. cbn [struct_unpack_aux immutable_header_read_format unpack_field field_size].
  destruct (mem_N _ ischema_versions) eqn:Hm; [|discriminate].
  intro H. injection H as <- <- <-. split; [|exact Hm].
  exact (struct_pack_unpack_aux immutable_header_read_format s Hok E).
Qed.

(* the header written by the current code, read back: saturation is visible only from 2^32 on *)
Corollary imm_header_small version max_size :
  mem_N version ischema_versions = true -> max_size < 2 ^ 32 ->
  exists s, imm_header version max_size = Some s /\ imm_header_parse s = Some (version, max_size, 0).
Proof.
  intros Hv Hm. destruct (imm_header_roundtrip version max_size Hv) as (s & H1 & H2 & _).
  exists s. split; [exact H1|]. rewrite H2. f_equal. f_equal. f_equal. lia.
Qed.

(* ---------------------------------------------------------------------- *)
(* mutable container header                                                *)

Lemma mut_magic_facts :
  length (mut_magic 1) = 32%nat /\ length (mut_magic 2) = 32%nat /\
  list_N_eqb (mut_magic 1) (mut_magic 2) = false /\
  bytes_ok (mut_magic 1) = true /\ bytes_ok (mut_magic 2) = true.
Proof. vm_compute. repeat split. Qed.

Lemma prefix_eqb_firstn : forall p l, prefix_eqb p l = true -> firstn (length p) l = p.
Proof.
  induction p as [|x p IH]; intros [|y l] H; cbn in *; try reflexivity; try discriminate.
  apply andb_true_iff in H. destruct H as [Hx H]. apply N.eqb_eq in Hx. subst. f_equal. apply IH. exact H.
Qed.

Lemma prefix_eqb_app p r : prefix_eqb p (p ++ r) = true.
Proof. induction p as [|x p IH]; cbn; [reflexivity|]. rewrite N.eqb_refl. exact IH. Qed.

Lemma mut_versions_cases v : mem_N v mschema_versions = true -> v = 1 \/ v = 2.
Proof. cbn [mem_N mschema_versions]. rewrite !orb_true_iff, !N.eqb_eq. intros [<-|[<-|H]]; [right|left|discriminate]; reflexivity. Qed.

Lemma mut_magic_len v : mem_N v mschema_versions = true -> length (mut_magic v) = 32%nat.
Proof. intro H. destruct mut_magic_facts as (H1 & H2 & _). destruct (mut_versions_cases v H) as [->| ->]; assumption. Qed.

Lemma mut_schema_of_magic v r :
  mem_N v mschema_versions = true -> mut_schema_from_header mschema_versions (mut_magic v ++ r) = Some v.
Proof.
  intro H. destruct (mut_versions_cases v H) as [->| ->].
  - change mschema_versions with [2; 1]. cbn [mut_schema_from_header].
    assert (E : prefix_eqb (mut_magic 2) (mut_magic 1 ++ r) = false).
    { remember (mut_magic 2) as m2. remember (mut_magic 1) as m1.
      assert (Hm2 : m2 = mut_magic 2) by assumption. assert (Hm1 : m1 = mut_magic 1) by assumption.
      vm_compute in Hm1, Hm2. subst m1 m2. reflexivity. }
    rewrite E, prefix_eqb_app. reflexivity.
  - change mschema_versions with [2; 1]. cbn [mut_schema_from_header]. rewrite prefix_eqb_app. reflexivity.
Qed.

Lemma mut_fixed_explicit v nid we :
  length (mut_magic v) = 32%nat -> length nid = 20%nat -> length we = 32%nat ->
  struct_pack mschema_fixed_header_format
    (mschema_fixed_header_values (mut_magic v) mschema_EXTRA_LEASE_OFFSET nid we) =
  Some (mut_magic v ++ nid ++ we ++ be_digits 256 8 0 ++ be_digits 256 8 mschema_EXTRA_LEASE_OFFSET ++ []).
Proof.
  intros Hm Hn Hw.
  cbn [struct_pack mschema_fixed_header_format mschema_fixed_header_values pack_field].
  rewrite !pad_to_exact by assumption. reflexivity.
Qed.

Theorem mut_header_roundtrip v nid we :
  mem_N v mschema_versions = true -> length nid = 20%nat -> length we = 32%nat ->
  exists s, mut_header v nid we = Some s /\
            mut_header_parse (firstn (N.to_nat mutable_HEADER_SIZE) s) =
              Some (mk_mut_hdr v nid we 0 mutable_DATA_OFFSET) /\
            mut_read_data_length s = 0 /\
            mut_read_extra_lease_offset s = mutable_DATA_OFFSET /\
            N.of_nat (length s) = mutable_DATA_OFFSET + 4.
Proof.
  intros Hv Hn Hw. pose proof (mut_magic_len v Hv) as Hm.
  set (A := be_digits 256 8 0). set (B := be_digits 256 8 mschema_EXTRA_LEASE_OFFSET).
  set (rest := repeat 0 (N.to_nat mschema_blank_leases_size) ++ be_digits 256 4 0 ++ []).
  exists ((mut_magic v ++ nid ++ we ++ A ++ B ++ []) ++ rest).
  assert (HA : length A = 8%nat) by apply be_digits_length.
  assert (HB : length B = 8%nat) by apply be_digits_length.
  split.
  { unfold mut_header. rewrite mut_fixed_explicit by assumption. reflexivity. }
  assert (Hfix : length (mut_magic v ++ nid ++ we ++ A ++ B ++ []) = 100%nat).
  { rewrite !app_length, Hm, Hn, Hw, HA, HB. reflexivity. }
  split.
  { change (N.to_nat mutable_HEADER_SIZE) with 100%nat.
    rewrite firstn_app_exact by exact Hfix.
    unfold mut_header_parse. rewrite mut_schema_of_magic by exact Hv.
    unfold struct_unpack. rewrite Hfix. change (Nat.eqb 100 (struct_size mutable_header_read_format)) with true. cbv iota.
    cbn [struct_unpack_aux mutable_header_read_format unpack_field field_size].
    rewrite (skipn_app_exact (mut_magic v)) by exact Hm.
    rewrite (firstn_app_exact nid), (skipn_app_exact nid) by exact Hn.
    rewrite (firstn_app_exact we), (skipn_app_exact we) by exact Hw.
    rewrite (firstn_app_exact A), (skipn_app_exact A) by exact HA.
    rewrite (firstn_app_exact B) by exact HB. reflexivity. }
  assert (Hskip84 : skipn 84 ((mut_magic v ++ nid ++ we ++ A ++ B ++ []) ++ rest) = A ++ B ++ [] ++ rest).
  { rewrite <- !app_assoc.
    rewrite (app_assoc (mut_magic v)), (app_assoc (mut_magic v ++ nid)).
    rewrite skipn_app_exact; [reflexivity|]. rewrite !app_length, Hm, Hn, Hw. reflexivity. }
  split.
  { unfold mut_read_data_length, read_field_at. change (N.to_nat mutable_DATA_LENGTH_OFFSET) with 84%nat.
    rewrite Hskip84, firstn_app_exact by exact HA. reflexivity. }
  split.
  { unfold mut_read_extra_lease_offset, read_field_at. change (N.to_nat mutable_EXTRA_LEASE_OFFSET) with (84 + 8)%nat.
    rewrite <- (skipn_add 84 8), Hskip84, skipn_app_exact by exact HA.
    rewrite firstn_app_exact by exact HB. reflexivity. }
  rewrite app_length, Hfix. unfold rest. rewrite !app_length, repeat_length, be_digits_length. reflexivity.
Qed.

Lemma mut_schema_from_header_some : forall vs data v,
  mut_schema_from_header vs data = Some v -> prefix_eqb (mut_magic v) data = true /\ mem_N v vs = true.
Proof.
  induction vs as [|x vs IH]; intros data v H; cbn [mut_schema_from_header] in H; [discriminate|].
  destruct (prefix_eqb (mut_magic x) data) eqn:E.
  - injection H as <-. split; [exact E|]. cbn [mem_N]. rewrite N.eqb_refl. reflexivity.
  - destruct (IH data v H) as [H1 H2]. split; [exact H1|]. cbn [mem_N]. rewrite H2. apply orb_true_r.
Qed.

Theorem mut_header_converse data h :
  bytes_ok data = true -> mut_header_parse data = Some h ->
  struct_pack mutable_header_read_format
    [VBytes (mut_magic (mh_version h)); VBytes (mh_nodeid h); VBytes (mh_write_enabler h);
     VInt (mh_data_length h); VInt (mh_extra_lease_offset h)] = Some data
  /\ mem_N (mh_version h) mschema_versions = true.
Proof.
  intros Hok. unfold mut_header_parse.
  destruct (mut_schema_from_header mschema_versions data) as [v|] eqn:S; [|discriminate].
  apply mut_schema_from_header_some in S. destruct S as [Hp Hv].
  unfold struct_unpack.
  destruct (Nat.eqb (length data) (struct_size mutable_header_read_format)) eqn:E; [|discriminate].
  apply Nat.eqb_eq in E. cbn [struct_unpack_aux mutable_header_read_format unpack_field field_size].
  intro H. injection H as <-. cbn [mh_version mh_nodeid mh_write_enabler mh_data_length mh_extra_lease_offset].
  split; [|exact Hv].
  assert (Hf : firstn 32 data = mut_magic v).
  { rewrite <- (mut_magic_len v Hv). apply prefix_eqb_firstn. exact Hp. }
  rewrite <- Hf. exact (struct_pack_unpack_aux mutable_header_read_format data Hok E).
Qed.

(* the pins: the hand-written parts of the model were written for these versions of the functions *)
Theorem struct_pins_current :
  pin_lease_from_immutable_data = "e9ae48618a9d800d"%string /\
  pin_lease_from_mutable_data = "68175935751c1a03"%string /\
  pin_lease_validate_nodeid = "36d777967419dc15"%string /\
  pin_immutable_fix_lease_count_format = "f3d1be21d7c49231"%string /\
  pin_immutable_is_valid_header = "9e8311c9eed55552"%string /\
  pin_ischema_schema_from_version = "551f8c5d14275ae7"%string /\
  pin_mschema_magic = "d48468924ce0cc74"%string /\
  pin_mschema_magic_matches = "840b98b15c285b5f"%string /\
  pin_mschema_schema_from_header = "81e6048eb6d5da4e"%string.
Proof. repeat split. Qed.

(* ---------------------------------------------------------------------- *)
(* header recognition: exactly the data that start with a complete magic   *)

Lemma prefix_eqb_split : forall p l, prefix_eqb p l = true -> exists r, l = p ++ r.
Proof.
  induction p as [|x p IH]; intros l H.
  - exists l. reflexivity.
  - destruct l as [|y l]; [discriminate|]. cbn [prefix_eqb] in H.
    apply andb_true_iff in H. destruct H as [Hx H]. apply N.eqb_eq in Hx. subst y.
    destruct (IH l H) as [r ->]. exists r. reflexivity.
Qed.

Theorem mut_header_recognition :
  (forall v r, mem_N v mschema_versions = true ->
     mut_schema_from_header mschema_versions (mut_magic v ++ r) = Some v) /\
  (forall data v, mut_schema_from_header mschema_versions data = Some v ->
     mem_N v mschema_versions = true /\ exists r, data = mut_magic v ++ r) /\
  (forall data, (length data < 32)%nat -> mut_schema_from_header mschema_versions data = None).
Proof.
  split; [exact mut_schema_of_magic|]. split.
  - intros data v H. apply mut_schema_from_header_some in H. destruct H as [Hp Hv].
    split; [exact Hv|]. apply prefix_eqb_split. exact Hp.
  - intros data Hlen. destruct (mut_schema_from_header mschema_versions data) as [v|] eqn:E; [|reflexivity].
    apply mut_schema_from_header_some in E. destruct E as [Hp Hv].
    apply prefix_eqb_split in Hp. destruct Hp as [r ->].
    rewrite app_length, (mut_magic_len v Hv) in Hlen. lia.
Qed.
