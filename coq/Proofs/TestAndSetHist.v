(* C12: what happens to a write that WAS applied.  For every interleaving in which a publish
   surveys once: a cell that writer j's write was applied to either still holds j's version, or
   was overwritten by a writer whose own survey had seen j's version there -- an informed
   successor, never a writer that did not know about j. *)
From Coq Require Import List NArith Bool Lia Arith.
From Verif Require Import Model.TestAndSet Proofs.TestAndSet Proofs.TestAndSetTrace.
Import ListNotations.
Local Open Scope N_scope.

Definition informed_successor (s : sys) (j i : nat) : Prop :=
  exists o wo snap, o <> j /\ nth_error (ws s) o = Some wo /\ In i (acked wo) /\
                    snapshot wo = Some snap /\ nth_error snap i = Some (new_version j).

Definition HInv (s : sys) : Prop :=
  forall j w i, nth_error (ws s) j = Some w -> In i (acked w) ->
    nth_error (cells s) i = Some (new_version j) \/ informed_successor s j i.

Lemma hinv_init ncells n : HInv (init ncells n).
Proof.
  intros j w i Hw Hin. cbn in Hw. apply nth_error_In, repeat_spec in Hw. subst w. destruct Hin.
Qed.

(* a witness survives a step that leaves its writer's snapshot alone and only extends acked lists *)
Lemma hinv_survey s j0 : HInv s -> survey_ok s (Survey j0) -> HInv (step s (Survey j0)).
Proof.
  intros HI Hok. cbn [step]. destruct (nth_error (ws s) j0) as [w0|] eqn:E; [|exact HI].
  cbn [survey_ok] in Hok. specialize (Hok w0 E).
  intros j w i Hw Hin. cbn [ws cells] in *.
  destruct (ws_lookup_after _ _ _ _ _ _ E Hw) as [[-> ->]|[Hne Hold]].
  - cbn [acked] in Hin.
    destruct (HI j0 w0 i E Hin) as [L|[o [wo [snap [Ho [Hwo [Ha [Hs Hn]]]]]]]]; [left; exact L|right].
    exists o, wo, snap. repeat split; auto. cbn [ws]. rewrite nth_error_set_nth_other by congruence. exact Hwo.
  - destruct (HI j w i Hold Hin) as [L|[o [wo [snap [Ho [Hwo [Ha [Hs Hn]]]]]]]]; [left; exact L|right].
    assert (o <> j0) by (intro X; subst o; rewrite E in Hwo; inversion Hwo; subst; congruence).
    exists o, wo, snap. repeat split; auto. cbn [ws]. rewrite nth_error_set_nth_other by congruence. exact Hwo.
Qed.

Lemma hinv_write s j0 i0 : HInv s -> HInv (step s (Write j0 i0)).
Proof.
  intros HI. cbn [step].
  destruct (nth_error (ws s) j0) as [w0|] eqn:E; [|exact HI].
  destruct (snapshot w0) as [snap0|] eqn:Es; [|exact HI].
  destruct (nth_error (cells s) i0) as [cur|] eqn:Ec; [|exact HI].
  destruct (nth_error snap0 i0) as [seen|] eqn:En; [|exact HI].
  assert (Hj0 : (j0 < length (ws s))%nat) by (apply nth_error_Some; congruence).
  destruct (cur =? seen) eqn:Eq.
  - (* applied *)
    apply N.eqb_eq in Eq. subst seen.
    assert (Hi0 : (i0 < length (cells s))%nat) by (apply nth_error_Some; congruence).
    intros j w i Hw Hin. cbn [ws cells] in *.
    (* a witness in the old state is a witness in the new one *)
    assert (Keep : informed_successor s j i ->
                   informed_successor {| cells := set_nth i0 (new_version j0) (cells s);
                                         ws := set_nth j0 {| snapshot := Some snap0; w_surprised := w_surprised w0; acked := i0 :: acked w0 |} (ws s) |} j i).
    { intros [o [wo [snap [Ho [Hwo [Ha [Hs Hn]]]]]]]. destruct (Nat.eq_dec o j0) as [->|Hne].
      - rewrite E in Hwo. inversion Hwo; subst wo. exists j0. eexists. exists snap. cbn [ws].
        rewrite nth_error_set_nth_same by exact Hj0.
        split; [exact Ho|]. split; [reflexivity|]. split; [cbn; right; exact Ha|]. split; [cbn [snapshot]; congruence|exact Hn].
      - exists o, wo, snap. cbn [ws]. rewrite nth_error_set_nth_other by congruence. repeat split; auto. }
    destruct (ws_lookup_after _ _ _ _ _ _ E Hw) as [[-> ->]|[Hne Hold]].
    + (* the writer itself *)
      cbn [acked] in Hin. destruct (Nat.eq_dec i i0) as [->|Hi].
      * left. apply nth_error_set_nth_same, Hi0.
      * destruct Hin as [X|Hin]; [congruence|].
        destruct (HI j0 w0 i E Hin) as [L|R]; [left; rewrite nth_error_set_nth_other by congruence; exact L|right; apply Keep, R].
    + (* another writer j whose cell i may just have been overwritten by j0 *)
      destruct (HI j w i Hold Hin) as [L|R]; [|right; apply Keep, R].
      destruct (Nat.eq_dec i i0) as [->|Hi].
      * (* j0 overwrote j's version, which is exactly what j0 had seen *)
        right. rewrite Ec in L. inversion L; subst cur.
        exists j0. eexists. exists snap0. cbn [ws]. rewrite nth_error_set_nth_same by exact Hj0.
        split; [congruence|]. split; [reflexivity|]. split; [cbn; left; reflexivity|]. split; [reflexivity|exact En].
      * left. rewrite nth_error_set_nth_other by congruence. exact L.
  - (* refused: only the surprised flag of j0 changes *)
    intros j w i Hw Hin. cbn [ws cells] in *.
    assert (Keep : informed_successor s j i ->
                   informed_successor {| cells := cells s;
                                         ws := set_nth j0 {| snapshot := Some snap0; w_surprised := true; acked := acked w0 |} (ws s) |} j i).
    { intros [o [wo [snap [Ho [Hwo [Ha [Hs Hn]]]]]]]. destruct (Nat.eq_dec o j0) as [->|Hne].
      - rewrite E in Hwo. inversion Hwo; subst wo. exists j0. eexists. exists snap. cbn [ws].
        rewrite nth_error_set_nth_same by exact Hj0.
        split; [exact Ho|]. split; [reflexivity|]. split; [cbn; exact Ha|]. split; [cbn [snapshot]; congruence|exact Hn].
      - exists o, wo, snap. cbn [ws]. rewrite nth_error_set_nth_other by congruence. repeat split; auto. }
    destruct (ws_lookup_after _ _ _ _ _ _ E Hw) as [[-> ->]|[Hne Hold]].
    + cbn [acked] in Hin. destruct (HI j0 w0 i E Hin) as [L|R]; [left; exact L|right; apply Keep, R].
    + destruct (HI j w i Hold Hin) as [L|R]; [left; exact L|right; apply Keep, R].
Qed.

Lemma hinv_fold evs : forall s, HInv s -> single_survey_from s evs -> HInv (fold_left step evs s).
Proof.
  induction evs as [|e r IH]; intros s HI Hss; [exact HI|]. cbn [fold_left]. destruct Hss as [Hok Hrest].
  apply IH; [|exact Hrest]. destruct e as [j|j i]; [apply hinv_survey; assumption|apply hinv_write; assumption].
Qed.

Lemma applied_write_survives_or_informed_successor_ok ncells n evs j w i :
  single_survey ncells n evs ->
  nth_error (ws (run ncells n evs)) j = Some w -> In i (acked w) ->
  nth_error (cells (run ncells n evs)) i = Some (new_version j) \/ informed_successor (run ncells n evs) j i.
Proof.
  intros Hss Hw Hin. exact (hinv_fold evs _ (hinv_init ncells n) Hss j w i Hw Hin).
Qed.
