(* Basic facts for Model/HashTree.v: Python list indexing, int sets, complete
   binary tree arithmetic. *)
From Coq Require Import List ZArith Bool Lia.
From Verif Require Import Model.HashTree.
Import ListNotations.
Local Open Scope Z_scope.

Lemma Some_inj : forall A (a b : A), Some a = Some b -> a = b.
Proof. intros A a b Hab. congruence. Qed.

(* ---- slots ------------------------------------------------------------- *)
Definition slot {A} (T : list (option A)) (j : Z) : option A := nth (Z.to_nat j) T None.

Definition normz (n i : Z) : Z := if 0 <=? i then i else i + n.
Definition validz (n i : Z) : Prop := - n <= i < n.

Lemma pyidx_valid : forall n i, validz n i -> pyidx n i = Some (Z.to_nat (normz n i)).
Proof.
  intros n i Hv. unfold validz in Hv. unfold pyidx, normz.
  destruct (0 <=? i) eqn:E0.
  - apply Z.leb_le in E0. assert (i <? n = true) as -> by (apply Z.ltb_lt; lia). reflexivity.
  - apply Z.leb_gt in E0. cbn [andb].
    assert (i <? 0 = true) as -> by (apply Z.ltb_lt; lia).
    assert (- n <=? i = true) as -> by (apply Z.leb_le; lia). reflexivity.
Qed.

Lemma pyidx_invalid : forall n i, ~ validz n i -> pyidx n i = None.
Proof.
  intros n i Hv. unfold validz in Hv. unfold pyidx.
  destruct (0 <=? i) eqn:E0; destruct (i <? n) eqn:E1; cbn [andb];
    destruct (i <? 0) eqn:E2; destruct (- n <=? i) eqn:E3; cbn [andb]; try reflexivity;
    repeat match goal with
           | H : (_ <=? _) = true |- _ => apply Z.leb_le in H
           | H : (_ <=? _) = false |- _ => apply Z.leb_gt in H
           | H : (_ <? _) = true |- _ => apply Z.ltb_lt in H
           | H : (_ <? _) = false |- _ => apply Z.ltb_ge in H
           end; lia.
Qed.

Lemma pyidx_some_valid : forall n i k, pyidx n i = Some k -> validz n i /\ k = Z.to_nat (normz n i).
Proof.
  intros n i k Hk.
  assert (Hd : validz n i \/ ~ validz n i) by (unfold validz; lia).
  destruct Hd as [Hv|Hv].
  - rewrite (pyidx_valid _ _ Hv) in Hk. inversion Hk. auto.
  - rewrite (pyidx_invalid _ _ Hv) in Hk. discriminate.
Qed.

Lemma normz_range : forall n i, validz n i -> 0 <= normz n i < n.
Proof. intros n i Hv. unfold validz in Hv. unfold normz. destruct (0 <=? i) eqn:E; [apply Z.leb_le in E|apply Z.leb_gt in E]; lia. Qed.

Lemma normz_nonneg : forall n i, 0 <= i -> normz n i = i.
Proof. intros n i Hi. unfold normz. apply Z.leb_le in Hi. rewrite Hi. reflexivity. Qed.

Lemma nth_error_nth_lt : forall A (l : list A) k d, (k < length l)%nat -> nth_error l k = Some (nth k l d).
Proof. intros A l k d Hk. apply nth_error_nth'. exact Hk. Qed.

Lemma get_valid : forall A (T : list (option A)) i,
  validz (zlen T) i -> get T i = Some (slot T (normz (zlen T) i)).
Proof.
  intros A T i Hv. unfold get. rewrite (pyidx_valid _ _ Hv). unfold slot.
  apply nth_error_nth_lt. pose proof (normz_range _ _ Hv) as Hr. unfold zlen in *. lia.
Qed.

Lemma get_invalid : forall A (T : list A) i, ~ validz (zlen T) i -> get T i = None.
Proof. intros A T i Hv. unfold get. rewrite (pyidx_invalid _ _ Hv). reflexivity. Qed.

Lemma get_some_valid : forall A (T : list A) i v, get T i = Some v -> validz (zlen T) i.
Proof.
  intros A T i v Hg. assert (Hd : validz (zlen T) i \/ ~ validz (zlen T) i) by (unfold validz; lia).
  destruct Hd as [Hv|Hv]; [exact Hv|]. rewrite (get_invalid _ _ _ Hv) in Hg. discriminate.
Qed.

Lemma get_lists_valid : forall A (T : list A) i d,
  validz (zlen T) i -> get T i = Some (nth (Z.to_nat (normz (zlen T) i)) T d).
Proof.
  intros A T i d Hv. unfold get. rewrite (pyidx_valid _ _ Hv).
  apply nth_error_nth_lt. pose proof (normz_range _ _ Hv) as Hr. unfold zlen in *. lia.
Qed.

Lemma put_valid : forall A (T : list A) i v,
  validz (zlen T) i -> put T i v = Some (upd T (Z.to_nat (normz (zlen T) i)) v).
Proof. intros A T i v Hv. unfold put. rewrite (pyidx_valid _ _ Hv). reflexivity. Qed.

Lemma put_some_valid : forall A (T : list A) i v T', put T i v = Some T' ->
  validz (zlen T) i /\ T' = upd T (Z.to_nat (normz (zlen T) i)) v.
Proof.
  intros A T i v T' Hp. unfold put in Hp. destruct (pyidx (zlen T) i) eqn:E; [|discriminate].
  apply pyidx_some_valid in E. destruct E as [Hv ->]. inversion Hp. auto.
Qed.

Lemma upd_length : forall A (l : list A) k v, length (upd l k v) = length l.
Proof. induction l as [|x r IH]; intros [|k] v; cbn [upd length]; auto. Qed.

Lemma nth_upd : forall A (l : list A) k v j d,
  nth j (upd l k v) d = if (Nat.eqb j k && Nat.ltb k (length l))%bool then v else nth j l d.
Proof.
  induction l as [|x r IH]; intros k v j d.
  - cbn [upd length]. destruct j; rewrite andb_comm; reflexivity.
  - destruct k as [|k]; destruct j as [|j]; cbn [upd nth length]; try reflexivity.
    + rewrite IH. cbn [Nat.eqb]. replace (Nat.ltb (S k) (S (length r))) with (Nat.ltb k (length r)); [reflexivity|].
      destruct (Nat.ltb k (length r)) eqn:E; symmetry; [apply Nat.ltb_lt in E; apply Nat.ltb_lt|apply Nat.ltb_ge in E; apply Nat.ltb_ge]; lia.
Qed.

Lemma zlen_upd : forall A (l : list A) k v, zlen (upd l k v) = zlen l.
Proof. intros. unfold zlen. rewrite upd_length. reflexivity. Qed.

Lemma slot_upd : forall A (T : list (option A)) a v b,
  0 <= a < zlen T -> 0 <= b ->
  slot (upd T (Z.to_nat a) v) b = if a =? b then v else slot T b.
Proof.
  intros A T a v b Ha Hb. unfold slot. rewrite nth_upd.
  assert (Hlt : Nat.ltb (Z.to_nat a) (length T) = true) by (apply Nat.ltb_lt; unfold zlen in Ha; lia).
  rewrite Hlt, andb_true_r.
  destruct (a =? b) eqn:E.
  - apply Z.eqb_eq in E. subst. rewrite Nat.eqb_refl. reflexivity.
  - apply Z.eqb_neq in E. assert (Nat.eqb (Z.to_nat b) (Z.to_nat a) = false) as -> by (apply Nat.eqb_neq; lia). reflexivity.
Qed.

Lemma slot_out : forall A (T : list (option A)) j, zlen T <= j -> slot T j = None.
Proof. intros A T j Hj. unfold slot. apply nth_overflow. unfold zlen in Hj. lia. Qed.

Lemma slot_some_lt : forall A (T : list (option A)) j h, 0 <= j -> slot T j = Some h -> j < zlen T.
Proof.
  intros A T j h Hj Hs. destruct (Z_lt_le_dec j (zlen T)) as [Hl|Hl]; [exact Hl|].
  rewrite slot_out in Hs by exact Hl. discriminate.
Qed.

Lemma nth_ext_eq : forall A (l1 l2 : list A) d,
  length l1 = length l2 -> (forall k, (k < length l1)%nat -> nth k l1 d = nth k l2 d) -> l1 = l2.
Proof.
  induction l1 as [|x r IH]; intros [|y s] d Hlen Hn; cbn [length] in *; try discriminate; auto.
  f_equal.
  - apply (Hn 0%nat). lia.
  - apply (IH s d); [lia|]. intros k Hk. apply (Hn (S k)). lia.
Qed.

Lemma slot_ext_eq : forall A (T1 T2 : list (option A)),
  length T1 = length T2 -> (forall j, 0 <= j < zlen T1 -> slot T1 j = slot T2 j) -> T1 = T2.
Proof.
  intros A T1 T2 Hlen Hs. apply (nth_ext_eq _ _ _ None Hlen).
  intros k Hk. specialize (Hs (Z.of_nat k)). unfold slot in Hs. rewrite Nat2Z.id in Hs.
  apply Hs. unfold zlen. lia.
Qed.

(* ---- int sets -------------------------------------------------------------- *)
Lemma zmem_in : forall x s, zmem x s = true <-> In x s.
Proof.
  induction s as [|y r IH]; cbn [zmem In]; [split; [discriminate|tauto]|].
  destruct (x =? y) eqn:E.
  - apply Z.eqb_eq in E. subst. tauto.
  - apply Z.eqb_neq in E. rewrite IH. split; [auto|intros [->|]; [congruence|auto]].
Qed.

Lemma in_zadd : forall x y s, In y (zadd x s) <-> y = x \/ In y s.
Proof.
  intros x y s. unfold zadd. destruct (zmem x s) eqn:E.
  - apply zmem_in in E. split; [auto|intros [->|]; auto].
  - rewrite in_app_iff. cbn [In]. split; [intros [|[|[]]]; auto|intros [|]; auto].
Qed.

Lemma in_zdiscard : forall x y s, In y (zdiscard x s) <-> y <> x /\ In y s.
Proof.
  induction s as [|z r IH]; cbn [zdiscard In]; [tauto|].
  destruct (x =? z) eqn:E.
  - apply Z.eqb_eq in E. subst z. rewrite IH. split; [tauto|]. intros [Hn [->|Hi]]; [congruence|auto].
  - apply Z.eqb_neq in E. cbn [In]. rewrite IH. split.
    + intros [->|[Hn Hi]]; [split; [congruence|auto]|auto].
    + intros [Hn [->|Hi]]; auto.
Qed.

Lemma zdiscard_length : forall x s, (length (zdiscard x s) <= length s)%nat.
Proof. induction s as [|z r IH]; cbn [zdiscard length]; [lia|]. destruct (x =? z); cbn [length]; lia. Qed.

Lemma zdiscard_length_in : forall x s, In x s -> (length (zdiscard x s) < length s)%nat.
Proof.
  induction s as [|z r IH]; cbn [zdiscard length In]; [tauto|].
  intros [->|Hi].
  - rewrite Z.eqb_refl. pose proof (zdiscard_length x r). lia.
  - destruct (x =? z); cbn [length]; [pose proof (zdiscard_length x r); lia|specialize (IH Hi); lia].
Qed.

Lemma zpop_spec : forall ord s i s' ord',
  zpop ord s = Some (i, s', ord') ->
  In i s /\ (forall y, In y s' -> In y s) /\ (forall y, In y s -> y = i \/ In y s') /\ (length s' < length s)%nat.
Proof.
  intros ord s i s' ord' Hp. unfold zpop in Hp. destruct s as [|x r]; [discriminate|].
  assert (Hhead : forall o, Some (x, r, o) = Some (i, s', ord') ->
            In i (x :: r) /\ (forall y, In y s' -> In y (x :: r)) /\ (forall y, In y (x :: r) -> y = i \/ In y s') /\ (length s' < length (x :: r))%nat).
  { intros o Ho. inversion Ho; subst. cbn [In length]. repeat split; auto. intros y [->|]; auto. }
  destruct ord as [|c ord0]; [apply (Hhead _ Hp)|].
  destruct (zmem c (x :: r)) eqn:E; [|apply (Hhead _ Hp)].
  apply zmem_in in E.
  assert (Heq : i = c /\ s' = zdiscard c (x :: r)) by (inversion Hp; auto).
  destruct Heq as [-> ->]. repeat split.
  - exact E.
  - intros y Hy. apply in_zdiscard in Hy. tauto.
  - intros y Hy. destruct (Z.eq_dec y c); [auto|right; apply in_zdiscard; auto].
  - apply zdiscard_length_in. exact E.
Qed.

Lemma zpop_none : forall ord s, zpop ord s = None -> s = [].
Proof. intros ord s Hp. destruct s; [reflexivity|]. unfold zpop in Hp. destruct ord; [discriminate|]. destruct (zmem z0 (z :: s)); discriminate. Qed.

(* ---- tree arithmetic ------------------------------------------------------- *)
(* the sibling of a non-root node *)
Definition sibz (i : Z) : Z := if Z.odd i then i + 1 else i - 1.
Definition parz (i : Z) : Z := (i - 1) / 2.

Lemma odd_cases : forall i, (Z.odd i = true /\ exists p, i = 2 * p + 1) \/ (Z.odd i = false /\ exists p, i = 2 * p).
Proof.
  intros i. destruct (Z.odd i) eqn:E.
  - left. split; [reflexivity|]. apply Z.odd_spec in E. destruct E as [p Hp]. exists p. lia.
  - right. split; [reflexivity|]. rewrite <- Z.negb_even in E. apply negb_false_iff in E.
    apply Z.even_spec in E. destruct E as [p Hp]. exists p. lia.
Qed.

Lemma node_cases : forall i, 1 <= i ->
  (i = 2 * parz i + 1 /\ sibz i = 2 * parz i + 2) \/ (i = 2 * parz i + 2 /\ sibz i = 2 * parz i + 1).
Proof.
  intros i Hi. unfold parz, sibz. destruct (odd_cases i) as [[-> [p Hp]]|[-> [p Hp]]]; subst i.
  - left. replace (2 * p + 1 - 1) with (p * 2) by lia. rewrite Z.div_mul by lia. lia.
  - right. replace (2 * p - 1) with (1 + (p - 1) * 2) by lia. rewrite Z.div_add by lia.
    change (1 / 2) with 0. lia.
Qed.

Lemma parz_range : forall i, 1 <= i -> 0 <= parz i < i.
Proof. intros i Hi. destruct (node_cases i Hi) as [[H1 _]|[H1 _]]; lia. Qed.

Lemma parz_sibz : forall i, 1 <= i -> parz (sibz i) = parz i.
Proof.
  intros i Hi. destruct (node_cases i Hi) as [[H1 H2]|[H1 H2]]; rewrite H2; unfold parz.
  - replace (2 * ((i - 1) / 2) + 2 - 1) with (1 + ((i - 1) / 2) * 2) by lia. rewrite Z.div_add by lia. reflexivity.
  - replace (2 * ((i - 1) / 2) + 1 - 1) with (((i - 1) / 2) * 2) by lia. rewrite Z.div_mul by lia. reflexivity.
Qed.

Lemma sibz_ge1 : forall i, 1 <= i -> 1 <= sibz i.
Proof. intros i Hi. pose proof (parz_range i Hi). destruct (node_cases i Hi) as [[H1 H2]|[H1 H2]]; lia. Qed.

Lemma sibz_invol : forall i, 1 <= i -> sibz (sibz i) = i.
Proof.
  intros i Hi. pose proof (sibz_ge1 i Hi) as Hs. pose proof (parz_sibz i Hi) as Hp.
  destruct (node_cases i Hi) as [[H1 H2]|[H1 H2]]; destruct (node_cases (sibz i) Hs) as [[H3 H4]|[H3 H4]]; lia.
Qed.

Lemma sibz_neq : forall i, 1 <= i -> sibz i <> i.
Proof. intros i Hi. destruct (node_cases i Hi) as [[H1 H2]|[H1 H2]]; lia. Qed.

Lemma children_parz : forall p, 0 <= p -> parz (2 * p + 1) = p /\ parz (2 * p + 2) = p.
Proof.
  intros p Hp. unfold parz. split.
  - replace (2 * p + 1 - 1) with (p * 2) by lia. apply Z.div_mul. lia.
  - replace (2 * p + 2 - 1) with (1 + p * 2) by lia. rewrite Z.div_add by lia. reflexivity.
Qed.

Lemma parent_some : forall n i p, parent n i = Some p <-> (1 <= i < n /\ p = parz i).
Proof.
  intros n i p. unfold parent, parz.
  destruct (i <? 1) eqn:E1; [apply Z.ltb_lt in E1|apply Z.ltb_ge in E1]; cbn [orb].
  - split; [discriminate|lia].
  - destruct (n <=? i) eqn:E2; [apply Z.leb_le in E2|apply Z.leb_gt in E2].
    + split; [discriminate|lia].
    + split; [intros Hs; apply Some_inj in Hs; lia|intros [_ ->]; reflexivity].
Qed.

Lemma lchild_some : forall n p c, lchild n p = Some c <-> (0 <= p /\ 2 * p + 1 < n /\ c = 2 * p + 1).
Proof.
  intros n p c. unfold lchild. cbv zeta.
  destruct (p <? 0) eqn:E1; [apply Z.ltb_lt in E1|apply Z.ltb_ge in E1]; cbn [orb].
  - split; [discriminate|lia].
  - destruct (n <=? 2 * p + 1) eqn:E2; [apply Z.leb_le in E2|apply Z.leb_gt in E2].
    + split; [discriminate|lia].
    + split; [intros Hs; apply Some_inj in Hs; lia|intros [_ [_ ->]]; reflexivity].
Qed.

Lemma rchild_some : forall n p c, rchild n p = Some c <-> (0 <= p /\ 2 * p + 2 < n /\ c = 2 * p + 2).
Proof.
  intros n p c. unfold rchild. cbv zeta.
  destruct (p <? 0) eqn:E1; [apply Z.ltb_lt in E1|apply Z.ltb_ge in E1]; cbn [orb].
  - split; [discriminate|lia].
  - destruct (n <=? 2 * p + 2) eqn:E2; [apply Z.leb_le in E2|apply Z.leb_gt in E2].
    + split; [discriminate|lia].
    + split; [intros Hs; apply Some_inj in Hs; lia|intros [_ [_ ->]]; reflexivity].
Qed.

Lemma sibling_some : forall n i s, sibling n i = Some s ->
  1 <= i < n /\ s = sibz i /\ 1 <= s < n.
Proof.
  intros n i s Hs. unfold sibling in Hs.
  destruct (parent n i) as [p|] eqn:Ep; [|discriminate]. apply parent_some in Ep. destruct Ep as [Hi ->].
  destruct (lchild n (parz i)) as [lc|] eqn:El; [|discriminate]. apply lchild_some in El. destruct El as [Hp [Hl ->]].
  assert (Hi1 : 1 <= i) by lia.
  destruct (2 * parz i + 1 =? i) eqn:E.
  - apply Z.eqb_eq in E. apply rchild_some in Hs. destruct Hs as [_ [Hr ->]].
    destruct (node_cases i Hi1) as [[H1 H2]|[H1 H2]]; lia.
  - apply Z.eqb_neq in E. apply Some_inj in Hs. subst s.
    destruct (node_cases i Hi1) as [[H1 H2]|[H1 H2]]; lia.
Qed.

Lemma sibling_intro : forall n i, 1 <= i -> 2 * parz i + 2 < n -> sibling n i = Some (sibz i).
Proof.
  intros n i Hi Hn. pose proof (parz_range i Hi) as Hp. unfold sibling.
  assert (Hpar : parent n i = Some (parz i)).
  { apply parent_some. destruct (node_cases i Hi) as [[H1 H2]|[H1 H2]]; lia. }
  rewrite Hpar.
  assert (Hl : lchild n (parz i) = Some (2 * parz i + 1)) by (apply lchild_some; lia).
  assert (Hr : rchild n (parz i) = Some (2 * parz i + 2)) by (apply rchild_some; lia).
  rewrite Hl. destruct (node_cases i Hi) as [[H1 H2]|[H1 H2]].
  - assert (2 * parz i + 1 =? i = true) as -> by (apply Z.eqb_eq; lia). rewrite Hr, H2. reflexivity.
  - assert (2 * parz i + 1 =? i = false) as -> by (apply Z.eqb_neq; lia). rewrite H2. reflexivity.
Qed.

Lemma min_max_sib : forall i, 1 <= i -> Z.min i (sibz i) = 2 * parz i + 1 /\ Z.max i (sibz i) = 2 * parz i + 2.
Proof. intros i Hi. destruct (node_cases i Hi) as [[H1 H2]|[H1 H2]]; lia. Qed.

(* ---- depth ------------------------------------------------------------------ *)
Lemma depth_nonneg : forall i, 0 <= i -> 0 <= depth_of i.
Proof.
  intros i Hi. unfold depth_of. destruct (i + 1 <=? 0) eqn:E; [apply Z.leb_le in E; lia|]. apply Z.log2_nonneg.
Qed.

Lemma depth_mono : forall i j, 0 <= i <= j -> depth_of i <= depth_of j.
Proof.
  intros i j Hij. unfold depth_of.
  destruct (i + 1 <=? 0) eqn:E1; [apply Z.leb_le in E1; lia|].
  destruct (j + 1 <=? 0) eqn:E2; [apply Z.leb_le in E2; lia|].
  apply Z.log2_le_mono. lia.
Qed.

Lemma depth_children : forall p, 0 <= p -> depth_of (2 * p + 1) = depth_of p + 1 /\ depth_of (2 * p + 2) = depth_of p + 1.
Proof.
  intros p Hp. unfold depth_of.
  destruct (p + 1 <=? 0) eqn:E0; [apply Z.leb_le in E0; lia|].
  destruct (2 * p + 1 + 1 <=? 0) eqn:E1; [apply Z.leb_le in E1; lia|].
  destruct (2 * p + 2 + 1 <=? 0) eqn:E2; [apply Z.leb_le in E2; lia|].
  split.
  - replace (2 * p + 1 + 1) with (2 * (p + 1)) by lia. rewrite Z.log2_double by lia. lia.
  - replace (2 * p + 2 + 1) with (2 * (p + 1) + 1) by lia. rewrite Z.log2_succ_double by lia. lia.
Qed.

Lemma depth_parz : forall i, 1 <= i -> depth_of (parz i) = depth_of i - 1.
Proof.
  intros i Hi. pose proof (parz_range i Hi) as Hp. destruct (depth_children (parz i)) as [D1 D2]; [lia|].
  destruct (node_cases i Hi) as [[H1 H2]|[H1 H2]]; [rewrite H1 at 2|rewrite H1 at 2]; lia.
Qed.

Lemma depth_sibz : forall i, 1 <= i -> depth_of (sibz i) = depth_of i.
Proof.
  intros i Hi. pose proof (depth_parz i Hi). pose proof (depth_parz (sibz i) (sibz_ge1 i Hi)) as H2.
  rewrite parz_sibz in H2 by exact Hi. lia.
Qed.

Lemma depth_neg : forall i, i < 0 -> depth_of i = -1.
Proof. intros i Hi. unfold depth_of. assert (i + 1 <=? 0 = true) as -> by (apply Z.leb_le; lia). reflexivity. Qed.
