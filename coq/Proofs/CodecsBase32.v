(* base32: a2b (b2a os) = os; the converse under "trailing bits are zero"; its refutation. *)
From Coq Require Import String.
From Coq Require Import List NArith ZArith Bool Lia ZifyBool ZifyNat ZifyN.
From Verif Require Import Lib.Hex Lib.Bytes Model.Base32 Gen.CodecConsts.
Import ListNotations.
Local Open Scope N_scope.
Local Ltac Zify.zify_post_hook ::= Z.to_euclidean_division_equations.

(* ---------------------------------------------------------------------- *)
(* alphabet                                                                *)

Lemma N_lt_in_seq v n : v < N.of_nat n -> In v (map N.of_nat (seq 0 n)).
Proof.
  intro H. replace v with (N.of_nat (N.to_nat v)) by lia. apply in_map. apply in_seq. lia.
Qed.

Lemma index_of_spec c : forall l i v,
  index_of c l i = Some v -> exists k, v = i + N.of_nat k /\ (k < length l)%nat /\ nth k l 0 = c.
Proof.
  induction l as [|x l IH]; intros i v H; cbn [index_of] in H; [discriminate|].
  destruct (x =? c) eqn:E.
  - injection H as <-. apply N.eqb_eq in E. exists 0%nat. cbn. repeat split; [lia|lia|assumption].
  - apply IH in H. destruct H as (k & -> & Hk & Hn). exists (S k). cbn [length nth]. repeat split; [lia|lia|assumption].
Qed.

Lemma b32_val_char v : v < 32 -> b32_val (b32_char v) = Some v.
Proof.
  intro H.
  assert (Hall : forallb (fun v => match b32_val (b32_char v) with Some w => w =? v | None => false end)
                         (map N.of_nat (seq 0 32)) = true) by (vm_compute; reflexivity).
  rewrite forallb_forall in Hall. specialize (Hall v (N_lt_in_seq v 32 H)).
  destruct (b32_val (b32_char v)) as [w|]; [|discriminate]. apply N.eqb_eq in Hall. congruence.
Qed.

Lemma b32_char_val c v : b32_val c = Some v -> b32_char v = c /\ v < 32.
Proof.
  unfold b32_val, b32_char. intro H. apply index_of_spec in H. destruct H as (k & -> & Hk & Hn).
  replace (N.to_nat (0 + N.of_nat k)) with k by lia. split; [assumption|].
  change (length base32_chars) with 32%nat in Hk. lia.
Qed.

Lemma map_opt_map {A B} (f : A -> option B) (g : B -> A) l :
  (forall x, In x l -> f (g x) = Some x) -> map_opt f (map g l) = Some l.
Proof.
  induction l as [|x l IH]; intro H; [reflexivity|].
  cbn [map map_opt]. rewrite H by (left; reflexivity). rewrite IH; [reflexivity|].
  intros y Hy. apply H. right. assumption.
Qed.

Lemma map_opt_inv {A B} (f : A -> option B) (g : B -> A) (P : B -> Prop) :
  (forall c v, f c = Some v -> g v = c /\ P v) ->
  forall l vals, map_opt f l = Some vals -> l = map g vals /\ Forall P vals /\ length vals = length l.
Proof.
  intros Hf. induction l as [|c l IH]; intros vals H; cbn [map_opt] in H.
  - injection H as <-. repeat split. constructor.
  - destruct (f c) as [v|] eqn:E; [|discriminate].
    destruct (map_opt f l) as [r|] eqn:Er; [|discriminate]. injection H as <-.
    destruct (Hf c v E) as [Hg Hp]. destruct (IH r eq_refl) as (Hl & Hall & Hlen).
    cbn [map length]. rewrite Hg, <- Hl, Hlen. repeat split. constructor; assumption.
Qed.

(* ---------------------------------------------------------------------- *)
(* bits                                                                    *)

Lemma bits_length w l : length (flat_map (be_digits 2 w) l) = (w * length l)%nat.
Proof.
  induction l as [|x l IH]; cbn [flat_map length]; [lia|].
  rewrite app_length, be_digits_length, IH. lia.
Qed.

Lemma bits_below w l : digits_below 2 (flat_map (be_digits 2 w) l) = true.
Proof.
  induction l as [|x l IH]; cbn [flat_map]; [reflexivity|].
  unfold digits_below in *. rewrite forallb_app, IH, andb_true_r. apply be_digits_below. lia.
Qed.

Lemma digits_below_firstn b n l : digits_below b l = true -> digits_below b (firstn n l) = true.
Proof.
  revert l. induction n as [|n IH]; intros [|x l] H; cbn in *; try reflexivity.
  apply andb_true_iff in H. destruct H as [-> H]. cbn. apply IH. exact H.
Qed.

Lemma digits_below_skipn b n l : digits_below b l = true -> digits_below b (skipn n l) = true.
Proof.
  revert l. induction n as [|n IH]; intros [|x l] H; cbn in *; try reflexivity; try assumption.
  apply andb_true_iff in H. destruct H as [_ H]. apply IH. exact H.
Qed.

Lemma forallb_firstn {A} (P : A -> bool) n : forall l, forallb P l = true -> forallb P (firstn n l) = true.
Proof.
  induction n as [|n IH]; intros [|x l] H; cbn [firstn forallb] in *; try reflexivity.
  apply andb_true_iff in H. destruct H as [Hx H]. rewrite Hx, IH by exact H. reflexivity.
Qed.

Lemma forallb_skipn {A} (P : A -> bool) n : forall l, forallb P l = true -> forallb P (skipn n l) = true.
Proof.
  induction n as [|n IH]; intros [|x l] H; cbn [skipn forallb] in *; try reflexivity; try exact H.
  apply andb_true_iff in H. destruct H as [_ H]. apply IH. exact H.
Qed.

Lemma groups_below {A} (P : A -> bool) w : forall c (l : list A),
  forallb P l = true -> Forall (fun g => forallb P g = true) (groups w c l).
Proof.
  induction c as [|c IH]; intros l H; cbn [groups]; constructor.
  - apply forallb_firstn. exact H.
  - apply IH. apply forallb_skipn. exact H.
Qed.

(* regrouping bits into w-bit values and back *)
Lemma flat_map_digits_values w : forall gs,
  Forall (fun g => length g = w) gs -> Forall (fun g => digits_below 2 g = true) gs ->
  flat_map (be_digits 2 w) (map (be_value 2) gs) = concat gs.
Proof.
  induction gs as [|g gs IH]; intros Hl Hb; [reflexivity|].
  pose proof (Forall_inv Hl) as Hg. pose proof (Forall_inv_tail Hl) as Hl'.
  pose proof (Forall_inv Hb) as Hbg. pose proof (Forall_inv_tail Hb) as Hb'. cbv beta in Hg, Hbg.
  cbn [map flat_map concat]. rewrite IH by assumption.
  rewrite <- Hg. rewrite be_digits_value by exact Hbg. reflexivity.
Qed.

Lemma map_value_digits w l :
  Forall (fun v => v < 2 ^ N.of_nat w) l -> map (be_value 2) (map (be_digits 2 w) l) = l.
Proof.
  induction l as [|v l IH]; intro H; [reflexivity|]. inversion H as [|? ? Hv Hl]; subst.
  cbn [map]. rewrite IH by assumption. rewrite be_digits_small by (try lia; assumption). reflexivity.
Qed.

Lemma flat_map_concat {A B} (f : A -> list B) l : flat_map f l = concat (map f l).
Proof. apply flat_map_concat_map. Qed.

Lemma all_zero_repeat l : forallb (fun b => b =? 0) l = true -> l = repeat 0 (length l).
Proof.
  induction l as [|x l IH]; cbn [forallb length repeat]; [reflexivity|].
  intro H. apply andb_true_iff in H. destruct H as [Hx Hl]. apply N.eqb_eq in Hx. subst x.
  f_equal. apply IH. assumption.
Qed.

Lemma be_value_zeros p : be_value 2 (repeat 0 p) = 0.
Proof.
  induction p as [|p IH]; [reflexivity|]. cbn [repeat]. rewrite be_value_cons, IH. lia.
Qed.

Lemma bytes_ok_Forall l : bytes_ok l = true -> Forall (fun v => v < 2 ^ N.of_nat 8) l.
Proof.
  unfold bytes_ok. rewrite forallb_forall. intro H. apply Forall_forall. intros x Hx.
  specialize (H x Hx). unfold byte_ok in H. change (2 ^ N.of_nat 8) with 256. lia.
Qed.

Lemma last_map {A B} (f : A -> B) l d : l <> [] -> last (map f l) (f d) = f (last l d).
Proof.
  induction l as [|x l IH]; intro H; [congruence|].
  destruct l as [|y l]; [reflexivity|]. cbn [map] in *. cbn [last] in *. apply IH. discriminate.
Qed.

Lemma skipn_add {A} : forall m n (l : list A), skipn n (skipn m l) = skipn (m + n) l.
Proof.
  induction m as [|m IH]; intros n l; [reflexivity|].
  destruct l as [|x l]; [cbn; destruct n; reflexivity|]. cbn [skipn Nat.add]. apply IH.
Qed.

Lemma last_groups {A} w : forall c (l : list A) d,
  last (groups w (S c) l) d = firstn w (skipn (c * w) l).
Proof.
  induction c as [|c IH]; intros l d.
  - reflexivity.
  - change (groups w (S (S c)) l) with (firstn w l :: groups w (S c) (skipn w l)).
    change (last (firstn w l :: groups w (S c) (skipn w l)) d) with (last (groups w (S c) (skipn w l)) d).
    rewrite IH, skipn_add. reflexivity.
Qed.

(* ---------------------------------------------------------------------- *)
(* the s8 table                                                            *)

Lemma b32_last_ok_table v :
  b32_last_ok 0 v = true /\ b32_last_ok 1 v = false /\ b32_last_ok 2 v = (v mod 2 =? 0) /\
  b32_last_ok 3 v = false /\ b32_last_ok 4 v = (v mod 8 =? 0) /\ b32_last_ok 5 v = (v mod 1 =? 0) /\
  b32_last_ok 6 v = false /\ b32_last_ok 7 v = (v mod 4 =? 0).
Proof. repeat split. Qed.

Lemma b32_last_ok_legit m v : m < 8 -> b32_last_ok m v = true -> m = 0 \/ m = 2 \/ m = 4 \/ m = 5 \/ m = 7.
Proof.
  intros Hm H. destruct (b32_last_ok_table v) as (_ & H1 & _ & H3 & _ & _ & H6 & _).
  assert (Hc : m = 0 \/ m = 1 \/ m = 2 \/ m = 3 \/ m = 4 \/ m = 5 \/ m = 6 \/ m = 7) by lia.
  destruct Hc as [->|[->|[->|[->|[->|[->|[->| ->]]]]]]]; try tauto; congruence.
Qed.

(* ---------------------------------------------------------------------- *)
(* a2b (b2a os) = os                                                       *)

Lemma zeros_below p : digits_below 2 (repeat 0 p) = true.
Proof. induction p; cbn; [reflexivity|assumption]. Qed.

Lemma Forall_below_lt w gs :
  Forall (fun g => length g = w) gs -> Forall (fun g => digits_below 2 g = true) gs ->
  Forall (fun v => v < 2 ^ N.of_nat w) (map (be_value 2) gs).
Proof.
  induction gs as [|g gs IH]; intros Hl Hb; [constructor|].
  pose proof (Forall_inv Hl) as Hg. pose proof (Forall_inv Hb) as Hbg. cbv beta in Hg, Hbg.
  cbn [map]. constructor.
  - rewrite <- Hg. apply be_value_bound. exact Hbg.
  - apply IH; [exact (Forall_inv_tail Hl)|exact (Forall_inv_tail Hb)].
Qed.

Section Encode.
Variable os : list N.
Hypothesis os_ok : bytes_ok os = true.

Let n := length os.
Let bits := flat_map (be_digits 2 8) os.
Let c := Nat.div (length bits + 4) 5.
Let p := (c * 5 - length bits)%nat.
Let padded := bits ++ repeat 0 p.
Let gs := groups 5 c padded.
Let qs := map (be_value 2) gs.

Lemma enc_bits_len : length bits = (8 * n)%nat.
Proof. apply bits_length. Qed.

Lemma enc_padded_len : length padded = (c * 5)%nat.
Proof. unfold padded. rewrite app_length, repeat_length. unfold p, c. lia. Qed.

Lemma enc_padded_below : digits_below 2 padded = true.
Proof. unfold padded, digits_below. rewrite forallb_app. apply andb_true_iff. split; [apply bits_below|apply zeros_below]. Qed.

Lemma enc_gs_len : Forall (fun g => length g = 5%nat) gs.
Proof. apply groups_all_length. rewrite enc_padded_len. lia. Qed.

Lemma enc_gs_below : Forall (fun g => digits_below 2 g = true) gs.
Proof. apply (groups_below (fun d => d <? 2)). apply enc_padded_below. Qed.

Lemma enc_qs_lt : Forall (fun v => v < 32) qs.
Proof. apply (Forall_below_lt 5); [apply enc_gs_len|apply enc_gs_below]. Qed.

Lemma enc_b2a : b32_b2a os = map b32_char qs.
Proof. unfold b32_b2a, qs. rewrite map_map. reflexivity. Qed.

Lemma enc_vals : map_opt b32_val (map b32_char qs) = Some qs.
Proof.
  apply map_opt_map. intros x Hx. pose proof enc_qs_lt as H. rewrite Forall_forall in H.
  apply b32_val_char. apply H. assumption.
Qed.

Lemma enc_decode : b32_decode_vals qs = os.
Proof.
  unfold b32_decode_vals.
  assert (Hbits : flat_map (be_digits 2 5) qs = padded).
  { unfold qs. rewrite (flat_map_digits_values 5) by (apply enc_gs_len || apply enc_gs_below).
    unfold gs. rewrite concat_groups by (rewrite enc_padded_len; lia).
    apply firstn_all2. rewrite enc_padded_len. lia. }
  rewrite Hbits.
  assert (Hn : Nat.div (length qs * 5) 8 = length (map (be_digits 2 8) os)).
  { unfold qs, gs. rewrite !map_length, groups_length. fold n.
    pose proof enc_bits_len. unfold c. lia. }
  rewrite Hn. unfold padded, bits. rewrite flat_map_concat.
  rewrite groups_concat.
  - apply map_value_digits. apply bytes_ok_Forall. exact os_ok.
  - apply Forall_forall. intros g Hg. apply in_map_iff in Hg. destruct Hg as (b & <- & _). apply be_digits_length.
Qed.

Lemma enc_last_ok : qs <> [] -> b32_last_ok (N.of_nat (length qs) mod 8) (last qs 0) = true.
Proof.
  intro Hne.
  assert (Hc : length qs = c) by (unfold qs, gs; rewrite map_length, groups_length; reflexivity).
  rewrite Hc.
  assert (Hcpos : exists c', c = S c').
  { destruct (Nat.eq_dec c 0) as [E0|E0]; [|exists (pred c); lia].
    rewrite E0 in Hc. apply length_zero_iff_nil in Hc. congruence. }
  destruct Hcpos as [c' Ec].
  assert (Hlast : last qs 0 = be_value 2 (skipn (c' * 5) bits) * 2 ^ N.of_nat p).
  { unfold qs. change 0 with (be_value 2 []).
    rewrite last_map by (intro E; apply Hne; unfold qs; rewrite E; reflexivity).
    unfold gs. rewrite Ec, last_groups. unfold padded.
    rewrite skipn_app.
    replace (c' * 5 - length bits)%nat with 0%nat by (pose proof enc_bits_len; unfold c in Ec; lia).
    cbn [skipn]. rewrite firstn_all2.
    - rewrite be_value_app, be_value_zeros, repeat_length. lia.
    - rewrite app_length, skipn_length, repeat_length. unfold p. rewrite Ec.
      pose proof enc_bits_len. unfold c in Ec. lia. }
  rewrite Hlast. clear Hlast.
  set (t := be_value 2 (skipn (c' * 5) bits)). clearbody t.
  pose proof enc_bits_len as Hb. unfold p. rewrite Ec. unfold c in Ec.
  destruct (b32_last_ok_table (t * 2 ^ N.of_nat (S c' * 5 - length bits)))
    as (T0 & _ & T2 & _ & T4 & T5 & _ & T7).
  assert (Hcases :
    (N.of_nat (S c') mod 8 = 0) \/
    (N.of_nat (S c') mod 8 = 2 /\ (S c' * 5 - length bits = 2)%nat) \/
    (N.of_nat (S c') mod 8 = 4 /\ (S c' * 5 - length bits = 4)%nat) \/
    (N.of_nat (S c') mod 8 = 5) \/
    (N.of_nat (S c') mod 8 = 7 /\ (S c' * 5 - length bits = 3)%nat)) by lia.
  destruct Hcases as [E|[[E Ep]|[[E Ep]|[E|[E Ep]]]]]; rewrite E; try rewrite Ep.
  - exact T0.
  - rewrite Ep in T2. rewrite T2. change (2 ^ N.of_nat 2) with 4. apply N.eqb_eq. lia.
  - rewrite Ep in T4. rewrite T4. change (2 ^ N.of_nat 4) with 16. apply N.eqb_eq. lia.
  - rewrite T5. apply N.eqb_eq. apply N.mod_1_r.
  - rewrite Ep in T7. rewrite T7. change (2 ^ N.of_nat 3) with 8. apply N.eqb_eq. lia.
Qed.

Theorem b32_roundtrip_aux : b32_a2b (b32_b2a os) = Some os.
Proof.
  rewrite enc_b2a. unfold b32_a2b.
  assert (Hcb : b32_could_be (map b32_char qs) = true).
  { unfold b32_could_be. rewrite enc_vals.
    destruct (map b32_char qs) as [|x l] eqn:E; [reflexivity|].
    rewrite <- E, map_length. apply enc_last_ok. intro Hq. rewrite Hq in E. discriminate. }
  rewrite Hcb, enc_vals, enc_decode. reflexivity.
Qed.
End Encode.

Theorem b32_roundtrip os : bytes_ok os = true -> b32_a2b (b32_b2a os) = Some os.
Proof. apply b32_roundtrip_aux. Qed.

Theorem b32_b2a_trailing_zero os : b32_trailing_zero (b32_b2a os) = true.
Proof.
  rewrite enc_b2a. unfold b32_trailing_zero. rewrite enc_vals.
  set (qs := map (be_value 2) (groups 5 (Nat.div (length (flat_map (be_digits 2 8) os) + 4) 5)
        (flat_map (be_digits 2 8) os ++ repeat 0 (Nat.div (length (flat_map (be_digits 2 8) os) + 4) 5 * 5 - length (flat_map (be_digits 2 8) os))))).
  assert (Hbits : flat_map (be_digits 2 5) qs =
                  flat_map (be_digits 2 8) os ++ repeat 0 (Nat.div (length (flat_map (be_digits 2 8) os) + 4) 5 * 5 - length (flat_map (be_digits 2 8) os))).
  { unfold qs. rewrite (flat_map_digits_values 5) by (apply enc_gs_len || apply enc_gs_below).
    rewrite concat_groups by (rewrite enc_padded_len; lia).
    apply firstn_all2. rewrite enc_padded_len. lia. }
  rewrite Hbits.
  assert (Hlen : length qs = Nat.div (length (flat_map (be_digits 2 8) os) + 4) 5)
    by (unfold qs; rewrite map_length, groups_length; reflexivity).
  rewrite Hlen. pose proof (enc_bits_len os) as Hb.
  rewrite skipn_app.
  assert (Hge : (length (flat_map (be_digits 2 8) os) <= Nat.div (Nat.div (length (flat_map (be_digits 2 8) os) + 4) 5 * 5) 8 * 8)%nat) by lia.
  rewrite skipn_all2 by exact Hge. cbn [app].
  apply forallb_skipn. clear. induction (_ - _)%nat; cbn; [reflexivity|assumption].
Qed.

(* ---------------------------------------------------------------------- *)
(* strict converse, for inputs whose unused trailing bits are zero         *)

Theorem b32_converse_canonical cs x :
  b32_a2b cs = Some x -> b32_trailing_zero cs = true -> b32_b2a x = cs.
Proof.
  unfold b32_a2b, b32_trailing_zero.
  destruct (b32_could_be cs) eqn:Hcb; [|discriminate].
  destruct (map_opt b32_val cs) as [vals|] eqn:Hv; [|discriminate].
  intros Hx Htz. injection Hx as <-.
  destruct (map_opt_inv b32_val b32_char (fun v => v < 32) b32_char_val cs vals Hv) as (Hcs & Hlt & Hlen).
  set (c := length vals) in *.
  set (bits := flat_map (be_digits 2 5) vals) in *.
  set (n := Nat.div (c * 5) 8) in *.
  assert (Hbl : length bits = (5 * c)%nat) by apply bits_length.
  assert (Hbb : digits_below 2 bits = true) by apply bits_below.
  unfold b32_decode_vals. fold c bits n.
  (* the bits of the decoded octets are the first 8n bits *)
  assert (Hbx : flat_map (be_digits 2 8) (map (be_value 2) (groups 8 n bits)) = firstn (n * 8) bits).
  { rewrite (flat_map_digits_values 8).
    - apply concat_groups. unfold n. lia.
    - apply groups_all_length. unfold n. lia.
    - apply (groups_below (fun d => d <? 2)). exact Hbb. }
  unfold b32_b2a. rewrite Hbx.
  assert (Hfl : length (firstn (n * 8) bits) = (n * 8)%nat) by (rewrite firstn_length; unfold n; lia).
  rewrite Hfl.
  (* the number of characters is recovered *)
  assert (Hc : Nat.div (n * 8 + 4) 5 = c).
  { unfold b32_could_be in Hcb. destruct cs as [|c0 cs'].
    - cbn in Hlen. unfold n. lia.
    - rewrite Hv in Hcb. rewrite <- Hlen in Hcb.
      apply b32_last_ok_legit in Hcb; [|apply N.mod_lt; lia]. unfold n. lia. }
  rewrite Hc.
  (* padding back gives the original bit string *)
  assert (Hpad : firstn (n * 8) bits ++ repeat 0 (c * 5 - n * 8) = bits).
  { transitivity (firstn (n * 8) bits ++ skipn (n * 8) bits); [|apply firstn_skipn]. f_equal.
    rewrite (all_zero_repeat _ Htz), skipn_length. f_equal. lia. }
  rewrite Hpad. unfold bits. rewrite flat_map_concat.
  rewrite <- (app_nil_r (concat (map (be_digits 2 5) vals))).
  replace c with (length (map (be_digits 2 5) vals)) by (rewrite map_length; reflexivity).
  rewrite groups_concat.
  - rewrite <- map_map. rewrite (map_value_digits 5) by exact Hlt. symmetry. exact Hcs.
  - apply Forall_forall. intros g Hg. apply in_map_iff in Hg. destruct Hg as (b & <- & _). apply be_digits_length.
Qed.

(* the unconditional converse is false: "ac" decodes to 00, which encodes to "aa" *)
Theorem b32_converse_refuted : exists cs x, b32_a2b cs = Some x /\ b32_b2a x <> cs.
Proof.
  exists (bytes_of_string "ac"%string), [0]. split; [vm_compute; reflexivity|vm_compute; discriminate].
Qed.

Definition b32_noncanonical_witnesses : list (list N) :=
  map bytes_of_string ["ac"; "aaai"; "aaaab"; "aaaaaae"; "76"; "aaaaaaaaac"]%string.

Theorem b32_noncanonical_accepted :
  forallb (fun cs => match b32_a2b cs with
                     | Some x => negb (list_N_eqb (b32_b2a x) cs) && negb (b32_trailing_zero cs)
                     | None => false
                     end) b32_noncanonical_witnesses = true.
Proof. vm_compute. reflexivity. Qed.
