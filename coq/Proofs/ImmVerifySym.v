(* The symbolic hash instance (Model/ImmVerify.v: hs, ub) satisfies every hypothesis of the
   C02/C45 theorems, and small concrete files for the examples. *)
From Coq Require Import List ZArith NArith Bool Lia.
From Verif Require Import Gen.ImmConsts Model.HashTree Model.ImmFile Model.ImmVerify Model.ImmCheck
  Proofs.ImmVerify.
Import ListNotations.
Local Open Scope Z_scope.

Lemma ln_eqb_spec : forall a b, ln_eqb a b = true <-> a = b.
Proof.
  induction a as [|x a IH]; destruct b as [|y b]; cbn [ln_eqb]; try (split; [discriminate|intros Hc; discriminate]).
  - split; reflexivity.
  - rewrite andb_true_iff, N.eqb_eq, IH. split; [intros [-> ->]; reflexivity|intros Hc; inversion Hc; auto].
Qed.

Lemma hs_eqb_spec : forall a b, hs_eqb a b = true <-> a = b.
Proof.
  induction a as [d|d|c1 IHc s1 IHs n1|z|a1 IH1 a2 IH2|i|n]; destruct b as [d'|d'|c2 s2 n2|z'|b1 b2|i'|n'];
    cbn [hs_eqb]; try (split; [discriminate|intros Hc; discriminate]).
  - rewrite ln_eqb_spec. split; [intros ->; reflexivity|intros Hc; inversion Hc; reflexivity].
  - rewrite ln_eqb_spec. split; [intros ->; reflexivity|intros Hc; inversion Hc; reflexivity].
  - rewrite !andb_true_iff, IHc, IHs, ln_eqb_spec. split; [intros [[-> ->] ->]; reflexivity|intros Hc; inversion Hc; auto].
  - rewrite Z.eqb_eq. split; [intros ->; reflexivity|intros Hc; inversion Hc; reflexivity].
  - rewrite andb_true_iff, IH1, IH2. split; [intros [-> ->]; reflexivity|intros Hc; inversion Hc; auto].
  - rewrite Z.eqb_eq. split; [intros ->; reflexivity|intros Hc; inversion Hc; reflexivity].
  - rewrite Z.eqb_eq. split; [intros ->; reflexivity|intros Hc; inversion Hc; reflexivity].
Qed.

Lemma optn_inj : forall a b r1 r2, optn a ++ r1 = optn b ++ r2 -> a = b /\ r1 = r2.
Proof. intros [a|] [b|] r1 r2 Hc; cbn in Hc; inversion Hc; auto. Qed.

Lemma opt3_inj : forall a b r1 r2, opt3 a ++ r1 = opt3 b ++ r2 -> a = b /\ r1 = r2.
Proof. intros [[[a1 a2] a3]|] [[[b1 b2] b3]|] r1 r2 Hc; cbn in Hc; inversion Hc; auto. Qed.

Lemma ueb_nums_inj : forall u1 u2 : ueb hs,
  ueb_nums u1 = ueb_nums u2 -> u_crypttext_root u1 = u_crypttext_root u2 -> u_share_root u1 = u_share_root u2 -> u1 = u2.
Proof.
  intros [ss1 c1 s1 ok1 cp1 tp1 ns1 sz1 k1 n1 hl1] [ss2 c2 s2 ok2 cp2 tp2 ns2 sz2 k2 n2 hl2] Hn Hc Hs.
  cbn in Hc, Hs. subst c2 s2. unfold ueb_nums in Hn. cbn [u_segment_size u_codec_ok u_codec_params u_tail_codec_params
    u_num_segments u_size u_needed_shares u_total_shares u_crypttext_hash_len app] in Hn.
  inversion Hn as [[E1 E2 E3]]. clear Hn.
  apply opt3_inj in E3. destruct E3 as [-> E3]. apply opt3_inj in E3. destruct E3 as [-> E3].
  apply optn_inj in E3. destruct E3 as [-> E3]. apply optn_inj in E3. destruct E3 as [-> E3].
  apply optn_inj in E3. destruct E3 as [-> E3]. apply optn_inj in E3. destruct E3 as [-> E3].
  rewrite <- (app_nil_r (optn hl1)), <- (app_nil_r (optn hl2)) in E3. apply optn_inj in E3. destruct E3 as [-> _].
  assert (ok1 = ok2) as -> by (destruct ok1, ok2; try reflexivity; discriminate).
  reflexivity.
Qed.

Lemma sym_ueb_hash_inj : forall a b, sym_ueb_hash a = sym_ueb_hash b -> a = b.
Proof.
  intros [u1|z1] [u2|z2] Hh; cbn [sym_ueb_hash] in Hh; try discriminate.
  - injection Hh as E1 E2 E3 E4 E5. f_equal. apply ueb_nums_inj; try assumption.
    unfold ueb_nums. cbn [app]. congruence.
  - inversion Hh. reflexivity.
Qed.

Lemma sym_hypotheses :
  (forall a b, hs_eqb a b = true <-> a = b) /\
  (forall h, sym_truthy h = true) /\
  (forall a b c d, HPair a b = HPair c d -> a = c /\ b = d) /\
  (forall a b, HBlock a = HBlock b -> a = b) /\
  (forall a b, HSeg a = HSeg b -> a = b) /\
  (forall a b, sym_ueb_hash a = sym_ueb_hash b -> a = b) /\
  (forall u, sym_parse_ueb (UbOk u) = Some u).
Proof.
  split; [exact hs_eqb_spec|]. split; [reflexivity|].
  split; [intros a b c d Hc; inversion Hc; auto|].
  split; [intros a b Hc; inversion Hc; reflexivity|].
  split; [intros a b Hc; inversion Hc; reflexivity|].
  split; [exact sym_ueb_hash_inj|reflexivity].
Qed.

(* a 2-of-3-like file of 5 bytes in 3 segments (the blocks are arbitrary distinct data: the
   validation never looks inside them) and a one-segment file *)
Definition f3 : efile :=
  mkEf 2 3 5 2 [[1;2];[3;4];[5]]%N
       [[[1];[2];[9]]; [[3];[4];[8]]; [[5];[0];[7]]]%N.
Definition f1 : efile := mkEf 2 2 2 2 [[1;2]]%N [[[1];[2]]]%N.

Lemma f3_wf : ef_wf f3.
Proof. constructor; vm_compute; try reflexivity; discriminate. Qed.
Lemma f1_wf : ef_wf f1.
Proof. constructor; vm_compute; try reflexivity; discriminate. Qed.

Definition no_ord : nat -> list Z := fun _ => [].
Definition no_ord2 : nat -> nat -> list Z := fun _ _ => [].
Definition off0 : offsets := mk_off 36 100 200 304 400 434.

Definition f3_cap := sym_g_cap [] f3.
Definition f3_share (i : Z) := sym_g_share f3 1 (mk_off 36 39 263 487 711 813) i.
Definition f1_cap := sym_g_cap [] f1.
Definition f1_share (i : Z) := sym_g_share f1 1 off0 i.

(* the verifier before the fix in /repo (anchor = false): share 0's bytes served as share 1 are
   called good although the block differs from share 1's block *)
Lemma unanchored_verifier_accepts_other_share :
  sym_verify_share_gen false f1_cap 1 (sym_vshare_of (f1_share 0) 1) no_ord no_ord2 = VGood /\
  zassoc 0 (v_blocks (sym_vshare_of (f1_share 0) 1)) <> Some (gblock f1 1 0).
Proof. split; [vm_compute; reflexivity|vm_compute; discriminate]. Qed.

(* ... the fixed verifier calls it corrupt, and the real share 1 good *)
Lemma anchored_verifier_examples :
  sym_verify_share f1_cap 1 (sym_vshare_of (f1_share 0) 1) no_ord no_ord2 = VCorrupt /\
  sym_verify_share f1_cap 1 (sym_vshare_of (f1_share 1) 1) no_ord no_ord2 = VGood /\
  sym_verify_share f3_cap 0 (sym_vshare_of (f3_share 0) 1) no_ord no_ord2 = VGood /\
  sym_verify_share f3_cap 1 (sym_vshare_of (f3_share 1) 1) no_ord no_ord2 = VGood /\
  sym_verify_share f3_cap 2 (sym_vshare_of (f3_share 2) 1) no_ord no_ord2 = VGood /\
  sym_verify_share f3_cap 2 (sym_vshare_of (f3_share 1) 1) no_ord no_ord2 = VCorrupt.
Proof. repeat split; vm_compute; reflexivity. Qed.
