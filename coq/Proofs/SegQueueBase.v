(* C46 / C04: structural facts about Model/SegQueue.v and the node-level invariant
   (no_stuck_state for the request queue). *)
From Coq Require Import List NArith Bool Arith Lia.
From Verif Require Import Model.SegQueue.
Import ListNotations.

(* ---- lists ------------------------------------------------------------------------- *)
Lemma set_nth_length {A} i (x : A) l : length (set_nth i x l) = length l.
Proof. revert i. induction l as [|y r IH]; intros [|i]; cbn [set_nth length]; auto. Qed.

Lemma nth_error_set_nth_eq {A} i (x : A) l : i < length l -> nth_error (set_nth i x l) i = Some x.
Proof.
  revert i. induction l as [|y r IH]; intros [|i] H; cbn [set_nth nth_error length] in *; try lia; auto.
  apply IH. lia.
Qed.

Lemma nth_error_set_nth_neq {A} i j (x : A) l : i <> j -> nth_error (set_nth i x l) j = nth_error l j.
Proof.
  revert i j. induction l as [|y r IH]; intros [|i] [|j] H; cbn [set_nth nth_error]; auto; try congruence.
Qed.

Lemma nth_error_set_nth {A} i j (x : A) l y :
  nth_error (set_nth i x l) j = Some y -> (i = j /\ y = x /\ j < length l) \/ (i <> j /\ nth_error l j = Some y).
Proof.
  intros H. destruct (Nat.eq_dec i j) as [e|ne].
  - subst. assert (j < length l).
    { rewrite <- (set_nth_length j x l). apply nth_error_Some. congruence. }
    rewrite nth_error_set_nth_eq in H by assumption. left. inversion H. auto.
  - right. split; [exact ne|]. now rewrite nth_error_set_nth_neq in H.
Qed.

Lemma Forall_set_nth {A} (P : A -> Prop) i x l : Forall P l -> P x -> Forall P (set_nth i x l).
Proof.
  intros H Hx. revert i. induction H as [|y r Hy Hr IH]; intros [|i]; cbn [set_nth]; constructor; auto.
Qed.

Lemma nth_error_snoc {A} (l : list A) x j y :
  nth_error (l ++ [x]) j = Some y -> (j < length l /\ nth_error l j = Some y) \/ (j = length l /\ y = x).
Proof.
  intros H. destruct (Nat.lt_ge_cases j (length l)) as [L|G].
  - left. split; [exact L|]. now rewrite nth_error_app1 in H.
  - right. rewrite nth_error_app2 in H by exact G.
    destruct (j - length l) as [|m] eqn:E; cbn in H; [|destruct m; discriminate].
    inversion H. split; [lia|reflexivity].
Qed.

Lemma nmem_In x l : nmem x l = true <-> In x l.
Proof.
  unfold nmem. rewrite existsb_exists. split.
  - intros (y & Hy & E). apply N.eqb_eq in E. now subst.
  - intros H. exists x. split; [exact H|apply N.eqb_refl].
Qed.

(* ---- node functions ------------------------------------------------------------------ *)
Definition segs (s : sys) : list N := map r_seg (s_reqs s).

(* the queue part of no_stuck_state: an active fetcher serves a requested segment, and
   there is one whenever requests are pending *)
Definition queue_ok (s : sys) : Prop :=
  match s_active s with
  | Some (_, seg) => In seg (segs s)
  | None => s_reqs s = []
  end.

Lemma start_new_fields s :
  let s' := fst (start_new s) in
  s_reqs s' = s_reqs s /\ s_next_rid s' = s_next_rid s /\ s_inactive s' = s_inactive s /\
  s_deliveries s' = s_deliveries s /\ s_known s' = s_known s /\ s_readers s' = s_readers s.
Proof.
  unfold start_new. destruct (s_active s) as [[? ?]|] eqn:A; [cbn; repeat split; reflexivity|].
  destruct (s_reqs s) eqn:R; cbn; repeat split; try reflexivity; now rewrite R.
Qed.

Lemma start_new_queue_ok s :
  (match s_active s with Some (_, seg) => In seg (segs s) | None => True end) -> queue_ok (fst (start_new s)).
Proof.
  unfold start_new, queue_ok, segs. destruct (s_active s) as [[fid seg]|] eqn:A; [cbn; rewrite A; auto|].
  destruct (s_reqs s) as [|r rest] eqn:R; cbn; [rewrite A; auto|]. rewrite ?R. cbn. auto.
Qed.

Lemma get_segment_queue_ok s seg : queue_ok s -> queue_ok (fst (fst (get_segment s seg))).
Proof.
  intros Q. unfold get_segment. destruct (start_new _) as [s2 o] eqn:E.
  cbn [fst]. change s2 with (fst (s2, o)). rewrite <- E. apply start_new_queue_ok.
  unfold queue_ok, segs in *. cbn [upd_node s_active s_reqs]. destruct (s_active s) as [[fid sg]|]; [|exact I].
  rewrite map_app. apply in_or_app. now left.
Qed.

Lemma get_segment_fields s seg :
  let s' := fst (fst (get_segment s seg)) in
  s_reqs s' = s_reqs s ++ [mk_req seg (s_next_rid s)] /\ s_next_rid s' = (s_next_rid s + 1)%N /\
  s_inactive s' = s_inactive s /\ s_deliveries s' = s_deliveries s /\ s_known s' = s_known s /\
  s_readers s' = s_readers s /\ snd (fst (get_segment s seg)) = s_next_rid s.
Proof.
  unfold get_segment. destruct (start_new _) as [s2 o] eqn:E. cbn [fst snd].
  pose proof (start_new_fields (upd_node s (s_reqs s ++ [mk_req seg (s_next_rid s)]) (s_active s) (s_next_fid s) (s_next_rid s + 1) (s_inactive s) (s_deliveries s))) as F.
  rewrite E in F. cbn [fst upd_node s_reqs s_next_rid s_inactive s_deliveries s_known s_readers] in F. tauto.
Qed.

Lemma extract_fields s seg res :
  let s' := extract s seg res in
  s_active s' = s_active s /\ s_next_rid s' = s_next_rid s /\ s_inactive s' = s_inactive s /\
  s_known s' = s_known s /\ s_readers s' = s_readers s /\
  s_reqs s' = filter (fun r => negb (N.eqb (r_seg r) seg)) (s_reqs s) /\
  s_deliveries s' = s_deliveries s ++ map (fun r => (r_id r, res)) (filter (fun r => N.eqb (r_seg r) seg) (s_reqs s)).
Proof. unfold extract. cbn. repeat split; reflexivity. Qed.

Lemma cancel_queue_ok s rid : queue_ok s -> queue_ok (fst (cancel s rid)).
Proof.
  intros Q. unfold cancel. destruct (nmem rid (s_inactive s)); [exact Q|].
  cbn [upd_node s_active]. destruct (s_active s) as [[fid seg]|] eqn:A.
  - destruct (nmem seg _) eqn:M.
    + cbn [fst]. unfold queue_ok, segs. cbn [upd_node s_active s_reqs]. rewrite ?A. now apply nmem_In.
    + destruct (start_new _) as [s2 o] eqn:E. cbn [fst]. change s2 with (fst (s2, o)). rewrite <- E.
      apply start_new_queue_ok. cbn. exact I.
  - cbn [fst]. unfold queue_ok in *. cbn [upd_node s_active s_reqs]. rewrite ?A in *. now rewrite Q.
Qed.

(* set_reader / the reader operations do not touch the queue *)
Lemma set_reader_queue s i r : queue_ok (set_reader s i r) <-> queue_ok s.
Proof. unfold queue_ok, segs, set_reader. cbn. tauto. Qed.

Section Fixed.
  Variable clear_on_failure : bool.
  Variable ct : list N.
  Variables segsize guess : N.

  Notation mfn := (maybe_fetch_next segsize guess).
  Notation fired := (reader_fired ct segsize guess).
  Notation step := (sstep clear_on_failure ct segsize guess).

  (* the three ways _maybe_fetch_next can go *)
  Inductive mfn_shape (s : sys) (i : nat) (r : reader) : sys * list sout -> Prop :=
  | mfn_idle : (rd_alive r = false \/ rd_hungry r = false \/ rd_active r <> None) ->
               mfn_shape s i r (set_reader s i r, [])
  | mfn_done : rd_alive r = true -> rd_hungry r = true -> rd_active r = None -> rd_size r = 0%N ->
               mfn_shape s i r (set_reader s i (rd_finish r RDone), [OFinish i RDone])
  | mfn_issue : forall w,
               rd_alive r = true -> rd_hungry r = true -> rd_active r = None -> rd_size r <> 0%N ->
               mfn_shape s i r (set_reader (fst (fst (get_segment s w))) i (rd_set_active r (Some (w, s_next_rid s, s_known s))),
                                snd (get_segment s w)).

  Lemma mfn_cases s i r : mfn_shape s i r (mfn s i r).
  Proof.
    unfold maybe_fetch_next. destruct (rd_alive r) eqn:A; cbn [negb orb]; [|apply mfn_idle; auto].
    destruct (rd_hungry r) eqn:H; cbn [negb]; [|apply mfn_idle; auto].
    destruct (rd_active r) as [a|] eqn:Ac; [apply mfn_idle; right; right; congruence|].
    destruct (N.eqb_spec (rd_size r) 0) as [Z|NZ]; [now apply mfn_done|].
    set (w := if (rd_offset r =? 0)%N then 0%N else (rd_offset r / (if s_known s then segsize else guess))%N).
    pose proof (get_segment_fields s w) as F. cbn zeta in F. destruct F as (_ & _ & _ & _ & _ & _ & Frid).
    destruct (get_segment s w) as [[s1 rid] o] eqn:G. cbn [fst snd] in *. subst rid.
    replace s1 with (fst (fst (get_segment s w))) by now rewrite G.
    replace o with (snd (get_segment s w)) by now rewrite G.
    now apply mfn_issue.
  Qed.

  Lemma mfn_queue_ok s i r : queue_ok s -> queue_ok (fst (mfn s i r)).
  Proof.
    intros Q. destruct (mfn_cases s i r); cbn [fst]; apply set_reader_queue; auto.
    now apply get_segment_queue_ok.
  Qed.

  Lemma fired_queue_ok s i r k res react : queue_ok s -> queue_ok (fst (fired s i r k res react)).
  Proof.
    intros Q. unfold reader_fired. destruct res as [segnum|e].
    - destruct (overlap _ _ _ _) as [[o0 o1]|].
      + destruct (N.eqb o0 _).
        * destruct react.
          -- destruct (mfn s i _) as [s2 o] eqn:E. cbn [fst]. change s2 with (fst (s2, o)). rewrite <- E. now apply mfn_queue_ok.
          -- cbn [fst]. now apply set_reader_queue.
          -- cbn [fst]. now apply set_reader_queue.
        * destruct k; [cbn [fst rd_error]; now apply set_reader_queue|now apply mfn_queue_ok].
      + destruct k; [cbn [fst rd_error]; now apply set_reader_queue|now apply mfn_queue_ok].
    - destruct e, k; try (cbn [fst rd_error]; now apply set_reader_queue). now apply mfn_queue_ok.
  Qed.

  Lemma finish_queue_ok s seg res :
    queue_ok (fst (start_new (extract (clear_active s) seg res))).
  Proof. apply start_new_queue_ok. cbn. exact I. Qed.

  (* no_stuck_state, queue part: holds in every state, whatever the events, for the
     repaired failure branch *)
  Lemma step_queue_ok s e : clear_on_failure = true -> queue_ok s -> queue_ok (fst (step s e)).
  Proof.
    intros CF Q. destruct e as [off sz|i|i|i|i| |e|ok e|react]; cbn [sstep].
    - destruct (N.eqb _ 0); [cbn [fst]; unfold queue_ok, segs in *; cbn; exact Q|].
      apply mfn_queue_ok. unfold queue_ok, segs in *. cbn. exact Q.
    - destruct (nth_error _ i) as [r|]; [|exact Q]. destruct (rd_result r); [exact Q|]. cbn [fst]. now apply set_reader_queue.
    - destruct (nth_error _ i) as [r|]; [|exact Q]. destruct (rd_result r); [exact Q|]. cbn [fst]. now apply set_reader_queue.
    - destruct (nth_error _ i) as [r|]; [|exact Q]. destruct (rd_result r); [exact Q|].
      destruct (rd_active r) as [[[sg rid] k]|].
      + pose proof (cancel_queue_ok s rid Q) as C. destruct (cancel s rid) as [s1 o]. cbn [fst] in *. now apply set_reader_queue.
      + cbn [fst]. now apply set_reader_queue.
    - destruct (nth_error _ i) as [r|]; [|exact Q]. destruct (rd_mfn r); [exact Q|]. now apply mfn_queue_ok.
    - cbn [fst]. unfold queue_ok, segs in *. cbn. exact Q.
    - destruct (s_active s) as [[fid seg]|] eqn:A; [|exact Q]. apply finish_queue_ok.
    - destruct (s_active s) as [[fid seg]|] eqn:A; [|exact Q]. rewrite CF. destruct ok; apply finish_queue_ok.
    - destruct (s_deliveries s) as [|[rid res] rest] eqn:D; [exact Q|].
      cbn [upd_node s_inactive s_reqs s_active s_next_fid s_next_rid s_readers].
      destruct (nmem rid (s_inactive s)).
      + cbn [fst]. unfold queue_ok, segs in *. cbn. exact Q.
      + destruct (find_reader rid (s_readers s) 0) as [[[i r] k]|].
        * set (s2 := upd_node _ _ _ _ _ _ rest).
          assert (Q2 : queue_ok s2) by (unfold queue_ok, segs in *; cbn; exact Q).
          pose proof (fired_queue_ok s2 i r k res react Q2) as F.
          destruct (fired s2 i r k res react) as [s3 o]. exact F.
        * cbn [fst]. unfold queue_ok, segs in *. cbn. exact Q.
  Qed.
End Fixed.
