From Coq Require Import List NArith Bool Lia Arith.
From Verif Require Import Model.ServerMap Proofs.ServerMap Model.MutRetry.
Import ListNotations.
Local Open Scope N_scope.

Lemma mem_N_In x l : mem_N x l = true <-> In x l.
Proof.
  induction l as [|y r IH]; cbn; [split; [discriminate|contradiction]|].
  rewrite orb_true_iff, IH, N.eqb_eq. split; intros [H|H]; auto.
Qed.

Lemma dedup_N_In x l : In x (dedup_N l) <-> In x l.
Proof.
  induction l as [|y r IH]; cbn; [tauto|].
  destruct (mem_N y r) eqn:E.
  - rewrite IH. apply mem_N_In in E. split; [auto|]. intros [H|H]; [subst; exact E|exact H].
  - cbn. rewrite IH. tauto.
Qed.

Lemma dedup_N_NoDup l : NoDup (dedup_N l).
Proof.
  induction l as [|y r IH]; cbn; [constructor|].
  destruct (mem_N y r) eqn:E; [exact IH|]. constructor; [|exact IH].
  rewrite dedup_N_In. intro H. apply mem_N_In in H. congruence.
Qed.

(* distinct share numbers of v can only shrink when shares are taken away *)
Lemma count_shares_incl m m' v :
  (forall s, In s m' -> In s m) -> count_shares m' v <= count_shares m v.
Proof.
  intro H. unfold count_shares, shnums_of.
  assert (L : (length (dedup_N (map shnum (filter (fun s => version_eqb (ver s) v) m'))) <=
               length (dedup_N (map shnum (filter (fun s => version_eqb (ver s) v) m))))%nat).
  { apply NoDup_incl_length; [apply dedup_N_NoDup|].
    intros x Hx. apply (proj1 (dedup_N_In _ _)) in Hx. apply (proj2 (dedup_N_In _ _)).
    apply in_map_iff in Hx. destruct Hx as [s [E Hs]]. apply filter_In in Hs. destruct Hs as [Hs Hv].
    apply in_map_iff. exists s. split; [exact E|]. apply filter_In. auto. }
  lia.
Qed.

Lemma good_count_le_visible l v : good_count l v <= count_shares (vis l) v.
Proof.
  apply count_shares_incl. intros s Hs. unfold vis in *. apply in_map_iff in Hs. destruct Hs as [g [E Hg]].
  apply filter_In in Hg. apply in_map_iff. exists g. tauto.
Qed.

Section Retry.
  Variable pick : list gshare -> version -> gshare -> bool.

  (* marking removes no good share: the good shares, hence every good_count, stay as they are *)
  Lemma mark_keeps_good l v : filter gs_good (mark pick l v) = filter gs_good l.
  Proof.
    unfold mark. generalize (pick l v) as p. intro p.
    induction l as [|s r IH]; [reflexivity|]. cbn [filter].
    destruct (gs_good s) eqn:G.
    - unfold is_bad_of at 1. rewrite G. cbn [negb andb filter]. rewrite G. f_equal. exact IH.
    - destruct (negb (is_bad_of v s && p s)); cbn [filter]; rewrite ?G; exact IH.
  Qed.

  Lemma mark_good_count l v w : good_count (mark pick l v) w = good_count l w.
  Proof. unfold good_count. rewrite mark_keeps_good. reflexivity. Qed.

  (* if every share of v is good, the good shares show as many distinct numbers of v as all shares *)
  Lemma all_good_same_count l v :
    (forall s, In s l -> is_bad_of v s = false) -> count_shares (vis l) v = good_count l v.
  Proof.
    intro H. unfold good_count, count_shares, shnums_of.
    assert (E : filter (fun s => version_eqb (ver s) v) (vis l) =
                filter (fun s => version_eqb (ver s) v) (vis (filter gs_good l))).
    { induction l as [|s r IH]; [reflexivity|].
      assert (Hr : forall s0, In s0 r -> is_bad_of v s0 = false) by (intros; apply H; right; assumption).
      specialize (IH Hr). assert (Hs := H s (or_introl eq_refl)). unfold is_bad_of in Hs.
      cbn [vis map filter]. destruct (gs_good s) eqn:G.
      - cbn [vis map filter]. destruct (version_eqb (ver (gs_share s)) v); [f_equal|]; exact IH.
      - cbn in Hs. rewrite Hs. exact IH. }
    rewrite E. reflexivity.
  Qed.

  Hypothesis pick_progress :
    forall l v, (exists s, In s l /\ is_bad_of v s = true) -> exists s, In s l /\ is_bad_of v s = true /\ pick l v s = true.

  Lemma filter_length_lt {A} (p : A -> bool) l : (exists x, In x l /\ p x = false) -> (length (filter p l) < length l)%nat.
  Proof.
    induction l as [|a r IH]; intros [x [Hin Hp]]; [destruct Hin|]. cbn.
    assert (Hle : (length (filter p r) <= length r)%nat) by (clear; induction r as [|b c IHc]; cbn; [lia|]; destruct (p b); cbn; lia).
    destruct Hin as [->|Hin].
    - rewrite Hp. lia.
    - destruct (p a); cbn; [|lia]. assert ((length (filter p r) < length r)%nat) by (apply IH; eauto). lia.
  Qed.

  (* a failed attempt on a version the map calls recoverable rules out at least one share *)
  Lemma failed_attempt_progress l v :
    vk v <= count_shares (vis l) v -> good_count l v < vk v -> (length (mark pick l v) < length l)%nat.
  Proof.
    intros Hrec Hbad.
    assert (Hex : exists s, In s l /\ is_bad_of v s = true).
    { destruct (existsb (is_bad_of v) l) eqn:E; [apply existsb_exists in E; exact E|].
      exfalso. assert (Hall : forall s, In s l -> is_bad_of v s = false).
      { intros s Hs. destruct (is_bad_of v s) eqn:B; [|reflexivity].
        assert (existsb (is_bad_of v) l = true) by (apply existsb_exists; eauto). congruence. }
      rewrite (all_good_same_count l v Hall) in Hrec. lia. }
    destruct (pick_progress l v Hex) as [s [Hin [Hb Hp]]].
    unfold mark. apply filter_length_lt. exists s. split; [exact Hin|]. rewrite Hb, Hp. reflexivity.
  Qed.

  Lemma count_pos_occurs m v : 0 < count_shares m v -> exists s, In s m /\ ver s = v.
  Proof.
    unfold count_shares, shnums_of. intro H.
    destruct (dedup_N (map shnum (filter (fun s => version_eqb (ver s) v) m))) as [|x r] eqn:E; [cbn in H; lia|].
    assert (Hx : In x (dedup_N (map shnum (filter (fun s => version_eqb (ver s) v) m)))) by (rewrite E; left; reflexivity).
    apply (proj1 (dedup_N_In _ _)) in Hx. apply in_map_iff in Hx. destruct Hx as [s [_ Hs]]. apply filter_In in Hs. destruct Hs as [Hs Hv].
    apply version_eqb_eq in Hv. exists s. auto.
  Qed.

  (* LIVENESS: g has k >= 1 good distinct shares; whatever else sorts at or above g cannot be
     retrieved (e.g. versions made of tampered shares).  Then the read ends with g, whichever bad
     shares the failed attempts happened to see. *)
  Lemma retry_finds_genuine g : forall fuel l,
    (length l < fuel)%nat ->
    1 <= vk g -> vk g <= good_count l g ->
    (forall w, w <> g -> version_leb g w = true -> good_count l w < vk w) ->
    retry pick fuel l = Some g.
  Proof.
    induction fuel as [|f IH]; intros l Hf Hk HG HA; [lia|]. cbn [retry].
    assert (Hgrec : In g (recoverable_versions (vis l))).
    { apply recoverable_In. pose proof (good_count_le_visible l g) as Hle. split; [|lia].
      apply count_pos_occurs. lia. }
    destruct (best_recoverable_version (vis l)) as [b|] eqn:B.
    - destruct (best_is_max_recoverable_ok _ _ B) as [Hb Hmax]. specialize (Hmax g Hgrec).
      destruct (version_eqb b g) eqn:E.
      + apply version_eqb_eq in E. subst b. apply N.leb_le in HG. rewrite HG. reflexivity.
      + assert (Hne : b <> g) by (intro X; apply version_eqb_eq in X; congruence).
        pose proof (HA b Hne Hmax) as Hbad.
        assert (L : (vk b <=? good_count l b) = false) by (apply N.leb_gt; exact Hbad). rewrite L.
        apply recoverable_In in Hb. destruct Hb as [_ Hrec].
        pose proof (failed_attempt_progress l b Hrec Hbad) as Hprog.
        apply IH; [lia|exact Hk|rewrite mark_good_count; exact HG|].
        intros w Hw Hle. rewrite mark_good_count. apply HA; assumption.
    - apply best_none_iff in B. rewrite B in Hgrec. destruct Hgrec.
  Qed.

  Lemma download_finds_genuine_ok g l :
    1 <= vk g -> vk g <= good_count l g ->
    (forall w, w <> g -> version_leb g w = true -> good_count l w < vk w) ->
    download_best_version pick l = Some g.
  Proof. intros. apply retry_finds_genuine; auto. Qed.

  (* SAFETY of the loop: it only ever ends with a version that has k good distinct shares *)
  Lemma retry_sound : forall fuel l v, retry pick fuel l = Some v -> vk v <= good_count l v.
  Proof.
    induction fuel as [|f IH]; intros l v H; [discriminate|]. cbn [retry] in H.
    destruct (best_recoverable_version (vis l)) as [b|]; [|discriminate].
    destruct (vk b <=? good_count l b) eqn:E.
    - inversion H; subst. apply N.leb_le, E.
    - apply IH in H. rewrite mark_good_count in H. exact H.
  Qed.
End Retry.
