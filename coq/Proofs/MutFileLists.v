(* C09: list and arithmetic facts used by the mutable-file proofs:
   Python slices, division with a variable divisor, segments (chunks) of a byte string. *)
From Coq Require Import List Arith NArith Bool Lia.
From Verif Require Import Lib.Hex Model.MutFile.
Import ListNotations.

(* ---- firstn / skipn / nth facts missing from the 8.16 library ------------------ *)
Lemma skipn_skipn {A} a b (l : list A) : skipn a (skipn b l) = skipn (b + a) l.
Proof.
  revert l. induction b; intros l; [reflexivity|].
  destruct l; [rewrite !skipn_nil; reflexivity|]. cbn [skipn Nat.add]. apply IHb.
Qed.

Lemma nth_skipn {A} i n (l : list A) d : nth i (skipn n l) d = nth (n + i) l d.
Proof.
  revert l. induction n; intros l; [reflexivity|].
  destruct l; [rewrite skipn_nil; destruct i; reflexivity|]. cbn [skipn Nat.add nth]. apply IHn.
Qed.

Lemma nth_firstn_lt {A} i n (l : list A) d : i < n -> nth i (firstn n l) d = nth i l d.
Proof.
  revert i l. induction n; intros i l H; [lia|].
  destruct l; [reflexivity|]. destruct i; [reflexivity|]. cbn [firstn nth]. apply IHn. lia.
Qed.

(* ---- slices ---------------------------------------------------------------- *)
Lemma slice_length a b (s : bytes) : length (slice a b s) = Nat.min (b - a) (length s - a).
Proof. unfold slice. rewrite firstn_length, skipn_length. reflexivity. Qed.

Lemma slice_nil a b (s : bytes) : b <= a -> slice a b s = [].
Proof. intros H. unfold slice. replace (b - a) with 0 by lia. reflexivity. Qed.

Lemma slice_past a b (s : bytes) : length s <= a -> slice a b s = [].
Proof. intros H. unfold slice. rewrite skipn_all2 by lia. apply firstn_nil. Qed.

Lemma slice_0 b (s : bytes) : slice 0 b s = firstn b s.
Proof. unfold slice. rewrite Nat.sub_0_r. reflexivity. Qed.

Lemma slice_to_end a b (s : bytes) : length s <= b -> slice a b s = skipn a s.
Proof. intros H. unfold slice. apply firstn_all2. rewrite skipn_length. lia. Qed.

Lemma slice_full (s : bytes) : slice 0 (length s) s = s.
Proof. rewrite slice_0. apply firstn_all. Qed.

Lemma slice_clip a b (s : bytes) : slice a (Nat.min b (length s)) s = slice a b s.
Proof.
  unfold slice. destruct (Nat.le_ge_cases b (length s)).
  - rewrite Nat.min_l by lia. reflexivity.
  - rewrite Nat.min_r by lia. rewrite !firstn_all2; try reflexivity; rewrite skipn_length; lia.
Qed.

Lemma slice_app a b (x y : bytes) :
  slice a b (x ++ y) = slice a b x ++ slice (a - length x) (b - length x) y.
Proof.
  unfold slice. rewrite skipn_app, firstn_app. f_equal. rewrite skipn_length.
  f_equal. lia.
Qed.

Lemma slice_firstn a b n (s : bytes) : slice a b (firstn n s) = slice a (Nat.min b n) s.
Proof.
  unfold slice. rewrite skipn_firstn_comm. rewrite firstn_firstn. f_equal. lia.
Qed.

Lemma slice_skipn a b n (s : bytes) : slice a b (skipn n s) = slice (n + a) (n + b) s.
Proof. unfold slice. rewrite skipn_skipn. f_equal. lia. Qed.

Lemma slice_slice a b c d (s : bytes) : slice a b (slice c d s) = slice (c + a) (Nat.min (c + b) d) s.
Proof.
  unfold slice at 2. rewrite slice_firstn, slice_skipn.
  unfold slice. f_equal. lia.
Qed.

Lemma firstn_add {A} m n (t : list A) : firstn (m + n) t = firstn m t ++ firstn n (skipn m t).
Proof.
  revert t. induction m; intros t; [reflexivity|].
  destruct t; [rewrite skipn_nil, !firstn_nil; reflexivity|].
  cbn [Nat.add firstn skipn app]. f_equal. apply IHm.
Qed.

Lemma slice_adj a b c (s : bytes) : a <= b -> b <= c -> slice a b s ++ slice b c s = slice a c s.
Proof.
  intros H1 H2. unfold slice.
  replace (c - a) with ((b - a) + (c - b)) by lia.
  rewrite firstn_add. rewrite skipn_skipn. replace (a + (b - a)) with b by lia. reflexivity.
Qed.

Lemma firstn_slice n a b (s : bytes) : firstn n (slice a b s) = slice a (Nat.min (a + n) b) s.
Proof. unfold slice. rewrite firstn_firstn. f_equal. lia. Qed.

Lemma skipn_slice n a b (s : bytes) : skipn n (slice a b s) = slice (a + n) b s.
Proof.
  unfold slice. rewrite skipn_firstn_comm, skipn_skipn. f_equal. lia.
Qed.

Lemma nth_slice i a b (s : bytes) d : i < b - a -> nth i (slice a b s) d = nth (a + i) s d.
Proof.
  intros H. unfold slice. rewrite nth_firstn_lt by exact H. rewrite nth_skipn. reflexivity.
Qed.

(* ---- splice ------------------------------------------------------------------ *)
Lemma splice_length old data off : off <= length old ->
  length (splice old data off) = Nat.max (length old) (off + length data).
Proof.
  intros H. unfold splice. rewrite !app_length, firstn_length, skipn_length. lia.
Qed.

Lemma splice_nth old data off i : off <= length old ->
  nth i (splice old data off) 0%N = spec_update_byte old data off i.
Proof.
  intros H. unfold splice, spec_update_byte.
  destruct (Nat.ltb_spec i off) as [Hlt|Hge].
  - rewrite app_nth1 by (rewrite firstn_length; lia).
    rewrite nth_firstn_lt by lia.
    replace (off <=? i) with false by (symmetry; apply Nat.leb_gt; lia). reflexivity.
  - rewrite app_nth2 by (rewrite firstn_length; lia). rewrite firstn_length, Nat.min_l by lia.
    replace (off <=? i) with true by (symmetry; apply Nat.leb_le; lia). cbn [andb].
    destruct (Nat.ltb_spec i (off + length data)) as [H2|H2].
    + rewrite app_nth1 by lia. reflexivity.
    + rewrite app_nth2 by lia. rewrite nth_skipn. f_equal. lia.
Qed.

(* ---- division by a variable divisor ------------------------------------------- *)
Lemma divmod_eq a d : d <> 0 -> a = d * (a / d) + a mod d /\ a mod d < d.
Proof. intros H. split; [apply Nat.div_mod; exact H | apply Nat.mod_upper_bound; exact H]. Qed.

Lemma div_uniq a d q r : a = d * q + r -> r < d -> a / d = q /\ a mod d = r.
Proof.
  intros H1 H2. split.
  - symmetry. apply (Nat.div_unique a d q r); assumption.
  - symmetry. apply (Nat.mod_unique a d q r); assumption.
Qed.

Lemma mul_sandwich d q l r : d * q = d * l + r -> 0 < r -> r <= d -> q = l + 1 /\ r = d.
Proof.
  intros H H1 H2.
  destruct (Nat.lt_trichotomy q (l + 1)) as [L|[L|L]].
  - assert (d * q <= d * l) by (apply Nat.mul_le_mono_l; lia). lia.
  - subst q. split; [reflexivity|]. lia.
  - assert (d * (l + 2) <= d * q) by (apply Nat.mul_le_mono_l; lia). lia.
Qed.

Lemma mul_pred a d : 0 < a -> a * d = (a - 1) * d + d.
Proof. intros H. destruct a; [lia|]. replace (S a - 1) with a by lia. cbn [Nat.mul]. lia. Qed.

Lemma div_ceil_0 d : d <> 0 -> div_ceil 0 d = 0.
Proof. intros H. unfold div_ceil. rewrite Nat.div_0_l, Nat.mod_0_l by exact H. reflexivity. Qed.

(* n = d*q + r  with 0 < r <= d  gives  div_ceil n d = q + 1 *)
Lemma div_ceil_qr n d q r : n = d * q + r -> 0 < r -> r <= d -> div_ceil n d = q + 1.
Proof.
  intros H1 H2 H3. unfold div_ceil.
  destruct (Nat.eq_dec r d) as [E|E].
  - subst r. destruct (div_uniq n d (q + 1) 0) as [Hq Hr]; [lia|lia|]. rewrite Hq, Hr. cbn. lia.
  - destruct (div_uniq n d q r) as [Hq Hr]; [lia|lia|]. rewrite Hq, Hr.
    destruct (r =? 0) eqn:E0; [apply Nat.eqb_eq in E0; lia|]. reflexivity.
Qed.

Lemma div_ceil_mul d q : d <> 0 -> div_ceil (d * q) d = q.
Proof.
  intros H. unfold div_ceil. destruct (div_uniq (d * q) d q 0) as [Hq Hr]; [lia|lia|].
  rewrite Hq, Hr. cbn. lia.
Qed.

Lemma div_ceil_pos n d : d <> 0 -> 0 < n -> 0 < div_ceil n d.
Proof.
  intros Hd Hn. unfold div_ceil. destruct (divmod_eq n d Hd) as [H1 H2].
  destruct (n mod d =? 0) eqn:E; [apply Nat.eqb_eq in E|lia].
  assert (n / d <> 0) by (intro Z; rewrite Z, E in H1; lia). lia.
Qed.

(* characterisation: (div_ceil n d - 1) * d < n <= div_ceil n d * d   for n > 0 *)
Lemma div_ceil_bounds n d : d <> 0 -> 0 < n -> (div_ceil n d - 1) * d < n /\ n <= div_ceil n d * d.
Proof.
  intros Hd Hn. unfold div_ceil. destruct (divmod_eq n d Hd) as [H1 H2].
  destruct (n mod d =? 0) eqn:E.
  - apply Nat.eqb_eq in E. rewrite E in H1.
    assert (n / d <> 0) by (intro Z; rewrite Z in H1; lia).
    replace (n / d + 0 - 1) with (n / d - 1) by lia. split; nia.
  - apply Nat.eqb_neq in E. replace (n / d + 1 - 1) with (n / d) by lia. split; nia.
Qed.

Lemma div_ceil_uniq n d c : d <> 0 -> (c - 1) * d < n -> n <= c * d -> div_ceil n d = c.
Proof.
  intros Hd H1 H2.
  assert (Hn : 0 < n) by lia.
  destruct (div_ceil_bounds n d Hd Hn) as [B1 B2].
  assert (0 < div_ceil n d) by (apply div_ceil_pos; assumption).
  assert (0 < c) by (destruct c; [cbn in H2; lia|lia]).
  destruct (Nat.lt_trichotomy (div_ceil n d) c) as [L|[L|L]]; [|exact L|].
  - exfalso. assert (div_ceil n d * d <= (c - 1) * d) by (apply Nat.mul_le_mono_r; lia). lia.
  - exfalso. assert (c * d <= (div_ceil n d - 1) * d) by (apply Nat.mul_le_mono_r; lia). lia.
Qed.

Lemma next_multiple_pos n k : 0 < k -> 0 < n -> 0 < next_multiple n k.
Proof.
  intros Hk Hn. unfold next_multiple.
  assert (0 < div_ceil n k) by (apply div_ceil_pos; lia). nia.
Qed.

Lemma next_multiple_ge n k : 0 < k -> n <= next_multiple n k.
Proof.
  intros Hk. unfold next_multiple. destruct n.
  - lia.
  - destruct (div_ceil_bounds (S n) k) as [_ B]; lia.
Qed.

Lemma next_multiple_lt n k : 0 < k -> next_multiple n k < n + k.
Proof.
  intros Hk. unfold next_multiple. destruct n.
  - rewrite div_ceil_0 by lia. lia.
  - destruct (div_ceil_bounds (S n) k) as [B _]; [lia|lia|].
    assert (0 < div_ceil (S n) k) by (apply div_ceil_pos; lia).
    replace (div_ceil (S n) k * k) with ((div_ceil (S n) k - 1) * k + k) by nia. lia.
Qed.

(* ---- chunks ------------------------------------------------------------------ *)
Lemma chunks_n_length n seg d : length (chunks_n n seg d) = n.
Proof. revert d. induction n; intros d; cbn; [reflexivity|]. rewrite IHn. reflexivity. Qed.

Lemma chunks_n_nth n seg (d : bytes) i : i < n ->
  nth i (chunks_n n seg d) [] = slice (i * seg) (i * seg + seg) d.
Proof.
  revert d i. induction n; intros d i H; [lia|]. cbn [chunks_n]. destruct i.
  - cbn [nth]. rewrite Nat.mul_0_l, Nat.add_0_l. rewrite slice_0. reflexivity.
  - cbn [nth]. rewrite IHn by lia. rewrite slice_skipn. f_equal; lia.
Qed.

Lemma chunks_n_app n m seg (d : bytes) :
  chunks_n (n + m) seg d = chunks_n n seg d ++ chunks_n m seg (skipn (n * seg) d).
Proof.
  revert d. induction n; intros d; cbn [chunks_n Nat.add app].
  - rewrite Nat.mul_0_l. reflexivity.
  - rewrite IHn. rewrite skipn_skipn. replace (seg + n * seg) with (S n * seg) by lia. reflexivity.
Qed.

Lemma chunks_n_firstn n seg (d : bytes) m : n * seg <= m ->
  chunks_n n seg (firstn m d) = chunks_n n seg d.
Proof.
  revert d m. induction n; intros d m H; cbn [chunks_n]; [reflexivity|].
  rewrite firstn_firstn. replace (Nat.min seg m) with seg by lia.
  rewrite skipn_firstn_comm. rewrite IHn by lia. reflexivity.
Qed.

Lemma concat_chunks_n n seg (d : bytes) : concat (chunks_n n seg d) = firstn (n * seg) d.
Proof.
  revert d. induction n; intros d; cbn [chunks_n concat].
  - reflexivity.
  - rewrite IHn. replace (S n * seg) with (seg + n * seg) by lia.
    rewrite <- (firstn_skipn seg d) at 3.
    rewrite firstn_app.
    destruct (Nat.le_ge_cases seg (length d)).
    + rewrite firstn_length, Nat.min_l by lia.
      rewrite (firstn_all2 (n := seg + n * seg)) by (rewrite firstn_length; lia).
      f_equal. f_equal. lia.
    + rewrite skipn_all2 by lia. rewrite !firstn_nil, !app_nil_r.
      rewrite firstn_firstn. f_equal. lia.
Qed.

Lemma chunks_length seg d : seg <> 0 -> length (chunks seg d) = div_ceil (length d) seg.
Proof.
  intros H. unfold chunks. destruct (seg =? 0) eqn:E; [apply Nat.eqb_eq in E; lia|].
  apply chunks_n_length.
Qed.

Lemma chunks_nth seg (d : bytes) i : seg <> 0 -> i < div_ceil (length d) seg ->
  nth i (chunks seg d) [] = slice (i * seg) (i * seg + seg) d.
Proof.
  intros H Hi. unfold chunks. destruct (seg =? 0) eqn:E; [apply Nat.eqb_eq in E; lia|].
  apply chunks_n_nth. exact Hi.
Qed.

Lemma concat_chunks seg (d : bytes) : seg <> 0 -> concat (chunks seg d) = d.
Proof.
  intros H. unfold chunks. destruct (seg =? 0) eqn:E; [apply Nat.eqb_eq in E; lia|].
  rewrite concat_chunks_n. apply firstn_all2.
  destruct (length d) eqn:L; [lia|].
  destruct (div_ceil_bounds (S n) seg) as [_ B]; lia.
Qed.

(* the length of chunk i *)
Lemma chunk_len seg (d : bytes) i : seg <> 0 -> i < div_ceil (length d) seg ->
  length (slice (i * seg) (i * seg + seg) d) =
  if S i =? div_ceil (length d) seg then length d - i * seg else seg.
Proof.
  intros H Hi. rewrite slice_length.
  assert (Hn : 0 < length d) by (destruct (length d); [rewrite div_ceil_0 in Hi by exact H; lia|lia]).
  destruct (div_ceil_bounds (length d) seg H Hn) as [B1 B2].
  destruct (S i =? div_ceil (length d) seg) eqn:E.
  - apply Nat.eqb_eq in E. rewrite <- E in B1, B2. cbn [Nat.sub] in B1. rewrite Nat.sub_0_r in B1. nia.
  - apply Nat.eqb_neq in E.
    assert (S i * seg <= (div_ceil (length d) seg - 1) * seg) by (apply Nat.mul_le_mono_r; lia). nia.
Qed.
