(* C07: counting matched servers and shares of one phase. *)
From Coq Require Import List NArith ZArith Bool Arith Lia.
From Verif Require Import Model.Matching Model.Placement Proofs.Matching Proofs.MatchingLists
     Proofs.MatchingAugment Proofs.MatchingLoop Proofs.MatchingNetwork
     Proofs.Placement Proofs.PlacementStruct Proofs.PlacementGraph Proofs.PlacementNet.
Import ListNotations.

Lemma nth_error_inj : forall (A : Type) (l : list A) i j x, NoDup l ->
  nth_error l i = Some x -> nth_error l j = Some x -> i = j.
Proof.
  intros A l i j x Hnd Hi Hj. apply (proj1 (NoDup_nth_error l) Hnd).
  - apply nth_error_Some. rewrite Hi. discriminate.
  - rewrite Hi, Hj. reflexivity.
Qed.

Lemma used_peers_NoDup : forall m, NoDup (used_peers_of m).
Proof.
  intros m. unfold used_peers_of.
  assert (H : forall l acc, NoDup acc ->
              NoDup (fold_left (fun acc (e : N * option N) => match snd e with Some p => add_set p acc | None => acc end) l acc)).
  { induction l as [|[k v] r IH]; intros acc Hacc; cbn [fold_left snd]; [exact Hacc|].
    apply IH. destruct v; [apply add_set_NoDup; exact Hacc | exact Hacc]. }
  apply H. constructor.
Qed.

Lemma used_shares_NoDup : forall m, NoDup (used_shares_of m).
Proof.
  intros m. unfold used_shares_of.
  assert (H : forall l acc, NoDup acc ->
              NoDup (fold_left (fun acc (e : N * option N) => match snd e with Some _ => add_set (fst e) acc | None => acc end) l acc)).
  { induction l as [|[k v] r IH]; intros acc Hacc; cbn [fold_left snd fst]; [exact Hacc|].
    apply IH. destruct v; [apply add_set_NoDup; exact Hacc | exact Hacc]. }
  apply H. constructor.
Qed.

Section Phase.
Variables (po : phase_order) (P Sh : list N) (sm : smap) (pr : phase_result) (pl so : list N) (g : graph).
Hypothesis HF : phase_facts po P Sh sm pr pl so g.

Let np := length pl.
Let nsh := length so.
Let HN : Net g np nsh := pf_net _ _ _ _ _ _ _ _ HF.
Let HI : Inv g np nsh (pr_flow pr) := proj1 (pf_final _ _ _ _ _ _ _ _ HF).

Lemma pl_NoDup : NoDup pl.
Proof. apply (ordered_spec _ _ _ (pf_pl _ _ _ _ _ _ _ _ HF)). Qed.

Lemma so_NoDup : NoDup so.
Proof. apply (ordered_spec _ _ _ (pf_so _ _ _ _ _ _ _ _ HF)). Qed.

(* each server is matched to at most one share *)
Lemma cm_injective : forall s s' p,
  In (s, Some p) (pr_mappings pr) -> In (s', Some p) (pr_mappings pr) -> s = s'.
Proof.
  intros s s' p H1 H2.
  destruct (pf_entry _ _ _ _ _ _ _ _ HF s p H1) as [i [j [Hi [Hj Hf]]]].
  destruct (pf_entry _ _ _ _ _ _ _ _ HF s' p H2) as [i' [j' [Hi' [Hj' Hf']]]].
  assert (i' = i) by (apply (nth_error_inj _ pl i' i p pl_NoDup Hi' Hi)). subst i'.
  apply (proj1 (in_flow_matching g np nsh (pr_flow pr) _ _)) in Hf.
  apply (proj1 (in_flow_matching g np nsh (pr_flow pr) _ _)) in Hf'.
  destruct Hf as [Hs [He Hm]], Hf' as [_ [He' Hm']].
  pose proof (inv_out _ _ _ _ HI (S i) _ _ Hs He He' Hm Hm') as Ej.
  assert (j = j') by lia. subst j'. rewrite Hj in Hj'. inversion Hj'. reflexivity.
Qed.

(* the flow matching is no larger than the set of matched servers *)
Lemma flow_le_used_peers : length (flow_matching g np (pr_flow pr)) <= length (used_peers_of (pr_mappings pr)).
Proof.
  destruct (flow_matching_is_matching g np nsh HN (pr_flow pr) HI) as [_ [Hf1 _]].
  rewrite <- (map_length fst). rewrite <- (map_length (fun v => nth (v - 1) pl 0%N) (map fst _)).
  apply NoDup_incl_length.
  - apply NoDup_map_inj; [exact Hf1|].
    intros x y Hx Hy Exy. apply in_map_iff in Hx. destruct Hx as [[v si] [Ev Hin]]. cbn [fst] in Ev. subst x.
    apply in_map_iff in Hy. destruct Hy as [[v' si'] [Ev' Hin']]. cbn [fst] in Ev'. subst y.
    destruct (pf_flow _ _ _ _ _ _ _ _ HF v si Hin) as (i & j & p & s & E1 & _ & Hi & _ & _).
    destruct (pf_flow _ _ _ _ _ _ _ _ HF v' si' Hin') as (i' & j' & p' & s' & E1' & _ & Hi' & _ & _).
    subst v v'. replace (S i - 1) with i in Exy by lia. replace (S i' - 1) with i' in Exy by lia.
    rewrite (nth_error_nth _ _ _ Hi), (nth_error_nth _ _ _ Hi') in Exy. subst p'.
    f_equal. apply (nth_error_inj _ pl i i' p pl_NoDup Hi Hi').
  - intros x Hx. apply in_map_iff in Hx. destruct Hx as [v [Ev Hv]]. apply in_map_iff in Hv.
    destruct Hv as [[v' si] [Ev' Hin]]. cbn [fst] in Ev'. subst v'.
    destruct (pf_flow _ _ _ _ _ _ _ _ HF v si Hin) as (i & j & p & s & E1 & _ & Hi & _ & Hm).
    subst v. replace (S i - 1) with i in Ev by lia. rewrite (nth_error_nth _ _ _ Hi) in Ev. subst x.
    apply used_peers_In. exists s. exact Hm.
Qed.

(* matched shares are no more than matched servers *)
Lemma used_shares_le_peers : length (used_shares_of (pr_mappings pr)) <= length (used_peers_of (pr_mappings pr)).
Proof.
  set (peer_of := fun s => match lookupN s (pr_mappings pr) with Some (Some p) => p | _ => 0%N end).
  assert (Hk : NoDup (map fst (pr_mappings pr))) by (rewrite (pf_keys _ _ _ _ _ _ _ _ HF); apply so_NoDup).
  assert (Hpeer : forall s, In s (used_shares_of (pr_mappings pr)) -> In (s, Some (peer_of s)) (pr_mappings pr)).
  { intros s Hs. apply used_shares_In in Hs. destruct Hs as [p Hp]. unfold peer_of.
    rewrite (In_lookupN _ _ _ _ Hk Hp). exact Hp. }
  rewrite <- (map_length peer_of). apply NoDup_incl_length.
  - apply NoDup_map_inj; [apply used_shares_NoDup|].
    intros x y Hx Hy Exy. pose proof (Hpeer x Hx) as H1. pose proof (Hpeer y Hy) as H2. rewrite Exy in H1.
    apply (cm_injective x y _ H1 H2).
  - intros p Hp. apply in_map_iff in Hp. destruct Hp as [s [Es Hs]]. subst p.
    apply used_peers_In. exists s. apply Hpeer. exact Hs.
Qed.

Lemma used_peers_in_pl : forall p, In p (used_peers_of (pr_mappings pr)) -> In p pl.
Proof.
  intros p Hp. apply used_peers_In in Hp. destruct Hp as [s Hs].
  destruct (pf_entry _ _ _ _ _ _ _ _ HF s p Hs) as [i [_ [Hi _]]]. eapply nth_error_In. exact Hi.
Qed.

End Phase.
