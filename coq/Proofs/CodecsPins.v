(* The hand-written codec models mirror these versions of the source functions
   (AST fingerprints, docstrings excluded) and these constants. *)
From Coq Require Import String.
From Coq Require Import List NArith Bool.
From Verif Require Import Lib.Hex Gen.CodecConsts.
Import ListNotations.
Local Open Scope N_scope.

Theorem codec_pins_current :
  pin_base32_priv_get_trailing_chars_without_lsbs = "63672c1fb573092b"%string /\
  pin_base32_get_trailing_chars_without_lsbs = "e8fb7cfb0000c40c"%string /\
  pin_base32_b2a = "05059245b43d4da2"%string /\
  pin_base32_add_check_array = "09d0f9f9a6abb679"%string /\
  pin_base32_init_s8 = "8c85ad875866cb86"%string /\
  pin_base32_could_be_base32_encoded = "ffa5706cbe065276"%string /\
  pin_base32_a2b = "7b2a5698909ded7d"%string /\
  pin_base62_b2a = "9816967dfa574794"%string /\
  pin_base62_b2a_l = "84c048552736ee8a"%string /\
  pin_base62_num_octets_that_encode_to_this_many_chars = "11c8cc618dd0c879"%string /\
  pin_base62_a2b = "a23cc7a50ab3a837"%string /\
  pin_base62_a2b_l = "e12c9897002219ae"%string /\
  pin_base62_vals = "fca92a83ae954ab0"%string /\
  pin_base62_c2vtranstable = "8dae5841fe6c1d93"%string /\
  pin_base62_v2ctranstable = "75818f2fa66d5688"%string /\
  pin_netstring_netstring = "0efd09404df60bde"%string /\
  pin_netstring_split_netstring = "1915f9e1e84fd630"%string /\
  pin_uri_pack_extension = "6162de0ed43038da"%string /\
  pin_uri_unpack_extension = "a81405bf33550aea"%string.
Proof. repeat split. Qed.

Theorem codec_constants_current :
  base32_chars = bytes_of_string "abcdefghijklmnopqrstuvwxyz234567" /\
  base32_NUM_QS_TO_NUM_OS = [0; 1; 1; 2; 2; 3; 3; 4] /\
  base32_NUM_QS_LEGIT = [1; 0; 1; 0; 1; 1; 0; 1] /\
  base32_bits_per_octet = 8 /\ base32_s8_lsb_minuend = 4 /\ base32_s8_lsb_modulus = 5 /\
  base62_chars = bytes_of_string "0123456789ABCDEFGHIJKLMNOPQRSTUVWXYZabcdefghijklmnopqrstuvwxyz" /\
  netstring_format = bytes_of_string "%d:%s," /\
  ueb_key_regex = bytes_of_string "^[a-zA-Z_\-]+$" /\
  ueb_int_keys = map bytes_of_string ["size"; "segment_size"; "num_segments"; "needed_shares"; "total_shares"]%string.
Proof. repeat split. Qed.
