(* C37: DataSpans.remove / get / pop / len / get_spans and the theorems over whole
   operation histories (refinement of a partial map offset -> byte). *)
From Coq Require Import List Arith NArith Bool Lia ZifyBool ZifyNat ZifyN.
From Verif Require Import Model.Spans Proofs.SpansBase Proofs.SpansAdd Proofs.SpansRemove Proofs.SpansOps
     Proofs.SpansDataBase Proofs.SpansDataAdd.
Import ListNotations.
Local Open Scope N_scope.

(* ---- remove ------------------------------------------------------------------------------- *)
Lemma ds_remove_correct s n l : forall e, dwf_from e l ->
  dwf_from e (ds_remove s n l) /\
  forall z, dget z (ds_remove s n l) = if in_iv s n z then None else dget z l.
Proof.
  induction l as [|[ss sd] r IH]; intros e H.
  - split; [exact I|]. intro z. cbn [ds_remove dget]. destruct (in_iv s n z); reflexivity.
  - pose proof H as Hall. cbn [dwf_from fst snd] in H. destruct H as (H1 & H2 & H3).
    destruct (IH _ H3) as [W M]. cbn [ds_remove].
    destruct (s + n <=? ss) eqn:C0.
    + (* break: everything from here on is to the right *)
      split; [exact Hall|]. intro z. destruct (in_iv s n z) eqn:Z; [|reflexivity].
      assert (Hss : dwf_from ss ((ss, sd) :: r)) by (cbn [dwf_from fst snd]; repeat split; [lia|assumption|assumption]).
      apply (dget_below _ ss _ Hss). unfold in_iv in Z. lia.
    + rewrite overlap_spec.
      destruct (N.max s ss <? N.min (s + n) (ss + nlen sd)) eqn:C1.
      * destruct (N.min (s + n) (ss + nlen sd) - N.max s ss =? nlen sd) eqn:C2.
        -- (* whole segment *)
           split.
           ++ eapply dwf_from_weaken; [|exact W]. lia.
           ++ intro z. rewrite M, dget_cons. cbn [fst snd]. unfold in_iv. dcase; dfin.
        -- destruct (N.max s ss =? ss) eqn:C3.
           ++ (* drop a prefix *)
              split.
              ** cbn [dwf_from fst snd]. dsimp. repeat split; try lia.
                 eapply dwf_from_weaken; [|exact W]. lia.
              ** intro z. rewrite !dget_cons. cbn [fst snd]. rewrite M. unfold in_iv. dcase; dfin.
           ++ destruct (N.max s ss + (N.min (s + n) (ss + nlen sd) - N.max s ss) =? ss + nlen sd) eqn:C4.
              ** (* drop a suffix *)
                 split.
                 --- cbn [dwf_from fst snd]. dsimp. repeat split; try lia.
                     eapply dwf_from_weaken; [|exact W]. lia.
                 --- intro z. rewrite !dget_cons. cbn [fst snd]. rewrite M. unfold in_iv. dcase; dfin.
              ** (* middle *)
                 rewrite (nlast_pos _ sd) by lia. split.
                 --- cbn [dwf_from fst snd]. dsimp. repeat split; try lia.
                     eapply dwf_from_weaken; [|exact H3]. lia.
                 --- intro z. rewrite !dget_cons. cbn [fst snd]. unfold in_iv.
                     destruct (N.lt_ge_cases z (ss + nlen sd + 1)) as [L|L].
                     +++ rewrite (dget_below _ _ _ H3 L). dcase; dfin.
                     +++ dcase; dfin.
      * (* no overlap with this segment *)
        split.
        -- cbn [dwf_from fst snd]. repeat split; try assumption.
        -- intro z. rewrite !dget_cons. cbn [fst snd]. rewrite M. unfold in_iv. dcase; dfin.
Qed.

(* ---- get ------------------------------------------------------------------------------------ *)
Lemma ds_get_below s n l : forall e, dwf_from e l -> s < e -> ds_get s n l = None.
Proof.
  induction l as [|[ss sd] r IH]; intros e H Hs; [reflexivity|].
  cbn [dwf_from fst snd] in H. destruct H as (H1 & H2 & H3). cbn [ds_get].
  assert (C : ((ss <=? s) && (s <? ss + nlen sd)) = false) by lia. rewrite C.
  destruct (s + n <=? ss); [reflexivity|]. apply (IH _ H3). lia.
Qed.

Lemma ds_get_some s n l : forall e bs, dwf_from e l -> ds_get s n l = Some bs ->
  nlen bs = n /\ forall k, k < n -> dget (s + k) l = nget bs k.
Proof.
  induction l as [|[ss sd] r IH]; intros e bs H G; [discriminate|].
  cbn [dwf_from fst snd] in H. destruct H as (H1 & H2 & H3). cbn [ds_get] in G.
  destruct ((ss <=? s) && (s <? ss + nlen sd)) eqn:C.
  - destruct (nlen sd <? s - ss + n) eqn:C2; [discriminate|]. injection G as <-.
    split; [dsimp; lia|]. intros k Hk. rewrite dget_cons. cbn [fst snd]. unfold in_iv. dcase; dfin.
  - destruct (s + n <=? ss) eqn:C2; [discriminate|].
    destruct (N.lt_ge_cases s ss) as [L|L].
    + rewrite (ds_get_below s n r _ H3) in G by lia. discriminate.
    + destruct (IH _ _ H3 G) as [A B]. split; [exact A|]. intros k Hk.
      rewrite dget_cons. cbn [fst snd].
      assert (F : in_iv ss (nlen sd) (s + k) = false) by (unfold in_iv; lia). rewrite F. apply B. exact Hk.
Qed.

Lemma ds_get_none s n l : forall e, dwf_from e l -> 0 < n -> ds_get s n l = None ->
  exists k, k < n /\ dget (s + k) l = None.
Proof.
  induction l as [|[ss sd] r IH]; intros e H Hn G.
  - exists 0. split; [exact Hn|reflexivity].
  - pose proof H as Hall. cbn [dwf_from fst snd] in H. destruct H as (H1 & H2 & H3). cbn [ds_get] in G.
    destruct ((ss <=? s) && (s <? ss + nlen sd)) eqn:C.
    + destruct (nlen sd <? s - ss + n) eqn:C2; [|discriminate].
      (* the span falls short: the first offset after it is not held (no adjacent span) *)
      exists (ss + nlen sd - s). split; [lia|]. rewrite dget_cons. cbn [fst snd].
      assert (F : in_iv ss (nlen sd) (s + (ss + nlen sd - s)) = false) by (unfold in_iv; lia). rewrite F.
      apply (dget_below _ _ _ H3). lia.
    + destruct (N.lt_ge_cases s ss) as [L|L].
      * exists 0. split; [exact Hn|]. rewrite N.add_0_r.
        assert (Hss : dwf_from ss ((ss, sd) :: r)) by (cbn [dwf_from fst snd]; repeat split; [lia|assumption|assumption]).
        apply (dget_below _ ss _ Hss L).
      * destruct (s + n <=? ss) eqn:C2; [lia|].
        destruct (IH _ H3 Hn G) as (k & Hk & D). exists k. split; [exact Hk|].
        rewrite dget_cons. cbn [fst snd].
        assert (F : in_iv ss (nlen sd) (s + k) = false) by (unfold in_iv; lia). rewrite F. exact D.
Qed.

(* zero-length reads: b"" when `start` is held, None otherwise *)
Lemma ds_get_zero_length_from s l : forall e, dwf_from e l ->
  ds_get s 0 l = if is_some (dget s l) then Some [] else None.
Proof.
  induction l as [|[ss sd] r IH]; intros e H; [reflexivity|].
  cbn [dwf_from fst snd] in H. destruct H as (H1 & H2 & H3). cbn [ds_get]. rewrite dget_cons. cbn [fst snd].
  unfold in_iv. destruct ((ss <=? s) && (s <? ss + nlen sd)) eqn:C.
  - assert (C2 : (nlen sd <? s - ss + 0) = false) by lia. rewrite C2.
    rewrite nget_is_some. assert (C3 : (s - ss <? nlen sd) = true) by lia. rewrite C3. reflexivity.
  - destruct (s + 0 <=? ss) eqn:C2.
    + rewrite (dget_below _ _ _ H3) by lia. reflexivity.
    + apply (IH _ H3).
Qed.

Theorem ds_get_correct s n l : dwf l -> 0 < n ->
  forall bs, ds_get s n l = Some bs <->
             (nlen bs = n /\ forall k, k < n -> dget (s + k) l = nget bs k).
Proof.
  intros H Hn bs. split; [apply (ds_get_some s n l 0 bs H)|].
  intros [L A]. destruct (ds_get s n l) as [bs'|] eqn:G.
  - destruct (ds_get_some s n l 0 bs' H G) as [L' A']. f_equal.
    apply nget_ext; [lia|]. intros k Hk. rewrite <- A', <- A by lia. reflexivity.
  - destruct (ds_get_none s n l 0 H Hn G) as (k & Hk & D). rewrite (A k Hk) in D.
    destruct (nget_some bs k ltac:(lia)) as [v E]. congruence.
Qed.

Theorem ds_get_None_iff s n l : dwf l -> 0 < n ->
  (ds_get s n l = None <-> exists k, k < n /\ dget (s + k) l = None).
Proof.
  intros H Hn. split; [apply (ds_get_none s n l 0 H Hn)|].
  intros (k & Hk & D). destruct (ds_get s n l) as [bs|] eqn:G; [|reflexivity].
  destruct (ds_get_some s n l 0 bs H G) as [L A]. rewrite (A k Hk) in D.
  destruct (nget_some bs k ltac:(lia)) as [v E]. congruence.
Qed.

(* ---- len / get_spans ------------------------------------------------------------------------ *)
Lemma ds_get_spans_shape l : dwf l -> ds_get_spans l = Some (shape l).
Proof.
  intro H. unfold ds_get_spans. fold (shape l).
  pose proof (proj1 (shape_wf l 0) H) as W.
  destruct (spans_of_list_correct (shape l) (wf_all_pos _ _ W)) as (o & E & Wo & M).
  rewrite E. f_equal. apply (wf_unique _ _ Wo W M).
Qed.

Definition ds_offsets (l : dspans) : list N := spans_each (shape l).

Theorem ds_len_cardinality l : dwf l ->
  NoDup (ds_offsets l) /\
  (forall z, In z (ds_offsets l) <-> dget z l <> None) /\
  ds_len l = N.of_nat (length (ds_offsets l)).
Proof.
  intro H. pose proof (proj1 (shape_wf l 0) H) as W.
  destruct (spans_len_cardinality _ W) as (A & B & C). unfold ds_offsets.
  split; [exact A|]. split; [|rewrite <- shape_len; exact C].
  intro z. rewrite B, shape_mem. destruct (dget z l); cbn [is_some]; split; congruence.
Qed.

(* ---- histories --------------------------------------------------------------------------------- *)
Definition pmap := N -> option N.

Definition all_present (M : pmap) (s n : N) : bool := forallb (fun x => is_some (M x)) (nrange s n).

Definition map_step (M : pmap) (op : dop) : pmap :=
  match op with
  | DAdd s d => fun z => if in_iv s (nlen d) z then nget d (z - s) else M z     (* later write wins *)
  | DRemove s n => fun z => if in_iv s n z then None else M z
  | DGet _ _ => M
  | DPop s n => fun z => if all_present M s n && in_iv s n z then None else M z (* get, then remove *)
  end.

Definition map_run (ops : list dop) : pmap := fold_left map_step ops (fun _ => None).

Lemma forallb_ext' {A} (f g : A -> bool) l : (forall x, f x = g x) -> forallb f l = forallb g l.
Proof. intro E. induction l as [|x l IH]; cbn [forallb]; [reflexivity|]. rewrite E, IH. reflexivity. Qed.

Lemma all_present_ext M M' s n : (forall z, M z = M' z) -> all_present M s n = all_present M' s n.
Proof. intro E. unfold all_present. apply forallb_ext'. intro x. rewrite E. reflexivity. Qed.

Lemma map_step_ext M M' op : (forall z, M z = M' z) -> forall z, map_step M op z = map_step M' op z.
Proof.
  intros E z. destruct op; cbn [map_step]; rewrite ?E; try reflexivity.
  rewrite (all_present_ext M M' s n E). reflexivity.
Qed.

Lemma all_present_spec M s n : all_present M s n = true <-> forall k, k < n -> M (s + k) <> None.
Proof.
  unfold all_present. rewrite forallb_forall. split.
  - intros A k Hk. specialize (A (s + k)). rewrite In_nrange in A.
    destruct (M (s + k)); [discriminate|]. specialize (A ltac:(lia)). discriminate.
  - intros A x Hx. apply In_nrange in Hx. specialize (A (x - s) ltac:(lia)).
    replace (s + (x - s)) with x in A by lia. destruct (M x); [reflexivity|congruence].
Qed.

Theorem ds_pop_correct s n l : dwf l ->
  fst (ds_pop s n l) = ds_get s n l /\
  dwf (snd (ds_pop s n l)) /\
  forall z, dget z (snd (ds_pop s n l)) =
            if all_present (fun x => dget x l) s n && in_iv s n z then None else dget z l.
Proof.
  intro H. unfold ds_pop. destruct (ds_get s n l) as [[|b bs]|] eqn:G; cbn [fst snd].
  - (* b"": n = 0, nothing removed *)
    destruct (ds_get_some s n l 0 _ H G) as [L _]. rewrite nlen_nil in L. subst n.
    repeat split; [exact H|]. intro z.
    assert (F : in_iv s 0 z = false) by (unfold in_iv; lia). rewrite F, andb_false_r. reflexivity.
  - destruct (ds_get_some s n l 0 _ H G) as [L A].
    destruct (ds_remove_correct s n l 0 H) as [W M].
    repeat split; [exact W|]. intro z. rewrite M.
    assert (P : all_present (fun x => dget x l) s n = true).
    { apply all_present_spec. intros k Hk. rewrite (A k Hk).
      destruct (nget_some (b :: bs) k ltac:(lia)) as [v ->]. discriminate. }
    rewrite P. reflexivity.
  - repeat split; [exact H|]. intro z.
    destruct (N.eq_dec n 0) as [->|Hn].
    + assert (F : in_iv s 0 z = false) by (unfold in_iv; lia). rewrite F, andb_false_r. reflexivity.
    + destruct (ds_get_none s n l 0 H ltac:(lia) G) as (k & Hk & D).
      assert (P : all_present (fun x => dget x l) s n = false).
      { destruct (all_present (fun x => dget x l) s n) eqn:P; [|reflexivity].
        exfalso. apply (proj1 (all_present_spec _ _ _) P k Hk). exact D. }
      rewrite P. reflexivity.
Qed.

Theorem ds_step_correct l op : dwf l ->
  exists l', ds_step l op = Some l' /\ dwf l' /\
             forall z, dget z l' = map_step (fun x => dget x l) op z.
Proof.
  intro H. destruct op as [s d|s n|s n|s n]; cbn [ds_step map_step].
  - apply (ds_add_correct s d l H).
  - destruct (ds_remove_correct s n l 0 H) as [W M]. eauto.
  - exists l. repeat split. exact H.
  - destruct (ds_pop_correct s n l H) as (_ & W & M). eauto.
Qed.

Lemma map_fold_ext ops : forall M M', (forall z, M z = M' z) ->
  forall z, fold_left map_step ops M z = fold_left map_step ops M' z.
Proof.
  induction ops as [|op ops IH]; intros M M' E z; cbn [fold_left]; [apply E|].
  apply IH. apply map_step_ext. exact E.
Qed.

Lemma ds_run_from ops : forall l M, dwf l -> (forall z, dget z l = M z) ->
  exists l', fold_left (fun st op => bind st (fun l => ds_step l op)) ops (Some l) = Some l' /\
             dwf l' /\ forall z, dget z l' = fold_left map_step ops M z.
Proof.
  induction ops as [|op ops IH]; intros l M H E.
  - exists l. repeat split; assumption.
  - destruct (ds_step_correct l op H) as (l1 & E1 & W1 & M1).
    cbn [fold_left bind]. rewrite E1.
    apply (IH l1 (map_step M op) W1).
    intro z. rewrite M1. apply map_step_ext. exact E.
Qed.

Theorem ds_run_correct ops :
  exists l, ds_run ops = Some l /\ dwf l /\ forall z, dget z l = map_run ops z.
Proof. apply (ds_run_from ops [] (fun _ => None) I). intro z. reflexivity. Qed.

(* the invariant spelled out *)
Lemma dwf_spelled_out l : dwf l <->
  (forall sp, In sp l -> snd sp <> []) /\
  (forall p x y q, l = p ++ x :: y :: q -> fst x + nlen (snd x) < fst y).
Proof.
  unfold dwf. rewrite shape_wf. fold (wf (shape l)). rewrite wf_spelled_out. split; intros [A B]; split.
  - intros sp Hin E. specialize (A (fst sp, nlen (snd sp))). cbn [snd] in A. rewrite E in A.
    assert (Hi : In (fst sp, nlen []) (shape l)).
    { unfold shape. rewrite <- E. apply (in_map (fun sp => (fst sp, nlen (snd sp)))). exact Hin. }
    specialize (A Hi). rewrite nlen_nil in A. lia.
  - intros p x y q E. specialize (B (shape p) (fst x, nlen (snd x)) (fst y, nlen (snd y)) (shape q)).
    cbn [fst snd] in B. apply B. subst l. unfold shape. rewrite map_app. reflexivity.
  - intros sp Hin. unfold shape in Hin. apply in_map_iff in Hin. destruct Hin as (x & <- & Hx).
    cbn [snd]. specialize (A x Hx). destruct (snd x); [congruence|]. rewrite nlen_cons. lia.
  - intros p x y q E. unfold shape in E.
    apply map_eq_app in E. destruct E as (p' & t & -> & <- & E).
    apply map_eq_cons in E. destruct E as (x' & t' & -> & <- & E).
    apply map_eq_cons in E. destruct E as (y' & q' & -> & <- & E).
    cbn [fst snd]. apply (B p' x' y' q'). reflexivity.
Qed.
