(* C46: progress measure of the segment queue + readers.  Every step the system takes
   by itself -- a queued _maybe_fetch_next or _deliver runs, the active fetcher calls
   process_blocks or fetch_failed -- strictly decreases `weight`; what the outside
   does (a new read, a consumer's resume) may increase it by a bounded amount, pause
   and stop never do.  So between two outside calls only finitely many steps happen. *)
From Coq Require Import List NArith Bool Arith Lia.
From Verif Require Import Model.SegQueue Proofs.SegQueueBase Proofs.SegQueueRange Proofs.SegQueueLive.
Import ListNotations.

Definition retry (known : bool) (r : reader) : nat :=
  match rd_active r with
  | Some (_, _, false) => 1
  | Some (_, _, true) => 0
  | None => if known then 0 else 1
  end.

Definition pot (known : bool) (r : reader) : nat :=
  rd_mfn r +
  match rd_result r with
  | Some _ => 0
  | None => 3 * N.to_nat (rd_size r) + 3 * retry known r + match rd_active r with None => 2 | Some _ => 0 end
  end.

Definition weight (s : sys) : nat :=
  list_sum (map (pot (s_known s)) (s_readers s)) + 2 * length (s_reqs s) + length (s_deliveries s).

(* the steps the system takes by itself, and when they can happen *)
Definition system_step (s : sys) (e : sev) : Prop :=
  match e with
  | SMaybeFetch i => exists r, nth_error (s_readers s) i = Some r /\ rd_mfn r > 0
  | SFetchFailed _ | SBlocks _ _ => s_active s <> None
  | SDeliver _ => s_deliveries s <> []
  | _ => False
  end.

Lemma sum_set_nth {A} (f : A -> nat) i x y l :
  nth_error l i = Some x -> list_sum (map f (set_nth i y l)) + f x = list_sum (map f l) + f y.
Proof.
  unfold list_sum. revert i. induction l as [|z r IH]; intros [|i] H; cbn [nth_error set_nth map fold_right] in *; try discriminate.
  - inversion H; subst. lia.
  - specialize (IH i H). lia.
Qed.

Lemma filter_split_length {A} (f : A -> bool) l :
  length (filter f l) + length (filter (fun x => negb (f x)) l) = length l.
Proof. induction l as [|x r IH]; cbn [filter length]; [reflexivity|]. destruct (f x); cbn [negb length]; lia. Qed.

Section Measure.
  Variable ct : list N.
  Variables segsize guess : N.

  Notation mfn := (maybe_fetch_next segsize guess).
  Notation fired := (reader_fired ct segsize guess).
  Notation step := (sstep true ct segsize guess).

  Lemma weight_set_reader s i r0 r :
    nth_error (s_readers s) i = Some r0 ->
    weight (set_reader s i r) + pot (s_known s) r0 = weight s + pot (s_known s) r.
  Proof.
    intros H. unfold weight, set_reader. cbn [s_known s_readers s_reqs s_deliveries].
    pose proof (sum_set_nth (pot (s_known s)) i r0 r _ H). lia.
  Qed.

  Lemma mfn_weight s i r0 r :
    nth_error (s_readers s) i = Some r0 -> (rd_alive r = true -> rd_result r = None) ->
    weight (fst (mfn s i r)) + pot (s_known s) r0 <= weight s + pot (s_known s) r.
  Proof.
    intros H Hal. destruct (mfn_cases segsize guess s i r) as [Idle|A Hg Ac Z|w A Hg Ac NZ]; cbn [fst].
    - pose proof (weight_set_reader s i r0 r H). lia.
    - pose proof (weight_set_reader s i r0 (rd_finish r RDone) H). unfold pot in *. cbn [rd_finish rd_result rd_mfn] in *. lia.
    - destruct (get_segment_fields s w) as (R & Nx & In & D & K & Rd & _). cbn zeta in *.
      set (s1 := fst (fst (get_segment s w))) in *.
      assert (H1 : nth_error (s_readers s1) i = Some r0) by now rewrite Rd.
      pose proof (weight_set_reader s1 i r0 (rd_set_active r (Some (w, s_next_rid s, s_known s))) H1) as W.
      rewrite K in W.
      assert (weight s1 = weight s + 2) as W1.
      { unfold weight. rewrite K, Rd, R, D, app_length. cbn [length]. lia. }
      assert (pot (s_known s) (rd_set_active r (Some (w, s_next_rid s, s_known s))) + 2 = pot (s_known s) r) as P.
      { unfold pot, retry. cbn [rd_set_active rd_result rd_active rd_mfn rd_size]. rewrite (Hal A), Ac. destruct (s_known s); lia. }
      lia.
  Qed.

  Lemma fired_weight s i r sg rid k res react :
    nth_error (s_readers s) i = Some r -> rd_active r = Some (sg, rid, k) -> rd_result r = None -> rd_alive r = true ->
    ((exists n, res = SegData n) \/ res = SegErr EBadSegNum -> s_known s = true) ->
    weight (fst (fired s i r k res react)) <= weight s.
  Proof.
    intros H Ea Rr Al Hk. unfold reader_fired.
    set (r0 := rd_set_active r None).
    (* retrying: the request was made with a guessed size and the size is known now *)
    assert (Retry : k = false -> s_known s = true -> weight (fst (mfn s i r0)) <= weight s).
    { intros Ek Kn. pose proof (mfn_weight s i r r0 H) as M.
      assert (pot (s_known s) r0 + 1 = pot (s_known s) r) as P.
      { unfold pot, retry, r0. cbn [rd_set_active rd_result rd_active rd_mfn rd_size]. rewrite Rr, Ea, Ek, Kn. lia. }
      specialize (M ltac:(intros _; exact Rr)). lia. }
    assert (Err : forall x, weight (fst (rd_error s i r0 x)) <= weight s).
    { intros x. cbn [rd_error fst]. pose proof (weight_set_reader s i r (rd_finish r0 x) H) as W.
      assert (pot (s_known s) (rd_finish r0 x) <= pot (s_known s) r).
      { unfold pot, r0. cbn [rd_finish rd_set_active rd_result rd_mfn]. lia. }
      lia. }
    destruct res as [segnum|e].
    - assert (Kn : s_known s = true) by (apply Hk; left; eauto).
      destruct (overlap _ _ _ _) as [[o0 o1]|] eqn:Ho.
      + destruct (N.eqb_spec o0 (rd_offset r0)) as [E|NE].
        * subst o0.
          set (data := slice _ _ _).
          assert (1 <= length data <= N.to_nat (rd_size r)) as Hd.
          { unfold overlap in Ho.
            destruct (N.ltb_spec (N.max (segnum * segsize) (rd_offset r0)) (N.min (segnum * segsize + N.of_nat (length (seg_data ct segsize segnum))) (rd_offset r0 + rd_size r0))) as [Hlt|]; [|discriminate].
            injection Ho as Emax Eo1.
            assert (length data = N.to_nat o1).
            { unfold data, slice. rewrite firstn_length, skipn_length. cbn [r0 rd_set_active rd_offset rd_size] in *. lia. }
            cbn [r0 rd_set_active rd_offset rd_size] in *. lia. }
          set (r1 := mk_reader _ _ _ _ None _ _ _ _ _).
          assert (pot (s_known s) r1 + 1 <= pot (s_known s) r) as P.
          { unfold pot, retry, r1. cbn [rd_result rd_active rd_mfn rd_size r0 rd_set_active]. rewrite Rr, Ea, Kn. destruct k; lia. }
          destruct react.
          -- destruct (mfn s i r1) as [s2 o] eqn:M. cbn [fst].
             pose proof (mfn_weight s i r r1 H) as W. rewrite M in W. cbn [fst] in W.
             specialize (W ltac:(intros _; exact Rr)). lia.
          -- cbn [fst]. pose proof (weight_set_reader s i r (rd_set_flags r1 false (rd_alive r1)) H) as W.
             assert (pot (s_known s) (rd_set_flags r1 false (rd_alive r1)) = pot (s_known s) r1) by reflexivity. lia.
          -- cbn [fst]. pose proof (weight_set_reader s i r (rd_finish r1 RStopped) H) as W.
             assert (pot (s_known s) (rd_finish r1 RStopped) <= pot (s_known s) r1).
             { unfold pot. cbn [rd_finish rd_result rd_mfn]. destruct (rd_result r1); lia. }
             lia.
        * destruct k; [apply Err|now apply Retry].
      + destruct k; [apply Err|now apply Retry].
    - destruct e, k; try apply Err. apply Retry; [reflexivity|]. apply Hk. now right.
  Qed.

  Lemma finish_weight s fid seg res :
    queue_ok s -> s_active s = Some (fid, seg) ->
    weight (fst (start_new (extract (clear_active s) seg res))) < weight s.
  Proof.
    intros Q A.
    destruct (start_new_fields (extract (clear_active s) seg res)) as (F1 & F2 & F3 & F4 & F5 & F6).
    destruct (extract_fields (clear_active s) seg res) as (E1 & E2 & E3 & E4 & E5 & E6 & E7).
    unfold weight. rewrite F1, F4, F5, F6, E4, E5, E6, E7. cbn [clear_active upd_node s_known s_readers s_reqs s_deliveries].
    rewrite app_length, map_length.
    pose proof (filter_split_length (fun r => N.eqb (r_seg r) seg) (s_reqs s)) as Sp.
    assert (1 <= length (filter (fun r => N.eqb (r_seg r) seg) (s_reqs s))) as Hit.
    { unfold queue_ok, segs in Q. rewrite A in Q. apply in_map_iff in Q. destruct Q as (q & E & Hq).
      assert (In q (filter (fun r => N.eqb (r_seg r) seg) (s_reqs s))) as X by (apply filter_In; split; [exact Hq|now apply N.eqb_eq]).
      remember (filter (fun r => N.eqb (r_seg r) seg) (s_reqs s)) as fl. destruct fl; [destruct X|cbn [length]; lia]. }
    lia.
  Qed.

  (* progress_measure *)
  Lemma step_weight s e :
    LInv s -> queue_ok s -> sev_ok s e -> system_step s e -> weight (fst (step s e)) < weight s.
  Proof.
    intros L Q Hok Hsys. destruct e as [off sz|i|i|i|i| |e|ok e|react]; cbn [system_step sstep] in *; try contradiction.
    - destruct Hsys as (r & E & M). rewrite E. destruct (rd_mfn r) as [|n] eqn:Mf; [lia|].
      pose proof (mfn_weight s i r (rd_set_mfn r n) E) as W.
      assert (pot (s_known s) (rd_set_mfn r n) + 1 = pot (s_known s) r) as P.
      { unfold pot, retry. cbn [rd_set_mfn rd_result rd_active rd_mfn rd_size]. rewrite Mf. lia. }
      assert (rd_alive (rd_set_mfn r n) = true -> rd_result (rd_set_mfn r n) = None) as Hal.
      { cbn. intros Al. destruct (rd_result r) eqn:Rr; [|reflexivity].
        destruct (l_finished _ s L i r E) as [_ X]; congruence. }
      specialize (W Hal). lia.
    - destruct (s_active s) as [[fid seg]|] eqn:A; [|contradiction]. now apply (finish_weight s fid seg).
    - destruct (s_active s) as [[fid seg]|] eqn:A; [|contradiction]. destruct ok; now apply (finish_weight s fid seg).
    - destruct (s_deliveries s) as [|[rid res] rest] eqn:D; [contradiction|].
      cbn [upd_node s_inactive s_reqs s_active s_next_fid s_next_rid s_readers s_known].
      assert (Pop : forall s0 inact, s_known s0 = s_known s -> s_readers s0 = s_readers s ->
                     weight (upd_node s0 (s_reqs s) (s_active s) (s_next_fid s) (s_next_rid s) inact rest) + 1 = weight s).
      { intros s0 inact K R. unfold weight. cbn [upd_node s_known s_readers s_reqs s_deliveries]. rewrite K, R, D. cbn [length]. lia. }
      destruct (nmem rid (s_inactive s)); [cbn [fst]; specialize (Pop s (s_inactive s) eq_refl eq_refl); lia|].
      set (s1 := upd_node s (s_reqs s) (s_active s) (s_next_fid s) (s_next_rid s) (s_inactive s) rest).
      destruct (find_reader rid (s_readers s) 0) as [[[i r] k]|] eqn:F;
        [|cbn [fst]; specialize (Pop s1 (rid :: s_inactive s) eq_refl eq_refl); lia].
      destruct (find_reader_spec _ _ _ _ _ _ F) as (_ & Nth & (sg & Ea)). rewrite Nat.sub_0_r in Nth.
      set (s2 := upd_node s1 _ _ _ _ _ rest).
      assert (Rr : rd_result r = None).
      { destruct (rd_result r) eqn:Rr; [|reflexivity]. destruct (l_finished _ s L i r Nth) as [X _]; congruence. }
      pose proof (fired_weight s2 i r sg rid k res react Nth Ea Rr) as W.
      destruct (fired s2 i r k res react) as [s3 o]. cbn [fst] in *.
      specialize (Pop s1 (rid :: s_inactive s) eq_refl eq_refl). fold s2 in Pop.
      assert (weight s3 <= weight s2); [|lia]. apply W.
      + eapply (l_alive _ s L); eauto. discriminate.
      + intros X. apply (l_known _ s L (rid, res)); [rewrite D; now left|exact X].
  Qed.

  (* what the outside can do *)
  Lemma pause_stop_weight s i : weight (fst (step s (SPause i))) <= weight s.
  Proof.
    cbn [sstep]. destruct (nth_error _ i) as [r|] eqn:E; [|cbn [fst]; lia]. destruct (rd_result r) eqn:Rr; [cbn [fst]; lia|]. cbn [fst].
    pose proof (weight_set_reader s i r (rd_set_flags r false (rd_alive r)) E).
    assert (pot (s_known s) (rd_set_flags r false (rd_alive r)) = pot (s_known s) r) by reflexivity. lia.
  Qed.

  Lemma resume_weight s i : weight (fst (step s (SResume i))) <= weight s + 1.
  Proof.
    cbn [sstep]. destruct (nth_error _ i) as [r|] eqn:E; [|cbn [fst]; lia]. destruct (rd_result r) eqn:Rr; [cbn [fst]; lia|]. cbn [fst].
    pose proof (weight_set_reader s i r (rd_set_mfn (rd_set_flags r true (rd_alive r)) (S (rd_mfn r))) E).
    assert (pot (s_known s) (rd_set_mfn (rd_set_flags r true (rd_alive r)) (S (rd_mfn r))) = pot (s_known s) r + 1).
    { unfold pot, retry. cbn. lia. }
    lia.
  Qed.
End Measure.
