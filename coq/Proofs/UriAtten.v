(* C16: attenuation (get_readonly / get_verify_cap), flags, alleged prefixes,
   UnknownNode constructor rules. *)
From Coq Require Import String List NArith ZArith PeanoNat Bool Lia.
From Verif Require Import Lib.Hex Lib.Bytes Lib.Decimal Gen.Hashutil Gen.Uri Model.UriBase32 Model.Uri Model.UriNodes
  Proofs.UriBase32 Proofs.UriParse.
Import ListNotations.
Local Open Scope N_scope.

Local Opaque ssk_readkey_hash ssk_storage_index_hash storage_index_hash.

(* ------------------------------------------------------ derivation chain *)
Lemma chain_file f :
  storage_index_f (get_readonly_f f) = storage_index_f f
  /\ integrity_f (get_readonly_f f) = integrity_f f
  /\ get_verify_f (get_readonly_f f) = get_verify_f f
  /\ (forall v, get_verify_f f = Some v -> storage_index_f v = storage_index_f f /\ integrity_f v = integrity_f f).
Proof.
  destruct f; cbn; repeat split; intros; try reflexivity;
    match goal with H : Some _ = Some _ |- _ => injection H as <-; reflexivity | H : None = Some _ |- _ => discriminate end.
Qed.

Theorem chain_same_si_fingerprint_ok c :
  (forall r, get_readonly c = Some r ->
     storage_index r = storage_index c /\ integrity r = integrity c /\ get_verify_cap r = get_verify_cap c)
  /\ (forall v, get_verify_cap c = Some v -> storage_index v = storage_index c /\ integrity v = integrity c).
Proof.
  destruct c as [f|f|s e]; cbn [get_readonly get_verify_cap]; split; intros x H; try discriminate.
  - injection H as <-. destruct (chain_file f) as (A & B & C & _).
    unfold storage_index, integrity. cbn [inner get_verify_cap]. rewrite A, B, C. auto.
  - destruct (get_verify_f f) as [v|] eqn:E; [|discriminate]. injection H as <-.
    destruct (chain_file f) as (_ & _ & _ & D). destruct (D v E) as [A B].
    unfold storage_index, integrity. cbn [inner]. auto.
  - injection H as <-. destruct (chain_file f) as (A & B & C & _).
    unfold storage_index, integrity. cbn [inner get_verify_cap]. rewrite A, B, C. auto.
  - destruct (get_verify_f f) as [v|] eqn:E; [|discriminate]. injection H as <-.
    destruct (chain_file f) as (_ & _ & _ & D). destruct (D v E) as [A B].
    unfold storage_index, integrity. cbn [inner]. auto.
Qed.

(* the storage index along the chain is the documented derivation *)
Theorem chain_derivation_ok :
  (forall wk fp, storage_index (CFile (SSK wk fp)) = Some (ssk_storage_index_hash (ssk_readkey_hash wk))
                 /\ get_readonly (CFile (SSK wk fp)) = Some (CFile (SSKRO (ssk_readkey_hash wk) fp))
                 /\ get_verify_cap (CFile (SSK wk fp)) = Some (CFile (SSKVerifier (ssk_storage_index_hash (ssk_readkey_hash wk)) fp)))
  /\ (forall wk fp, storage_index (CFile (MDMF wk fp)) = Some (ssk_storage_index_hash (ssk_readkey_hash wk))
                 /\ get_readonly (CFile (MDMF wk fp)) = Some (CFile (MDMFRO (ssk_readkey_hash wk) fp))
                 /\ get_verify_cap (CFile (MDMF wk fp)) = Some (CFile (MDMFVerifier (ssk_storage_index_hash (ssk_readkey_hash wk)) fp)))
  /\ (forall key ueb k n size, get_verify_cap (CFile (CHK key ueb k n size)) = Some (CFile (CHKVerifier (storage_index_hash key) ueb k n size))).
Proof. repeat split. Qed.

(* ------------------------------------------------------ no stronger secret *)
Theorem readonly_has_no_writekey_ok c r : get_readonly c = Some r -> writekey_of r = None.
Proof.
  destruct c as [f|f|s e]; cbn [get_readonly]; intro H; try discriminate; injection H as <-;
    destruct f; reflexivity.
Qed.

Theorem verify_has_no_readkey_ok c v : get_verify_cap c = Some v -> readkey_of v = None /\ writekey_of v = None.
Proof.
  destruct c as [f|f|s e]; cbn [get_verify_cap]; intro H; try discriminate;
    destruct f; cbn in H; try discriminate; injection H as <-; split; reflexivity.
Qed.

(* the diminished cap is a function of the *hash* of the stronger secret only *)
Theorem readonly_factors_through_hash_ok wk wk' fp :
  ssk_readkey_hash wk = ssk_readkey_hash wk' ->
  get_readonly_f (SSK wk fp) = get_readonly_f (SSK wk' fp) /\ get_readonly_f (MDMF wk fp) = get_readonly_f (MDMF wk' fp).
Proof. intro H. cbn. rewrite H. split; reflexivity. Qed.

Theorem verify_factors_through_hash_ok rk rk' fp :
  ssk_storage_index_hash rk = ssk_storage_index_hash rk' ->
  get_verify_f (SSKRO rk fp) = get_verify_f (SSKRO rk' fp) /\ get_verify_f (MDMFRO rk fp) = get_verify_f (MDMFRO rk' fp).
Proof. intro H. cbn. rewrite H. split; reflexivity. Qed.

(* ------------------------------------------------------------------ flags *)
Theorem flags_sound_ok c :
  (is_readonly c = Some false <-> writekey_of c <> None)
  /\ (is_mutable c = Some false -> writekey_of c = None)
  /\ (forall r, get_readonly c = Some r -> is_readonly r = Some true /\ is_mutable r = is_mutable c)
  /\ (forall v, get_verify_cap c = Some v -> is_readonly v = Some true /\ is_mutable v = Some false)
  /\ (is_readonly c = Some true -> get_readonly c = Some c).
Proof.
  destruct c as [f|f|s e]; cbn [is_readonly is_mutable inner option_map writekey_of get_readonly get_verify_cap].
  1,2: repeat split; intros; destruct f; cbn in *; try congruence; try discriminate;
    repeat match goal with
           | H : Some _ = Some _ |- _ => injection H as <-
           | H : _ <> _ |- _ => solve [exfalso; apply H; reflexivity]
           end; try reflexivity; try discriminate.
  repeat split; intros; try discriminate. exfalso. apply H. reflexivity.
Qed.

Lemma kind_of_get_readonly f : kind_of (get_readonly_f f) = ro_kind (kind_of f).
Proof. destruct f; reflexivity. Qed.

Lemma kind_of_get_verify f : option_map kind_of (get_verify_f f) = verify_kind (kind_of f).
Proof. destruct f; reflexivity. Qed.

(* ------------------------------------------------------- alleged prefixes *)
Lemma strip_alleged_ro di s : exists cbm, strip_alleged di (ro_prefix ++ s) = (cbm, false, s).
Proof.
  unfold strip_alleged.
  assert (strip_prefix imm_prefix (ro_prefix ++ s) = None) as -> by (vm_compute; reflexivity).
  rewrite strip_prefix_app. eexists. reflexivity.
Qed.

Lemma strip_alleged_imm di s : strip_alleged di (imm_prefix ++ s) = (false, false, s).
Proof. unfold strip_alleged. rewrite strip_prefix_app. reflexivity. Qed.

Lemma strip_alleged_deep u : exists s, strip_alleged true u = (false, false, s).
Proof.
  unfold strip_alleged. destruct (strip_prefix imm_prefix u); [eexists; reflexivity|].
  destruct (strip_prefix ro_prefix u); eexists; reflexivity.
Qed.

Lemma inner_mk_cap dir f : inner (mk_cap dir f) = Some f.
Proof. destruct dir; reflexivity. Qed.

Lemma not_writeable_when di u c cbm s : strip_alleged di u = (cbm, false, s) ->
  from_string di u = Ok c -> is_readonly c <> Some false.
Proof.
  intros Ea H. destruct (known c) eqn:K; [|destruct c; [discriminate K|discriminate K|cbn; discriminate]].
  destruct (from_string_known di u c H K) as (cbm' & cbw' & s' & dir & f & g & ext & Ea' & -> & Hin & G & _).
  rewrite Ea in Ea'. injection Ea' as <- <- <-.
  unfold is_readonly. rewrite inner_mk_cap. cbn [option_map]. unfold is_readonly_f. intro R. injection R as R.
  destruct (dispatch_guards dir (kind_of f) g Hin) as [W _]. rewrite (W R) in G. discriminate G.
Qed.

Lemma not_mutable_when di u c s : strip_alleged di u = (false, false, s) ->
  from_string di u = Ok c -> is_mutable c <> Some true.
Proof.
  intros Ea H. destruct (known c) eqn:K; [|destruct c; [discriminate K|discriminate K|cbn; discriminate]].
  destruct (from_string_known di u c H K) as (cbm' & cbw' & s' & dir & f & g & ext & Ea' & -> & Hin & G & _).
  rewrite Ea in Ea'. injection Ea' as <- <- <-.
  unfold is_mutable. rewrite inner_mk_cap. cbn [option_map]. unfold is_mutable_f. intro R. injection R as R.
  destruct (dispatch_guards dir (kind_of f) g Hin) as [_ M]. destruct (M R) as [-> | ->]; discriminate G.
Qed.

Theorem alleged_prefix_never_upgrades_ok di s c :
  (from_string di (ro_prefix ++ s) = Ok c -> is_readonly c <> Some false)
  /\ (from_string di (imm_prefix ++ s) = Ok c -> is_readonly c <> Some false /\ is_mutable c <> Some true)
  /\ (from_string true s = Ok c -> is_readonly c <> Some false /\ is_mutable c <> Some true).
Proof.
  split; [|split]; intro H; [|split|split].
  - destruct (strip_alleged_ro di s) as [cbm E]. exact (not_writeable_when _ _ _ _ _ E H).
  - exact (not_writeable_when _ _ _ _ _ (strip_alleged_imm di s) H).
  - exact (not_mutable_when _ _ _ _ (strip_alleged_imm di s) H).
  - destruct (strip_alleged_deep s) as [s' E]. exact (not_writeable_when _ _ _ _ _ E H).
  - destruct (strip_alleged_deep s) as [s' E]. exact (not_mutable_when _ _ _ _ E H).
Qed.

(* a cap refused because of its context keeps the whole string and records why *)
Theorem constraint_violation_is_unknown_ok di u c cbm cbw s dir k g :
  strip_alleged di u = (cbm, cbw, s) ->
  find (fun e => starts_with (entry_prefix e) s) dispatch = Some (dir, k, g) ->
  guard_ok g cbm cbw = false ->
  from_string di u = Ok c -> c = CUnknown u (constraint_error cbm).
Proof.
  intros Ea Ef G. unfold from_string. rewrite Ea, Ef, G. intro H. injection H as <-. reflexivity.
Qed.

(* ------------------------------------------------------------ UnknownNode *)
Lemma phase3_props rw ro di :
  let n := unknown_phase3 rw ro di in
  un_error n = ENone
  /\ (di = true -> un_rw n = None)
  /\ (forall r, un_ro n = Some r -> starts_with ro_prefix r = true \/ starts_with imm_prefix r = true)
  /\ (di = true -> forall r, un_ro n = Some r -> starts_with imm_prefix r = true)
  /\ (un_rw n = rw \/ un_rw n = None)
  /\ (ro = None -> un_ro n = None).
Proof.
  unfold unknown_phase3. destruct di; cbn [un_error un_rw un_ro]; repeat split; try tauto; try discriminate.
  - intros r. destruct ro as [x|]; [|discriminate]. destruct (starts_with imm_prefix x) eqn:E.
    + intro H. injection H as <-. right. exact E.
    + destruct (strip_prefix ro_prefix x) as [t|]; intro H; injection H as <-; right;
        [exact (starts_with_app imm_prefix t)|exact (starts_with_app imm_prefix x)].
  - intros _ r. destruct ro as [x|]; [|discriminate]. destruct (starts_with imm_prefix x) eqn:E.
    + intro H. injection H as <-. exact E.
    + destruct (strip_prefix ro_prefix x) as [t|]; intro H; injection H as <-;
        [exact (starts_with_app imm_prefix t)|exact (starts_with_app imm_prefix x)].
  - intros ->. reflexivity.
  - intros r. destruct ro as [x|]; [|discriminate].
    destruct (starts_with ro_prefix x) eqn:E1; cbn [orb].
    + intro H. injection H as <-. left. exact E1.
    + destruct (starts_with imm_prefix x) eqn:E2; intro H; injection H as <-; [right; exact E2|left; exact (starts_with_app ro_prefix x)].
  - intros ->. reflexivity.
Qed.

Lemma phase1_props rw ro di rw' ro' : unknown_phase1 rw ro di = inr (rw', ro') ->
  (di = true -> rw' = None)
  /\ (rw' <> None -> rw' = rw /\ ro' = ro /\ ro <> None)
  /\ (ro' = None -> rw' = None).
Proof.
  unfold unknown_phase1. destruct rw as [w|].
  - destruct di.
    + destruct (starts_with imm_prefix w && is_none ro) eqn:E.
      * apply andb_true_iff in E. destruct E as [E1 E2]. destruct ro; [discriminate E2|].
        rewrite E1, orb_true_r. cbn [negb]. intro H. injection H as <- <-.
        repeat split; try congruence; intros; exfalso; auto.
      * destruct (is_none ro); discriminate.
    + destruct ro as [r|].
      * destruct (starts_with imm_prefix r); [discriminate|]. intro H. injection H as <- <-.
        repeat split; try discriminate; congruence.
      * destruct (negb (starts_with ro_prefix w || starts_with imm_prefix w)); [discriminate|].
        intro H. injection H as <- <-. repeat split; try congruence; intros; exfalso; auto.
  - intro H. injection H as <- <-. repeat split; try congruence; intros; exfalso; auto.
Qed.

Theorem unknown_node_rules_ok rw ro di n : unknown_node rw ro di = UOk n ->
  (* deep-immutable context: never a write cap *)
  (di = true -> un_rw n = None)
  (* an error makes the node opaque *)
  /\ (un_error n <> ENone -> un_rw n = None /\ un_ro n = None)
  (* the read slot always carries an alleged prefix, imm. in an immutable context *)
  /\ (forall r, un_ro n = Some r -> starts_with ro_prefix r = true \/ starts_with imm_prefix r = true)
  /\ (di = true -> forall r, un_ro n = Some r -> starts_with imm_prefix r = true)
  (* a write cap is kept only as given, and only together with a separate read cap *)
  /\ (forall w, un_rw n = Some w -> or_none rw = Some w /\ or_none ro <> None /\ un_ro n <> None).
Proof.
  unfold unknown_node. destruct (unknown_phase1 (or_none rw) (or_none ro) di) as [e|[rw' ro']] eqn:E1.
  - unfold opaque. intro H. injection H as <-. cbn [un_error un_rw un_ro].
    split; [reflexivity|]. split; [split; reflexivity|]. split; [discriminate|]. split; [discriminate|]. discriminate.
  - assert (P3 : forall m, m = unknown_phase3 rw' ro' di ->
       (di = true -> un_rw m = None)
       /\ (un_error m <> ENone -> un_rw m = None /\ un_ro m = None)
       /\ (forall r, un_ro m = Some r -> starts_with ro_prefix r = true \/ starts_with imm_prefix r = true)
       /\ (di = true -> forall r, un_ro m = Some r -> starts_with imm_prefix r = true)
       /\ (forall w, un_rw m = Some w -> or_none rw = Some w /\ or_none ro <> None /\ un_ro m <> None)).
    { intros m ->. destruct (phase3_props rw' ro' di) as (A & B & C & D & F & G).
      destruct (phase1_props _ _ _ _ _ E1) as (P & Q & R).
      split; [exact B|]. split; [intro X; exfalso; apply X; exact A|]. split; [exact C|]. split; [exact D|].
      intros w H. destruct F as [F|F]; rewrite F in H; [|discriminate]. assert (rw' <> None) as N by congruence.
      destruct (Q N) as (Q1 & Q2 & Q3). split; [congruence|]. split; [exact Q3|].
      subst ro'. unfold unknown_phase3. destruct di; [specialize (P eq_refl); congruence|]. cbn [un_ro].
      destruct (or_none ro) as [x|]; [|congruence].
      destruct (starts_with ro_prefix x || starts_with imm_prefix x); discriminate. }
    destruct ro' as [r|].
    + destruct (from_string di r) as [c| |]; try discriminate.
      destruct c as [f|f|s e]; try (intro H; injection H as <-; apply P3; reflexivity).
      destruct e; try (intro H; injection H as <-; apply P3; reflexivity);
        unfold opaque; intro H; injection H as <-; cbn [un_error un_rw un_ro];
        (split; [reflexivity|]; split; [split; reflexivity|]; split; [discriminate|]; split; [discriminate|]; discriminate).
    + intro H. injection H as <-. apply P3. reflexivity.
Qed.

(* --------------------------------------------------- NodeMaker node cache *)
Lemma memokey_inj di s di' s' : memokey di s = memokey di' s' -> di = di' /\ s = s'.
Proof.
  unfold memokey. destruct di, di'; vm_compute; intro H; injection H as H; try discriminate; auto.
Qed.

Lemma cache_lookup_in k cache c : cache_lookup k cache = Some c -> In (k, c) cache.
Proof.
  induction cache as [|[k' c'] r IH]; cbn [cache_lookup]; intro H; [discriminate|].
  destruct (list_N_eqb k k') eqn:E.
  - apply list_N_eqb_eq in E. injection H as ->. subst. left. reflexivity.
  - right. apply IH. exact H.
Qed.

(* The cache is transparent: whatever was created before (in either context, for any caps), and
   whichever entries the weak dictionary still holds, create_from_cap answers what it would
   answer with an empty cache -- in particular never a mutable node in a deep-immutable context. *)
Theorem node_cache_transparent_ok cache rw ro di :
  cache_ok cache ->
  fst (create_from_cap cache rw ro di) = create_fresh rw ro di /\ cache_ok (snd (create_from_cap cache rw ro di)).
Proof.
  intro I. unfold create_from_cap, create_fresh. destruct (bigcap rw ro) as [s|]; [|split; [reflexivity|exact I]].
  destruct (cache_lookup (memokey di s) cache) as [c|] eqn:L.
  - cbn [fst snd]. split; [|exact I]. apply cache_lookup_in in L.
    unfold cache_ok in I. rewrite Forall_forall in I. destruct (I _ L) as (di' & s' & Hk & Hf & Hb). cbn [fst snd] in *.
    apply memokey_inj in Hk. destruct Hk as [-> ->]. rewrite Hf, Hb. reflexivity.
  - cbn [fst snd]. split; [reflexivity|].
    destruct (from_string di s) as [c| |] eqn:F; try exact I.
    destruct (builds_node c) eqn:Bn; [|exact I].
    destruct (is_mutable c) as [[|]|]; try exact I.
    constructor; [|exact I]. exists di, s. cbn [fst snd]. auto.
Qed.

Lemma cache_ok_forget cache cache' : cache_ok cache -> incl cache' cache -> cache_ok cache'.
Proof.
  unfold cache_ok. rewrite !Forall_forall. intros H Hi e He. apply H. apply Hi. exact He.
Qed.

Theorem create_fresh_respects_context_ok rw ro s c :
  (create_fresh rw ro true = MNode c -> is_mutable c <> Some true /\ is_readonly c <> Some false)
  /\ (bigcap rw ro = Some (ro_prefix ++ s) -> forall di, create_fresh rw ro di = MNode c -> is_readonly c <> Some false)
  /\ (bigcap rw ro = Some (imm_prefix ++ s) -> forall di, create_fresh rw ro di = MNode c -> is_mutable c <> Some true /\ is_readonly c <> Some false).
Proof.
  unfold create_fresh. split; [|split].
  - destruct (bigcap rw ro) as [b|]; [|discriminate]. destruct (from_string true b) as [c'| |] eqn:F; try discriminate.
    destruct (builds_node c'); [|discriminate]. intro H. injection H as ->.
    destruct (alleged_prefix_never_upgrades_ok true b c) as (_ & _ & A). destruct (A F). split; assumption.
  - intros -> di. destruct (from_string di (ro_prefix ++ s)) as [c'| |] eqn:F; try discriminate.
    destruct (builds_node c'); [|discriminate]. intro H. injection H as ->.
    destruct (alleged_prefix_never_upgrades_ok di s c) as (A & _). exact (A F).
  - intros -> di. destruct (from_string di (imm_prefix ++ s)) as [c'| |] eqn:F; try discriminate.
    destruct (builds_node c'); [|discriminate]. intro H. injection H as ->.
    destruct (alleged_prefix_never_upgrades_ok di s c) as (_ & A & _). destruct (A F). split; assumption.
Qed.


(* ------------------------------------------------- typed entry points *)
(* from_string_dirnode & co. hand the context on: whatever they return is what from_string
   returns for the same string in the same context, so the alleged-prefix and deep-immutable
   guarantees hold for them too *)
Theorem typed_entry_points_agree_ok i di u c :
  typed_from_string i di u = Ok c -> from_string di u = Ok c /\ provides i c = true.
Proof.
  unfold typed_from_string. destruct (from_string di u) as [c'| |]; try discriminate.
  destruct (provides i c') eqn:P; [|discriminate]. intro H. injection H as <-. split; [reflexivity|exact P].
Qed.

Theorem typed_entry_points_never_upgrade_ok i di s c :
  (typed_from_string i di (ro_prefix ++ s) = Ok c -> is_readonly c <> Some false)
  /\ (typed_from_string i di (imm_prefix ++ s) = Ok c -> is_readonly c <> Some false /\ is_mutable c <> Some true)
  /\ (typed_from_string i true s = Ok c -> is_readonly c <> Some false /\ is_mutable c <> Some true).
Proof.
  destruct (alleged_prefix_never_upgrades_ok di s c) as (A & B & _).
  destruct (alleged_prefix_never_upgrades_ok true s c) as (_ & _ & C).
  split; [|split]; intro H; apply typed_entry_points_agree_ok in H; destruct H as [H _]; auto.
Qed.
