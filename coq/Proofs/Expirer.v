(* Proofs about Model/Expirer.v. *)
From Coq Require Import List ZArith NArith Bool Arith Lia.
From Verif Require Import Gen.CrawlConsts Model.Crawler Model.Expirer Proofs.CrawlerFinal.
Import ListNotations.
Local Open Scope Z_scope.

(* ---------- the coded test is the rule of the property ---------- *)

Lemma lease_expired_rule pol now t l :
  lease_expired pol now t l = true <-> type_enabled pol t = true /\ expired_by_rule (p_mode pol) now l.
Proof.
  unfold lease_expired, expired_by_rule, lease_age, renewal_time, nominal_duration.
  rewrite andb_true_iff.
  destruct (p_mode pol) as [[d|]|d]; rewrite Z.ltb_lt; intuition lia.
Qed.

Lemma expired_by_ruleb_ok m now l : expired_by_ruleb m now l = true <-> expired_by_rule m now l.
Proof. unfold expired_by_ruleb, expired_by_rule. destruct m as [[d|]|d]; apply Z.ltb_lt. Qed.

Lemma rule_monotone m now0 now l : expired_by_rule m now0 l -> now0 <= now -> expired_by_rule m now l.
Proof. unfold expired_by_rule. destruct m as [[d|]|d]; lia. Qed.

(* a lease granted or renewed by the storage server at time t0 *)
Lemma server_lease_renewal_time t0 s : renewal_time (mk_lease (t0 + default_renewal_time) s) = t0.
Proof.
  unfold renewal_time, grant_renew_time. cbn [l_expiration].
  assert (E : default_renewal_time = grant_renew_offset) by reflexivity. rewrite E. lia.
Qed.

Lemma server_lease_duration t0 s : nominal_duration (mk_lease (t0 + default_renewal_time) s) = default_renewal_time.
Proof.
  unfold nominal_duration, grant_renew_time. cbn [l_expiration].
  assert (E : default_renewal_time = grant_renew_offset) by reflexivity. rewrite E. lia.
Qed.

(* ---------- cancelling the expired leases ---------- *)

Definition notin (ss : list N) (l : lease) : bool := negb (existsb (N.eqb (l_cancel l)) ss).
Definition norm (l : list lease) : file_state := match l with [] => Gone | _ => Present l end.

Lemma cancel_lease_present s cur :
  In s (map l_cancel cur) ->
  cancel_lease s (Present cur) = Some (norm (filter (fun l => negb (N.eqb (l_cancel l) s)) cur)).
Proof.
  intros I. cbn.
  assert (E : existsb (fun l => N.eqb (l_cancel l) s) cur = true).
  { apply in_map_iff in I as (l & E & Il). apply existsb_exists. exists l. split; [exact Il|]. apply N.eqb_eq. exact E. }
  rewrite E. destruct (filter (fun l => negb (N.eqb (l_cancel l) s)) cur); reflexivity.
Qed.

Lemma NoDup_map_filter {A B} (g : A -> B) (f : A -> bool) l : NoDup (map g l) -> NoDup (map g (filter f l)).
Proof.
  induction l as [|x l IH]; cbn; intros H; [constructor|].
  inversion H; subst. destruct (f x); cbn; [constructor|]; auto.
  intros I. apply H2. apply in_map_iff in I as (y & E & Iy). apply filter_In in Iy as [Iy _].
  apply in_map_iff. exists y. split; assumption.
Qed.

Lemma NoDup_map_inj {A B} (g : A -> B) l x y :
  NoDup (map g l) -> In x l -> In y l -> g x = g y -> x = y.
Proof.
  induction l as [|z l IH]; cbn; intros H Ix Iy E; [contradiction|].
  inversion H; subst. destruct Ix as [->|Ix], Iy as [->|Iy]; auto.
  - exfalso. apply H2. rewrite E. apply in_map. exact Iy.
  - exfalso. apply H2. rewrite <- E. apply in_map. exact Ix.
Qed.

Lemma filter_filter {A} (f g : A -> bool) l : filter f (filter g l) = filter (fun x => g x && f x) l.
Proof.
  induction l as [|x l IH]; cbn; [reflexivity|]. destruct (g x); cbn; [destruct (f x)|]; rewrite ?IH; reflexivity.
Qed.

Lemma filter_none {A} (f : A -> bool) l : (forall x, In x l -> f x = true) -> filter (fun x => negb (f x)) l = [].
Proof.
  induction l as [|x l IH]; cbn; intros H; [reflexivity|].
  rewrite (H x (or_introl eq_refl)). cbn. apply IH. intros; apply H; right; assumption.
Qed.

Lemma cancel_all_nodup : forall ss cur,
  NoDup ss -> NoDup (map l_cancel cur) -> (forall s, In s ss -> In s (map l_cancel cur)) ->
  cancel_all ss (Present cur) = (match ss with [] => Present cur | _ => norm (filter (notin ss) cur) end, false).
Proof.
  induction ss as [|s r IH]; intros cur Hs Hc Hin; cbn [cancel_all]; [reflexivity|].
  rewrite (cancel_lease_present s cur (Hin s (or_introl eq_refl))).
  inversion Hs as [|? ? Ns Hr]; subst.
  set (rest := filter (fun l => negb (N.eqb (l_cancel l) s)) cur).
  assert (Hrest : forall s', In s' r -> In s' (map l_cancel rest)).
  { intros s' I'. destruct (proj1 (in_map_iff _ _ _) (Hin s' (or_intror I'))) as (l & E & Il).
    apply in_map_iff. exists l. split; [exact E|]. apply filter_In. split; [exact Il|].
    apply negb_true_iff. apply N.eqb_neq. intros X. apply Ns. rewrite <- X, E. exact I'. }
  assert (Efil : filter (notin (s :: r)) cur = filter (notin r) rest).
  { unfold rest. rewrite filter_filter. apply filter_ext. intros l. unfold notin. cbn.
    rewrite negb_orb. reflexivity. }
  destruct rest as [|x rest'] eqn:Er.
  - (* no lease left: no secret may be pending *)
    destruct r as [|s' r'].
    + cbn. rewrite Efil. reflexivity.
    + exfalso. exact (Hrest s' (or_introl eq_refl)).
  - cbn [norm]. rewrite <- Er in *. rewrite (IH rest Hr); [| |exact Hrest].
    + destruct r as [|s' r'].
      * rewrite Efil. cbn. assert (filter (notin []) rest = rest) as ->.
        { clear. induction rest as [|y l IH]; cbn; [reflexivity|]. f_equal. exact IH. }
        rewrite Er. reflexivity.
      * rewrite Efil. reflexivity.
    + unfold rest. apply NoDup_map_filter. exact Hc.
Qed.

(* What process_share does to a share whose leases carry distinct cancel secrets. *)
Lemma process_share_nodup pol now t ls :
  NoDup (map l_cancel ls) ->
  sr_raised (process_share pol now t ls) = false /\
  sr_state (process_share pol now t ls) =
    if p_enabled pol then
      match filter (lease_expired pol now t) ls with
      | [] => Present ls
      | _ => norm (filter (fun l => negb (lease_expired pol now t l)) ls)
      end
    else Present ls.
Proof.
  intros ND. unfold process_share.
  destruct (p_enabled pol); [|split; reflexivity].
  set (expired := filter (lease_expired pol now t) ls).
  assert (C : cancel_all (map l_cancel expired) (Present ls) =
              (match map l_cancel expired with [] => Present ls | _ => norm (filter (notin (map l_cancel expired)) ls) end, false)).
  { apply cancel_all_nodup.
    - unfold expired. apply NoDup_map_filter. exact ND.
    - exact ND.
    - intros s I. apply in_map_iff in I as (l & E & Il). apply filter_In in Il as [Il _].
      apply in_map_iff. exists l. split; assumption. }
  rewrite C. cbn [sr_raised sr_state]. split; [reflexivity|].
  assert (F : filter (notin (map l_cancel expired)) ls = filter (fun l => negb (lease_expired pol now t l)) ls).
  { apply filter_ext_in. intros l Il. unfold notin. f_equal.
    destruct (lease_expired pol now t l) eqn:E.
    - apply existsb_exists. exists (l_cancel l). split; [|apply N.eqb_refl].
      apply in_map. apply filter_In. split; assumption.
    - destruct (existsb (N.eqb (l_cancel l)) (map l_cancel expired)) eqn:X; [|reflexivity].
      apply existsb_exists in X as (s & Is & Es). apply N.eqb_eq in Es.
      apply in_map_iff in Is as (l' & E' & Il'). apply filter_In in Il' as [Il' Ex'].
      assert (l' = l) by (eapply (NoDup_map_inj l_cancel ls); eauto; congruence).
      subst l'. congruence. }
  rewrite F. destruct expired; reflexivity.
Qed.

(* ---------- share-level statements ---------- *)

Lemma disabled_share pol now t ls :
  p_enabled pol = false ->
  sr_state (process_share pol now t ls) = Present ls /\ sr_raised (process_share pol now t ls) = false.
Proof. intros E. unfold process_share. rewrite E. split; reflexivity. Qed.

Lemma deleted_implies_all_expired_ok pol now t ls :
  NoDup (map l_cancel ls) ->
  sr_state (process_share pol now t ls) = Gone ->
  p_enabled pol = true /\ type_enabled pol t = true /\ ls <> [] /\
  forall l, In l ls -> expired_by_rule (p_mode pol) now l.
Proof.
  intros ND H. destruct (process_share_nodup pol now t ls ND) as (_ & S). rewrite S in H.
  destruct (p_enabled pol); [|discriminate]. split; [reflexivity|].
  destruct (filter (lease_expired pol now t) ls) as [|x xs] eqn:Ef; [discriminate|].
  assert (Ix : In x (filter (lease_expired pol now t) ls)) by (rewrite Ef; left; reflexivity).
  apply filter_In in Ix as [Ix Ex]. apply lease_expired_rule in Ex as [Et _].
  split; [exact Et|]. split; [intros ->; contradiction|].
  intros l Il.
  destruct (filter (fun l0 => negb (lease_expired pol now t l0)) ls) as [|y ys] eqn:En; [|discriminate].
  destruct (lease_expired pol now t l) eqn:El.
  - apply lease_expired_rule in El. tauto.
  - assert (Hx : In l (filter (fun l0 => negb (lease_expired pol now t l0)) ls)) by (apply filter_In; split; [exact Il|rewrite El; reflexivity]).
    rewrite En in Hx. contradiction.
Qed.

Lemma all_expired_implies_deleted_ok pol now t ls :
  p_enabled pol = true -> type_enabled pol t = true -> ls <> [] -> NoDup (map l_cancel ls) ->
  (forall l, In l ls -> expired_by_rule (p_mode pol) now l) ->
  sr_state (process_share pol now t ls) = Gone /\ sr_raised (process_share pol now t ls) = false.
Proof.
  intros En Et Ne ND All. destruct (process_share_nodup pol now t ls ND) as (R & S).
  split; [|exact R]. rewrite S, En.
  assert (A : forall l, In l ls -> lease_expired pol now t l = true).
  { intros l Il. apply lease_expired_rule. split; [exact Et|apply All; exact Il]. }
  assert (F1 : filter (lease_expired pol now t) ls = ls) by (apply CrawlerOrder.filter_all_true; exact A).
  assert (F2 : filter (fun l => negb (lease_expired pol now t l)) ls = []).
  { apply filter_none. exact A. }
  rewrite F1, F2. destruct ls; [contradiction|reflexivity].
Qed.

(* Exactly the expired leases are removed; the others stay, in order. *)
Lemma kept_leases_ok pol now t ls rest :
  NoDup (map l_cancel ls) -> p_enabled pol = true ->
  sr_state (process_share pol now t ls) = Present rest ->
  rest = filter (fun l => negb (lease_expired pol now t l)) ls.
Proof.
  intros ND En H. destruct (process_share_nodup pol now t ls ND) as (_ & S). rewrite S, En in H.
  destruct (filter (lease_expired pol now t) ls) as [|x xs] eqn:Ef.
  - injection H as <-. symmetry. apply CrawlerOrder.filter_all_true. intros l Il.
    destruct (lease_expired pol now t l) eqn:El; [|reflexivity].
    assert (Hx : In l (filter (lease_expired pol now t) ls)) by (apply filter_In; split; assumption).
    rewrite Ef in Hx. contradiction.
  - destruct (filter (fun l => negb (lease_expired pol now t l)) ls); [discriminate|]. inversion H. reflexivity.
Qed.

(* ---------- bucket and crawl level ---------- *)

Definition entry_ok (e : N * sharetype * file_state) : Prop :=
  match e with
  | (_, _, Present ls) => NoDup (map l_cancel ls)
  | _ => True
  end.

Definition bucket_ok (bk : bucket) : Prop := Forall entry_ok bk.

Definition entry_step (pol : policy) (now : Z) (e : N * sharetype * file_state) : N * sharetype * file_state :=
  match e with
  | (n, t, Gone) => (n, t, Gone)
  | (n, t, Unreadable) => (n, t, Unreadable)
  | (n, t, Present ls) => (n, t, sr_state (process_share pol now t ls))
  end.

Lemma process_bucket_map pol now bk :
  bucket_ok bk -> process_bucket pol now bk = (map (entry_step pol now) bk, false).
Proof.
  induction 1 as [|[[n t] st] bk He _ IH]; cbn; [reflexivity|].
  destruct st as [ls| |].
  - cbn in He. destruct (process_share_nodup pol now t ls He) as (R & _). rewrite R, IH. reflexivity.
  - rewrite IH. reflexivity.
  - rewrite IH. reflexivity.
Qed.

Lemma entry_step_ok pol now e : entry_ok e -> entry_ok (entry_step pol now e).
Proof.
  destruct e as [[n t] [ls| |]]; cbn; [|trivial|trivial]. intros ND.
  destruct (process_share_nodup pol now t ls ND) as (_ & S). rewrite S.
  destruct (p_enabled pol); [|exact ND].
  destruct (filter (lease_expired pol now t) ls); [exact ND|].
  destruct (filter (fun l => negb (lease_expired pol now t l)) ls) eqn:E; [cbn; trivial|].
  cbn [norm entry_ok]. rewrite <- E. apply NoDup_map_filter. exact ND.
Qed.

Lemma bucket_step_ok pol now bk : bucket_ok bk -> bucket_ok (map (entry_step pol now) bk).
Proof. induction 1; cbn; constructor; auto using entry_step_ok. Qed.

Lemma disabled_bucket pol now bk : p_enabled pol = false -> process_bucket pol now bk = (bk, false).
Proof.
  intros E. induction bk as [|[[n t] [ls| |]] bk IH]; cbn; [reflexivity| | |].
  - destruct (disabled_share pol now t ls E) as (S & R). rewrite R, S, IH. reflexivity.
  - rewrite IH. reflexivity.
  - rewrite IH. reflexivity.
Qed.

(* Unreadable share files are recorded and skipped: they never make
   process_bucket raise, stay as they are, and are exactly the entries reported
   as corrupt. *)
Lemma unreadable_not_fatal_ok pol now bk :
  bucket_ok bk ->
  snd (process_bucket pol now bk) = false /\
  (forall j n t, nth_error bk j = Some (n, t, Unreadable) ->
     nth_error (fst (process_bucket pol now bk)) j = Some (n, t, Unreadable)) /\
  corrupt_shares pol now bk =
    Some (map (fun e => fst (fst e)) (filter (fun e => match snd e with Unreadable => true | _ => false end) bk)).
Proof.
  intros Ok. rewrite (process_bucket_map pol now bk Ok). split; [reflexivity|]. split.
  - intros j n t H. cbn [fst]. rewrite nth_error_map, H. reflexivity.
  - induction Ok as [|[[n t] [ls| |]] bk He _ IH]; cbn; [reflexivity| | |].
    + cbn in He. destruct (process_share_nodup pol now t ls He) as (R & _). rewrite R. exact IH.
    + exact IH.
    + rewrite IH. reflexivity.
Qed.

Lemma disabled_replay pol clock : p_enabled pol = false ->
  forall tr k i b bk, replay pol clock k i b tr bk = bk.
Proof.
  intros E. induction tr as [|e tr IH]; intros k i b bk; cbn; [reflexivity|].
  destruct e; try apply IH.
  destruct (Nat.eqb i i0 && name_eqb b b0); [|apply IH].
  rewrite (disabled_bucket pol (clock k) bk E). cbn. apply IH.
Qed.

Section Cycle.
  Variable pol : policy.
  Variable clock : nat -> Z.
  Variable now0 : Z.
  Variable i : nat.
  Variable b : name.
  Variable j : nat.         (* position of the share file in the bucket listing *)
  Variable n : N.
  Variable t : sharetype.
  Hypothesis Hen : p_enabled pol = true.
  Hypothesis Hty : type_enabled pol t = true.
  Hypothesis Hclock : forall k, now0 <= clock k.

  Definition doomed (st : file_state) : Prop :=
    match st with
    | Gone => True
    | Unreadable => False
    | Present ls => ls <> [] /\ forall l, In l ls -> expired_by_rule (p_mode pol) now0 l
    end.

  Definition D (bk : bucket) : Prop :=
    bucket_ok bk /\ exists st, nth_error bk j = Some (n, t, st) /\ doomed st.

  Definition G (bk : bucket) : Prop :=
    bucket_ok bk /\ nth_error bk j = Some (n, t, Gone).

  Lemma step_D k bk : D bk -> G (fst (process_bucket pol (clock k) bk)).
  Proof.
    intros (Ok & st & Hn & Hd). rewrite (process_bucket_map _ _ _ Ok). cbn [fst].
    split; [apply bucket_step_ok; exact Ok|].
    rewrite nth_error_map, Hn. cbn. destruct st as [ls| |]; [|reflexivity|contradiction].
    destruct Hd as (Ne & All).
    assert (ND : NoDup (map l_cancel ls)).
    { unfold bucket_ok in Ok. rewrite Forall_forall in Ok. apply (Ok _ (nth_error_In _ _ Hn)). }
    destruct (all_expired_implies_deleted_ok pol (clock k) t ls Hen Hty Ne ND) as (S & _).
    - intros l Il. eapply rule_monotone; [apply All; exact Il|apply Hclock].
    - rewrite S. reflexivity.
  Qed.

  Lemma G_D bk : G bk -> D bk.
  Proof. intros (Ok & Hn). split; [exact Ok|]. exists Gone. split; [exact Hn|exact I]. Qed.

  Lemma replay_D : forall tr k bk, D bk -> D (replay pol clock k i b tr bk).
  Proof.
    induction tr as [|e tr IH]; intros k bk HD; cbn; [exact HD|].
    apply IH. destruct e; try exact HD.
    destruct (Nat.eqb i i0 && name_eqb b b0); [|exact HD]. apply G_D, step_D, HD.
  Qed.

  Lemma replay_G : forall tr k bk, G bk -> G (replay pol clock k i b tr bk).
  Proof.
    induction tr as [|e tr IH]; intros k bk HG; cbn; [exact HG|].
    apply IH. destruct e; try exact HG.
    destruct (Nat.eqb i i0 && name_eqb b b0); [|exact HG]. apply step_D, G_D, HG.
  Qed.

  Lemma replay_gone : forall tr k bk c, D bk -> In (EProc c i b) tr -> G (replay pol clock k i b tr bk).
  Proof.
    induction tr as [|e tr IH]; intros k bk c HD I; [contradiction|].
    destruct I as [->|I]; cbn.
    - rewrite Nat.eqb_refl. assert (name_eqb b b = true) as -> by (apply name_eqb_eq; reflexivity). cbn.
      apply replay_G, step_D, HD.
    - apply (IH _ _ c); [|exact I]. destruct e; try exact HD.
      destruct (Nat.eqb i i0 && name_eqb b b0); [|exact HD]. apply G_D, step_D, HD.
  Qed.
End Cycle.

Lemma deleted_in_cycle_ok :
  forall dirs specs tr m pre c post i b pol clock now0 bk j n t ls,
    wf_dirs prefixes dirs ->
    run dirs (load init_pstate) specs = (tr, m) ->
    tr = pre ++ EFinished c :: post ->
    In b (nth i dirs []) ->
    p_enabled pol = true -> type_enabled pol t = true ->
    (forall k, now0 <= clock k) ->
    bucket_ok bk ->
    nth_error bk j = Some (n, t, Present ls) ->
    ls <> [] ->
    (forall l, In l ls -> expired_by_rule (p_mode pol) now0 l) ->
    nth_error (replay pol clock 0 i b pre bk) j = Some (n, t, Gone).
Proof.
  intros dirs specs tr m pre c post i b pol clock now0 bk j n t ls W R E Ib En Ty Hc Ok Hn Ne All.
  pose proof (covers_all_ok dirs specs tr m pre c post W R E i b Ib) as Cov.
  assert (HD : D pol now0 j n t bk).
  { split; [exact Ok|]. exists (Present ls). split; [exact Hn|]. split; assumption. }
  destruct (replay_gone pol clock now0 i b j n t En Ty Hc pre 0%nat bk c HD Cov) as (_ & X). exact X.
Qed.

(* ---------- configuration ---------- *)

Lemma default_config_disabled :
  exists pol, policy_of_config (mk_config None None None None None None) = Some pol /\ p_enabled pol = false.
Proof. eexists. split; reflexivity. Qed.

Lemma enabled_requires_mode c :
  c_enabled c = Some true -> c_mode c = None -> policy_of_config c = None.
Proof. intros E M. unfold policy_of_config. rewrite E, M. reflexivity. Qed.

Lemma config_enabled_flag c pol : policy_of_config c = Some pol -> p_enabled pol = dflt false (c_enabled c).
Proof.
  unfold policy_of_config. intros H.
  destruct (c_mode c) as [[| |]|]; try discriminate.
  - inversion H; reflexivity.
  - destruct (c_cutoff c); inversion H; reflexivity.
  - destruct (dflt false (c_enabled c)) eqn:E; [discriminate|]. inversion H. cbn. reflexivity.
Qed.

(* ---------- witnesses ---------- *)

Definition ex_now : Z := 1700000000.
Definition ex_pol_age : policy := mk_policy true (ModeAge None) true true.

(* one lease renewed 40 days ago, one renewed 32 days ago: both past the 31 days *)
Definition ex_old_leases : list lease :=
  [mk_lease (ex_now - 40 * 86400 + default_renewal_time) 1; mk_lease (ex_now - 32 * 86400 + default_renewal_time) 2].

Lemma ex_age_mode_deletes :
  sr_state (process_share ex_pol_age ex_now Immutable ex_old_leases) = Gone.
Proof. vm_compute. reflexivity. Qed.

(* renewed 30 days ago: kept, the older lease is removed *)
Lemma ex_age_mode_keeps :
  sr_state (process_share ex_pol_age ex_now Immutable
              [mk_lease (ex_now - 40 * 86400 + default_renewal_time) 1; mk_lease (ex_now - 30 * 86400 + default_renewal_time) 2])
  = Present [mk_lease (ex_now - 30 * 86400 + default_renewal_time) 2].
Proof. vm_compute. reflexivity. Qed.

(* exactly at the threshold (renewal + duration = now) a lease is not expired *)
Lemma ex_threshold_not_expired :
  lease_expired ex_pol_age ex_now Immutable (mk_lease ex_now 1) = false /\
  lease_expired ex_pol_age (ex_now + 1) Immutable (mk_lease ex_now 1) = true.
Proof. vm_compute. split; reflexivity. Qed.

(* Two leases with the same cancel secret: cancelling the expired one removes
   the unexpired one too, and the share is deleted. *)
Lemma duplicate_secret_deletes_unexpired :
  exists pol now t ls l,
    sr_state (process_share pol now t ls) = Gone /\ In l ls /\ ~ expired_by_rule (p_mode pol) now l.
Proof.
  exists ex_pol_age, ex_now, Immutable,
    [mk_lease (ex_now - 40 * 86400 + default_renewal_time) 7; mk_lease (ex_now + default_renewal_time) 7],
    (mk_lease (ex_now + default_renewal_time) 7).
  split; [vm_compute; reflexivity|]. split; [right; left; reflexivity|].
  vm_compute. intros H. discriminate H.
Qed.

(* Two expired leases with the same cancel secret: the second cancel_lease
   finds the file gone and raises out of process_bucket. *)
Lemma duplicate_secret_raises :
  sr_raised (process_share ex_pol_age ex_now Immutable
               [mk_lease (ex_now - 40 * 86400 + default_renewal_time) 7; mk_lease (ex_now - 41 * 86400 + default_renewal_time) 7]) = true.
Proof. vm_compute. reflexivity. Qed.

(* A share without any lease: every lease on it is expired (vacuously) and its
   type is enabled, it is counted as recovered (keep_actual = false), but
   nothing unlinks it. *)
Lemma zero_lease_share_kept :
  forall pol now t, sr_state (process_share pol now t []) = Present [] /\
                    (p_enabled pol = true -> sr_keep_actual (process_share pol now t []) = false).
Proof.
  intros pol now t. unfold process_share. cbn. destruct (p_enabled pol); split; try reflexivity; discriminate.
Qed.

Lemma disabled_never_deletes_ok :
  forall pol, p_enabled pol = false ->
    (forall now t ls, sr_state (process_share pol now t ls) = Present ls /\
                      sr_raised (process_share pol now t ls) = false) /\
    (forall now bk, process_bucket pol now bk = (bk, false)) /\
    (forall clock tr k i b bk, replay pol clock k i b tr bk = bk).
Proof.
  intros pol E. split; [intros; apply disabled_share; exact E|].
  split; [intros; apply disabled_bucket; exact E|intros; apply disabled_replay; exact E].
Qed.

Lemma server_lease_times_ok :
  forall t0 s, renewal_time (mk_lease (t0 + default_renewal_time) s) = t0 /\
               nominal_duration (mk_lease (t0 + default_renewal_time) s) = default_renewal_time.
Proof. intros; split; [apply server_lease_renewal_time|apply server_lease_duration]. Qed.

Lemma ex_age_rule_ok :
  sr_state (process_share ex_pol_age ex_now Immutable ex_old_leases) = Gone /\
  NoDup (map l_cancel ex_old_leases) /\
  lease_expired ex_pol_age ex_now Immutable (mk_lease ex_now 1) = false /\
  lease_expired ex_pol_age (ex_now + 1) Immutable (mk_lease ex_now 1) = true.
Proof.
  split; [exact ex_age_mode_deletes|]. split; [repeat constructor; cbn; intuition discriminate|].
  exact ex_threshold_not_expired.
Qed.
