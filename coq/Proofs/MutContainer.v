(* C23: the mutable container refines a bounded growable byte array.

   Structure of the argument (DESIGN.md A.5):
   1. a file that satisfies the executable layout invariant `layout_ok` is the
      rendering `flat c` of a structured container `c` (identification block,
      data-length field, extra-lease-offset field, four lease slots, container
      region, extra-lease count, extra leases) with `wf c`, and conversely;
   2. every byte-level operation of Model/MutContainer.v maps `flat c` to
      `flat c'` for an explicitly given `c'` (or raises without a change);
   3. on structured containers the readable data `c_data` (the first data_length
      bytes of the region) evolves exactly like the reference array, and the
      lease fields are untouched. *)
From Coq Require Import List NArith Arith Bool Lia.
From Verif Require Import Lib.Hex Gen.MutConsts Model.MutContainer Proofs.MutContainerBytes.
Import ListNotations.
Local Open Scope N_scope.

Ltac consts := unfold DATA_LENGTH_OFFSET, EXTRA_LEASE_OFFSET_POS, HEADER_SIZE, LEASE_SIZE, DATA_OFFSET,
  NUM_HEADER_LEASE_SLOTS, INITIAL_EXTRA_LEASE_OFFSET in *.

Ltac nth_simp := repeat (rewrite ?nth_app0, ?nth_firstn0, ?nth_skipn0, ?nth_repeat0, ?nth_pwn,
  ?app_length, ?firstn_length, ?skipn_length, ?repeat_length).
Ltac nth_cases := repeat match goal with |- context [(?a <? ?b)%nat] => destruct (Nat.ltb_spec a b) end.
Ltac nth_fin := try reflexivity; try lia; try (f_equal; lia);
  try (rewrite !nth_overflow by lia; reflexivity);
  try (symmetry; apply nth_overflow; lia); try (apply nth_overflow; lia).

(* ---- structured containers ------------------------------------------------------------ *)
Record FC := mkFC {
  c_id : list N;      (* magic, write-enabler nodeid, write enabler: 84 bytes *)
  c_dlb : list N;     (* data length, 8 bytes *)
  c_elob : list N;    (* extra lease offset, 8 bytes *)
  c_slots : list N;   (* four lease slots, 368 bytes *)
  c_region : list N;  (* container region; the data is its first data_length bytes *)
  c_nxb : list N;     (* number of extra leases, 4 bytes *)
  c_extra : list N }. (* extra leases *)

Definition hdr (c : FC) : list N := c_id c ++ c_dlb c ++ c_elob c ++ c_slots c.
Definition tail (c : FC) : list N := c_nxb c ++ c_extra c.
Definition flat (c : FC) : file := hdr c ++ c_region c ++ tail c.

Definition c_dl (c : FC) : N := unbe (c_dlb c).
Definition c_nx (c : FC) : N := unbe (c_nxb c).
Definition c_data (c : FC) : list N := firstn (N.to_nat (c_dl c)) (c_region c).

Record wf (maxsz : N) (c : FC) : Prop := {
  wf_id : length (c_id c) = 84%nat;
  wf_magic : schema_of_header (c_id c) <> None;
  wf_dlb : length (c_dlb c) = 8%nat;
  wf_elob : length (c_elob c) = 8%nat;
  wf_slots : length (c_slots c) = 368%nat;
  wf_nxb : length (c_nxb c) = 4%nat;
  wf_dl : c_dl c <= len (c_region c);
  wf_elo : unbe (c_elob c) = 468 + len (c_region c);
  wf_max : len (c_region c) <= maxsz;
  wf_extra : len (c_extra c) = c_nx c * 92 }.

Definition set_dlb (c : FC) (b : list N) : FC :=
  mkFC (c_id c) b (c_elob c) (c_slots c) (c_region c) (c_nxb c) (c_extra c).
Definition set_region (c : FC) (r : list N) : FC :=
  mkFC (c_id c) (c_dlb c) (c_elob c) (c_slots c) r (c_nxb c) (c_extra c).
Definition set_region_elob (c : FC) (r b : list N) : FC :=
  mkFC (c_id c) (c_dlb c) b (c_slots c) r (c_nxb c) (c_extra c).

Ltac fc_simpl := cbn [c_id c_dlb c_elob c_slots c_region c_nxb c_extra set_dlb set_region set_region_elob] in *.

(* the fields a data write must not touch *)
Definition same_leases (c c' : FC) : Prop :=
  c_id c' = c_id c /\ c_slots c' = c_slots c /\ c_nxb c' = c_nxb c /\ c_extra c' = c_extra c.

Lemma same_leases_refl c : same_leases c c.
Proof. repeat split. Qed.
Lemma same_leases_trans a b c : same_leases a b -> same_leases b c -> same_leases a c.
Proof. unfold same_leases. intuition congruence. Qed.

Lemma hdr_length maxsz c : wf maxsz c -> length (hdr c) = 468%nat.
Proof. intros [? ? ? ? ? ? ? ? ? ?]. unfold hdr. rewrite !app_length. lia. Qed.

Lemma tail_length maxsz c : wf maxsz c -> length (tail c) = (4 + N.to_nat (c_nx c) * 92)%nat.
Proof. intros [? ? ? ? ? ? ? ? ? Hx]. unfold tail. rewrite app_length. unfold len in Hx. lia. Qed.

Lemma flat_length maxsz c : wf maxsz c ->
  length (flat c) = (468 + length (c_region c) + 4 + N.to_nat (c_nx c) * 92)%nat.
Proof.
  intro Hw. unfold flat. rewrite !app_length, (hdr_length _ _ Hw), (tail_length _ _ Hw). lia.
Qed.

(* ---- reading the header fields ----------------------------------------------------------- *)
Lemma prn_exact' a x b o n : length a = o -> length x = n -> prn (a ++ x ++ b) o n = x.
Proof. intros <- <-. apply prn_exact. Qed.

Lemma pwn_exact' a x b o d : length a = o -> length x = length d -> pwn (a ++ x ++ b) o d = a ++ d ++ b.
Proof. intros <- Hl. apply pwn_exact. assumption. Qed.

Lemma flat_dlb c : flat c = c_id c ++ c_dlb c ++ (c_elob c ++ c_slots c ++ c_region c ++ tail c).
Proof. unfold flat, hdr. rewrite <- !app_assoc. reflexivity. Qed.

Lemma flat_elob c : flat c = (c_id c ++ c_dlb c) ++ c_elob c ++ (c_slots c ++ c_region c ++ tail c).
Proof. unfold flat, hdr. rewrite <- !app_assoc. reflexivity. Qed.

Lemma flat_slots c : flat c = (c_id c ++ c_dlb c ++ c_elob c) ++ c_slots c ++ (c_region c ++ tail c).
Proof. unfold flat, hdr. rewrite <- !app_assoc. reflexivity. Qed.

Lemma flat_nxb c : flat c = (hdr c ++ c_region c) ++ c_nxb c ++ c_extra c.
Proof. unfold flat, tail. rewrite <- !app_assoc. reflexivity. Qed.

Lemma read_dl_flat maxsz c : wf maxsz c -> read_data_length (flat c) = Ok (c_dl c).
Proof.
  intro Hw. unfold read_data_length. consts. rewrite pread_prn, flat_dlb.
  rewrite prn_exact'; [apply unpack_be_ok| |]; destruct Hw; auto.
Qed.

Lemma read_elo_flat maxsz c : wf maxsz c -> read_extra_lease_offset (flat c) = Ok (468 + len (c_region c)).
Proof.
  intro Hw. unfold read_extra_lease_offset. consts. rewrite pread_prn, flat_elob.
  rewrite prn_exact'.
  - rewrite unpack_be_ok by (destruct Hw; auto). f_equal. destruct Hw; auto.
  - rewrite app_length. destruct Hw. change (N.to_nat 92) with 92%nat. lia.
  - destruct Hw; auto.
Qed.

Lemma read_nx_flat maxsz c : wf maxsz c -> read_num_extra_leases (flat c) = Ok (c_nx c).
Proof.
  intro Hw. unfold read_num_extra_leases. rewrite (read_elo_flat _ _ Hw).
  rewrite pread_prn, flat_nxb. rewrite prn_exact'.
  - apply unpack_be_ok. destruct Hw; auto.
  - rewrite app_length, (hdr_length _ _ Hw). unfold len. lia.
  - destruct Hw; auto.
Qed.

Lemma open_flat maxsz c : wf maxsz c -> exists v, open_container (flat c) = Ok v /\ schema_of_header (c_id c) = Some v.
Proof.
  intro Hw. unfold open_container. consts.
  assert (Hs : schema_of_header (pread (flat c) 0 100) = schema_of_header (c_id c)).
  { unfold schema_of_header. f_equal.
    assert (Hf : firstn 32 (pread (flat c) 0 100) = firstn 32 (c_id c)).
    { unfold pread. change (N.to_nat 0) with 0%nat. change (N.to_nat 100) with 100%nat. cbn [skipn].
      rewrite firstn_firstn. change (Nat.min 32 100) with 32%nat.
      rewrite flat_dlb. rewrite firstn_app. destruct Hw as [Hid ? ? ? ? ? ? ? ? ?]. rewrite Hid.
      change (32 - 84)%nat with 0%nat. cbn [firstn]. apply app_nil_r. }
    rewrite Hf. reflexivity. }
  rewrite Hs. destruct (schema_of_header (c_id c)) as [v|] eqn:E.
  - exists v. auto.
  - destruct Hw. congruence.
Qed.

(* ---- updating the header fields ------------------------------------------------------------ *)
Lemma write_dl_flat maxsz c v : wf maxsz c -> v < 2 ^ 64 ->
  write_data_length (flat c) v = Done (flat (set_dlb c (be 8 v))).
Proof.
  intros Hw Hv. unfold write_data_length. rewrite pack_be_ok by exact Hv.
  f_equal. consts. rewrite pwrite_pwn, flat_dlb. rewrite pwn_exact'.
  - rewrite (flat_dlb (set_dlb c (be 8 v))). reflexivity.
  - destruct Hw; auto.
  - rewrite be_length. destruct Hw; auto.
Qed.

Lemma pwrite_region maxsz c off d : wf maxsz c -> off + len d <= len (c_region c) ->
  pwrite (flat c) (468 + off) d = flat (set_region c (pwn (c_region c) (N.to_nat off) d)).
Proof.
  intros Hw Hi. rewrite pwrite_pwn. unfold flat at 1.
  replace (N.to_nat (468 + off)) with (length (hdr c) + N.to_nat off)%nat by (rewrite (hdr_length _ _ Hw); lia).
  rewrite pwn_app_skip. rewrite pwn_inside by (unfold len in Hi; lia). reflexivity.
Qed.

Lemma wf_set_region maxsz c r : wf maxsz c -> length r = length (c_region c) -> wf maxsz (set_region c r).
Proof.
  intros [? ? ? ? ? ? ? ? ? ?] Hl. constructor; unfold c_dl, c_nx, len in *; fc_simpl; rewrite ?Hl; auto.
Qed.

Lemma wf_set_dlb maxsz c v : wf maxsz c -> v <= len (c_region c) -> v < 2 ^ 64 -> wf maxsz (set_dlb c (be 8 v)).
Proof.
  intros [? ? ? ? ? ? ? ? ? ?] Hv Hb. constructor; unfold c_dl, c_nx in *; fc_simpl; auto; try apply be_length.
  rewrite unbe_be by exact Hb. exact Hv.
Qed.

(* ---- reads: clipped at the data length --------------------------------------------------------- *)
Lemma read_clip (region : list N) (dl off n : N) : dl <= len region ->
  pread region off (if dl <? off + n then dl - off else n) = pread (firstn (N.to_nat dl) region) off n.
Proof.
  intro Hd. unfold pread, len in *. apply list_ext0.
  - rewrite !firstn_length, !skipn_length, firstn_length. destruct (N.ltb_spec dl (off + n)); lia.
  - intros i _. nth_simp. destruct (N.ltb_spec dl (off + n)); nth_cases; nth_fin.
Qed.

Lemma read_share_data_flat maxsz c off n : wf maxsz c ->
  read_share_data (flat c) off n = Ok (ref_read (c_data c) off n).
Proof.
  intro Hw. unfold read_share_data, ref_read, c_data. rewrite (read_dl_flat _ _ Hw).
  pose proof (wf_dl _ _ Hw) as Hd. rewrite <- (read_clip _ _ _ _ Hd).
  set (l' := if c_dl c <? off + n then c_dl c - off else n).
  assert (Hl' : off + l' <= len (c_region c) \/ l' = 0).
  { subst l'. destruct (N.ltb_spec (c_dl c) (off + n)); lia. }
  destruct (N.eqb_spec l' 0) as [E|E].
  - rewrite E. reflexivity.
  - f_equal. consts. rewrite !pread_prn. unfold flat.
    replace (N.to_nat (468 + off)) with (length (hdr c) + N.to_nat off)%nat by (rewrite (hdr_length _ _ Hw); lia).
    rewrite prn_app_skip. apply prn_inside. unfold len in Hl'. lia.
Qed.

Lemma abs_data_flat maxsz c : wf maxsz c -> abs_data (flat c) = Ok (c_data c).
Proof.
  intro Hw. unfold abs_data. rewrite (read_dl_flat _ _ Hw). f_equal. consts.
  rewrite pread_prn. unfold flat.
  replace (N.to_nat 468) with (length (hdr c) + 0)%nat by (rewrite (hdr_length _ _ Hw); lia).
  rewrite prn_app_skip. pose proof (wf_dl _ _ Hw) as Hd. unfold len in Hd.
  rewrite prn_inside by lia. reflexivity.
Qed.

Lemma readv_flat maxsz c rv : wf maxsz c -> readv (flat c) rv = Ok (ref_readv (c_data c) rv).
Proof.
  intro Hw. induction rv as [|[off n] r IH]; [reflexivity|].
  cbn [readv ref_readv map]. rewrite (read_share_data_flat _ _ _ _ Hw). rewrite IH. reflexivity.
Qed.

Lemma check_testv_flat maxsz c tv : wf maxsz c -> check_testv (flat c) tv = Ok (ref_check_testv (c_data c) tv).
Proof.
  intro Hw. induction tv as [|[[off n] sp] r IH]; [reflexivity|].
  cbn [check_testv ref_check_testv]. rewrite (read_share_data_flat _ _ _ _ Hw).
  destruct (list_N_eqb (ref_read (c_data c) off n) sp); [exact IH|reflexivity].
Qed.

(* ---- container growth: the extra-lease block moves, the region is extended with zeros ---------- *)
Lemma ccs_flat maxsz c new : wf maxsz c -> 468 + maxsz < 2 ^ 64 ->
  len (c_region c) <= new -> new <= maxsz ->
  change_container_size maxsz (flat c) new =
  Done (flat (set_region_elob c (c_region c ++ zeros (new - len (c_region c))) (be 8 (468 + new)))).
Proof.
  intros Hw Hm Hge Hle. unfold change_container_size.
  destruct (N.ltb_spec maxsz new); [lia|].
  rewrite (read_elo_flat _ _ Hw). consts.
  destruct (N.ltb_spec (468 + new) (468 + len (c_region c))); [lia|].
  rewrite (read_nx_flat _ _ Hw).
  set (old := 468 + len (c_region c)). set (lsz := 4 + c_nx c * 92).
  assert (Hold : N.to_nat old = length (hdr c ++ c_region c)).
  { subst old. rewrite app_length, (hdr_length _ _ Hw). unfold len. lia. }
  assert (Hlsz : N.to_nat lsz = length (tail c)).
  { subst lsz. rewrite (tail_length _ _ Hw). lia. }
  assert (Held : pread (flat c) old lsz = tail c).
  { rewrite pread_prn. unfold flat. rewrite app_assoc. rewrite <- (app_nil_r (tail c)) at 1.
    rewrite prn_exact' by (symmetry; assumption). reflexivity. }
  rewrite Held.
  assert (Hf1 : pwrite (flat c) old (zeros lsz) = (hdr c ++ c_region c) ++ repeat 0 (length (tail c))).
  { rewrite pwrite_pwn. unfold flat. rewrite app_assoc. rewrite <- (app_nil_r (tail c)) at 1.
    rewrite pwn_exact'; [|symmetry; assumption|rewrite zeros_length; lia].
    rewrite app_nil_r. unfold zeros. rewrite Hlsz. reflexivity. }
  rewrite Hf1.
  assert (Htl : tail c <> []).
  { intro E. pose proof (tail_length _ _ Hw) as Ht. rewrite E in Ht. cbn in Ht. lia. }
  set (g := new - len (c_region c)).
  assert (Hf2 : pwrite ((hdr c ++ c_region c) ++ repeat 0 (length (tail c))) (468 + new) (tail c)
                = hdr c ++ (c_region c ++ zeros g) ++ tail c).
  { rewrite pwrite_pwn. unfold pwn. destruct (tail c) as [|t0 tl] eqn:Et; [congruence|]. rewrite <- Et.
    rewrite app_length, repeat_length.
    rewrite skipn_all2 by (rewrite app_length, repeat_length; lia). rewrite app_nil_r.
    rewrite app_assoc. rewrite firstn_app_repeat by lia.
    rewrite <- !app_assoc. do 2 f_equal. unfold zeros. f_equal. f_equal. subst g. unfold len in *. lia. }
  rewrite Hf2.
  unfold write_extra_lease_offset. consts. rewrite pack_be_ok by (change (256 ^ N.of_nat 8) with (2 ^ 64); lia).
  f_equal. rewrite pwrite_pwn.
  change (hdr c ++ (c_region c ++ zeros g) ++ tail c) with (flat (set_region c (c_region c ++ zeros g))).
  rewrite flat_elob. cbn [c_id c_dlb c_elob c_slots c_region set_region].
  rewrite pwn_exact'.
  - rewrite (flat_elob (set_region_elob _ _ _)). reflexivity.
  - rewrite app_length. destruct Hw. change (N.to_nat 92) with 92%nat. lia.
  - rewrite be_length. destruct Hw; auto.
Qed.

Lemma wf_grow maxsz c new : wf maxsz c -> 468 + maxsz < 2 ^ 64 -> len (c_region c) <= new -> new <= maxsz ->
  wf maxsz (set_region_elob c (c_region c ++ zeros (new - len (c_region c))) (be 8 (468 + new))).
Proof.
  intros [? ? ? ? ? ? ? ? ? ?] Hm Hge Hle. constructor; unfold c_dl, c_nx in *; fc_simpl; auto; try apply be_length;
    rewrite ?unbe_be by (change (256 ^ N.of_nat 8) with (2 ^ 64); lia); rewrite len_app, len_zeros; lia.
Qed.

(* ---- the two splice lemmas, pointwise ----------------------------------------------------------- *)
Definition ref_write_nat (d : list N) (o : nat) (data : list N) : list N :=
  firstn o d ++ repeat 0 (o - length d) ++ data ++ skipn (o + length data) d.

Lemma ref_write_nat_eq d off data : ref_write d off data = ref_write_nat d (N.to_nat off) data.
Proof. reflexivity. Qed.

Lemma splice_grow (region : list N) (dl off g : nat) (data : list N) :
  (dl <= length region)%nat -> (off + length data <= length region + g)%nat -> (dl <= off + length data)%nat ->
  firstn (off + length data)
    (pwn (if (dl <? off)%nat then pwn (region ++ repeat 0 g) dl (repeat 0 (off - dl)) else region ++ repeat 0 g) off data)
  = ref_write_nat (firstn dl region) off data.
Proof.
  intros Hd Hfit Hge. unfold ref_write_nat. apply list_ext0.
  - destruct (Nat.ltb_spec dl off).
    + rewrite firstn_length, pwn_length_inside.
      * rewrite pwn_length_inside by (rewrite app_length, !repeat_length; lia).
        nth_simp. lia.
      * rewrite pwn_length_inside by (rewrite app_length, !repeat_length; lia). rewrite app_length, repeat_length. lia.
    + rewrite firstn_length, pwn_length_inside by (rewrite app_length, repeat_length; lia). nth_simp. lia.
  - intros i _. destruct (Nat.ltb_spec dl off); nth_simp; nth_cases; nth_fin.
Qed.

Lemma splice_inside (region : list N) (dl off : nat) (data : list N) :
  (dl <= length region)%nat -> (off + length data < dl)%nat ->
  firstn dl (pwn region off data) = ref_write_nat (firstn dl region) off data.
Proof.
  intros Hd Hin. unfold ref_write_nat. apply list_ext0.
  - rewrite firstn_length, pwn_length_inside by lia. nth_simp. lia.
  - intros i _. nth_simp; nth_cases; nth_fin.
Qed.

(* ---- _write_share_data ------------------------------------------------------------------------------ *)
Lemma write_share_data_flat maxsz c off data : wf maxsz c -> 468 + maxsz < 2 ^ 64 -> off + len data <= maxsz ->
  exists c', write_share_data maxsz (flat c) off data = Done (flat c') /\ wf maxsz c' /\
             c_data c' = ref_write (c_data c) off data /\ same_leases c c'.
Proof.
  intros Hw Hm Hfit. unfold write_share_data.
  rewrite (read_dl_flat _ _ Hw), (read_elo_flat _ _ Hw). consts.
  pose proof (wf_dl _ _ Hw) as Hdl. pose proof (wf_max _ _ Hw) as Hmax.
  destruct (N.leb_spec (c_dl c) (off + len data)) as [Hge|Hin].
  - (* the write reaches or passes the end of the data *)
    set (g := if len (c_region c) <? off + len data then off + len data - len (c_region c) else 0).
    set (c1 := if 468 + len (c_region c) <? 468 + off + len data
               then set_region_elob c (c_region c ++ zeros (off + len data - len (c_region c))) (be 8 (468 + (off + len data)))
               else c).
    assert (H1 : (if 468 + len (c_region c) <? 468 + off + len data
                  then change_container_size maxsz (flat c) (off + len data) else Done (flat c)) = Done (flat c1)).
    { subst c1. destruct (N.ltb_spec (468 + len (c_region c)) (468 + off + len data)); [|reflexivity].
      apply ccs_flat; auto; lia. }
    rewrite H1. cbn [obind].
    assert (Hw1 : wf maxsz c1).
    { subst c1. destruct (N.ltb_spec (468 + len (c_region c)) (468 + off + len data)); [|assumption].
      apply wf_grow; auto; lia. }
    assert (Hr1 : c_region c1 = c_region c ++ zeros g).
    { subst c1 g. destruct (N.ltb_spec (468 + len (c_region c)) (468 + off + len data));
        destruct (N.ltb_spec (len (c_region c)) (off + len data)); try lia; cbn; [reflexivity|].
      unfold zeros. cbn. symmetry. apply app_nil_r. }
    assert (Hdl1 : c_dl c1 = c_dl c).
    { subst c1. destruct (N.ltb_spec (468 + len (c_region c)) (468 + off + len data)); reflexivity. }
    assert (Hsl1 : same_leases c c1).
    { subst c1. destruct (N.ltb_spec (468 + len (c_region c)) (468 + off + len data)); repeat split. }
    assert (Hbig : off + len data <= len (c_region c1)).
    { rewrite Hr1, len_app, len_zeros. subst g. destruct (N.ltb_spec (len (c_region c)) (off + len data)); lia. }
    rewrite (read_elo_flat _ _ Hw1).
    destruct (N.ltb_spec (468 + len (c_region c1)) (468 + off + len data)); [lia|].
    (* zero fill *)
    set (c2 := if c_dl c <? off then set_region c1 (pwn (c_region c1) (N.to_nat (c_dl c)) (zeros (off - c_dl c))) else c1).
    assert (H2 : (if c_dl c <? off then pwrite (flat c1) (468 + c_dl c) (zeros (off - c_dl c)) else flat c1) = flat c2).
    { subst c2. destruct (N.ltb_spec (c_dl c) off); [|reflexivity].
      apply (pwrite_region maxsz); auto. rewrite len_zeros. lia. }
    rewrite H2.
    assert (Hlen2 : length (c_region c2) = length (c_region c1)).
    { subst c2. destruct (N.ltb_spec (c_dl c) off); [|reflexivity]. cbn.
      apply pwn_length_inside. rewrite zeros_length. unfold len in Hbig. lia. }
    assert (Hw2 : wf maxsz c2).
    { subst c2. destruct (N.ltb_spec (c_dl c) off); [|assumption]. apply wf_set_region; auto. }
    assert (Hsl2 : same_leases c1 c2).
    { subst c2. destruct (N.ltb_spec (c_dl c) off); repeat split. }
    assert (Hbig2 : off + len data <= len (c_region c2)).
    { unfold len in *. rewrite Hlen2. exact Hbig. }
    rewrite (write_dl_flat maxsz) by (auto; lia). cbn [obind].
    set (c3 := set_dlb c2 (be 8 (off + len data))).
    assert (Hw3 : wf maxsz c3) by (subst c3; apply wf_set_dlb; auto; lia).
    rewrite (pwrite_region maxsz) by (auto; exact Hbig2).
    cbn [c_region c3 set_dlb].
    exists (set_region c3 (pwn (c_region c2) (N.to_nat off) data)).
    split; [reflexivity|]. split.
    { apply wf_set_region; auto. cbn. apply pwn_length_inside. unfold len in Hbig2. lia. }
    split.
    { subst c3. unfold c_data.
      change (c_dl (set_region (set_dlb c2 (be 8 (off + len data))) (pwn (c_region c2) (N.to_nat off) data)))
        with (unbe (be 8 (off + len data))).
      cbn [c_region set_region].
      rewrite unbe_be by (change (256 ^ N.of_nat 8) with (2 ^ 64); lia).
      rewrite ref_write_nat_eq.
      assert (Hreg2 : c_region c2 = if (N.to_nat (c_dl c) <? N.to_nat off)%nat
                then pwn (c_region c ++ repeat 0 (N.to_nat g)) (N.to_nat (c_dl c)) (repeat 0 (N.to_nat off - N.to_nat (c_dl c)))
                else c_region c ++ repeat 0 (N.to_nat g)).
      { subst c2. destruct (N.ltb_spec (c_dl c) off); destruct (Nat.ltb_spec (N.to_nat (c_dl c)) (N.to_nat off)); try lia.
        - cbn [c_region set_region]. rewrite Hr1. unfold zeros. f_equal. f_equal. lia.
        - rewrite Hr1. reflexivity. }
      rewrite Hreg2.
      replace (N.to_nat (off + len data)) with (N.to_nat off + length data)%nat by (unfold len; lia).
      apply splice_grow; unfold len in *.
      - lia.
      - subst g. destruct (N.ltb_spec (N.of_nat (length (c_region c))) (off + N.of_nat (length data))); lia.
      - lia. }
    { apply (same_leases_trans _ c1); [assumption|]. apply (same_leases_trans _ c2); [assumption|]. repeat split. }
  - (* the write lies strictly inside the data *)
    cbn [obind]. rewrite (pwrite_region maxsz) by (auto; lia).
    exists (set_region c (pwn (c_region c) (N.to_nat off) data)).
    split; [reflexivity|]. split.
    { apply wf_set_region; auto. apply pwn_length_inside. unfold len in *. lia. }
    split; [|repeat split].
    unfold c_data. change (c_dl (set_region c (pwn (c_region c) (N.to_nat off) data))) with (c_dl c).
    cbn [c_region set_region]. rewrite ref_write_nat_eq.
    apply splice_inside; unfold len in *; lia.
Qed.

Lemma write_share_data_too_large maxsz c off data : wf maxsz c -> maxsz < off + len data ->
  write_share_data maxsz (flat c) off data = Raised (flat c) EDataTooLarge.
Proof.
  intros Hw Hbig. unfold write_share_data.
  rewrite (read_dl_flat _ _ Hw), (read_elo_flat _ _ Hw). consts.
  pose proof (wf_dl _ _ Hw). pose proof (wf_max _ _ Hw).
  destruct (N.leb_spec (c_dl c) (off + len data)); [|lia].
  destruct (N.ltb_spec (468 + len (c_region c)) (468 + off + len data)); [|lia].
  unfold change_container_size. destruct (N.ltb_spec maxsz (off + len data)); [reflexivity|lia].
Qed.

(* ---- writev ------------------------------------------------------------------------------------------- *)
Lemma len_ref_write d off data : len (ref_write d off data) = N.max (len d) (off + len data).
Proof.
  unfold ref_write, len. rewrite !app_length, firstn_length, repeat_length, skipn_length. lia.
Qed.

Ltac five c := exists c; split; [|split; [|split; [|split]]]; auto using same_leases_refl.

Lemma write_vectors_flat maxsz c dv : wf maxsz c -> 468 + maxsz < 2 ^ 64 ->
  exists c', out_file (write_vectors maxsz (flat c) dv) = flat c' /\ wf maxsz c' /\ same_leases c c' /\
             out_err (write_vectors maxsz (flat c) dv) = snd (ref_write_vectors maxsz (c_data c) dv) /\
             c_data c' = fst (ref_write_vectors maxsz (c_data c) dv).
Proof.
  intros Hw Hm. revert c Hw. induction dv as [|[off d] r IH]; intros c Hw.
  - five c.
  - cbn [write_vectors ref_write_vectors].
    destruct (N.ltb_spec maxsz (off + len d)) as [Hbig|Hfit].
    + rewrite (write_share_data_too_large _ _ _ _ Hw Hbig). cbn [obind out_file out_err fst snd]. five c.
    + destruct (write_share_data_flat _ _ _ _ Hw Hm Hfit) as (c1 & E1 & Hw1 & Hd1 & Hs1).
      rewrite E1. cbn [obind]. destruct (IH c1 Hw1) as (c' & Ef & Hw' & Hs' & Ee & Hd').
      rewrite Hd1 in *. five c'. eapply same_leases_trans; eauto.
Qed.

Lemma writev_flat maxsz c dv nl : wf maxsz c -> 468 + maxsz < 2 ^ 64 ->
  exists c', out_file (writev maxsz (flat c) dv nl) = flat c' /\ wf maxsz c' /\ same_leases c c' /\
             out_err (writev maxsz (flat c) dv nl) = snd (ref_writev maxsz (c_data c) dv nl) /\
             c_data c' = fst (ref_writev maxsz (c_data c) dv nl).
Proof.
  intros Hw Hm. unfold writev, ref_writev.
  destruct (write_vectors_flat maxsz c dv Hw Hm) as (c1 & Ef & Hw1 & Hs1 & Ee & Hd1).
  destruct (write_vectors maxsz (flat c) dv) as [f1|f1 e1] eqn:Ewv; cbn [out_file out_err obind] in *.
  - destruct (ref_write_vectors maxsz (c_data c) dv) as [d1 [e|]] eqn:Er; cbn [fst snd] in *; [discriminate|].
    subst f1. destruct nl as [n|].
    + rewrite (read_dl_flat _ _ Hw1). cbn [ref_truncate].
      assert (Hlen : len d1 = c_dl c1).
      { rewrite <- Hd1. unfold c_data, len. rewrite firstn_length. pose proof (wf_dl _ _ Hw1) as H1. unfold len in H1. lia. }
      rewrite Hlen.
      destruct (N.ltb_spec n (c_dl c1)) as [Hlt|Hnl].
      * pose proof (wf_dl _ _ Hw1). pose proof (wf_max _ _ Hw1).
        rewrite (write_dl_flat maxsz) by (auto; lia). cbn [out_file out_err fst snd].
        five (set_dlb c1 (be 8 n)).
        all: try (apply wf_set_dlb; auto; lia).
        all: try (eapply same_leases_trans; [exact Hs1|repeat split; fail]).
        unfold c_data in *. change (c_dl (set_dlb c1 (be 8 n))) with (unbe (be 8 n)). cbn [c_region set_dlb].
        rewrite unbe_be by (change (256 ^ N.of_nat 8) with (2 ^ 64); lia).
        rewrite <- Hd1. rewrite firstn_firstn. f_equal. lia.
      * cbn [out_file out_err fst snd]. five c1.
    + cbn [out_file out_err ref_truncate fst snd]. five c1.
  - destruct (ref_write_vectors maxsz (c_data c) dv) as [d1 [e|]] eqn:Er; cbn [fst snd] in *; [|discriminate].
    five c1.
Qed.

(* ---- the raw lease records depend only on the lease fields --------------------------------------------- *)
Definition rec_of (c : FC) (i : N) : list N :=
  if i <? 4 then pread (c_slots c) (i * 92) 92 else pread (c_extra c) ((i - 4) * 92) 92.

Definition recs (c : FC) : list (list N) := map (rec_of c) (nseq (4 + c_nx c)).

Lemma in_nseq i n : In i (nseq n) -> i < n.
Proof.
  unfold nseq. intro Hi. apply in_map_iff in Hi. destruct Hi as (k & <- & Hk). apply in_seq in Hk. lia.
Qed.

Lemma collect_res_map {A B} (f : A -> res B) (g : A -> B) l :
  (forall x, In x l -> f x = Ok (g x)) -> collect_res (map f l) = Ok (map g l).
Proof.
  induction l as [|x l IH]; intro Hf; [reflexivity|].
  cbn [map collect_res]. rewrite (Hf x (or_introl eq_refl)). rewrite IH by (intros; apply Hf; right; assumption).
  reflexivity.
Qed.

Lemma read_lease_raw_flat maxsz c i : wf maxsz c -> i < 4 + c_nx c -> read_lease_raw (flat c) i = Ok (rec_of c i).
Proof.
  intros Hw Hi. unfold read_lease_raw, lease_record_offset, rec_of.
  rewrite (read_elo_flat _ _ Hw), (read_nx_flat _ _ Hw). consts.
  destruct (N.ltb_spec i 4) as [H4|H4].
  - f_equal. rewrite !pread_prn. rewrite flat_slots.
    replace (N.to_nat (100 + i * 92)) with (length (c_id c ++ c_dlb c ++ c_elob c) + N.to_nat (i * 92))%nat.
    2:{ rewrite !app_length. destruct Hw. lia. }
    rewrite prn_app_skip. apply prn_inside. destruct Hw. change (N.to_nat 92) with 92%nat. lia.
  - destruct (N.ltb_spec (i - 4) (c_nx c)); [|lia]. f_equal.
    rewrite !pread_prn. rewrite flat_nxb. rewrite app_assoc.
    replace (N.to_nat (468 + len (c_region c) + 4 + (i - 4) * 92))
      with (length ((hdr c ++ c_region c) ++ c_nxb c) + N.to_nat ((i - 4) * 92))%nat.
    2:{ rewrite !app_length, (hdr_length _ _ Hw). destruct Hw. unfold len. lia. }
    apply prn_app_skip.
Qed.

Lemma raw_lease_records_flat maxsz c : wf maxsz c -> raw_lease_records (flat c) = Ok (recs c).
Proof.
  intro Hw. unfold raw_lease_records, num_lease_slots. rewrite (read_nx_flat _ _ Hw). consts.
  apply collect_res_map. intros i Hi. apply (read_lease_raw_flat maxsz); auto. apply in_nseq. exact Hi.
Qed.

Lemma recs_same c c' : same_leases c c' -> recs c' = recs c.
Proof.
  intros (Hid & Hs & Hn & He). unfold recs, rec_of, c_nx. rewrite Hs, Hn, He. reflexivity.
Qed.

(* ---- layout_ok is exactly "is the rendering of a well-formed structured container" ---------------------- *)
Definition parse (f : file) : FC :=
  let elo := N.to_nat (unbe (firstn 8 (skipn 92 f))) in
  mkFC (firstn 84 f) (firstn 8 (skipn 84 f)) (firstn 8 (skipn 92 f)) (firstn 368 (skipn 100 f))
       (firstn (elo - 468) (skipn 468 f)) (firstn 4 (skipn elo f)) (skipn (elo + 4) f).

Lemma skipn_skipn' (l : list N) x y : skipn x (skipn y l) = skipn (y + x) l.
Proof.
  revert l; induction y as [|y IH]; intro l; [reflexivity|]. destruct l as [|h l]; [destruct x; reflexivity|]. cbn. apply IH.
Qed.

Lemma split_at (f : list N) a b : (a <= b)%nat -> firstn (b - a) (skipn a f) ++ skipn b f = skipn a f.
Proof.
  intro Hab. replace (skipn b f) with (skipn (b - a) (skipn a f)) by (rewrite skipn_skipn'; f_equal; lia).
  apply firstn_skipn.
Qed.

Lemma layout_ok_parse maxsz f : layout_ok maxsz f = true -> wf maxsz (parse f) /\ f = flat (parse f).
Proof.
  unfold layout_ok. destruct (open_container f) as [v|] eqn:Eo; [|discriminate].
  destruct (read_data_length f) as [dl|] eqn:Ed; [|discriminate].
  destruct (read_extra_lease_offset f) as [elo|] eqn:Ee; [|discriminate].
  destruct (read_num_extra_leases f) as [n|] eqn:En; [|discriminate].
  intro Hc. apply andb_prop in Hc. destruct Hc as [Hc H3]. apply andb_prop in Hc. destruct Hc as [H1 H2].
  apply N.leb_le in H1, H2. apply N.eqb_eq in H3. consts.
  unfold read_data_length in Ed. apply unpack_be_inv in Ed. destruct Ed as [Ld Vd].
  unfold read_extra_lease_offset in Ee. apply unpack_be_inv in Ee. destruct Ee as [Le Ve].
  unfold read_num_extra_leases, read_extra_lease_offset in En. consts.
  rewrite (unpack_be_ok 8) in En by exact Le. rewrite <- Ve in En.
  apply unpack_be_inv in En. destruct En as [Ln Vn].
  unfold pread in *. consts.
  change (N.to_nat 84) with 84%nat in *. change (N.to_nat 92) with 92%nat in *.
  change (N.to_nat 8) with 8%nat in *. change (N.to_nat 4) with 4%nat in *.
  unfold len in H3.
  assert (Hlen : (length f = N.to_nat elo + 4 + N.to_nat n * 92)%nat) by lia.
  assert (Helo : (468 <= N.to_nat elo)%nat) by lia.
  unfold parse. rewrite <- Ve.
  split.
  - constructor; cbn [c_id c_dlb c_elob c_slots c_region c_nxb c_extra]; unfold c_dl, c_nx, len;
      cbn [c_id c_dlb c_elob c_slots c_region c_nxb c_extra];
      rewrite ?firstn_length, ?skipn_length; try lia.
    + unfold open_container in Eo. consts. unfold pread in Eo.
      destruct (schema_of_header (firstn (N.to_nat 100) (skipn (N.to_nat 0) f))) eqn:Es; [|discriminate].
      unfold schema_of_header in *. change (N.to_nat 100) with 100%nat in Es. change (N.to_nat 0) with 0%nat in Es.
      cbn [skipn] in Es. rewrite firstn_firstn in *. change (Nat.min 32 100) with 32%nat in Es.
      change (Nat.min 32 84) with 32%nat. rewrite Es. discriminate.
  - unfold flat, hdr, tail. cbn [c_id c_dlb c_elob c_slots c_region c_nxb c_extra].
    rewrite <- !app_assoc. symmetry.
    pose proof (split_at f (N.to_nat elo) (N.to_nat elo + 4)) as E6.
    replace (N.to_nat elo + 4 - N.to_nat elo)%nat with 4%nat in E6 by lia.
    rewrite E6 by lia.
    rewrite (split_at f 468 (N.to_nat elo)) by lia.
    assert (E4 : firstn 368 (skipn 100 f) ++ skipn 468 f = skipn 100 f) by (apply (split_at f 100 468); lia).
    rewrite E4.
    assert (E3 : firstn 8 (skipn 92 f) ++ skipn 100 f = skipn 92 f) by (apply (split_at f 92 100); lia).
    rewrite E3.
    assert (E2 : firstn 8 (skipn 84 f) ++ skipn 92 f = skipn 84 f) by (apply (split_at f 84 92); lia).
    rewrite E2. apply firstn_skipn.
Qed.

Lemma flat_layout_ok maxsz c : wf maxsz c -> layout_ok maxsz (flat c) = true.
Proof.
  intro Hw. unfold layout_ok. destruct (open_flat _ _ Hw) as (v & Eo & _). rewrite Eo.
  rewrite (read_dl_flat _ _ Hw), (read_elo_flat _ _ Hw), (read_nx_flat _ _ Hw). consts.
  pose proof (wf_dl _ _ Hw). pose proof (wf_max _ _ Hw).
  apply andb_true_intro; split; [apply andb_true_intro; split|].
  - apply N.leb_le. lia.
  - apply N.leb_le. lia.
  - apply N.eqb_eq. unfold len at 1. rewrite (flat_length _ _ Hw). unfold len. lia.
Qed.

Lemma layout_ok_iff maxsz f : layout_ok maxsz f = true <-> exists c, wf maxsz c /\ f = flat c.
Proof.
  split.
  - intro Hl. exists (parse f). apply layout_ok_parse. exact Hl.
  - intros (c & Hw & ->). apply flat_layout_ok. exact Hw.
Qed.
