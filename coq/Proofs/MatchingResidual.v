(* residual_network characterised: which edges the residual graph has and the
   residual capacity of each of them. *)
From Coq Require Import List NArith ZArith Bool Arith Lia.
From Verif Require Import Model.Matching Proofs.MatchingLists.
Import ListNotations.

(* ---------- the edge list the two nested loops walk through ------------------------ *)

Fixpoint edges_from (i : nat) (rows : list (list nat)) : list (nat * nat) :=
  match rows with
  | [] => []
  | r :: rest => map (pair i) r ++ edges_from (S i) rest
  end.

Definition res_step (f : matrix) (st : graph * matrix) (e : nat * nat) : graph * matrix :=
  if Z.eqb (mget f (fst e) (snd e)) 1
  then (push_adj (fst st) (snd e) (fst e), mset (mset (snd st) (snd e) (fst e) 1%Z) (fst e) (snd e) (-1)%Z)
  else (push_adj (fst st) (fst e) (snd e), mset (mset (snd st) (fst e) (snd e) 1%Z) (snd e) (fst e) (-1)%Z).

Lemma residual_row_fold : forall i nbrs f ng cf,
  residual_row i nbrs f ng cf = fold_left (res_step f) (map (pair i) nbrs) (ng, cf).
Proof.
  intros i nbrs f. induction nbrs as [|v r IH]; intros ng cf; cbn [residual_row map fold_left]; [reflexivity|].
  unfold res_step at 2. cbn [fst snd]. destruct (Z.eqb (mget f i v) 1); apply IH.
Qed.

Lemma residual_rows_fold : forall rows i f ng cf,
  residual_rows i rows f ng cf = fold_left (res_step f) (edges_from i rows) (ng, cf).
Proof.
  induction rows as [|r rest IH]; intros i f ng cf; cbn [residual_rows edges_from]; [reflexivity|].
  rewrite fold_left_app, <- residual_row_fold.
  destruct (residual_row i r f ng cf) as [ng' cf']. apply IH.
Qed.

Lemma in_edges_from : forall rows i u v,
  In (u, v) (edges_from i rows) <-> i <= u /\ In v (nth (u - i) rows []).
Proof.
  induction rows as [|r rest IH]; intros i u v; cbn [edges_from].
  - split; [intros [] | intros [_ H]; destruct (u - i); destruct H].
  - rewrite in_app_iff, in_map_iff, IH. split.
    + intros [[x [E H]]|[H1 H2]].
      * inversion E; subst. split; [lia|]. rewrite Nat.sub_diag. exact H.
      * split; [lia|]. replace (u - i) with (S (u - S i)) by lia. exact H2.
    + intros [H1 H2]. destruct (Nat.eq_dec u i) as [->|Hne].
      * left. rewrite Nat.sub_diag in H2. exists v. split; [reflexivity | exact H2].
      * right. split; [lia|]. replace (u - i) with (S (u - S i)) in H2 by lia. exact H2.
Qed.

Lemma in_edges_graph : forall (g : graph) u v, In (u, v) (edges_from 0 g) <-> In v (adj g u).
Proof.
  intros g u v. rewrite in_edges_from, Nat.sub_0_r. unfold adj. split; [tauto | intros H; split; [lia | exact H]].
Qed.

(* ---------- what one residual edge looks like ---------------------------------------- *)

Definition target (f : matrix) (e : nat * nat) : nat * nat :=
  if Z.eqb (mget f (fst e) (snd e)) 1 then (snd e, fst e) else e.

Definition in_dim (dim : nat) (L : list (nat * nat)) : Prop :=
  forall e, In e L -> fst e < dim /\ snd e < dim.

Lemma res_fold_adj : forall f dim L ng cf ng' cf',
  in_dim dim L -> length ng = dim ->
  fold_left (res_step f) L (ng, cf) = (ng', cf') ->
  length ng' = dim /\
  forall x y, In y (adj ng' x) <-> In y (adj ng x) \/ exists e, In e L /\ target f e = (x, y).
Proof.
  intros f dim. induction L as [|e r IH]; intros ng cf ng' cf' Hd Hl H; cbn [fold_left] in H.
  - injection H as E1 E2. subst ng' cf'. split; [exact Hl|]. intros x y. split; [tauto | intros [H1|[e [[] _]]]; exact H1].
  - destruct (Hd e (or_introl eq_refl)) as [He1 He2].
    assert (Hd' : in_dim dim r) by (intros e' He'; apply Hd; right; exact He').
    unfold res_step at 2 in H. cbn [fst snd] in H.
    destruct (Z.eqb (mget f (fst e) (snd e)) 1) eqn:Ef.
    + destruct (IH _ _ _ _ Hd' (eq_trans (length_push_adj _ _ _) Hl) H) as [HL HA]. split; [exact HL|].
      intros x y. rewrite HA, adj_push_adj by lia. split.
      * intros [H1|[e' [He' Ht]]].
        -- destruct (Nat.eqb (snd e) x) eqn:Ex; [|left; exact H1].
           apply Nat.eqb_eq in Ex. subst x. apply in_app_iff in H1. destruct H1 as [H1|[H1|[]]]; [left; exact H1|].
           right. exists e. split; [left; reflexivity|]. unfold target. rewrite Ef. subst. reflexivity.
        -- right. exists e'. split; [right; exact He' | exact Ht].
      * intros [H1|[e' [[He'|He'] Ht]]].
        -- left. destruct (Nat.eqb (snd e) x) eqn:Ex; [apply Nat.eqb_eq in Ex; subst x; apply in_app_iff; left|]; exact H1.
        -- subst e'. unfold target in Ht. rewrite Ef in Ht. inversion Ht; subst. left.
           rewrite Nat.eqb_refl. apply in_app_iff. right. left. reflexivity.
        -- right. exists e'. split; assumption.
    + destruct (IH _ _ _ _ Hd' (eq_trans (length_push_adj _ _ _) Hl) H) as [HL HA]. split; [exact HL|].
      intros x y. rewrite HA, adj_push_adj by lia. split.
      * intros [H1|[e' [He' Ht]]].
        -- destruct (Nat.eqb (fst e) x) eqn:Ex; [|left; exact H1].
           apply Nat.eqb_eq in Ex. subst x. apply in_app_iff in H1. destruct H1 as [H1|[H1|[]]]; [left; exact H1|].
           right. exists e. split; [left; reflexivity|]. unfold target. rewrite Ef. subst. destruct e; reflexivity.
        -- right. exists e'. split; [right; exact He' | exact Ht].
      * intros [H1|[e' [[He'|He'] Ht]]].
        -- left. destruct (Nat.eqb (fst e) x) eqn:Ex; [apply Nat.eqb_eq in Ex; subst x; apply in_app_iff; left|]; exact H1.
        -- subst e'. unfold target in Ht. rewrite Ef in Ht. subst e. cbn [fst snd]. left.
           rewrite Nat.eqb_refl. apply in_app_iff. right. left. reflexivity.
        -- right. exists e'. split; assumption.
Qed.

(* ---------- residual capacities -------------------------------------------------------- *)

Lemma res_fold_shape : forall f dim L ng cf ng' cf',
  in_dim dim L -> shape dim cf ->
  fold_left (res_step f) L (ng, cf) = (ng', cf') -> shape dim cf'.
Proof.
  intros f dim. induction L as [|e r IH]; intros ng cf ng' cf' Hd Hs H; cbn [fold_left] in H.
  - injection H as E1 E2. subst ng' cf'. exact Hs.
  - assert (Hd' : in_dim dim r) by (intros e' He'; apply Hd; right; exact He').
    unfold res_step at 2 in H. cbn [fst snd] in H.
    destruct (Z.eqb (mget f (fst e) (snd e)) 1); eapply IH; try exact H; try exact Hd';
      apply shape_mset; apply shape_mset; exact Hs.
Qed.

Lemma res_fold_untouched : forall f dim L ng cf ng' cf' a b,
  in_dim dim L -> shape dim cf ->
  (forall e, In e L -> e <> (a, b) /\ e <> (b, a)) ->
  fold_left (res_step f) L (ng, cf) = (ng', cf') -> mget cf' a b = mget cf a b.
Proof.
  intros f dim. induction L as [|e r IH]; intros ng cf ng' cf' a b Hd Hs Hn H; cbn [fold_left] in H.
  - injection H as E1 E2. subst ng' cf'. reflexivity.
  - destruct (Hd e (or_introl eq_refl)) as [He1 He2].
    assert (Hd' : in_dim dim r) by (intros e' He'; apply Hd; right; exact He').
    assert (Hn' : forall e', In e' r -> e' <> (a, b) /\ e' <> (b, a)) by (intros e' He'; apply Hn; right; exact He').
    destruct (Hn e (or_introl eq_refl)) as [N1 N2]. destruct e as [u v]. cbn [fst snd] in *.
    assert (D1 : a <> u \/ b <> v) by (destruct (Nat.eq_dec a u); [right; intro; subst; apply N1; reflexivity | left; assumption]).
    assert (D2 : a <> v \/ b <> u) by (destruct (Nat.eq_dec a v); [right; intro; subst; apply N2; reflexivity | left; assumption]).
    unfold res_step at 2 in H. cbn [fst snd] in H.
    destruct (Z.eqb (mget f u v) 1).
    + rewrite (IH _ _ _ _ a b Hd' (shape_mset _ _ _ _ _ (shape_mset _ _ _ _ _ Hs)) Hn' H).
      rewrite (mget_mset_other dim); [| apply shape_mset; exact Hs | assumption | assumption | assumption].
      apply (mget_mset_other dim); assumption.
    + rewrite (IH _ _ _ _ a b Hd' (shape_mset _ _ _ _ _ (shape_mset _ _ _ _ _ Hs)) Hn' H).
      rewrite (mget_mset_other dim); [| apply shape_mset; exact Hs | assumption | assumption | assumption].
      apply (mget_mset_other dim); assumption.
Qed.

Lemma res_fold_cf : forall f dim L ng cf ng' cf',
  in_dim dim L -> shape dim cf -> NoDup L -> (forall e, In e L -> fst e < snd e) ->
  fold_left (res_step f) L (ng, cf) = (ng', cf') ->
  forall e, In e L -> mget cf' (fst (target f e)) (snd (target f e)) = 1%Z.
Proof.
  intros f dim. induction L as [|e0 r IH]; intros ng cf ng' cf' Hd Hs Hnd Hlt H e He; [destruct He|].
  cbn [fold_left] in H.
  destruct (Hd e0 (or_introl eq_refl)) as [He1 He2].
  assert (Hd' : in_dim dim r) by (intros e' He'; apply Hd; right; exact He').
  assert (Hlt' : forall e', In e' r -> fst e' < snd e') by (intros e' He'; apply Hlt; right; exact He').
  inversion Hnd as [|x y Hnotin Hnd']; subst.
  destruct He as [He|He].
  - subst e0. pose proof (Hlt e (or_introl eq_refl)) as Hl. destruct e as [u v]. cbn [fst snd] in *.
    assert (Hun : forall a b, (a, b) = target f (u, v) ->
                  forall e', In e' r -> e' <> (a, b) /\ e' <> (b, a)).
    { intros a b Et e' He'. pose proof (Hlt' e' He') as Hl'. unfold target in Et. cbn [fst snd] in Et.
      destruct (Z.eqb (mget f u v) 1); inversion Et; subst; split; intro; subst e'; cbn [fst snd] in Hl'; try lia;
        apply Hnotin; exact He'. }
    unfold res_step at 2 in H. cbn [fst snd] in H.
    destruct (Z.eqb (mget f u v) 1) eqn:Ef.
    + assert (Hs' : shape dim (mset (mset cf v u 1%Z) u v (-1)%Z)) by (apply shape_mset; apply shape_mset; exact Hs).
      assert (Et : (v, u) = target f (u, v)) by (unfold target; cbn [fst snd]; rewrite Ef; reflexivity).
      rewrite <- Et. cbn [fst snd].
      rewrite (res_fold_untouched f dim r _ _ _ _ v u Hd' Hs' (Hun v u Et) H).
      rewrite (mget_mset_other dim); [| apply shape_mset; exact Hs | assumption | assumption | lia].
      apply (mget_mset_same dim); assumption.
    + assert (Hs' : shape dim (mset (mset cf u v 1%Z) v u (-1)%Z)) by (apply shape_mset; apply shape_mset; exact Hs).
      assert (Et : (u, v) = target f (u, v)) by (unfold target; cbn [fst snd]; rewrite Ef; reflexivity).
      rewrite <- Et. cbn [fst snd].
      rewrite (res_fold_untouched f dim r _ _ _ _ u v Hd' Hs' (Hun u v Et) H).
      rewrite (mget_mset_other dim); [| apply shape_mset; exact Hs | assumption | assumption | lia].
      apply (mget_mset_same dim); assumption.
  - unfold res_step at 2 in H.
    destruct (Z.eqb (mget f (fst e0) (snd e0)) 1).
    + apply (IH _ _ _ _ Hd' (shape_mset _ _ _ _ _ (shape_mset _ _ _ _ _ Hs)) Hnd' Hlt' H e He).
    + apply (IH _ _ _ _ Hd' (shape_mset _ _ _ _ _ (shape_mset _ _ _ _ _ Hs)) Hnd' Hlt' H e He).
Qed.

(* ---------- graphs whose edges all go upwards, without repeated edges -------------------- *)

Definition upward (g : graph) : Prop :=
  (forall u v, In v (adj g u) -> u < v /\ v < length g) /\ (forall u, NoDup (adj g u)).

Lemma NoDup_edges_from : forall rows i, (forall r, In r rows -> NoDup r) -> NoDup (edges_from i rows).
Proof.
  induction rows as [|r rest IH]; intros i H; cbn [edges_from]; [constructor|].
  apply NoDup_app_intro.
  - assert (Hr : NoDup r) by (apply H; left; reflexivity).
    clear -Hr. induction Hr as [|x l Hx Hl IHl]; cbn [map]; constructor; [|exact IHl].
    rewrite in_map_iff. intros [y [E Hy]]. inversion E; subst. contradiction.
  - apply IH. intros r' Hr'. apply H. right. exact Hr'.
  - intros [u v] H1 H2. apply in_map_iff in H1. destruct H1 as [y [E _]]. inversion E; subst.
    apply in_edges_from in H2. lia.
Qed.

Lemma upward_edges : forall g, upward g ->
  NoDup (edges_from 0 g) /\ in_dim (length g) (edges_from 0 g) /\
  (forall e, In e (edges_from 0 g) -> fst e < snd e).
Proof.
  intros g [H1 H2]. split; [|split].
  - apply NoDup_edges_from. intros r Hr. apply In_nth with (d := []) in Hr. destruct Hr as [n [_ E]].
    rewrite <- E. apply (H2 n).
  - intros [u v] He. apply in_edges_graph in He. destruct (H1 _ _ He). cbn [fst snd]. lia.
  - intros [u v] He. apply in_edges_graph in He. destruct (H1 _ _ He). cbn [fst snd]. lia.
Qed.

(* ---------- the characterisation --------------------------------------------------------- *)

Definition residual_edge (g : graph) (f : matrix) (x y : nat) : Prop :=
  (In y (adj g x) /\ mget f x y <> 1%Z) \/ (In x (adj g y) /\ mget f y x = 1%Z).

Theorem residual_network_spec : forall g f rg cf,
  upward g -> residual_network g f = (rg, cf) ->
  length rg = length g /\
  (forall x y, In y (adj rg x) <-> residual_edge g f x y) /\
  (forall x y, residual_edge g f x y -> mget cf x y = 1%Z).
Proof.
  intros g f rg cf Hup H. unfold residual_network in H. rewrite residual_rows_fold in H.
  destruct (upward_edges g Hup) as [Hnd [Hdim Hlt]].
  destruct (res_fold_adj f (length g) _ _ _ _ _ Hdim (repeat_length _ _) H) as [HL HA].
  assert (Ht : forall x y, (exists e, In e (edges_from 0 g) /\ target f e = (x, y)) <-> residual_edge g f x y).
  { intros x y. unfold residual_edge. split.
    - intros [[u v] [He Et]]. apply in_edges_graph in He. unfold target in Et. cbn [fst snd] in Et.
      destruct (Z.eqb (mget f u v) 1) eqn:Ef; inversion Et; subst.
      + right. split; [exact He | apply Z.eqb_eq; exact Ef].
      + left. split; [exact He | apply Z.eqb_neq; exact Ef].
    - intros [[He Hf]|[He Hf]].
      + exists (x, y). split; [apply in_edges_graph; exact He|]. unfold target. cbn [fst snd].
        apply Z.eqb_neq in Hf. rewrite Hf. reflexivity.
      + exists (y, x). split; [apply in_edges_graph; exact He|]. unfold target. cbn [fst snd].
        apply Z.eqb_eq in Hf. rewrite Hf. reflexivity. }
  split; [exact HL|]. split.
  - intros x y. rewrite HA, adj_repeat_nil, Ht. cbn [In]. tauto.
  - intros x y Hr. apply Ht in Hr. destruct Hr as [e [He Et]].
    pose proof (res_fold_cf f (length g) _ _ _ _ _ Hdim (shape_zero _) Hnd Hlt H e He) as Hc.
    rewrite Et in Hc. exact Hc.
Qed.

(* adjacency of the residual graph needs only that the graph's edges stay in range *)
Theorem residual_network_adj : forall g f rg cf,
  (forall u v, In v (adj g u) -> v < length g) -> residual_network g f = (rg, cf) ->
  length rg = length g /\ (forall x y, In y (adj rg x) <-> residual_edge g f x y).
Proof.
  intros g f rg cf Hr H. unfold residual_network in H. rewrite residual_rows_fold in H.
  assert (Hdim : in_dim (length g) (edges_from 0 g)).
  { intros [u v] He. apply in_edges_graph in He. cbn [fst snd]. split; [|apply (Hr u v He)].
    destruct (Nat.lt_ge_cases u (length g)) as [Hu|Hu]; [exact Hu|].
    unfold adj in He. rewrite nth_overflow in He by exact Hu. destruct He. }
  destruct (res_fold_adj f (length g) _ _ _ _ _ Hdim (repeat_length _ _) H) as [HL HA].
  split; [exact HL|]. intros x y. rewrite HA, adj_repeat_nil. unfold residual_edge. cbn [In]. split.
  - intros [[]|[[u v] [He Et]]]. apply in_edges_graph in He. unfold target in Et. cbn [fst snd] in Et.
    destruct (Z.eqb (mget f u v) 1) eqn:Ef; inversion Et; subst.
    + right. split; [exact He | apply Z.eqb_eq; exact Ef].
    + left. split; [exact He | apply Z.eqb_neq; exact Ef].
  - intros [[He Hf]|[He Hf]]; right.
    + exists (x, y). split; [apply in_edges_graph; exact He|]. unfold target. cbn [fst snd].
      apply Z.eqb_neq in Hf. rewrite Hf. reflexivity.
    + exists (y, x). split; [apply in_edges_graph; exact He|]. unfold target. cbn [fst snd].
      apply Z.eqb_eq in Hf. rewrite Hf. reflexivity.
Qed.
