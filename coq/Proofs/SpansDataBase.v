(* C37: DataSpans -- N-indexed slicing lemmas, the denotation of a chunk list as a
   partial map offset -> byte, the representation invariant (strong: merged;
   weak: sorted and disjoint, as between the loop and the merge pass of add). *)
From Coq Require Import List Arith NArith Bool Lia ZifyBool ZifyNat ZifyN.
From Verif Require Import Model.Spans Proofs.SpansBase.
Import ListNotations.
Local Open Scope N_scope.

(* ---- slicing ------------------------------------------------------------------------ *)
Definition nget (d : list N) (k : N) : option N := nth_error d (N.to_nat k).

Lemma nth_error_firstn {A} (k : nat) : forall (d : list A) j,
  nth_error (firstn k d) j = if (j <? k)%nat then nth_error d j else None.
Proof.
  induction k as [|k IH]; intros d j.
  - cbn [firstn]. destruct j; reflexivity.
  - destruct d as [|x d]; cbn [firstn].
    + destruct j; cbn [nth_error]; destruct (_ <? _)%nat; reflexivity.
    + destruct j as [|j]; cbn [nth_error]; [reflexivity|]. rewrite IH.
      change (S j <? S k)%nat with (j <? k)%nat. reflexivity.
Qed.

Lemma nth_error_skipn {A} (k : nat) : forall (d : list A) j,
  nth_error (skipn k d) j = nth_error d (k + j).
Proof.
  induction k as [|k IH]; intros d j; [reflexivity|].
  destruct d as [|x d]; cbn [skipn Nat.add nth_error]; [destruct j; reflexivity|]. apply IH.
Qed.

Lemma nlen_nil : nlen [] = 0.
Proof. reflexivity. Qed.

Lemma nlen_cons x d : nlen (x :: d) = nlen d + 1.
Proof. unfold nlen. cbn [length]. lia. Qed.

Lemma nlen_app a b : nlen (a ++ b) = nlen a + nlen b.
Proof. unfold nlen. rewrite app_length. lia. Qed.

Lemma nlen_ntake k d : nlen (ntake k d) = N.min k (nlen d).
Proof. unfold nlen, ntake. rewrite firstn_length. lia. Qed.

Lemma nlen_ndrop k d : nlen (ndrop k d) = nlen d - k.
Proof. unfold nlen, ndrop. rewrite skipn_length. lia. Qed.

Lemma nlast_pos k d : 0 < k -> nlast k d = ndrop (nlen d - k) d.
Proof. intro H. unfold nlast. assert (E : (k =? 0) = false) by lia. rewrite E. reflexivity. Qed.

Lemma nget_ntake k d j : nget (ntake k d) j = if j <? k then nget d j else None.
Proof.
  unfold nget, ntake. rewrite nth_error_firstn.
  destruct (N.to_nat j <? N.to_nat k)%nat eqn:E1, (j <? k) eqn:E2; try reflexivity; lia.
Qed.

Lemma nget_ndrop k d j : nget (ndrop k d) j = nget d (k + j).
Proof. unfold nget, ndrop. rewrite nth_error_skipn. f_equal. lia. Qed.

Lemma nget_app a b j : nget (a ++ b) j = if j <? nlen a then nget a j else nget b (j - nlen a).
Proof.
  unfold nget, nlen. destruct (j <? N.of_nat (length a)) eqn:E.
  - apply nth_error_app1. lia.
  - rewrite nth_error_app2 by lia. f_equal. lia.
Qed.

Lemma nget_none d j : nlen d <= j -> nget d j = None.
Proof. unfold nget, nlen. intro H. apply nth_error_None. lia. Qed.

Lemma nget_some d j : j < nlen d -> exists v, nget d j = Some v.
Proof.
  unfold nget, nlen. intro H. destruct (nth_error d (N.to_nat j)) eqn:E; [eauto|].
  apply nth_error_None in E. lia.
Qed.

Lemma nget_is_some d j : is_some (nget d j) = (j <? nlen d).
Proof.
  destruct (j <? nlen d) eqn:E.
  - destruct (nget_some d j ltac:(lia)) as [v ->]. reflexivity.
  - rewrite nget_none by lia. reflexivity.
Qed.

Lemma nget_ext a b : nlen a = nlen b -> (forall k, k < nlen a -> nget a k = nget b k) -> a = b.
Proof.
  revert b; induction a as [|x a IH]; intros b L E.
  - destruct b; [reflexivity|]. rewrite nlen_nil, nlen_cons in L. lia.
  - destruct b as [|y b]; [rewrite nlen_nil, nlen_cons in L; lia|].
    rewrite !nlen_cons in L.
    pose proof (E 0 ltac:(rewrite nlen_cons; lia)) as E0. cbn in E0. injection E0 as ->.
    f_equal. apply IH; [lia|]. intros k Hk.
    specialize (E (k + 1) ltac:(rewrite nlen_cons; lia)). unfold nget in *.
    replace (N.to_nat (k + 1)) with (S (N.to_nat k)) in E by lia. exact E.
Qed.

(* ---- denotation ------------------------------------------------------------------------ *)
Fixpoint dget (z : N) (l : dspans) : option N :=
  match l with
  | [] => None
  | sp :: r => if in_iv (fst sp) (nlen (snd sp)) z then nget (snd sp) (z - fst sp) else dget z r
  end.

Lemma dget_cons z sp r :
  dget z (sp :: r) = if in_iv (fst sp) (nlen (snd sp)) z then nget (snd sp) (z - fst sp) else dget z r.
Proof. reflexivity. Qed.

(* ---- invariants -------------------------------------------------------------------------- *)
Fixpoint dwf_from (e : N) (l : dspans) : Prop :=
  match l with
  | [] => True
  | sp :: r => e <= fst sp /\ 0 < nlen (snd sp) /\ dwf_from (fst sp + nlen (snd sp) + 1) r
  end.

Definition dwf (l : dspans) : Prop := dwf_from 0 l.

Fixpoint dweak_from (e : N) (l : dspans) : Prop :=
  match l with
  | [] => True
  | sp :: r => e <= fst sp /\ 0 < nlen (snd sp) /\ dweak_from (fst sp + nlen (snd sp)) r
  end.

Lemma dwf_from_weaken e e' l : e' <= e -> dwf_from e l -> dwf_from e' l.
Proof. destruct l as [|sp r]; cbn [dwf_from]; [trivial|]. intros H (H1 & H2 & H3). repeat split; [lia|assumption|assumption]. Qed.

Lemma dweak_from_weaken e e' l : e' <= e -> dweak_from e l -> dweak_from e' l.
Proof. destruct l as [|sp r]; cbn [dweak_from]; [trivial|]. intros H (H1 & H2 & H3). repeat split; [lia|assumption|assumption]. Qed.

Lemma dwf_dweak l : forall e, dwf_from e l -> dweak_from e l.
Proof.
  induction l as [|sp r IH]; intros e H; [exact I|].
  cbn [dwf_from] in H. destruct H as (H1 & H2 & H3). cbn [dweak_from]. repeat split; try assumption.
  apply IH. apply (dwf_from_weaken (fst sp + nlen (snd sp) + 1) (fst sp + nlen (snd sp))); [lia|exact H3].
Qed.

Lemma dget_below_weak l : forall e z, dweak_from e l -> z < e -> dget z l = None.
Proof.
  induction l as [|sp r IH]; intros e z H Hz; [reflexivity|].
  cbn [dweak_from] in H. destruct H as (H1 & H2 & H3). rewrite dget_cons.
  assert (E : in_iv (fst sp) (nlen (snd sp)) z = false) by (unfold in_iv; lia). rewrite E.
  apply (IH _ _ H3). lia.
Qed.

Lemma dget_below l e z : dwf_from e l -> z < e -> dget z l = None.
Proof. intros H. apply dget_below_weak. apply dwf_dweak. exact H. Qed.

Lemma dwf_from_In e l sp : dwf_from e l -> In sp l -> e <= fst sp /\ 0 < nlen (snd sp).
Proof.
  revert e; induction l as [|y r IH]; intros e H Hin; [contradiction|].
  cbn [dwf_from] in H. destruct H as (H1 & H2 & H3).
  destruct Hin as [<-|Hin]; [auto|]. destruct (IH _ H3 Hin). split; lia.
Qed.

(* ---- the shape of a chunk list is a Spans list -------------------------------------------- *)
Definition shape (l : dspans) : spans := map (fun sp => (fst sp, nlen (snd sp))) l.

Lemma shape_wf l : forall e, dwf_from e l <-> wf_from e (shape l).
Proof.
  induction l as [|sp r IH]; intro e; [split; trivial|].
  cbn [dwf_from shape map wf_from fst snd]. rewrite IH. reflexivity.
Qed.

Lemma shape_mem z l : mem z (shape l) = is_some (dget z l).
Proof.
  induction l as [|sp r IH]; [reflexivity|].
  cbn [shape map]. rewrite mem_cons, dget_cons. cbn [fst snd]. fold (shape r). rewrite IH.
  destruct (in_iv (fst sp) (nlen (snd sp)) z) eqn:E; [|reflexivity].
  rewrite nget_is_some. unfold in_iv in E. cbn [orb]. lia.
Qed.

Lemma shape_len l : spans_len (shape l) = ds_len l.
Proof. induction l as [|sp r IH]; [reflexivity|]. cbn [shape map]. rewrite spans_len_cons. cbn [snd]. fold (shape r). rewrite IH. reflexivity. Qed.
