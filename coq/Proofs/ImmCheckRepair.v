(* Repair: the repairer reads the whole ciphertext through the validating downloader and
   encodes it again with the cap's k and N and the segment size of the validated UEB.  The
   encoder is a function, so the new shares are the uploader's shares: the same blocks, the
   same hash trees, the same UEB, hence the same capability. *)
From Coq Require Import List ZArith NArith Bool Lia.
From Verif Require Import Gen.ImmConsts Model.HashTree Model.ImmFile Model.ImmVerify Model.ImmCheck
  Proofs.ImmFileArith Proofs.ImmFileRead Proofs.ImmVerifyTree Proofs.ImmVerify Proofs.ImmVerifyComplete Proofs.ImmVerifyRead Proofs.ImmCheck.
Import ListNotations.
Local Open Scope N_scope.

Section Repair.
  Variable H : Type.
  Variable H_eqb : H -> H -> bool.
  Variable pair_hash : H -> H -> H.
  Variable truthy : H -> bool.
  Variable empty_leaf : Z -> H.
  Variable block_hash : list N -> H.
  Variable seg_hash : list N -> H.
  Variable UB : Type.
  Variable ueb_hash : UB -> H.
  Variable parse_ueb : UB -> option (ueb H).
  Variable dec : N -> N -> list (N * list N) -> list (list N).
  Variable ser_ueb : ueb H -> UB.
  Variable enc : N -> N -> list (list N) -> list (list N).

  Hypothesis H_eqb_spec : forall a b, H_eqb a b = true <-> a = b.
  Hypothesis all_truthy_H : forall h, truthy h = true.
  Hypothesis pair_inj : forall a b c d, pair_hash a b = pair_hash c d -> a = c /\ b = d.
  Hypothesis block_inj : forall a b, block_hash a = block_hash b -> a = b.
  Hypothesis seg_inj : forall a b, seg_hash a = seg_hash b -> a = b.
  Hypothesis ueb_inj : forall a b, ueb_hash a = ueb_hash b -> a = b.
  Hypothesis parse_ser : forall u, parse_ueb (ser_ueb u) = Some u.

  Notation g_cap := (g_cap H pair_hash empty_leaf block_hash seg_hash UB ueb_hash ser_ueb).
  Notation g_share := (g_share H pair_hash empty_leaf block_hash seg_hash UB ser_ueb).
  Notation serve := (serve H H_eqb pair_hash truthy block_hash seg_hash UB ueb_hash parse_ueb dec).
  Notation fetch_segment := (fetch_segment H H_eqb pair_hash truthy block_hash seg_hash UB ueb_hash parse_ueb dec).

  (* the segment size the repairer obtains (DownloadNode.get_segsize: fetch segment 0, then
     node.segment_size) is the uploader's *)
  Lemma repair_segsize_ok : forall (f : efile) key tries ord dn r ss,
    ef_wf f ->
    fetch_segment (g_cap key f) (node_init H (g_cap key f)) 0%Z tries ord = (dn, r) ->
    dn_segsize dn = Some ss -> ss = ef_segsize f.
  Proof.
    intros f key tries ord dn r ss Hwf Hf Hss.
    destruct (fetch_segment_sound H H_eqb pair_hash truthy empty_leaf block_hash seg_hash UB ueb_hash parse_ueb dec ser_ueb
                H_eqb_spec all_truthy_H pair_inj block_inj seg_inj ueb_inj parse_ser f key Hwf _ _ _ _ _ _
                (node_init_inv H pair_hash empty_leaf block_hash seg_hash UB ueb_hash ser_ueb f key) Hf) as [Hinv _].
    unfold node_inv in Hinv. rewrite Hss in Hinv. destruct Hinv as [E _]. exact E.
  Qed.

  Theorem repair_equals_original : forall (k n segsize guess : N) (ct key : list N)
      (script : N -> list (Z * share H UB * (nat -> list Z)) * list Z) tries ord,
    1 <= N.of_nat (length ct) -> 1 <= k -> 1 <= segsize -> segsize mod k = 0 -> 1 <= guess ->
    let f := encode_file enc k n segsize ct in
    let c := g_cap key f in
    forall dn0 r0 ss ws chunks,
      (* get_segment_size *)
      fetch_segment c (node_init H c) 0%Z tries ord = (dn0, r0) -> dn_segsize dn0 = Some ss ->
      (* read_encrypted: the whole file, completed without error *)
      read_plan (N.of_nat (length ct)) segsize guess 0 None = SegDone ws ->
      serve c (node_init H c) ws script = (chunks, None) ->
      let f' := repair_encode enc (c_k c) (c_n c) ss (concat chunks) in
      f' = f /\ g_cap key f' = c /\ (forall ver o i, g_share f' ver o i = g_share f ver o i) /\
      (* ... and a download that starts fresh accepts every block of every share the repair wrote *)
      (forall ver o i j ords,
         check_offsets H UB (g_share f' ver o i) = None -> (0 <= i < Z.of_N n)%Z -> (0 <= j < nseg f)%Z ->
         exists dn', get_block H H_eqb pair_hash truthy block_hash UB ueb_hash parse_ueb c (node_init H c) i j (g_share f' ver o i) ords
                     = (dn', GBlock (gblock f i j))).
  Proof.
    intros k n segsize guess ct key script tries ord Hct Hk Hs Hm Hg f c dn0 r0 ss ws chunks Hf Hss Hplan Hsv f'.
    pose proof (encode_file_wf enc k n segsize ct Hk Hs Hm) as Hwf. fold f in Hwf.
    pose proof (repair_segsize_ok f key tries ord dn0 r0 ss Hwf Hf Hss) as Ess.
    destruct (delivered_prefix_ok H H_eqb pair_hash truthy empty_leaf block_hash seg_hash UB ueb_hash parse_ueb dec ser_ueb enc
                H_eqb_spec all_truthy_H pair_inj block_inj seg_inj ueb_inj parse_ser
                k n segsize guess 0 None ct key script Hct Hk Hs Hm Hg) as [ws' [Hplan' Hall]].
    rewrite Hplan in Hplan'. inversion Hplan'. subst ws'.
    destruct (Hall chunks None Hsv) as [_ Hok]. specialize (Hok eq_refl).
    assert (Hct' : concat chunks = ct) by (rewrite Hok; reflexivity).
    assert (Ef : f' = f).
    { unfold f', repair_encode. rewrite Hct', Ess. reflexivity. }
    split; [exact Ef|]. rewrite Ef. split; [reflexivity|]. split; [intros; reflexivity|].
    intros ver o i j ords Hoff Hi Hj.
    apply (new_node_accepts_genuine_block H H_eqb pair_hash truthy empty_leaf block_hash seg_hash UB ueb_hash parse_ueb ser_ueb
             H_eqb_spec all_truthy_H parse_ser f key Hwf ver o i j ords Hoff Hi Hj).
  Qed.
End Repair.

(* ---- the instance runs: reading f3 from shares 1 and 2, with share 0 corrupted, and the
   verdicts on each share ---------------------------------------------------------------------- *)
From Verif Require Import Proofs.ImmVerifySym.
Local Open Scope Z_scope.

(* a decoder for the example file: the two blocks of shares (1,2) or (0,1) or (0,2) of f3 map back
   to the segment (table lookup: the validation does not depend on what the decoder is) *)
Definition f3_dec (k n : N) (blocks : list (N * list N)) : list (list N) :=
  match map snd blocks with
  | [[2]; [9]] | [[1]; [2]] | [[1]; [9]] => [[1; 2]]
  | [[4]; [8]] | [[3]; [4]] | [[3]; [8]] => [[3; 4]]
  | [[0]; [7]] | [[5]; [0]] | [[5]; [7]] => [[5; 0]]
  | _ => [[99; 99]]
  end%N.

Definition f3_bad0 : share hs ub :=
  let s := f3_share 0 in
  mkShare (s_version s) (s_off s) (s_ueb s) (s_share_hashes s) (s_block_hashes s) (s_ct_hashes s)
          [(0, [77%N]); (1, [3%N]); (2, [5%N])].

Definition f3_script (j : N) : list (Z * share hs ub * (nat -> list Z)) * list Z :=
  ([(0, f3_bad0, no_ord); (1, f3_share 1, no_ord); (2, f3_share 2, no_ord)], []).

Lemma f3_download_runs :
  sym_serve f3_dec f3_cap (sym_node_init f3_cap) [mk_write 0 0 2; mk_write 1 0 2; mk_write 2 0 1] f3_script
  = ([[1; 2]; [3; 4]; [5]]%N, None).
Proof. vm_compute. reflexivity. Qed.

(* with only the corrupted share 0 and share 1 the first segment cannot be fetched: nothing is
   delivered, and nothing wrong is delivered *)
Lemma f3_download_fails_cleanly :
  sym_serve f3_dec f3_cap (sym_node_init f3_cap) [mk_write 0 0 2; mk_write 1 0 2; mk_write 2 0 1]
            (fun _ => ([(0, f3_bad0, no_ord); (1, f3_share 1, no_ord)], [])) = ([], Some ENotEnoughShares).
Proof. vm_compute. reflexivity. Qed.
