(* Data path of an immutable file: segments -> blocks -> shares -> blocks ->
   segments gives back the ciphertext, for every choice of k shares per segment;
   CTR positioning; the composed round trip.  *)
From Coq Require Import List NArith ZArith Bool Lia.
Require Import ZifyBool ZifyNat ZifyN.
From Verif Require Import Gen.ImmConsts Model.ImmFile Proofs.ImmFileArith Proofs.ImmFileRead.
Import ListNotations.
Local Open Scope N_scope.

(* ---- lists ---------------------------------------------------------------- *)
Lemma chunks_length {A} cnt sz (l : list A) : length (chunks cnt sz l) = cnt.
Proof. revert l; induction cnt; intros; cbn [chunks length]; [reflexivity|now rewrite IHcnt]. Qed.

Lemma chunks_concat {A} cnt sz (l : list A) : (length l <= cnt * sz)%nat -> concat (chunks cnt sz l) = l.
Proof.
  revert l; induction cnt as [|c IH]; intros l H; cbn [chunks concat].
  - destruct l; [reflexivity|cbn in H; lia].
  - rewrite IH; [apply firstn_skipn|]. rewrite skipn_length. lia.
Qed.

Lemma chunks_Forall {A} cnt sz (l : list A) : length l = (cnt * sz)%nat ->
  Forall (fun c => length c = sz) (chunks cnt sz l).
Proof.
  revert l; induction cnt as [|c IH]; intros l H; cbn [chunks]; constructor.
  - rewrite firstn_length. lia.
  - apply IH. rewrite skipn_length. lia.
Qed.

Lemma pad_to_length len (l : list N) : (length l <= len)%nat -> length (pad_to len l) = len.
Proof. intros. unfold pad_to. rewrite app_length, repeat_length. lia. Qed.

Lemma pad_to_full len (l : list N) : length l = len -> pad_to len l = l.
Proof. intros. unfold pad_to. replace (len - length l)%nat with 0%nat by lia. apply app_nil_r. Qed.

Lemma firstn_pad_to len (l : list N) : firstn (length l) (pad_to len l) = l.
Proof. unfold pad_to. rewrite firstn_app, Nat.sub_diag, firstn_all. cbn. apply app_nil_r. Qed.

Lemma nth_firstn_lt {A} (d : A) : forall (l : list A) (n i : nat), (i < n)%nat -> nth i (firstn n l) d = nth i l d.
Proof.
  induction l as [|x l IH]; intros n i H; [now rewrite firstn_nil|].
  destruct n; [lia|]. destruct i; [reflexivity|]. cbn [firstn nth]. apply IH. lia.
Qed.

(* block i of a concatenation of blocks whose first i members have length bs *)
Lemma slice_concat_nth {A} (bs : nat) : forall (ls : list (list A)) (i : nat),
  (i < length ls)%nat -> Forall (fun b => length b = bs) (firstn i ls) ->
  slice (i * bs) (length (nth i ls [])) (concat ls) = nth i ls [].
Proof.
  induction ls as [|b ls IH]; intros i Hi Hf; [cbn in Hi; lia|].
  destruct i as [|i].
  - cbn [nth concat Nat.mul]. unfold slice. cbn [skipn]. rewrite firstn_app, Nat.sub_diag, firstn_all. cbn. apply app_nil_r.
  - cbn [nth concat]. cbn [firstn] in Hf. inversion Hf as [|? ? Hb Hf']; subst.
    unfold slice. replace (S i * length b)%nat with (length b + i * length b)%nat by lia.
    rewrite <- skipn_skipn'. rewrite skipn_app, Nat.sub_diag, skipn_all. cbn [skipn app].
    apply IH; [cbn in Hi; lia|assumption].
Qed.

Lemma concat_slices {A} (s : nat) : forall (n : nat) (l : list A), (length l <= n * s)%nat ->
  concat (map (fun i => slice (i * s) s l) (seq 0 n)) = l.
Proof.
  intros n. induction n as [|n IH]; intros l H.
  - destruct l; [reflexivity|cbn in H; lia].
  - rewrite seq_S, map_app, concat_app. cbn [map concat plus]. rewrite app_nil_r.
    destruct (Nat.le_gt_cases (length l) (n * s)) as [L|L].
    + rewrite IH by assumption. unfold slice. rewrite skipn_all2 by lia. rewrite firstn_nil. apply app_nil_r.
    + transitivity (firstn (n * s) l ++ skipn (n * s) l); [|apply firstn_skipn].
      f_equal.
      * rewrite <- (IH (firstn (n * s) l)) by (rewrite firstn_length; lia).
        f_equal. apply map_ext_in. intros i Hi. apply in_seq in Hi.
        unfold slice. rewrite skipn_firstn_comm, firstn_firstn. f_equal. nia.
      * unfold slice. apply firstn_all2. rewrite skipn_length. lia.
Qed.

(* ---- encode_segments ---------------------------------------------------------- *)
Section Codec.
  Variable enc : N -> N -> list (list N) -> list (list N).
  Variable dec : N -> N -> list (N * list N) -> list (list N).

  Definition good_picks (k n : N) (ids : list N) : Prop :=
    length ids = N.to_nat k /\ NoDup ids /\ Forall (fun j => j < n) ids.

  Variables k n : N.
  Hypothesis Hkn : 1 <= k <= n.
  Let K := N.to_nat k.

  (* what zfec provides for this (k, n) (validated by C36 against the real library) *)
  Hypothesis enc_shape : forall pieces bs,
    length pieces = N.to_nat k -> Forall (fun p => length p = bs) pieces ->
    length (enc k n pieces) = N.to_nat n /\ Forall (fun b => length b = bs) (enc k n pieces).
  Hypothesis any_k_of_n : forall pieces bs ids,
    length pieces = N.to_nat k -> Forall (fun p => length p = bs) pieces -> good_picks k n ids ->
    dec k n (map (fun j => (j, nth (N.to_nat j) (enc k n pieces) [])) ids) = pieces.

  Definition seg_input (bs tbs nseg : nat) (ct : list N) (i : nat) : list N :=
    if Nat.eqb (S i) nseg then firstn (K * tbs) (skipn (i * (K * bs)) ct)
    else slice (i * (K * bs)) (K * bs) ct.

  Lemma encode_segments_length bs tbs : forall nseg ct, length (encode_segments enc nseg k n bs tbs ct) = nseg.
  Proof.
    induction nseg as [|m IH]; intros ct; [reflexivity|].
    destruct m as [|m]; [reflexivity|].
    change (encode_segments enc (S (S m)) k n bs tbs ct)
      with (encode_segment enc k n bs (firstn (N.to_nat k * bs) ct) :: encode_segments enc (S m) k n bs tbs (skipn (N.to_nat k * bs) ct)).
    cbn [length]. now rewrite IH.
  Qed.

  Lemma encode_segments_nth bs tbs : forall nseg ct i, (i < nseg)%nat ->
    nth i (encode_segments enc nseg k n bs tbs ct) [] =
    encode_segment enc k n (if Nat.eqb (S i) nseg then tbs else bs) (seg_input bs tbs nseg ct i).
  Proof.
    induction nseg as [|m IH]; intros ct i Hi; [lia|].
    destruct m as [|m].
    - assert (i = 0)%nat by lia. subst i. cbn [encode_segments nth]. unfold seg_input. cbn [Nat.eqb Nat.mul skipn]. reflexivity.
    - change (encode_segments enc (S (S m)) k n bs tbs ct)
        with (encode_segment enc k n bs (firstn (N.to_nat k * bs) ct) :: encode_segments enc (S m) k n bs tbs (skipn (N.to_nat k * bs) ct)).
      destruct i as [|i].
      + cbn [nth]. unfold seg_input. cbn [Nat.eqb Nat.mul]. unfold slice. cbn [skipn]. reflexivity.
      + cbn [nth]. rewrite IH by lia. unfold seg_input.
        change (Nat.eqb (S (S i)) (S (S m))) with (Nat.eqb (S i) (S m)).
        destruct (Nat.eqb (S i) (S m)).
        * rewrite skipn_skipn'. fold K. replace (K * bs + i * (K * bs))%nat with (S i * (K * bs))%nat by lia. reflexivity.
        * unfold slice. rewrite skipn_skipn'. fold K. replace (K * bs + i * (K * bs))%nat with (S i * (K * bs))%nat by lia. reflexivity.
  Qed.

  (* ---- one file ------------------------------------------------------------- *)
  Variable ct : list N.
  Variable segsize : N.
  Let size := N.of_nat (length ct).
  Hypothesis Hsize : 1 <= size.
  Hypothesis Hseg : 1 <= segsize.
  Hypothesis Hmod : segsize mod k = 0.

  Let e := encoder_params size k segsize.
  Let d := calculate_sizes size k segsize.
  Let NSEG := N.to_nat (e_num_segments e).
  Let BS := N.to_nat (e_block_size e).
  Let TBS := N.to_nat (e_tail_block_size e).
  Let segs := encode_segments enc NSEG k n BS TBS ct.

  Lemma shape : d_num_segments d = e_num_segments e /\ d_tail_segment_size d = e_tail_size e /\
                d_block_size d = e_block_size e /\ d_tail_block_size d = e_tail_block_size e /\
                (1 <= NSEG)%nat /\ (K * BS)%nat = N.to_nat segsize /\
                length ct = (N.to_nat segsize * (NSEG - 1) + N.to_nat (e_tail_size e))%nat /\
                (1 <= N.to_nat (e_tail_size e) <= N.to_nat segsize)%nat /\
                (N.to_nat (e_tail_size e) <= K * TBS)%nat /\ (1 <= K)%nat.
  Proof.
    pose proof (sizes_agree_ok size k segsize Hsize ltac:(lia) Hseg Hmod) as S. cbv zeta in S. fold e d in S.
    destruct S as (S1 & S2 & S3 & S4 & S5 & _ & _ & _ & _ & S10 & S11 & S12 & S13 & _ & S15 & S16).
    unfold NSEG, BS, TBS, K. repeat split; try assumption; try lia.
  Qed.

  Lemma seg_input_is_segment i : (i < NSEG)%nat ->
    seg_input BS TBS NSEG ct i = seg_at ct segsize (N.of_nat i) /\
    (length (seg_input BS TBS NSEG ct i) <= K * (if Nat.eqb (S i) NSEG then TBS else BS))%nat /\
    length (seg_input BS TBS NSEG ct i) = N.to_nat (if N.of_nat i =? e_num_segments e - 1 then e_tail_size e else segsize).
  Proof.
    intros Hi. destruct shape as (_ & _ & _ & _ & S5 & S6 & S7 & S8 & S9 & S10).
    unfold seg_input, seg_at. rewrite S6.
    replace (N.to_nat (N.of_nat i * segsize)) with (i * N.to_nat segsize)%nat by lia.
    destruct (Nat.eqb (S i) NSEG) eqn:E.
    - apply Nat.eqb_eq in E.
      assert (Hlen : length (skipn (i * N.to_nat segsize) ct) = N.to_nat (e_tail_size e)).
      { rewrite skipn_length, S7. replace (NSEG - 1)%nat with i by lia. nia. }
      replace (N.of_nat i =? e_num_segments e - 1) with true by (unfold NSEG in E; lia).
      unfold slice. rewrite !firstn_all2 by lia. repeat split; lia.
    - apply Nat.eqb_neq in E.
      replace (N.of_nat i =? e_num_segments e - 1) with false by (unfold NSEG in *; lia).
      assert (Hlen : length (slice (i * N.to_nat segsize) (N.to_nat segsize) ct) = N.to_nat segsize).
      { apply slice_length. rewrite S7. nia. }
      repeat split; lia.
  Qed.

  Definition pieces_of (i : nat) : list (list N) :=
    let b := if Nat.eqb (S i) NSEG then TBS else BS in
    chunks K b (pad_to (K * b) (seg_input BS TBS NSEG ct i)).

  Lemma pieces_ok i : (i < NSEG)%nat ->
    length (pieces_of i) = N.to_nat k /\
    Forall (fun p => length p = if Nat.eqb (S i) NSEG then TBS else BS) (pieces_of i) /\
    nth i segs [] = enc k n (pieces_of i).
  Proof.
    intros Hi. destruct (seg_input_is_segment i Hi) as (_ & L & _).
    unfold pieces_of. split; [apply chunks_length|]. split.
    - apply chunks_Forall. apply pad_to_length. assumption.
    - unfold segs. rewrite encode_segments_nth by assumption. reflexivity.
  Qed.

  Lemma block_of_share i j : (i < NSEG)%nat -> j < n ->
    share_block d (nth (N.to_nat j) (upload_shares enc size k n segsize ct) []) (N.of_nat i)
    = nth (N.to_nat j) (nth i segs []) [].
  Proof.
    intros Hi Hj. destruct shape as (S1 & S2 & S3 & S4 & S5 & _).
    unfold upload_shares. fold e NSEG BS TBS segs.
    rewrite (nth_indep _ [] (share_data segs 0)) by (rewrite map_length, seq_length; lia).
    rewrite map_nth. rewrite seq_nth by lia. cbn [plus].
    unfold share_block. rewrite S1, S3, S4.
    unfold share_data.
    set (col := map (fun blocks => nth (N.to_nat j) blocks []) segs).
    assert (Hcol : forall i', (i' < NSEG)%nat ->
              nth i' col [] = nth (N.to_nat j) (nth i' segs []) [] /\
              length (nth i' col []) = if Nat.eqb (S i') NSEG then TBS else BS).
    { intros i' Hi'. unfold col.
      rewrite (nth_indep _ [] ((fun blocks => nth (N.to_nat j) blocks []) [])) by (rewrite map_length; unfold segs; rewrite encode_segments_length; lia).
      rewrite (map_nth (fun blocks => nth (N.to_nat j) blocks [])). split; [reflexivity|].
      destruct (pieces_ok i' Hi') as (P1 & P2 & P3). rewrite P3.
      destruct (enc_shape (pieces_of i') _ P1 P2) as (E1 & E2).
      rewrite Forall_forall in E2. apply E2. apply nth_In. lia. }
    destruct (Hcol i Hi) as (C1 & C2).
    rewrite <- C1.
    replace (N.to_nat (N.of_nat i * e_block_size e)) with (i * BS)%nat by (unfold BS; lia).
    replace (N.to_nat (if N.of_nat i =? e_num_segments e - 1 then e_tail_block_size e else e_block_size e))
      with (length (nth i col [])).
    2:{ rewrite C2. unfold NSEG, TBS, BS. destruct (Nat.eqb (S i) (N.to_nat (e_num_segments e))) eqn:E1;
        [apply Nat.eqb_eq in E1|apply Nat.eqb_neq in E1];
        destruct (N.of_nat i =? e_num_segments e - 1) eqn:E2; unfold NSEG in *; lia. }
    apply slice_concat_nth.
    - unfold col. rewrite map_length. unfold segs. rewrite encode_segments_length. assumption.
    - apply Forall_forall. intros b Hb.
      apply (In_nth _ _ []) in Hb. destruct Hb as (i' & Hi' & <-).
      rewrite firstn_length in Hi'.
      rewrite nth_firstn_lt by lia.
      destruct (Hcol i' ltac:(lia)) as (_ & L). rewrite L.
      replace (Nat.eqb (S i') NSEG) with false by (symmetry; apply Nat.eqb_neq; lia). reflexivity.
  Qed.

  Lemma segment_exact_ok i picks : i < e_num_segments e -> good_picks k n picks ->
    decode_segment dec size k n segsize (upload_shares enc size k n segsize ct) i picks = seg_at ct segsize i.
  Proof.
    intros Hi Hp. set (ii := N.to_nat i). assert (Hii : (ii < NSEG)%nat) by (unfold ii, NSEG; lia).
    replace i with (N.of_nat ii) by (unfold ii; lia).
    destruct shape as (S1 & S2 & S3 & S4 & S5 & _).
    unfold decode_segment. fold d. rewrite S1, S2.
    destruct (pieces_ok ii Hii) as (P1 & P2 & P3).
    replace (map (fun j => (j, share_block d (nth (N.to_nat j) (upload_shares enc size k n segsize ct) []) (N.of_nat ii))) picks)
      with (map (fun j => (j, nth (N.to_nat j) (enc k n (pieces_of ii)) [])) picks).
    2:{ apply map_ext_in. intros j Hj. destruct Hp as (_ & _ & Hlt). rewrite Forall_forall in Hlt.
        rewrite block_of_share by (auto). rewrite P3. reflexivity. }
    rewrite (any_k_of_n (pieces_of ii) _ picks P1 P2 Hp).
    destruct (seg_input_is_segment ii Hii) as (I1 & I2 & I3).
    unfold pieces_of. rewrite chunks_concat by (rewrite pad_to_length by assumption; lia).
    rewrite <- I1.
    destruct (N.of_nat ii =? e_num_segments e - 1) eqn:T.
    - rewrite <- I3. apply firstn_pad_to.
    - replace (Nat.eqb (S ii) NSEG) with false in * by (symmetry; apply Nat.eqb_neq; unfold NSEG; lia).
      apply pad_to_full. destruct shape as (_ & _ & _ & _ & _ & S6 & _). lia.
  Qed.

  Lemma segments_partition_ok (picks : N -> list N) :
    (forall i, i < e_num_segments e -> good_picks k n (picks i)) ->
    download_ciphertext dec size k n segsize (upload_shares enc size k n segsize ct) picks = ct.
  Proof.
    intros Hp. unfold download_ciphertext. fold d.
    destruct shape as (S1 & _ & _ & _ & S5 & S6 & S7 & S8 & _).
    rewrite S1. unfold nrange. rewrite map_map.
    rewrite (map_ext_in _ (fun i => slice (i * N.to_nat segsize) (N.to_nat segsize) ct)).
    - apply concat_slices. fold NSEG. rewrite S7. nia.
    - intros i Hi. apply in_seq in Hi. rewrite segment_exact_ok by (try apply Hp; lia).
      unfold seg_at. f_equal. lia.
  Qed.
End Codec.
