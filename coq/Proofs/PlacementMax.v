(* C07, clause 3: the placement uses as many distinct servers as any assignment that
   respects the read-only constraint could. *)
From Coq Require Import List NArith ZArith Bool Arith Lia.
From Verif Require Import Model.Matching Model.Placement Proofs.Matching Proofs.MatchingLists Proofs.MatchingNetwork
     Proofs.Placement Proofs.PlacementStruct Proofs.PlacementGraph Proofs.PlacementReadonly
     Proofs.PlacementNet Proofs.PlacementCount Proofs.PlacementPersist Proofs.PlacementBounds.
Import ListNotations.

Definition wf_full (peers readonly shares : list N) (p2s : smap) : Prop :=
  NoDup peers /\ NoDup readonly /\ NoDup shares /\ peers <> [] /\
  (forall p, In p peers -> ~ In p readonly) /\
  NoDup (map fst p2s) /\
  (forall p held, In (p, held) p2s ->
     (In p peers \/ In p readonly) /\ NoDup held /\ forall s, In s held -> In s shares).

Lemma wf_full_input : forall peers readonly shares p2s, wf_full peers readonly shares p2s -> wf_input peers readonly p2s.
Proof.
  intros peers readonly shares p2s (_ & _ & _ & _ & Hd & _ & Hk). split; [exact Hd|].
  intros p held Hin. apply (Hk p held Hin).
Qed.

(* ---------- small facts ------------------------------------------------------------------------ *)

Lemma diffN_disjoint : forall a b, (forall x, In x a -> ~ In x b) -> diffN a b = a.
Proof.
  induction a as [|x r IH]; intros b H; unfold diffN; cbn [filter]; [reflexivity|].
  assert (E : memN x b = false).
  { destruct (memN x b) eqn:Em; [|reflexivity]. apply memN_In in Em. exfalso. apply (H x); [left; reflexivity | exact Em]. }
  rewrite E. cbn [negb]. f_equal. apply IH. intros y Hy. apply H. right. exact Hy.
Qed.

Lemma diffN_length : forall a b, NoDup a -> length a <= length (diffN a b) + length b.
Proof.
  intros a b Hnd. unfold diffN.
  rewrite (filter_split_length _ (fun x => negb (memN x b)) a).
  assert (H : length (filter (fun x => negb (negb (memN x b))) a) <= length b).
  { apply NoDup_incl_length; [apply NoDup_filter; exact Hnd|].
    intros x Hx. apply filter_In in Hx. destruct Hx as [_ Hx]. rewrite negb_involutive in Hx. apply memN_In. exact Hx. }
  lia.
Qed.

Lemma NoDup_keys_functional : forall (A : Type) (d : list (N * A)) k v v',
  NoDup (map fst d) -> In (k, v) d -> In (k, v') d -> v = v'.
Proof.
  intros A d k v v' Hnd H1 H2. pose proof (In_lookupN _ _ _ _ Hnd H1) as L1.
  pose proof (In_lookupN _ _ _ _ Hnd H2) as L2. rewrite L1 in L2. inversion L2. reflexivity.
Qed.

(* keys of the dict after _distribute_homeless_shares *)
Lemma distribute_NoDup : forall shares pq m m', distribute shares pq m = Some m' ->
  NoDup (map fst m) -> NoDup (map fst m') /\ forall x, In x (map fst m') -> In x (map fst m) \/ In x shares.
Proof.
  induction shares as [|s r IH]; intros pq m m' H Hnd; cbn [distribute] in H.
  - inversion H; subst. split; [exact Hnd | intros x Hx; left; exact Hx].
  - destruct pq as [|e rest]; [discriminate|].
    destruct (IH _ _ _ H (dict_set_NoDup _ _ _ _ Hnd)) as [H1 H2]. split; [exact H1|].
    intros x Hx. destruct (H2 x Hx) as [H3|H3]; [|right; right; exact H3].
    apply dict_set_keys in H3. destruct H3 as [H3|H3]; [right; left; symmetry; exact H3 | left; exact H3].
Qed.

Lemma lease_fold_NoDup : forall wp2s shareids homeless m td m1 td1,
  fold_left (fun (st : list (N * option N) * list N) share =>
               let '(mm, td) := st in
               if memN share shareids
               then match first_holder share wp2s with
                    | Some p => (dict_set share (Some p) mm, td)
                    | None => (mm, td)
                    end
               else (mm, add_set share td)) homeless (m, td) = (m1, td1) ->
  NoDup (map fst m) ->
  NoDup (map fst m1) /\ (forall x, In x (map fst m1) -> In x (map fst m) \/ In x homeless).
Proof.
  intros wp2s shareids. induction homeless as [|s r IH]; intros m td m1 td1 H Hnd; cbn [fold_left] in H.
  - inversion H; subst. split; [exact Hnd | intros x Hx; left; exact Hx].
  - destruct (memN s shareids).
    + destruct (first_holder s wp2s) as [q|].
      * destruct (IH _ _ _ _ H (dict_set_NoDup _ _ _ _ Hnd)) as [H1 H2]. split; [exact H1|].
        intros x Hx. destruct (H2 x Hx) as [H3|H3]; [|right; right; exact H3].
        apply dict_set_keys in H3. destruct H3 as [H3|H3]; [right; left; symmetry; exact H3 | left; exact H3].
      * destruct (IH _ _ _ _ H Hnd) as [H1 H2]. split; [exact H1|].
        intros x Hx. destruct (H2 x Hx) as [H3|H3]; [left; exact H3 | right; right; exact H3].
    + destruct (IH _ _ _ _ H Hnd) as [H1 H2]. split; [exact H1|].
      intros x Hx. destruct (H2 x Hx) as [H3|H3]; [left; exact H3 | right; right; exact H3].
Qed.

Lemma distribute_homeless_NoDup : forall os m homeless wp2s m',
  distribute_homeless os m homeless wp2s = Some m' -> NoDup (map fst m) ->
  NoDup (map fst m') /\ (forall x, In x (map fst m') -> In x (map fst m) \/ In x homeless).
Proof.
  intros os m homeless wp2s m' H Hnd. unfold distribute_homeless in H.
  match type of H with context [fold_left ?F homeless (m, [])] => destruct (fold_left F homeless (m, [])) as [m1 td] eqn:Ef end.
  destruct (lease_fold_NoDup _ _ _ _ _ _ _ Ef Hnd) as [L1 L2].
  destruct (lease_fold_persist _ _ _ _ _ _ _ 0%N None Ef) as [_ L3].
  destruct (map fst wp2s) as [|k0 ks].
  - inversion H; subst. split; assumption.
  - destruct (ordered (o_todist os td) td) as [tdo|] eqn:Eo; [|discriminate].
    destruct (distribute_NoDup _ _ _ _ H L1) as [D1 D2]. split; [exact D1|].
    intros x Hx. destruct (D2 x Hx) as [H3|H3]; [apply L2; exact H3|].
    destruct (ordered_spec _ _ _ Eo) as [_ [_ [_ Hsub]]]. destruct (L3 x (Hsub x H3)) as [[]|H4]. right. exact H4.
Qed.

(* ---------- the theorem -------------------------------------------------------------------------- *)

Theorem placement_maximal_full : forall os peers readonly shares p2s res,
  wf_full peers readonly shares p2s ->
  share_placement os peers readonly shares p2s = Some res ->
  maximal_spec peers readonly shares p2s res.
Proof.
  intros os peers readonly shares p2s res Hwf H.
  pose proof (wf_full_input _ _ _ _ Hwf) as Hwi.
  destruct (readonly_only_existing_full _ _ _ _ _ _ Hwi H) as [Hro Hknown].
  destruct Hwf as (Hnp & Hnr & Hns & Hne & Hdisj & Hnk & Hp2s).
  unfold share_placement in H. destruct peers as [|p0 pr0]; [contradiction|].
  destruct (share_placement_state os (p0 :: pr0) readonly shares p2s) as [st|] eqn:Es; [|discriminate].
  cbn [option_map] in H. inversion H; subst res. clear H. set (peers := p0 :: pr0) in *.
  destruct (sps_inv _ _ _ _ _ _ Es) as [ro [ex [nw [m' [rr [C1 [C2 [C3 [Hm [Hrr0 [Hrr _]]]]]]]]]]].
  destruct (cm_facts _ _ _ _ _ C1) as [pl1 [so1 [g1 F1]]].
  destruct (cm_facts _ _ _ _ _ C2) as [pl2 [so2 [g2 F2]]].
  destruct (cm_facts _ _ _ _ _ C3) as [pl3 [so3 [g3 F3]]].
  set (res := ps_result st) in *.
  set (UP1 := used_peers_of (pr_mappings ro)). set (UP2 := used_peers_of (pr_mappings ex)). set (UP3 := used_peers_of (pr_mappings nw)).
  set (US1 := used_shares_of (pr_mappings ro)). set (US2 := used_shares_of (pr_mappings ex)).
  (* where matched servers and the key sets live *)
  assert (Hpl1 : forall p, In p pl1 -> In p readonly) by (apply (ordered_spec _ _ _ (pf_pl _ _ _ _ _ _ _ _ F1))).
  assert (Hpl2 : forall p, In p pl2 -> In p (peers2 peers ro)) by (apply (ordered_spec _ _ _ (pf_pl _ _ _ _ _ _ _ _ F2))).
  assert (Hpl3 : forall p, In p pl3 -> In p (peers3 peers ro ex)) by (apply (ordered_spec _ _ _ (pf_pl _ _ _ _ _ _ _ _ F3))).
  assert (Hso1 : forall s, In s so1 -> In s (ro_shares readonly p2s)) by (apply (ordered_spec _ _ _ (pf_so _ _ _ _ _ _ _ _ F1))).
  assert (Hso2 : forall s, In s so2 -> In s (shares2 shares ro)) by (apply (ordered_spec _ _ _ (pf_so _ _ _ _ _ _ _ _ F2))).
  assert (Hso3 : forall s, In s so3 -> In s (shares3 shares ro ex)) by (apply (ordered_spec _ _ _ (pf_so _ _ _ _ _ _ _ _ F3))).
  assert (U1 : forall p, In p UP1 -> In p readonly) by (intros p Hp; apply Hpl1; apply (used_peers_in_pl _ _ _ _ _ _ _ _ F1 p Hp)).
  assert (U2 : forall p, In p UP2 -> In p peers).
  { intros p Hp. pose proof (Hpl2 p (used_peers_in_pl _ _ _ _ _ _ _ _ F2 p Hp)) as Hx. unfold peers2 in Hx. apply diffN_In in Hx. apply Hx. }
  assert (U3 : forall p, In p UP3 -> In p peers /\ ~ In p UP2).
  { intros p Hp. pose proof (Hpl3 p (used_peers_in_pl _ _ _ _ _ _ _ _ F3 p Hp)) as Hx. unfold peers3, peers2 in Hx.
    apply diffN_In in Hx. destruct Hx as [Hx _]. apply diffN_In in Hx. destruct Hx as [Hx Hn].
    apply diffN_In in Hx. split; [apply Hx | exact Hn]. }
  assert (K1 : map fst (pr_mappings ro) = so1) by (apply (pf_keys _ _ _ _ _ _ _ _ F1)).
  assert (K2 : map fst (pr_mappings ex) = so2) by (apply (pf_keys _ _ _ _ _ _ _ _ F2)).
  assert (K3 : map fst (pr_mappings nw) = so3) by (apply (pf_keys _ _ _ _ _ _ _ _ F3)).
  assert (N1 : NoDup so1) by (apply (so_NoDup _ _ _ _ _ _ _ _ F1)).
  assert (N2 : NoDup so2) by (apply (so_NoDup _ _ _ _ _ _ _ _ F2)).
  assert (N3 : NoDup so3) by (apply (so_NoDup _ _ _ _ _ _ _ _ F3)).
  (* --- matched entries survive into the result --- *)
  assert (Hmerged_nd : NoDup (map fst (merged ro ex nw))) by (apply merged_NoDup).
  assert (Pm' : forall s p, In (s, Some p) (merged ro ex nw) -> In (s, Some p) m').
  { intros s p Hin. destruct Hm as [->|[ho [Eho Hd]]]; [exact Hin|].
    apply (distribute_homeless_persist _ _ _ _ _ _ _ Hd); [|exact Hin].
    intro Hx. destruct (ordered_spec _ _ _ Eho) as [_ [_ [_ Hsub]]].
    apply Hsub in Hx. apply homeless_of_In in Hx.
    pose proof (NoDup_keys_functional _ _ _ _ _ Hmerged_nd Hin Hx). discriminate. }
  assert (Pres : forall s p, In (s, Some p) (merged ro ex nw) -> In (s, p) res).
  { intros s p Hin. apply (round_robin_persist _ _ _ _ _ _ Hrr). apply Pm'. exact Hin. }
  assert (P1 : forall s p, In (s, Some p) (pr_mappings ro) -> In (s, p) res).
  { intros s p Hin. apply Pres. unfold merged. apply merge_persist_a; [rewrite K1; exact N1 | exact Hin | |].
    - rewrite K2. intro Hx. apply Hso2 in Hx. unfold shares2 in Hx. apply diffN_In in Hx.
      apply (proj2 Hx). apply used_shares_In. exists p. exact Hin.
    - rewrite K3. intro Hx. apply Hso3 in Hx. unfold shares3 in Hx. apply diffN_In in Hx.
      apply (proj2 Hx). apply used_shares_In. exists p. exact Hin. }
  assert (P2 : forall s p, In (s, Some p) (pr_mappings ex) -> In (s, p) res).
  { intros s p Hin. apply Pres. unfold merged. apply merge_persist_b; [rewrite K2; exact N2 | exact Hin |].
    rewrite K3. intro Hx. apply Hso3 in Hx. unfold shares3 in Hx. apply diffN_In in Hx. destruct Hx as [Hx _].
    apply diffN_In in Hx. apply (proj2 Hx). apply used_shares_In. exists p. exact Hin. }
  assert (P3 : forall s p, In (s, Some p) (pr_mappings nw) -> In (s, p) res).
  { intros s p Hin. apply Pres. unfold merged. apply merge_persist_c; [rewrite K3; exact N3 | exact Hin]. }
  (* --- lower bound on the number of distinct servers --- *)
  destruct (servers_used_spec res) as [SU1 SU2].
  assert (Hlow : length UP1 + length UP2 + length UP3 <= length (servers_used res)).
  { rewrite <- !app_length. apply NoDup_incl_length.
    - apply NoDup_app_intro; [apply NoDup_app_intro; [apply used_peers_NoDup | apply used_peers_NoDup |] | apply used_peers_NoDup |].
      + intros x Hx Hx'. apply (Hdisj x); [apply U2; exact Hx' | apply U1; exact Hx].
      + intros x Hx Hx'. apply in_app_iff in Hx. destruct Hx as [Hx|Hx].
        * apply (Hdisj x); [apply (U3 x Hx') | apply U1; exact Hx].
        * apply (proj2 (U3 x Hx')). exact Hx.
    - intros p Hp. apply SU2. apply in_app_iff in Hp. destruct Hp as [Hp|Hp]; [apply in_app_iff in Hp; destruct Hp as [Hp|Hp]|];
        apply used_peers_In in Hp; destruct Hp as [s Hs]; exists s; [apply P1 | apply P2 | apply P3]; exact Hs. }
  (* --- sizes of the last phase --- *)
  assert (Hpeers2 : peers2 peers ro = peers).
  { unfold peers2. apply diffN_disjoint. intros x Hx Hx'. apply (Hdisj x Hx). apply U1. exact Hx'. }
  assert (Hlen_pl3 : length peers <= length pl3 + length UP2).
  { destruct (ordered_spec _ _ _ (pf_pl _ _ _ _ _ _ _ _ F3)) as [_ [_ [Hl _]]]. rewrite Hl. unfold peers3. rewrite Hpeers2. fold UP1 UP2.
    rewrite (diffN_disjoint (diffN peers UP2) UP1).
    - apply diffN_length. exact Hnp.
    - intros x Hx Hx'. apply diffN_In in Hx. apply (Hdisj x (proj1 Hx)). apply U1. exact Hx'. }
  assert (Hlen_so3 : length shares <= length so3 + length US1 + length US2).
  { destruct (ordered_spec _ _ _ (pf_so _ _ _ _ _ _ _ _ F3)) as [_ [_ [Hl _]]]. rewrite Hl. unfold shares3, shares2. fold US1 US2.
    rewrite (diffN_disjoint (diffN (diffN shares US1) US2) US1).
    - pose proof (diffN_length shares US1 Hns). pose proof (diffN_length (diffN shares US1) US2 (diffN_NoDup _ _ Hns)). lia.
    - intros x Hx Hx'. apply diffN_In in Hx. destruct Hx as [Hx _]. apply diffN_In in Hx. apply (proj2 Hx). exact Hx'. }
  pose proof (complete_phase_bound _ _ _ _ _ _ _ F3) as Hc3. fold UP3 in Hc3.
  pose proof (used_shares_le_peers _ _ _ _ _ _ _ _ F1) as Hu1. fold US1 UP1 in Hu1.
  pose proof (used_shares_le_peers _ _ _ _ _ _ _ _ F2) as Hu2. fold US2 UP2 in Hu2.
  (* --- upper bound for any admissible matching --- *)
  assert (Hup : forall M', is_matching (allowed peers readonly shares p2s) M' ->
                  length M' <= length shares /\ length M' <= length UP1 + length peers).
  { intros M' [HE [HM1 HM2]]. split.
    - rewrite <- (map_length snd). apply NoDup_incl_length; [exact HM2|].
      intros s Hs. apply in_map_iff in Hs. destruct Hs as [[p s'] [E' Hin]]. cbn [snd] in E'. subst s'.
      destruct (proj1 (allowed_edge _ _ _ _ _ _) (HE _ _ Hin)) as [[_ Hsh]|[_ [Hsh _]]]; exact Hsh.
    - set (isro := fun e : N * N => memN (fst e) readonly).
      rewrite (filter_split_length _ isro M').
      assert (HA : length (filter isro M') <= length UP1).
      { apply (readonly_phase_bound _ _ _ _ _ _ _ F1 Hnr Hnk (fun p held Hin => proj1 (proj2 (Hp2s p held Hin)))).
        - apply NoDup_map_filter. exact HM1.
        - apply NoDup_map_filter. exact HM2.
        - intros p s Hin. apply filter_In in Hin. destruct Hin as [Hin Hr]. unfold isro in Hr. cbn [fst] in Hr.
          apply memN_In in Hr. split; [exact Hr|].
          destruct (proj1 (allowed_edge _ _ _ _ _ _) (HE _ _ Hin)) as [[Hpp _]|[_ [_ Hh]]]; [exfalso; apply (Hdisj p Hpp Hr) | exact Hh]. }
      assert (HB : length (filter (fun x => negb (isro x)) M') <= length peers).
      { rewrite <- (map_length fst). apply NoDup_incl_length; [apply NoDup_map_filter; exact HM1|].
        intros p Hp. apply in_map_iff in Hp. destruct Hp as [[p' s] [E' Hin]]. cbn [fst] in E'. subst p'.
        apply filter_In in Hin. destruct Hin as [Hin Hr]. unfold isro in Hr. cbn [fst] in Hr.
        destruct (proj1 (allowed_edge _ _ _ _ _ _) (HE _ _ Hin)) as [[Hpp _]|[Hrr' _]]; [exact Hpp|].
        apply memN_In in Hrr'. rewrite Hrr' in Hr. discriminate. }
      lia. }
  (* --- the witness matching --- *)
  destruct (round_robin_spec _ _ _ _ Hrr) as [Kres _].
  assert (Hm'_nd : NoDup (map fst m') /\ forall x, In x (map fst m') -> In x (map fst (merged ro ex nw))).
  { destruct Hm as [->|[ho [Eho Hd]]]; [split; [exact Hmerged_nd | auto]|].
    destruct (distribute_homeless_NoDup _ _ _ _ _ Hd Hmerged_nd) as [D1 D2]. split; [exact D1|].
    intros x Hx. destruct (D2 x Hx) as [H3|H3]; [exact H3|].
    destruct (ordered_spec _ _ _ Eho) as [_ [_ [_ Hsub]]]. apply Hsub in H3. apply homeless_of_In in H3.
    apply in_map_iff. exists (x, None). split; [reflexivity | exact H3]. }
  destruct Hm'_nd as [Hm'nd Hm'keys].
  assert (Hres_nd : NoDup (map fst res)) by (rewrite Kres; exact Hm'nd).
  assert (Hres_keys : forall s p, In (s, p) res -> In s shares).
  { intros s p Hin.
    assert (Hk : In s (map fst res)) by (apply in_map_iff; exists (s, p); split; [reflexivity | exact Hin]).
    rewrite Kres in Hk. apply Hm'keys in Hk. unfold merged in Hk. apply merge_keys in Hk.
    destruct Hk as [Hk|[Hk|Hk]].
    - rewrite K1 in Hk. apply Hso1 in Hk. destruct (ro_shares_spec readonly p2s) as [_ R2]. apply R2 in Hk.
      destruct Hk as [q [held [Hq Hs]]]. destruct (held_by_readonly_In _ _ _ _ Hq) as [_ Hl].
      apply lookupN_In in Hl. apply (proj2 (proj2 (Hp2s q held Hl))). exact Hs.
    - rewrite K2 in Hk. apply Hso2 in Hk. unfold shares2 in Hk. apply diffN_In in Hk. apply Hk.
    - rewrite K3 in Hk. apply Hso3 in Hk. unfold shares3, shares2 in Hk. apply diffN_In in Hk. destruct Hk as [Hk _].
      apply diffN_In in Hk. destruct Hk as [Hk _]. apply diffN_In in Hk. apply Hk. }
  set (first_share := fun p => match find (fun e : N * N => N.eqb (snd e) p) res with Some e => fst e | None => 0%N end).
  assert (Hfirst : forall p, In p (servers_used res) -> In (first_share p, p) res).
  { intros p Hp. apply SU2 in Hp. destruct Hp as [s Hs]. unfold first_share.
    destruct (find (fun e : N * N => N.eqb (snd e) p) res) as [[s' p']|] eqn:Ef.
    - apply find_some in Ef. destruct Ef as [Ef1 Ef2]. cbn [snd] in Ef2. apply N.eqb_eq in Ef2. subst p'. exact Ef1.
    - exfalso. pose proof (find_none _ _ Ef (s, p) Hs) as Hn. cbn [snd] in Hn. rewrite N.eqb_refl in Hn. discriminate. }
  assert (Hwit : is_matching (allowed peers readonly shares p2s) (witness_matching res)).
  { unfold witness_matching. fold first_share. split; [|split].
    - intros p s Hin. apply in_map_iff in Hin. destruct Hin as [q [Eq Hq]]. inversion Eq; subst q s.
      pose proof (Hfirst p Hq) as Hf. apply allowed_edge. pose proof (Hres_keys _ _ Hf) as Hsh.
      destruct (Hknown _ _ Hf) as [Hpp|Hpr]; [left; split; assumption|].
      right. split; [exact Hpr|]. split; [exact Hsh | apply (Hro _ _ Hf Hpr)].
    - rewrite map_map. cbn [fst]. rewrite map_id. exact SU1.
    - rewrite map_map. cbn [snd]. apply NoDup_map_inj; [exact SU1|].
      intros x y Hx Hy Exy. change (first_share x = first_share y) in Exy.
      pose proof (Hfirst x Hx) as H1. pose proof (Hfirst y Hy) as H2. rewrite Exy in H1.
      apply (NoDup_keys_functional _ _ _ _ _ Hres_nd H1 H2). }
  (* --- conclusion --- *)
  exists (length (servers_used res)). split; [apply distinct_servers_used|]. split.
  - exists (witness_matching res). split; [exact Hwit|]. unfold witness_matching. apply map_length.
  - intros M' HM'. destruct (Hup M' HM') as [B1 B2]. lia.
Qed.

(* ---------- the precondition as a boolean (for examples and for the harness) ------------------- *)

Definition wf_full_b (peers readonly shares : list N) (p2s : smap) : bool :=
  nodupN peers && nodupN readonly && nodupN shares
  && match peers with [] => false | _ => true end
  && forallb (fun p => negb (memN p readonly)) peers
  && nodupN (map fst p2s)
  && forallb (fun e : N * list N =>
                (memN (fst e) peers || memN (fst e) readonly) && nodupN (snd e)
                && forallb (fun s => memN s shares) (snd e)) p2s.

Lemma wf_full_b_sound : forall peers readonly shares p2s,
  wf_full_b peers readonly shares p2s = true -> wf_full peers readonly shares p2s.
Proof.
  intros peers readonly shares p2s H. unfold wf_full_b in H.
  apply andb_true_iff in H. destruct H as [H H7].
  apply andb_true_iff in H. destruct H as [H H6].
  apply andb_true_iff in H. destruct H as [H H5].
  apply andb_true_iff in H. destruct H as [H H4].
  apply andb_true_iff in H. destruct H as [H H3].
  apply andb_true_iff in H. destruct H as [H1 H2].
  rewrite forallb_forall in H5. rewrite forallb_forall in H7.
  split; [apply nodupN_NoDup; exact H1|]. split; [apply nodupN_NoDup; exact H2|].
  split; [apply nodupN_NoDup; exact H3|]. split; [destruct peers; [discriminate H4 | discriminate]|].
  split.
  { intros p Hp Hr. specialize (H5 p Hp). apply memN_In in Hr. rewrite Hr in H5. discriminate. }
  split; [apply nodupN_NoDup; exact H6|].
  intros p held Hin. specialize (H7 _ Hin). cbn [fst snd] in H7.
  apply andb_true_iff in H7. destruct H7 as [H7 H7c]. apply andb_true_iff in H7. destruct H7 as [H7a H7b].
  split.
  { apply orb_true_iff in H7a. destruct H7a as [Ha|Ha]; apply memN_In in Ha; tauto. }
  split; [apply nodupN_NoDup; exact H7b|].
  intros s Hs. rewrite forallb_forall in H7c. apply memN_In. apply H7c. exact Hs.
Qed.
