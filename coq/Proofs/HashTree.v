(* Invariants of IncompleteHashTree.set_hashes (Model/HashTree.v):
   - RInv: what the rollback needs (every changed slot is in remove_upon_failure,
     slots that were truthy never change);
   - VInv: every slot changed so far is either still red-dotted (in a level set)
     or settled: its parent slot holds pair_hash of the two child slots, and
     the three slots can no longer change.
   Consequences: characterisation of accepted calls, soundness, rollback. *)
From Coq Require Import List ZArith Bool Lia.
From Verif Require Import Model.HashTree Proofs.HashTreeBase.
Import ListNotations.
Local Open Scope Z_scope.

Section HashTreeProofs.
  Variable H : Type.
  Variable H_eqb : H -> H -> bool.
  Variable pair_hash : H -> H -> H.
  Variable truthy : H -> bool.
  Hypothesis H_eqb_spec : forall a b, H_eqb a b = true <-> a = b.
  Hypothesis pair_truthy : forall a b, truthy (pair_hash a b) = true.

  Notation tree := (list (option H)).
  Notation wst := (wst H).
  Notation is_truthy := (is_truthy H truthy).
  Notation stepB := (stepB H H_eqb truthy).
  Notation phaseB := (phaseB H H_eqb truthy).
  Notation stepC := (stepC H H_eqb pair_hash truthy).
  Notation run_level := (run_level H H_eqb pair_hash truthy).
  Notation run_levels := (run_levels H H_eqb pair_hash truthy).
  Notation set_hashes := (set_hashes H H_eqb pair_hash truthy).
  Notation mkW := (mkW H).

  Lemma opt_dec : forall a b : option H, a = b \/ a <> b.
  Proof.
    intros [a|] [b|]; try (right; discriminate); try (left; reflexivity).
    destruct (H_eqb a b) eqn:E.
    - apply H_eqb_spec in E. subst. left. reflexivity.
    - right. intros Heq. inversion Heq. subst. assert (H_eqb b b = true) by (apply H_eqb_spec; reflexivity). congruence.
  Qed.

  Lemma truthy_some : forall o, is_truthy o = true -> exists h, o = Some h /\ truthy h = true.
  Proof. intros [h|] Ht; cbn in Ht; [eauto|discriminate]. Qed.

  Definition marked (M : list Z) (lv : list (list Z)) (key : Z) : Prop :=
    In key M \/ exists k, In key (nth k lv []).

  (* ---- rollback invariant ------------------------------------------------ *)
  Record RInv (T0 : tree) (st : wst) : Prop := {
    r_len : length (wT H st) = length T0;
    r_keep : forall j, 0 <= j -> is_truthy (slot T0 j) = true -> slot (wT H st) j = slot T0 j;
    r_ruf : forall j, 0 <= j < zlen T0 -> slot (wT H st) j <> slot T0 j ->
            exists key, In key (wruf H st) /\ validz (zlen T0) key /\ normz (zlen T0) key = j;
    r_ruf2 : forall key, In key (wruf H st) -> validz (zlen T0) key ->
             is_truthy (slot T0 (normz (zlen T0) key)) = false
  }.

  Lemma RInv_zlen : forall T0 st, RInv T0 st -> zlen (wT H st) = zlen T0.
  Proof. intros T0 st R. unfold zlen. rewrite (r_len _ _ R). reflexivity. Qed.

  Lemma RInv_lv : forall T0 st lv', RInv T0 st -> RInv T0 (mkW (wT H st) lv' (wruf H st)).
  Proof. intros T0 st lv' [R1 R2 R3 R4]. constructor; cbn; auto. Qed.

  (* writing a slot that is not truthy and recording its key *)
  Lemma RInv_write : forall T0 st key v lv',
    RInv T0 st -> validz (zlen T0) key ->
    is_truthy (slot (wT H st) (normz (zlen T0) key)) = false ->
    RInv T0 (mkW (upd (wT H st) (Z.to_nat (normz (zlen T0) key)) v) lv' (zadd key (wruf H st))).
  Proof.
    intros T0 st key v lv' R Hv Hf. pose proof (RInv_zlen _ _ R) as Hz.
    pose proof (normz_range _ _ Hv) as Hr. set (a := normz (zlen T0) key) in *.
    destruct R as [R1 R2 R3 R4]. constructor; cbn [wT wlv wruf].
    - rewrite upd_length. exact R1.
    - intros j Hj Ht. rewrite slot_upd by lia.
      destruct (a =? j) eqn:E; [|apply R2; assumption].
      apply Z.eqb_eq in E. subst j. rewrite <- (R2 a) in Ht by (lia || assumption). congruence.
    - intros j Hj Hne. rewrite slot_upd in Hne by lia.
      destruct (a =? j) eqn:E.
      + apply Z.eqb_eq in E. exists key. split; [apply in_zadd; auto|auto].
      + destruct (R3 j Hj Hne) as [k [Hk1 Hk2]]. exists k. split; [apply in_zadd; auto|auto].
    - intros k Hk Hkv. apply in_zadd in Hk. destruct Hk as [->|Hk]; [|apply R4; assumption].
      fold a. destruct (is_truthy (slot T0 a)) eqn:Et; [|reflexivity].
      rewrite <- (R2 a) in Et by (lia || assumption). congruence.
  Qed.

  (* ---- validation invariant ------------------------------------------------ *)
  Definition settled (l : Z) (T : tree) (j : Z) : Prop :=
    j = 0 \/
    (1 <= j /\ l <= depth_of j /\
     exists a b, slot T (parz j) = Some (pair_hash a b) /\
                 slot T (2 * parz j + 1) = Some a /\ slot T (2 * parz j + 2) = Some b).

  Record VInv (T0 : tree) (l : Z) (M : list Z) (st : wst) : Prop := {
    v_lvM : forall key, In key M -> 0 <= key -> key < zlen T0 /\ depth_of key = l;
    v_lv : forall k key, In key (nth k (wlv H st) []) -> 0 <= key -> key < zlen T0 /\ depth_of key = Z.of_nat k;
    v_empty : forall k, l <= Z.of_nat k -> nth k (wlv H st) [] = [];
    v_pres : forall key, marked M (wlv H st) key -> 0 <= key -> slot (wT H st) key <> None;
    v_new : forall j, 0 <= j < zlen T0 -> slot (wT H st) j <> None -> slot (wT H st) j <> slot T0 j ->
            (exists key, marked M (wlv H st) key /\ validz (zlen T0) key /\ normz (zlen T0) key = j)
            \/ settled l (wT H st) j
  }.

  Lemma settled_mono : forall l l' T j, l' <= l -> settled l T j -> settled l' T j.
  Proof. intros l l' T j Hl [->|[H1 [H2 H3]]]; [left; reflexivity|right; repeat split; [assumption|lia|assumption]]. Qed.

  (* a marked set can be replaced by one that marks no more and loses only settled keys *)
  Lemma VInv_shrink : forall T0 l M M' st,
    VInv T0 l M st ->
    (forall y, In y M' -> In y M) ->
    (forall y, In y M -> In y M' \/ (0 <= y /\ settled l (wT H st) y)) ->
    VInv T0 l M' st.
  Proof.
    intros T0 l M M' st [V1 V2 V3 V4 V5] Hsub Hlost. constructor; auto.
    - intros key [Hk|Hk] H0; apply V4; auto; [left; auto|right; auto].
    - intros j Hj Hp Hne. destruct (V5 j Hj Hp Hne) as [[key [[Hk|Hk] [Hv Hn]]]|Hs]; [| |right; exact Hs].
      + destruct (Hlost key Hk) as [Hk'|[H0 Hs]].
        * left. exists key. split; [left; exact Hk'|auto].
        * right. rewrite normz_nonneg in Hn by exact H0. subst j. exact Hs.
      + left. exists key. split; [right; exact Hk|auto].
  Qed.

  Lemma settle_pair : forall l T i a b,
    1 <= i -> l <= depth_of i ->
    slot T (parz i) = Some (pair_hash a b) ->
    slot T (2 * parz i + 1) = Some a -> slot T (2 * parz i + 2) = Some b ->
    settled l T i /\ settled l T (sibz i).
  Proof.
    intros l T i a b Hi Hd Hp Ha Hb. split; right.
    - repeat split; auto. exists a, b. auto.
    - pose proof (sibz_ge1 i Hi). rewrite depth_sibz, parz_sibz by exact Hi. repeat split; auto. exists a, b. auto.
  Qed.

  (* ---- phase B ------------------------------------------------------------------- *)
  Lemma stepB_ok : forall T0 nl st i h,
    RInv T0 st -> VInv T0 nl [] st ->
    (forall x, 0 <= x < zlen T0 -> depth_of x < nl) ->
    zlen (wlv H st) = nl ->
    match stepB st i h with
    | inl st' => RInv T0 st' /\ VInv T0 nl [] st' /\ length (wlv H st') = length (wlv H st)
    | inr (e, st') => e <> Crash /\ RInv T0 st'
    end.
  Proof.
    intros T0 nl st i h R V Hdep Hnl. pose proof (RInv_zlen _ _ R) as Hz. unfold stepB.
    destruct (get (wT H st) i) as [cur|] eqn:Eg; [|split; [discriminate|exact R]].
    pose proof (get_some_valid _ _ _ _ Eg) as Hv. rewrite get_valid in Eg by exact Hv.
    apply Some_inj in Eg. rewrite Hz in Hv, Eg. set (j := normz (zlen T0) i) in *.
    pose proof (normz_range _ _ Hv) as Hj. fold j in Hj.
    destruct (is_truthy cur) eqn:Et.
    - destruct cur as [c|]; [|auto].
      destruct (H_eqb c h); [auto|split; [discriminate|exact R]].
    - destruct (get (wlv H st) (depth_of i)) as [s|] eqn:El; [|split; [discriminate|exact R]].
      rewrite put_valid by (rewrite Hz; exact Hv). rewrite Hz. fold j.
      pose proof (get_some_valid _ _ _ _ El) as Hlv.
      rewrite put_valid by exact Hlv.
      rewrite (get_lists_valid _ _ _ [] Hlv) in El. apply Some_inj in El.
      set (kk := Z.to_nat (normz (zlen (wlv H st)) (depth_of i))) in *.
      assert (HR : RInv T0 (mkW (upd (wT H st) (Z.to_nat j) (Some h)) (upd (wlv H st) kk (zadd i s)) (zadd i (wruf H st)))).
      { apply RInv_write; auto. fold j. rewrite Eg. exact Et. }
      split; [exact HR|]. split; [|cbn; apply upd_length].
      assert (Hkk : (kk < length (wlv H st))%nat).
      { pose proof (normz_range _ _ Hlv) as Hr. unfold kk, zlen in *. lia. }
      assert (Hnth : forall k, nth k (upd (wlv H st) kk (zadd i s)) [] = if Nat.eqb k kk then zadd i s else nth k (wlv H st) []).
      { intros k. rewrite nth_upd. assert (Nat.ltb kk (length (wlv H st)) = true) as -> by (apply Nat.ltb_lt; exact Hkk).
        rewrite andb_true_r. reflexivity. }
      assert (Hslot : forall x, 0 <= x -> slot (upd (wT H st) (Z.to_nat j) (Some h)) x = if j =? x then Some h else slot (wT H st) x).
      { intros x Hx. apply slot_upd; [rewrite Hz; lia|exact Hx]. }
      assert (Hmark : forall key, marked [] (wlv H st) key -> marked [] (upd (wlv H st) kk (zadd i s)) key).
      { intros key [[]|[k Hk]]. right. exists k. rewrite Hnth. destruct (Nat.eqb k kk) eqn:E; [|exact Hk].
        apply Nat.eqb_eq in E. subst k. apply in_zadd. right. rewrite <- El. exact Hk. }
      assert (Hmi : marked [] (upd (wlv H st) kk (zadd i s)) i).
      { right. exists kk. rewrite Hnth, Nat.eqb_refl. apply in_zadd. auto. }
      destruct V as [V1 V2 V3 V4 V5]. constructor; cbn [wT wlv wruf].
      + intros key [].
      + intros k key Hk H0. rewrite Hnth in Hk. destruct (Nat.eqb k kk) eqn:E; [|apply V2; assumption].
        apply Nat.eqb_eq in E. subst k. apply in_zadd in Hk. destruct Hk as [->|Hk]; [|apply V2; [rewrite El; exact Hk|exact H0]].
        assert (j = i) by (unfold j; apply normz_nonneg; exact H0). split; [lia|].
        pose proof (depth_nonneg i H0) as Hd. unfold kk. rewrite normz_nonneg by exact Hd. lia.
      + intros k Hk. rewrite Hnth. destruct (Nat.eqb k kk) eqn:E; [|apply V3; exact Hk].
        apply Nat.eqb_eq in E. subst k. exfalso. unfold zlen in Hnl. lia.
      + intros key Hm H0. rewrite Hslot by exact H0. destruct (j =? key) eqn:Ejk; [discriminate|].
        destruct Hm as [[]|[k Hk]]. rewrite Hnth in Hk. destruct (Nat.eqb k kk) eqn:E.
        * apply Nat.eqb_eq in E. subst k. apply in_zadd in Hk. destruct Hk as [->|Hk].
          -- assert (Hji : j = i) by (unfold j; apply normz_nonneg; exact H0). apply Z.eqb_neq in Ejk. congruence.
          -- apply V4; [right; exists kk; rewrite El; exact Hk|exact H0].
        * apply V4; [right; exists k; exact Hk|exact H0].
      + intros x Hx Hp Hne. rewrite Hslot in Hp, Hne by lia.
        destruct (j =? x) eqn:E.
        * apply Z.eqb_eq in E. left. exists i. auto.
        * destruct (V5 x Hx Hp Hne) as [[key [Hm Hkv]]|Hs]; [left; exists key; auto|].
          destruct Hs as [->|[Hx1 [Hd _]]]; [right; left; reflexivity|].
          specialize (Hdep x Hx). lia.
  Qed.

  Lemma phaseB_ok : forall T0 nl nh st,
    RInv T0 st -> VInv T0 nl [] st ->
    (forall x, 0 <= x < zlen T0 -> depth_of x < nl) ->
    zlen (wlv H st) = nl ->
    match phaseB nh st with
    | inl st' => RInv T0 st' /\ VInv T0 nl [] st' /\ length (wlv H st') = length (wlv H st)
    | inr (e, st') => e <> Crash /\ RInv T0 st'
    end.
  Proof.
    intros T0 nl nh. induction nh as [|[i h] r IH]; intros st R V Hd Hnl; cbn [HashTree.phaseB].
    - auto.
    - pose proof (stepB_ok T0 nl st i h R V Hd Hnl) as Hs.
      destruct (stepB st i h) as [st'|[e st']].
      + destruct Hs as [R' [V' Hl]].
        assert (Hnl' : zlen (wlv H st') = nl) by (unfold zlen in *; rewrite Hl; exact Hnl).
        specialize (IH st' R' V' Hd Hnl'). destruct (phaseB r st') as [st''|[e st'']]; [|exact IH].
        destruct IH as [R'' [V'' Hl'']]. split; [exact R''|split; [exact V''|congruence]].
      + exact Hs.
  Qed.

  (* ---- phase C: one popped node ---------------------------------------------------- *)
  Lemma stepC_ok : forall T0 l i cur st,
    RInv T0 st -> VInv T0 l (i :: cur) st ->
    match stepC l i cur st with
    | inl (cur', st') => RInv T0 st' /\ VInv T0 l cur' st' /\ (length cur' <= length cur)%nat /\ length (wlv H st') = length (wlv H st)
    | inr (e, st') => e <> Crash /\ RInv T0 st'
    end.
  Proof.
    intros T0 l i cur st R V. pose proof (RInv_zlen _ _ R) as Hz. unfold HashTree.stepC.
    destruct (i =? 0) eqn:Ei.
    { apply Z.eqb_eq in Ei. subst i. split; [exact R|]. split; [|split; [lia|reflexivity]].
      apply (VInv_shrink T0 l (0 :: cur) cur st V).
      - intros y Hy. right. exact Hy.
      - intros y [<-|Hy]; [right; split; [lia|left; reflexivity]|left; exact Hy]. }
    apply Z.eqb_neq in Ei. rewrite Hz. set (n := zlen T0) in *.
    destruct (sibling n i) as [s|] eqn:Es; [|split; [discriminate|exact R]].
    apply sibling_some in Es. destruct Es as [Hi [Hs Hsr]].
    assert (Hi1 : 1 <= i) by lia.
    pose proof (parz_range i Hi1) as Hp.
    assert (Hgs : forall x, 0 <= x < n -> get (wT H st) x = Some (slot (wT H st) x)).
    { intros x Hx. rewrite get_valid by (rewrite Hz; unfold validz; fold n; lia). rewrite Hz. fold n.
      rewrite normz_nonneg by lia. reflexivity. }
    rewrite (Hgs s) by lia.
    destruct (slot (wT H st) s) as [hs|] eqn:Ess; [|split; [discriminate|exact R]].
    assert (Hpar : parent n i = Some (parz i)) by (apply parent_some; split; [lia|reflexivity]).
    rewrite Hpar.
    destruct (min_max_sib i Hi1) as [Hmin Hmax]. rewrite <- Hs in Hmin, Hmax. rewrite Hmin, Hmax.
    assert (Hc : 2 * parz i + 2 < n) by (destruct (node_cases i Hi1) as [[H1 H2]|[H1 H2]]; lia).
    rewrite (Hgs (2 * parz i + 1)), (Hgs (2 * parz i + 2)), (Hgs (parz i)) by lia.
    assert (Hipres : slot (wT H st) i <> None) by (apply (v_pres _ _ _ _ V); [left; left; reflexivity|lia]).
    assert (Hab : exists a b, slot (wT H st) (2 * parz i + 1) = Some a /\ slot (wT H st) (2 * parz i + 2) = Some b).
    { destruct (slot (wT H st) i) as [hi|] eqn:Esi; [|congruence].
      destruct (node_cases i Hi1) as [[H1 H2]|[H1 H2]].
      - exists hi, hs. rewrite <- H1, <- H2, <- Hs. split; assumption.
      - exists hs, hi. rewrite <- H1, <- H2, <- Hs. split; assumption. }
    destruct Hab as [a [b [Ha Hb]]]. rewrite Ha, Hb.
    assert (Hdi : depth_of i = l) by (apply (v_lvM _ _ _ _ V); [left; reflexivity|lia]).
    destruct (is_truthy (slot (wT H st) (parz i))) eqn:Et.
    - destruct (slot (wT H st) (parz i)) as [ph|] eqn:Esp; [|cbn in Et; discriminate].
      destruct (H_eqb ph (pair_hash a b)) eqn:Eq; [|split; [discriminate|exact R]].
      apply H_eqb_spec in Eq. subst ph.
      split; [exact R|]. split; [|split; [apply zdiscard_length|reflexivity]].
      destruct (settle_pair l (wT H st) i a b Hi1 ltac:(lia) Esp Ha Hb) as [S1 S2].
      apply (VInv_shrink T0 l (i :: cur) (zdiscard s cur) st V).
      + intros y Hy. apply in_zdiscard in Hy. right. tauto.
      + intros y [<-|Hy].
        * right. split; [lia|exact S1].
        * destruct (Z.eq_dec y s) as [->|Hne]; [right; split; [lia|rewrite Hs; exact S2]|left; apply in_zdiscard; auto].
    - rewrite put_valid by (rewrite Hz; unfold validz; fold n; lia). rewrite Hz. fold n.
      rewrite (normz_nonneg n (parz i)) by lia.
      cbv beta iota zeta.
      assert (Hdp : depth_of (parz i) = l - 1) by (rewrite depth_parz by exact Hi1; lia).
      rewrite Hdp, Z.eqb_refl. cbn [negb].
      set (T' := upd (wT H st) (Z.to_nat (parz i)) (Some (pair_hash a b))).
      set (ruf' := zadd (parz i) (wruf H st)).
      assert (HR : forall lv', RInv T0 (mkW T' lv' ruf')).
      { intros lv'. pose proof (RInv_write T0 st (parz i) (Some (pair_hash a b)) lv' R) as HW.
        fold n in HW. rewrite (normz_nonneg n (parz i)) in HW by lia. apply HW; [unfold validz; lia|exact Et]. }
      destruct (get (wlv H st) (l - 1)) as [sset|] eqn:El; [|split; [discriminate|apply HR]].
      pose proof (get_some_valid _ _ _ _ El) as Hlv.
      rewrite put_valid by exact Hlv.
      rewrite (get_lists_valid _ _ _ [] Hlv) in El. apply Some_inj in El.
      assert (Hl1 : 0 <= l - 1) by (rewrite <- Hdp; apply depth_nonneg; lia).
      rewrite (normz_nonneg _ (l - 1)) in * by exact Hl1.
      set (kk := Z.to_nat (l - 1)) in *.
      split; [apply HR|]. split; [|split; [apply zdiscard_length|cbn [wlv]; apply upd_length]].
      assert (Hkk : (kk < length (wlv H st))%nat) by (unfold validz, zlen in Hlv; unfold kk; lia).
      assert (Hnth : forall k, nth k (upd (wlv H st) kk (zadd (parz i) sset)) [] = if Nat.eqb k kk then zadd (parz i) sset else nth k (wlv H st) []).
      { intros k. rewrite nth_upd. assert (Nat.ltb kk (length (wlv H st)) = true) as -> by (apply Nat.ltb_lt; exact Hkk).
        rewrite andb_true_r. reflexivity. }
      assert (Hslot : forall x, 0 <= x -> slot T' x = if parz i =? x then Some (pair_hash a b) else slot (wT H st) x).
      { intros x Hx. apply slot_upd; [rewrite Hz; fold n; lia|exact Hx]. }
      assert (Sp : settled l T' i /\ settled l T' s).
      { rewrite Hs. apply (settle_pair l T' i a b Hi1); [lia| | |]; rewrite Hslot by lia.
        - rewrite Z.eqb_refl. reflexivity.
        - assert (parz i =? 2 * parz i + 1 = false) as -> by (apply Z.eqb_neq; lia). exact Ha.
        - assert (parz i =? 2 * parz i + 2 = false) as -> by (apply Z.eqb_neq; lia). exact Hb. }
      destruct V as [V1 V2 V3 V4 V5]. constructor; cbn [wT wlv wruf].
      + intros key Hk H0. apply in_zdiscard in Hk. apply V1; [right; tauto|exact H0].
      + intros k key Hk H0. rewrite Hnth in Hk. destruct (Nat.eqb k kk) eqn:E; [|apply V2; assumption].
        apply Nat.eqb_eq in E. subst k. apply in_zadd in Hk. destruct Hk as [->|Hk]; [|apply V2; [rewrite El; exact Hk|exact H0]].
        split; [lia|]. rewrite Hdp. unfold kk. lia.
      + intros k Hk. rewrite Hnth. assert (Nat.eqb k kk = false) as -> by (apply Nat.eqb_neq; unfold kk; lia). apply V3; exact Hk.
      + intros key Hm H0. rewrite Hslot by exact H0. destruct (parz i =? key) eqn:Epk; [discriminate|].
        destruct Hm as [Hk|[k Hk]].
        * apply in_zdiscard in Hk. apply V4; [left; right; tauto|exact H0].
        * rewrite Hnth in Hk. destruct (Nat.eqb k kk) eqn:E.
          -- apply Nat.eqb_eq in E. subst k. apply in_zadd in Hk. destruct Hk as [->|Hk].
             ++ rewrite Z.eqb_refl in Epk. discriminate.
             ++ apply V4; [right; exists kk; rewrite El; exact Hk|exact H0].
          -- apply V4; [right; exists k; exact Hk|exact H0].
      + intros x Hx Hpres Hne. rewrite Hslot in Hpres, Hne by lia.
        destruct (parz i =? x) eqn:Epx.
        * apply Z.eqb_eq in Epx. left. exists (parz i).
          split; [right; exists kk; rewrite Hnth, Nat.eqb_refl; apply in_zadd; auto|].
          split; [unfold validz; fold n; lia|rewrite normz_nonneg by lia; exact Epx].
        * apply Z.eqb_neq in Epx.
          destruct (V5 x Hx Hpres Hne) as [[key [Hm [Hkv Hkn]]]|Hst].
          -- destruct Hm as [[<-|Hk]|[k Hk]].
             ++ right. rewrite normz_nonneg in Hkn by lia. subst x. apply Sp.
             ++ destruct (Z.eq_dec key s) as [->|Hks].
                ** right. rewrite normz_nonneg in Hkn by lia. subst x. apply Sp.
                ** left. exists key. split; [left; apply in_zdiscard; auto|auto].
             ++ left. exists key. split; [|auto]. right. exists k. rewrite Hnth.
                destruct (Nat.eqb k kk) eqn:E; [|exact Hk].
                apply Nat.eqb_eq in E. subst k. apply in_zadd. right. rewrite <- El. exact Hk.
          -- right. destruct Hst as [->|[Hx1 [Hdx [a' [b' [E1 [E2 E3]]]]]]]; [left; reflexivity|].
             right. split; [exact Hx1|]. split; [exact Hdx|]. exists a', b'.
             pose proof (parz_range x Hx1) as Hpx.
             destruct (depth_children (parz x)) as [D1 D2]; [lia|].
             pose proof (depth_parz x Hx1) as Dx.
             rewrite !Hslot by lia.
             assert (parz i =? parz x = false) as ->.
             { apply Z.eqb_neq. intros Heq. rewrite <- Heq in E1. rewrite E1 in Et. cbn in Et. rewrite pair_truthy in Et. discriminate. }
             assert (parz i =? 2 * parz x + 1 = false) as -> by (apply Z.eqb_neq; intros Heq; rewrite Heq in Hdp; lia).
             assert (parz i =? 2 * parz x + 2 = false) as -> by (apply Z.eqb_neq; intros Heq; rewrite Heq in Hdp; lia).
             auto.
  Qed.

  (* ---- phase C: one level, all levels ------------------------------------------------ *)
  Lemma run_level_ok : forall T0 l fuel cur st ord,
    (length cur <= fuel)%nat -> RInv T0 st -> VInv T0 l cur st ->
    match run_level fuel l cur st ord with
    | inl (st', _, cur') => cur' = [] /\ RInv T0 st' /\ VInv T0 l [] st' /\ length (wlv H st') = length (wlv H st)
    | inr (e, st') => e <> Crash /\ RInv T0 st'
    end.
  Proof.
    intros T0 l fuel. induction fuel as [|f IH]; intros cur st ord Hlen R V; cbn [HashTree.run_level].
    - destruct cur; [auto|cbn in Hlen; lia].
    - destruct (zpop ord cur) as [[[i cur'] ord']|] eqn:Ep.
      + apply zpop_spec in Ep. destruct Ep as [Hi [Hsub [Hsup Hlt]]].
        assert (V' : VInv T0 l (i :: cur') st).
        { destruct V as [V1 V2 V3 V4 V5]. constructor; auto.
          - intros key [<-|Hk]; auto.
          - intros key [[<-|Hk]|Hk] H0; apply V4; auto; [left; auto|left; auto|right; auto].
          - intros j Hj Hp Hne. destruct (V5 j Hj Hp Hne) as [[key [[Hk|Hk] Hr]]|Hs]; [| |right; exact Hs].
            + left. exists key. split; [|exact Hr]. left. destruct (Hsup key Hk) as [->|]; [left; reflexivity|right; assumption].
            + left. exists key. split; [right; exact Hk|exact Hr]. }
        pose proof (stepC_ok T0 l i cur' st R V') as Hs.
        destruct (stepC l i cur' st) as [[cur'' st']|[e st']]; [|exact Hs].
        destruct Hs as [R' [V'' [Hl Hlv]]].
        specialize (IH cur'' st' ord' ltac:(lia) R' V'').
        destruct (run_level f l cur'' st' ord') as [[[st'' o''] c'']|[e st'']]; [|exact IH].
        destruct IH as [E [R'' [V3 Hl3]]]. split; [exact E|split; [exact R''|split; [exact V3|congruence]]].
      + apply zpop_none in Ep. subst cur. auto.
  Qed.

  Lemma VInv_next : forall T0 L st,
    VInv T0 (Z.of_nat (S L)) [] st ->
    VInv T0 (Z.of_nat L) (nth L (wlv H st) []) (mkW (wT H st) (upd (wlv H st) L []) (wruf H st)).
  Proof.
    intros T0 L st [V1 V2 V3 V4 V5].
    assert (Hnth : forall k, nth k (upd (wlv H st) L []) [] = if Nat.eqb k L then [] else nth k (wlv H st) []).
    { intros k. rewrite nth_upd. destruct (Nat.eqb k L) eqn:E; cbn [andb]; [|reflexivity].
      apply Nat.eqb_eq in E. subst k. destruct (Nat.ltb L (length (wlv H st))) eqn:E2; [reflexivity|].
      apply Nat.ltb_ge in E2. apply nth_overflow. exact E2. }
    assert (Hm1 : forall key, marked (nth L (wlv H st) []) (upd (wlv H st) L []) key -> marked [] (wlv H st) key).
    { intros key [Hk|[k Hk]]; [right; exists L; exact Hk|]. rewrite Hnth in Hk. destruct (Nat.eqb k L); [destruct Hk|right; exists k; exact Hk]. }
    assert (Hm2 : forall key, marked [] (wlv H st) key -> marked (nth L (wlv H st) []) (upd (wlv H st) L []) key).
    { intros key [[]|[k Hk]]. destruct (Nat.eqb k L) eqn:E.
      - apply Nat.eqb_eq in E. subst k. left. exact Hk.
      - right. exists k. rewrite Hnth, E. exact Hk. }
    constructor; cbn [wT wlv wruf].
    - intros key Hk H0. apply V2; assumption.
    - intros k key Hk H0. rewrite Hnth in Hk. destruct (Nat.eqb k L); [destruct Hk|apply V2; assumption].
    - intros k Hk. rewrite Hnth. destruct (Nat.eqb k L) eqn:E; [reflexivity|]. apply Nat.eqb_neq in E. apply V3. lia.
    - intros key Hm H0. apply V4; [apply Hm1; exact Hm|exact H0].
    - intros j Hj Hp Hne. destruct (V5 j Hj Hp Hne) as [[key [Hm Hr]]|Hs].
      + left. exists key. split; [apply Hm2; exact Hm|exact Hr].
      + right. apply (settled_mono (Z.of_nat (S L))); [lia|exact Hs].
  Qed.

  Lemma run_levels_ok : forall T0 k st ord,
    RInv T0 st -> VInv T0 (Z.of_nat k) [] st ->
    match run_levels k st ord with
    | inl st' => RInv T0 st' /\ VInv T0 0 [] st'
    | inr (e, st') => e <> Crash /\ RInv T0 st'
    end.
  Proof.
    intros T0 k. induction k as [|L IH]; intros st ord R V; cbn [HashTree.run_levels].
    - auto.
    - pose proof (VInv_next T0 L st V) as V'.
      pose proof (RInv_lv T0 st (upd (wlv H st) L []) R) as R'.
      pose proof (run_level_ok T0 (Z.of_nat L) (length (nth L (wlv H st) [])) (nth L (wlv H st) []) _ ord (le_n _) R' V') as Hs.
      destruct (run_level (length (nth L (wlv H st) [])) (Z.of_nat L) (nth L (wlv H st) [])
                  (mkW (wT H st) (upd (wlv H st) L []) (wruf H st)) ord) as [[[st' ord'] c']|[e st']]; [|exact Hs].
      destruct Hs as [_ [R'' [V'' _]]]. apply IH; assumption.
  Qed.

  (* ---- the whole call -------------------------------------------------------------------- *)
  Lemma nth_repeat_nil : forall (n k : nat), nth k (repeat (@nil Z) n) [] = [].
  Proof. induction n as [|n IH]; destruct k; cbn [repeat nth]; auto. Qed.

  Lemma depth_bound : forall n x, 0 <= x < n -> depth_of x < Z.of_nat (Z.to_nat (depth_of (n - 1) + 1)).
  Proof.
    intros n x Hx. pose proof (depth_mono x (n - 1) ltac:(lia)). pose proof (depth_nonneg (n - 1) ltac:(lia)). lia.
  Qed.

  Lemma init_inv : forall T0 nl,
    RInv T0 (mkW T0 (repeat [] nl) []) /\ VInv T0 (Z.of_nat nl) [] (mkW T0 (repeat [] nl) []).
  Proof.
    intros T0 nl. split; constructor; cbn [wT wlv wruf].
    - reflexivity.
    - reflexivity.
    - intros j _ Hne. congruence.
    - intros key [].
    - intros key [].
    - intros k key Hk. rewrite nth_repeat_nil in Hk. destruct Hk.
    - intros k _. apply nth_repeat_nil.
    - intros key [[]|[k Hk]]. rewrite nth_repeat_nil in Hk. destruct Hk.
    - intros j _ _ Hne. congruence.
  Qed.

  Lemma set_hashes_cases : forall fl T0 hashes leaves ord,
    (exists st, set_hashes fl T0 hashes leaves ord = Accepted H (wT H st) /\ RInv T0 st /\ VInv T0 0 [] st)
    \/ set_hashes fl T0 hashes leaves ord = Rejected H BadHashError T0
    \/ (exists e st, e <> Crash /\ RInv T0 st /\
          set_hashes fl T0 hashes leaves ord = Rejected H e (rollback H (wT H st) (wruf H st))).
  Proof.
    intros fl T0 hashes leaves ord. unfold HashTree.set_hashes.
    destruct (merge_leaves H H_eqb fl hashes leaves) as [nh|]; [|right; left; reflexivity].
    cbv zeta. set (nl := Z.to_nat (depth_of (zlen T0 - 1) + 1)).
    destruct (init_inv T0 nl) as [R0 V0].
    assert (Hrej : forall e st, e <> Crash -> RInv T0 st ->
              exists e' st', e' <> Crash /\ RInv T0 st' /\ handle H e st = Rejected H e' (rollback H (wT H st') (wruf H st'))).
    { intros e st He R. exists e, st. split; [exact He|]. split; [exact R|]. destruct e; try reflexivity. congruence. }
    pose proof (phaseB_ok T0 (Z.of_nat nl) nh _ R0 V0) as HB.
    assert (Hdep : forall x, 0 <= x < zlen T0 -> depth_of x < Z.of_nat nl) by (intros x Hx; apply depth_bound; exact Hx).
    assert (Hnl : zlen (wlv H (mkW T0 (repeat [] nl) [])) = Z.of_nat nl) by (cbn [wlv]; unfold zlen; rewrite repeat_length; reflexivity).
    specialize (HB Hdep Hnl).
    destruct (phaseB nh (mkW T0 (repeat [] nl) [])) as [st1|[e st]].
    - destruct HB as [R1 [V1 Hl1]]. cbn [wlv] in Hl1. rewrite repeat_length in Hl1.
      rewrite <- Hl1 in V1.
      pose proof (run_levels_ok T0 (length (wlv H st1)) st1 ord R1 V1) as HC.
      destruct (run_levels (length (wlv H st1)) st1 ord) as [st2|[e st]].
      + left. exists st2. destruct HC as [R2 V2]. auto.
      + right. right. destruct HC as [He R]. apply Hrej; assumption.
    - right. right. destruct HB as [He R]. apply Hrej; assumption.
  Qed.

  (* What an accepted call did: nothing truthy was touched, and every slot that
     changed is the child of a parent slot holding pair_hash of its two child slots. *)
  Theorem accepted_char : forall fl T0 hashes leaves ord T1,
    set_hashes fl T0 hashes leaves ord = Accepted H T1 ->
    length T1 = length T0 /\
    (forall j, 0 <= j -> is_truthy (slot T0 j) = true -> slot T1 j = slot T0 j) /\
    (forall j, 0 <= j < zlen T0 -> slot T1 j <> None -> slot T1 j <> slot T0 j -> settled 0 T1 j).
  Proof.
    intros fl T0 hashes leaves ord T1 Hacc.
    destruct (set_hashes_cases fl T0 hashes leaves ord) as [[st [Hs [R V]]]|[Hs|[e [st [_ [_ Hs]]]]]]; rewrite Hs in Hacc; try discriminate.
    inversion Hacc. subst T1. split; [apply (r_len _ _ R)|]. split; [apply (r_keep _ _ R)|].
    intros j Hj Hp Hne. destruct (v_new _ _ _ _ V j Hj Hp Hne) as [[key [[[]|[k Hk]] _]]|Hst]; [|exact Hst].
    rewrite (v_empty _ _ _ _ V k) in Hk by lia. destruct Hk.
  Qed.

  (* ---- rollback ------------------------------------------------------------------------------ *)
  Definition unput (T : tree) (a : Z) : tree := match put T a None with Some T' => T' | None => T end.

  Lemma unput_length : forall T a, length (unput T a) = length T.
  Proof.
    intros T a. unfold unput. destruct (put T a None) eqn:E; [|reflexivity].
    apply put_some_valid in E. destruct E as [_ ->]. apply upd_length.
  Qed.

  Lemma unput_slot : forall T a j, 0 <= j ->
    (validz (zlen T) a /\ normz (zlen T) a = j /\ slot (unput T a) j = None)
    \/ (~ (validz (zlen T) a /\ normz (zlen T) a = j) /\ slot (unput T a) j = slot T j).
  Proof.
    intros T a j Hj. unfold unput. destruct (put T a None) eqn:E.
    - apply put_some_valid in E. destruct E as [Hv ->]. pose proof (normz_range _ _ Hv) as Hr.
      rewrite slot_upd by lia. destruct (normz (zlen T) a =? j) eqn:En.
      + apply Z.eqb_eq in En. left. auto.
      + apply Z.eqb_neq in En. right. split; [tauto|reflexivity].
    - right. split; [|reflexivity]. intros [Hv _]. rewrite put_valid in E by exact Hv. discriminate.
  Qed.

  Lemma rollback_unfold : forall T a r, rollback H T (a :: r) = rollback H (unput T a) r.
  Proof. reflexivity. Qed.

  Lemma rollback_length : forall ruf T, length (rollback H T ruf) = length T.
  Proof.
    induction ruf as [|a r IH]; intros T; [reflexivity|]. rewrite rollback_unfold, IH. apply unput_length.
  Qed.

  Lemma rollback_none : forall ruf T j, 0 <= j -> slot T j = None -> slot (rollback H T ruf) j = None.
  Proof.
    induction ruf as [|a r IH]; intros T j Hj Hs; [exact Hs|]. rewrite rollback_unfold. apply IH; [exact Hj|].
    destruct (unput_slot T a j Hj) as [[_ [_ Hn]]|[_ He]]; [exact Hn|rewrite He; exact Hs].
  Qed.

  Lemma rollback_hit : forall ruf T j key, 0 <= j ->
    In key ruf -> validz (zlen T) key -> normz (zlen T) key = j -> slot (rollback H T ruf) j = None.
  Proof.
    induction ruf as [|a r IH]; intros T j key Hj Hin Hv Hn; [destruct Hin|]. rewrite rollback_unfold.
    destruct Hin as [->|Hin].
    - apply rollback_none; [exact Hj|]. destruct (unput_slot T key j Hj) as [[_ [_ Hs]]|[Hc _]]; [exact Hs|tauto].
    - apply (IH _ j key Hj Hin); unfold zlen; rewrite unput_length; assumption.
  Qed.

  Lemma rollback_miss : forall ruf T j, 0 <= j ->
    (forall key, In key ruf -> validz (zlen T) key -> normz (zlen T) key <> j) ->
    slot (rollback H T ruf) j = slot T j.
  Proof.
    induction ruf as [|a r IH]; intros T j Hj Hm; [reflexivity|]. rewrite rollback_unfold.
    rewrite IH; [|exact Hj|].
    - destruct (unput_slot T a j Hj) as [[Hv [Hn _]]|[_ He]]; [|exact He].
      exfalso. apply (Hm a); [left; reflexivity|exact Hv|exact Hn].
    - intros key Hk. unfold zlen. rewrite unput_length. apply Hm. right. exact Hk.
  Qed.

  Lemma hit_dec : forall n ruf j,
    (exists key, In key ruf /\ validz n key /\ normz n key = j) \/
    (forall key, In key ruf -> validz n key -> normz n key <> j).
  Proof.
    intros n ruf j. induction ruf as [|a r IH]; [right; intros key []|].
    destruct IH as [[k [Hk Hr]]|Hn]; [left; exists k; split; [right; exact Hk|exact Hr]|].
    assert (Hd : (validz n a /\ normz n a = j) \/ ~ (validz n a /\ normz n a = j)) by (unfold validz; lia).
    destruct Hd as [Hd|Hd]; [left; exists a; split; [left; reflexivity|exact Hd]|].
    right. intros key [<-|Hk] Hv Hn'; [tauto|apply (Hn key Hk Hv Hn')].
  Qed.

  (* no stored value is the empty byte string *)
  Definition all_truthy (T : tree) : Prop := forall j, 0 <= j -> slot T j <> None -> is_truthy (slot T j) = true.

  Lemma rollback_restores : forall T0 st, RInv T0 st -> all_truthy T0 -> rollback H (wT H st) (wruf H st) = T0.
  Proof.
    intros T0 st R Hat. pose proof (RInv_zlen _ _ R) as Hz.
    apply slot_ext_eq; [rewrite rollback_length; apply (r_len _ _ R)|].
    intros j Hj. unfold zlen in Hj. rewrite rollback_length in Hj. fold (zlen (wT H st)) in Hj. rewrite Hz in Hj.
    destruct (hit_dec (zlen T0) (wruf H st) j) as [[key [Hk [Hv Hn]]]|Hm].
    - rewrite (rollback_hit _ _ j key) by (lia || (try rewrite Hz; assumption)).
      pose proof (r_ruf2 _ _ R key Hk Hv) as Hf. rewrite Hn in Hf.
      destruct (slot T0 j) as [h|] eqn:E; [|reflexivity].
      assert (Ht : is_truthy (slot T0 j) = true) by (apply Hat; [lia|rewrite E; discriminate]).
      rewrite E in Ht. congruence.
    - rewrite rollback_miss; [|lia|rewrite Hz; exact Hm].
      destruct (opt_dec (slot (wT H st) j) (slot T0 j)) as [He|Hne]; [exact He|].
      destruct (r_ruf _ _ R j Hj Hne) as [key [Hk [Hv Hn]]]. exfalso. apply (Hm key Hk Hv Hn).
  Qed.

  Theorem rejected_restores : forall fl T0 hashes leaves ord e T1,
    all_truthy T0 ->
    set_hashes fl T0 hashes leaves ord = Rejected H e T1 -> T1 = T0 /\ e <> Crash.
  Proof.
    intros fl T0 hashes leaves ord e T1 Hat Hrej.
    destruct (set_hashes_cases fl T0 hashes leaves ord) as [[st [Hs _]]|[Hs|[e' [st [He [R Hs]]]]]]; rewrite Hs in Hrej; try discriminate.
    - inversion Hrej. split; [reflexivity|discriminate].
    - inversion Hrej. subst. split; [apply rollback_restores; assumption|exact He].
  Qed.

  (* ---- soundness --------------------------------------------------------------------------------- *)
  Section Genuine.
    Variable G : Z -> H.             (* the tree that produced the trusted root *)
    Variable n : Z.
    Hypothesis pair_inj : forall a b c d, pair_hash a b = pair_hash c d -> a = c /\ b = d.
    Hypothesis merkle : forall p, 0 <= p -> 2 * p + 2 < n -> G p = pair_hash (G (2 * p + 1)) (G (2 * p + 2)).
    Hypothesis G_truthy : forall j, 0 <= j < n -> truthy (G j) = true.

    Definition genuine (T : tree) : Prop := forall j h, 0 <= j -> slot T j = Some h -> h = G j.
    Definition closed (T : tree) : Prop :=
      forall j, 1 <= j -> slot T j <> None -> slot T (parz j) <> None /\ slot T (sibz j) <> None.

    Lemma genuine_all_truthy : forall T, zlen T = n -> genuine T -> all_truthy T.
    Proof.
      intros T Hn Hg j Hj Hp. destruct (slot T j) as [h|] eqn:E; [|congruence].
      cbn. rewrite (Hg j h Hj E). apply G_truthy. split; [exact Hj|]. rewrite <- Hn. apply (slot_some_lt _ _ _ _ Hj E).
    Qed.

    Theorem accepted_genuine : forall fl T0 hashes leaves ord T1,
      zlen T0 = n -> genuine T0 -> slot T0 0 <> None ->
      set_hashes fl T0 hashes leaves ord = Accepted H T1 ->
      genuine T1.
    Proof.
      intros fl T0 hashes leaves ord T1 Hn Hg Hroot Hacc.
      destruct (accepted_char _ _ _ _ _ _ Hacc) as [Hlen [Hkeep Hnew]].
      pose proof (genuine_all_truthy T0 Hn Hg) as Hat.
      assert (Hz : zlen T1 = n) by (unfold zlen in *; rewrite Hlen; exact Hn).
      intros j h Hj. revert h. pattern j. apply Zlt_0_ind; [|exact Hj]. clear j Hj.
      intros j IH Hj h Hs.
      assert (Hjn : j < n) by (rewrite <- Hz; apply (slot_some_lt _ _ _ _ Hj Hs)).
      destruct (opt_dec (slot T1 j) (slot T0 j)) as [He|Hne].
      - apply (Hg j h Hj). rewrite <- He. exact Hs.
      - assert (Hp : slot T1 j <> None) by (rewrite Hs; discriminate).
        destruct (Hnew j ltac:(lia) Hp Hne) as [->|[Hj1 [_ [a [b [E1 [E2 E3]]]]]]].
        + exfalso. apply Hne. apply Hkeep; [lia|]. apply Hat; [lia|exact Hroot].
        + pose proof (parz_range j Hj1) as Hpr.
          assert (Hc : 2 * parz j + 2 < n) by (rewrite <- Hz; apply (slot_some_lt _ T1 (2 * parz j + 2) b); [lia|exact E3]).
          pose proof (IH (parz j) ltac:(lia) _ E1) as Hpg.
          rewrite (merkle (parz j) ltac:(lia) Hc) in Hpg. apply pair_inj in Hpg. destruct Hpg as [-> ->].
          destruct (node_cases j Hj1) as [[H1 _]|[H1 _]]; rewrite H1 in Hs at 1; congruence.
    Qed.

    Theorem accepted_closed : forall fl T0 hashes leaves ord T1,
      all_truthy T0 -> closed T0 ->
      set_hashes fl T0 hashes leaves ord = Accepted H T1 ->
      closed T1.
    Proof.
      intros fl T0 hashes leaves ord T1 Hat Hc Hacc.
      destruct (accepted_char _ _ _ _ _ _ Hacc) as [Hlen [Hkeep Hnew]].
      assert (Hk : forall x, 0 <= x -> slot T0 x <> None -> slot T1 x <> None).
      { intros x Hx Hp. rewrite Hkeep; [exact Hp|exact Hx|apply Hat; assumption]. }
      intros j Hj Hp.
      destruct (opt_dec (slot T1 j) (slot T0 j)) as [He|Hne].
      - rewrite He in Hp. destruct (Hc j Hj Hp) as [C1 C2]. pose proof (parz_range j Hj). pose proof (sibz_ge1 j Hj).
        split; apply Hk; (lia || assumption).
      - assert (Hjn : j < zlen T0).
        { destruct (slot T1 j) as [h|] eqn:E; [|congruence]. unfold zlen. rewrite <- Hlen. apply (slot_some_lt _ T1 j h); [lia|exact E]. }
        destruct (Hnew j ltac:(lia) Hp Hne) as [->|[_ [_ [a [b [E1 [E2 E3]]]]]]]; [lia|].
        split; [rewrite E1; discriminate|].
        destruct (node_cases j Hj) as [[_ H2]|[_ H2]]; rewrite H2; [rewrite E3|rewrite E2]; discriminate.
    Qed.
  End Genuine.
End HashTreeProofs.
