(* base32 as used by uri.py: the two round trips, for every length.

     a2b_b2a          bytes_ok os -> a2b (b2a os) = os
     b2a_a2b          b32_field_ok g -> b2a (a2b g) = g
     b2a_field_ok     bytes_ok os -> b32_field_ok (b2a os)
     field_ok_could_be  b32_field_ok g -> could_be_base32_encoded g = true
                      (a2b's precondition never fires on what the regexes accept)

   b32_field_ok g: every character in the alphabet, a length some octet count
   produces, and the last character in the class `cls_pad p` where p is the
   number of pad bits -- exactly what the regex fragments BASE32STR_* demand. *)
From Coq Require Import String List NArith ZArith PeanoNat Bool Lia ZifyBool ZifyNat ZifyN.
From Verif Require Import Lib.Hex Lib.Bytes Gen.Uri Model.UriBase32.
Import ListNotations.
Local Open Scope N_scope.
Local Ltac Zify.zify_post_hook ::= Z.to_euclidean_division_equations.

(* ------------------------------------------------------------ index_of *)
Lemma index_of_some c : forall l i, index_of c l = Some i ->
  (N.to_nat i < length l)%nat /\ nth (N.to_nat i) l 0 = c.
Proof.
  induction l as [|x l IH]; intros i H; cbn [index_of] in H.
  - discriminate.
  - destruct (c =? x) eqn:E.
    + injection H as <-. apply N.eqb_eq in E. subst. cbn. split; [lia|reflexivity].
    + destruct (index_of c l) as [j|] eqn:Ej; [|discriminate]. cbn in H. injection H as <-.
      destruct (IH j eq_refl) as [H1 H2]. rewrite N2Nat.inj_succ. cbn [length nth]. split; [lia|exact H2].
Qed.

Lemma index_of_mem c : forall l, mem c l = true <-> exists i, index_of c l = Some i.
Proof.
  induction l as [|x l IH]; cbn [mem existsb index_of].
  - split; [discriminate|intros [i H]; discriminate].
  - destruct (c =? x) eqn:E; cbn [orb].
    + split; [intros _; eexists; reflexivity|reflexivity].
    + fold (mem c l). rewrite IH. split; intros [i H].
      * rewrite H. eexists; reflexivity.
      * destruct (index_of c l) as [j|]; [exists j; reflexivity|discriminate].
Qed.

Lemma mem_In c l : mem c l = true <-> In c l.
Proof.
  unfold mem. rewrite existsb_exists. split.
  - intros (x & Hx & E). apply N.eqb_eq in E. subst. exact Hx.
  - intro H. exists c. split; [exact H|apply N.eqb_refl].
Qed.

Lemma mem_subset a b c : forallb (fun x => mem x b) a = true -> mem c a = true -> mem c b = true.
Proof.
  intros H Hc. rewrite forallb_forall in H. apply H. apply mem_In. exact Hc.
Qed.

(* ------------------------------------------------------------ alphabet *)
Definition range32 : list N := map N.of_nat (seq 0 32).

Lemma in_range32 v : v < 32 -> In v range32.
Proof.
  intro H. unfold range32. rewrite <- (N2Nat.id v). apply in_map. apply in_seq. lia.
Qed.

Lemma forall_lt32 (f : N -> bool) : forallb f range32 = true -> forall v, v < 32 -> f v = true.
Proof. intros H v Hv. rewrite forallb_forall in H. apply H. apply in_range32. exact Hv. Qed.

Lemma alphabet_length : length alphabet = 32%nat.
Proof. reflexivity. Qed.

Lemma c2v_v2c v : v < 32 -> c2v (v2c v) = Some v.
Proof.
  intro H.
  pose proof (forall_lt32 (fun v => match c2v (v2c v) with Some w => w =? v | None => false end)
                ltac:(vm_compute; reflexivity) v H) as E.
  cbv beta in E. destruct (c2v (v2c v)) as [w|]; [|discriminate].
  apply N.eqb_eq in E. subst. reflexivity.
Qed.

Lemma c2v_some c v : c2v c = Some v -> v < 32 /\ v2c v = c.
Proof.
  intro H. apply index_of_some in H. rewrite alphabet_length in H. destruct H as [H1 H2].
  split; [lia|exact H2].
Qed.

Lemma is_b32char_c2v c : is_b32char c = true <-> exists v, c2v c = Some v.
Proof. apply index_of_mem. Qed.

Lemma b32char_roundtrip c : is_b32char c = true -> c2v0 c < 32 /\ v2c (c2v0 c) = c.
Proof.
  intro H. apply is_b32char_c2v in H. destruct H as [v Hv]. unfold c2v0. rewrite Hv.
  apply c2v_some. exact Hv.
Qed.

Lemma v2c_b32char v : v < 32 -> is_b32char (v2c v) = true.
Proof. intro H. apply is_b32char_c2v. exists v. apply c2v_v2c. exact H. Qed.

Lemma c2v0_v2c v : v < 32 -> c2v0 (v2c v) = v.
Proof. intro H. unfold c2v0. rewrite c2v_v2c by exact H. reflexivity. Qed.

(* the regex character classes are "the low p bits are zero" *)
Lemma cls_pad_spec p v : (p <= 4)%nat -> v < 32 ->
  mem (v2c v) (cls_pad p) = (v mod 2 ^ N.of_nat p =? 0).
Proof.
  intros Hp Hv.
  pose proof (forall_lt32 (fun v => forallb (fun p => Bool.eqb (mem (v2c v) (cls_pad p)) (v mod 2 ^ N.of_nat p =? 0)) (seq 0 5))
                ltac:(vm_compute; reflexivity) v Hv) as E.
  cbv beta in E. rewrite forallb_forall in E.
  specialize (E p). apply eqb_prop. apply E. apply in_seq. lia.
Qed.

Lemma cls_pad_alphabet p c : mem c (cls_pad p) = true -> is_b32char c = true.
Proof.
  destruct p as [|[|[|[|[|p]]]]]; try (cbn [cls_pad mem existsb]; discriminate);
    (apply mem_subset; vm_compute; reflexivity).
Qed.

(* ---------------------------------------------------------- arithmetic *)
Lemma octets_of_quintets n : num_octets (num_quintets n) = n.
Proof. unfold num_octets, num_quintets. lia. Qed.

Lemma pad_le_4 n : (5 * num_quintets n - 8 * n <= 4)%nat.
Proof. unfold num_quintets. lia. Qed.

Lemma pad_bits_sum n : (8 * n + (5 * num_quintets n - 8 * n) = 5 * num_quintets n)%nat.
Proof. unfold num_quintets. lia. Qed.

Lemma pow256 n : 256 ^ N.of_nat n = 2 ^ N.of_nat (8 * n).
Proof.
  rewrite Nat2N.inj_mul. change (N.of_nat 8) with 8. rewrite N.pow_mul_r. reflexivity.
Qed.

Lemma pow32 q : 32 ^ N.of_nat q = 2 ^ N.of_nat (5 * q).
Proof.
  rewrite Nat2N.inj_mul. change (N.of_nat 5) with 5. rewrite N.pow_mul_r. reflexivity.
Qed.

Lemma pow2_split a b : 2 ^ N.of_nat (a + b) = 2 ^ N.of_nat a * 2 ^ N.of_nat b.
Proof. rewrite Nat2N.inj_add. apply N.pow_add_r. Qed.

Lemma pow2_pos k : 0 < 2 ^ k.
Proof. apply N.neq_0_lt_0. apply N.pow_nonzero. lia. Qed.

Lemma low_bits_of_last a v p : (p <= 4)%nat -> (a * 32 + v) mod 2 ^ N.of_nat p = v mod 2 ^ N.of_nat p.
Proof.
  intro H. destruct p as [|[|[|[|[|p]]]]]; try lia; cbn; lia.
Qed.

Lemma shifted_low_bits V p : (p <= 4)%nat -> ((V * 2 ^ N.of_nat p) mod 32) mod 2 ^ N.of_nat p = 0.
Proof.
  intro H. destruct p as [|[|[|[|[|p]]]]]; try lia; cbn; lia.
Qed.

Lemma map_roundtrip {A} (f g : A -> A) (P : A -> bool) l :
  (forall x, P x = true -> g (f x) = x) -> forallb P l = true -> map g (map f l) = l.
Proof.
  intros H. induction l as [|x l IH]; cbn; intro Hl; [reflexivity|].
  apply andb_true_iff in Hl. destruct Hl as [Hx Hl]. rewrite H, IH by assumption. reflexivity.
Qed.

Lemma digits32_chars ds : digits_below 32 ds = true -> forallb is_b32char (map v2c ds) = true.
Proof.
  unfold digits_below. induction ds as [|d ds IH]; cbn [map forallb]; intro H; [reflexivity|].
  apply andb_true_iff in H. destruct H as [Hd H]. apply N.ltb_lt in Hd.
  rewrite v2c_b32char, IH by assumption. reflexivity.
Qed.

Lemma chars_digits32 cs : forallb is_b32char cs = true -> digits_below 32 (map c2v0 cs) = true.
Proof.
  unfold digits_below. induction cs as [|c cs IH]; cbn [map forallb]; intro H; [reflexivity|].
  apply andb_true_iff in H. destruct H as [Hc H]. destruct (b32char_roundtrip c Hc) as [Hlt _].
  apply N.ltb_lt in Hlt. rewrite Hlt, IH by assumption. reflexivity.
Qed.

(* --------------------------------------------------------- field shape *)
Definition pad_of (q : nat) : nat := (5 * q - 8 * num_octets q)%nat.

Definition b32_field_ok (g : bytes) : Prop :=
  forallb is_b32char g = true
  /\ num_quintets (num_octets (length g)) = length g
  /\ (pad_of (length g) = 0%nat \/ mem (last g 0) (cls_pad (pad_of (length g))) = true).

Lemma b2a_length os : length (b2a os) = num_quintets (length os).
Proof. unfold b2a. rewrite map_length, be_digits_length. reflexivity. Qed.

Lemma b2a_value_bound os : bytes_ok os = true ->
  be_value 256 os * 2 ^ N.of_nat (5 * num_quintets (length os) - 8 * length os)
  < 32 ^ N.of_nat (num_quintets (length os)).
Proof.
  intro H. pose proof (be_value_bound 256 os H) as Hb.
  pose proof (pad_bits_sum (length os)) as Hs.
  set (n := length os) in *. set (q := num_quintets n) in *. set (p := (5 * q - 8 * n)%nat) in *.
  rewrite pow256 in Hb. rewrite pow32, <- Hs, pow2_split.
  apply N.mul_lt_mono_pos_r; [apply pow2_pos|exact Hb].
Qed.

Theorem a2b_b2a os : bytes_ok os = true -> a2b (b2a os) = os.
Proof.
  intro H. unfold a2b. rewrite b2a_length, octets_of_quintets.
  unfold b2a.
  set (n := length os). set (q := num_quintets n). set (p := (5 * q - 8 * n)%nat).
  rewrite (map_roundtrip v2c c2v0 (fun d => d <? 32)).
  - rewrite be_digits_small by (try lia; apply b2a_value_bound; exact H).
    rewrite N.div_mul by (apply N.pow_nonzero; lia).
    apply be_digits_value. exact H.
  - intros x Hx. apply c2v0_v2c. apply N.ltb_lt. exact Hx.
  - apply (be_digits_below 32 q). lia.
Qed.

Theorem b2a_field_ok os : bytes_ok os = true -> b32_field_ok (b2a os).
Proof.
  intro H. unfold b32_field_ok. rewrite b2a_length. unfold pad_of. rewrite octets_of_quintets.
  repeat split.
  - unfold b2a. apply digits32_chars. apply be_digits_below. lia.
  - set (n := length os). set (q := num_quintets n).
    assert (Hp4 : (5 * q - 8 * n <= 4)%nat) by apply pad_le_4.
    destruct (Nat.eq_dec (5 * q - 8 * n) 0) as [E|E]; [left; exact E|right].
    unfold b2a. fold n. fold q. clearbody q. destruct q as [|q']; [lia|].
    cbn [be_digits]. rewrite map_app. cbn [map]. rewrite last_last.
    rewrite cls_pad_spec.
    + apply N.eqb_eq. apply shifted_low_bits. exact Hp4.
    + exact Hp4.
    + apply N.mod_lt. lia.
Qed.

Theorem a2b_length g : length (a2b g) = num_octets (length g).
Proof. unfold a2b. apply be_digits_length. Qed.

Theorem a2b_bytes_ok g : bytes_ok (a2b g) = true.
Proof. unfold a2b. apply be_digits_bytes_ok. Qed.

Lemma last_map_c2v0 g : g <> [] -> last (map c2v0 g) 0 = c2v0 (last g 0).
Proof.
  intro H. destruct (exists_last H) as (l & x & ->). rewrite map_app. cbn [map]. rewrite !last_last. reflexivity.
Qed.

Theorem b2a_a2b g : b32_field_ok g -> b2a (a2b g) = g.
Proof.
  intros (Hch & Hlen & Htail). unfold b2a. rewrite a2b_length, Hlen.
  unfold a2b. unfold pad_of in Htail.
  remember (length g) as q eqn:Eq.
  remember (num_octets q) as n eqn:En.
  remember (5 * q - 8 * n)%nat as p eqn:Ep.
  assert (Hp4 : (p <= 4)%nat) by (subst p n; unfold num_octets, num_quintets in *; lia).
  assert (Hsum : (8 * n + p = 5 * q)%nat) by (subst p n; unfold num_octets, num_quintets in *; lia).
  set (vals := map c2v0 g).
  assert (Hvals : digits_below 32 vals = true) by (apply chars_digits32; exact Hch).
  assert (Hvlen : length vals = q) by (subst vals q; apply map_length).
  set (W := be_value 32 vals).
  assert (HW : W < 32 ^ N.of_nat q) by (rewrite <- Hvlen; apply be_value_bound; exact Hvals).
  assert (Hdiv : W mod 2 ^ N.of_nat p = 0).
  { destruct Htail as [E|Hm].
    - rewrite E. cbn. apply N.mod_1_r.
    - destruct (list_eq_dec N.eq_dec g []) as [Eg|Hne].
      + subst g. cbn in Eq. subst q. cbn in En. subst n. cbn in Ep. subst p. reflexivity.
      + destruct (exists_last Hne) as (l & x & El).
        assert (Hx : is_b32char x = true).
        { rewrite El in Hch. rewrite forallb_app in Hch. apply andb_true_iff in Hch. destruct Hch as [_ Hx].
          cbn [forallb] in Hx. rewrite andb_true_r in Hx. exact Hx. }
        destruct (b32char_roundtrip x Hx) as [Hlt Hrt].
        subst W vals. rewrite El, map_app. cbn [map]. rewrite be_value_snoc, low_bits_of_last by exact Hp4.
        rewrite El, last_last in Hm. rewrite <- Hrt in Hm. rewrite cls_pad_spec in Hm by assumption.
        apply N.eqb_eq. exact Hm. }
  assert (HV : W / 2 ^ N.of_nat p < 256 ^ N.of_nat n).
  { apply N.div_lt_upper_bound; [apply N.pow_nonzero; lia|].
    rewrite pow256, <- pow2_split. rewrite Nat.add_comm, Hsum, <- pow32. exact HW. }
  rewrite be_digits_small by (try lia; exact HV).
  assert (HWeq : W / 2 ^ N.of_nat p * 2 ^ N.of_nat p = W).
  { assert (Hnz : 2 ^ N.of_nat p <> 0) by (apply N.pow_nonzero; lia).
    pose proof (N.div_mod W (2 ^ N.of_nat p) Hnz) as E. rewrite Hdiv in E. lia. }
  rewrite HWeq. subst W. rewrite <- Hvlen, be_digits_value by exact Hvals.
  subst vals. apply (map_roundtrip c2v0 v2c is_b32char); [|exact Hch].
  intros x Hx. apply b32char_roundtrip. exact Hx.
Qed.

(* --------------------------- a2b's precondition holds on accepted fields *)
Lemma legit_mod8 q : num_quintets (num_octets q) = q ->
  ((q mod 8 = 0 /\ pad_of q = 0) \/ (q mod 8 = 2 /\ pad_of q = 2) \/ (q mod 8 = 4 /\ pad_of q = 4)
   \/ (q mod 8 = 5 /\ pad_of q = 1) \/ (q mod 8 = 7 /\ pad_of q = 3))%nat.
Proof. unfold pad_of, num_quintets, num_octets. lia. Qed.

Lemma mod8_legit q :
  (q mod 8 = 0 \/ q mod 8 = 2 \/ q mod 8 = 4 \/ q mod 8 = 5 \/ q mod 8 = 7)%nat ->
  num_quintets (num_octets q) = q.
Proof. unfold num_quintets, num_octets. lia. Qed.

Lemma last_in_forallb (f : N -> bool) g : g <> [] -> forallb f g = true -> f (last g 0) = true.
Proof.
  intros Hne H. destruct (exists_last Hne) as (l & x & ->). rewrite last_last.
  rewrite forallb_app in H. apply andb_true_iff in H. destruct H as [_ H]. cbn in H.
  rewrite andb_true_r in H. exact H.
Qed.

Theorem field_ok_could_be g : b32_field_ok g -> could_be_base32_encoded g = true.
Proof.
  intros (Hch & Hlen & Htail). unfold could_be_base32_encoded.
  destruct g as [|c g']; [reflexivity|]. set (g := c :: g') in *.
  rewrite Hch, andb_true_r.
  assert (Hne : g <> []) by (subst g; discriminate).
  assert (Hlast : is_b32char (last g 0) = true) by (apply last_in_forallb; assumption).
  destruct (legit_mod8 _ Hlen) as [[E P]|[[E P]|[[E P]|[[E P]|[E P]]]]]; rewrite E;
    destruct Htail as [Z|Hm]; try (rewrite P in Z; discriminate);
    try (rewrite P in Hm; revert Hm; apply mem_subset; vm_compute; reflexivity).
  exact Hlast.
Qed.

(* ------------------------------------ fixed-width fields of the cap regexes *)
Lemma field_ok_128 g : length g = 26%nat -> forallb is_b32char g = true -> mem (last g 0) cls_3bits = true ->
  b32_field_ok g.
Proof.
  intros L C M. unfold b32_field_ok. rewrite L. repeat split; [exact C|right; exact M].
Qed.

Lemma field_ok_256 g : length g = 52%nat -> forallb is_b32char g = true -> mem (last g 0) cls_1bits = true ->
  b32_field_ok g.
Proof.
  intros L C M. unfold b32_field_ok. rewrite L. repeat split; [exact C|right; exact M].
Qed.

Lemma field_ok_128_inv g : b32_field_ok g -> length g = 26%nat -> mem (last g 0) cls_3bits = true.
Proof.
  intros (_ & _ & [Z|M]) L; rewrite L in *; [discriminate Z|exact M].
Qed.

Lemma field_ok_256_inv g : b32_field_ok g -> length g = 52%nat -> mem (last g 0) cls_1bits = true.
Proof.
  intros (_ & _ & [Z|M]) L; rewrite L in *; [discriminate Z|exact M].
Qed.
