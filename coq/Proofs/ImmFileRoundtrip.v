(* CTR positioning and the composed upload/download round trip. *)
From Coq Require Import List NArith ZArith Bool Lia.
Require Import ZifyBool ZifyNat ZifyN.
From Verif Require Import Gen.ImmConsts Model.ImmFile Proofs.ImmFileArith Proofs.ImmFileRead Proofs.ImmFileData.
Import ListNotations.
Local Open Scope N_scope.

Section CTRFacts.
  Variable ksbyte : N -> N.

  Lemma ctr_process_length pos d : length (ctr_process ksbyte pos d) = length d.
  Proof. revert pos; induction d; intros; cbn [ctr_process length]; [reflexivity|now rewrite IHd]. Qed.

  Lemma ctr_process_app pos a b :
    ctr_process ksbyte pos (a ++ b) = ctr_process ksbyte pos a ++ ctr_process ksbyte (pos + N.of_nat (length a)) b.
  Proof.
    revert pos; induction a as [|x a IH]; intros pos; cbn [ctr_process app length].
    - now rewrite N.add_0_r.
    - rewrite IH. do 2 f_equal. f_equal. lia.
  Qed.

  Lemma ctr_chunks_concat pos chunks :
    concat (ctr_process_chunks ksbyte pos chunks) = ctr_process ksbyte pos (concat chunks).
  Proof.
    revert pos; induction chunks as [|c r IH]; intros pos; cbn [ctr_process_chunks concat]; [reflexivity|].
    rewrite ctr_process_app, IH. reflexivity.
  Qed.

  Lemma ctr_involutive pos d : ctr_process ksbyte pos (ctr_process ksbyte pos d) = d.
  Proof.
    revert pos; induction d as [|x d IH]; intros pos; cbn [ctr_process]; [reflexivity|].
    rewrite IH, N.lxor_assoc, N.lxor_nilpotent, N.lxor_0_r. reflexivity.
  Qed.

  Lemma ctr_skipn o : forall pos d, skipn o (ctr_process ksbyte pos d) = ctr_process ksbyte (pos + N.of_nat o) (skipn o d).
  Proof.
    induction o as [|o IH]; intros pos d; [cbn; now rewrite N.add_0_r|].
    destruct d as [|x d]; [reflexivity|]. cbn [ctr_process skipn]. rewrite IH. f_equal. lia.
  Qed.

  Lemma ctr_firstn m : forall pos d, firstn m (ctr_process ksbyte pos d) = ctr_process ksbyte pos (firstn m d).
  Proof.
    induction m as [|m IH]; intros pos d; [reflexivity|].
    destruct d as [|x d]; [reflexivity|]. cbn [ctr_process firstn]. now rewrite IH.
  Qed.

  Lemma decrypting_consumer_init_ok offset : decrypting_consumer_init offset = offset.
  Proof.
    unfold decrypting_consumer_init, ctr_advance, ctr_create. rewrite repeat_length, N2Nat.id.
    pose proof (N.div_mod offset 16 ltac:(lia)). lia.
  Qed.

  (* decrypting from `offset` whatever the chunking of the writes = XOR with the keystream at offset *)
  Lemma ctr_position_ok offset writes :
    decrypting_consumer ksbyte offset writes = ctr_process ksbyte offset (concat writes).
  Proof. unfold decrypting_consumer. now rewrite decrypting_consumer_init_ok, ctr_chunks_concat. Qed.

  Lemma encrypt_upload_ok chunks : encrypt_upload ksbyte chunks = ctr_process ksbyte 0 (concat chunks).
  Proof. unfold encrypt_upload, ctr_create. now rewrite ctr_chunks_concat. Qed.

  (* a range of the ciphertext decrypted from its offset is that range of the plaintext *)
  Lemma ctr_range_ok data chunks offset size writes :
    concat chunks = data ->
    concat writes = py_slice (encrypt_upload ksbyte chunks) offset size ->
    decrypting_consumer ksbyte offset writes = py_slice data offset size.
  Proof.
    intros <- Hw. rewrite ctr_position_ok, Hw, encrypt_upload_ok.
    unfold py_slice, slice. destruct size as [s|].
    - rewrite ctr_skipn, ctr_firstn, N.add_0_l, N2Nat.id. apply ctr_involutive.
    - rewrite ctr_skipn, N.add_0_l, N2Nat.id. apply ctr_involutive.
  Qed.
End CTRFacts.

Section Roundtrip.
  Variable enc : N -> N -> list (list N) -> list (list N).
  Variable dec : N -> N -> list (N * list N) -> list (list N).
  Variable ksbyte : N -> N.

  Variables k n : N.
  Hypothesis Hkn : 1 <= k <= n.
  Hypothesis enc_shape : forall pieces bs,
    length pieces = N.to_nat k -> Forall (fun p => length p = bs) pieces ->
    length (enc k n pieces) = N.to_nat n /\ Forall (fun b => length b = bs) (enc k n pieces).
  Hypothesis any_k_of_n : forall pieces bs ids,
    length pieces = N.to_nat k -> Forall (fun p => length p = bs) pieces -> good_picks k n ids ->
    dec k n (map (fun j => (j, nth (N.to_nat j) (enc k n pieces) [])) ids) = pieces.

  Lemma roundtrip_any_k_ok : forall (max_seg guess : N) (data : list N) (picks : N -> list N)
                                    (offset : N) (size : option N),
    1 <= max_seg -> 1 <= guess -> 1 <= N.of_nat (length data) ->
    (forall i, good_picks k n (picks i)) ->
    read_file enc dec ksbyte k n max_seg guess data picks offset size = Some (py_slice data offset size).
  Proof.
    intros max_seg guess data picks offset size Hmax Hguess Hlen Hpicks.
    unfold read_file.
    set (fsize := N.of_nat (length data)).
    set (segsize := upload_segsize max_seg fsize k).
    set (ct := encrypt_upload ksbyte [data]).
    assert (Hct : length ct = length data).
    { unfold ct. rewrite encrypt_upload_ok, ctr_process_length. cbn [concat]. now rewrite app_nil_r. }
    destruct (upload_segsize_ok max_seg fsize k Hlen ltac:(lia) Hmax) as (Hs1 & Hs2). fold segsize in Hs1, Hs2.
    pose proof (read_range_exact_ok ct segsize guess offset size) as R.
    rewrite Hct in R. fold fsize in R.
    destruct (R Hlen Hs1 Hguess) as (ws & E1 & E2 & _ & E4). clear R.
    rewrite E1. f_equal.
    apply ctr_range_ok with (chunks := [data]); [cbn [concat]; apply app_nil_r|].
    fold ct. rewrite <- E2. unfold apply_writes. f_equal.
    apply map_ext_in. intros w Hw. rewrite Forall_forall in E4. destruct (E4 w Hw) as (W1 & _).
    f_equal.
    replace fsize with (N.of_nat (length ct)) by (rewrite Hct; reflexivity).
    apply (segment_exact_ok enc dec k n Hkn enc_shape any_k_of_n ct segsize).
    - rewrite Hct. exact Hlen.
    - exact Hs1.
    - exact Hs2.
    - rewrite Hct. exact W1.
    - apply Hpicks.
  Qed.
End Roundtrip.

(* ---- a concrete code satisfying the hypotheses (k = 1: replication, which is
   what zfec produces for k = 1) -------------------------------------------- *)
Definition rep_enc (k n : N) (pieces : list (list N)) : list (list N) := repeat (hd [] pieces) (N.to_nat n).
Definition rep_dec (k n : N) (blocks : list (N * list N)) : list (list N) :=
  match blocks with
  | (_, b) :: _ => [b]
  | [] => []
  end.

Lemma nth_repeat_lt {A} (a d : A) : forall m i, (i < m)%nat -> nth i (repeat a m) d = a.
Proof. induction m; intros i H; [lia|]. destruct i; [reflexivity|]. cbn. apply IHm. lia. Qed.

Lemma rep_hyps n : 1 <= n ->
  (forall pieces bs, length pieces = N.to_nat 1 -> Forall (fun p => length p = bs) pieces ->
     length (rep_enc 1 n pieces) = N.to_nat n /\ Forall (fun b => length b = bs) (rep_enc 1 n pieces)) /\
  (forall pieces bs ids, length pieces = N.to_nat 1 -> Forall (fun p => length p = bs) pieces -> good_picks 1 n ids ->
     rep_dec 1 n (map (fun j => (j, nth (N.to_nat j) (rep_enc 1 n pieces) [])) ids) = pieces).
Proof.
  intros Hn. split.
  - intros pieces bs Hl Hf. destruct pieces as [|p [|q r]]; try discriminate.
    unfold rep_enc. cbn [hd]. rewrite repeat_length. split; [reflexivity|].
    inversion Hf; subst. apply Forall_forall. intros x Hx. apply repeat_spec in Hx. now subst.
  - intros pieces bs ids Hl Hf (Hi & _ & Hlt). destruct pieces as [|p [|q r]]; try discriminate.
    destruct ids as [|j [|j' r]]; try discriminate.
    inversion Hlt; subst. unfold rep_enc, rep_dec. cbn [map hd].
    rewrite nth_repeat_lt by lia. reflexivity.
Qed.

