(* C36  Proofs about Model/Codec.v: mathutil arithmetic, the split/pad/join/trim
   plumbing, and the any-k-of-n round trip of the wrappers over an abstract MDS
   primitive; two concrete instances of the hypotheses. *)
From Coq Require Import List NArith Arith Bool Lia.
From Coq Require String.
From Verif Require Import Lib.Hex Gen.ImmConsts Model.Codec.
Import ListNotations.
Local Open Scope N_scope.

(* ---------------------------------------------------------------------- *)
(* mathutil arithmetic                                                     *)

Lemma div_ceil_bounds L k : 0 < k -> L <= div_ceil L k * k /\ div_ceil L k * k < L + k.
Proof.
  intro Hk. unfold div_ceil.
  assert (Hk0 : k <> 0) by lia.
  pose proof (N.div_mod L k Hk0) as Hdm.
  pose proof (N.mod_lt L k Hk0) as Hlt.
  remember (L / k) as q. remember (L mod k) as r.
  destruct (r =? 0) eqn:E.
  - apply N.eqb_eq in E. subst r. nia.
  - apply N.eqb_neq in E. nia.
Qed.

Lemma div_ceil_exact s k : 0 < k -> div_ceil (s * k) k = s.
Proof.
  intro Hk. unfold div_ceil. assert (Hk0 : k <> 0) by lia.
  rewrite (N.mod_mul s k Hk0), (N.div_mul s k Hk0). cbn. lia.
Qed.

Lemma div_ceil_of_multiple L k : 0 < k -> L mod k = 0 -> div_ceil L k = L / k /\ L / k * k = L.
Proof.
  intros Hk Hm. assert (Hk0 : k <> 0) by lia. unfold div_ceil. rewrite Hm. cbn.
  pose proof (N.div_mod L k Hk0) as Hdm. rewrite Hm in Hdm. split; lia.
Qed.

Lemma div_ceil_pos L k : 0 < k -> 0 < L -> 0 < div_ceil L k.
Proof.
  intros Hk HL. destruct (div_ceil_bounds L k Hk) as [H _].
  destruct (div_ceil L k); lia.
Qed.

Lemma next_multiple_div k L : 0 < k -> next_multiple L k / k = div_ceil L k.
Proof. intro Hk. unfold next_multiple. apply N.div_mul. lia. Qed.

Lemma next_multiple_id_ok : forall k L, 1 <= k -> L mod k = 0 -> next_multiple L k = L.
Proof.
  intros k L Hk Hm. unfold next_multiple.
  destruct (div_ceil_of_multiple L k ltac:(lia) Hm) as [E1 E2]. rewrite E1. exact E2.
Qed.

Lemma share_sizes_agree_ok : forall data_size k, crs_enc_share_size data_size k = crs_dec_share_size data_size k.
Proof. reflexivity. Qed.

Lemma share_size_of_multiple_ok : forall data_size k, 1 <= k -> data_size mod k = 0 ->
  crs_enc_share_size data_size k = data_size / k /\
  k * crs_enc_share_size data_size k = data_size /\
  crs_enc_last_share_padding data_size k = pad_size (data_size / k) k.
Proof.
  intros ds k Hk Hm. unfold crs_enc_last_share_padding, crs_enc_share_size.
  destruct (div_ceil_of_multiple ds k ltac:(lia) Hm) as [E1 E2]. rewrite E1.
  repeat split; lia.
Qed.

Lemma padded_tail_multiple_ok : forall k tail, 1 <= k ->
  next_multiple tail k mod k = 0 /\ tail <= next_multiple tail k /\ next_multiple tail k < tail + k.
Proof.
  intros k t Hk. unfold next_multiple. split.
  - apply N.mod_mul. lia.
  - apply div_ceil_bounds. lia.
Qed.

Lemma tail_block_size_agrees_ok : forall k file_size segment_size, 1 <= k ->
  dl_tail_block_size file_size segment_size k = crs_enc_share_size (padded_tail_size file_size segment_size k) k /\
  dl_tail_block_size file_size segment_size k = crs_dec_share_size (padded_tail_size file_size segment_size k) k /\
  dl_tail_block_size file_size segment_size k = div_ceil (tail_size file_size segment_size) k.
Proof.
  intros k F S Hk. unfold dl_tail_block_size, crs_dec_share_size, crs_dec_num_chunks, crs_enc_share_size, padded_tail_size.
  rewrite next_multiple_div by lia. unfold next_multiple. rewrite div_ceil_exact by lia. auto.
Qed.

Lemma full_block_size_agrees_ok : forall k segment_size, 1 <= k -> segment_size mod k = 0 ->
  dl_block_size segment_size k = crs_enc_share_size segment_size k /\
  dl_block_size segment_size k = crs_dec_share_size segment_size k.
Proof.
  intros k S Hk Hm. unfold dl_block_size, crs_dec_share_size, crs_dec_num_chunks, crs_enc_share_size.
  destruct (div_ceil_of_multiple S k ltac:(lia) Hm) as [E _]. rewrite E. auto.
Qed.

(* ---------------------------------------------------------------------- *)
(* list plumbing                                                            *)

Lemma nlen_app {A} (a b : list A) : nlen (a ++ b) = nlen a + nlen b.
Proof. unfold nlen. rewrite app_length. lia. Qed.

Lemma chunks_fuel_nil fuel sz : chunks_fuel fuel sz [] = [].
Proof. destruct fuel; reflexivity. Qed.

Lemma chunks_fuel_step f sz data : data <> [] ->
  chunks_fuel (S f) sz data = firstn sz data :: chunks_fuel f sz (skipn sz data).
Proof. destruct data; [congruence|reflexivity]. Qed.

Lemma chunks_fuel_exact : forall (c sz : nat) (data : list N) (fuel : nat),
  (0 < sz)%nat -> length data = (c * sz)%nat -> (length data <= fuel)%nat ->
  length (chunks_fuel fuel sz data) = c /\
  Forall (fun p => length p = sz) (chunks_fuel fuel sz data) /\
  concat (chunks_fuel fuel sz data) = data.
Proof.
  induction c as [|c IH]; intros sz data fuel Hsz Hlen Hfuel.
  - destruct data; [|discriminate]. rewrite chunks_fuel_nil. auto.
  - assert (Hdl : (sz <= length data)%nat) by (cbn in Hlen; lia).
    destruct fuel as [|f]; [lia|].
    assert (Hne : data <> []) by (intro E; subst data; cbn in Hdl; lia).
    rewrite (chunks_fuel_step f sz data Hne).
    assert (Hsk : length (skipn sz data) = (c * sz)%nat) by (rewrite skipn_length; cbn in Hlen; lia).
    destruct (IH sz (skipn sz data) f Hsz Hsk ltac:(lia)) as [I1 [I2 I3]].
    cbn [length concat]. rewrite I1, I3. repeat split.
    + constructor; [|exact I2]. rewrite firstn_length. lia.
    + apply firstn_skipn.
Qed.

Lemma split_pieces_exact s k data : 0 < s -> nlen data = k * s ->
  nlen (split_pieces s data) = k /\ uniform s (split_pieces s data) /\ concat (split_pieces s data) = data.
Proof.
  intros Hs Hlen. unfold split_pieces, nlen in *.
  destruct (chunks_fuel_exact (N.to_nat k) (N.to_nat s) data (length data)) as [I1 [I2 I3]]; try lia.
  rewrite I1. repeat split; try lia; try exact I3.
  unfold uniform. eapply Forall_impl; [|exact I2]. cbn. intros p Hp. unfold nlen. lia.
Qed.

Lemma uniform_forallb sz ps : uniform sz ps -> forallb (fun p : list N => nlen p =? sz) ps = true.
Proof.
  intro H. apply forallb_forall. intros p Hin. apply N.eqb_eq.
  unfold uniform in H. rewrite Forall_forall in H. auto.
Qed.

Lemma pad_segment_length R seg : nlen seg <= R -> nlen (pad_segment R seg) = R.
Proof. intro H. unfold pad_segment. rewrite nlen_app. unfold nlen in *. rewrite repeat_length. lia. Qed.

Lemma pad_segment_full seg : pad_segment (nlen seg) seg = seg.
Proof. unfold pad_segment. rewrite N.sub_diag. cbn. apply app_nil_r. Qed.

Lemma firstn_pad_segment R seg : firstn (N.to_nat (nlen seg)) (pad_segment R seg) = seg.
Proof.
  unfold pad_segment, nlen. rewrite Nat2N.id, firstn_app, Nat.sub_diag, firstn_all. cbn. apply app_nil_r.
Qed.

Lemma combine_fst_snd {A B} (l : list (A * B)) : combine (map fst l) (map snd l) = l.
Proof. induction l as [|[a b] l IH]; cbn; [reflexivity|now rewrite IH]. Qed.

Lemma pick_fst ids blocks : map fst (pick ids blocks) = ids.
Proof. unfold pick. rewrite map_map. cbn. apply map_id. Qed.

Lemma pick_combine ids blocks : combine ids (map snd (pick ids blocks)) = pick ids blocks.
Proof. rewrite <- (pick_fst ids blocks) at 1. apply combine_fst_snd. Qed.

Lemma pick_length ids blocks : nlen (pick ids blocks) = nlen ids.
Proof. unfold pick, nlen. now rewrite map_length. Qed.

Lemma pick_uniform s n ids blocks : nlen blocks = n -> uniform s blocks -> Forall (fun i => i < n) ids ->
  forallb (fun b : N * list N => nlen (snd b) =? s) (pick ids blocks) = true.
Proof.
  intros Hn Hu Hids. apply forallb_forall. intros [i b] Hin. unfold pick in Hin.
  apply in_map_iff in Hin. destruct Hin as [j [Hj Hinj]]. inversion Hj; subst i b. cbn [snd].
  apply N.eqb_eq. rewrite Forall_forall in Hids. specialize (Hids j Hinj).
  unfold uniform in Hu. rewrite Forall_forall in Hu. apply Hu. apply nth_In. unfold nlen in Hn. lia.
Qed.

(* gather_data on a whole segment, in either mode, is "pad to k*s, split into s-byte pieces" *)
Lemma gather_data_norm k is_tail seg : 1 <= k -> 1 <= nlen seg -> (is_tail = false -> nlen seg mod k = 0) ->
  gather_data k (div_ceil (nlen seg) k) is_tail seg
  = Some (split_pieces (div_ceil (nlen seg) k) (pad_segment (k * div_ceil (nlen seg) k) seg)).
Proof.
  intros Hk HL Hfull. unfold gather_data.
  destruct (div_ceil_bounds (nlen seg) k ltac:(lia)) as [B1 B2].
  set (s := div_ceil (nlen seg) k) in *. set (L := nlen seg) in *.
  assert (E1 : (k * s <? L) = false) by (apply N.ltb_ge; lia). rewrite E1.
  destruct is_tail.
  - cbn [negb andb]. destruct (L <? k * s) eqn:E2; [reflexivity|].
    apply N.ltb_ge in E2. assert (E : k * s = L) by lia. rewrite E. unfold L. now rewrite pad_segment_full.
  - specialize (Hfull eq_refl). destruct (div_ceil_of_multiple L k ltac:(lia) Hfull) as [D1 D2].
    assert (E : k * s = L) by (unfold s; rewrite D1; lia). rewrite E, N.eqb_refl. cbn [negb andb].
    unfold L. now rewrite pad_segment_full.
Qed.

(* repeat / firstn / skipn facts used for the mutable slicing *)
Lemma firstn_repeat_le {A} (x : A) a b : (a <= b)%nat -> firstn a (repeat x b) = repeat x a.
Proof.
  revert b; induction a as [|a IH]; intros b H; [reflexivity|].
  destruct b as [|b]; [lia|]. cbn. f_equal. apply IH. lia.
Qed.

Lemma skipn_repeat {A} (x : A) a b : skipn a (repeat x b) = repeat x (b - a).
Proof.
  revert b; induction a as [|a IH]; intros b; [now rewrite Nat.sub_0_r|].
  destruct b as [|b]; [reflexivity|]. cbn. apply IH.
Qed.

Lemma skipn_add {A} (a : nat) : forall (b : nat) (l : list A), skipn a (skipn b l) = skipn (b + a) l.
Proof.
  induction b as [|b IH]; intro l; [reflexivity|].
  destruct l as [|x l]; cbn; [now rewrite skipn_nil|apply IH].
Qed.

Definition mpiece (sz : nat) (d : list N) : list N :=
  firstn sz d ++ repeat 0 (sz - length (firstn sz d)).

Lemma mutable_slices_eq : forall (c sz : nat) (data : list N) (fuel : nat),
  (0 < sz)%nat -> (length data <= c * sz)%nat -> (c * sz <= fuel)%nat ->
  map (fun i : nat => mpiece sz (skipn (i * sz) data)) (seq 0 c)
  = chunks_fuel fuel sz (data ++ repeat 0 (c * sz - length data)).
Proof.
  induction c as [|c IH]; intros sz data fuel Hsz Hlen Hfuel.
  - cbn in Hlen. destruct data; [|cbn in Hlen; lia]. cbn. now rewrite chunks_fuel_nil.
  - destruct fuel as [|f]; [cbn in Hfuel; lia|].
    cbn [seq map]. rewrite <- seq_shift, map_map.
    remember (data ++ repeat 0 (S c * sz - length data)) as padded eqn:Ep.
    assert (Hpl : length padded = (S c * sz)%nat) by (subst padded; rewrite app_length, repeat_length; lia).
    assert (Hne : padded <> []) by (intro E; rewrite E in Hpl; cbn in Hpl; lia).
    rewrite (chunks_fuel_step f sz padded Hne).
    assert (Hrest : skipn sz padded = skipn sz data ++ repeat 0 (c * sz - length (skipn sz data))).
    { subst padded. rewrite skipn_app, skipn_repeat, skipn_length. f_equal. f_equal. cbn. nia. }
    assert (Hfirst : firstn sz padded = mpiece sz data).
    { subst padded. unfold mpiece. rewrite firstn_app, firstn_length. f_equal.
      destruct (Nat.le_gt_cases sz (length data)) as [Hge|Hlt].
      - replace (sz - length data)%nat with 0%nat by lia. rewrite Nat.min_l by lia.
        now rewrite Nat.sub_diag.
      - rewrite Nat.min_r by lia. apply firstn_repeat_le. cbn. nia. }
    f_equal.
    + cbn [Nat.mul skipn]. symmetry. exact Hfirst.
    + rewrite Hrest. rewrite <- (IH sz (skipn sz data) f Hsz).
      * apply map_ext. intro i. f_equal. rewrite skipn_add. f_equal; cbn; lia.
      * rewrite skipn_length. cbn in Hlen. lia.
      * cbn in Hfuel. lia.
Qed.

Lemma mutable_pieces_eq_ok : forall k seg, 1 <= k -> 1 <= nlen seg ->
  mutable_pieces k (div_ceil (nlen seg) k) seg
  = split_pieces (div_ceil (nlen seg) k) (pad_segment (k * div_ceil (nlen seg) k) seg).
Proof.
  intros k seg Hk HL. unfold mutable_pieces, split_pieces, pad_segment.
  destruct (div_ceil_bounds (nlen seg) k ltac:(lia)) as [B1 B2].
  pose proof (div_ceil_pos (nlen seg) k ltac:(lia) ltac:(lia)) as Hs.
  set (s := div_ceil (nlen seg) k) in *. unfold nlen in *.
  replace (N.to_nat (k * s - N.of_nat (length seg))) with (N.to_nat k * N.to_nat s - length seg)%nat by lia.
  apply (mutable_slices_eq (N.to_nat k) (N.to_nat s) seg).
  - lia.
  - nia.
  - rewrite app_length, repeat_length. nia.
Qed.

(* ---------------------------------------------------------------------- *)
(* The any-k-of-n round trip                                                *)

Section Roundtrip.
  Variable enc : N -> N -> list (list N) -> list (list N).
  Variable dec : N -> N -> list (N * list N) -> list (list N).
  Variables k n : N.
  Hypothesis Hk : 1 <= k.
  Hypothesis Hkn : k <= n.
  Hypothesis enc_length : enc_length_at enc k n.
  Hypothesis enc_block_len : enc_block_len_at enc k n.
  Hypothesis mds : mds_at enc dec k n.

  Lemma decode_from_pieces : forall is_tail seg pieces ids,
    1 <= nlen seg -> (is_tail = false -> nlen seg mod k = 0) ->
    nlen pieces = k -> uniform (div_ceil (nlen seg) k) pieces ->
    concat pieces = pad_segment (k * div_ceil (nlen seg) k) seg ->
    valid_ids k n ids ->
    decode_segment dec k n is_tail (nlen seg) (pick ids (enc k n pieces)) = Some seg.
  Proof.
    intros is_tail seg pieces ids HL Hfull Hpk Hu Hcat Hids.
    destruct (div_ceil_bounds (nlen seg) k ltac:(lia)) as [B1 B2].
    set (s := div_ceil (nlen seg) k) in *.
    pose proof (enc_length s pieces Hpk Hu) as Hn.
    pose proof (enc_block_len s pieces Hpk Hu) as Hbu.
    pose proof (mds s pieces ids Hpk Hu Hids) as Hdec.
    destruct Hids as [Hnd [Hidk Hidn]].
    unfold decode_segment.
    assert (Hbs : (if is_tail then next_multiple (nlen seg) k / k else nlen seg / k) = s).
    { destruct is_tail.
      - rewrite next_multiple_div by lia. reflexivity.
      - destruct (div_ceil_of_multiple (nlen seg) k ltac:(lia) (Hfull eq_refl)) as [D1 _]. unfold s. now rewrite D1. }
    rewrite Hbs. rewrite (pick_uniform s n ids _ Hn Hbu Hidn).
    unfold crs_decode. rewrite !pick_fst.
    assert (Hl1 : nlen (map snd (pick ids (enc k n pieces))) = k).
    { unfold nlen. rewrite map_length. fold (nlen (pick ids (enc k n pieces))). now rewrite pick_length. }
    rewrite Hl1, Hidk, N.eqb_refl. cbn [andb].
    rewrite (pick_combine ids (enc k n pieces)), Hdec, Hcat.
    rewrite pad_segment_length by lia.
    assert (Hds : (k * s =? (if is_tail then next_multiple (nlen seg) k else nlen seg)) = true).
    { apply N.eqb_eq. destruct is_tail.
      - unfold next_multiple. fold s. lia.
      - destruct (div_ceil_of_multiple (nlen seg) k ltac:(lia) (Hfull eq_refl)) as [D1 D2]. unfold s. rewrite D1. lia. }
    rewrite Hds. destruct is_tail.
    - now rewrite firstn_pad_segment.
    - destruct (div_ceil_of_multiple (nlen seg) k ltac:(lia) (Hfull eq_refl)) as [D1 D2].
      assert (E : k * s = nlen seg) by (unfold s; rewrite D1; lia). rewrite E. now rewrite pad_segment_full.
  Qed.

  Lemma encode_segment_pieces : forall is_tail seg,
    1 <= nlen seg -> (is_tail = false -> nlen seg mod k = 0) ->
    let s := div_ceil (nlen seg) k in
    let pieces := split_pieces s (pad_segment (k * s) seg) in
    crs_enc_share_size (if is_tail then next_multiple (nlen seg) k else nlen seg) k = s /\
    gather_data k s is_tail seg = Some pieces /\
    nlen pieces = k /\ uniform s pieces /\ concat pieces = pad_segment (k * s) seg /\
    encode_segment enc k n is_tail seg = Some (enc k n pieces).
  Proof.
    intros is_tail seg HL Hfull s pieces.
    destruct (div_ceil_bounds (nlen seg) k ltac:(lia)) as [B1 B2]. fold s in B1, B2.
    pose proof (div_ceil_pos (nlen seg) k ltac:(lia) ltac:(lia)) as Hs. fold s in Hs.
    assert (Hss : crs_enc_share_size (if is_tail then next_multiple (nlen seg) k else nlen seg) k = s).
    { unfold crs_enc_share_size. destruct is_tail; [|reflexivity].
      unfold next_multiple. now rewrite div_ceil_exact by lia. }
    pose proof (gather_data_norm k is_tail seg Hk HL Hfull) as Hg. fold s in Hg. fold pieces in Hg.
    destruct (split_pieces_exact s k (pad_segment (k * s) seg) Hs) as [P1 [P2 P3]].
    { apply pad_segment_length. lia. }
    fold pieces in P1, P2, P3.
    repeat split; try assumption.
    unfold encode_segment, crs_enc_params_ok.
    assert (Hle : (k <=? n) = true) by (apply N.leb_le; exact Hkn). rewrite Hle, Hss, Hg.
    unfold crs_encode. now rewrite (uniform_forallb s pieces P2).
  Qed.

  Lemma roundtrip_section : forall is_tail seg ids,
    1 <= nlen seg -> (is_tail = false -> nlen seg mod k = 0) -> valid_ids k n ids ->
    exists blocks,
      encode_segment enc k n is_tail seg = Some blocks /\
      nlen blocks = n /\ uniform (div_ceil (nlen seg) k) blocks /\
      decode_segment dec k n is_tail (nlen seg) (pick ids blocks) = Some seg.
  Proof.
    intros is_tail seg ids HL Hfull Hids.
    destruct (encode_segment_pieces is_tail seg HL Hfull) as [_ [_ [P1 [P2 [P3 Henc]]]]].
    eexists. split; [exact Henc|]. split; [|split].
    - eapply enc_length; eassumption.
    - eapply enc_block_len; eassumption.
    - apply decode_from_pieces; assumption.
  Qed.

  Lemma mutable_roundtrip_section : forall seg ids,
    1 <= nlen seg -> valid_ids k n ids ->
    exists blocks,
      mutable_encode_segment enc k n seg = Some blocks /\
      nlen blocks = n /\ uniform (div_ceil (nlen seg) k) blocks /\
      decode_segment dec k n true (nlen seg) (pick ids blocks) = Some seg.
  Proof.
    intros seg ids HL Hids.
    destruct (encode_segment_pieces true seg HL ltac:(discriminate)) as [_ [_ [P1 [P2 [P3 _]]]]].
    unfold mutable_encode_segment, crs_enc_params_ok, crs_enc_share_size.
    assert (Hle : (k <=? n) = true) by (apply N.leb_le; exact Hkn). rewrite Hle.
    rewrite (mutable_pieces_eq_ok k seg Hk HL). unfold crs_encode.
    rewrite (uniform_forallb _ _ P2).
    eexists. split; [reflexivity|]. split; [|split].
    - eapply enc_length; eassumption.
    - eapply enc_block_len; eassumption.
    - apply decode_from_pieces; try assumption. discriminate.
  Qed.
End Roundtrip.

Lemma wrapper_roundtrip_any_k_ok :
  forall (enc : N -> N -> list (list N) -> list (list N)) (dec : N -> N -> list (N * list N) -> list (list N)) (k n : N),
    1 <= k -> k <= n ->
    enc_length_at enc k n -> enc_block_len_at enc k n -> mds_at enc dec k n ->
    forall (is_tail : bool) (seg : list N) (ids : list N),
      1 <= nlen seg -> (is_tail = false -> nlen seg mod k = 0) -> valid_ids k n ids ->
      exists blocks,
        encode_segment enc k n is_tail seg = Some blocks /\
        nlen blocks = n /\ uniform (div_ceil (nlen seg) k) blocks /\
        decode_segment dec k n is_tail (nlen seg) (pick ids blocks) = Some seg.
Proof. exact roundtrip_section. Qed.

Lemma mutable_roundtrip_any_k_ok :
  forall (enc : N -> N -> list (list N) -> list (list N)) (dec : N -> N -> list (N * list N) -> list (list N)) (k n : N),
    1 <= k -> k <= n ->
    enc_length_at enc k n -> enc_block_len_at enc k n -> mds_at enc dec k n ->
    forall (seg : list N) (ids : list N),
      1 <= nlen seg -> valid_ids k n ids ->
      exists blocks,
        mutable_encode_segment enc k n seg = Some blocks /\
        nlen blocks = n /\ uniform (div_ceil (nlen seg) k) blocks /\
        decode_segment dec k n true (nlen seg) (pick ids blocks) = Some seg.
Proof. exact mutable_roundtrip_section. Qed.

Lemma encode_pieces_shape_ok : forall k is_tail seg,
  1 <= k -> 1 <= nlen seg -> (is_tail = false -> nlen seg mod k = 0) ->
  exists pieces,
    gather_data k (crs_enc_share_size (if is_tail then next_multiple (nlen seg) k else nlen seg) k) is_tail seg = Some pieces /\
    nlen pieces = k /\
    uniform (crs_enc_share_size (if is_tail then next_multiple (nlen seg) k else nlen seg) k) pieces /\
    concat pieces = pad_segment (k * div_ceil (nlen seg) k) seg /\
    firstn (N.to_nat (nlen seg)) (concat pieces) = seg.
Proof.
  intros k is_tail seg Hk HL Hfull.
  destruct (encode_segment_pieces (fun _ _ x => x) k k Hk (N.le_refl k) is_tail seg HL Hfull) as [S1 [S2 [P1 [P2 [P3 _]]]]].
  rewrite S1. eexists. split; [exact S2|]. repeat split; try assumption.
  rewrite P3. apply firstn_pad_segment.
Qed.

(* ---------------------------------------------------------------------- *)
(* Instances of the hypotheses                                             *)

(* k = 1: replication, any n >= 1 *)
Lemma repl_code_ok : forall n, 1 <= n ->
  enc_length_at enc_repl 1 n /\ enc_block_len_at enc_repl 1 n /\ mds_at enc_repl dec_repl 1 n.
Proof.
  intros n Hn. repeat split.
  - intros sz pieces _ _. unfold enc_repl, nlen. rewrite repeat_length. lia.
  - intros sz pieces Hl Hu. unfold enc_repl, uniform. apply Forall_forall. intros p Hin.
    apply repeat_spec in Hin. subst p.
    destruct pieces as [|p ps]; [unfold nlen in Hl; cbn in Hl; lia|]. cbn. now inversion Hu.
  - intros sz pieces ids Hl Hu [Hnd [Hidk Hidn]].
    destruct pieces as [|p [|q ps]]; unfold nlen in Hl; cbn in Hl; try lia.
    destruct ids as [|i [|j ids]]; unfold nlen in Hidk; cbn in Hidk; try lia.
    inversion Hidn as [|? ? Hi _]; subst.
    unfold dec_repl, pick, enc_repl. cbn [map hd snd]. f_equal.
    apply (repeat_spec (N.to_nat n) p). apply nth_In. rewrite repeat_length. lia.
Qed.

(* k = 2, n = 3: single XOR parity *)
Lemma xor_bytes_length a : forall b, length a = length b -> length (xor_bytes a b) = length a.
Proof. induction a as [|x a IH]; destruct b; cbn; intros; try discriminate; auto. Qed.

Lemma xor_bytes_comm a : forall b, xor_bytes a b = xor_bytes b a.
Proof. induction a as [|x a IH]; destruct b; cbn; auto. rewrite N.lxor_comm, IH. reflexivity. Qed.

Lemma xor_bytes_cancel a : forall b, length a = length b -> xor_bytes a (xor_bytes a b) = b.
Proof.
  induction a as [|x a IH]; destruct b; cbn; intros H; try discriminate; auto.
  rewrite IH by lia. rewrite <- N.lxor_assoc, N.lxor_nilpotent, N.lxor_0_l. reflexivity.
Qed.

Lemma xor_code_ok : enc_length_at enc_xor 2 3 /\ enc_block_len_at enc_xor 2 3 /\ mds_at enc_xor dec_xor 2 3.
Proof.
  repeat split.
  - intros sz pieces Hl _. destruct pieces as [|a [|b [|c ps]]]; unfold nlen in Hl; cbn in Hl; try lia. reflexivity.
  - intros sz pieces Hl Hu. destruct pieces as [|a [|b [|c ps]]]; unfold nlen in Hl; cbn in Hl; try lia.
    inversion Hu as [|? ? Ha Hu']; subst. inversion Hu' as [|? ? Hb _]; subst.
    unfold enc_xor, uniform. repeat constructor; try assumption.
    unfold nlen in *. rewrite xor_bytes_length; lia.
  - intros sz pieces ids Hl Hu [Hnd [Hidk Hidn]].
    destruct pieces as [|a [|b [|c ps]]]; unfold nlen in Hl; cbn in Hl; try lia.
    destruct ids as [|i [|j [|l ids]]]; unfold nlen in Hidk; cbn in Hidk; try lia.
    inversion Hu as [|? ? Ha Hu']; subst. inversion Hu' as [|? ? Hb _]; subst.
    assert (Hab : length a = length b) by (unfold nlen in *; lia).
    inversion Hidn as [|? ? Hi Hidn']; subst. inversion Hidn' as [|? ? Hj _]; subst.
    inversion Hnd as [|? ? Hnin _]; subst.
    assert (Hij : i <> j) by (intro; subst; apply Hnin; now left).
    assert (Ci : i = 0 \/ i = 1 \/ i = 2) by lia.
    assert (Cj : j = 0 \/ j = 1 \/ j = 2) by lia.
    pose proof (xor_bytes_cancel a b Hab) as X1.
    pose proof (xor_bytes_cancel b a (eq_sym Hab)) as X2.
    assert (X3 : xor_bytes (xor_bytes a b) a = b) by (now rewrite xor_bytes_comm).
    assert (X5 : xor_bytes b (xor_bytes a b) = a) by (now rewrite (xor_bytes_comm a b)).
    assert (X4 : xor_bytes (xor_bytes a b) b = a) by (now rewrite xor_bytes_comm).
    destruct Ci as [?|[?|?]]; destruct Cj as [?|[?|?]]; subst; try congruence;
      unfold dec_xor, pick, enc_xor; cbn [map];
      change (N.to_nat 0) with 0%nat; change (N.to_nat 1) with 1%nat; change (N.to_nat 2) with 2%nat;
      cbn; rewrite ?X1, ?X3, ?X4, ?X5; reflexivity.
Qed.

Lemma hypotheses_satisfiable_ok :
  exists enc dec, enc_length_at enc 2 3 /\ enc_block_len_at enc 2 3 /\ mds_at enc dec 2 3.
Proof. exists enc_xor, dec_xor. exact xor_code_ok. Qed.

(* ---------------------------------------------------------------------- *)
(* AST pins of the hand-modelled functions                                 *)
Import Coq.Strings.String.
Lemma pins_ok :
  (pin_CRSEncoder_set_params, pin_CRSEncoder_encode, pin_CRSDecoder_set_params, pin_CRSDecoder_decode,
   pin_Encoder_gather_data, pin_DownloadNode_decode_blocks)
  = ("0a1295e05666d233", "5739b9509a8755c2", "e20e28cfa9f63af6", "3d198c4c0649b057",
     "5470046c97d918dc", "d4edd272955a07d9")%string.
Proof. reflexivity. Qed.
