(* The verifier marks a share good only if everything in it is the uploader's
   (Model/ImmCheck.v: verify_share), for arbitrary share contents. *)
From Coq Require Import List ZArith NArith Bool Lia.
From Verif Require Import Gen.ImmConsts Model.HashTree Model.ImmFile Model.ImmVerify Model.ImmCheck
  Proofs.HashTreeBase Proofs.HashTree Proofs.HashTreeStored Proofs.HashTreeBuild Proofs.ImmVerifyTree Proofs.ImmVerify.
Import ListNotations.
Local Open Scope Z_scope.

Lemma in_zrange : forall n b, In b (zrange n) <-> 0 <= b < n.
Proof.
  intros n b. unfold zrange. rewrite in_map_iff. split.
  - intros [x [<- Hin]]. apply in_seq in Hin. lia.
  - intros Hb. exists (Z.to_nat b). split; [lia|]. apply in_seq. lia.
Qed.

Section VerifySound.
  Variable H : Type.
  Variable H_eqb : H -> H -> bool.
  Variable pair_hash : H -> H -> H.
  Variable truthy : H -> bool.
  Variable empty_leaf : Z -> H.
  Variable block_hash : list N -> H.
  Variable seg_hash : list N -> H.
  Variable UB : Type.
  Variable ueb_hash : UB -> H.
  Variable parse_ueb : UB -> option (ueb H).
  Variable ser_ueb : ueb H -> UB.

  Hypothesis H_eqb_spec : forall a b, H_eqb a b = true <-> a = b.
  Hypothesis all_truthy_H : forall h, truthy h = true.
  Hypothesis pair_inj : forall a b c d, pair_hash a b = pair_hash c d -> a = c /\ b = d.
  Hypothesis block_inj : forall a b, block_hash a = block_hash b -> a = b.
  Hypothesis ueb_inj : forall a b, ueb_hash a = ueb_hash b -> a = b.
  Hypothesis parse_ser : forall u, parse_ueb (ser_ueb u) = Some u.

  Variable f : efile.
  Variable key : list N.
  Hypothesis Hwf : ef_wf f.

  Notation c := (g_cap H pair_hash empty_leaf block_hash seg_hash UB ueb_hash ser_ueb key f).
  Notation set_hashes := (set_hashes H H_eqb pair_hash truthy).
  Notation TreeOK := (TreeOK H).
  Notation consistent := (consistent H pair_hash).
  Notation nn := (nn f).
  Notation nseg := (nseg f).
  Notation ns := (ns f).
  Notation nc := (nc f).
  Notation Gs := (Gs H pair_hash empty_leaf block_hash f).
  Notation Gc := (Gc H pair_hash empty_leaf seg_hash f).
  Notation Gb := (Gb H pair_hash empty_leaf block_hash f).
  Notation sht_facts := (sht_facts H pair_hash empty_leaf block_hash f).
  Notation bht_facts := (bht_facts H pair_hash empty_leaf block_hash f Hwf).
  Notation cht_facts := (cht_facts H pair_hash empty_leaf seg_hash f Hwf).
  Notation step_accepted := (step_accepted H H_eqb pair_hash truthy H_eqb_spec all_truthy_H pair_inj).
  Notation consistent_step := (consistent_step H H_eqb pair_hash truthy H_eqb_spec all_truthy_H).
  Notation accepted_keeps := (accepted_keeps H H_eqb pair_hash truthy H_eqb_spec all_truthy_H).

  Definition vblock (vs : vshare H UB) (b : Z) : list N :=
    match zassoc b (v_blocks vs) with Some d => d | None => [] end.

  Definition keeps (T T' : tree H) : Prop := forall j v, 0 <= j -> slot T j = Some v -> slot T' j = Some v.

  Lemma nc_ge1 : 1 <= nc.
  Proof. unfold ImmVerify.nc. pose proof (roundup_ge1 nseg). lia. Qed.

  (* one get_block/_got_data of the (fixed) verifier *)
  Lemma verify_block_sound : forall s b vs sht bht ords sht' bht',
    0 <= s < nn -> 0 <= b < nseg ->
    TreeOK Gs ns sht -> consistent bht -> zlen bht = nc ->
    verify_block H H_eqb pair_hash truthy block_hash UB true nn nseg s b vs sht bht ords = inl (sht', bht') ->
    TreeOK Gs ns sht' /\ consistent bht' /\ zlen bht' = nc /\ keeps bht bht' /\
    TreeOK (Gb s) nc bht' /\ vblock vs b = gblock f s b.
  Proof.
    intros s b vs sht bht ords sht' bht' Hs Hb Hsht Hcon Hlen Hv. unfold verify_block in Hv.
    destruct (needed_hashes H (first_leaf_num nn) sht s false) as [ndS|]; [|discriminate].
    (* share hash step *)
    assert (Hst1 : exists sht1, TreeOK Gs ns sht1 /\
      match (if orb true (negb (is_truthy H truthy match get bht 0 with Some v => v | None => None end))
             then match get sht1 (first_leaf_num nn + s) with
                  | Some (Some h) =>
                      match set_hashes (first_leaf_num nseg) bht [(0, h)] [] (ords 1%nat) with
                      | Accepted _ T => inl T
                      | Rejected _ e _ => inr (rej_strict e)
                      end
                  | Some None => inr VCorrupt
                  | None => inr VError
                  end
             else inl bht) with
      | inr v => inr v
      | inl bht1 =>
          match needed_hashes H (first_leaf_num nseg) bht1 b false with
          | None => inr VError
          | Some ndB =>
              match (match ndB with
                     | [] => inl bht1
                     | _ =>
                       let fetched := match needed_hashes H (first_leaf_num nseg) bht b true with
                                      | Some nd => negb (match zdiscard 0 nd with [] => true | _ => false end)
                                      | None => false
                                      end in
                       match set_hashes (first_leaf_num nseg) bht1 (if fetched then enumerate (v_block_hashes vs) else []) [] (ords 2%nat) with
                       | Accepted _ T => inl T
                       | Rejected _ e _ => inr (rej_strict e)
                       end
                     end) with
              | inr v => inr v
              | inl bht2 =>
                  match set_hashes (first_leaf_num nseg) bht2 [] [(b, block_hash (match zassoc b (v_blocks vs) with Some d => d | None => [] end))] (ords 3%nat) with
                  | Accepted _ T => inl (sht1, T)
                  | Rejected _ e _ => inr (rej_strict e)
                  end
              end
          end
      end = inl (sht', bht')).
    { destruct ndS as [|x ndS].
      - exists sht. split; [exact Hsht|exact Hv].
      - destruct (v_share_hashes vs) as [l|]; [|discriminate].
        destruct (set_hashes (first_leaf_num nn) sht (pydict l) [] (ords 0%nat)) as [T|e T] eqn:E; [|discriminate].
        exists T. split; [|exact Hv].
        apply (step_accepted Gs ns (first_leaf_num nn) sht (pydict l) [] (ords 0%nat) T (proj1 sht_facts) Hsht E). }
    clear Hv. destruct Hst1 as [sht1 [Hsht1 Hv]]. cbn [orb] in Hv.
    (* anchoring the block hash tree *)
    destruct (get sht1 (first_leaf_num nn + s)) as [[h|]|] eqn:Egl; try discriminate.
    destruct (set_hashes (first_leaf_num nseg) bht [(0, h)] [] (ords 1%nat)) as [bht1|e T] eqn:E1; [|discriminate].
    assert (Hh : h = Gb s 0).
    { pose proof (fl_nonneg nn) as Hfl. assert (Hnn : 0 <= first_leaf_num nn + s) by lia.
      destruct (get_slot H _ _ _ Hnn Egl) as [Hsl _]. destruct Hsht1 as [_ Hgen _].
      rewrite (Hgen _ h Hnn (eq_sym Hsl)). apply (proj2 sht_facts). exact Hs. }
    pose proof (consistent_step _ _ _ _ _ _ Hcon E1) as Hcon1.
    destruct (accepted_keeps _ _ _ _ _ _ E1) as [Hz1 Hk1]. rewrite Hlen in Hz1.
    pose proof (accepted_root_stored H H_eqb pair_hash truthy H_eqb_spec all_truthy_H _ _ _ _ _ ltac:(rewrite Hlen; exact nc_ge1) E1) as Hroot.
    assert (Hok1 : TreeOK (Gb s) nc bht1).
    { constructor; [exact Hz1| |rewrite Hroot; discriminate].
      apply (anchored_genuine H pair_hash pair_inj (Gb s) nc bht1 (proj1 (bht_facts s)) Hz1 Hcon1). rewrite Hroot, Hh. reflexivity. }
    (* optional block hashes step *)
    destruct (needed_hashes H (first_leaf_num nseg) bht1 b false) as [ndB|]; [|discriminate].
    assert (Hst2 : exists bht2, TreeOK (Gb s) nc bht2 /\ consistent bht2 /\ keeps bht1 bht2 /\
      match set_hashes (first_leaf_num nseg) bht2 [] [(b, block_hash (match zassoc b (v_blocks vs) with Some d => d | None => [] end))] (ords 3%nat) with
      | Accepted _ T => inl (sht1, T)
      | Rejected _ e _ => inr (rej_strict e)
      end = inl (sht', bht')).
    { destruct ndB as [|x ndB].
      - exists bht1. split; [exact Hok1|]. split; [exact Hcon1|]. split; [intros j v _ Hj; exact Hj|exact Hv].
      - cbv zeta in Hv.
        destruct (set_hashes (first_leaf_num nseg) bht1 _ [] (ords 2%nat)) as [T|e T] eqn:E2; [|discriminate].
        exists T. split; [apply (step_accepted _ _ _ _ _ _ _ _ (proj1 (bht_facts s)) Hok1 E2)|].
        split; [apply (consistent_step _ _ _ _ _ _ Hcon1 E2)|]. split; [exact (proj2 (accepted_keeps _ _ _ _ _ _ E2))|exact Hv]. }
    clear Hv. destruct Hst2 as [bht2 [Hok2 [Hcon2 [Hk2 Hv]]]].
    (* the block itself *)
    fold (vblock vs b) in Hv.
    destruct (set_hashes (first_leaf_num nseg) bht2 [] [(b, block_hash (vblock vs b))] (ords 3%nat)) as [T|e T] eqn:E3; [|discriminate].
    inversion Hv. subst sht' bht'. clear Hv.
    destruct (step_accepted _ _ _ _ _ _ _ _ (proj1 (bht_facts s)) Hok2 E3) as [Hok3 [V _]].
    split; [exact Hsht1|]. split; [apply (consistent_step _ _ _ _ _ _ Hcon2 E3)|].
    split; [apply Hok3|]. split.
    - destruct (accepted_keeps _ _ _ _ _ _ E3) as [_ Hk3]. intros j v Hj Hsl. apply Hk3; [exact Hj|]. apply Hk2; [exact Hj|]. apply Hk1; assumption.
    - split; [exact Hok3|].
      specialize (V b (block_hash (vblock vs b)) (or_introl eq_refl) (fl_leaf_range nseg b Hb)).
      rewrite (proj2 (bht_facts s) b Hb) in V. apply block_inj. exact V.
  Qed.

  Lemma rej_not_good : forall e, rej e <> VGood /\ rej_strict e <> VGood.
  Proof. intros e. destruct e; split; discriminate. Qed.

  Lemma verify_block_not_good : forall anchor s b vs sht bht ords,
    verify_block H H_eqb pair_hash truthy block_hash UB anchor nn nseg s b vs sht bht ords <> inr VGood.
  Proof.
    intros anchor s b vs sht bht ords. unfold verify_block.
    repeat match goal with
           | |- context [match ?x with _ => _ end] =>
               lazymatch x with
               | context [match _ with _ => _ end] => fail
               | _ => destruct x eqn:?
               end
           end; try discriminate.
    all: try (match goal with
      | |- inr (rej ?e) <> _ => intros Hc; inversion Hc as [Hc']; apply (proj1 (rej_not_good e) Hc')
      | |- inr (rej_strict ?e) <> _ => intros Hc; inversion Hc as [Hc']; apply (proj2 (rej_not_good e) Hc')
      end).
  Qed.

  Lemma verify_blocks_sound : forall s vs todo sht bht ords,
    0 <= s < nn -> (forall b, In b todo -> 0 <= b < nseg) ->
    TreeOK Gs ns sht -> consistent bht -> zlen bht = nc ->
    verify_blocks H H_eqb pair_hash truthy block_hash UB true nn nseg s vs todo sht bht ords = VGood ->
    (forall b, In b todo -> vblock vs b = gblock f s b) /\
    (todo <> [] -> exists bht', keeps bht bht' /\ TreeOK (Gb s) nc bht').
  Proof.
    intros s vs todo. induction todo as [|b r IH]; intros sht bht ords Hs Hin Hsht Hcon Hlen Hv.
    - split; [intros b []|congruence].
    - cbn [verify_blocks] in Hv.
      destruct (verify_block H H_eqb pair_hash truthy block_hash UB true nn nseg s b vs sht bht (ords (Z.to_nat b))) as [[sht' bht']|v] eqn:E;
        [|subst v; exfalso; exact (verify_block_not_good _ _ _ _ _ _ _ E)].
      destruct (verify_block_sound _ _ _ _ _ _ _ _ Hs (Hin b (or_introl eq_refl)) Hsht Hcon Hlen E) as [S1 [S2 [S3 [S4 [S5 S6]]]]].
      destruct (IH sht' bht' ords Hs (fun b' Hb' => Hin b' (or_intror Hb')) S1 S2 S3 Hv) as [I1 I2].
      split.
      + intros b' [<-|Hb']; [exact S6|apply I1; exact Hb'].
      + intros _. destruct r as [|b2 r'].
        * exists bht'. split; assumption.
        * destruct (I2 ltac:(discriminate)) as [bht'' [K1 K2]]. exists bht''. split; [|exact K2].
          intros j v Hj Hsl. apply K1; [exact Hj|]. apply S4; assumption.
  Qed.

  Lemma vs_nseg_eq : Z.of_N (vs_num_segments (ueb_sizes H c (g_ueb H pair_hash empty_leaf block_hash seg_hash f))) = nseg.
  Proof. reflexivity. Qed.

  (* the main statement: a share the verifier calls good carries the uploader's UEB, and every
     block, every block-hash-tree node, every crypttext-hash-tree node and every share-hash-chain
     entry it was asked to check is the uploader's *)
  Theorem verify_share_sound : forall s vs ords0 ords,
    0 <= s < nn ->
    verify_share H H_eqb pair_hash truthy block_hash UB ueb_hash parse_ueb c s vs ords0 ords = VGood ->
    v_ueb vs = UebBytes (ser_ueb (g_ueb H pair_hash empty_leaf block_hash seg_hash f)) /\
    (forall j, 0 <= j < nseg -> vblock vs j = gblock f s j) /\
    (forall k h l, v_share_hashes vs = Some l -> In (k, h) (pydict l) -> 0 <= k < ns -> h = Gs k) /\
    (forall k h, In (k, h) (enumerate (v_ct_hashes vs)) -> 0 <= k < nc -> h = Gc k) /\
    (1 <= nseg -> forall k h, In (k, h) (enumerate (v_block_hashes vs)) -> 0 <= k < nc -> h = Gb s k).
  Proof.
    intros s vs ords0 ords Hs Hv. unfold verify_share, verify_share_gen in Hv.
    destruct (negb ((v_version vs =? 1) || (v_version vs =? 2))%N); [discriminate|].
    destruct (v_ueb vs) as [b| |] eqn:Eu; try discriminate.
    destruct (H_eqb (ueb_hash b) (c_ueb_hash c)) eqn:Eh; cbn [negb] in Hv; [|discriminate].
    apply H_eqb_spec in Eh. cbn [g_cap c_ueb_hash] in Eh. apply ueb_inj in Eh. subst b.
    rewrite parse_ser in Hv.
    destruct (negb (ueb_consistent H c (g_ueb H pair_hash empty_leaf block_hash seg_hash f))); [discriminate|].
    rewrite vs_nseg_eq in Hv. cbn [g_cap c_n] in Hv. fold nn in Hv.
    cbn [g_ueb u_share_root u_crypttext_root] in Hv.
    (* share hash tree *)
    unfold seed_root in Hv.
    destruct (fresh_is_repeat H nn) as [ms [Es Ls]]. rewrite Es, seed_fresh in Hv by assumption.
    assert (Hsht0 : TreeOK Gs ns (Some (node_of H empty_leaf (g_sht H pair_hash empty_leaf block_hash f) 0) :: repeat None ms)).
    { unfold ImmVerify.ns. rewrite <- Ls. apply seeded_ok. reflexivity. }
    destruct (v_share_hashes vs) as [l|] eqn:El; [|discriminate].
    destruct (set_hashes (first_leaf_num nn) _ (pydict l) [] (ords0 1%nat)) as [sht1|e T] eqn:E1; [|destruct e; discriminate].
    destruct (step_accepted Gs ns _ _ _ _ _ _ (proj1 sht_facts) Hsht0 E1) as [Hsht1 [_ Vs]].
    (* block hash tree, filled from the share *)
    destruct (fresh_is_repeat H nseg) as [mc [Ec Lc]]. rewrite Ec in Hv.
    destruct (zlen (v_block_hashes vs) <? zlen (repeat None (S mc))); [discriminate|].
    destruct (set_hashes (first_leaf_num nseg) (repeat None (S mc)) (enumerate (v_block_hashes vs)) [] (ords0 2%nat)) as [bht1|e T] eqn:E2;
      [|destruct e; discriminate].
    destruct (accepted_on_empty_consistent H H_eqb pair_hash truthy H_eqb_spec all_truthy_H _ _ _ _ _ _ E2) as [Hcon1 Hlen1].
    assert (Hlen1' : zlen bht1 = nc) by (unfold ImmVerify.nc; rewrite <- Lc; exact Hlen1).
    (* crypttext hash tree *)
    rewrite seed_fresh in Hv by assumption.
    assert (Hcht0 : TreeOK Gc nc (Some (node_of H empty_leaf (g_cht H pair_hash empty_leaf seg_hash f) 0) :: repeat None mc)).
    { unfold ImmVerify.nc. rewrite <- Lc. apply seeded_ok. reflexivity. }
    destruct (zlen (v_ct_hashes vs) <? _); [discriminate|].
    destruct (set_hashes (first_leaf_num nseg) _ (enumerate (v_ct_hashes vs)) [] (ords0 4%nat)) as [cht1|e T] eqn:E3; [|destruct e; discriminate].
    destruct (step_accepted Gc nc _ _ _ _ _ _ (proj1 cht_facts) Hcht0 E3) as [_ [_ Vc]].
    (* the blocks *)
    destruct (verify_blocks_sound s vs (zrange nseg) sht1 bht1 ords Hs (fun b Hb => proj1 (in_zrange nseg b) Hb) Hsht1 Hcon1 Hlen1' Hv) as [B1 B2].
    split; [reflexivity|]. split; [intros j Hj; apply B1; apply in_zrange; exact Hj|].
    split; [intros k h l' Hl' Hin Hk; inversion Hl'; subst l'; apply (Vs k h Hin Hk)|].
    split; [exact Vc|].
    intros Hn k h Hin Hk.
    assert (Hne : zrange nseg <> []).
    { intros Hz. assert (Hin0 : In 0 (zrange nseg)) by (apply in_zrange; lia). rewrite Hz in Hin0. destruct Hin0. }
    destruct (B2 Hne) as [bht' [K1 [_ Hgen _]]].
    destruct (accepted_stores H H_eqb pair_hash truthy H_eqb_spec _ _ _ _ _ _ E2) as [S1 _].
    assert (Hvz : validz (zlen (repeat (@None H) (S mc))) k).
    { unfold validz, zlen. rewrite repeat_length. unfold ImmVerify.nc in Hk. lia. }
    specialize (S1 k h Hin Hvz (all_truthy_H h)). rewrite normz_nonneg in S1 by lia.
    apply (Hgen k h ltac:(lia)). apply K1; [lia|exact S1].
  Qed.
End VerifySound.

Lemma in_firstn : forall A (l : list A) m x, In x (firstn m l) -> In x l.
Proof.
  intros A l. induction l as [|a l IH]; intros m x Hin.
  - destruct m; cbn in Hin; destruct Hin.
  - destruct m as [|m]; cbn [firstn] in Hin; [destruct Hin|].
    destruct Hin as [->|Hin]; [left; reflexivity|right; apply (IH m x Hin)].
Qed.

Lemma nodup_firstn : forall A (l : list A) m, NoDup l -> NoDup (firstn m l).
Proof.
  intros A l. induction l as [|a l IH]; intros m Nd.
  - destruct m; constructor.
  - destruct m as [|m]; cbn [firstn]; [constructor|].
    inversion Nd as [|y l' Hx Hl]. subst. constructor.
    + intros Hin. apply Hx. apply (in_firstn _ _ _ _ Hin).
    + apply IH. exact Hl.
Qed.

(* ---- the health decision ------------------------------------------------------------------------- *)
Section Decision.
  Definition good_set (rs : list server_result) (l : list Z) : Prop :=
    NoDup l /\ forall s, In s l <-> exists r, In r rs /\ In s (sr_verified r).

  Lemma good_shares_spec : forall rs, good_set rs (good_shares rs).
  Proof.
    intros rs. unfold good_set, good_shares, zdedup. split; [apply NoDup_nodup|].
    intros s. rewrite nodup_In, in_flat_map. reflexivity.
  Qed.

  Lemma good_set_length : forall rs l1 l2, good_set rs l1 -> good_set rs l2 -> length l1 = length l2.
  Proof.
    intros rs l1 l2 [N1 S1] [N2 S2].
    assert (I12 : incl l1 l2) by (intros x Hx; apply S2; apply S1; exact Hx).
    assert (I21 : incl l2 l1) by (intros x Hx; apply S1; apply S2; exact Hx).
    pose proof (NoDup_incl_length N1 I12). pose proof (NoDup_incl_length N2 I21). lia.
  Qed.

  (* healthy <=> exactly N distinct share numbers were found good *)
  Theorem healthy_iff : forall k n rs cr, format_results k n rs = Some cr ->
    (cr_healthy cr = true <-> exists l, good_set rs l /\ N.of_nat (length l) = n).
  Proof.
    intros k n rs cr Hf. unfold format_results in Hf.
    destruct (n <? N.of_nat (length (good_shares rs)))%N; [discriminate|]. inversion Hf. subst cr. cbn [cr_healthy].
    rewrite N.eqb_eq. split.
    - intros E. exists (good_shares rs). split; [apply good_shares_spec|exact E].
    - intros [l [Hg E]]. rewrite (good_set_length rs _ _ (good_shares_spec rs) Hg). exact E.
  Qed.

  (* recoverable <=> at least k distinct share numbers were found good *)
  Theorem recoverable_iff : forall k n rs cr, format_results k n rs = Some cr ->
    (cr_recoverable cr = true <->
     exists l, NoDup l /\ N.of_nat (length l) = k /\ forall s, In s l -> exists r, In r rs /\ In s (sr_verified r)).
  Proof.
    intros k n rs cr Hf. unfold format_results in Hf.
    destruct (n <? N.of_nat (length (good_shares rs)))%N; [discriminate|]. inversion Hf. subst cr. cbn [cr_recoverable].
    rewrite N.leb_le. destruct (good_shares_spec rs) as [Nd Sp]. split.
    - intros Hle. exists (firstn (N.to_nat k) (good_shares rs)). split; [|split].
      + apply nodup_firstn. exact Nd.
      + rewrite firstn_length. lia.
      + intros s Hin. apply Sp. apply (in_firstn _ _ _ _ Hin).
    - intros [l [Nl [El Hl]]]. rewrite <- El.
      assert (Hincl : incl l (good_shares rs)) by (intros x Hx; apply Sp; apply Hl; exact Hx).
      pose proof (NoDup_incl_length Nl Hincl). lia.
  Qed.

  (* _format_results refuses (AssertionError) exactly when more than N distinct numbers were reported *)
  Theorem format_results_defined : forall k n rs,
    format_results k n rs = None <-> (n < N.of_nat (length (good_shares rs)))%N.
  Proof.
    intros k n rs. unfold format_results. destruct (n <? N.of_nat (length (good_shares rs)))%N eqn:E.
    - apply N.ltb_lt in E. split; [intros _; exact E|reflexivity].
    - apply N.ltb_ge in E. split; [discriminate|lia].
  Qed.
End Decision.
