(* accepted_genuine + accepted_stores: an accepted (non-empty) value is the genuine one. *)
From Coq Require Import List ZArith Bool Lia.
From Verif Require Import Model.HashTree Proofs.HashTreeBase Proofs.HashTree Proofs.HashTreeStored.
Import ListNotations.
Local Open Scope Z_scope.

Lemma accepted_values_genuine :
  forall (H : Type) (H_eqb : H -> H -> bool) (pair_hash : H -> H -> H) (truthy : H -> bool),
    (forall a b, H_eqb a b = true <-> a = b) ->
    (forall a b, truthy (pair_hash a b) = true) ->
  forall (G : Z -> H) (n : Z),
    (forall a b c d, pair_hash a b = pair_hash c d -> a = c /\ b = d) ->
    (forall p, 0 <= p -> 2 * p + 2 < n -> G p = pair_hash (G (2 * p + 1)) (G (2 * p + 2))) ->
    (forall j, 0 <= j < n -> truthy (G j) = true) ->
  forall (fl : Z) (T0 : list (option H)) (hashes leaves : list (Z * H)) (ord : list Z) (T1 : list (option H)),
    zlen T0 = n ->
    genuine H G T0 ->
    slot T0 0 <> None ->
    set_hashes H H_eqb pair_hash truthy fl T0 hashes leaves ord = Accepted H T1 ->
    (forall leafnum h, In (leafnum, h) leaves -> 0 <= fl + leafnum < n -> truthy h = true -> h = G (fl + leafnum)) /\
    (forall k h, In (k, h) hashes -> 0 <= k < n -> truthy h = true -> h = G k).
Proof.
  intros H H_eqb pair_hash truthy He Hpt G n Hinj Hm Hgt fl T0 hashes leaves ord T1 Hn Hg Hr Hacc.
  pose proof (accepted_genuine H H_eqb pair_hash truthy He Hpt G n Hinj Hm Hgt fl T0 hashes leaves ord T1 Hn Hg Hr Hacc) as Hg1.
  destruct (accepted_stores H H_eqb pair_hash truthy He fl T0 hashes leaves ord T1 Hacc) as [S1 S2].
  rewrite Hn in S1, S2. split.
  - intros leafnum h Hin Hr' Ht. apply (Hg1 (fl + leafnum) h (proj1 Hr')).
    rewrite <- (normz_nonneg n (fl + leafnum) (proj1 Hr')). apply (S2 leafnum h Hin); [unfold validz; lia|exact Ht].
  - intros k h Hin Hr' Ht. apply (Hg1 k h (proj1 Hr')).
    rewrite <- (normz_nonneg n k (proj1 Hr')). apply (S1 k h Hin); [unfold validz; lia|exact Ht].
Qed.
