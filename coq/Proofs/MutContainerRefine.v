(* C23, second half: the statements about files that satisfy `layout_ok`, obtained
   from the structured-container lemmas of Proofs/MutContainer.v. *)
From Coq Require Import List NArith Arith Bool Lia.
From Verif Require Import Lib.Hex Gen.MutConsts Model.MutContainer Proofs.MutContainerBytes Proofs.MutContainer.
Import ListNotations.
Local Open Scope N_scope.


(* ---- container level -------------------------------------------------------------------- *)
Lemma layout_abs maxsz f : layout_ok maxsz f = true -> exists d, abs_data f = Ok d /\ len d <= maxsz.
Proof.
  intro Hl. apply layout_ok_iff in Hl. destruct Hl as (c & Hw & ->).
  exists (c_data c). split; [apply (abs_data_flat maxsz); exact Hw|].
  unfold c_data, len. rewrite firstn_length. pose proof (wf_dl _ _ Hw). pose proof (wf_max _ _ Hw). unfold len in *. lia.
Qed.

Lemma writev_refines_lemma maxsz f dv nl d :
  468 + maxsz < 2 ^ 64 -> layout_ok maxsz f = true -> abs_data f = Ok d ->
  layout_ok maxsz (out_file (writev maxsz f dv nl)) = true /\
  abs_data (out_file (writev maxsz f dv nl)) = Ok (fst (ref_writev maxsz d dv nl)) /\
  out_err (writev maxsz f dv nl) = snd (ref_writev maxsz d dv nl) /\
  raw_lease_records (out_file (writev maxsz f dv nl)) = raw_lease_records f /\
  read_write_enabler (out_file (writev maxsz f dv nl)) = read_write_enabler f /\
  open_container (out_file (writev maxsz f dv nl)) = open_container f.
Proof.
  intros Hm Hl Ha. apply layout_ok_iff in Hl. destruct Hl as (c & Hw & ->).
  rewrite (abs_data_flat _ _ Hw) in Ha. inversion Ha; subst d.
  destruct (writev_flat maxsz c dv nl Hw Hm) as (c' & Ef & Hw' & Hs & Ee & Hd).
  rewrite Ef. split; [apply flat_layout_ok; exact Hw'|]. split; [rewrite (abs_data_flat _ _ Hw'), Hd; reflexivity|].
  split; [exact Ee|]. split.
  - rewrite (raw_lease_records_flat _ _ Hw'), (raw_lease_records_flat _ _ Hw). f_equal. apply recs_same. exact Hs.
  - destruct Hs as (Hid & _).
    assert (Hh : pread (flat c') 0 HEADER_SIZE = c_id c' ++ c_dlb c' ++ c_elob c' /\ pread (flat c) 0 HEADER_SIZE = c_id c ++ c_dlb c ++ c_elob c).
    { split.
      - rewrite pread_prn, flat_slots. consts. change (N.to_nat 0) with 0%nat.
        rewrite prn_inside by (rewrite !app_length; destruct Hw'; change (N.to_nat 100) with 100%nat; lia).
        unfold prn. cbn [skipn]. apply firstn_all2. rewrite !app_length. destruct Hw'. change (N.to_nat 100) with 100%nat. lia.
      - rewrite pread_prn, flat_slots. consts. change (N.to_nat 0) with 0%nat.
        rewrite prn_inside by (rewrite !app_length; destruct Hw; change (N.to_nat 100) with 100%nat; lia).
        unfold prn. cbn [skipn]. apply firstn_all2. rewrite !app_length. destruct Hw. change (N.to_nat 100) with 100%nat. lia. }
    destruct Hh as [Hh' Hh0].
    assert (Hlen : forall (x : FC), wf maxsz x -> length (c_id x ++ c_dlb x ++ c_elob x) = N.to_nat HEADER_SIZE).
    { intros x Hx. rewrite !app_length. destruct Hx. consts. change (N.to_nat 100) with 100%nat. lia. }
    assert (Hsch : forall (x : FC), wf maxsz x -> schema_of_header (c_id x ++ c_dlb x ++ c_elob x) = schema_of_header (c_id x)).
    { intros x Hx. unfold schema_of_header. rewrite firstn_app. destruct Hx as [Hi ? ? ? ? ? ? ? ? ?]. rewrite Hi.
      change (32 - 84)%nat with 0%nat. cbn [firstn]. rewrite app_nil_r. reflexivity. }
    assert (Hwe : forall (x : FC), wf maxsz x -> pread (c_id x ++ c_dlb x ++ c_elob x) 52 32 = pread (c_id x) 52 32).
    { intros x Hx. rewrite !pread_prn. apply prn_inside. destruct Hx. change (N.to_nat 52) with 52%nat. change (N.to_nat 32) with 32%nat. lia. }
    split.
    + unfold read_write_enabler. rewrite Hh', Hh0, (Hlen _ Hw'), (Hlen _ Hw), Nat.eqb_refl.
      rewrite (Hsch _ Hw'), (Hsch _ Hw), (Hwe _ Hw'), (Hwe _ Hw), Hid. reflexivity.
    + unfold open_container. rewrite Hh', Hh0, (Hsch _ Hw'), (Hsch _ Hw), Hid. reflexivity.
Qed.

Lemma readv_refines_lemma maxsz f rv d : layout_ok maxsz f = true -> abs_data f = Ok d ->
  readv f rv = Ok (ref_readv d rv).
Proof.
  intros Hl Ha. apply layout_ok_iff in Hl. destruct Hl as (c & Hw & ->).
  rewrite (abs_data_flat _ _ Hw) in Ha. inversion Ha; subst d. apply (readv_flat maxsz). exact Hw.
Qed.

Lemma check_testv_refines_lemma maxsz f tv d : layout_ok maxsz f = true -> abs_data f = Ok d ->
  check_testv f tv = Ok (ref_check_testv d tv).
Proof.
  intros Hl Ha. apply layout_ok_iff in Hl. destruct Hl as (c & Hw & ->).
  rewrite (abs_data_flat _ _ Hw) in Ha. inversion Ha; subst d. apply (check_testv_flat maxsz). exact Hw.
Qed.

Lemma read_share_data_refines maxsz f off n d : layout_ok maxsz f = true -> abs_data f = Ok d ->
  read_share_data f off n = Ok (ref_read d off n).
Proof.
  intros Hl Ha. apply layout_ok_iff in Hl. destruct Hl as (c & Hw & ->).
  rewrite (abs_data_flat _ _ Hw) in Ha. inversion Ha; subst d. apply (read_share_data_flat maxsz). exact Hw.
Qed.

(* ---- reference-level facts ----------------------------------------------------------------- *)
Lemma vectors_fit_ref maxsz dv d : vectors_fit maxsz dv = true ->
  ref_write_vectors maxsz d dv = (fold_left (fun a '(off, x) => ref_write a off x) dv d, None).
Proof.
  revert d; induction dv as [|[off x] r IH]; intros d Hf; [reflexivity|].
  cbn [vectors_fit] in Hf. apply andb_prop in Hf. destruct Hf as [H1 H2]. apply N.leb_le in H1.
  cbn [ref_write_vectors fold_left]. destruct (N.ltb_spec maxsz (off + len x)); [lia|]. apply IH. exact H2.
Qed.

Lemma ref_empty_testv tv : ref_check_testv [] tv = empty_check_testv tv.
Proof.
  induction tv as [|[[off n] sp] r IH]; [reflexivity|]. cbn [ref_check_testv empty_check_testv].
  assert (E : ref_read [] off n = []).
  { unfold ref_read, pread. rewrite skipn_nil. apply firstn_nil. }
  rewrite E, IH. reflexivity.
Qed.

Lemma gap_reads_zero (d : list N) (off : N) (data : list N) : len d <= off ->
  ref_read (ref_write d off data) (len d) (off - len d) = zeros (off - len d).
Proof.
  intro Hg. unfold ref_read, pread, ref_write, zeros, len in *. apply list_ext0.
  - rewrite firstn_length, skipn_length, !app_length, firstn_length, !repeat_length, skipn_length. lia.
  - intros i _. nth_simp. nth_cases; nth_fin.
Qed.

(* ---- one share, one request ------------------------------------------------------------------ *)
Section Share.
Variable maxsz : N.
Variable fresh : file.
Hypothesis Hmax : 468 + maxsz < 2 ^ 64.
Hypothesis fresh_ok : layout_ok maxsz fresh = true.
Hypothesis fresh_empty : abs_data fresh = Ok [].

Lemma abs_share_some f d : abs_data f = Ok d -> abs_share (Some f) = Some d.
Proof. intro Ha. unfold abs_share. rewrite Ha. reflexivity. Qed.

Lemma share_test_refines s tv : share_ok maxsz s ->
  share_test s tv = Ok (ref_check_testv (match abs_share s with Some d => d | None => [] end) tv).
Proof.
  intro Hs. destruct s as [f|]; cbn [share_test].
  - destruct (layout_abs _ _ Hs) as (d & Ha & _). rewrite (abs_share_some _ _ Ha).
    apply (check_testv_refines_lemma maxsz); assumption.
  - cbn [abs_share]. rewrite ref_empty_testv. reflexivity.
Qed.

Lemma share_step_refines s o : share_ok maxsz s ->
  ref_step maxsz (abs_share s) o = (abs_share (fst (share_step maxsz fresh s o)), snd (share_step maxsz fresh s o))
  /\ share_ok maxsz (fst (share_step maxsz fresh s o)).
Proof.
  intro Hs. destruct o as [tv dv nl|rv].
  - cbn [share_step ref_step]. rewrite (share_test_refines s tv Hs).
    set (d := match abs_share s with Some d => d | None => [] end).
    destruct (ref_check_testv d tv); [|split; [reflexivity|exact Hs]].
    destruct (is_zero nl) eqn:Ez.
    + cbn [negb andb]. unfold share_write. rewrite Ez. cbn. split; [reflexivity|exact I].
    + cbn [negb andb]. destruct (vectors_fit maxsz dv) eqn:Ef; cbn [negb]; [|split; [reflexivity|exact Hs]].
      unfold share_write. rewrite Ez.
      set (f := match s with Some f => f | None => fresh end).
      assert (Hf : layout_ok maxsz f = true) by (subst f; destruct s; [exact Hs|exact fresh_ok]).
      assert (Ha : abs_data f = Ok d).
      { subst f d. destruct s as [g|].
        - destruct (layout_abs _ _ Hs) as (d0 & Ha & _). rewrite (abs_share_some _ _ Ha). exact Ha.
        - exact fresh_empty. }
      destruct (writev_refines_lemma maxsz f dv nl d Hmax Hf Ha) as (Hl' & Ha' & He' & _).
      unfold ref_writev in *. rewrite (vectors_fit_ref _ _ _ Ef) in *. cbn [fst snd] in *.
      destruct (writev maxsz f dv nl) as [f'|f' e]; cbn [out_file out_err] in *; [|discriminate].
      cbn [fst snd]. rewrite (abs_share_some _ _ Ha'). split; [reflexivity|exact Hl'].
  - cbn [share_step ref_step share_read]. destruct s as [f|]; cbn [fst snd]; [|split; [reflexivity|exact I]].
    destruct (layout_abs _ _ Hs) as (d & Ha & _). rewrite (abs_share_some _ _ Ha).
    cbn [share_read]. rewrite (readv_refines_lemma maxsz f rv d Hs Ha). split; [reflexivity|exact Hs].
Qed.

Lemma run_share_refines ops : forall s, share_ok maxsz s ->
  run_ref maxsz (abs_share s) ops = (abs_share (fst (run_share maxsz fresh s ops)), snd (run_share maxsz fresh s ops))
  /\ share_ok maxsz (fst (run_share maxsz fresh s ops)).
Proof.
  induction ops as [|o r IH]; intros s Hs; [split; [reflexivity|exact Hs]|].
  cbn [run_share run_ref]. destruct (share_step_refines s o Hs) as [E1 H1].
  destruct (share_step maxsz fresh s o) as [s1 b] eqn:Es. cbn [fst snd] in *. rewrite E1.
  destruct (IH s1 H1) as [E2 H2]. destruct (run_share maxsz fresh s1 r) as [s2 bs] eqn:Er. cbn [fst snd] in *.
  rewrite E2. split; [reflexivity|exact H2].
Qed.

End Share.

(* ---- a freshly created container is well-formed and empty --------------------------------------- *)
Lemma fit_length n s : length (fit n s) = n.
Proof. unfold fit. rewrite app_length, firstn_length, repeat_length. lia. Qed.

Lemma mut_header_flat v nodeid we :
  mut_header v nodeid we =
  flat (mkFC (fit 32 (magic_of v) ++ fit 20 nodeid ++ fit 32 we) (be 8 0) (be 8 468) (zeros 368) [] (be 4 0) []).
Proof. unfold mut_header, flat, hdr, tail. cbn [c_id c_dlb c_elob c_slots c_region c_nxb c_extra]. consts. rewrite <- !app_assoc. reflexivity. Qed.

Lemma mut_header_wf maxsz v nodeid we :
  wf maxsz (mkFC (fit 32 (magic_of v) ++ fit 20 nodeid ++ fit 32 we) (be 8 0) (be 8 468) (zeros 368) [] (be 4 0) []).
Proof.
  constructor; cbn [c_id c_dlb c_elob c_slots c_region c_nxb c_extra]; unfold c_dl, c_nx;
    cbn [c_id c_dlb c_elob c_slots c_region c_nxb c_extra]; try reflexivity; try (cbn; lia).
  - rewrite !app_length, !fit_length. reflexivity.
  - destruct v; vm_compute; discriminate.
Qed.

Lemma mut_header_ok maxsz v nodeid we : layout_ok maxsz (mut_header v nodeid we) = true.
Proof. rewrite mut_header_flat. apply flat_layout_ok. apply mut_header_wf. Qed.

Lemma mut_header_empty v nodeid we : abs_data (mut_header v nodeid we) = Ok [].
Proof. rewrite mut_header_flat. rewrite (abs_data_flat 0) by apply mut_header_wf. reflexivity. Qed.

Lemma fresh_container_ok_proof maxsz v nodeid we :
  layout_ok maxsz (mut_header v nodeid we) = true /\ abs_data (mut_header v nodeid we) = Ok [].
Proof. split; [apply mut_header_ok|apply mut_header_empty]. Qed.

(* ================================ the C23 statements ============================================ *)

Lemma refines_bytearray_proof maxsz fresh s ops :
  468 + maxsz < 2 ^ 64 -> layout_ok maxsz fresh = true -> abs_data fresh = Ok [] -> share_ok maxsz s ->
  run_ref maxsz (abs_share s) ops = (abs_share (fst (run_share maxsz fresh s ops)), snd (run_share maxsz fresh s ops))
  /\ share_ok maxsz (fst (run_share maxsz fresh s ops)).
Proof. intros Hm Hf He Hs. apply run_share_refines; assumption. Qed.

Lemma writev_refines_proof maxsz f dv nl d :
  468 + maxsz < 2 ^ 64 -> layout_ok maxsz f = true -> abs_data f = Ok d ->
  layout_ok maxsz (out_file (writev maxsz f dv nl)) = true /\
  abs_data (out_file (writev maxsz f dv nl)) = Ok (fst (ref_writev maxsz d dv nl)) /\
  out_err (writev maxsz f dv nl) = snd (ref_writev maxsz d dv nl).
Proof. intros Hm Hl Ha. destruct (writev_refines_lemma maxsz f dv nl d Hm Hl Ha) as (A & B & C & _). auto. Qed.

Lemma data_writes_preserve_leases_proof maxsz f dv nl :
  468 + maxsz < 2 ^ 64 -> layout_ok maxsz f = true ->
  raw_lease_records (out_file (writev maxsz f dv nl)) = raw_lease_records f /\
  read_write_enabler (out_file (writev maxsz f dv nl)) = read_write_enabler f.
Proof.
  intros Hm Hl. destruct (layout_abs _ _ Hl) as (d & Ha & _).
  destruct (writev_refines_lemma maxsz f dv nl d Hm Hl Ha) as (_ & _ & _ & D & E & _). auto.
Qed.

Lemma write_share_data_done maxsz f off data d :
  468 + maxsz < 2 ^ 64 -> layout_ok maxsz f = true -> abs_data f = Ok d -> off + len data <= maxsz ->
  exists f', writev maxsz f [(off, data)] None = Done f' /\ layout_ok maxsz f' = true /\ abs_data f' = Ok (ref_write d off data).
Proof.
  intros Hm Hl Ha Hfit. destruct (writev_refines_lemma maxsz f [(off, data)] None d Hm Hl Ha) as (A & B & C & _).
  unfold ref_writev in *. cbn [ref_write_vectors] in *. destruct (N.ltb_spec maxsz (off + len data)); [lia|].
  cbn [fst snd ref_truncate] in *. destruct (writev maxsz f [(off, data)] None) as [f'|f' e]; cbn [out_file out_err] in *; [|discriminate].
  exists f'. auto.
Qed.

Lemma gap_zero_filled_proof maxsz f off data d :
  468 + maxsz < 2 ^ 64 -> layout_ok maxsz f = true -> abs_data f = Ok d ->
  len d <= off -> off + len data <= maxsz ->
  exists f', writev maxsz f [(off, data)] None = Done f' /\
             read_share_data f' (len d) (off - len d) = Ok (zeros (off - len d)).
Proof.
  intros Hm Hl Ha Hgap Hfit. destruct (write_share_data_done maxsz f off data d Hm Hl Ha Hfit) as (f' & E & Hl' & Ha').
  exists f'. split; [exact E|]. rewrite (read_share_data_refines maxsz f' _ _ _ Hl' Ha'). f_equal.
  apply gap_reads_zero. exact Hgap.
Qed.

Lemma stale_bytes_never_exposed_proof maxsz f n off data d :
  468 + maxsz < 2 ^ 64 -> layout_ok maxsz f = true -> abs_data f = Ok d ->
  n <= len d -> n <= off -> off + len data <= maxsz ->
  exists f1 f2, writev maxsz f [] (Some n) = Done f1 /\ writev maxsz f1 [(off, data)] None = Done f2 /\
                read_share_data f2 n (off - n) = Ok (zeros (off - n)).
Proof.
  intros Hm Hl Ha Hn Hoff Hfit.
  destruct (writev_refines_lemma maxsz f [] (Some n) d Hm Hl Ha) as (A & B & C & _).
  unfold ref_writev in *. cbn [ref_write_vectors fst snd ref_truncate] in *.
  destruct (writev maxsz f [] (Some n)) as [f1|f1 e]; cbn [out_file out_err] in *.
  2:{ destruct (n <? len d); discriminate. }
  set (d1 := if n <? len d then firstn (N.to_nat n) d else d) in *.
  assert (Hd1 : len d1 = n).
  { subst d1. destruct (N.ltb_spec n (len d)); unfold len in *; [rewrite firstn_length|]; lia. }
  assert (B1 : abs_data f1 = Ok d1). { destruct (n <? len d); exact B. }
  destruct (write_share_data_done maxsz f1 off data d1 Hm A B1 Hfit) as (f2 & E2 & Hl2 & Ha2).
  exists f1, f2. split; [reflexivity|]. split; [exact E2|].
  rewrite (read_share_data_refines maxsz f2 _ _ _ Hl2 Ha2). f_equal.
  rewrite <- Hd1 at 1 2 3. apply gap_reads_zero. lia.
Qed.
