(* The converse of the conflict check: a write that agrees with everything accepted so far, and
   fits, is accepted (no spurious ConflictingWriteError), and the written-range map stays inside
   the allocated size. *)
From Coq Require Import List NArith ZArith Bool Lia.
From Coq Require Import ZifyBool ZifyNat ZifyN.
From Verif Require Import Model.ImmStore Proofs.ImmStoreLib Proofs.ImmStore.
Import ListNotations.
Local Open Scope N_scope.

(* every stored interval is non-empty and ends inside the share *)
Definition bounded (size : N) (l : ranges) : Prop := Forall (fun se => fst se < snd se /\ snd se <= size) l.

Lemma bounded_rm_set : forall size l a b, a < b -> b <= size -> bounded size l -> bounded size (rm_set a b l).
Proof.
  intros size. induction l as [|[s e] r IH]; intros a b Hab Hb Hl; cbn [rm_set].
  - constructor; [cbn [fst snd]; lia|constructor].
  - inversion Hl as [|? ? [H1 H2] Hr]; subst. cbn [fst snd] in *.
    destruct (e <? a).
    + constructor; [cbn [fst snd]; lia|]. apply IH; assumption.
    + destruct (b <? s).
      * constructor; [cbn [fst snd]; lia|]. assumption.
      * apply IH; try lia. assumption.
Qed.

Lemma query_in : forall l a b cs ce, In (cs, ce) (rm_query a b l) ->
  a <= cs /\ cs < ce /\ ce <= b /\ exists s e, In (s, e) l /\ s <= cs /\ ce <= e.
Proof.
  induction l as [|[s e] r IH]; intros a b cs ce Hin; cbn [rm_query] in Hin.
  - destruct Hin.
  - destruct (N.ltb_spec (N.max s a) (N.min e b)) as [Hlt|Hge].
    + destruct Hin as [E|Hin].
      * inversion E; subst. repeat split; try lia. exists s, e. split; [left; reflexivity|lia].
      * destruct (IH _ _ _ _ Hin) as (H1 & H2 & H3 & s' & e' & H4 & H5). repeat split; auto.
        exists s', e'. split; [right; assumption|assumption].
    + destruct (IH _ _ _ _ Hin) as (H1 & H2 & H3 & s' & e' & H4 & H5). repeat split; auto.
      exists s', e'. split; [right; assumption|assumption].
Qed.

Lemma in_covered : forall l s e p, In (s, e) l -> s <= p < e -> covered l p = true.
Proof.
  intros l s e p Hin Hp. unfold covered. apply existsb_exists. exists (s, e). split; [assumption|].
  cbn [fst snd]. lia.
Qed.

Lemma chunks_agree_intro : forall stored off d chunks,
  (forall cs ce, In (cs, ce) chunks ->
     off <= cs /\ cs < ce /\ ce <= off + blen d /\ ce <= blen stored
     /\ forall p, cs <= p < ce -> nthb stored p = nthb d (p - off)) ->
  chunks_agree stored off d chunks = true.
Proof.
  intros stored off d. induction chunks as [|[cs ce] r IH]; intros H; cbn [chunks_agree]; [reflexivity|].
  apply andb_true_iff. split.
  - destruct (H cs ce (or_introl eq_refl)) as (H1 & H2 & H3 & H4 & H5).
    rewrite read_share_data_slice.
    assert (E : slice cs (ce - cs) stored = slice (cs - off) (ce - cs) d).
    { apply nth_ext with (d := 0) (d' := 0).
      - rewrite !slice_length by lia. reflexivity.
      - intros n Hn. rewrite slice_length in Hn by lia.
        pose proof (slice_nth cs (ce - cs) stored (N.of_nat n)) as R1.
        pose proof (slice_nth (cs - off) (ce - cs) d (N.of_nat n)) as R2.
        rewrite Nat2N.id in R1, R2. rewrite R1, R2 by lia.
        rewrite H5 by lia. f_equal. lia. }
    rewrite E. apply bytes_eqb_refl.
  - apply IH. intros cs' ce' Hin. apply H. right. assumption.
Qed.

(* the invariant extended with the bound on the range map *)
Definition ranges_bounded (s : store) : Prop :=
  forall k w, get s k = Incoming w -> bounded (w_size w) (w_ranges w).

Lemma alloc_loop_bounded : forall ro si size canary now shs slots next rem acc slots' next' acc',
  alloc_loop ro si size canary now shs slots next rem acc = (slots', next', acc') ->
  (forall k w, lookup k slots = Incoming w -> bounded (w_size w) (w_ranges w)) ->
  (forall k w, lookup k slots' = Incoming w -> bounded (w_size w) (w_ranges w)).
Proof.
  intros ro si size canary now. induction shs as [|sh rest IH]; intros slots next rem acc slots' next' acc' H Hb.
  - cbn [alloc_loop] in H. inversion H; subst. assumption.
  - cbn [alloc_loop] in H.
    destruct (lookup (si, sh) slots) as [|w0|wid d] eqn:L; try (eapply IH; eassumption).
    destruct ro; [eapply IH; eassumption|].
    destruct (fits rem size); [|eapply IH; eassumption].
    eapply IH; [eassumption|].
    intros k w Hl. destruct (key_eq_dec k (si, sh)) as [->|Hne].
    + rewrite lookup_set_same in Hl. inversion Hl; subst. cbn [new_writer w_size w_ranges]. constructor.
    + rewrite lookup_set_other in Hl by assumption. eapply Hb; eauto.
Qed.

Lemma step_bounded : forall ro s o, ranges_bounded s -> ranges_bounded (fst (step ro s o)).
Proof.
  intros ro s o Hb. destruct o; cbn [step].
  - unfold allocate.
    destruct (alloc_loop ro si size canary (st_now s) shs (st_slots s) (st_next s)
               (option_map (fun a : N => (Z.of_N a - Z.of_N (allocated_size s))%Z) avail) []) as [[slots' next'] acc'] eqn:E.
    cbn [fst]. intros k0 w0 Hg. unfold get in Hg. cbn [st_slots] in Hg.
    eapply alloc_loop_bounded; eauto.
  - unfold write. destruct (get s k) as [|w|wid0 d0] eqn:Hg; cbn [fst]; try assumption.
    destruct (w_id w =? wid); cbn [fst]; [|assumption].
    pose proof (Hb k w Hg) as Bw.
    assert (Hgen : forall w', w_size w' = w_size w -> bounded (w_size w) (w_ranges w') ->
              ranges_bounded (with_slots s (set_slot k (Incoming w') (st_slots s)))).
    { intros w' Hs Hw' k0 w0 Hg0. rewrite get_with_slots in Hg0. destruct (key_eq_dec k0 k) as [->|Hne].
      - rewrite lookup_set_same in Hg0. inversion Hg0; subst. rewrite Hs. assumption.
      - rewrite lookup_set_other in Hg0 by assumption. eapply Hb; eauto. }
    unfold write_writer.
    destruct (N.eqb_spec (blen d) 0) as [E0|E0]; cbn [fst snd]; [apply Hgen; [reflexivity|exact Bw]|].
    destruct (chunks_agree (w_data w) off d (rm_query off (off + blen d) (w_ranges w))); cbn [negb fst snd];
      [|apply Hgen; [reflexivity|exact Bw]].
    destruct (N.ltb_spec (w_size w) (off + blen d)) as [El|El]; cbn [fst snd]; [apply Hgen; [reflexivity|exact Bw]|].
    apply Hgen; [reflexivity|]. cbn [w_ranges]. apply bounded_rm_set; try lia. assumption.
  - unfold close. destruct (get s k) as [|w|wid0 d0] eqn:Hg; cbn [fst]; try assumption.
    destruct (w_id w =? wid); cbn [fst]; [|assumption].
    intros k0 w0 Hg0. rewrite get_with_slots in Hg0. destruct (key_eq_dec k0 k) as [->|Hne].
    + rewrite lookup_set_same in Hg0. discriminate.
    + rewrite lookup_set_other in Hg0 by assumption. eapply Hb; eauto.
  - unfold abort. destruct (get s k) as [|w|wid0 d0] eqn:Hg; cbn [fst]; try assumption.
    destruct (w_id w =? wid); cbn [fst]; [|assumption].
    intros k0 w0 Hg0. rewrite get_with_slots in Hg0. destruct (key_eq_dec k0 k) as [->|Hne].
    + rewrite lookup_set_same in Hg0. discriminate.
    + rewrite lookup_set_other in Hg0 by assumption. eapply Hb; eauto.
  - cbn [fst]. unfold advance. intros k0 w0 Hg0. unfold get in Hg0. cbn [st_slots] in Hg0.
    rewrite lookup_abort_where in Hg0. fold (get s k0) in Hg0.
    destruct (get s k0) as [|w|wid0 d0] eqn:Hg; try discriminate.
    destruct (w_deadline w <=? st_now s + dt); [discriminate|]. inversion Hg0; subst. eapply Hb; eauto.
  - cbn [fst]. unfold disconnect. intros k0 w0 Hg0. unfold get in Hg0. cbn [with_slots st_slots] in Hg0.
    rewrite lookup_abort_where in Hg0. fold (get s k0) in Hg0.
    destruct (get s k0) as [|w|wid0 d0] eqn:Hg; try discriminate.
    destruct (w_canary w =? canary); [discriminate|]. inversion Hg0; subst. eapply Hb; eauto.
  - assumption.
  - assumption.
  - assumption.
Qed.

Theorem run_bounded : forall ro ops, ranges_bounded (fst (run ro ops)).
Proof.
  intros ro ops. unfold run.
  pose proof (run_from_inv ro (fun s _ => ranges_bounded s)) as H.
  apply (H (fun s tr o Hs => step_bounded ro s o Hs) ops init []).
  intros k w Hg. discriminate.
Qed.

(* A write that lies inside the allocated size and agrees, position by position, with every
   write accepted earlier in the same upload, is accepted; afterwards the share holds the new
   bytes at the written positions and is unchanged elsewhere. *)
Theorem consistent_write_accepted_ok : forall ro ops k w off d,
  let s := fst (run ro ops) in
  let tr := snd (run ro ops) in
  get s k = Incoming w ->
  blen d <> 0 -> off + blen d <= w_size w ->
  (forall off0 d0 p, accepted tr k (w_id w) off0 d0 -> off0 <= p < off0 + blen d0 -> off <= p < off + blen d ->
     nthb d0 (p - off0) = nthb d (p - off)) ->
  exists f w',
    step ro s (OWrite k (w_id w) off d) = (with_slots s (set_slot k (Incoming w') (st_slots s)), RWrote f)
    /\ w_size w' = w_size w /\ w_id w' = w_id w
    /\ (forall p, off <= p < off + blen d -> nthb (w_data w') p = nthb d (p - off))
    /\ (forall p, p < off \/ off + blen d <= p -> nthb (w_data w') p = nthb (w_data w) p)
    /\ (forall p, covered (w_ranges w') p = true <-> (off <= p < off + blen d) \/ covered (w_ranges w) p = true).
Proof.
  intros ro ops k w off d s tr Hg Hne Hfit Hagree.
  pose proof (run_inv ro ops) as Hi. fold s tr in Hi.
  pose proof (run_bounded ro ops k w Hg) as Hb.
  pose proof (inv_slots _ _ Hi k) as Hs. rewrite Hg in Hs. cbn [slot_ok] in Hs.
  destruct Hs as (S1 & S2 & S3 & S4 & S5 & S6).
  assert (Hc : chunks_agree (w_data w) off d (rm_query off (off + blen d) (w_ranges w)) = true).
  { apply chunks_agree_intro. intros cs ce Hin.
    destruct (query_in _ _ _ _ _ Hin) as (Q1 & Q2 & Q3 & s0 & e0 & Q4 & Q5 & Q6).
    unfold bounded in Hb. rewrite Forall_forall in Hb. specialize (Hb _ Q4). cbn [fst snd] in Hb.
    repeat split; try lia.
    intros p Hp.
    assert (Hcov : covered (w_ranges w) p = true) by (eapply in_covered; [exact Q4|lia]).
    apply S5 in Hcov. destruct Hcov as (off0 & d0 & Ha & Hr).
    destruct (S4 _ _ Ha) as [_ Hv]. rewrite (Hv p Hr). apply Hagree; auto. lia. }
  cbn [step]. unfold write. rewrite Hg, N.eqb_refl. unfold write_writer.
  destruct (N.eqb_spec (blen d) 0) as [E0|E0]; [contradiction|]. rewrite Hc. cbn [negb].
  destruct (N.ltb_spec (w_size w) (off + blen d)) as [El|El]; [lia|].
  eexists. eexists. split; [reflexivity|]. cbn [w_size w_id w_data w_ranges].
  split; [reflexivity|]. split; [reflexivity|]. split; [|split].
  - intros p Hp. apply nth_write_at_in; lia.
  - intros p Hp. apply nth_write_at_out; lia.
  - intros p. rewrite covered_rm_set by lia. rewrite orb_true_iff. unfold in_iv. split; intros [H|H]; auto; left; lia.
Qed.
