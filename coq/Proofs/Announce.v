(* Proofs about Model/Announce.v (C34). *)
From Coq Require Import List NArith ZArith Bool Lia.
From Verif Require Import Lib.Sig Model.Announce.
Import ListNotations.
Local Open Scope N_scope.

Lemma seqval_eqb_eq : forall x y, seqval_eqb x y = true <-> x = y.
Proof.
  intros [|a|a|] [|b|b|]; cbn; split; intros H; try discriminate; try reflexivity;
    try (apply Z.eqb_eq in H; congruence); try (inversion H; apply Z.eqb_refl).
Qed.

Lemma ann_eqb_eq : forall x y, ann_eqb x y = true <-> x = y.
Proof.
  intros [s1 d1 q1 b1] [s2 d2 q2 b2]. unfold ann_eqb. cbn [a_service a_desc_ok a_seq a_body].
  rewrite !andb_true_iff, !N.eqb_eq, seqval_eqb_eq, Bool.eqb_true_iff. split.
  - intros [[[-> ->] ->] ->]. reflexivity.
  - intros H. inversion H. auto.
Qed.

Section Proofs.
  Variables pubkey keystr msg sig : Type.
  Variable verify : pubkey -> msg -> sig -> bool.
  Variable parse_key : keystr -> option pubkey.
  Variable canon : pubkey -> keystr.
  Variable decode : msg -> option ann_json.
  Variable keystr_eqb : keystr -> keystr -> bool.
  Hypothesis keystr_eqb_spec : forall a b, keystr_eqb a b = true <-> a = b.
  Variable client : bool.
  Variable subscribed : N -> bool.

  Notation wire := (wire keystr msg sig).
  Notation state := (state keystr).
  Notation unsign := (unsign_from_foolscap verify parse_key canon decode).
  Notation stp := (step verify parse_key canon decode keystr_eqb client subscribed).
  Notation got := (got_announcements verify parse_key canon decode keystr_eqb client subscribed).
  Notation run := (run_stream verify parse_key canon decode keystr_eqb client subscribed).
  Notation look := (lookup keystr_eqb).
  Notation upd := (update keystr_eqb).
  Notation idx := (index keystr).

  Lemma index_eqb_eq : forall i j : idx, index_eqb keystr keystr_eqb i j = true <-> i = j.
  Proof.
    intros [s k] [s' k']. unfold index_eqb. cbn [fst snd].
    rewrite andb_true_iff, N.eqb_eq, keystr_eqb_spec. split.
    - intros [-> ->]. reflexivity.
    - intros H. inversion H. auto.
  Qed.

  Lemma index_eqb_refl : forall i : idx, index_eqb keystr keystr_eqb i i = true.
  Proof. intros i. apply index_eqb_eq. reflexivity. Qed.

  Lemma index_eqb_neq : forall i j : idx, i <> j -> index_eqb keystr keystr_eqb i j = false.
  Proof.
    intros i j H. destruct (index_eqb keystr keystr_eqb i j) eqn:E; [|reflexivity].
    apply index_eqb_eq in E. contradiction.
  Qed.

  Lemma lookup_update_same : forall st (i : idx) a, look (upd st i a) i = Some a.
  Proof.
    induction st as [|[j b] r IH]; intros i a; cbn [update lookup].
    - rewrite index_eqb_refl. reflexivity.
    - destruct (index_eqb keystr keystr_eqb i j) eqn:E; cbn [lookup]; rewrite E; [reflexivity|apply IH].
  Qed.

  Lemma lookup_update_other : forall st (i j : idx) a, i <> j -> look (upd st i a) j = look st j.
  Proof.
    induction st as [|[k b] r IH]; intros i j a NE; cbn [update lookup].
    - rewrite (index_eqb_neq j i); [reflexivity|congruence].
    - destruct (index_eqb keystr keystr_eqb i k) eqn:E; cbn [lookup].
      + apply index_eqb_eq in E. subst k. rewrite (index_eqb_neq j i); [reflexivity|congruence].
      + rewrite IH; [reflexivity|exact NE].
  Qed.

  Lemma in_update : forall st (i j : idx) a b, In (j, b) (upd st i a) -> (j = i /\ b = a) \/ In (j, b) st.
  Proof.
    induction st as [|[k c] r IH]; intros i j a b H; cbn [update] in H.
    - destruct H as [H|[]]. inversion H. auto.
    - destruct (index_eqb keystr keystr_eqb i k) eqn:E.
      + apply index_eqb_eq in E. subst k. destruct H as [H|H].
        * inversion H. auto.
        * right. right. exact H.
      + destruct H as [H|H].
        * right. left. exact H.
        * destruct (IH _ _ _ _ H) as [Q|Q]; [left; exact Q|right; right; exact Q].
  Qed.

  Lemma lookup_in : forall st (i : idx) a, look st i = Some a -> In (i, a) st.
  Proof.
    induction st as [|[k c] r IH]; intros i a H; cbn [lookup] in H; [discriminate|].
    destruct (index_eqb keystr keystr_eqb i k) eqn:E.
    - apply index_eqb_eq in E. subst k. inversion H. left. reflexivity.
    - right. apply IH. exact H.
  Qed.

  (* ---- one element of a batch ---- *)
  (* the announcement w is a correctly signed announcement a by key `key` *)
  Definition genuine (w : wire) (key : pubkey) (a : ann) : Prop :=
    exists m sg ks0, w = WTriple m (SfOk sg) (KfOk ks0) /\ parse_key ks0 = Some key /\
                     verify key m sg = true /\ decode m = Some (AJ a).

  Lemma unsign_inr : forall w j ks, unsign w = inr (j, ks) ->
    exists m sg ks0 key, w = WTriple m (SfOk sg) (KfOk ks0) /\ parse_key ks0 = Some key /\
                         verify key m sg = true /\ decode m = Some j /\ ks = canon key.
  Proof.
    intros w j ks H. destruct w as [|m s k]; cbn in H; [discriminate|].
    destruct s as [| | | |sg], k as [| | |ks0]; try discriminate;
      (destruct (parse_key ks0) as [key|] eqn:P; [|discriminate]); try discriminate.
    destruct (verify key m sg) eqn:V; [|discriminate].
    destruct (decode m) as [j0|] eqn:D; [|discriminate].
      inversion H; subst. exists m, sg, ks0, key. auto.
  Qed.

  Lemma step_cases : forall (st : state) w st' v, stp st w = (st', v) ->
    (stores v = false /\ st' = st) \/
    (stores v = true /\ exists key a, genuine w key a /\
       v = process keystr_eqb client subscribed (st_store st) (AJ a) (canon key) /\
       st' = {| st_store := upd (st_store st) (a_service a, canon key) a;
                st_delivered := st_delivered st ++ [(canon key, a)] |}).
  Proof.
    intros st w st' v H. unfold step in H.
    destruct (unsign w) as [r|[j ks]] eqn:U.
    - inversion H; subst. left. split; [|reflexivity].
      destruct w as [|m s k]; cbn in U; [inversion U; reflexivity|].
      destruct s as [| | | |sg], k as [| | |ks0]; try (inversion U; reflexivity);
        destruct (parse_key ks0) as [key|]; try (inversion U; reflexivity).
      destruct (verify key m sg); [|inversion U; reflexivity].
      destruct (decode m); inversion U; reflexivity.
    - destruct (unsign_inr _ _ _ U) as [m [sg [ks0 [key [Ew [P [V [D Ek]]]]]]]]. subst ks.
      destruct j as [|a].
      + inversion H; subst. left. split; reflexivity.
      + destruct (stores (process keystr_eqb client subscribed (st_store st) (AJ a) (canon key))) eqn:S.
        * inversion H; subst. right. split; [exact S|]. exists key, a. split; [|split; reflexivity].
          exists m, sg, ks0. auto.
        * inversion H; subst. left. split; [exact S|reflexivity].
  Qed.

  (* a forged or malformed announcement is rejected whatever the state *)
  Lemma rejected_leaves_state_ok : forall w r, unsign w = inl r -> forall st, stp st w = (st, r).
  Proof. intros w r U st. unfold step. rewrite U. reflexivity. Qed.

  Lemma not_stored_leaves_state : forall st w, stores (snd (stp st w)) = false -> fst (stp st w) = st.
  Proof.
    intros st w H. destruct (stp st w) as [st' v] eqn:E. cbn in *.
    destruct (step_cases _ _ _ _ E) as [[_ Q]|[S _]]; [exact Q|congruence].
  Qed.

  (* ---- batches and streams are folds ---- *)
  Lemma got_app : forall b1 b2 st,
    got st (b1 ++ b2) = (fst (got (fst (got st b1)) b2), snd (got st b1) ++ snd (got (fst (got st b1)) b2)).
  Proof.
    induction b1 as [|w r IH]; intros b2 st; cbn [app got_announcements].
    - cbn. destruct (got st b2); reflexivity.
    - destruct (stp st w) as [st1 v] eqn:E. rewrite IH.
      destruct (got st1 r) as [st2 vs] eqn:G. cbn [fst snd].
      destruct (got st2 b2) as [st3 vs']; reflexivity.
  Qed.

  Lemma got_cons : forall w r st,
    got st (w :: r) = (fst (got (fst (stp st w)) r), snd (stp st w) :: snd (got (fst (stp st w)) r)).
  Proof.
    intros w r st. cbn [got_announcements]. destruct (stp st w) as [st1 v]. cbn [fst snd].
    destruct (got st1 r); reflexivity.
  Qed.

  Lemma run_concat : forall batches st, fst (run st batches) = fst (got st (concat batches)).
  Proof.
    induction batches as [|b r IH]; intros st; cbn [run_stream concat]; [reflexivity|].
    destruct (got st b) as [st1 vs] eqn:G. specialize (IH st1).
    destruct (run st1 r) as [st2 vss]. cbn [fst] in *. rewrite got_app, G. cbn [fst]. exact IH.
  Qed.

  Lemma bad_does_not_stop_batch_ok : forall st pre w post,
    (* every element after w is processed, from the state w left behind *)
    got st (pre ++ w :: post) =
      (fst (got (fst (stp (fst (got st pre)) w)) post),
       snd (got st pre) ++ snd (stp (fst (got st pre)) w) :: snd (got (fst (stp (fst (got st pre)) w)) post))
    /\
    (* and if w was not stored, the others fare exactly as if w had not been there *)
    (stores (snd (stp (fst (got st pre)) w)) = false ->
     fst (got st (pre ++ w :: post)) = fst (got st (pre ++ post))).
  Proof.
    intros st pre w post. split.
    - rewrite got_app, got_cons. reflexivity.
    - intros H. rewrite !got_app, got_cons. cbn [fst]. rewrite (not_stored_leaves_state _ _ H). reflexivity.
  Qed.

  (* ---- authenticity ---- *)
  Definition verified_in (ws : list wire) (svc : N) (ks : keystr) (a : ann) : Prop :=
    exists w key, In w ws /\ genuine w key a /\ ks = canon key /\ svc = a_service a.

  Definition state_verified (ws : list wire) (st : state) : Prop :=
    (forall (i : idx) a, In (i, a) (st_store st) -> verified_in ws (fst i) (snd i) a) /\
    (forall ks a, In (ks, a) (st_delivered st) -> verified_in ws (a_service a) ks a).

  Lemma verified_in_mono : forall ws ws' svc ks a, (forall w, In w ws -> In w ws') ->
    verified_in ws svc ks a -> verified_in ws' svc ks a.
  Proof.
    intros ws ws' svc ks a Inc [w [key [I R]]]. exists w, key. split; [apply Inc; exact I|exact R].
  Qed.

  Lemma step_verified : forall ws st w st' v,
    state_verified ws st -> stp st w = (st', v) -> state_verified (ws ++ [w]) st'.
  Proof.
    intros ws st w st' v [HS HD] E.
    assert (Inc : forall x, In x ws -> In x (ws ++ [w])) by (intros x Ix; apply in_or_app; auto).
    destruct (step_cases _ _ _ _ E) as [[_ ->]|[_ [key [a [G [_ ->]]]]]].
    - split; intros; eapply verified_in_mono; eauto.
    - split; cbn [st_store st_delivered].
      + intros i b I. apply in_update in I. destruct I as [[-> ->]|I].
        * exists w, key. split; [apply in_or_app; right; cbn; auto|]. cbn. auto.
        * eapply verified_in_mono; eauto.
      + intros ks b I. apply in_app_or in I. destruct I as [I|[I|[]]].
        * eapply verified_in_mono; eauto.
        * inversion I; subst. exists w, key. split; [apply in_or_app; right; cbn; auto|]. auto.
  Qed.

  Lemma got_verified : forall batch ws st,
    state_verified ws st -> state_verified (ws ++ batch) (fst (got st batch)).
  Proof.
    induction batch as [|w r IH]; intros ws st H.
    - cbn. rewrite app_nil_r. exact H.
    - rewrite got_cons. cbn [fst]. destruct (stp st w) as [st1 v] eqn:E. cbn [fst].
      replace (ws ++ w :: r) with ((ws ++ [w]) ++ r) by (rewrite <- app_assoc; reflexivity).
      apply IH. eapply step_verified; eauto.
  Qed.

  Lemma stored_only_if_verified_ok : forall batches,
    state_verified (concat batches) (fst (run empty_state batches)).
  Proof.
    intros batches. rewrite run_concat.
    apply (got_verified (concat batches) [] empty_state).
    split; intros ? ? [].
  Qed.

  Lemma attributed_to_signer_ok : forall (signed : pubkey -> msg -> Prop) batches,
    sig_sound verify signed ->
    (forall (i : idx) a, In (i, a) (st_store (fst (run empty_state batches))) ->
       exists key m, snd i = canon key /\ fst i = a_service a /\ signed key m /\ decode m = Some (AJ a)) /\
    (forall ks a, In (ks, a) (st_delivered (fst (run empty_state batches))) ->
       exists key m, ks = canon key /\ signed key m /\ decode m = Some (AJ a)).
  Proof.
    intros signed batches S. destruct (stored_only_if_verified_ok batches) as [HS HD]. split.
    - intros i a I. destruct (HS i a I) as [w [key [_ [[m [sg [ks0 [_ [_ [V D]]]]]] [Ek Es]]]]].
      exists key, m. split; [exact Ek|]. split; [exact Es|]. split; [eapply S; exact V|exact D].
    - intros ks a I. destruct (HD ks a I) as [w [key [_ [[m [sg [ks0 [_ [_ [V D]]]]]] [Ek _]]]]].
      exists key, m. split; [exact Ek|]. split; [eapply S; exact V|exact D].
  Qed.

  (* ---- freshness ---- *)
  (* what may follow `old` at the same index *)
  Definition advance (old new : ann) : Prop :=
    new = old \/
    match a_seq old with
    | SAbsent => True
    | SInt o | SHalf o => exists n, a_seq new = SInt n /\ (o < n)%Z
    | SOther => False
    end.

  Lemma advance_refl : forall a, advance a a.
  Proof. intros a. left. reflexivity. Qed.

  Lemma advance_trans : forall a b c, advance a b -> advance b c -> advance a c.
  Proof.
    intros a b c [->|H1] H2; [exact H2|].
    destruct H2 as [->|H2]; [right; exact H1|].
    right. destruct (a_seq a) as [|o|o|]; auto.
    - destruct H1 as [n [E L]]. rewrite E in H2. destruct H2 as [n' [E' L']]. exists n'. split; [exact E'|lia].
    - destruct H1 as [n [E L]]. rewrite E in H2. destruct H2 as [n' [E' L']]. exists n'. split; [exact E'|lia].
  Qed.

  Lemma seq_check_update : forall old new, seq_check old new = PUpdate ->
    match old with
    | SAbsent => True
    | SInt o | SHalf o => exists n, new = SInt n /\ (o < n)%Z
    | SOther => False
    end.
  Proof.
    intros old new H. destruct old as [|o|o|]; cbn in H; auto.
    - destruct new as [|n|n|]; try discriminate. destruct (n <=? o)%Z eqn:L; [discriminate|].
      exists n. split; [reflexivity|]. apply Z.leb_gt in L. exact L.
    - destruct new as [|n|n|]; try discriminate. destruct (n <=? o)%Z eqn:L; [discriminate|].
      exists n. split; [reflexivity|]. apply Z.leb_gt in L. exact L.
    - destruct new; discriminate.
  Qed.

  Lemma seq_check_not_new : forall old new, seq_check old new <> PNew.
  Proof.
    intros [|o|o|] [|n|n|]; cbn; try discriminate; destruct (n <=? o)%Z; discriminate.
  Qed.

  Lemma step_advance : forall (st : state) w st' v (i : idx) old,
    stp st w = (st', v) -> look (st_store st) i = Some old ->
    exists new, look (st_store st') i = Some new /\ advance old new.
  Proof.
    intros st w st' v i old E L.
    destruct (step_cases _ _ _ _ E) as [[_ ->]|[S [key [a [_ [Ev ->]]]]]].
    - exists old. split; [exact L|apply advance_refl].
    - cbn [st_store].
      destruct (index_eqb keystr keystr_eqb (a_service a, canon key) i) eqn:EI.
      + apply index_eqb_eq in EI. subst i. exists a. split; [apply lookup_update_same|].
        rewrite Ev in S. unfold process in S. rewrite L in S.
        destruct (client && negb (subscribed (a_service a))); [discriminate|].
        destruct (client && negb (a_desc_ok a)); [discriminate|].
        destruct (ann_eqb old a) eqn:Q; [discriminate|].
        right. destruct (seq_check (a_seq old) (a_seq a)) eqn:C; try discriminate.
        * exfalso. exact (seq_check_not_new _ _ C).
        * apply seq_check_update in C. exact C.
      + exists old. split; [|apply advance_refl].
        rewrite lookup_update_other; [exact L|].
        intros Q. rewrite Q, index_eqb_refl in EI. discriminate.
  Qed.

  Lemma got_advance : forall batch (st : state) (i : idx) old,
    look (st_store st) i = Some old ->
    exists new, look (st_store (fst (got st batch))) i = Some new /\ advance old new.
  Proof.
    induction batch as [|w r IH]; intros st i old L.
    - exists old. split; [exact L|apply advance_refl].
    - rewrite got_cons. cbn [fst]. destruct (stp st w) as [st1 v] eqn:E. cbn [fst].
      destruct (step_advance _ _ _ _ _ _ E L) as [mid [L1 A1]].
      destruct (IH st1 i mid L1) as [new [L2 A2]].
      exists new. split; [exact L2|eapply advance_trans; eauto].
  Qed.

  Lemma seqnum_strictly_increases_ok : forall batches1 batches2 (i : idx) old,
    look (st_store (fst (run empty_state batches1))) i = Some old ->
    exists new, look (st_store (fst (run empty_state (batches1 ++ batches2)))) i = Some new /\ advance old new.
  Proof.
    intros b1 b2 i old L. rewrite run_concat in *. rewrite concat_app, got_app. cbn [fst].
    apply got_advance. exact L.
  Qed.

  (* connection loss / reconnection between batches changes nothing that was accepted *)
  Lemma run_events_batches : forall evs st,
    run_events verify parse_key canon decode keystr_eqb client subscribed st evs = run st (batches_of evs).
  Proof.
    induction evs as [|[b|] r IH]; intros st; cbn [run_events batches_of run_stream]; [reflexivity| |apply IH].
    destruct (got st b) as [st1 vs]. rewrite IH. reflexivity.
  Qed.

  Lemma batches_of_app : forall (e1 e2 : list (event keystr msg sig)), batches_of (e1 ++ e2) = batches_of e1 ++ batches_of e2.
  Proof.
    induction e1 as [|[b|] r IH]; intros e2; cbn [app batches_of]; [reflexivity| |apply IH]. rewrite IH. reflexivity.
  Qed.

  Lemma seqnum_survives_reconnects_ok : forall evs1 evs2 (i : idx) old,
    look (st_store (fst (run_events verify parse_key canon decode keystr_eqb client subscribed empty_state evs1))) i = Some old ->
    exists new,
      look (st_store (fst (run_events verify parse_key canon decode keystr_eqb client subscribed empty_state (evs1 ++ evs2)))) i = Some new /\
      advance old new.
  Proof.
    intros e1 e2 i old L. rewrite run_events_batches in *. rewrite batches_of_app.
    apply seqnum_strictly_increases_ok. exact L.
  Qed.

  (* ---- late subscribers ---- *)
  Definition unique_indices (st : store keystr) : Prop := NoDup (map fst st).

  Lemma update_indices : forall st (i j : idx) a, In j (map fst (upd st i a)) <-> j = i \/ In j (map fst st).
  Proof.
    induction st as [|[k c] r IH]; intros i j a; cbn [update map In fst].
    - split; [intros [H|[]]; auto|intros [H|[]]; auto].
    - destruct (index_eqb keystr keystr_eqb i k) eqn:E; cbn [map In fst].
      + apply index_eqb_eq in E. subst k. split; [intros [H|H]; auto|intros [H|[H|H]]; auto].
      + rewrite IH. split; [intros [H|[H|H]]; auto|intros [H|[H|H]]; auto].
  Qed.

  Lemma update_unique : forall st (i : idx) a, unique_indices st -> unique_indices (upd st i a).
  Proof.
    unfold unique_indices. induction st as [|[k c] r IH]; intros i a ND; cbn [update map fst].
    - constructor; [intros []|constructor].
    - inversion ND as [|? ? NI ND']; subst.
      destruct (index_eqb keystr keystr_eqb i k) eqn:E; cbn [map fst].
      + constructor; assumption.
      + constructor; [|apply IH; exact ND'].
        intros I. apply update_indices in I. destruct I as [->|I]; [|contradiction].
        rewrite index_eqb_refl in E. discriminate.
  Qed.

  Lemma step_unique : forall (st : state) w st' v, stp st w = (st', v) ->
    unique_indices (st_store st) -> unique_indices (st_store st').
  Proof.
    intros st w st' v E U. destruct (step_cases _ _ _ _ E) as [[_ ->]|[_ [key [a [_ [_ ->]]]]]]; [exact U|].
    cbn [st_store]. apply update_unique. exact U.
  Qed.

  Lemma got_unique : forall batch (st : state), unique_indices (st_store st) -> unique_indices (st_store (fst (got st batch))).
  Proof.
    induction batch as [|w r IH]; intros st U; [exact U|].
    rewrite got_cons. cbn [fst]. destruct (stp st w) as [st1 v] eqn:E. cbn [fst].
    apply IH. eapply step_unique; eauto.
  Qed.

  Lemma lookup_iff_in : forall st (i : idx) a, unique_indices st -> (look st i = Some a <-> In (i, a) st).
  Proof.
    unfold unique_indices. induction st as [|[k c] r IH]; intros i a ND; cbn [lookup In].
    - split; [discriminate|intros []].
    - inversion ND as [|? ? NI ND']; subst.
      destruct (index_eqb keystr keystr_eqb i k) eqn:E.
      + apply index_eqb_eq in E. subst k. split.
        * intros H. inversion H. auto.
        * intros [H|H]; [inversion H; reflexivity|]. exfalso. apply NI. apply in_map_iff. exists (i, a). auto.
      + rewrite (IH i a ND'). split; [auto|].
        intros [H|H]; [|exact H]. inversion H; subst. rewrite index_eqb_refl in E. discriminate.
  Qed.

  (* what a late subscriber of service svc is told: for each key exactly the announcement held for (svc, key) *)
  Lemma late_subscriber_gets_current_ok : forall evs svc ks a,
    let st := fst (run_events verify parse_key canon decode keystr_eqb client subscribed empty_state evs) in
    In (ks, a) (backlog st svc) <-> look (st_store st) (svc, ks) = Some a.
  Proof.
    intros evs svc ks a st.
    assert (U : unique_indices (st_store st)).
    { unfold st. rewrite run_events_batches, run_concat. apply got_unique. constructor. }
    rewrite (lookup_iff_in _ _ _ U). unfold backlog. rewrite in_map_iff. split.
    - intros [[[s k] b] [Q I]]. cbn in Q. inversion Q; subst. apply filter_In in I. destruct I as [I E].
      cbn in E. apply N.eqb_eq in E. subst s. exact I.
    - intros I. exists ((svc, ks), a). split; [reflexivity|]. apply filter_In. split; [exact I|]. cbn. apply N.eqb_refl.
  Qed.

  (* reading `advance` for integer sequence numbers *)
  Lemma advance_int : forall old new o, advance old new -> a_seq old = SInt o ->
    exists n, a_seq new = SInt n /\ (o <= n)%Z /\ (n = o -> new = old).
  Proof.
    intros old new o [->|H] E.
    - exists o. split; [exact E|]. split; [lia|reflexivity].
    - rewrite E in H. destruct H as [n [En L]]. exists n. split; [exact En|]. split; lia.
  Qed.

  (* the decision for a correctly signed announcement at an occupied index *)
  Lemma replace_rule_ok : forall st key a old,
    (client = true -> subscribed (a_service a) = true /\ a_desc_ok a = true) ->
    look st (a_service a, canon key) = Some old ->
    forall o, a_seq old = SInt o ->
      process keystr_eqb client subscribed st (AJ a) (canon key) =
        if ann_eqb old a then PDuplicate
        else match a_seq a with
             | SInt n => if (n <=? o)%Z then PTooOld else PUpdate
             | _ => PNoValidSeq
             end.
  Proof.
    intros st key a old Hc L o E. unfold process. rewrite L.
    destruct client.
    - destruct (Hc eq_refl) as [-> ->]. cbn. rewrite E. destruct (ann_eqb old a); [reflexivity|].
      cbn. destruct (a_seq a); reflexivity.
    - cbn. rewrite E. destruct (ann_eqb old a); [reflexivity|]. cbn. destruct (a_seq a); reflexivity.
  Qed.
End Proofs.

Lemma stored_only_if_verified_full :
  forall (pubkey keystr msg sig : Type) (verify : pubkey -> msg -> sig -> bool)
         (parse_key : keystr -> option pubkey) (canon : pubkey -> keystr) (decode : msg -> option ann_json)
         (keystr_eqb : keystr -> keystr -> bool),
    (forall a b, keystr_eqb a b = true <-> a = b) ->
    forall (client : bool) (subscribed : N -> bool) (batches : list (list (wire keystr msg sig))),
    let final := fst (run_stream verify parse_key canon decode keystr_eqb client subscribed empty_state batches) in
    (forall svc ks a, In ((svc, ks), a) (st_store final) ->
       exists w key m sg ks0,
         In w (concat batches) /\ w = WTriple m (SfOk sg) (KfOk ks0) /\ parse_key ks0 = Some key /\
         verify key m sg = true /\ decode m = Some (AJ a) /\ ks = canon key /\ svc = a_service a) /\
    (forall ks a, In (ks, a) (st_delivered final) ->
       exists w key m sg ks0,
         In w (concat batches) /\ w = WTriple m (SfOk sg) (KfOk ks0) /\ parse_key ks0 = Some key /\
         verify key m sg = true /\ decode m = Some (AJ a) /\ ks = canon key).
Proof.
  intros pubkey keystr msg sig verify parse_key canon decode keystr_eqb Heq client subscribed batches final.
  destruct (stored_only_if_verified_ok pubkey keystr msg sig verify parse_key canon decode keystr_eqb Heq client subscribed batches)
    as [HS HD].
  split.
  - intros svc ks a I. destruct (HS (svc, ks) a I) as [w [key [Iw [[m [sg [ks0 [Ew [P [V D]]]]]] [Ek Es]]]]].
    exists w, key, m, sg, ks0. cbn in Ek, Es. auto 10.
  - intros ks a I. destruct (HD ks a I) as [w [key [Iw [[m [sg [ks0 [Ew [P [V D]]]]]] [Ek Es]]]]].
    exists w, key, m, sg, ks0. auto 10.
Qed.

Lemma seqnum_never_replaced_by_lower_or_equal_full :
  forall (pubkey keystr msg sig : Type) (verify : pubkey -> msg -> sig -> bool)
         (parse_key : keystr -> option pubkey) (canon : pubkey -> keystr) (decode : msg -> option ann_json)
         (keystr_eqb : keystr -> keystr -> bool),
    (forall a b, keystr_eqb a b = true <-> a = b) ->
    forall (client : bool) (subscribed : N -> bool) (batches1 batches2 : list (list (wire keystr msg sig)))
           (i : index keystr) (old : ann) (o : Z),
    lookup keystr_eqb
      (st_store (fst (run_stream verify parse_key canon decode keystr_eqb client subscribed empty_state batches1))) i = Some old ->
    a_seq old = SInt o ->
    exists new n,
      lookup keystr_eqb
        (st_store (fst (run_stream verify parse_key canon decode keystr_eqb client subscribed empty_state (batches1 ++ batches2)))) i
        = Some new /\
      a_seq new = SInt n /\ (o <= n)%Z /\ (n = o -> new = old).
Proof.
  intros pubkey keystr msg sig verify parse_key canon decode keystr_eqb Heq client subscribed b1 b2 i old o L E.
  destruct (seqnum_strictly_increases_ok pubkey keystr msg sig verify parse_key canon decode keystr_eqb Heq
              client subscribed b1 b2 i old L) as [new [L' A]].
  destruct (advance_int old new o A E) as [n [En [Le Eq]]].
  exists new, n. auto.
Qed.

Lemma replace_rule_full :
  forall (pubkey keystr : Type) (canon : pubkey -> keystr) (keystr_eqb : keystr -> keystr -> bool)
         (client : bool) (subscribed : N -> bool) (st : store keystr) (key : pubkey) (a old : ann),
    (client = true -> subscribed (a_service a) = true /\ a_desc_ok a = true) ->
    lookup keystr_eqb st (a_service a, canon key) = Some old ->
    forall o, a_seq old = SInt o ->
      process keystr_eqb client subscribed st (AJ a) (canon key) =
        if ann_eqb old a then PDuplicate
        else match a_seq a with
             | SInt n => if (n <=? o)%Z then PTooOld else PUpdate
             | _ => PNoValidSeq
             end.
Proof. intros pubkey keystr canon. exact (replace_rule_ok pubkey keystr canon). Qed.

Lemma bad_announcement_does_not_stop_batch_full :
  forall (pubkey keystr msg sig : Type) (verify : pubkey -> msg -> sig -> bool)
         (parse_key : keystr -> option pubkey) (canon : pubkey -> keystr) (decode : msg -> option ann_json)
         (keystr_eqb : keystr -> keystr -> bool),
    (forall a b, keystr_eqb a b = true <-> a = b) ->
    forall (client : bool) (subscribed : N -> bool) (st : state keystr) (pre : list (wire keystr msg sig))
           (w : wire keystr msg sig) (post : list (wire keystr msg sig)),
    let got := got_announcements verify parse_key canon decode keystr_eqb client subscribed in
    let stp := step verify parse_key canon decode keystr_eqb client subscribed in
    got st (pre ++ w :: post) =
      (fst (got (fst (stp (fst (got st pre)) w)) post),
       snd (got st pre) ++ snd (stp (fst (got st pre)) w) :: snd (got (fst (stp (fst (got st pre)) w)) post))
    /\ (forall r, unsign_from_foolscap verify parse_key canon decode w = inl r -> forall s, stp s w = (s, r))
    /\ (stores (snd (stp (fst (got st pre)) w)) = false ->
        fst (got st (pre ++ w :: post)) = fst (got st (pre ++ post))).
Proof.
  intros pubkey keystr msg sig verify parse_key canon decode keystr_eqb Heq client subscribed st pre w post got stp.
  destruct (bad_does_not_stop_batch_ok pubkey keystr msg sig verify parse_key canon decode keystr_eqb
              client subscribed st pre w post) as [A B].
  split; [exact A|]. split; [|exact B].
  intros r U s. apply rejected_leaves_state_ok. exact U.
Qed.
