(* C39: the invariant holds in every reachable configuration; the four theorems. *)
From Coq Require Import List NArith Bool Lia.
From Verif Require Import Model.Overwrite Proofs.OverwriteLists Proofs.Overwrite.
Import ListNotations.
Local Open Scope N_scope.

Section Run.
Variable g : N -> N.
Variable O : list N.
Variable d0 : N.
Hypothesis Hd0 : d0 <= len O.

(* ---------- core invariant of configurations ---------- *)
Record CInv (c : cfg) : Prop := mkCInv {
  ci_core : Core O (st c) (ref c);
  ci_d0 : dsize (st c) <= d0;
  ci_pos : closed (st c) = false -> dl (st c) < dsize (st c) -> pos c = dl (st c)
}.

Lemma init_inv : CInv (init_cfg O d0).
Proof.
  constructor; simpl; [|lia|intros; reflexivity].
  constructor; simpl.
  - rewrite len_take. lia.
  - lia.
  - rewrite len_nil. lia.
  - constructor.
  - constructor.
  - split; [|split].
    + intros i _ [H | H]; [lia | destruct (inow_nil _ H)].
    + intros; lia.
    + intros i Hi _. rewrite get_take. destruct (N.ltb_spec i d0); [reflexivity | lia].
  - discriminate.
Qed.

Definition guard_finish (c : cfg) (o : op) : Prop :=
  match o with Finish => d0 <= pos c | _ => True end.

Lemma chunk_data c n k :
  k < len (take n (drop (pos c) O)) -> get (take n (drop (pos c) O)) k = get O (pos c + k).
Proof.
  intro H. rewrite len_take in H. rewrite get_take, get_drop.
  destruct (N.ltb_spec k n); [reflexivity | lia].
Qed.

Lemma finish_cov c :
  CInv c -> d0 <= pos c -> closed (st c) = false -> forall i, i < dsize (st c) -> covered (st c) i.
Proof.
  intros [HC Hd Hp] Hg Hcl i Hi. left.
  destruct (N.lt_ge_cases (dl (st c)) (dsize (st c))) as [Hlt | Hge]; [|lia].
  specialize (Hp Hcl Hlt). lia.
Qed.

(* what a step does to the fields the invariants talk about *)
Record StepFacts (c c' : cfg) : Prop := mkSF {
  sf_closed : closed (st c) = true -> closed (st c') = true;
  sf_exps : forall x, In x (exps c) -> In x (exps c')
}.

Lemma close_core s ref : Core O s ref -> Core O (close s) ref.
Proof.
  intro HC. unfold close. apply dd_core.
  - destruct HC as [H1 H2 H2' H3 H4 H5 H6]. constructor; simpl; auto. intros _ Hx. discriminate.
  - simpl. intro Hx. discriminate.
Qed.

Lemma close_closed s : closed (close s) = true.
Proof. unfold close. destruct (dd_proj (set_closed s true)) as (_ & _ & _ & _ & _ & E & _). rewrite E. reflexivity. Qed.

Lemma step_inv c o c' :
  CInv c -> guard_finish c o -> step g O c o = Some c' -> CInv c'.
Proof.
  intros [HC Hd Hp] Hg Hs. destruct o; simpl in Hs.
  - (* Chunk *)
    destruct (write g (st c) (take n (drop (pos c) O))) as [s'|] eqn:Hw; [|discriminate].
    inversion Hs; subst c'. clear Hs.
    destruct (write_ok g O (ref c) (st c) _ s' (pos c) HC Hp (chunk_data c n) Hw)
      as (P1 & _ & P3 & P4 & P5 & _ & _ & _ & P9).
    constructor; simpl; [exact P1 | lia |].
    intros H1 H2. apply P9; assumption.
  - (* Overwrite *)
    destruct (closed (st c)) eqn:Hcl.
    + inversion Hs; subst c'. constructor; auto; intros; congruence.
    + inversion Hs; subst c'. clear Hs.
      destruct (overwrite_ok g O (ref c) (st c) off data HC) as (P1 & P2 & P3 & _ & _ & _ & P7 & _).
      constructor; simpl; [exact P1 | lia |]. rewrite P2, P3. intros _ Hx. apply Hp; auto.
  - (* SetSize *)
    destruct (closed (st c)) eqn:Hcl.
    + inversion Hs; subst c'. constructor; auto; intros; congruence.
    + inversion Hs; subst c'. clear Hs.
      destruct (setsize_ok g O (ref c) (st c) size HC) as (P1 & P2 & P3 & P4 & _).
      constructor; simpl; [exact P1 | lia |]. rewrite P2. intros _ H2. apply Hp; [reflexivity | lia].
  - (* Read *)
    unfold read in Hs. destruct (closed (st c)) eqn:Hcl.
    { inversion Hs; subst c'. constructor; simpl; auto; intros; congruence. }
    destruct (cur (st c) <=? off).
    { inversion Hs; subst c'. constructor; simpl; auto; intros; congruence. }
    destruct (done (st c)).
    { inversion Hs; subst c'. constructor; simpl; auto; intros; congruence. }
    match type of Hs with context [if ?b then _ else _] => destruct b end.
    { inversion Hs; subst c'. constructor; simpl; auto; intros; congruence. }
    inversion Hs; subst c'. clear Hs. constructor; simpl; auto.
    destruct HC as [H1 H2 H2' H3 H4 H5 H6]. constructor; simpl; auto. intros; discriminate.
  - (* Turn *)
    inversion Hs; subst c'. clear Hs. constructor; simpl; auto.
    destruct HC as [H1 H2 H2' H3 H4 H5 H6]. constructor; simpl; auto.
  - (* TurnOne *)
    destruct (fired (st c)) as [|r rest]; inversion Hs; subst c'; clear Hs; [constructor; auto|].
    constructor; simpl; auto.
    destruct HC as [H1 H2 H2' H3 H4 H5 H6]. constructor; simpl; auto.
  - (* Finish *)
    inversion Hs; subst c'. clear Hs. simpl in Hg.
    destruct (dd_proj (st c)) as (E1 & E2 & E3 & E4 & E5 & E6 & E7).
    constructor; simpl.
    + apply dd_core; [exact HC|]. intros Hcl. apply finish_cov; [constructor; assumption | exact Hg | exact Hcl].
    + rewrite E3. exact Hd.
    + rewrite E6, E4, E3. exact Hp.
  - (* Close *)
    destruct (closed (st c)) eqn:Hcl.
    + inversion Hs; subst c'. constructor; auto; intros; congruence.
    + inversion Hs; subst c'. clear Hs. constructor; simpl.
      * apply close_core. exact HC.
      * unfold close. destruct (dd_proj (set_closed (st c) true)) as (_ & _ & E3 & _). rewrite E3. simpl. exact Hd.
      * rewrite close_closed. discriminate.
Qed.

Lemma step_total c o : exists c', step g O c o = Some c'.
Proof.
  destruct o; simpl; eauto.
  - destruct (write_total g (st c) (take n (drop (pos c) O))) as [s' Hs']. rewrite Hs'. eauto.
  - destruct (closed (st c)); eauto.
  - destruct (closed (st c)); eauto.
  - destruct (read (st c) (nid c) off length); eauto.
  - destruct (fired (st c)); eauto.
  - destruct (closed (st c)); eauto.
Qed.

Lemma run_from_total : forall l c, exists c', run_from g O c l = Some c'.
Proof.
  induction l as [|o l IH]; intro c; simpl; [eauto|].
  destruct (step_total c o) as [c1 H1]. rewrite H1. apply IH.
Qed.

Lemma finish_ok_inv : forall l c c',
  CInv c -> finish_ok_from g O d0 c l = true -> run_from g O c l = Some c' -> CInv c'.
Proof.
  induction l as [|o l IH]; intros c c' HI Hf Hr; simpl in *.
  - inversion Hr; subst. exact HI.
  - apply andb_prop in Hf. destruct Hf as [Hf1 Hf2].
    destruct (step g O c o) as [c1|] eqn:Hs; [|discriminate].
    apply (IH c1 c'); auto. apply (step_inv c o c1); auto.
    unfold guard_finish. destruct o; auto. apply N.leb_le. exact Hf1.
Qed.

(* ---------- reads ---------- *)
Record RC (c : cfg) : Prop := mkRC {
  rc_R : RInv (st c);
  rc_X : closed (st c) = false -> forall r, outst (st c) r ->
         In (rid r, RData (fread (ref c) (roff r) (rlen r))) (exps c);
  rc_out : forall id res, In (id, res) (outs c) ->
           In (id, res) (exps c) \/ (res = RFail /\ closed (st c) = true)
}.

Definition guard_contract (c : cfg) (o : op) : Prop :=
  match o with
  | Overwrite _ _ | SetSize _ => quiescent (st c) = true \/ closed (st c) = true
  | _ => True
  end.

Lemma quiescent_nil s : quiescent s = true -> ms s = [] /\ fired s = [].
Proof. unfold quiescent. destruct (ms s); destruct (fired s); intro; try discriminate; auto. Qed.

Lemma RInv_nil s : ms s = [] -> fired s = [] -> RInv s.
Proof. unfold RInv. intros E1 E2 _. rewrite E1, E2. split; [intros n r [] | intros r []]. Qed.

Lemma outst_nil s r : ms s = [] -> fired s = [] -> ~ outst s r.
Proof. unfold outst. intros E1 E2 [H | [n H]]; [rewrite E2 in H | rewrite E1 in H]; destruct H. Qed.

(* the bytes a read returns, given that its range is good *)
Lemma fread_ref s ref off n :
  Core O s ref -> off + n <= cur s ->
  (forall i, off <= i < off + n -> i < dsize s -> covered s i) ->
  fread (f s) off n = fread ref off n.
Proof.
  intros [H1 H2 H2' H3 H4 (I1 & I2 & I3) H6] Hle Hc. unfold fread. apply take_drop_ext.
  intros j Hj. destruct (N.lt_ge_cases (off + j) (dsize s)).
  - apply I1; [lia|]. apply Hc; lia.
  - apply I2; lia.
Qed.

Lemma clip_read (ref : list N) off length c :
  c = len ref -> off < c ->
  RData (fread ref off (if c <? off + length then c - off else length)) = ref_read ref off length.
Proof.
  intros Hc Ho. unfold ref_read, fread. destruct (N.leb_spec (len ref) off); [lia|]. f_equal.
  destruct (N.ltb_spec c (off + length)); [|reflexivity].
  rewrite !take_all; [reflexivity | rewrite len_drop; lia | rewrite len_drop; lia].
Qed.

Lemma in_ms_insert x l y : In y (ms_insert x l) <-> y = x \/ In y l.
Proof.
  induction l as [|z r IH]; simpl.
  - intuition.
  - destruct (fst x <? fst z); simpl; rewrite ?IH; intuition.
Qed.

Lemma closed_cases s : closed s = true \/ closed s = false.
Proof. destruct (closed s); auto. Qed.

Lemma step_rc c o c' :
  CInv c -> RC c -> guard_finish c o -> guard_contract c o -> step g O c o = Some c' ->
  RC c' /\ StepFacts c c'.
Proof.
  intros HI HRC Hg Hk Hs.
  assert (RC c /\ StepFacts c c) as Hsame by (split; [exact HRC | constructor; auto]).
  destruct HRC as [HR HX HO]. pose proof HI as [HC Hd Hp]. destruct o; simpl in Hs.
  - (* Chunk *)
    destruct (write g (st c) (take n (drop (pos c) O))) as [s'|] eqn:Hw; [|discriminate].
    inversion Hs; subst c'. clear Hs.
    destruct (write_ok g O (ref c) (st c) _ s' (pos c) HC Hp (chunk_data c n) Hw)
      as (P1 & P2 & P3 & P4 & P5 & P6 & P7 & P8 & P9).
    split; [constructor; simpl | constructor; simpl; auto; congruence].
    + auto.
    + intros Hcl r Hr. apply HX; [congruence | auto].
    + intros id res Hin. destruct (HO id res Hin) as [H | [H1 H2]]; [left; exact H | right; split; congruence].
  - (* Overwrite *)
    destruct (closed_cases (st c)) as [Hcl | Hcl]; rewrite Hcl in Hs.
    + inversion Hs; subst c'. exact Hsame.
    + inversion Hs; subst c'. clear Hs. simpl in Hk. destruct Hk as [Hq | Hq]; [|congruence].
      apply quiescent_nil in Hq. destruct Hq as [Q1 Q2].
      destruct (overwrite_ok g O (ref c) (st c) off data HC) as (P1 & P2 & P3 & P4 & P5 & P6 & P7 & _).
      split; [constructor; simpl | constructor; simpl; auto; congruence].
      * apply RInv_nil; congruence.
      * intros _ r Hr. exfalso. revert Hr. apply outst_nil; congruence.
      * intros id res Hin. destruct (HO id res Hin) as [H | [H1 H2]]; [left; exact H | right; split; congruence].
  - (* SetSize *)
    destruct (closed_cases (st c)) as [Hcl | Hcl]; rewrite Hcl in Hs.
    + inversion Hs; subst c'. exact Hsame.
    + inversion Hs; subst c'. clear Hs. simpl in Hk. destruct Hk as [Hq | Hq]; [|congruence].
      apply quiescent_nil in Hq. destruct Hq as [Q1 Q2].
      destruct (setsize_ok g O (ref c) (st c) size HC) as (P1 & P2 & P3 & P4 & P5 & P6 & P7).
      destruct (P7 Q1 Q2) as [Q1' Q2'].
      split; [constructor; simpl | constructor; simpl; auto; congruence].
      * apply RInv_nil; assumption.
      * intros _ r Hr. exfalso. revert Hr. apply outst_nil; assumption.
      * intros id res Hin. destruct (HO id res Hin) as [H | [H1 H2]]; [left; exact H | right; split; congruence].
  - (* Read *)
    assert (forall x, In x (exps c) -> In x (exps c ++ [(nid c, ref_read (ref c) off length)])) as Hexp
      by (intros; apply in_or_app; auto).
    assert (forall e id res, In (id, res) (outs c) ->
            In (id, res) (exps c ++ [e]) \/ res = RFail /\ closed (st c) = true) as Hold.
    { intros e id res Hin. destruct (HO id res Hin) as [H | H]; [left; apply in_or_app; auto | right; exact H]. }
    unfold read in Hs. destruct (closed_cases (st c)) as [Hcl | Hcl]; rewrite Hcl in Hs.
    { inversion Hs; subst c'. split; [constructor; simpl | constructor; simpl; auto].
      - exact HR.
      - intro Hx. congruence.
      - intros id res Hin. apply in_app_or in Hin. destruct Hin as [Hin | [Hin | []]]; [apply Hold; exact Hin|].
        inversion Hin; subst. right. auto. }
    destruct HC as [H1 H2 H2' H3 H4 H5 H6].
    destruct (N.leb_spec (cur (st c)) off) as [Heof | Hoff].
    { inversion Hs; subst c'. split; [constructor; simpl | constructor; simpl; auto].
      - exact HR.
      - intros Hx r Hr. apply Hexp. apply HX; assumption.
      - intros id res Hin. apply in_app_or in Hin. destruct Hin as [Hin | [Hin | []]]; [apply Hold; exact Hin|].
        inversion Hin; subst. left. apply in_or_app. right. left. f_equal.
        unfold ref_read. destruct (N.leb_spec (len (ref c)) off); [reflexivity | lia]. }
    set (length' := if cur (st c) <? off + length then cur (st c) - off else length) in *.
    assert (off + length' <= cur (st c)) as Hlen by (unfold length'; destruct (N.ltb_spec (cur (st c)) (off + length)); lia).
    assert (RData (fread (ref c) off length') = ref_read (ref c) off length) as Hclip
      by (apply clip_read; [exact H1 | exact Hoff]).
    assert (forall s, closed s = false -> cur s = cur (st c) -> f s = f (st c) ->
            (forall i, off <= i < off + length' -> i < dsize (st c) -> covered (st c) i) ->
            do_read s (mkRd (nid c) off length') = ref_read (ref c) off length) as Hsync.
    { intros s E1 E2 E3 Hcv. unfold do_read. rewrite E1. simpl. rewrite E2, E3.
      destruct (N.ltb_spec (cur (st c)) (off + length')); [lia|].
      rewrite <- Hclip. f_equal. apply fread_ref; [constructor; assumption | exact Hlen | exact Hcv]. }
    destruct (done (st c)) eqn:Hdone.
    { inversion Hs; subst c'. split; [constructor; simpl | constructor; simpl; auto].
      - exact HR.
      - intros Hx r Hr. apply Hexp. apply HX; assumption.
      - intros id res Hin. apply in_app_or in Hin. destruct Hin as [Hin | [Hin | []]]; [apply Hold; exact Hin|].
        inversion Hin; subst. left. apply in_or_app. right. left. f_equal. symmetry.
        apply Hsync; auto. }
    destruct (N.leb_spec (N.min (off + length') (dsize (st c))) (dl (st c))) as [Hnow | Hlater].
    { inversion Hs; subst c'. split; [constructor; simpl | constructor; simpl; auto].
      - exact HR.
      - intros Hx r Hr. apply Hexp. apply HX; assumption.
      - intros id res Hin. apply in_app_or in Hin. destruct Hin as [Hin | [Hin | []]]; [apply Hold; exact Hin|].
        inversion Hin; subst. left. apply in_or_app. right. left. f_equal. symmetry.
        apply Hsync; auto. intros i Hi1 Hi2. left. lia. }
    inversion Hs; subst c'. clear Hs. split; [constructor; simpl | constructor; simpl; auto].
    + unfold RInv in *. simpl. intro Hx. destruct (HR Hcl) as [HM HF]. split; [|exact HF].
      intros n r Hin. apply in_ms_insert in Hin. destruct Hin as [Hin | Hin]; [|apply HM; exact Hin].
      inversion Hin; subst. simpl. split; [exact Hlen | lia].
    + intros Hx r Hr. unfold outst in Hr. simpl in Hr. destruct Hr as [Hr | [n Hr]].
      * apply Hexp. apply HX; [exact Hcl | left; exact Hr].
      * apply in_ms_insert in Hr. destruct Hr as [Hr | Hr].
        -- inversion Hr; subst. simpl. apply in_or_app. right. left. f_equal. symmetry. exact Hclip.
        -- apply Hexp. apply HX; [exact Hcl | right; exists n; exact Hr].
    + intros id res Hin. destruct (Hold (nid c, ref_read (ref c) off length) id res Hin) as [H | [Ha Hb]]; [left; exact H | congruence].
    + congruence.
  - (* Turn *)
    inversion Hs; subst c'. clear Hs. split; [constructor; simpl | constructor; simpl; auto].
    + unfold RInv in *. simpl. intro Hx. destruct (HR Hx) as [HM HF]. split; [exact HM | intros r []].
    + intros Hx r Hr. apply HX; [exact Hx|]. unfold outst in *. simpl in Hr. destruct Hr as [[] | Hr]. right. exact Hr.
    + intros id res Hin. apply in_app_or in Hin. destruct Hin as [Hin | Hin]; [apply HO; exact Hin|].
      apply in_map_iff in Hin. destruct Hin as (r & Er & Hr). inversion Er; subst. clear Er.
      unfold do_read. destruct (closed_cases (st c)) as [Hcl | Hcl]; rewrite Hcl; [right; auto|].
      destruct (HR Hcl) as [HM HF]. destruct (HF r Hr) as [Ha Hb].
      destruct (N.ltb_spec (cur (st c)) (roff r + rlen r)); [lia|].
      left. rewrite (fread_ref (st c) (ref c) (roff r) (rlen r) HC Ha Hb).
      apply HX; [exact Hcl | left; exact Hr].
  - (* TurnOne *)
    destruct (fired (st c)) as [|r0 rest] eqn:Hfired; inversion Hs; subst c'; clear Hs; [exact Hsame|].
    split; [constructor; simpl | constructor; simpl; auto].
    + unfold RInv in *. simpl. intro Hx. destruct (HR Hx) as [HM HF]. split; [exact HM|].
      intros r Hr. apply HF. rewrite Hfired. right. exact Hr.
    + intros Hx r Hr. apply HX; [exact Hx|]. unfold outst in *. simpl in Hr. rewrite Hfired.
      destruct Hr as [Hr | Hr]; [left; right; exact Hr | right; exact Hr].
    + intros id res Hin. apply in_app_or in Hin. destruct Hin as [Hin | [Hin | []]]; [apply HO; exact Hin|].
      inversion Hin; subst. clear Hin.
      unfold do_read. destruct (closed_cases (st c)) as [Hcl | Hcl]; rewrite Hcl; [right; auto|].
      destruct (HR Hcl) as [HM HF]. assert (In r0 (fired (st c))) as Hr by (rewrite Hfired; left; reflexivity).
      destruct (HF r0 Hr) as [Ha Hb].
      destruct (N.ltb_spec (cur (st c)) (roff r0 + rlen r0)); [lia|].
      left. rewrite (fread_ref (st c) (ref c) (roff r0) (rlen r0) HC Ha Hb).
      apply HX; [exact Hcl | left; exact Hr].
  - (* Finish *)
    inversion Hs; subst c'. clear Hs. simpl in Hg.
    destruct (dd_proj (st c)) as (E1 & E2 & E3 & E4 & E5 & E6 & E7).
    split; [constructor; simpl | constructor; simpl; auto; congruence].
    + apply dd_R; [exact HR|]. intro Hcl. apply finish_cov; assumption.
    + rewrite E6. intros Hx r Hr. apply HX; [exact Hx|]. apply dd_outst. exact Hr.
    + rewrite E6. exact HO.
  - (* Close *)
    destruct (closed_cases (st c)) as [Hcl | Hcl]; rewrite Hcl in Hs.
    + inversion Hs; subst c'. exact Hsame.
    + inversion Hs; subst c'. clear Hs. split; [constructor; simpl | constructor; simpl; auto].
      * unfold RInv. rewrite close_closed. discriminate.
      * rewrite close_closed. discriminate.
      * rewrite close_closed. intros id res Hin. destruct (HO id res Hin) as [H | [H1 H2]]; [left; exact H | congruence].
      * intros _. apply close_closed.
Qed.

Lemma init_rc : RC (init_cfg O d0).
Proof.
  constructor; simpl.
  - unfold RInv. simpl. intros _. split; [intros n r [] | intros r []].
  - intros _ r [[] | [n []]].
  - intros id res [].
Qed.

Lemma contract_inv : forall l c c',
  CInv c -> RC c -> finish_ok_from g O d0 c l = true -> contract_ok_from g O c l = true ->
  run_from g O c l = Some c' -> RC c'.
Proof.
  induction l as [|o l IH]; intros c c' HI HR Hf Hk Hr; simpl in *.
  - inversion Hr; subst. exact HR.
  - apply andb_prop in Hf. destruct Hf as [Hf1 Hf2].
    apply andb_prop in Hk. destruct Hk as [Hk1 Hk2].
    destruct (step g O c o) as [c1|] eqn:Hs; [|discriminate].
    assert (guard_finish c o) as G1.
    { unfold guard_finish. destruct o; auto. apply N.leb_le. exact Hf1. }
    assert (guard_contract c o) as G2.
    { unfold guard_contract. destruct o; auto; apply orb_prop in Hk1; exact Hk1. }
    apply (IH c1 c'); auto.
    + apply (step_inv c o c1); auto.
    + apply (step_rc c o c1); auto.
Qed.

(* ---------- the theorems ---------- *)
Lemma file_refines_reference_ok l c :
  finish_ok g O d0 l = true -> run g O d0 l = Some c ->
  let s := st c in
  cur s = len (ref c) /\ dsize s <= cur s /\ dsize s <= d0 /\ len (f s) <= cur s /\
  (forall i, i < cur s -> covered s i -> get (f s) i = get (ref c) i) /\
  (forall i, dsize s <= i -> i < cur s -> get (f s) i = get (ref c) i) /\
  (forall i, i < dsize s -> ~ covered s i -> get (ref c) i = get O i).
Proof.
  intros Hf Hr. destruct (finish_ok_inv l _ c init_inv Hf Hr) as [[H1 H2 H2' H3 H4 (I1 & I2 & I3) H6] Hd Hp].
  simpl. auto 10.
Qed.

Lemma reads_return_reference_ok l c :
  finish_ok g O d0 l = true -> contract_ok g O d0 l = true -> run g O d0 l = Some c ->
  forall id res, In (id, res) (outs c) ->
    In (id, res) (exps c) \/ (res = RFail /\ closed (st c) = true).
Proof.
  intros Hf Hk Hr. apply (contract_inv l _ c init_inv init_rc Hf Hk Hr).
Qed.

Lemma final_contents_ok l c :
  finish_ok g O d0 l = true -> run g O d0 l = Some c ->
  done (st c) = true -> closed (st c) = false -> f (st c) = ref c.
Proof.
  intros Hf Hr Hd Hc.
  destruct (finish_ok_inv l _ c init_inv Hf Hr) as [[H1 H2 H2' H3 H4 (I1 & I2 & I3) H6] Hd0' Hp].
  apply get_ext. intro i. destruct (N.lt_ge_cases i (cur (st c))) as [Hi | Hi].
  - destruct (N.lt_ge_cases i (dsize (st c))).
    + apply I1; [exact Hi|]. apply H6; assumption.
    + apply I2; assumption.
  - rewrite !get_none; [reflexivity | lia | lia].
Qed.

Lemma read_wait s id off length s' :
  read s id off length = Wait s' ->
  f s' = f s /\ cur s' = cur s /\ dsize s' = dsize s /\ dl s' = dl s /\ ows s' = ows s /\
  closed s' = closed s /\ done s' = done s /\ fired s' = fired s.
Proof.
  unfold read. destruct (closed s); [discriminate|]. destruct (cur s <=? off); [discriminate|].
  destruct (done s); [discriminate|].
  match goal with |- context [if ?b then Now _ else _] => destruct b end; [discriminate|].
  intro H. inversion H; subst. simpl. auto 10.
Qed.

(* download-side operations leave the reference, the size and the closed flag alone
   and never shrink coverage *)
Lemma download_side_step c o c' :
  CInv c -> download_side o = true -> step g O c o = Some c' ->
  ref c' = ref c /\ cur (st c') = cur (st c) /\ closed (st c') = closed (st c) /\
  (forall i, covered (st c) i -> covered (st c') i).
Proof.
  intros [HC Hd Hp] Hds Hs. destruct o; simpl in Hds; try discriminate; simpl in Hs.
  - destruct (write g (st c) (take n (drop (pos c) O))) as [s'|] eqn:Hw; [|discriminate].
    inversion Hs; subst c'. clear Hs.
    destruct (write_ok g O (ref c) (st c) _ s' (pos c) HC Hp (chunk_data c n) Hw)
      as (P1 & _ & P3 & P4 & P5 & P6 & _).
    simpl. auto.
  - destruct (read (st c) (nid c) off length) as [r | s'] eqn:Hrd; inversion Hs; subst; simpl; [auto|].
    destruct (read_wait _ _ _ _ _ Hrd) as (E1 & E2 & E3 & E4 & E5 & E6 & E7 & E8).
    unfold covered. rewrite E2, E4, E5, E6. auto.
  - inversion Hs; subst. simpl. auto.
  - destruct (fired (st c)); inversion Hs; subst; simpl; auto.
  - inversion Hs; subst. simpl. destruct (dd_proj (st c)) as (E1 & E2 & E3 & E4 & E5 & E6 & E7).
    unfold covered. rewrite E2, E4, E5, E6. auto.
Qed.

Lemma download_side_run : forall l c c',
  CInv c -> forallb download_side l = true -> finish_ok_from g O d0 c l = true ->
  run_from g O c l = Some c' ->
  CInv c' /\ ref c' = ref c /\ cur (st c') = cur (st c) /\ closed (st c') = closed (st c) /\
  (forall i, covered (st c) i -> covered (st c') i).
Proof.
  induction l as [|o l IH]; intros c c' HI Hds Hf Hr; simpl in *.
  - inversion Hr; subst. auto.
  - apply andb_prop in Hds. destruct Hds as [Hd1 Hd2].
    apply andb_prop in Hf. destruct Hf as [Hf1 Hf2].
    destruct (step g O c o) as [c1|] eqn:Hs; [|discriminate].
    assert (CInv c1) as HI1.
    { apply (step_inv c o c1); auto. unfold guard_finish. destruct o; auto. apply N.leb_le. exact Hf1. }
    destruct (download_side_step c o c1 HI Hd1 Hs) as (A1 & A2 & A3 & A4).
    destruct (IH c1 c' HI1 Hd2 Hf2 Hr) as (B0 & B1 & B2 & B3 & B4).
    split; [exact B0|]. split; [congruence|]. split; [congruence|]. split; [congruence|]. auto.
Qed.

Lemma run_from_app : forall l1 l2 c,
  run_from g O c (l1 ++ l2) =
  match run_from g O c l1 with Some c1 => run_from g O c1 l2 | None => None end.
Proof.
  induction l1 as [|o l1 IH]; intros l2 c; simpl; [reflexivity|].
  destruct (step g O c o); [apply IH | reflexivity].
Qed.

Lemma finish_ok_from_app : forall l1 l2 c,
  finish_ok_from g O d0 c (l1 ++ l2) = true ->
  finish_ok_from g O d0 c l1 = true /\
  forall c1, run_from g O c l1 = Some c1 -> finish_ok_from g O d0 c1 l2 = true.
Proof.
  induction l1 as [|o l1 IH]; intros l2 c H; simpl in *.
  - split; [reflexivity|]. intros c1 E. inversion E; subst. exact H.
  - apply andb_prop in H. destruct H as [H1 H2].
    destruct (step g O c o) as [c1|]; [|discriminate].
    destruct (IH l2 c1 H2) as [A B]. rewrite H1, A. auto.
Qed.

Lemma client_writes_win_ok pre off data later cp c :
  finish_ok g O d0 (pre ++ Overwrite off data :: later) = true ->
  forallb download_side later = true ->
  run g O d0 pre = Some cp -> closed (st cp) = false ->
  run g O d0 (pre ++ Overwrite off data :: later) = Some c ->
  forall k, k < len data -> get (f (st c)) (off + k) = get data k.
Proof.
  intros Hf Hds Hp Hcl Hr k Hk.
  unfold finish_ok, run in *.
  destruct (finish_ok_from_app pre _ _ Hf) as [Hf1 Hf2]. specialize (Hf2 cp Hp).
  rewrite run_from_app, Hp in Hr.
  assert (CInv cp) as HIp by (apply (finish_ok_inv pre _ cp init_inv Hf1 Hp)).
  simpl in Hr, Hf2. rewrite Hcl in Hr, Hf2. simpl in Hf2.
  set (c1 := mkCfg (overwrite g (st cp) off data) (pos cp) (ref_write (ref cp) off data) (nid cp) (outs cp) (exps cp)) in *.
  assert (step g O cp (Overwrite off data) = Some c1) as Hs1 by (simpl; rewrite Hcl; reflexivity).
  assert (CInv c1) as HI1 by (apply (step_inv cp (Overwrite off data) c1 HIp I Hs1)).
  destruct HIp as [HCp _ _].
  destruct (overwrite_ok g O (ref cp) (st cp) off data HCp) as (_ & _ & _ & _ & _ & _ & Q7 & _ & Q9).
  destruct (download_side_run later c1 c HI1 Hds Hf2 Hr) as (HIc & R1 & R2 & R3 & R4).
  destruct HIc as [[H1 H2 H2' H3 H4 (I1 & I2 & I3) H6] _ _].
  rewrite I1.
  - rewrite R1. unfold c1. simpl. rewrite get_ref_write.
    destruct (N.leb_spec off (off + k)); [|lia]. destruct (N.ltb_spec (off + k) (off + len data)); [|lia].
    simpl. f_equal. lia.
  - rewrite H1, R1. unfold c1. simpl. rewrite len_ref_write. lia.
  - apply R4. unfold c1. simpl. apply Q9. lia.
Qed.

Lemma exps_grow c o c' : step g O c o = Some c' -> forall x, In x (exps c) -> In x (exps c').
Proof.
  intros Hs x Hx. destruct o; simpl in Hs.
  - destruct (write g (st c) _); inversion Hs; subst; exact Hx.
  - destruct (closed (st c)); inversion Hs; subst; exact Hx.
  - destruct (closed (st c)); inversion Hs; subst; exact Hx.
  - destruct (read (st c) (nid c) off length); inversion Hs; subst; simpl; apply in_or_app; auto.
  - inversion Hs; subst; exact Hx.
  - destruct (fired (st c)); inversion Hs; subst; exact Hx.
  - inversion Hs; subst; exact Hx.
  - destruct (closed (st c)); inversion Hs; subst; exact Hx.
Qed.

Lemma exps_grow_run : forall l c c', run_from g O c l = Some c' -> forall x, In x (exps c) -> In x (exps c').
Proof.
  induction l as [|o l IH]; intros c c' Hr x Hx; simpl in Hr.
  - inversion Hr; subst. exact Hx.
  - destruct (step g O c o) as [c1|] eqn:Hs; [|discriminate].
    apply (IH c1 c' Hr). apply (exps_grow c o c1 Hs). exact Hx.
Qed.

(* the linearisation point of a read: the reference at the time the request is issued *)
Lemma read_expectation_ok pre off length later cp c :
  run g O d0 pre = Some cp ->
  run g O d0 (pre ++ Read off length :: later) = Some c ->
  In (nid cp, ref_read (ref cp) off length) (exps c).
Proof.
  unfold run. intros Hp Hr. rewrite run_from_app, Hp in Hr. simpl in Hr.
  destruct (read (st cp) (nid cp) off length);
    (eapply exps_grow_run; [exact Hr|]; simpl; apply in_or_app; right; left; reflexivity).
Qed.

End Run.

Section Ids.
Variable g : N -> N.
Variable O : list N.
Variable d0 : N.

(* request ids are unique: an entry of [exps] is THE reference answer of that request *)
Definition ids_ok (c : cfg) : Prop :=
  NoDup (map fst (exps c)) /\ forall x, In x (exps c) -> fst x < nid c.

Lemma nodup_snoc (l : list N) a : NoDup l -> ~ In a l -> NoDup (l ++ [a]).
Proof.
  induction l as [|x l IH]; intros Hn Hi; simpl.
  - constructor; [intros [] | constructor].
  - inversion Hn; subst. constructor.
    + intro Hx. apply in_app_or in Hx. destruct Hx as [Hx | [Hx | []]]; [contradiction|].
      subst. apply Hi. left. reflexivity.
    + apply IH; [assumption|]. intro Hx. apply Hi. right. exact Hx.
Qed.

Lemma ids_step c o c' : ids_ok c -> step g O c o = Some c' -> ids_ok c'.
Proof.
  intros [Hn Hb] Hs. destruct o; simpl in Hs.
  - destruct (write g (st c) _); inversion Hs; subst; split; assumption.
  - destruct (closed (st c)); inversion Hs; subst; split; assumption.
  - destruct (closed (st c)); inversion Hs; subst; split; assumption.
  - assert (ids_ok (mkCfg (st c) (pos c) (ref c) (nid c + 1) (outs c) (exps c ++ [(nid c, ref_read (ref c) off length)]))) as [A B].
    { split; simpl.
      - rewrite map_app. simpl. apply nodup_snoc; [exact Hn|].
        intro Hx. apply in_map_iff in Hx. destruct Hx as (x & E & Hx). specialize (Hb x Hx). lia.
      - intros x Hx. apply in_app_or in Hx. destruct Hx as [Hx | [Hx | []]].
        + specialize (Hb x Hx). lia.
        + subst. simpl. lia. }
    destruct (read (st c) (nid c) off length); inversion Hs; subst; split; simpl; assumption.
  - inversion Hs; subst; split; assumption.
  - destruct (fired (st c)); inversion Hs; subst; split; assumption.
  - inversion Hs; subst; split; assumption.
  - destruct (closed (st c)); inversion Hs; subst; split; assumption.
Qed.

Lemma ids_run : forall l c c', ids_ok c -> run_from g O c l = Some c' -> ids_ok c'.
Proof.
  induction l as [|o l IH]; intros c c' Hi Hr; simpl in Hr.
  - inversion Hr; subst. exact Hi.
  - destruct (step g O c o) as [c1|] eqn:Hs; [|discriminate].
    apply (IH c1 c'); [|exact Hr]. apply (ids_step c o c1); assumption.
Qed.

Lemma read_ids_unique_ok l c :
  run g O d0 l = Some c ->
  forall id e1 e2, In (id, e1) (exps c) -> In (id, e2) (exps c) -> e1 = e2.
Proof.
  intro Hr. assert (ids_ok c) as [Hn _].
  { apply (ids_run l (init_cfg O d0) c); [|exact Hr]. split; simpl; [constructor | intros x []]. }
  revert Hn. generalize (exps c). induction l0 as [|[i e] r IH]; intros Hn id e1 e2 H1 H2; [destruct H1|].
  simpl in Hn. inversion Hn as [|? ? Hni Hn']; subst.
  destruct H1 as [H1 | H1]; destruct H2 as [H2 | H2].
  - congruence.
  - inversion H1; subst. exfalso. apply Hni. apply in_map_iff. exists (id, e2). auto.
  - inversion H2; subst. exfalso. apply Hni. apply in_map_iff. exists (id, e1). auto.
  - apply (IH Hn' id); assumption.
Qed.

End Ids.
