(* C37: Spans.remove.  The forward scan with absolute indices is rewritten as a
   backward scan with relative indices (no invariant needed); under the
   representation invariant the whole operation (in-place trims, the append+sort
   of the "middle" case, the final `del`) equals  flat_map piece l. *)
From Coq Require Import List Arith NArith Bool Lia ZifyBool ZifyNat ZifyN Permutation Btauto.
From Verif Require Import Model.Spans Proofs.SpansBase.
Import ListNotations.
Local Open Scope N_scope.

Definition delrange (f la : option nat) (l : spans) : spans :=
  match f, la with
  | Some f, Some la => firstn f l ++ skipn (S la) l
  | _, _ => l
  end.

Section Remove.
Variables s n : N.

(* what is left of one span after removing [s, s+n) *)
Definition piece (sp : span) : spans :=
  (if fst sp <? s then [(fst sp, N.min (fst sp + snd sp) s - fst sp)] else []) ++
  (if s + n <? fst sp + snd sp
   then [(N.max (fst sp) (s + n), fst sp + snd sp - N.max (fst sp) (s + n))] else []).

Fixpoint rscan (l : spans) : (spans * bool) * (option nat * option nat) :=
  match l with
  | [] => (([], false), (None, None))
  | (ss, sl) :: r =>
      let se := ss + sl in
      match overlap ss sl s n with
      | None =>
          let '((r', m), (f, la)) := rscan r in
          (((ss, sl) :: r', m), (option_map S f, option_map S la))
      | Some (os, ol) =>
          let oe := os + ol in
          if (os =? ss) && (oe =? se) then
            let '((r', m), (f, la)) := rscan r in
            (((ss, sl) :: r', m),
             (Some O, match la with Some k => Some (S k) | None => Some O end))
          else if os =? ss then
            let '((r', m), (f, la)) := rscan r in
            (((oe, se - oe) :: r', m), (option_map S f, option_map S la))
          else if oe =? se then
            let '((r', m), (f, la)) := rscan r in
            (((ss, os - ss) :: r', m), (option_map S f, option_map S la))
          else
            (((ss, os - ss) :: r ++ [(oe, se - oe)], true), (None, None))
      end
  end.

Lemma remove_scan_rscan l : forall i fc lc,
  remove_scan s n l i fc lc =
  let '((l1, m), (f, la)) := rscan l in
  ((l1, m),
   (match fc with Some _ => fc | None => option_map (Nat.add i) f end,
    match la with Some k => Some (i + k)%nat | None => lc end)).
Proof.
  induction l as [|[a b] r IH]; intros i fc lc.
  - cbn [remove_scan rscan option_map]. destruct fc; reflexivity.
  - cbn [remove_scan rscan]. destruct (overlap a b s n) as [[os ol]|].
    + cbn zeta.
      destruct ((os =? a) && (os + ol =? a + b)); [|destruct (os =? a); [|destruct (os + ol =? a + b)]].
      * rewrite IH. destruct (rscan r) as [[r' m] [f la]].
        destruct fc, f, la; cbn [option_map Nat.add]; rewrite ?Nat.add_succ_r, ?Nat.add_0_r; reflexivity.
      * rewrite IH. destruct (rscan r) as [[r' m] [f la]].
        destruct fc, f, la; cbn [option_map Nat.add]; rewrite ?Nat.add_succ_r, ?Nat.add_0_r; reflexivity.
      * rewrite IH. destruct (rscan r) as [[r' m] [f la]].
        destruct fc, f, la; cbn [option_map Nat.add]; rewrite ?Nat.add_succ_r, ?Nat.add_0_r; reflexivity.
      * destruct fc; reflexivity.
    + rewrite IH. destruct (rscan r) as [[r' m] [f la]].
      destruct fc, f, la; cbn [option_map Nat.add]; rewrite ?Nat.add_succ_r, ?Nat.add_0_r; reflexivity.
Qed.

Lemma spans_remove_raw_rscan l :
  spans_remove_raw s n l =
  let '((l1, m), (f, la)) := rscan l in
  delrange f la (if m then psort l1 else l1).
Proof.
  unfold spans_remove_raw. rewrite remove_scan_rscan.
  destruct (rscan l) as [[l1 m] [f la]]. unfold delrange.
  destruct f, la; cbn [option_map Nat.add]; reflexivity.
Qed.

(* ---- under the invariant -------------------------------------------------------- *)
Hypothesis Hn : 0 < n.

(* spans entirely to the right of the removed range: untouched *)
Lemma rscan_after l : forall e, wf_from e l -> s + n <= e ->
  rscan l = ((l, false), (None, None)) /\ flat_map piece l = l.
Proof.
  induction l as [|[a b] r IH]; intros e H He; [split; reflexivity|].
  cbn [wf_from fst snd] in H. destruct H as (H1 & H2 & H3).
  destruct (IH _ H3 ltac:(lia)) as [R P].
  split.
  - cbn [rscan]. rewrite overlap_spec.
    assert (C : (N.max a s <? N.min (a + b) (s + n)) = false) by lia. rewrite C, R. reflexivity.
  - cbn [flat_map]. rewrite P. unfold piece. cbn [fst snd].
    assert (C1 : (a <? s) = false) by lia. assert (C2 : (s + n <? a + b) = true) by lia.
    rewrite C1, C2. cbn [app]. f_equal. f_equal; lia.
Qed.

Definition kidx (k : nat) : option nat * option nat :=
  match k with O => (None, None) | S j => (Some O, Some j) end.

(* spans starting at or after s: a run of complete overlaps, then at most one
   left trim, then untouched spans *)
Lemma rscan_from l : forall e, wf_from e l -> s <= e ->
  exists k l1, rscan l = ((l1, false), kidx k) /\ skipn k l1 = flat_map piece l.
Proof.
  induction l as [|[a b] r IH]; intros e H He.
  - exists O, []. split; reflexivity.
  - pose proof H as Hall. cbn [wf_from fst snd] in H. destruct H as (H1 & H2 & H3).
    destruct (N.leb_spec (a + b) (s + n)) as [L1|L1].
    + (* complete overlap *)
      destruct (IH _ H3 ltac:(lia)) as (k & l1 & R & P).
      exists (S k), ((a, b) :: l1). split.
      * cbn [rscan]. rewrite overlap_spec.
        assert (C : (N.max a s <? N.min (a + b) (s + n)) = true) by lia. rewrite C. cbn zeta.
        assert (C1 : ((N.max a s =? a) && (N.max a s + (N.min (a + b) (s + n) - N.max a s) =? a + b)) = true) by lia.
        rewrite C1, R. destruct k; reflexivity.
      * cbn [skipn flat_map]. rewrite P. unfold piece. cbn [fst snd].
        assert (C1 : (a <? s) = false) by lia. assert (C2 : (s + n <? a + b) = false) by lia.
        rewrite C1, C2. reflexivity.
    + destruct (N.ltb_spec a (s + n)) as [L2|L2].
      * (* left trim, then nothing more *)
        destruct (rscan_after r _ H3 ltac:(lia)) as [R P].
        exists O. eexists. split.
        -- cbn [rscan]. rewrite overlap_spec.
           assert (C : (N.max a s <? N.min (a + b) (s + n)) = true) by lia. rewrite C. cbn zeta.
           assert (C1 : ((N.max a s =? a) && (N.max a s + (N.min (a + b) (s + n) - N.max a s) =? a + b)) = false) by lia.
           assert (C2 : (N.max a s =? a) = true) by lia.
           rewrite C1, C2, R. reflexivity.
        -- cbn [skipn flat_map]. rewrite P. unfold piece. cbn [fst snd].
           assert (C1 : (a <? s) = false) by lia. assert (C2 : (s + n <? a + b) = true) by lia.
           rewrite C1, C2. cbn [app]. f_equal. f_equal; lia.
      * assert (Ha : wf_from a ((a, b) :: r)) by (cbn [wf_from fst snd]; repeat split; [lia|assumption|assumption]).
        destruct (rscan_after _ _ Ha L2) as [R P].
        exists O, ((a, b) :: r). split; [exact R|]. cbn [skipn]. symmetry. exact P.
Qed.

Lemma delrange_kidx k l1 : (let '(f, la) := kidx k in delrange f la l1) = skipn k l1.
Proof. destruct k; reflexivity. Qed.

Lemma delrange_shift f la x l1 :
  delrange (option_map S f) (option_map S la) (x :: l1) = x :: delrange f la l1.
Proof. destruct f, la; reflexivity. Qed.

Lemma rscan_general l : forall e, wf_from e l ->
  let '((l1, m), (f, la)) := rscan l in
  if m then f = None /\ la = None /\ Permutation l1 (flat_map piece l)
  else delrange f la l1 = flat_map piece l.
Proof.
  induction l as [|[a b] r IH]; intros e H; [reflexivity|].
  pose proof H as Hall. cbn [wf_from fst snd] in H. destruct H as (H1 & H2 & H3).
  destruct (N.leb_spec s a) as [L0|L0].
  - (* starts at or after s *)
    destruct (rscan_from _ s (wf_from_head _ s _ _ Hall L0) ltac:(lia)) as (k & l1 & R & P).
    rewrite R. pose proof (delrange_kidx k l1) as D. destruct (kidx k) as [f la]. congruence.
  - specialize (IH _ H3). cbn [rscan]. rewrite overlap_spec.
    destruct (N.leb_spec (a + b) s) as [L1|L1].
    + (* entirely before *)
      assert (C : (N.max a s <? N.min (a + b) (s + n)) = false) by lia. rewrite C.
      destruct (rscan r) as [[r' m] [f la]].
      assert (P : piece (a, b) = [(a, b)]).
      { unfold piece. cbn [fst snd].
        assert (C1 : (a <? s) = true) by lia. assert (C2 : (s + n <? a + b) = false) by lia.
        rewrite C1, C2. cbn [app]. f_equal. f_equal; lia. }
      cbn [flat_map]. rewrite P. cbn [app]. destruct m.
      * destruct IH as (-> & -> & IH). repeat split. apply perm_skip. exact IH.
      * rewrite delrange_shift. f_equal. exact IH.
    + assert (C : (N.max a s <? N.min (a + b) (s + n)) = true) by lia. rewrite C. cbn zeta.
      assert (C1 : ((N.max a s =? a) && (N.max a s + (N.min (a + b) (s + n) - N.max a s) =? a + b)) = false) by lia.
      assert (C2 : (N.max a s =? a) = false) by lia.
      rewrite C1, C2.
      destruct (N.leb_spec (a + b) (s + n)) as [L2|L2].
      * (* right trim *)
        assert (C3 : (N.max a s + (N.min (a + b) (s + n) - N.max a s) =? a + b) = true) by lia.
        rewrite C3.
        destruct (rscan r) as [[r' m] [f la]].
        assert (P : piece (a, b) = [(a, N.max a s - a)]).
        { unfold piece. cbn [fst snd].
          assert (C4 : (a <? s) = true) by lia. assert (C5 : (s + n <? a + b) = false) by lia.
          rewrite C4, C5. cbn [app]. f_equal. f_equal; lia. }
        cbn [flat_map]. rewrite P. cbn [app]. destruct m.
        -- destruct IH as (-> & -> & IH). repeat split. apply perm_skip. exact IH.
        -- rewrite delrange_shift. f_equal. exact IH.
      * (* middle *)
        assert (C3 : (N.max a s + (N.min (a + b) (s + n) - N.max a s) =? a + b) = false) by lia.
        rewrite C3.
        destruct (rscan_after r _ H3 ltac:(lia)) as [_ P].
        repeat split. cbn [flat_map]. rewrite P.
        assert (Q : piece (a, b) =
                    [(a, N.max a s - a);
                     (N.max a s + (N.min (a + b) (s + n) - N.max a s),
                      a + b - (N.max a s + (N.min (a + b) (s + n) - N.max a s)))]).
        { unfold piece. cbn [fst snd].
          assert (C4 : (a <? s) = true) by lia. assert (C5 : (s + n <? a + b) = true) by lia.
          rewrite C4, C5. cbn [app]. f_equal; [f_equal; lia|]. f_equal. f_equal; lia. }
        rewrite Q. cbn [app]. apply perm_skip. apply Permutation_sym. apply Permutation_cons_append.
Qed.

(* the pieces are again wf, and denote the difference *)
Lemma piece_correct l : forall e, wf_from e l ->
  wf_from e (flat_map piece l) /\
  forall z, mem z (flat_map piece l) = mem z l && negb (in_iv s n z).
Proof.
  induction l as [|[a b] r IH]; intros e H.
  - split; [exact I|]. intro z. reflexivity.
  - cbn [wf_from fst snd] in H. destruct H as (H1 & H2 & H3).
    destruct (IH _ H3) as [W M]. cbn [flat_map]. unfold piece. cbn [fst snd].
    split.
    + destruct (a <? s) eqn:C1, (s + n <? a + b) eqn:C2; cbn [app wf_from fst snd];
        repeat split; try lia;
        try (eapply wf_from_weaken; [|exact W]; lia).
    + intro z. rewrite mem_app, mem_cons, M.
      destruct (a <? s) eqn:C1, (s + n <? a + b) eqn:C2; cbn [app mem existsb fst snd];
        unfold in_iv; lia.
Qed.

Theorem spans_remove_raw_correct l : wf l ->
  spans_remove_raw s n l = flat_map piece l.
Proof.
  intro H. rewrite spans_remove_raw_rscan.
  pose proof (rscan_general l 0 H) as G.
  destruct (rscan l) as [[l1 m] [f la]]. destruct m.
  - destruct G as (-> & -> & P). cbn [delrange].
    apply (psort_perm_wf 0 _ _ P). apply (piece_correct l 0 H).
  - exact G.
Qed.

Theorem spans_remove_correct l : wf l ->
  exists l', spans_remove s n l = Some l' /\ wf l' /\
             forall z, mem z l' = mem z l && negb (in_iv s n z).
Proof.
  intro H. destruct (piece_correct l 0 H) as [W M].
  exists (flat_map piece l). unfold spans_remove.
  assert (E : (n =? 0) = false) by lia.
  rewrite E, (spans_remove_raw_correct l H), (spans_check_wf _ W). auto.
Qed.

End Remove.

Lemma spans_remove_zero s l : spans_remove s 0 l = None.
Proof. reflexivity. Qed.
