(* C21  Proofs about Model/Traverse.v: basic lemmas, the scan loop, the
   invariants of the walk.  The theorems of Props/C21.v are the lemmas at the
   end of Proofs/TraverseThm.v. *)
From Coq Require Import List NArith Bool Lia Arith.
From Verif Require Import Model.Traverse.
Import ListNotations.
Local Open Scope N_scope.
Local Open Scope bool_scope.

(* ---- small facts --------------------------------------------------------- *)
Lemma mem_In v l : mem v l = true <-> In v l.
Proof.
  induction l as [|x l IH]; simpl.
  - split; [discriminate | tauto].
  - rewrite orb_true_iff, IH, N.eqb_eq. split; intros [H|H]; auto.
Qed.

Lemma mem_false_notin v l : mem v l = false -> ~ In v l.
Proof. intros H HI. apply mem_In in HI. congruence. Qed.

Lemma name_eqb_eq a b : name_eqb a b = true <-> a = b.
Proof.
  revert b; induction a as [|x a IH]; destruct b as [|y b]; simpl; split; intro H;
    try reflexivity; try discriminate.
  - apply andb_prop in H. destruct H as [H1 H2]. apply N.eqb_eq in H1. apply IH in H2. subst. reflexivity.
  - inversion H; subst. rewrite N.eqb_refl. simpl. apply IH. reflexivity.
Qed.

Lemma name_eqb_refl a : name_eqb a a = true.
Proof. apply name_eqb_eq. reflexivity. Qed.

Lemma lookup_In g i n : lookup g i = Some n -> In (i, n) g.
Proof.
  induction g as [|[j m] g IH]; simpl; [discriminate|].
  destruct (i =? j) eqn:E.
  - intro H. inversion H; subst. apply N.eqb_eq in E. subst. left. reflexivity.
  - intro H. right. apply IH. exact H.
Qed.

Lemma insert_child_In e x l : In x (insert_child e l) <-> x = e \/ In x l.
Proof.
  induction l as [|y l IH]; simpl.
  - split; intros [H|H]; auto; try tauto.
  - destruct (name_ltb (fst y) (fst e)); simpl.
    + rewrite IH. split; intros [H|[H|H]]; auto.
    + split; intros [H|[H|H]]; auto.
Qed.

Lemma sort_children_In x l : In x (sort_children l) <-> In x l.
Proof.
  unfold sort_children. induction l as [|y l IH]; simpl.
  - tauto.
  - rewrite insert_child_In, IH. split; intros [H|H]; auto.
Qed.

Lemma find_child_nodup nm c l :
  nodup_names (map fst l) = true -> In (nm, c) l -> find_child nm l = Some c.
Proof.
  induction l as [|[n' c'] l IH]; simpl; [tauto|].
  intros Hnd [H|H].
  - inversion H; subst. rewrite name_eqb_refl. reflexivity.
  - apply andb_prop in Hnd. destruct Hnd as [Hn Hnd].
    destruct (name_eqb nm n') eqn:E.
    + apply name_eqb_eq in E. subst n'.
      apply negb_true_iff in Hn.
      assert (existsb (name_eqb nm) (map fst l) = true).
      { apply existsb_exists. exists nm. split; [|apply name_eqb_refl].
        apply in_map_iff. exists (nm, c). auto. }
      congruence.
    + apply IH; assumption.
Qed.

Lemma walk_snoc g : forall p from d nd nm c nc,
  walk g from p = Some d -> lookup g d = Some nd -> n_kind nd = KDir ->
  find_child nm (n_children nd) = Some c -> lookup g c = Some nc ->
  walk g from (p ++ [nm]) = Some c.
Proof.
  induction p as [|x p IH]; intros from d nd nm c nc Hw Hd Hk Hf Hc; simpl in *.
  - destruct (lookup g from) eqn:E; [|discriminate]. inversion Hw; subst.
    rewrite Hd in E. inversion E; subst. rewrite Hk. simpl. rewrite Hf. rewrite Hc. reflexivity.
  - destruct (lookup g from) as [nf|]; [|discriminate].
    destruct (is_dir (n_kind nf)); [|discriminate].
    destruct (find_child x (n_children nf)) as [c0|]; [|discriminate].
    eapply IH; eauto.
Qed.

Lemma filter_length_le {A} (f h : A -> bool) l :
  (forall x, In x l -> f x = true -> h x = true) -> (length (filter f l) <= length (filter h l))%nat.
Proof.
  induction l as [|x l IH]; simpl; intro H; [lia|].
  assert (IH' : (length (filter f l) <= length (filter h l))%nat) by (apply IH; intros; apply H; auto).
  destruct (f x) eqn:Ef.
  - rewrite (H x (or_introl eq_refl) Ef). simpl. lia.
  - destruct (h x); simpl; lia.
Qed.

Lemma filter_length_pos {A} (f : A -> bool) l x : In x l -> f x = true -> (1 <= length (filter f l))%nat.
Proof.
  induction l as [|y l IH]; simpl; [tauto|].
  intros [H|H] Hf.
  - subst. rewrite Hf. simpl. lia.
  - destruct (f y); simpl; specialize (IH H Hf); lia.
Qed.

Lemma filter_ext_in_len {A} (f h : A -> bool) l :
  (forall x, In x l -> f x = h x) -> length (filter f l) = length (filter h l).
Proof.
  induction l as [|x l IH]; simpl; intro H; [reflexivity|].
  rewrite (H x (or_introl eq_refl)).
  destruct (h x); simpl; rewrite IH; auto.
Qed.

(* ---- has_verifier: counting add_node calls per verify cap ----------------- *)
Definition has_verifier (g : graph) (v : N) (x : visit) : bool :=
  match lookup g (snd x) with
  | Some m => opt_N_eqb (n_verifier m) (Some v)
  | None => false
  end.

Definition vcount (g : graph) (v : N) (l : list visit) : nat := length (filter (has_verifier g v) l).

Lemma vcount_app g v a b : vcount g v (a ++ b) = (vcount g v a + vcount g v b)%nat.
Proof. unfold vcount. rewrite filter_app, app_length. reflexivity. Qed.

Lemma vcount_cons g v x l : vcount g v (x :: l) = ((if has_verifier g v x then 1 else 0) + vcount g v l)%nat.
Proof. unfold vcount. simpl. destruct (has_verifier g v x); reflexivity. Qed.

Lemma vcount_nil g v : vcount g v [] = 0%nat.
Proof. reflexivity. Qed.

Lemma opt_N_eqb_eq a b : opt_N_eqb a b = true <-> a = b.
Proof.
  destruct a, b; simpl; split; intro H; try discriminate; try reflexivity.
  - apply N.eqb_eq in H. subst. reflexivity.
  - inversion H. apply N.eqb_refl.
Qed.

Lemma has_verifier_true g v p c nc :
  lookup g c = Some nc -> (has_verifier g v (p, c) = true <-> n_verifier nc = Some v).
Proof. intro H. unfold has_verifier. simpl. rewrite H. apply opt_N_eqb_eq. Qed.

(* ---- the scan loop ------------------------------------------------------- *)
Section Scan.
  Variable g : graph.

  Lemma scan_found_mono p kids : forall found v, In v found -> In v (s_found (scan g p kids found)).
  Proof.
    induction kids as [|[nm c] r IH]; intros found v Hv; simpl; [exact Hv|].
    destruct (lookup g c) as [nc|]; [|apply IH; exact Hv].
    destruct (is_unknown (n_kind nc)); simpl; [apply IH; exact Hv|].
    destruct (n_verifier nc) as [w|].
    - destruct (mem w found); [apply IH; exact Hv|].
      destruct (is_dir (n_kind nc)); simpl; apply IH; right; exact Hv.
    - destruct (is_dir (n_kind nc)); simpl; apply IH; exact Hv.
  Qed.

  (* where the emitted entries come from *)
  Lemma scan_entries p kids : forall found q c,
    In (q, c) (s_unknown (scan g p kids found) ++ s_files (scan g p kids found) ++ s_dirs (scan g p kids found)) ->
    exists nm nc, q = p ++ [nm] /\ In (nm, c) kids /\ lookup g c = Some nc.
  Proof.
    induction kids as [|[nm c0] r IH]; intros found q c H; simpl in H; [destruct H|].
    destruct (lookup g c0) as [nc|] eqn:El.
    2:{ destruct (IH _ _ _ H) as (nm' & nc' & ? & ? & ?). exists nm', nc'. simpl. auto. }
    assert (Hrest : forall fnd, In (q, c) (s_unknown (scan g p r fnd) ++ s_files (scan g p r fnd) ++ s_dirs (scan g p r fnd)) ->
                    exists nm1 nc1, q = p ++ [nm1] /\ In (nm1, c) ((nm, c0) :: r) /\ lookup g c = Some nc1).
    { intros fnd H'. destruct (IH _ _ _ H') as (nm' & nc' & ? & ? & ?). exists nm', nc'. simpl. auto. }
    assert (Hhere : (q, c) = (p ++ [nm], c0) -> exists nm1 nc1, q = p ++ [nm1] /\ In (nm1, c) ((nm, c0) :: r) /\ lookup g c = Some nc1).
    { intro E. inversion E; subst. exists nm, nc. simpl. auto. }
    destruct (is_unknown (n_kind nc)); simpl in H.
    { destruct H as [H|H]; [apply Hhere; auto | apply (Hrest found); exact H]. }
    destruct (match n_verifier nc with Some v => mem v found | None => false end).
    { apply (Hrest found); exact H. }
    destruct (is_dir (n_kind nc)); simpl in H.
    - rewrite !in_app_iff in H. simpl in H. rewrite ?in_app_iff in H.
      destruct H as [H|[H|[H|H]]]; try (apply Hhere; auto; fail);
        eapply Hrest; rewrite !in_app_iff; eauto.
    - rewrite !in_app_iff in H. simpl in H. rewrite ?in_app_iff in H.
      destruct H as [H|[H|[H|H]]]; try (apply Hhere; auto; fail);
        eapply Hrest; rewrite !in_app_iff; eauto.
  Qed.

  Lemma scan_dirs_kind p kids : forall found q c,
    In (q, c) (s_dirs (scan g p kids found)) -> exists nc, lookup g c = Some nc /\ n_kind nc = KDir.
  Proof.
    induction kids as [|[nm c0] r IH]; intros found q c H; simpl in H; [destruct H|].
    destruct (lookup g c0) as [nc|] eqn:El; [|eapply IH; eauto].
    destruct (is_unknown (n_kind nc)); simpl in H; [eapply IH; eauto|].
    destruct (match n_verifier nc with Some v => mem v found | None => false end); [eapply IH; eauto|].
    destruct (is_dir (n_kind nc)) eqn:Ed; simpl in H.
    - destruct H as [H|H]; [|eapply IH; eauto].
      inversion H; subst. exists nc. split; [exact El|]. destruct (n_kind nc); try discriminate. reflexivity.
    - eapply IH; eauto.
  Qed.

  Lemma scan_nondirs_kind p kids : forall found q c,
    In (q, c) (s_unknown (scan g p kids found) ++ s_files (scan g p kids found)) ->
    exists nc, lookup g c = Some nc /\ n_kind nc <> KDir.
  Proof.
    induction kids as [|[nm c0] r IH]; intros found q c H; simpl in H; [destruct H|].
    destruct (lookup g c0) as [nc|] eqn:El; [|eapply IH; eauto].
    destruct (is_unknown (n_kind nc)) eqn:Eu; simpl in H.
    { destruct H as [H|H]; [|eapply IH; eauto]. inversion H; subst. exists nc. split; [exact El|].
      destruct (n_kind nc); try discriminate. }
    destruct (match n_verifier nc with Some v => mem v found | None => false end); [eapply IH; eauto|].
    destruct (is_dir (n_kind nc)) eqn:Ed; simpl in H.
    - eapply IH; eauto.
    - rewrite in_app_iff in H. simpl in H. destruct H as [H|[H|H]].
      + eapply IH. rewrite in_app_iff. eauto.
      + inversion H; subst. exists nc. split; [exact El|]. intro K. rewrite K in Ed. discriminate.
      + eapply IH. rewrite in_app_iff. eauto.
  Qed.

  (* every listed child is dealt with *)
  Lemma scan_handled p kids : forall found nm c nc,
    In (nm, c) kids -> lookup g c = Some nc ->
    (exists q, In (q, c) (s_unknown (scan g p kids found) ++ s_files (scan g p kids found) ++ s_dirs (scan g p kids found)))
    \/ (exists v, n_verifier nc = Some v /\ In v (s_found (scan g p kids found))).
  Proof.
    induction kids as [|[nm0 c0] r IH]; intros found nm c nc Hin Hl; simpl in Hin; [destruct Hin|].
    destruct Hin as [Hin|Hin].
    - inversion Hin; subst. simpl. rewrite Hl.
      destruct (is_unknown (n_kind nc)); simpl.
      { left. eexists. left. reflexivity. }
      destruct (n_verifier nc) as [w|] eqn:Ev.
      + destruct (mem w found) eqn:Em.
        * right. exists w. split; [reflexivity|]. apply scan_found_mono. apply mem_In. exact Em.
        * left. destruct (is_dir (n_kind nc)); simpl; eexists; rewrite !in_app_iff; simpl; eauto.
      + left. destruct (is_dir (n_kind nc)); simpl; eexists; rewrite !in_app_iff; simpl; eauto.
    - simpl.
      assert (Hr : forall fnd,
        (exists q, In (q, c) (s_unknown (scan g p r fnd) ++ s_files (scan g p r fnd) ++ s_dirs (scan g p r fnd)))
        \/ (exists v, n_verifier nc = Some v /\ In v (s_found (scan g p r fnd)))) by (intro; eapply IH; eauto).
      destruct (lookup g c0) as [nc0|]; [|apply Hr].
      destruct (is_unknown (n_kind nc0)); simpl.
      { destruct (Hr found) as [[q H]|H]; [left; exists q; right; exact H | right; exact H]. }
      destruct (match n_verifier nc0 with Some v => mem v found | None => false end); [apply Hr|].
      destruct (is_dir (n_kind nc0)); simpl;
        (destruct (Hr (match n_verifier nc0 with Some v => v :: found | None => found end)) as [[q H]|H];
         [left; exists q; rewrite !in_app_iff in *; simpl; rewrite ?in_app_iff; tauto | right; exact H]).
  Qed.

  (* every verify cap newly put into `found` belongs to an emitted file or directory *)
  Lemma scan_found_src p kids : forall found v,
    In v (s_found (scan g p kids found)) ->
    In v found \/ exists q c m, In (q, c) (s_files (scan g p kids found) ++ s_dirs (scan g p kids found))
                                /\ lookup g c = Some m /\ n_verifier m = Some v.
  Proof.
    induction kids as [|[nm0 c0] r IH]; intros found v H; simpl in *; [left; exact H|].
    destruct (lookup g c0) as [nc0|] eqn:El; [|apply IH; exact H].
    destruct (is_unknown (n_kind nc0)); simpl in *; [apply IH; exact H|].
    destruct (n_verifier nc0) as [w|] eqn:Ev.
    - destruct (mem w found); [apply IH; exact H|].
      destruct (is_dir (n_kind nc0)); simpl in *;
        (destruct (IH _ _ H) as [[K|K]|(q & c & m & K1 & K2 & K3)];
         [ subst; right; exists (p ++ [nm0]), c0, nc0; rewrite in_app_iff; simpl; auto
         | left; exact K
         | right; exists q, c, m; rewrite ?in_app_iff in *; simpl; rewrite ?in_app_iff; tauto ]).
    - destruct (is_dir (n_kind nc0)); simpl in *;
        (destruct (IH _ _ H) as [K|(q & c & m & K1 & K2 & K3)];
         [ left; exact K
         | right; exists q, c, m; rewrite ?in_app_iff in *; simpl; rewrite ?in_app_iff; tauto ]).
  Qed.

  (* at most one emitted entry per verify cap, and only for caps not seen before *)
  Lemma scan_vcount p kids :
    (forall i n, lookup g i = Some n -> n_kind n = KUnknown -> n_verifier n = None) ->
    forall found v,
      vcount g v (s_unknown (scan g p kids found)) = 0%nat /\
      (vcount g v (s_files (scan g p kids found)) + vcount g v (s_dirs (scan g p kids found)) <= 1)%nat /\
      ((1 <= vcount g v (s_files (scan g p kids found)) + vcount g v (s_dirs (scan g p kids found)))%nat ->
       ~ In v found /\ In v (s_found (scan g p kids found))).
  Proof.
    intro Hunk.
    induction kids as [|[nm0 c0] r IH]; intros found v; simpl.
    { rewrite !vcount_nil. repeat split; try lia. }
    destruct (lookup g c0) as [nc0|] eqn:El; [|apply IH].
    destruct (is_unknown (n_kind nc0)) eqn:Eu; simpl.
    { destruct (IH found v) as (I1 & I2 & I3). rewrite vcount_cons.
      assert (has_verifier g v (p ++ [nm0], c0) = false).
      { unfold has_verifier. simpl. rewrite El.
        rewrite (Hunk _ _ El); [reflexivity|]. destruct (n_kind nc0); try discriminate; reflexivity. }
      rewrite H. simpl. split; [exact I1|]. split; [exact I2|exact I3]. }
    destruct (n_verifier nc0) as [w|] eqn:Ev.
    - destruct (mem w found) eqn:Em; [apply IH|].
      destruct (IH (w :: found) v) as (I1 & I2 & I3).
      assert (Hhv : has_verifier g v (p ++ [nm0], c0) = (w =? v)).
      { unfold has_verifier. simpl. rewrite El, Ev. reflexivity. }
      destruct (w =? v) eqn:Ewv.
      + apply N.eqb_eq in Ewv. subst w.
        assert (Z0 : (vcount g v (s_files (scan g p r (v :: found))) + vcount g v (s_dirs (scan g p r (v :: found))) = 0)%nat).
        { destruct (Nat.eq_dec (vcount g v (s_files (scan g p r (v :: found))) + vcount g v (s_dirs (scan g p r (v :: found)))) 0) as [E|E]; [exact E|].
          destruct I3 as [I3 _]; [lia|]. exfalso. apply I3. left. reflexivity. }
        destruct (is_dir (n_kind nc0)); simpl; rewrite vcount_cons, Hhv;
          (split; [exact I1|]; split; [lia|]; intros _; split;
           [apply mem_false_notin; exact Em | apply scan_found_mono; left; reflexivity]).
      + destruct (is_dir (n_kind nc0)); simpl; rewrite vcount_cons, Hhv;
          (split; [exact I1|]; split; [simpl; lia|]; intro K; simpl in K;
           destruct (I3 K) as [J1 J2]; split; [intro; apply J1; right; assumption | exact J2]).
    - destruct (IH found v) as (I1 & I2 & I3).
      assert (Hhv : has_verifier g v (p ++ [nm0], c0) = false).
      { unfold has_verifier. simpl. rewrite El, Ev. reflexivity. }
      destruct (is_dir (n_kind nc0)); simpl; rewrite vcount_cons, Hhv; simpl;
        (split; [exact I1|]; split; [lia|]; exact I3).
  Qed.
End Scan.
