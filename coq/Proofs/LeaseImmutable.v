(* C25, immutable share files: ShareFile.get_leases / add_lease / renew_lease /
   add_or_renew_lease on the bytes of the file.  Structured view: 8 header bytes
   (version, legacy length), the 4-byte lease count, the data, the 72-byte leases. *)
From Coq Require Import List NArith Arith Bool Lia.
From Verif Require Import Lib.Hex Gen.MutConsts Model.MutContainer Model.Lease
  Proofs.MutContainerBytes Proofs.MutContainer Proofs.LeaseMutable.
Import ListNotations.
Local Open Scope N_scope.

Record IC := mkIC { i_head : list N; i_cnt : list N; i_data : list N; i_leases : list N }.

Definition iflat (c : IC) : file := i_head c ++ i_cnt c ++ i_data c ++ i_leases c.
Definition i_n (c : IC) : N := unbe (i_cnt c).
Definition i_lo (c : IC) : N := 12 + len (i_data c).

Record iwf (v : version) (c : IC) : Prop := {
  iw_head : length (i_head c) = 8%nat;
  iw_ver : imm_version_of (unbe (firstn 4 (i_head c))) = Some v;
  iw_cnt : length (i_cnt c) = 4%nat;
  iw_leases : len (i_leases c) = i_n c * 72 }.

Definition parse_imm (r : list N) : lease :=
  mkLease (unbe (pread r 0 4)) (pread r 4 32) (pread r 36 32) (unbe (pread r 68 4)) [].

Definition norm_imm (l : lease) : lease :=
  mkLease (l_owner l) (fit 32 (l_renew l)) (fit 32 (l_cancel l)) (l_expire l) [].

Definition irec (c : IC) (i : N) : list N := pread (i_leases c) (i * 72) 72.
Definition islot (c : IC) (i : N) : lease := parse_imm (irec c i).
Definition ileases (c : IC) : list lease := map (islot c) (nseq (i_n c)).

Lemma iflat_length v c : iwf v c -> length (iflat c) = (12 + length (i_data c) + N.to_nat (i_n c) * 72)%nat.
Proof. intros [? ? ? Hl]. unfold iflat. rewrite !app_length. unfold len in Hl. lia. Qed.

Lemma iflat_head c : iflat c = i_head c ++ i_cnt c ++ (i_data c ++ i_leases c).
Proof. reflexivity. Qed.

Lemma iflat_leases c : iflat c = (i_head c ++ i_cnt c ++ i_data c) ++ i_leases c.
Proof. unfold iflat. rewrite <- !app_assoc. reflexivity. Qed.

Lemma pread_head12 v c : iwf v c -> pread (iflat c) 0 12 = i_head c ++ i_cnt c.
Proof.
  intros [Hh _ Hc _]. rewrite pread_prn. change (N.to_nat 0) with 0%nat. change (N.to_nat 12) with 12%nat.
  unfold iflat. rewrite (app_assoc (i_head c)). rewrite prn_inside by (rewrite app_length; lia).
  unfold prn. cbn [skipn]. apply firstn_all2. rewrite app_length. lia.
Qed.

Lemma head12_fields v c : iwf v c ->
  pread (i_head c ++ i_cnt c) 0 4 = firstn 4 (i_head c) /\ pread (i_head c ++ i_cnt c) 8 4 = i_cnt c.
Proof.
  intros [Hh _ Hc _]. split.
  - rewrite pread_prn. change (N.to_nat 0) with 0%nat. change (N.to_nat 4) with 4%nat.
    rewrite prn_inside by lia. reflexivity.
  - rewrite pread_prn. change (N.to_nat 8) with 8%nat. change (N.to_nat 4) with 4%nat.
    rewrite <- (app_nil_r (i_cnt c)) at 1. apply prn_exact'; auto.
Qed.

Lemma imm_open_flat v c : iwf v c -> imm_open (iflat c) = Ok (v, i_lo c).
Proof.
  intro Hw. unfold imm_open. rewrite (pread_head12 v c Hw).
  destruct (head12_fields v c Hw) as [E1 E2]. rewrite E1, E2.
  assert (Hl : length (i_head c ++ i_cnt c) = 12%nat) by (rewrite app_length; destruct Hw; lia).
  rewrite Hl. cbn [Nat.eqb]. rewrite (iw_ver _ _ Hw). f_equal. f_equal.
  unfold i_lo, len. rewrite (iflat_length v c Hw). fold (i_n c). unfold IMM_LEASE_SIZE. lia.
Qed.

Lemma imm_read_num_flat v c : iwf v c -> imm_read_num_leases (iflat c) = Ok (i_n c).
Proof.
  intro Hw. unfold imm_read_num_leases. rewrite pread_prn, iflat_head.
  change (N.to_nat 8) with 8%nat. change (N.to_nat 4) with 4%nat.
  rewrite prn_exact' by (destruct Hw; auto). apply unpack_be_ok. destruct Hw; auto.
Qed.

Lemma irec_length v c i : iwf v c -> i < i_n c -> length (irec c i) = 72%nat.
Proof.
  intros Hw Hi. unfold irec. rewrite pread_prn. apply prn_length_inside.
  pose proof (iw_leases _ _ Hw) as Hl. unfold len in Hl. change (N.to_nat 72) with 72%nat. lia.
Qed.

Lemma pread_lease_flat v c i : iwf v c -> i < i_n c ->
  pread (iflat c) (i_lo c + i * IMM_LEASE_SIZE) IMM_LEASE_SIZE = irec c i.
Proof.
  intros Hw Hi. unfold irec, IMM_LEASE_SIZE. rewrite !pread_prn, iflat_leases.
  replace (N.to_nat (i_lo c + i * 72)) with (length (i_head c ++ i_cnt c ++ i_data c) + N.to_nat (i * 72))%nat.
  2:{ rewrite !app_length. unfold i_lo, len. destruct Hw. lia. }
  apply prn_app_skip.
Qed.

Lemma unser_immutable_ok r : length r = 72%nat -> unser_immutable r = Ok (parse_imm r).
Proof. intro Hl. unfold unser_immutable. rewrite Hl. reflexivity. Qed.

Lemma imm_read_leases_flat v c L : iwf v c -> (forall i, In i L -> i < i_n c) ->
  imm_read_leases (iflat c) (i_lo c) L = Ok (map (islot c) L).
Proof.
  intro Hw. induction L as [|i r IH]; intro HL; [reflexivity|].
  cbn [imm_read_leases map]. rewrite (pread_lease_flat v) by (auto; apply HL; left; reflexivity).
  pose proof (irec_length v c i Hw (HL i (or_introl eq_refl))) as Hl.
  destruct (irec c i) as [|x xs] eqn:Er; [discriminate|]. rewrite <- Er.
  rewrite unser_immutable_ok by (rewrite Er; exact Hl). rewrite IH by (intros; apply HL; right; assumption).
  reflexivity.
Qed.

Lemma imm_get_leases_flat v c : iwf v c -> imm_get_leases (iflat c) (i_lo c) = Ok (ileases c).
Proof.
  intro Hw. unfold imm_get_leases. rewrite (pread_head12 v c Hw).
  destruct (head12_fields v c Hw) as [_ E2]. rewrite E2.
  assert (Hl : length (i_head c ++ i_cnt c) = 12%nat) by (rewrite app_length; destruct Hw; lia).
  rewrite Hl. cbn [Nat.eqb]. apply (imm_read_leases_flat v); auto. intros i Hi. apply in_nseq. exact Hi.
Qed.

(* ---- serialisation --------------------------------------------------------------------------- *)
Lemma ser_immutable_ok l : l_owner l < 2 ^ 32 -> l_expire l < 2 ^ 32 ->
  exists b, ser_immutable l = Ok b /\ length b = 72%nat /\ parse_imm b = norm_imm l.
Proof.
  intros Ho He. unfold ser_immutable.
  rewrite (pack_be_ok 4 (l_owner l)) by exact Ho. rewrite (pack_be_ok 4 (l_expire l)) by exact He.
  eexists. split; [reflexivity|]. split.
  - rewrite !app_length, !be_length, !fit_length. reflexivity.
  - unfold parse_imm, norm_imm. rewrite !pread_prn.
    change (N.to_nat 0) with 0%nat. change (N.to_nat 4) with 4%nat. change (N.to_nat 32) with 32%nat.
    change (N.to_nat 36) with 36%nat. change (N.to_nat 68) with 68%nat.
    set (o := be 4 (l_owner l)). set (e := be 4 (l_expire l)).
    set (r := fit 32 (l_renew l)). set (c := fit 32 (l_cancel l)).
    assert (Lo : length o = 4%nat) by apply be_length. assert (Le : length e = 4%nat) by apply be_length.
    assert (Lr : length r = 32%nat) by apply fit_length. assert (Lc : length c = 32%nat) by apply fit_length.
    assert (E1 : prn (o ++ r ++ c ++ e) 0 4 = o).
    { apply (prn_exact' [] o (r ++ c ++ e)); auto. }
    assert (E2 : prn (o ++ r ++ c ++ e) 4 32 = r).
    { rewrite (prn_exact' o r); auto. }
    assert (E3 : prn (o ++ r ++ c ++ e) 36 32 = c).
    { rewrite (app_assoc o r). rewrite (prn_exact' (o ++ r) c); auto; try (rewrite !app_length; lia). }
    assert (E4 : prn (o ++ r ++ c ++ e) 68 4 = e).
    { rewrite (app_assoc o r), (app_assoc (o ++ r) c). rewrite <- (app_nil_r e) at 1.
      rewrite (prn_exact' ((o ++ r) ++ c) e); auto; try (rewrite !app_length; lia). }
    rewrite E1, E2, E3, E4. subst o e. rewrite !unbe_be by assumption. reflexivity.
Qed.

Record lease_wf_imm (l : lease) : Prop := {
  li_owner : l_owner l < 2 ^ 32; li_expire : l_expire l < 2 ^ 32;
  li_renew : length (l_renew l) = 32%nat; li_cancel : length (l_cancel l) = 32%nat;
  li_nodeid : l_nodeid l = [] }.

Lemma norm_imm_wf l : lease_wf_imm l -> norm_imm l = l.
Proof.
  intros [? ? Hr Hc Hn]. unfold norm_imm. rewrite (fit_id _ _ Hr), (fit_id _ _ Hc). destruct l; cbn in *. subst. reflexivity.
Qed.

Lemma parse_imm_wf r : length r = 72%nat -> bytes_ok r -> lease_wf_imm (parse_imm r).
Proof.
  intros Hl Hb. unfold parse_imm. constructor; cbn [l_owner l_expire l_renew l_cancel l_nodeid]; rewrite ?pread_prn; try reflexivity.
  - apply (unbe_prn_bound r 0 4 Hb). lia.
  - apply (unbe_prn_bound r 68 4 Hb). lia.
  - apply prn_length_inside. change (N.to_nat 4) with 4%nat. change (N.to_nat 32) with 32%nat. lia.
  - apply prn_length_inside. change (N.to_nat 36) with 36%nat. change (N.to_nat 32) with 32%nat. lia.
Qed.

Lemma islot_wf v c i : iwf v c -> bytes_ok (iflat c) -> i < i_n c -> lease_wf_imm (islot c i).
Proof.
  intros Hw Hb Hi. unfold islot. apply parse_imm_wf; [apply (irec_length v); assumption|].
  unfold irec, pread. apply bytes_ok_firstn, bytes_ok_skipn.
  unfold iflat in Hb. repeat (apply bytes_ok_app in Hb; destruct Hb as [_ Hb]). exact Hb.
Qed.

(* ---- writing records ------------------------------------------------------------------------------- *)
Definition set_ileases (c : IC) (l : list N) : IC := mkIC (i_head c) (i_cnt c) (i_data c) l.
Definition set_icnt_leases (c : IC) (b l : list N) : IC := mkIC (i_head c) b (i_data c) l.

Lemma imm_write_existing v c i b : iwf v c -> i < i_n c -> length b = 72%nat ->
  imm_write_lease_record (iflat c) (i_lo c) i (Ok b) =
  Done (iflat (set_ileases c (pwn (i_leases c) (N.to_nat (i * 72)) b))).
Proof.
  intros Hw Hi Hb. unfold imm_write_lease_record, IMM_LEASE_SIZE. f_equal. rewrite pwrite_pwn, iflat_leases.
  replace (N.to_nat (i_lo c + i * 72)) with (length (i_head c ++ i_cnt c ++ i_data c) + N.to_nat (i * 72))%nat.
  2:{ rewrite !app_length. unfold i_lo, len. destruct Hw. lia. }
  rewrite pwn_app_skip. rewrite (iflat_leases (set_ileases _ _)). reflexivity.
Qed.

Lemma iwf_set_ileases v c l : iwf v c -> length l = length (i_leases c) -> iwf v (set_ileases c l).
Proof. intros [? ? ? Hl] He. constructor; auto. unfold len, i_n in *. cbn [i_leases i_cnt set_ileases]. rewrite He. exact Hl. Qed.

Lemma irec_set v c i b j : iwf v c -> i < i_n c -> length b = 72%nat -> j < i_n c ->
  irec (set_ileases c (pwn (i_leases c) (N.to_nat (i * 72)) b)) j = if j =? i then b else irec c j.
Proof.
  intros Hw Hi Hb Hj. unfold irec. cbn [i_leases set_ileases]. rewrite !pread_prn. change (N.to_nat 72) with 72%nat.
  pose proof (iw_leases _ _ Hw) as Hl. unfold len in Hl.
  destruct (N.eqb_spec j i) as [->|Hne].
  - rewrite <- Hb. apply prn_pwn_same. lia.
  - apply prn_pwn_other; lia.
Qed.

Lemma imm_add_flat v c b : iwf v c -> i_n c + 1 < 2 ^ 32 -> length b = 72%nat ->
  obind (imm_write_lease_record (iflat c) (i_lo c) (i_n c) (Ok b)) (fun g => Done (pwrite g 8 (be 4 (i_n c + 1))))
  = Done (iflat (set_icnt_leases c (be 4 (i_n c + 1)) (i_leases c ++ b))).
Proof.
  intros Hw Hn Hb. unfold imm_write_lease_record, IMM_LEASE_SIZE. cbn [obind]. f_equal.
  rewrite (pwrite_pwn (iflat c)).
  replace (N.to_nat (i_lo c + i_n c * 72)) with (length (iflat c)).
  2:{ rewrite (iflat_length v c Hw). unfold i_lo, len. lia. }
  rewrite pwn_at_end. rewrite pwrite_pwn. change (N.to_nat 8) with 8%nat.
  unfold iflat. rewrite <- !app_assoc. rewrite pwn_exact'.
  - reflexivity.
  - destruct Hw; auto.
  - rewrite be_length. destruct Hw; auto.
Qed.

Lemma iwf_append v c b : iwf v c -> i_n c + 1 < 2 ^ 32 -> length b = 72%nat ->
  iwf v (set_icnt_leases c (be 4 (i_n c + 1)) (i_leases c ++ b)).
Proof.
  intros [? ? ? Hl] Hn Hb. constructor; auto; try apply be_length.
  unfold i_n in *. cbn [i_cnt i_leases set_icnt_leases].
  rewrite unbe_be by (change (256 ^ N.of_nat 4) with (2 ^ 32); exact Hn). rewrite len_app. unfold len in *. lia.
Qed.

Lemma i_n_append c b : i_n c + 1 < 2 ^ 32 -> i_n (set_icnt_leases c (be 4 (i_n c + 1)) (i_leases c ++ b)) = i_n c + 1.
Proof. intro Hn. unfold i_n. cbn [i_cnt set_icnt_leases]. apply unbe_be. change (256 ^ N.of_nat 4) with (2 ^ 32). exact Hn. Qed.

Lemma irec_append v c b j : iwf v c -> length b = 72%nat -> j <= i_n c ->
  irec (set_icnt_leases c (be 4 (i_n c + 1)) (i_leases c ++ b)) j = if j =? i_n c then b else irec c j.
Proof.
  intros Hw Hb Hj. unfold irec. cbn [i_leases set_icnt_leases]. rewrite !pread_prn. change (N.to_nat 72) with 72%nat.
  pose proof (iw_leases _ _ Hw) as Hl. unfold len in Hl.
  destruct (N.eqb_spec j (i_n c)) as [->|Hne].
  - replace (N.to_nat (i_n c * 72)) with (length (i_leases c)) by lia. rewrite <- Hb. apply prn_app_end.
  - apply prn_inside. lia.
Qed.

(* ---- list-level view of the scan -------------------------------------------------------------------- *)
Section WithHash.
Variable H : list N -> list N.

Lemma renew_first_length v ls s t ls' : renew_first H v ls s t = Some ls' -> length ls' = length ls.
Proof.
  revert ls'; induction ls as [|l r IH]; intros ls' Hr; [discriminate|]. cbn [renew_first] in Hr.
  destruct (is_renew_secret H v l s); [inversion Hr; reflexivity|].
  destruct (renew_first H v r s t) as [x|]; [|discriminate]. inversion Hr. cbn. f_equal. apply IH. reflexivity.
Qed.

Lemma renew_first_none v ls s t : renew_first H v ls s t = None <-> no_match H v ls s = true.
Proof.
  unfold no_match. induction ls as [|l r IH]; [cbn; tauto|]. cbn [renew_first forallb].
  destruct (is_renew_secret H v l s); cbn [negb andb]; [split; discriminate|].
  destruct (renew_first H v r s t); cbn [option_map]; [split; [discriminate|intro Hx; apply IH in Hx; discriminate]|].
  split; intro; [apply IH|]; reflexivity.
Qed.

(* imm_renew_scan over the leases of slots i0, i0+1, ... *)
Lemma imm_renew_scan_spec v f lo s t (g : N -> lease) : forall (m : nat) (i0 : N),
  let ls := map g (map (fun k => i0 + N.of_nat k) (seq 0 m)) in
  imm_renew_scan H v f lo i0 ls s t =
  match find (fun k => is_renew_secret H v (g (i0 + N.of_nat k)) s) (seq 0 m) with
  | None => Raised f EIndex
  | Some k => let i := i0 + N.of_nat k in
              if l_expire (g i) <? t then imm_write_lease_record f lo i (ser_immutable (set_expire (g i) t)) else Done f
  end.
Proof.
  induction m as [|m IH]; intro i0; [reflexivity|].
  cbn zeta. rewrite <- cons_seq. cbn [map imm_renew_scan find]. change (N.of_nat 0) with 0. rewrite !N.add_0_r.
  destruct (is_renew_secret H v (g i0) s) eqn:E; [cbn zeta; change (N.of_nat 0) with 0; rewrite !N.add_0_r; reflexivity|].
  rewrite <- seq_shift, !map_map. specialize (IH (i0 + 1)). cbn zeta in IH.
  assert (Em : map (fun x => g (i0 + N.of_nat (S x))) (seq 0 m) = map g (map (fun k => i0 + 1 + N.of_nat k) (seq 0 m))).
  { rewrite map_map. apply map_ext. intro k. f_equal. lia. }
  rewrite Em, IH.
  assert (Ef : find (fun k => is_renew_secret H v (g (i0 + N.of_nat k)) s) (map S (seq 0 m))
               = option_map S (find (fun k => is_renew_secret H v (g (i0 + 1 + N.of_nat k)) s) (seq 0 m))).
  { generalize (seq 0 m). intro L. induction L as [|k L IHL]; [reflexivity|]. cbn [map find].
    replace (i0 + N.of_nat (S k)) with (i0 + 1 + N.of_nat k) by lia.
    destruct (is_renew_secret H v (g (i0 + 1 + N.of_nat k)) s); [reflexivity|exact IHL]. }
  rewrite Ef. destruct (find _ (seq 0 m)) as [k|]; cbn [option_map]; [|reflexivity].
  replace (i0 + N.of_nat (S k)) with (i0 + 1 + N.of_nat k) by lia. reflexivity.
Qed.

(* the same find, on the list of leases *)
Lemma renew_first_find v (g : N -> lease) s t (m : nat) :
  let ls := map g (nseq (N.of_nat m)) in
  match find (fun k => is_renew_secret H v (g (N.of_nat k)) s) (seq 0 m) with
  | None => renew_first H v ls s t = None
  | Some k => (k < m)%nat /\ is_renew_secret H v (g (N.of_nat k)) s = true /\
              renew_first H v ls s t =
              Some (map (fun j => if j =? N.of_nat k then renewed (g j) t else g j) (nseq (N.of_nat m)))
  end.
Proof.
  cbn zeta. unfold nseq. rewrite Nat2N.id.
  assert (Hgen : forall (L : list nat), NoDup L ->
     match find (fun k => is_renew_secret H v (g (N.of_nat k)) s) L with
     | None => renew_first H v (map g (map N.of_nat L)) s t = None
     | Some k => In k L /\ is_renew_secret H v (g (N.of_nat k)) s = true /\
                 renew_first H v (map g (map N.of_nat L)) s t =
                 Some (map (fun j => if j =? N.of_nat k then renewed (g j) t else g j) (map N.of_nat L))
     end).
  { induction L as [|k L IHL]; intro Hnd; [reflexivity|]. inversion Hnd as [|? ? Hnin Hnd']; subst.
    cbn [find map renew_first]. destruct (is_renew_secret H v (g (N.of_nat k)) s) eqn:E.
    - split; [left; reflexivity|]. split; [exact E|]. rewrite N.eqb_refl. f_equal. f_equal.
      rewrite !map_map. apply map_ext_in. intros j Hj. destruct (N.eqb_spec (N.of_nat j) (N.of_nat k)); [|reflexivity].
      assert (j = k) by lia. subst. contradiction.
    - specialize (IHL Hnd'). destruct (find _ L) as [k'|].
      + destruct IHL as (Hin & Hm & Hr). split; [right; exact Hin|]. split; [exact Hm|]. rewrite Hr. cbn [option_map].
        destruct (N.eqb_spec (N.of_nat k) (N.of_nat k')); [|reflexivity].
        assert (k = k') by lia. subst. contradiction.
      + rewrite IHL. reflexivity. }
  specialize (Hgen (seq 0 m) (seq_NoDup m 0)).
  destruct (find _ (seq 0 m)) as [k|]; [|exact Hgen].
  destruct Hgen as (Hin & Hm & Hr). apply in_seq in Hin. split; [lia|]. split; [exact Hm|exact Hr].
Qed.

End WithHash.
