(* C18: read-only authority is transitive along paths; the read-cap holder's
   view is a function of names, read-cap fields and metadata only. *)
From Coq Require Import List NArith ZArith Bool Lia.
From Verif Require Import Lib.Hex Lib.Netstring Lib.HashPrim Gen.Hashutil
     Model.Dirnode Proofs.DirnodeBase Proofs.DirnodeCaps Proofs.DirnodePack.
Import ListNotations.
Local Open Scope N_scope.

Section TreeFacts.
  Variable classify : bytes -> capclass.
  Variable normalize : bytes -> bytes.
  Variable MD : Type.
  Variable dumps : MD -> bytes.
  Variable loads : bytes -> option MD.
  Variable enc dec : bytes -> bytes -> bytes.
  Hypothesis normalize_idem : forall x, normalize (normalize x) = normalize x.
  Hypothesis loads_dumps : forall m, loads (dumps m) = Some m.
  Hypothesis dec_enc : forall k d, dec k (enc k d) = d.
  Variable contents : bytes -> option bytes.
  Variable writekey_of : bytes -> bytes.

  Local Notation pack_normalized := (pack_normalized MD dumps enc).
  Local Notation unpack_contents := (unpack_contents classify normalize MD loads dec).
  Local Notation list_dir := (list_dir classify normalize MD loads dec contents writekey_of).
  Local Notation walk := (walk classify normalize MD loads dec contents writekey_of).

  (* Every mutable directory on the grid holds what the packer wrote for a
     directory whose children are reproducible nodes outside the excluded class.
     Immutable directories may hold anything. *)
  Definition grid_ok : Prop :=
    forall n r data, is_dir n = true -> n_mut n = true -> n_ro n = Some r -> contents r = Some data ->
      exists wk (m : smap (node * MD)),
        sm_sorted m = true /\ names_normal normalize MD m /\
        all_nodes MD (stableb classify) m /\ all_nodes MD (ro_slot_okb classify) m /\
        pack_normalized (fresh MD m) (Some wk) false = inr data.

  Lemma in_with_aux g wk di (m : smap (node * MD)) k c :
    In (k, c) (with_aux MD dumps enc g wk di m) -> exists n md, In (k, (n, md)) m /\ c_node MD c = g n.
  Proof.
    unfold with_aux, kvmap. rewrite in_map_iff. intros ([k0 [n md]] & E & Hin). cbn [fst snd] in E.
    inversion E; subst. exists n, md. split; [exact Hin|reflexivity].
  Qed.

  (* one step: every child listed through a read-only directory node is read-only *)
  Theorem ro_dir_children_readonly (n : node) children :
    caps_coherent classify -> grid_ok ->
    has_rw n = false ->
    list_dir n = Some (inr children) ->
    forall k c, In (k, c) children -> has_rw (c_node MD c) = false.
  Proof.
    intros Hco Hgrid Hro Hl k c Hin.
    unfold Dirnode.list_dir in Hl.
    destruct (is_dir n) eqn:Ed; [|discriminate].
    destruct (n_ro n) as [r|] eqn:Er; [|discriminate].
    destruct (contents r) as [data|] eqn:Ec; [|discriminate].
    inversion Hl as [Hu]. clear Hl. rewrite Hro in Hu.
    unfold has_rw.
    destruct (n_mut n) eqn:Em.
    - destruct (Hgrid n r data Ed Em Er Ec) as (wk & m & Hs & Hn & Hst & Hslot & Hp).
      destruct (ro_unpack_map classify normalize MD dumps loads enc dec loads_dumps
                              wk (match n_rw n with Some w => writekey_of w | None => [] end) m Hco Hs Hn Hst Hslot)
        as (data' & Hp' & Hu' & Hall).
      rewrite Hp in Hp'. inversion Hp'; subst data'.
      rewrite Hu' in Hu. inversion Hu; subst children.
      destruct (in_with_aux _ _ _ _ _ _ Hin) as (n0 & md & Hin0 & ->).
      rewrite (proj2 (Hall _ _ _ Hin0)). reflexivity.
    - rewrite (immutable_dir_children_no_rw classify normalize MD loads dec _ _ _ _ Hu _ _ Hin). reflexivity.
  Qed.

  (* induction on the length of the path *)
  Theorem walk_readonly :
    caps_coherent classify -> grid_ok ->
    forall path n n', has_rw n = false -> walk n path = Some n' -> has_rw n' = false.
  Proof.
    intros Hco Hgrid. induction path as [|namex rest IH]; intros n n' Hro Hw; cbn [Dirnode.walk] in Hw.
    - inversion Hw; subst. exact Hro.
    - destruct (list_dir n) as [[e|children]|] eqn:El; try discriminate.
      destruct (sm_get (normalize namex) children) as [c|] eqn:Eg; [|discriminate].
      eapply IH; [|exact Hw].
      eapply ro_dir_children_readonly; try eassumption.
      apply sm_get_in. exact Eg.
  Qed.
End TreeFacts.
