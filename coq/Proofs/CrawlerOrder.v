(* Order on bucket names, sorting, and the per-directory step of the crawler
   (process_prefixdir).  Used by Proofs/Crawler.v. *)
From Coq Require Import List NArith Bool Arith Lia Sorting.Sorted.
From Verif Require Import Model.Crawler.
Import ListNotations.

(* ---------- name_leb is a total order ---------- *)

Lemma name_leb_refl a : name_leb a a = true.
Proof.
  induction a as [|x a IH]; cbn; [reflexivity|].
  rewrite N.ltb_irrefl, N.eqb_refl. exact IH.
Qed.

Lemma name_leb_total a b : name_leb a b = true \/ name_leb b a = true.
Proof.
  revert b; induction a as [|x a IH]; intros [|y b]; cbn; auto.
  destruct (N.ltb_spec x y), (N.ltb_spec y x); auto; try lia.
  assert (x = y) by lia; subst. rewrite N.eqb_refl. apply IH.
Qed.

Lemma name_leb_trans a b c : name_leb a b = true -> name_leb b c = true -> name_leb a c = true.
Proof.
  revert b c; induction a as [|x a IH]; intros [|y b] [|z c]; cbn; auto; try discriminate.
  destruct (N.ltb_spec x y), (N.ltb_spec y z), (N.ltb_spec x z); auto; try lia;
    destruct (N.eqb_spec x y), (N.eqb_spec y z), (N.eqb_spec x z); auto; try lia; try discriminate.
  apply IH.
Qed.

Lemma name_leb_antisym a b : name_leb a b = true -> name_leb b a = true -> a = b.
Proof.
  revert b; induction a as [|x a IH]; intros [|y b]; cbn; auto; try discriminate.
  destruct (N.ltb_spec x y), (N.ltb_spec y x); try lia; try discriminate;
    destruct (N.eqb_spec x y), (N.eqb_spec y x); try lia; try discriminate.
  intros H1 H2. subst. f_equal. apply IH; assumption.
Qed.

(* strict order *)
Definition nlt (a b : name) : Prop := name_leb b a = false.

Lemma nlt_leb a b : nlt a b -> name_leb a b = true.
Proof. unfold nlt; intros H. destruct (name_leb_total a b) as [E|E]; [exact E|congruence]. Qed.

Lemma nlt_irrefl a : ~ nlt a a.
Proof. unfold nlt. rewrite name_leb_refl. discriminate. Qed.

Lemma leb_nlt_trans a b c : name_leb a b = true -> nlt b c -> nlt a c.
Proof.
  unfold nlt; intros H1 H2. destruct (name_leb c a) eqn:E; [|reflexivity].
  rewrite (name_leb_trans c a b E H1) in H2. discriminate.
Qed.

Lemma nlt_leb_trans a b c : nlt a b -> name_leb b c = true -> nlt a c.
Proof.
  unfold nlt; intros H1 H2. destruct (name_leb c a) eqn:E; [|reflexivity].
  rewrite (name_leb_trans b c a H2 E) in H1. discriminate.
Qed.

Lemma nlt_trans a b c : nlt a b -> nlt b c -> nlt a c.
Proof. intros H1 H2. eapply leb_nlt_trans; [apply nlt_leb; exact H1|exact H2]. Qed.

Lemma leb_neq_nlt a b : name_leb a b = true -> a <> b -> nlt a b.
Proof.
  unfold nlt; intros H N. destruct (name_leb b a) eqn:E; [|reflexivity].
  exfalso; apply N; apply name_leb_antisym; assumption.
Qed.

(* Names that begin with different, equally long directory prefixes compare as
   the prefixes do. *)
Lemma prefix_order p q : length p = length q -> nlt p q ->
  forall a b, is_prefix p a = true -> is_prefix q b = true -> nlt a b.
Proof.
  unfold nlt. revert q; induction p as [|x p IH]; intros [|y q] L H a b Ha Hb; cbn in *; try discriminate.
  destruct a as [|x' a]; [discriminate|]. destruct b as [|y' b]; [discriminate|].
  apply andb_true_iff in Ha as [Hx Ha]. apply andb_true_iff in Hb as [Hy Hb].
  apply N.eqb_eq in Hx, Hy. subst x' y'. cbn.
  destruct (N.ltb y x); [discriminate|].
  destruct (N.eqb y x); [|reflexivity].
  apply (IH q); [injection L; auto|exact H|exact Ha|exact Hb].
Qed.

(* ---------- buckets.sort() ---------- *)

Lemma insert_In x l y : In y (insert x l) <-> y = x \/ In y l.
Proof.
  induction l as [|z l IH]; cbn.
  - intuition.
  - destruct (name_leb x z); cbn; [intuition|]. rewrite IH. intuition.
Qed.

Lemma isort_In l y : In y (isort l) <-> In y l.
Proof.
  induction l as [|z l IH]; cbn; [tauto|]. rewrite insert_In, IH. intuition.
Qed.

Lemma insert_sorted x l : StronglySorted nlt l -> ~ In x l -> StronglySorted nlt (insert x l).
Proof.
  induction l as [|z l IH]; intros S NI; cbn.
  - constructor; constructor.
  - inversion S as [|? ? S' F]; subst.
    destruct (name_leb x z) eqn:E.
    + assert (nlt x z) by (apply leb_neq_nlt; [exact E|intros ->; apply NI; left; reflexivity]).
      constructor; [exact S|]. constructor; [assumption|].
      rewrite Forall_forall in *. intros w Hw. eapply nlt_trans; eauto.
    + constructor.
      * apply IH; [exact S'|]. intros I; apply NI; right; exact I.
      * rewrite Forall_forall in *. intros w Hw. apply insert_In in Hw as [->|Hw]; [exact E|auto].
Qed.

Lemma isort_sorted l : NoDup l -> StronglySorted nlt (isort l).
Proof.
  induction 1 as [|x l NI ND IH]; cbn; [constructor|].
  apply insert_sorted; [exact IH|]. rewrite isort_In. exact NI.
Qed.

Lemma sorted_NoDup l : StronglySorted nlt l -> NoDup l.
Proof.
  induction 1 as [|x l S IH F]; constructor; [|exact IH].
  intros I. rewrite Forall_forall in F. exact (nlt_irrefl x (F x I)).
Qed.

(* ---------- process_prefixdir ---------- *)

Definition notskip (lcb : option name) (b : name) : bool := negb (skips lcb b).

Lemma filter_all_true {A} (f : A -> bool) l : (forall x, In x l -> f x = true) -> filter f l = l.
Proof.
  induction l as [|a l IH]; intros H; cbn; [reflexivity|].
  rewrite (H a (or_introl eq_refl)). f_equal. apply IH. intros; apply H; right; assumption.
Qed.

Lemma notskip_above lcb b e : skips lcb b = false -> nlt b e -> notskip lcb e = true.
Proof.
  unfold notskip, skips. destruct lcb as [l|]; [|reflexivity].
  intros H1 H2. assert (nlt l e) by (eapply nlt_trans; [exact H1|exact H2]).
  unfold nlt in H. rewrite H. reflexivity.
Qed.

Lemma ppd_spec c i d : StronglySorted nlt d ->
  forall lcb o evs lcb' o' x,
  process_prefixdir c i d lcb o = (evs, lcb', o', x) ->
  exists done rest,
    filter (notskip lcb) d = done ++ rest /\
    evs = map (EProc c i) done /\
    (x = false -> rest = []) /\
    filter (notskip lcb') d = rest /\
    (lcb' = lcb \/ exists b, lcb' = Some b /\ In b d /\ notskip lcb b = true).
Proof.
  induction 1 as [|b r S IH F]; intros lcb o evs lcb' o' x H; cbn in H.
  - inversion H; subst. exists [], []. cbn. intuition.
  - rewrite Forall_forall in F.
    destruct (skips lcb b) eqn:Sk.
    + destruct (IH _ _ _ _ _ _ H) as (done & rest & H1 & H2 & H3 & H4 & H5).
      exists done, rest. cbn. unfold notskip at 1. rewrite Sk. cbn.
      split; [exact H1|]. split; [exact H2|]. split; [exact H3|]. split.
      * assert (notskip lcb' b = false) as ->; [|exact H4].
        unfold notskip. destruct H5 as [->|(b2 & -> & I2 & _)]; [rewrite Sk; reflexivity|].
        cbn. rewrite (nlt_leb _ _ (F b2 I2)). reflexivity.
      * destruct H5 as [?|(b2 & ? & I2 & N2)]; [left; assumption|right].
        exists b2. split; [assumption|]. split; [right; exact I2|exact N2].
    + assert (R1 : filter (notskip lcb) r = r).
      { apply filter_all_true. intros e He. eapply notskip_above; [exact Sk|apply F; exact He]. }
      assert (R2 : filter (notskip (Some b)) r = r).
      { apply filter_all_true. intros e He. unfold notskip; cbn. rewrite (F e He). reflexivity. }
      assert (NB : notskip lcb b = true) by (unfold notskip; rewrite Sk; reflexivity).
      destruct (tick o) as [up o1] eqn:T. destruct up.
      * inversion H; subst. exists [b], r. cbn. rewrite NB. rewrite R1.
        split; [reflexivity|]. split; [reflexivity|]. split; [discriminate|]. split.
        -- unfold notskip at 1. cbn. rewrite name_leb_refl. cbn. exact R2.
        -- right. exists b. split; [reflexivity|]. split; [left; reflexivity|exact NB].
      * destruct (process_prefixdir c i r (Some b) o1) as [[[ev1 l1] o2] x1] eqn:P.
        inversion H; subst.
        destruct (IH _ _ _ _ _ _ P) as (done & rest & H1 & H2 & H3 & H4 & H5).
        exists (b :: done), rest. cbn. rewrite NB. rewrite R1. rewrite R2 in H1.
        split; [f_equal; exact H1|]. split; [f_equal; exact H2|]. split; [exact H3|]. split.
        -- assert (notskip lcb' b = false) as ->; [|exact H4].
           unfold notskip. destruct H5 as [->|(b2 & -> & I2 & _)]; cbn.
           ++ rewrite name_leb_refl; reflexivity.
           ++ rewrite (nlt_leb _ _ (F b2 I2)). reflexivity.
        -- right. destruct H5 as [->|(b2 & -> & I2 & N2)].
           ++ exists b. split; [reflexivity|]. split; [left; reflexivity|exact NB].
           ++ exists b2. split; [reflexivity|]. split; [right; exact I2|].
              eapply notskip_above; [exact Sk|apply F; exact I2].
Qed.
