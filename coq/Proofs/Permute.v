(* Proofs about Model/Permute.v (C32). *)
From Coq Require Import List NArith Bool Lia Permutation Sorted Arith PeanoNat.
From Verif Require Import Lib.Hex Lib.SHA256 Lib.Sig Gen.Hashutil Model.GridManager Model.Permute Proofs.GridManager.
Import ListNotations.
Local Open Scope N_scope.

(* ---- the order on keys is a total order ---- *)
Lemma bytes_leb_refl : forall a, bytes_leb a a = true.
Proof.
  induction a as [|x a IH]; cbn; [reflexivity|]. rewrite N.ltb_irrefl. exact IH.
Qed.

Lemma bytes_leb_total : forall a b, bytes_leb a b = true \/ bytes_leb b a = true.
Proof.
  induction a as [|x a IH]; intros [|y b]; cbn; auto.
  destruct (N.ltb_spec x y); auto.
  destruct (N.ltb_spec y x); auto.
Qed.

Lemma bytes_leb_trans : forall a b c, bytes_leb a b = true -> bytes_leb b c = true -> bytes_leb a c = true.
Proof.
  induction a as [|x a IH]; intros [|y b] [|z c]; cbn; auto; try discriminate.
  destruct (N.ltb_spec x y), (N.ltb_spec y x), (N.ltb_spec y z), (N.ltb_spec z y),
           (N.ltb_spec x z), (N.ltb_spec z x); try discriminate; try lia; auto.
  apply IH.
Qed.

Lemma bytes_leb_antisym : forall a b, bytes_leb a b = true -> bytes_leb b a = true -> a = b.
Proof.
  induction a as [|x a IH]; intros [|y b]; cbn; auto; try discriminate.
  destruct (N.ltb_spec x y), (N.ltb_spec y x); try discriminate; try lia.
  intros H1 H2. assert (x = y) by lia. subst. f_equal. apply IH; assumption.
Qed.

Lemma key_leb_refl : forall k, key_leb k k = true.
Proof. intros [[|] h]; cbn; apply bytes_leb_refl. Qed.

Lemma key_leb_total : forall a b, key_leb a b = true \/ key_leb b a = true.
Proof. intros [[|] h] [[|] h']; cbn; auto; apply bytes_leb_total. Qed.

Lemma key_leb_trans : forall a b c, key_leb a b = true -> key_leb b c = true -> key_leb a c = true.
Proof.
  intros [[|] h] [[|] h'] [[|] h'']; cbn; auto; try discriminate; apply bytes_leb_trans.
Qed.

Lemma key_leb_antisym : forall a b, key_leb a b = true -> key_leb b a = true -> a = b.
Proof.
  intros [[|] h] [[|] h']; cbn; try discriminate; intros H1 H2; f_equal; apply bytes_leb_antisym; assumption.
Qed.

(* ---- generic facts about sorted(key=...) ---- *)
Section SortFacts.
  Variables K A : Type.
  Variable leb : K -> K -> bool.
  Hypothesis leb_total : forall a b, leb a b = true \/ leb b a = true.
  Hypothesis leb_trans : forall a b c, leb a b = true -> leb b c = true -> leb a c = true.

  Definition Rk (x y : K * A) : Prop := leb (fst x) (fst y) = true.

  Lemma insert_by_perm : forall (x : K * A) l, Permutation (x :: l) (insert_by leb x l).
  Proof.
    intros x. induction l as [|y r IH]; cbn; [reflexivity|].
    destruct (leb (fst x) (fst y)); [reflexivity|].
    rewrite perm_swap. apply perm_skip. exact IH.
  Qed.

  Lemma sort_by_perm : forall (l : list (K * A)), Permutation l (sort_by leb l).
  Proof.
    induction l as [|x l IH]; cbn; [reflexivity|].
    rewrite <- insert_by_perm. apply perm_skip. exact IH.
  Qed.

  Lemma insert_by_sorted : forall (x : K * A) l, StronglySorted Rk l -> StronglySorted Rk (insert_by leb x l).
  Proof.
    intros x. induction l as [|y r IH]; intros S; cbn.
    - constructor; constructor.
    - inversion S as [|? ? Sr Fy]; subst.
      destruct (leb (fst x) (fst y)) eqn:E.
      + constructor; [exact S|]. constructor; [exact E|].
        rewrite Forall_forall in *. intros z Iz. unfold Rk in *. eapply leb_trans; [exact E|]. apply Fy. exact Iz.
      + constructor; [apply IH; exact Sr|].
        rewrite Forall_forall in *. intros z Iz.
        apply (Permutation_in _ (Permutation_sym (insert_by_perm x r))) in Iz.
        destruct Iz as [<-|Iz].
        * unfold Rk. destruct (leb_total (fst x) (fst y)); congruence.
        * apply Fy. exact Iz.
  Qed.

  Lemma sort_by_sorted : forall (l : list (K * A)), StronglySorted Rk (sort_by leb l).
  Proof.
    induction l as [|x l IH]; cbn; [constructor|]. apply insert_by_sorted. exact IH.
  Qed.

  (* a sorted list is determined by its elements when the order is antisymmetric on them *)
  Lemma sorted_perm_unique : forall l1 l2,
    StronglySorted Rk l1 -> StronglySorted Rk l2 -> Permutation l1 l2 ->
    (forall a b, In a l1 -> In b l1 -> Rk a b -> Rk b a -> a = b) ->
    l1 = l2.
  Proof.
    induction l1 as [|a l1 IH]; intros l2 S1 S2 P AS.
    - apply Permutation_nil in P. congruence.
    - destruct l2 as [|b l2]; [apply Permutation_sym, Permutation_nil in P; discriminate|].
      inversion S1 as [|? ? S1' F1]; inversion S2 as [|? ? S2' F2]; subst.
      rewrite Forall_forall in F1, F2.
      assert (Ib : In b (a :: l1)) by (apply (Permutation_in _ (Permutation_sym P)); cbn; auto).
      assert (Ia : In a (b :: l2)) by (apply (Permutation_in _ P); cbn; auto).
      assert (Raa : forall z, Rk z z) by (intros z; unfold Rk; destruct (leb_total (fst z) (fst z)); assumption).
      assert (Rab : Rk a b) by (destruct Ib as [<-|Ib]; [apply Raa|apply F1; exact Ib]).
      assert (Rba : Rk b a) by (destruct Ia as [<-|Ia]; [apply Raa|apply F2; exact Ia]).
      assert (a = b) by (apply AS; cbn; auto). subst b.
      f_equal. apply IH; try assumption.
      + eapply Permutation_cons_inv. exact P.
      + intros x y Ix Iy. apply AS; cbn; auto.
  Qed.

  Lemma strongly_sorted_before : forall (R : K * A -> K * A -> Prop) l1 s l2,
    StronglySorted R (l1 ++ s :: l2) -> Forall (fun t => R t s) l1.
  Proof.
    intros R. induction l1 as [|t l1 IH]; intros s l2 S; [constructor|].
    cbn in S. inversion S as [|? ? S' F]; subst. constructor.
    - rewrite Forall_forall in F. apply F. apply in_or_app. right. cbn. auto.
    - eapply IH. exact S'.
  Qed.
End SortFacts.

(* the same for an undecorated list sorted by a key function *)
Section ByKey.
  Variables K A : Type.
  Variable leb : K -> K -> bool.
  Variable f : A -> K.
  Hypothesis leb_total : forall a b, leb a b = true \/ leb b a = true.
  Hypothesis leb_trans : forall a b c, leb a b = true -> leb b c = true -> leb a c = true.
  Hypothesis leb_antisym : forall a b, leb a b = true -> leb b a = true -> a = b.

  Definition Rf (x y : A) : Prop := leb (f x) (f y) = true.
  Notation dec l := (map (fun a => (f a, a)) l).

  Lemma dec_snd : forall l, map snd (dec l) = l.
  Proof. induction l as [|a l IH]; cbn; congruence. Qed.

  Lemma sorted_by_key_perm : forall l, Permutation l (sorted_by_key leb f l).
  Proof.
    intros l. unfold sorted_by_key. rewrite <- (dec_snd l) at 1.
    apply Permutation_map. apply sort_by_perm.
  Qed.

  Lemma decorated_ok : forall l p, In p (sort_by leb (dec l)) -> fst p = f (snd p).
  Proof.
    intros l p I. apply (Permutation_in _ (Permutation_sym (sort_by_perm _ _ leb (dec l)))) in I.
    apply in_map_iff in I. destruct I as [a [<- _]]. reflexivity.
  Qed.

  Lemma map_snd_sorted : forall d, (forall p, In p d -> fst p = f (snd p)) ->
    StronglySorted (Rk K A leb) d -> StronglySorted Rf (map snd d).
  Proof.
    induction d as [|p d IH]; intros OK S; cbn; [constructor|].
    inversion S as [|? ? S' F]; subst. constructor.
    - apply IH; [intros q Iq; apply OK; cbn; auto|exact S'].
    - rewrite Forall_forall in *. intros y Iy. apply in_map_iff in Iy. destruct Iy as [q [<- Iq]].
      unfold Rf. rewrite <- (OK p), <- (OK q); cbn; auto. apply F. exact Iq.
  Qed.

  Lemma sorted_by_key_sorted : forall l, StronglySorted Rf (sorted_by_key leb f l).
  Proof.
    intros l. unfold sorted_by_key. apply map_snd_sorted.
    - apply decorated_ok.
    - apply sort_by_sorted; assumption.
  Qed.

  Lemma nodup_map_inj : forall (l : list A), NoDup (map f l) ->
    forall a b, In a l -> In b l -> f a = f b -> a = b.
  Proof.
    induction l as [|x l IH]; intros ND a b Ia Ib E; [destruct Ia|].
    cbn in ND. inversion ND as [|? ? NI ND']; subst.
    destruct Ia as [<-|Ia], Ib as [<-|Ib]; auto.
    - exfalso. apply NI. rewrite E. apply in_map. exact Ib.
    - exfalso. apply NI. rewrite <- E. apply in_map. exact Ia.
  Qed.

  (* injective keys: the result does not depend on the enumeration order *)
  Lemma sorted_by_key_unique : forall l1 l2,
    Permutation l1 l2 -> NoDup (map f l1) ->
    sorted_by_key leb f l1 = sorted_by_key leb f l2.
  Proof.
    intros l1 l2 P ND. unfold sorted_by_key. f_equal.
    apply (sorted_perm_unique K A leb leb_total).
    - apply sort_by_sorted; assumption.
    - apply sort_by_sorted; assumption.
    - rewrite <- (sort_by_perm _ _ leb (dec l1)), <- (sort_by_perm _ _ leb (dec l2)).
      apply Permutation_map. exact P.
    - intros p q Ip Iq Rpq Rqp.
      apply (Permutation_in _ (Permutation_sym (sort_by_perm _ _ leb (dec l1)))) in Ip, Iq.
      apply in_map_iff in Ip, Iq. destruct Ip as [a [<- Ia]], Iq as [b [<- Ib]].
      unfold Rk in Rpq, Rqp. cbn in Rpq, Rqp.
      assert (E : f a = f b) by (apply leb_antisym; assumption).
      rewrite (nodup_map_inj l1 ND a b Ia Ib E). reflexivity.
  Qed.
End ByKey.

(* ---- small list facts ---- *)
Lemma filter_perm : forall (A : Type) (p : A -> bool) l l', Permutation l l' -> Permutation (filter p l) (filter p l').
Proof.
  intros A p l l' P. induction P; cbn.
  - reflexivity.
  - destruct (p x); [apply perm_skip|]; assumption.
  - destruct (p x), (p y); try reflexivity; try apply perm_swap.
  - etransitivity; eassumption.
Qed.

Lemma existsb_perm : forall (A : Type) (p : A -> bool) l l', Permutation l l' -> existsb p l = existsb p l'.
Proof.
  intros A p l l' P. apply eq_true_iff_eq. rewrite !existsb_exists. split; intros [x [I H]]; exists x; split; auto.
  - eapply Permutation_in; eassumption.
  - eapply Permutation_in; [apply Permutation_sym|]; eassumption.
Qed.

Lemma nodup_map_filter : forall (A B : Type) (f : A -> B) (p : A -> bool) l,
  NoDup (map f l) -> NoDup (map f (filter p l)).
Proof.
  intros A B f p. induction l as [|x l IH]; cbn; intros ND; [constructor|].
  inversion ND as [|? ? NI ND']; subst. destruct (p x); cbn.
  - constructor; [|apply IH; exact ND'].
    intros I. apply NI. apply in_map_iff in I. destruct I as [y [E Iy]]. apply filter_In in Iy.
    apply in_map_iff. exists y. tauto.
  - apply IH. exact ND'.
Qed.

Lemma firstn_incl : forall (A : Type) n (l : list A) x, In x (firstn n l) -> In x l.
Proof.
  intros A. induction n as [|n IH]; intros [|y l] x I; cbn in I; try contradiction.
  destruct I as [->|I]; cbn; auto.
Qed.

Lemma outcome_eqb_eq : forall a b, outcome_eqb a b = true <-> a = b.
Proof. intros [] []; cbn; split; congruence. Qed.

(* ---- the property ---- *)
Section Props.
  Variable server : Type.
  Variable seed : server -> list N.
  Variable preferred : server -> bool.
  Variable permitted : server -> outcome.

  Notation key := (permuted seed preferred).
  Notation gsp := (get_servers_for_psi seed preferred permitted).

  (* s is placed no later than t *)
  Definition before_ok (psi : list N) (s t : server) : Prop :=
    (preferred s = true /\ preferred t = false) \/
    (preferred s = preferred t /\
     bytes_leb (permute_server_hash psi (seed s)) (permute_server_hash psi (seed t)) = true).

  Lemma key_leb_before : forall psi s t, key_leb (key psi s) (key psi t) = true <-> before_ok psi s t.
  Proof.
    intros psi s t. unfold before_ok, permuted, key_leb. cbn [fst snd].
    destruct (preferred s), (preferred t); cbn; split; intros H; auto; try discriminate.
    - destruct H as [[_ H]|[_ H]]; [discriminate|exact H].
    - destruct H as [[H _]|[H _]]; discriminate.
    - destruct H as [[H _]|[_ H]]; [discriminate|exact H].
  Qed.

  Definition candidates_of (connected : list server) (for_upload : bool) : list server :=
    if for_upload then filter (fun s => is_permit (permitted s)) connected else connected.

  Lemma gsp_some : forall connected psi for_upload l,
    gsp connected psi for_upload = Some l ->
    l = sorted_by_key key_leb (key psi) (candidates_of connected for_upload).
  Proof.
    intros connected psi [|] l H; unfold get_servers_for_psi, upload_filter in H; cbn [candidates_of].
    - destruct (existsb _ connected); [discriminate|]. congruence.
    - congruence.
  Qed.

  Lemma gsp_none : forall connected psi for_upload,
    gsp connected psi for_upload = None <->
    (for_upload = true /\ exists s, In s connected /\ permitted s = Raise).
  Proof.
    intros connected psi [|]; unfold get_servers_for_psi, upload_filter.
    - destruct (existsb (fun s => is_raise (permitted s)) connected) eqn:E.
      + split; [intros _|reflexivity]. split; [reflexivity|].
        apply existsb_exists in E. destruct E as [s [I H]]. exists s. split; [exact I|].
        apply outcome_eqb_eq. exact H.
      + split; [discriminate|]. intros [_ [s [I H]]].
        assert (existsb (fun s => is_raise (permitted s)) connected = true); [|congruence].
        apply existsb_exists. exists s. split; [exact I|]. apply outcome_eqb_eq. exact H.
    - split; [discriminate|intros [H _]; discriminate].
  Qed.

  Lemma order_is_sorted_permutation_ok : forall connected psi for_upload l,
    gsp connected psi for_upload = Some l ->
    Permutation (candidates_of connected for_upload) l /\
    StronglySorted (before_ok psi) l.
  Proof.
    intros connected psi fu l H. apply gsp_some in H. subst l. split.
    - apply sorted_by_key_perm.
    - assert (S := sorted_by_key_sorted _ _ key_leb (key psi) key_leb_total key_leb_trans (candidates_of connected fu)).
      revert S. generalize (sorted_by_key key_leb (key psi) (candidates_of connected fu)).
      intros l S. induction S as [|a l S IH F]; constructor; [exact IH|].
      rewrite Forall_forall in *. intros y Iy. apply key_leb_before. apply F. exact Iy.
  Qed.

  Lemma order_input_independent_ok : forall c1 c2 psi for_upload,
    Permutation c1 c2 ->
    NoDup (map (key psi) c1) ->
    gsp c1 psi for_upload = gsp c2 psi for_upload.
  Proof.
    intros c1 c2 psi [|] P ND; unfold get_servers_for_psi, upload_filter.
    - rewrite (existsb_perm _ _ c1 c2 P).
      destruct (existsb (fun s => is_raise (permitted s)) c2); [reflexivity|]. f_equal.
      apply (sorted_by_key_unique _ _ key_leb (key psi) key_leb_total key_leb_trans key_leb_antisym).
      + apply filter_perm. exact P.
      + apply nodup_map_filter. exact ND.
    - f_equal.
      apply (sorted_by_key_unique _ _ key_leb (key psi) key_leb_total key_leb_trans key_leb_antisym); assumption.
  Qed.

  Lemma preferred_first_ok : forall connected psi for_upload l l1 s l2,
    gsp connected psi for_upload = Some l ->
    l = l1 ++ s :: l2 ->
    Forall (fun t => before_ok psi t s) l1 /\
    (preferred s = true -> Forall (fun t => preferred t = true) l1).
  Proof.
    intros connected psi fu l l1 s l2 H E.
    destruct (order_is_sorted_permutation_ok connected psi fu l H) as [_ S]. subst l.
    assert (F : Forall (fun t => before_ok psi t s) l1).
    { clear H. revert S. induction l1 as [|t l1 IH]; intros S; [constructor|].
      cbn in S. inversion S as [|? ? S' F]; subst. constructor.
      - rewrite Forall_forall in F. apply F. apply in_or_app. right. cbn. auto.
      - apply IH. exact S'. }
    split; [exact F|]. intros Ps. rewrite Forall_forall in *. intros t It.
    destruct (F t It) as [[Pt _]|[Pt _]]; congruence.
  Qed.

  Lemma upload_list_only_permitted_ok : forall connected psi l s,
    gsp connected psi true = Some l -> In s l ->
    In s connected /\ permitted s = Permit.
  Proof.
    intros connected psi l s H I.
    destruct (order_is_sorted_permutation_ok connected psi true l H) as [P _].
    apply (Permutation_in _ (Permutation_sym P)) in I. cbn [candidates_of] in I.
    apply filter_In in I. destruct I as [I E]. split; [exact I|]. apply outcome_eqb_eq. exact E.
  Qed.

  Lemma upload_candidates_permitted_ok : forall connected si total l s,
    upload_candidates seed preferred permitted connected si total = CServers l -> In s l ->
    In s connected /\ permitted s = Permit.
  Proof.
    intros connected si total l s H I. unfold upload_candidates in H.
    destruct (gsp connected si true) as [[|a r]|] eqn:G; try discriminate.
    inversion H; subst l. apply (upload_list_only_permitted_ok connected si (a :: r) s G).
    eapply firstn_incl. exact I.
  Qed.

  Lemma upload_candidates_complete_ok : forall connected si total,
    (forall s, In s connected -> permitted s <> Raise) ->
    (upload_candidates seed preferred permitted connected si total = CNoServers <->
     forall s, In s connected -> permitted s <> Permit).
  Proof.
    intros connected si total NR. unfold upload_candidates.
    destruct (gsp connected si true) as [l|] eqn:G.
    - destruct (order_is_sorted_permutation_ok connected si true l G) as [P _]. cbn [candidates_of] in P.
      destruct l as [|a r].
      + split; [intros _|reflexivity]. intros s I E.
        apply Permutation_sym, Permutation_nil in P.
        assert (In s (filter (fun s => is_permit (permitted s)) connected)); [|rewrite P in *; contradiction].
        apply filter_In. split; [exact I|]. apply outcome_eqb_eq. exact E.
      + split; [discriminate|]. intros H. exfalso.
        assert (I : In a (filter (fun s => is_permit (permitted s)) connected))
          by (apply (Permutation_in _ (Permutation_sym P)); cbn; auto).
        apply filter_In in I. destruct I as [I E]. apply (H a I). apply outcome_eqb_eq. exact E.
    - apply gsp_none in G. destruct G as [_ [s [I E]]]. exfalso. exact (NR s I E).
  Qed.

  (* ---- Publish.update_goal ---- *)
  Variable server_eqb : server -> server -> bool.
  Variable bad : server -> bool.
  Notation ug := (update_goal permitted server_eqb bad).
  Notation entries := (goal_entries permitted server_eqb bad).

  Lemma goal_entries_in : forall g l i e k s,
    entries g i l = Some e -> In (k, s) e ->
    In s l /\ bad s = false /\ permitted s = Permit.
  Proof.
    intros g. induction l as [|x l IH]; intros i e k s H I; cbn [goal_entries] in H.
    - inversion H; subst. destruct I.
    - destruct (bad x) eqn:B.
      + destruct (IH _ _ k s H I) as [I' R]. split; [right; exact I'|exact R].
      + destruct (permitted x) eqn:Px; try discriminate.
        * destruct (entries g (i + 1) l) as [e'|] eqn:E'; [|discriminate].
          inversion H; subst e. destruct I as [Q|I].
          -- inversion Q; subst. cbn. auto.
          -- destruct (IH _ _ k s E' I) as [I' R]. split; [right; exact I'|exact R].
        * destruct (IH _ _ k s H I) as [I' R]. split; [right; exact I'|exact R].
  Qed.

  Lemma place_in : forall (sl : list server) homeless i s sh, In (s, sh) (place sl i homeless) -> In s sl /\ In sh homeless.
  Proof.
    intros sl. induction homeless as [|h r IH]; intros i s sh I; cbn [place] in I; [destruct I|].
    destruct (nth_error sl i) as [x|] eqn:E; [|destruct I].
    destruct I as [Q|I].
    - inversion Q; subst. split; [eapply nth_error_In; exact E|cbn; auto].
    - destruct (IH _ _ _ I) as [A B]. split; [exact A|cbn; auto].
  Qed.

  Lemma place_covers : forall (sl : list server) homeless i sh, (i < length sl)%nat -> In sh homeless ->
    exists s, In (s, sh) (place sl i homeless).
  Proof.
    intros sl. induction homeless as [|h r IH]; intros i sh L I; [destruct I|].
    cbn [place]. destruct (nth_error sl i) as [x|] eqn:E.
    - destruct I as [->|I].
      + exists x. cbn. auto.
      + destruct (IH (if Nat.leb (length sl) (S i) then O else S i) sh) as [s Hs].
        * destruct (Nat.leb_spec (length sl) (S i)); lia.
        * exact I.
        * exists s. cbn. auto.
    - apply nth_error_None in E. lia.
  Qed.

  Lemma update_goal_only_permitted_ok : forall full g total g',
    ug full g total = GGoal g' ->
    forall s sh, In (s, sh) g' ->
      (In (s, sh) g /\ bad s = false) \/
      (In s full /\ bad s = false /\ permitted s = Permit /\ ~ (exists t, In (t, sh) g /\ bad t = false)).
  Proof.
    intros full g total g' H s sh I. unfold update_goal in H.
    set (g1 := filter (fun p => negb (bad (fst p))) g) in *.
    set (homeless := filter (fun sh => negb (existsb (fun p => snd p =? sh) g1)) (range_N 0 total)) in *.
    assert (G1 : forall p, In p g1 -> In p g /\ bad (fst p) = false).
    { intros p Ip. apply filter_In in Ip. destruct Ip as [Ip B]. split; [exact Ip|]. apply negb_true_iff. exact B. }
    destruct homeless as [|h0 hr] eqn:EH.
    - inversion H; subst g'. left. apply (G1 _ I).
    - destruct (entries g1 0 full) as [e|] eqn:E; [|discriminate].
      destruct (map snd (sort_by entry_leb e)) as [|s0 sl] eqn:SL; [discriminate|].
      assert (Eg : g' = g1 ++ place (s0 :: sl) O (h0 :: hr)) by (inversion H; reflexivity).
      rewrite Eg in I. clear Eg H. apply in_app_or in I. destruct I as [I|I].
      + left. apply (G1 _ I).
      + right. apply place_in in I. destruct I as [Is Ih].
        rewrite <- SL in Is. apply in_map_iff in Is. destruct Is as [[k s'] [Q Is]]. cbn in Q. subst s'.
        apply (Permutation_in _ (Permutation_sym (sort_by_perm _ _ entry_leb e))) in Is.
        destruct (goal_entries_in _ _ _ _ _ _ E Is) as [A [B C]].
        split; [exact A|]. split; [exact B|]. split; [exact C|].
        intros [t [It Bt]].
        assert (Ih' : In sh homeless) by (rewrite EH; exact Ih).
        apply filter_In in Ih'. destruct Ih' as [_ Hn]. apply negb_true_iff in Hn.
        assert (existsb (fun p => snd p =? sh) g1 = true); [|congruence].
        apply existsb_exists. exists (t, sh). split; [|apply N.eqb_refl].
        apply filter_In. split; [exact It|]. cbn. rewrite Bt. reflexivity.
  Qed.

  Lemma range_N_in : forall count start x, In x (range_N start count) <-> start <= x < start + N.of_nat count.
  Proof.
    induction count as [|c IH]; intros start x; cbn [range_N In].
    - lia.
    - rewrite IH. lia.
  Qed.

  Lemma update_goal_places_every_share_ok : forall full g total g',
    ug full g total = GGoal g' ->
    forall sh, sh < N.of_nat total -> exists s, In (s, sh) g'.
  Proof.
    intros full g total g' H sh L. unfold update_goal in H.
    set (g1 := filter (fun p => negb (bad (fst p))) g) in *.
    set (homeless := filter (fun sh => negb (existsb (fun p => snd p =? sh) g1)) (range_N 0 total)) in *.
    destruct (existsb (fun p => snd p =? sh) g1) eqn:X.
    - apply existsb_exists in X. destruct X as [[s sh'] [I Q]]. cbn in Q. apply N.eqb_eq in Q. subst sh'.
      exists s. destruct homeless as [|h0 hr].
      + inversion H; subst. exact I.
      + destruct (entries g1 0 full) as [e|]; [|discriminate].
        destruct (map snd (sort_by entry_leb e)) as [|s0 sl]; [discriminate|].
        inversion H; subst. apply in_or_app. left. exact I.
    - assert (Ih : In sh homeless).
      { apply filter_In. split; [apply range_N_in; lia|]. rewrite X. reflexivity. }
      destruct homeless as [|h0 hr] eqn:EH; [destruct Ih|].
      destruct (entries g1 0 full) as [e|]; [|discriminate].
      destruct (map snd (sort_by entry_leb e)) as [|s0 sl] eqn:SL; [discriminate|].
      assert (Eg : g' = g1 ++ place (s0 :: sl) O (h0 :: hr)) by (inversion H; reflexivity).
      rewrite Eg. clear Eg H.
      destruct (place_covers (s0 :: sl) (h0 :: hr) O sh) as [s Hs]; [cbn; lia|exact Ih|].
      exists s. apply in_or_app. right. exact Hs.
  Qed.
End Props.

Lemma upload_list_only_permitted_full :
  forall (server : Type) (seed : server -> list N) (preferred : server -> bool) (permitted : server -> outcome)
         (connected : list server) (psi : list N),
    (forall l s, get_servers_for_psi seed preferred permitted connected psi true = Some l -> In s l ->
                 In s connected /\ permitted s = Permit) /\
    (forall total l s, upload_candidates seed preferred permitted connected psi total = CServers l -> In s l ->
                 In s connected /\ permitted s = Permit) /\
    (forall (server_eqb : server -> server -> bool) (bad : server -> bool) full g total g',
       update_goal permitted server_eqb bad full g total = GGoal g' ->
       forall s sh, In (s, sh) g' ->
         (In (s, sh) g /\ bad s = false) \/
         (In s full /\ bad s = false /\ permitted s = Permit /\ ~ (exists t, In (t, sh) g /\ bad t = false))).
Proof.
  intros. split; [|split].
  - intros l s. apply upload_list_only_permitted_ok.
  - intros total l s. apply upload_candidates_permitted_ok.
  - intros server_eqb bad full g total g'. apply update_goal_only_permitted_ok.
Qed.

Lemma upload_selection_complete_full :
  forall (server : Type) (seed : server -> list N) (preferred : server -> bool) (permitted : server -> outcome)
         (connected : list server) (psi : list N),
    (forall total, (forall s, In s connected -> permitted s <> Raise) ->
       (upload_candidates seed preferred permitted connected psi total = CNoServers <->
        forall s, In s connected -> permitted s <> Permit)) /\
    (forall (server_eqb : server -> server -> bool) (bad : server -> bool) full g total g',
       update_goal permitted server_eqb bad full g total = GGoal g' ->
       forall sh, sh < N.of_nat total -> exists s, In (s, sh) g').
Proof.
  intros. split.
  - intros total. apply upload_candidates_complete_ok.
  - intros server_eqb bad full g total g'. apply update_goal_places_every_share_ok.
Qed.

Lemma upload_only_to_certified_full :
  forall (pubkey msg sig : Type) (verify : pubkey -> msg -> sig -> bool)
         (spk : Type) (spk_eqb : spk -> spk -> bool) (decode : msg -> option (cert_json spk))
         (keys : list pubkey) (now : Z)
         (server : Type) (seed : server -> list N) (preferred : server -> bool)
         (certs : server -> list (signed_cert msg sig)) (pk : server -> spk)
         (connected : list server) (psi : list N) (l : list server) (s : server),
    keys <> [] ->
    get_servers_for_psi seed preferred
      (fun s => permitted verify spk_eqb decode keys (certs s) (pk s) now) connected psi true = Some l ->
    In s l ->
    exists c k, In c (certs s) /\ In k keys /\ cert_grants verify spk_eqb decode k c (pk s) now.
Proof.
  intros pubkey msg sig verify spk spk_eqb decode keys now server seed preferred certs pk connected psi l s NE H I.
  destruct (upload_list_only_permitted_ok server seed preferred _ connected psi l s H I) as [_ P].
  exact (permit_only_with_valid_certificate_ok pubkey msg sig verify spk spk_eqb decode keys (certs s) (pk s) now NE P).
Qed.
