(* C39: pointwise characterisation of the byte-list operations of Model/Overwrite.v
   (temporary-file writes/truncation and the reference operations). *)
From Coq Require Import List NArith Bool Lia.
From Verif Require Import Model.Overwrite.
Import ListNotations.
Local Open Scope N_scope.

(* boolean comparisons to propositions, everywhere *)
Ltac nb :=
  repeat match goal with
  | H : context [?a <? ?b] |- _ => destruct (N.ltb_spec a b)
  | H : context [?a <=? ?b] |- _ => destruct (N.leb_spec a b)
  | H : context [?a =? ?b] |- _ => destruct (N.eqb_spec a b)
  | |- context [?a <? ?b] => destruct (N.ltb_spec a b)
  | |- context [?a <=? ?b] => destruct (N.leb_spec a b)
  | |- context [?a =? ?b] => destruct (N.eqb_spec a b)
  end.

(* nat-indexed facts missing from the 8.16 standard library *)
Lemma nth_error_firstn' {A} (l : list A) : forall n i, (i < n)%nat -> nth_error (firstn n l) i = nth_error l i.
Proof.
  induction l as [|x l IH]; intros n i H.
  - rewrite firstn_nil. reflexivity.
  - destruct n; [lia|]. destruct i; simpl; [reflexivity|]. apply IH. lia.
Qed.

Lemma nth_error_skipn' {A} (l : list A) : forall n i, nth_error (skipn n l) i = nth_error l (n + i)%nat.
Proof.
  induction l as [|x l IH]; intros n i.
  - rewrite skipn_nil. destruct i, n; reflexivity.
  - destruct n; simpl; [reflexivity|]. apply IH.
Qed.

Lemma nth_error_seq' : forall n s i, (i < n)%nat -> nth_error (seq s n) i = Some (s + i)%nat.
Proof.
  induction n as [|n IH]; intros s i H; [lia|].
  destruct i; simpl.
  - f_equal. lia.
  - rewrite IH by lia. f_equal. lia.
Qed.

Lemma nth_error_ext' {A} : forall (a b : list A), (forall n, nth_error a n = nth_error b n) -> a = b.
Proof.
  induction a as [|x a IH]; intros b H.
  - destruct b; [reflexivity|]. specialize (H 0%nat). discriminate.
  - destruct b as [|y b]; [specialize (H 0%nat); discriminate|].
    pose proof (H 0%nat) as H0. simpl in H0. inversion H0; subst. f_equal.
    apply IH. intro n. exact (H (S n)).
Qed.

Section Lists.
Context {A : Type}.
Implicit Types l a b : list A.

Lemma len_nil : len (@nil A) = 0.
Proof. reflexivity. Qed.

Lemma len_cons x l : len (x :: l) = len l + 1.
Proof. unfold len. simpl length. lia. Qed.

Lemma len_app a b : len (a ++ b) = len a + len b.
Proof. unfold len. rewrite app_length. lia. Qed.

Lemma len_take n l : len (take n l) = N.min n (len l).
Proof. unfold len, take. rewrite firstn_length. lia. Qed.

Lemma len_drop n l : len (drop n l) = len l - n.
Proof. unfold len, drop. rewrite skipn_length. lia. Qed.

Lemma len_zero_nil l : len l = 0 -> l = [].
Proof. destruct l; [reflexivity|]. rewrite len_cons. lia. Qed.

Lemma get_some l i : i < len l -> exists x, get l i = Some x.
Proof.
  unfold get, len. intro H.
  destruct (nth_error l (N.to_nat i)) eqn:E; [eauto|].
  apply nth_error_None in E. lia.
Qed.

Lemma get_none l i : len l <= i -> get l i = None.
Proof. unfold get, len. intro H. apply nth_error_None. lia. Qed.

Lemma get_lt l i x : get l i = Some x -> i < len l.
Proof.
  unfold get, len. intro H.
  assert (nth_error l (N.to_nat i) <> None) as H1 by congruence.
  apply nth_error_Some in H1. lia.
Qed.

Lemma get_app a b i : get (a ++ b) i = if i <? len a then get a i else get b (i - len a).
Proof.
  unfold get, len. nb.
  - apply nth_error_app1. lia.
  - rewrite nth_error_app2 by lia. f_equal. lia.
Qed.

Lemma get_take n l i : get (take n l) i = if i <? n then get l i else None.
Proof.
  unfold get, take. nb.
  - apply nth_error_firstn'. lia.
  - apply nth_error_None. rewrite firstn_length. lia.
Qed.

Lemma get_drop n l i : get (drop n l) i = get l (n + i).
Proof.
  unfold get, drop. rewrite nth_error_skipn'. f_equal. lia.
Qed.

Lemma get_ext a b : (forall i, get a i = get b i) -> a = b.
Proof.
  intro H. apply nth_error_ext'. intro n.
  specialize (H (N.of_nat n)). unfold get in H. rewrite Nat2N.id in H. exact H.
Qed.

Lemma take_drop_ext a b off n :
  (forall j, j < n -> get a (off + j) = get b (off + j)) ->
  take n (drop off a) = take n (drop off b).
Proof.
  intro H. apply get_ext. intro i. rewrite !get_take, !get_drop.
  nb; auto.
Qed.

Lemma take_all n l : len l <= n -> take n l = l.
Proof. unfold take, len. intro H. apply firstn_all2. lia. Qed.

End Lists.

Lemma len_zeros n : len (zeros n) = n.
Proof. unfold len, zeros. rewrite repeat_length. lia. Qed.

Lemma get_zeros n i : get (zeros n) i = if i <? n then Some 0 else None.
Proof.
  unfold get, zeros. nb.
  - rewrite nth_error_repeat; [reflexivity | lia].
  - apply nth_error_None. rewrite repeat_length. lia.
Qed.

Lemma len_gap g s n : len (gap g s n) = n.
Proof. unfold len, gap. rewrite map_length, seq_length. lia. Qed.

Lemma get_gap g s n i : get (gap g s n) i = if i <? n then Some (g (s + i)) else None.
Proof.
  unfold get, gap. nb.
  - rewrite nth_error_map, nth_error_seq' by lia.
    simpl. do 2 f_equal. lia.
  - apply nth_error_None. rewrite map_length, seq_length. lia.
Qed.

(* ---------- the temporary file ---------- *)
Ltac fin :=
  try lia; try reflexivity; try (f_equal; lia); try (do 2 f_equal; lia);
  try (apply get_none; lia); try (symmetry; apply get_none; lia);
  try (rewrite !get_none by lia; reflexivity).

Lemma fwrite_nil g f pos : fwrite g f pos [] = f.
Proof. reflexivity. Qed.

Lemma fwrite_len0 g f pos data : len data = 0 -> fwrite g f pos data = f.
Proof. intro H. apply len_zero_nil in H. subst. reflexivity. Qed.

Lemma len_fwrite g f pos data :
  len (fwrite g f pos data) = if len data =? 0 then len f else N.max (len f) (pos + len data).
Proof.
  destruct data as [|x d].
  - reflexivity.
  - unfold fwrite. remember (x :: d) as data.
    assert (len data <> 0) by (subst; rewrite len_cons; lia).
    destruct (N.ltb_spec (len f) pos); destruct (N.eqb_spec (len data) 0); try lia.
    + rewrite !len_app, len_gap. lia.
    + rewrite !len_app, len_take, len_drop. lia.
Qed.

Lemma get_fwrite g f pos data i :
  get (fwrite g f pos data) i =
    if (pos <=? i) && (i <? pos + len data) then get data (i - pos)
    else if i <? len f then get f i
    else if (i <? pos) && negb (len data =? 0) then Some (g i) else None.
Proof.
  destruct data as [|x d].
  - simpl fwrite. rewrite len_nil. nb; simpl; fin.
  - unfold fwrite. remember (x :: d) as data.
    assert (len data <> 0) by (subst; rewrite len_cons; lia).
    destruct (N.ltb_spec (len f) pos).
    + rewrite !get_app, len_gap, get_gap. nb; simpl; fin.
    + rewrite !get_app, len_take, get_take, get_drop. nb; simpl; fin.
Qed.

Lemma len_ftrunc g f size : len (ftrunc g f size) = size.
Proof.
  unfold ftrunc. nb.
  - rewrite len_take. lia.
  - rewrite len_app, len_gap. lia.
Qed.

Lemma get_ftrunc g f size i :
  get (ftrunc g f size) i =
    if i <? size then (if i <? len f then get f i else Some (g i)) else None.
Proof.
  unfold ftrunc. destruct (N.leb_spec size (len f)).
  - rewrite get_take. nb; fin.
  - rewrite get_app, get_gap. nb; fin.
Qed.

(* ---------- the reference ---------- *)
Lemma len_ref_write r off data : len (ref_write r off data) = N.max (len r) (off + len data).
Proof.
  unfold ref_write. nb.
  - rewrite !len_app, len_take, len_drop, len_app, len_zeros. lia.
  - rewrite !len_app, len_take, len_drop. lia.
Qed.

Lemma get_ref_write r off data i :
  get (ref_write r off data) i =
    if (off <=? i) && (i <? off + len data) then get data (i - off)
    else if i <? len r then get r i
    else if i <? off then Some 0 else None.
Proof.
  unfold ref_write.
  destruct (N.ltb_spec (len r) off).
  - rewrite !get_app, len_take, get_take, get_drop, !get_app, len_app, len_zeros, !get_zeros.
    nb; simpl; fin.
  - rewrite !get_app, len_take, get_take, get_drop.
    nb; simpl; fin.
Qed.

Lemma len_ref_resize r size : len (ref_resize r size) = size.
Proof.
  unfold ref_resize. nb.
  - rewrite len_take. lia.
  - rewrite len_app, len_zeros. lia.
Qed.

Lemma get_ref_resize r size i :
  get (ref_resize r size) i =
    if i <? size then (if i <? len r then get r i else Some 0) else None.
Proof.
  unfold ref_resize. destruct (N.leb_spec size (len r)).
  - rewrite get_take. nb; fin.
  - rewrite get_app, get_zeros. nb; fin.
Qed.
