(* C07: structure of the model of share_placement: which share numbers are keys of
   which mapping, and where the servers in the mappings come from. *)
From Coq Require Import List NArith ZArith Bool Arith Lia.
From Verif Require Import Model.Matching Model.Placement Proofs.Matching Proofs.Placement.
Import ListNotations.

(* ---------- generic ------------------------------------------------------------------- *)

Lemma option_all_map : forall (A : Type) (l : list (option A)) r, option_all l = Some r -> l = map Some r.
Proof.
  intros A. induction l as [|a l IH]; intros r H; cbn [option_all] in H.
  - inversion H; subst. reflexivity.
  - destruct a as [a|]; [|discriminate]. destruct (option_all l) as [t|]; [|discriminate].
    inversion H; subst. cbn [map]. f_equal. apply IH. reflexivity.
Qed.

Lemma option_all_pointwise : forall (A B : Type) (h : A -> option B) (l : list A) r,
  option_all (map h l) = Some r ->
  length r = length l /\ forall a b, In (a, b) (combine l r) -> h a = Some b.
Proof.
  intros A B h. induction l as [|a l IH]; intros r H; cbn [map option_all] in H.
  - inversion H; subst. split; [reflexivity | intros a b []].
  - destruct (h a) as [b|] eqn:E; [|discriminate].
    destruct (option_all (map h l)) as [t|] eqn:Et; [|discriminate]. inversion H; subst.
    destruct (IH t eq_refl) as [H1 H2]. split; [cbn [length]; lia|].
    intros x y [Hxy|Hxy]; [inversion Hxy; subst; exact E | apply H2; exact Hxy].
Qed.

Lemma ordered_spec : forall given set l, ordered given set = Some l ->
  l = given /\ NoDup l /\ length l = length set /\ (forall x, In x l -> In x set).
Proof.
  intros given set l H. unfold ordered in H. destruct (is_perm given set) eqn:E; [|discriminate].
  inversion H; subst l. unfold is_perm in E.
  apply andb_true_iff in E. destruct E as [E E3]. apply andb_true_iff in E. destruct E as [E1 E2].
  split; [reflexivity|]. split; [apply nodupN_NoDup; exact E1|]. split; [apply Nat.eqb_eq; exact E2|].
  intros x Hx. rewrite forallb_forall in E3. apply memN_In. apply E3. exact Hx.
Qed.

Lemma ordered_complete : forall given set l, NoDup set -> ordered given set = Some l ->
  forall x, In x set <-> In x l.
Proof.
  intros given set l Hnd H x. destruct (ordered_spec _ _ _ H) as [_ [H1 [H2 H3]]].
  split; [|apply H3]. intros Hx.
  assert (Hi : incl set l) by (apply NoDup_length_incl; [exact H1 | lia | exact H3]). apply Hi. exact Hx.
Qed.

Lemma diffN_In : forall a b x, In x (diffN a b) <-> In x a /\ ~ In x b.
Proof.
  intros a b x. unfold diffN. rewrite filter_In. split; intros [H1 H2]; split; try exact H1.
  - intro Hb. apply memN_In in Hb. rewrite Hb in H2. discriminate.
  - destruct (memN x b) eqn:E; [apply memN_In in E; contradiction | reflexivity].
Qed.

Lemma diffN_NoDup : forall a b, NoDup a -> NoDup (diffN a b).
Proof. intros a b H. unfold diffN. apply NoDup_filter. exact H. Qed.

Lemma lookupN_In : forall (A : Type) k (d : list (N * A)) v, lookupN k d = Some v -> In (k, v) d.
Proof.
  intros A k. induction d as [|[k' v'] r IH]; intros v H; cbn [lookupN] in H; [discriminate|].
  destruct (N.eqb k k') eqn:E.
  - apply N.eqb_eq in E. subst. inversion H; subst. left. reflexivity.
  - right. apply IH. exact H.
Qed.

Lemma In_lookupN : forall (A : Type) k (d : list (N * A)) v, NoDup (map fst d) -> In (k, v) d -> lookupN k d = Some v.
Proof.
  intros A k. induction d as [|[k' v'] r IH]; intros v Hnd H; [destruct H|].
  cbn [map fst] in Hnd. inversion Hnd as [|x y Hn Hr]; subst. cbn [lookupN].
  destruct H as [H|H].
  - inversion H; subst. rewrite N.eqb_refl. reflexivity.
  - destruct (N.eqb k k') eqn:E; [|apply IH; assumption].
    apply N.eqb_eq in E. subst k'. exfalso. apply Hn. apply in_map_iff. exists (k, v). split; [reflexivity | exact H].
Qed.

(* keys of a dict after dict_set *)
Lemma dict_set_keys : forall (A : Type) k (v : A) d x,
  In x (map fst (dict_set k v d)) <-> x = k \/ In x (map fst d).
Proof.
  intros A k v. induction d as [|[k' v'] r IH]; intros x; cbn [dict_set map fst In].
  - split; [intros [H|[]]; left; symmetry; exact H | intros [H|[]]; left; symmetry; exact H].
  - destruct (N.eqb k k') eqn:E; cbn [map fst In].
    + apply N.eqb_eq in E. subst k'. split; [tauto|]. intros [H|H]; [left; symmetry; exact H | exact H].
    + rewrite IH. split; [tauto | tauto].
Qed.

(* values of a dict after dict_set *)
Lemma dict_set_In : forall (A : Type) k (v : A) d x w,
  In (x, w) (dict_set k v d) -> (x = k /\ w = v) \/ In (x, w) d.
Proof.
  intros A k v. induction d as [|[k' v'] r IH]; intros x w H; cbn [dict_set] in H.
  - destruct H as [H|[]]. inversion H; subst. left. split; reflexivity.
  - destruct (N.eqb k k') eqn:E.
    + apply N.eqb_eq in E. subst k'. destruct H as [H|H].
      * inversion H; subst. left. split; reflexivity.
      * right. right. exact H.
    + destruct H as [H|H].
      * right. left. exact H.
      * destruct (IH _ _ H) as [H1|H1]; [left; exact H1 | right; right; exact H1].
Qed.

Lemma dict_set_other : forall (A : Type) k (v : A) d x w,
  x <> k -> In (x, w) d -> In (x, w) (dict_set k v d).
Proof.
  intros A k v. induction d as [|[k' v'] r IH]; intros x w Hne H; [destruct H|].
  cbn [dict_set]. destruct (N.eqb k k') eqn:E.
  - apply N.eqb_eq in E. subst k'. destruct H as [H|H]; [inversion H; subst; contradiction | right; exact H].
  - destruct H as [H|H]; [left; exact H | right; apply IH; assumption].
Qed.

Lemma map_fst_combine : forall (A B : Type) (l : list A) (r : list B),
  length l = length r -> map fst (combine l r) = l.
Proof.
  intros A B. induction l as [|a l IH]; intros r H; destruct r as [|b r]; cbn [length] in H; try lia; cbn [combine map fst].
  - reflexivity.
  - f_equal. apply IH. lia.
Qed.

Lemma in_combine_r_ex : forall (A B : Type) (l : list A) (r : list B) b,
  length l = length r -> In b r -> exists a, In (a, b) (combine l r).
Proof.
  intros A B. induction l as [|a l IH]; intros r b H Hb; destruct r as [|b' r]; cbn [length] in H; try lia; [destruct Hb|].
  destruct Hb as [Hb|Hb].
  - subst b'. exists a. left. reflexivity.
  - destruct (IH r b ltac:(lia) Hb) as [a' Ha']. exists a'. right. exact Ha'.
Qed.

Lemma map_fst_pointwise : forall (A B C : Type) (l : list (A * B)) (r : list (A * C)),
  length r = length l -> (forall a b, In (a, b) (combine l r) -> fst b = fst a) -> map fst r = map fst l.
Proof.
  intros A B C. induction l as [|a l IH]; intros r H Hp; destruct r as [|b r]; cbn [length] in H; try lia; [reflexivity|].
  cbn [map]. f_equal.
  - apply (Hp a b). left. reflexivity.
  - apply IH; [lia|]. intros x y Hxy. apply Hp. right. exact Hxy.
Qed.

(* ---------- one _calculate_mappings call ------------------------------------------------- *)

Definition phase_graph (po : phase_order) (pl so : list N) (sm : smap) : option graph :=
  match sm with
  | [] => Some (flow_network (length pl) (length so))
  | _ => servermap_flow_graph po pl so sm
  end.

Lemma cm_inv : forall po P S sm pr,
  calculate_mappings po P S sm = Some pr ->
  exists pl so g mg,
    ordered (po_peers po P) P = Some pl /\ ordered (po_shares po S) S = Some so /\
    phase_graph po pl so sm = Some g /\
    compute_maximum_graph (Datatypes.S (length pl)) g (seq (Datatypes.S (length pl)) (length so))
      = Some (mg, pr_flow pr, pr_residual pr) /\
    option_all (map (fun e : N * (nat * option nat) => convert_one pl (fst e) (snd (snd e))) (combine so mg))
      = Some (pr_mappings pr) /\
    pr_peers pr = pl /\ pr_shares pr = so.
Proof.
  intros po P S sm pr H. unfold calculate_mappings in H.
  destruct (ordered (po_peers po P) P) as [pl|] eqn:E1; [|discriminate].
  destruct (ordered (po_shares po S) S) as [so|] eqn:E2; [|discriminate].
  fold (phase_graph po pl so sm) in H.
  destruct (phase_graph po pl so sm) as [g|] eqn:E3; [|discriminate].
  destruct (compute_maximum_graph (Datatypes.S (length pl)) g (seq (Datatypes.S (length pl)) (length so)))
    as [[[mg f] rg]|] eqn:E4; [|discriminate].
  destruct (option_all _) as [ms|] eqn:E5; [|discriminate].
  inversion H; subst pr. cbn [pr_flow pr_residual pr_mappings pr_peers pr_shares].
  exists pl, so, g, mg. repeat split; try reflexivity; assumption.
Qed.

Lemma cmg_inv : forall fuel g sis mg f rg,
  compute_maximum_graph fuel g sis = Some (mg, f, rg) ->
  max_flow fuel g = Some (f, rg) /\
  exists rs, option_all (map (share_result rg (length g)) sis) = Some rs /\ mg = combine sis rs.
Proof.
  intros fuel g sis mg f rg H. unfold compute_maximum_graph in H.
  destruct (max_flow fuel g) as [[f' rg']|]; [|discriminate].
  destruct (option_all (map (share_result rg' (length g)) sis)) as [rs|] eqn:E; [|discriminate].
  inversion H; subst. split; [reflexivity|]. exists rs. split; [exact E | reflexivity].
Qed.

Lemma convert_one_fst : forall pl s r m, convert_one pl s r = Some m -> fst m = s.
Proof.
  intros pl s r m H. unfold convert_one in H. destruct r as [[|i]|].
  - discriminate.
  - destruct (nth_error pl i); [inversion H; reflexivity | discriminate].
  - inversion H. reflexivity.
Qed.

Lemma convert_one_peer : forall pl s r s' p, convert_one pl s r = Some (s', Some p) ->
  exists i, r = Some (Datatypes.S i) /\ nth_error pl i = Some p.
Proof.
  intros pl s r s' p H. unfold convert_one in H. destruct r as [[|i]|].
  - discriminate.
  - destruct (nth_error pl i) as [q|] eqn:E; [|discriminate]. inversion H; subst. exists i. split; [reflexivity | exact E].
  - inversion H.
Qed.

(* keys of the returned mapping = the shares handed in; servers in it are among the peers *)
Lemma cm_keys : forall po P S sm pr, calculate_mappings po P S sm = Some pr ->
  map fst (pr_mappings pr) = pr_shares pr /\
  ordered (po_shares po S) S = Some (pr_shares pr) /\
  ordered (po_peers po P) P = Some (pr_peers pr) /\
  forall s p, In (s, Some p) (pr_mappings pr) -> In p (pr_peers pr).
Proof.
  intros po P S sm pr H. destruct (cm_inv _ _ _ _ _ H) as [pl [so [g [mg [E1 [E2 [E3 [E4 [E5 [E6 E7]]]]]]]]]].
  destruct (cmg_inv _ _ _ _ _ _ E4) as [_ [rs [Er Em]]].
  destruct (option_all_pointwise _ _ _ _ _ Er) as [Lr _]. rewrite seq_length in Lr.
  assert (Lm : length mg = length so) by (subst mg; rewrite combine_length, seq_length, Lr; lia).
  destruct (option_all_pointwise _ _ _ _ _ E5) as [L5 P5].
  rewrite E6, E7. split; [|split; [exact E2 | split; [exact E1|]]].
  - rewrite (map_fst_pointwise _ _ _ (combine so mg) (pr_mappings pr) L5).
    + apply map_fst_combine. lia.
    + intros a b Hab. apply (convert_one_fst pl _ _ _ (P5 a b Hab)).
  - intros s p Hin. destruct (in_combine_r_ex _ _ (combine so mg) _ _ (eq_sym L5) Hin) as [a Ha].
    destruct (convert_one_peer _ _ _ _ _ (P5 a _ Ha)) as [i [_ Hn]]. eapply nth_error_In. exact Hn.
Qed.

(* ---------- merging, homeless shares, round-robin ------------------------------------------ *)

Lemma fold_dict_set_keys : forall (l d : list (N * option N)) x,
  In x (map fst (fold_left (fun d e => dict_set (fst e) (snd e) d) l d)) <-> In x (map fst d) \/ In x (map fst l).
Proof.
  induction l as [|e r IH]; intros d x; cbn [fold_left map In]; [tauto|].
  rewrite IH, dict_set_keys. split; [intros [[H|H]|H]; [right; left; symmetry; exact H | tauto | tauto]|].
  intros [H|[H|H]]; [tauto | left; left; symmetry; exact H | tauto].
Qed.

Lemma fold_dict_set_In : forall (l d : list (N * option N)) x w,
  In (x, w) (fold_left (fun d e => dict_set (fst e) (snd e) d) l d) -> In (x, w) d \/ In (x, w) l.
Proof.
  induction l as [|e r IH]; intros d x w H; cbn [fold_left] in H; [left; exact H|].
  destruct (IH _ _ _ H) as [H1|H1]; [|right; right; exact H1].
  destruct (dict_set_In _ _ _ _ _ _ H1) as [[E1 E2]|H2]; [|left; exact H2].
  right. left. destruct e as [k v]. cbn [fst snd] in *. subst. reflexivity.
Qed.

Lemma merge_keys : forall a b c x,
  In x (map fst (merge_mappings a b c)) <-> In x (map fst a) \/ In x (map fst b) \/ In x (map fst c).
Proof.
  intros a b c x. unfold merge_mappings. rewrite fold_dict_set_keys, !map_app, !in_app_iff. cbn [map In]. tauto.
Qed.

Lemma merge_In : forall a b c x w, In (x, w) (merge_mappings a b c) -> In (x, w) a \/ In (x, w) b \/ In (x, w) c.
Proof.
  intros a b c x w H. unfold merge_mappings in H. destruct (fold_dict_set_In _ _ _ _ H) as [[]|H1].
  rewrite !in_app_iff in H1. tauto.
Qed.

Lemma distribute_keys : forall shares pq m m', distribute shares pq m = Some m' ->
  forall x, In x (map fst m) -> In x (map fst m').
Proof.
  induction shares as [|s r IH]; intros pq m m' H x Hx; cbn [distribute] in H.
  - inversion H; subst. exact Hx.
  - destruct pq as [|e rest]; [discriminate|]. apply (IH _ _ _ H). apply dict_set_keys. right. exact Hx.
Qed.

Lemma distribute_In : forall shares pq m m', distribute shares pq m = Some m' ->
  forall x p, In (x, Some p) m' -> In (x, Some p) m \/ In p (map snd pq).
Proof.
  induction shares as [|s r IH]; intros pq m m' H x p Hx; cbn [distribute] in H.
  - inversion H; subst. left. exact Hx.
  - destruct pq as [|e rest]; [discriminate|].
    assert (Hmin : forall best l, In (pq_min best l) (best :: l)).
    { clear. intros best l. revert best. induction l as [|y l IHl]; intros best; cbn [pq_min]; [left; reflexivity|].
      destruct (IHl (if pq_less y best then y else best)) as [H|H]; [|right; right; exact H].
      destruct (pq_less y best); [right; left; exact H | left; exact H]. }
    assert (Hrem : forall b l y, In y (pq_remove b l) -> In y l).
    { clear. intros b. induction l as [|z l IHl]; intros y Hy; cbn [pq_remove] in Hy; [destruct Hy|].
      destruct (Nat.eqb (fst b) (fst z) && N.eqb (snd b) (snd z)); [right; exact Hy|].
      destruct Hy as [Hy|Hy]; [left; exact Hy | right; apply IHl; exact Hy]. }
    set (best := pq_min e rest) in *.
    destruct (IH _ _ _ H x p Hx) as [H1|H1].
    + destruct (dict_set_In _ _ _ _ _ _ H1) as [[E1 E2]|H2]; [|left; exact H2].
      inversion E2; subst p. right. apply in_map. apply (Hmin e rest).
    + right. cbn [map snd] in H1. destruct H1 as [H1|H1].
      * cbn [snd] in H1. subst p. apply in_map. apply (Hmin e rest).
      * apply in_map_iff in H1. destruct H1 as [y [Ey Hy]]. subst p. apply in_map. apply (Hrem best _ _ Hy).
Qed.

Lemma first_holder_spec : forall share wp2s p, first_holder share wp2s = Some p ->
  exists held, In (p, held) wp2s /\ In share held.
Proof.
  intros share wp2s p H. unfold first_holder in H.
  destruct (find (fun e : N * list N => memN share (snd e)) wp2s) as [[q held]|] eqn:E; [|discriminate].
  inversion H; subst. apply find_some in E. destruct E as [E1 E2]. cbn [snd] in E2. apply memN_In in E2.
  exists held. split; assumption.
Qed.

(* the state of the first loop of _distribute_homeless_shares *)
Lemma lease_fold : forall wp2s shareids homeless m td m1 td1,
  fold_left (fun (st : list (N * option N) * list N) share =>
               let '(mm, td) := st in
               if memN share shareids
               then match first_holder share wp2s with
                    | Some p => (dict_set share (Some p) mm, td)
                    | None => (mm, td)
                    end
               else (mm, add_set share td)) homeless (m, td) = (m1, td1) ->
  (forall x, In x (map fst m) -> In x (map fst m1)) /\
  (forall x p, In (x, Some p) m1 -> In (x, Some p) m \/ exists held, In (p, held) wp2s /\ In x held).
Proof.
  intros wp2s shareids. induction homeless as [|s r IH]; intros m td m1 td1 H; cbn [fold_left] in H.
  - inversion H; subst. split; [auto | intros x p Hx; left; exact Hx].
  - destruct (memN s shareids).
    + destruct (first_holder s wp2s) as [q|] eqn:Ef.
      * destruct (IH _ _ _ _ H) as [H1 H2]. split.
        -- intros x Hx. apply H1. apply dict_set_keys. right. exact Hx.
        -- intros x p Hx. destruct (H2 x p Hx) as [H3|H3]; [|right; exact H3].
           destruct (dict_set_In _ _ _ _ _ _ H3) as [[E1 E2]|H4]; [|left; exact H4].
           inversion E2; subst. right. apply first_holder_spec. exact Ef.
      * apply (IH _ _ _ _ H).
    + apply (IH _ _ _ _ H).
Qed.

Lemma distribute_homeless_spec : forall os m homeless wp2s m',
  distribute_homeless os m homeless wp2s = Some m' ->
  (forall x, In x (map fst m) -> In x (map fst m')) /\
  (forall x p, In (x, Some p) m' -> In (x, Some p) m \/ In p (map fst wp2s)).
Proof.
  intros os m homeless wp2s m' H. unfold distribute_homeless in H.
  match type of H with context [fold_left ?F homeless (m, [])] => destruct (fold_left F homeless (m, [])) as [m1 td] eqn:Ef end.
  destruct (lease_fold _ _ _ _ _ _ _ Ef) as [L1 L2].
  assert (L2' : forall x p, In (x, Some p) m1 -> In (x, Some p) m \/ In p (map fst wp2s)).
  { intros x p Hx. destruct (L2 x p Hx) as [H1|[held [H1 _]]]; [left; exact H1|].
    right. apply in_map_iff. exists (p, held). split; [reflexivity | exact H1]. }
  destruct (map fst wp2s) as [|k ks] eqn:Ek.
  - inversion H; subst. split; [exact L1 | exact L2'].
  - destruct (ordered (o_todist os td) td) as [tdo|]; [|discriminate]. split.
    + intros x Hx. apply (distribute_keys _ _ _ _ H). apply L1. exact Hx.
    + intros x p Hx. destruct (distribute_In _ _ _ _ H x p Hx) as [H1|H1]; [apply L2'; exact H1|].
      right. rewrite map_map in H1. cbn [snd] in H1. rewrite map_id in H1. exact H1.
Qed.

Lemma round_robin_spec : forall rr m i res, round_robin rr i m = Some res ->
  map fst res = map fst m /\
  forall s p, In (s, p) res -> In (s, Some p) m \/ In p rr.
Proof.
  intros rr. induction m as [|[k [p|]] r IH]; intros i res H; cbn [round_robin] in H.
  - inversion H; subst. split; [reflexivity | intros s p []].
  - destruct (round_robin rr i r) as [t|] eqn:E; [|discriminate]. inversion H; subst.
    destruct (IH _ _ E) as [H1 H2]. split; [cbn [map fst]; f_equal; exact H1|].
    intros s q [Hq|Hq]; [inversion Hq; subst; left; left; reflexivity|].
    destruct (H2 s q Hq) as [H3|H3]; [left; right; exact H3 | right; exact H3].
  - destruct (nth_error rr (i mod length rr)) as [p|] eqn:En; [|discriminate].
    destruct (round_robin rr (S i) r) as [t|] eqn:E; [|discriminate]. inversion H; subst.
    destruct (IH _ _ E) as [H1 H2]. split; [cbn [map fst]; f_equal; exact H1|].
    intros s q [Hq|Hq]; [inversion Hq; subst; right; eapply nth_error_In; exact En|].
    destruct (H2 s q Hq) as [H3|H3]; [left; right; exact H3 | right; exact H3].
Qed.

(* ---------- share_placement_state unfolded ---------------------------------------------------- *)

Definition ro_shares (readonly : list N) (p2s : smap) : list N :=
  fold_left (fun acc e => fold_left (fun a s => add_set s a) (snd e) acc) (held_by_readonly readonly p2s) [].
Definition peers2 (peers : list N) (ro : phase_result) : list N := diffN peers (used_peers_of (pr_mappings ro)).
Definition shares2 (shares : list N) (ro : phase_result) : list N := diffN shares (used_shares_of (pr_mappings ro)).
Definition smap2 (p2s : smap) (ro : phase_result) : smap :=
  remaining_servermap p2s (used_peers_of (pr_mappings ro)) (used_shares_of (pr_mappings ro)).
Definition peers3 (peers : list N) (ro ex : phase_result) : list N :=
  diffN (diffN (peers2 peers ro) (used_peers_of (pr_mappings ex))) (used_peers_of (pr_mappings ro)).
Definition shares3 (shares : list N) (ro ex : phase_result) : list N :=
  diffN (diffN (shares2 shares ro) (used_shares_of (pr_mappings ex))) (used_shares_of (pr_mappings ro)).
Definition merged (ro ex nw : phase_result) : list (N * option N) :=
  merge_mappings (pr_mappings ro) (pr_mappings ex) (pr_mappings nw).
Definition homeless_of (m : list (N * option N)) : list N :=
  fold_left (fun acc e => match snd e with None => add_set (fst e) acc | Some _ => acc end) m [].
Definition writable_p2s (readonly : list N) (p2s : smap) : smap :=
  filter (fun e : N * list N => negb (memN (fst e) readonly)) p2s.

Lemma sps_inv : forall os peers readonly shares p2s st,
  share_placement_state os peers readonly shares p2s = Some st ->
  exists ro ex nw m' rr,
    calculate_mappings (o_ro os) readonly (ro_shares readonly p2s) (held_by_readonly readonly p2s) = Some ro /\
    calculate_mappings (o_ex os) (peers2 peers ro) (shares2 shares ro) (smap2 p2s ro) = Some ex /\
    calculate_mappings (o_new os) (peers3 peers ro ex) (shares3 shares ro ex) [] = Some nw /\
    (m' = merged ro ex nw \/
     exists ho, ordered (o_homeless os (homeless_of (merged ro ex nw))) (homeless_of (merged ro ex nw)) = Some ho /\
                distribute_homeless os (merged ro ex nw) ho (writable_p2s readonly p2s) = Some m') /\
    (rr = [] \/ ordered (o_rr os (diffN peers readonly)) (diffN peers readonly) = Some rr) /\
    round_robin rr 0 m' = Some (ps_result st) /\ ps_readonly_phase st = ro.
Proof.
  intros os peers readonly shares p2s st H. unfold share_placement_state in H.
  fold (ro_shares readonly p2s) in H.
  destruct (calculate_mappings (o_ro os) readonly (ro_shares readonly p2s) (held_by_readonly readonly p2s)) as [ro|] eqn:E1; [|discriminate].
  fold (peers2 peers ro) (shares2 shares ro) (smap2 p2s ro) in H.
  destruct (calculate_mappings (o_ex os) (peers2 peers ro) (shares2 shares ro) (smap2 p2s ro)) as [ex|] eqn:E2; [|discriminate].
  fold (peers3 peers ro ex) (shares3 shares ro ex) in H.
  destruct (calculate_mappings (o_new os) (peers3 peers ro ex) (shares3 shares ro ex) []) as [nw|] eqn:E3; [|discriminate].
  fold (merged ro ex nw) in H. fold (homeless_of (merged ro ex nw)) in H. fold (writable_p2s readonly p2s) in H.
  match type of H with match ?X with Some _ => _ | None => _ end = _ => destruct X as [m'|] eqn:E4; [|discriminate] end.
  match type of H with match ?X with Some _ => _ | None => _ end = _ => destruct X as [rr|] eqn:E5; [|discriminate] end.
  destruct (round_robin rr 0 m') as [res|] eqn:E6; [|discriminate].
  inversion H; subst st. cbn [ps_result ps_readonly_phase].
  exists ro, ex, nw, m', rr. split; [first [exact E1 | reflexivity]|]. split; [first [exact E2 | reflexivity]|]. split; [first [exact E3 | reflexivity]|]. split; [|split; [|split; [exact E6 | reflexivity]]].
  - destruct (homeless_of (merged ro ex nw)) as [|h hs].
    + inversion E4; subst. left. reflexivity.
    + destruct (ordered (o_homeless os (h :: hs)) (h :: hs)) as [ho|] eqn:Eo; [|discriminate]. right. exists ho. split; [reflexivity | exact E4].
  - destruct (has_none m'); [right; exact E5 | inversion E5; subst; left; reflexivity].
Qed.

(* ---------- used_peers_of / used_shares_of ------------------------------------------------------ *)

Lemma used_shares_In : forall m s, In s (used_shares_of m) <-> exists p, In (s, Some p) m.
Proof.
  intros m s. unfold used_shares_of.
  assert (H : forall l acc, In s (fold_left (fun acc (e : N * option N) => match snd e with Some _ => add_set (fst e) acc | None => acc end) l acc)
                           <-> In s acc \/ exists p, In (s, Some p) l).
  { induction l as [|[k v] r IH]; intros acc; cbn [fold_left fst snd].
    - split; [left; assumption | intros [H|[p []]]; exact H].
    - rewrite IH. destruct v as [q|].
      + rewrite add_set_In. split.
        * intros [[H|H]|[p H]]; [right; exists q; left; subst; reflexivity | left; exact H | right; exists p; right; exact H].
        * intros [H|[p [H|H]]]; [left; right; exact H | inversion H; subst; left; left; reflexivity | right; exists p; exact H].
      + split.
        * intros [H|[p H]]; [left; exact H | right; exists p; right; exact H].
        * intros [H|[p [H|H]]]; [left; exact H | discriminate | right; exists p; exact H]. }
  rewrite H. cbn [In]. tauto.
Qed.

Lemma used_peers_In : forall m p, In p (used_peers_of m) <-> exists s, In (s, Some p) m.
Proof.
  intros m p. unfold used_peers_of.
  assert (H : forall l acc, In p (fold_left (fun acc (e : N * option N) => match snd e with Some q => add_set q acc | None => acc end) l acc)
                           <-> In p acc \/ exists s, In (s, Some p) l).
  { induction l as [|[k v] r IH]; intros acc; cbn [fold_left fst snd].
    - split; [left; assumption | intros [H|[s []]]; exact H].
    - rewrite IH. destruct v as [q|].
      + rewrite add_set_In. split.
        * intros [[H|H]|[s H]]; [right; exists k; left; subst; reflexivity | left; exact H | right; exists s; right; exact H].
        * intros [H|[s [H|H]]]; [left; right; exact H | inversion H; subst; left; left; reflexivity | right; exists s; exact H].
      + split.
        * intros [H|[s H]]; [left; exact H | right; exists s; right; exact H].
        * intros [H|[s [H|H]]]; [left; exact H | discriminate | right; exists s; exact H]. }
  rewrite H. cbn [In]. tauto.
Qed.

(* ---------- clause 1: every share is placed ------------------------------------------------------- *)

Theorem placement_total_full : forall os peers readonly shares p2s res,
  NoDup shares -> peers <> [] ->
  share_placement os peers readonly shares p2s = Some res ->
  total_spec shares res.
Proof.
  intros os peers readonly shares p2s res Hnd Hne H s Hs. unfold share_placement in H.
  destruct peers as [|p0 pr]; [contradiction|].
  destruct (share_placement_state os (p0 :: pr) readonly shares p2s) as [st|] eqn:Es; [|discriminate].
  cbn [option_map] in H. inversion H; subst res. clear H.
  destruct (sps_inv _ _ _ _ _ _ Es) as [ro [ex [nw [m' [rr [C1 [C2 [C3 [Hm [_ [Hrr _]]]]]]]]]]].
  destruct (round_robin_spec _ _ _ _ Hrr) as [Hk _].
  assert (Hin : In s (map fst (ps_result st))).
  { rewrite Hk.
    assert (Hmerged : In s (map fst (merged ro ex nw))).
    { apply merge_keys. destruct (in_dec N.eq_dec s (used_shares_of (pr_mappings ro))) as [Hu|Hu].
      - left. apply used_shares_In in Hu. destruct Hu as [p Hp]. apply in_map_iff. exists (s, Some p). split; [reflexivity | exact Hp].
      - right. left. destruct (cm_keys _ _ _ _ _ C2) as [K1 [K2 _]]. rewrite K1.
        apply (ordered_complete _ _ _ (diffN_NoDup _ _ Hnd) K2). apply diffN_In. split; assumption. }
    destruct Hm as [->|[ho [_ Hd]]]; [exact Hmerged|].
    apply (proj1 (distribute_homeless_spec _ _ _ _ _ Hd)). exact Hmerged. }
  apply in_map_iff in Hin. destruct Hin as [[s' p] [E Hin]]. cbn [fst] in E. subst s'. exists p. exact Hin.
Qed.
