(* C07, clause 2: a read-only server is assigned only shares it already holds, and every
   share goes to a listed server. *)
From Coq Require Import List NArith ZArith Bool Arith Lia.
From Verif Require Import Model.Matching Model.Placement Proofs.Matching Proofs.MatchingLists
     Proofs.Placement Proofs.PlacementStruct Proofs.PlacementGraph.
Import ListNotations.

(* a matched entry of a call with a server map: the server holds the share in that map *)
Lemma cm_edge : forall po P S sm pr s p,
  calculate_mappings po P S sm = Some pr -> sm <> [] -> In (s, Some p) (pr_mappings pr) ->
  exists held, lookupN p sm = Some held /\ In s held.
Proof.
  intros po P S sm pr s p H Hne Hin.
  destruct (cm_entry _ _ _ _ _ _ _ H Hin) as (pl & so & g & rows & i & j & f & rg & cf & _ & _ & _ & _ & _ & Hrows & Hi & Hj & _ & _ & _ & _ & Hrow & _).
  pose proof (Hrows i p Hi) as Hp. destruct sm as [|e sm']; [contradiction|].
  destruct (peer_row_spec _ _ _ _ _ _ Hp) as [[_ Er]|[held [ho [El [Eo Er]]]]]; rewrite Er in Hrow; [destruct Hrow|].
  apply in_indexed_shares in Hrow. destruct Hrow as [s' [j' [Hs' [Ei Ev]]]].
  assert (j' = j) by lia. subst j'. apply index_of_nth_error in Ei. rewrite Hj in Ei. inversion Ei; subst s'.
  exists held. split; [exact El|]. destruct (ordered_spec _ _ _ Eo) as [_ [_ [_ Hsub]]]. apply Hsub. exact Hs'.
Qed.

Lemma held_by_readonly_In : forall readonly p2s p held,
  In (p, held) (held_by_readonly readonly p2s) -> In p readonly /\ lookupN p p2s = Some held.
Proof.
  intros readonly p2s p held H. unfold held_by_readonly in H. apply in_flat_map in H.
  destruct H as [peer [_ H]]. destruct (memN peer readonly) eqn:E; [|destruct H].
  destruct (lookupN peer p2s) as [shs|] eqn:El; [|destruct H]. destruct H as [H|[]]. inversion H; subst.
  split; [apply memN_In; exact E | exact El].
Qed.

Definition wf_input (peers readonly : list N) (p2s : smap) : Prop :=
  (forall p, In p peers -> ~ In p readonly) /\
  (forall p held, In (p, held) p2s -> In p peers \/ In p readonly).

Theorem readonly_only_existing_full : forall os peers readonly shares p2s res,
  wf_input peers readonly p2s ->
  share_placement os peers readonly shares p2s = Some res ->
  readonly_spec readonly p2s res /\ known_spec peers readonly res.
Proof.
  intros os peers readonly shares p2s res [Hdisj Hkeys] H. unfold share_placement in H.
  destruct peers as [|p0 pr]; [inversion H; subst; split; intros s p []|].
  destruct (share_placement_state os (p0 :: pr) readonly shares p2s) as [st|] eqn:Es; [|discriminate].
  cbn [option_map] in H. inversion H; subst res. clear H. set (peers := p0 :: pr) in *.
  destruct (sps_inv _ _ _ _ _ _ Es) as [ro [ex [nw [m' [rr [C1 [C2 [C3 [Hm [Hrr0 [Hrr _]]]]]]]]]]].
  destruct (round_robin_spec _ _ _ _ Hrr) as [_ Hres].
  (* where the peers of each phase live *)
  destruct (cm_keys _ _ _ _ _ C1) as [_ [_ [K1p K1]]].
  destruct (cm_keys _ _ _ _ _ C2) as [_ [_ [K2p K2]]].
  destruct (cm_keys _ _ _ _ _ C3) as [_ [_ [K3p K3]]].
  assert (P1 : forall s p, In (s, Some p) (pr_mappings ro) -> In p readonly).
  { intros s p Hp. destruct (ordered_spec _ _ _ K1p) as [_ [_ [_ Hsub]]]. apply Hsub. apply (K1 s p Hp). }
  assert (P2 : forall s p, In (s, Some p) (pr_mappings ex) -> In p peers).
  { intros s p Hp. destruct (ordered_spec _ _ _ K2p) as [_ [_ [_ Hsub]]]. pose proof (Hsub p (K2 s p Hp)) as Hx.
    unfold peers2 in Hx. apply diffN_In in Hx. apply Hx. }
  assert (P3 : forall s p, In (s, Some p) (pr_mappings nw) -> In p peers).
  { intros s p Hp. destruct (ordered_spec _ _ _ K3p) as [_ [_ [_ Hsub]]]. pose proof (Hsub p (K3 s p Hp)) as Hx.
    unfold peers3, peers2 in Hx. apply diffN_In in Hx. destruct Hx as [Hx _]. apply diffN_In in Hx. destruct Hx as [Hx _].
    apply diffN_In in Hx. apply Hx. }
  assert (Prr : forall p, In p rr -> In p peers /\ ~ In p readonly).
  { intros p Hp. destruct Hrr0 as [->|Ho]; [destruct Hp|].
    destruct (ordered_spec _ _ _ Ho) as [_ [_ [_ Hsub]]]. apply diffN_In. apply Hsub. exact Hp. }
  assert (Pw : forall p, In p (map fst (writable_p2s readonly p2s)) -> (In p peers \/ In p readonly) /\ ~ In p readonly).
  { intros p Hp. apply in_map_iff in Hp. destruct Hp as [[q held] [Eq Hq]]. cbn [fst] in Eq. subst q.
    unfold writable_p2s in Hq. apply filter_In in Hq. destruct Hq as [Hq1 Hq2]. cbn [fst] in Hq2.
    split; [apply (Hkeys p held Hq1)|]. intro Hro. apply memN_In in Hro. rewrite Hro in Hq2. discriminate. }
  (* origin of an entry (s, Some p) of m' *)
  assert (Hm' : forall s p, In (s, Some p) m' ->
            In (s, Some p) (pr_mappings ro) \/ (In p peers /\ ~ In p readonly)).
  { intros s p Hp.
    assert (Hmerged : forall s p, In (s, Some p) (merged ro ex nw) ->
              In (s, Some p) (pr_mappings ro) \/ (In p peers /\ ~ In p readonly)).
    { intros s1 p1 Hq. destruct (merge_In _ _ _ _ _ Hq) as [H1|[H1|H1]].
      - left. exact H1.
      - right. split; [apply (P2 s1 p1 H1) | apply Hdisj; apply (P2 s1 p1 H1)].
      - right. split; [apply (P3 s1 p1 H1) | apply Hdisj; apply (P3 s1 p1 H1)]. }
    destruct Hm as [->|[ho [_ Hd]]]; [apply Hmerged; exact Hp|].
    destruct (proj2 (distribute_homeless_spec _ _ _ _ _ Hd) s p Hp) as [H1|H1]; [apply Hmerged; exact H1|].
    right. destruct (Pw p H1) as [[Hk|Hk] Hn]; [split; assumption | contradiction]. }
  split.
  - intros s p Hin Hro. destruct (Hres s p Hin) as [H1|H1].
    + destruct (Hm' s p H1) as [H2|[_ H2]]; [|contradiction].
      assert (Hne : held_by_readonly readonly p2s <> []).
      { intro Hnil. destruct (cm_keys _ _ _ _ _ C1) as [Kk [Ks _]].
        unfold ro_shares in Ks. rewrite Hnil in Ks. cbn [fold_left] in Ks.
        destruct (ordered_spec _ _ _ Ks) as [_ [_ [Hl _]]]. cbn [length] in Hl.
        assert (In s (map fst (pr_mappings ro))) by (apply in_map_iff; exists (s, Some p); split; [reflexivity | exact H2]).
        rewrite Kk in H. destruct (pr_shares ro); [destruct H | discriminate]. }
      destruct (cm_edge _ _ _ _ _ _ _ C1 Hne H2) as [held [El Hs]].
      apply lookupN_In in El. destruct (held_by_readonly_In _ _ _ _ El) as [_ El'].
      exists held. split; assumption.
    + destruct (Prr p H1). contradiction.
  - intros s p Hin. destruct (Hres s p Hin) as [H1|H1].
    + destruct (Hm' s p H1) as [H2|[H2 _]]; [right; apply (P1 s p H2) | left; exact H2].
    + left. apply (Prr p H1).
Qed.
