(* C29: the crash theorems over Model/Crash.v (all prefixes of every operation's
   low-level call list). *)
From Coq Require Import List Arith NArith Bool Lia.
From Verif Require Import Lib.Hex Lib.FileSys Model.Crash
  Proofs.CrashBytes Proofs.CrashImm Proofs.CrashMut.
Import ListNotations.
Local Open Scope N_scope.

(* ------------------------------------------------------------------ paths *)
Lemma path_eqb_eq a b : path_eqb a b = true <-> a = b.
Proof.
  destruct a as [a1 a2|a1 a2], b as [b1 b2|b1 b2]; simpl;
    try (split; [discriminate|intro H; discriminate H]);
    rewrite andb_true_iff, !N.eqb_eq; split.
  - intros [-> ->]. reflexivity.
  - intro H. inversion H. auto.
  - intros [-> ->]. reflexivity.
  - intro H. inversion H. auto.
Qed.

Lemma run_p_app a b s : run_p (a ++ b) s = run_p b (run_p a s).
Proof. apply run_app. Qed.

Lemma run_p_untouched ops s q :
  (forall o, In o ops -> ~ In q (targets o)) -> run_p ops s q = s q.
Proof. apply run_untouched. exact path_eqb_eq. Qed.

Lemma run_p_lift_same p fops s f :
  s p = Some f -> run_p (map (lift p) fops) s p = Some (run_fops fops f).
Proof. apply run_lift_same. exact path_eqb_eq. Qed.

Lemma run_p_lift_other p fops s q : q <> p -> run_p (map (lift p) fops) s q = s q.
Proof. apply run_lift_other. exact path_eqb_eq. Qed.

(* ======================================================================== *)
(* 1. other shares untouched                                                 *)
(* ======================================================================== *)
Definition targets_in (T : list path) (l : list lop) : Prop :=
  forall x p, In x l -> In p (targets (fst x)) -> In p T.

Lemma targets_in_nil T : targets_in T [].
Proof. intros x p []. Qed.

Lemma targets_in_app T a b : targets_in T a -> targets_in T b -> targets_in T (a ++ b).
Proof.
  intros Ha Hb x p Hx. apply in_app_or in Hx. destruct Hx; [eapply Ha|eapply Hb]; eassumption.
Qed.

Lemma targets_in_lift_flagged T p o : In p T -> targets_in T (lift_flagged p o).
Proof.
  intros Hp x q Hx Hq. unfold lift_flagged in Hx. apply in_map_iff in Hx.
  destruct Hx as [y [<- _]]. simpl in Hq. rewrite lift_targets in Hq.
  destruct Hq as [<-|[]]. exact Hp.
Qed.

Lemma lift_flagged_unflagged p (o : list fop) :
  lift_flagged p (unflagged o) = unflagged (map (lift p) o).
Proof. unfold lift_flagged, unflagged. rewrite !map_map. reflexivity. Qed.

Lemma targets_in_lift T p (o : list fop) : In p T -> targets_in T (unflagged (map (lift p) o)).
Proof. intro H. rewrite <- lift_flagged_unflagged. apply targets_in_lift_flagged. exact H. Qed.

Lemma targets_in_seq T steps :
  (forall st, In st steps -> forall s, targets_in T (fst (st s))) ->
  forall s, targets_in T (seq_steps steps s).
Proof.
  induction steps as [|st r IH]; intros H s; [apply targets_in_nil|].
  cbn [seq_steps]. pose proof (H st (or_introl eq_refl) s) as Hst.
  destruct (st s) as [o ok]. cbn [fst] in Hst. destruct ok; [|exact Hst].
  apply targets_in_app; [exact Hst|]. apply IH. intros st' Hin. apply H. right. exact Hin.
Qed.

Lemma existing_In s si order sh : In sh (existing s si order) -> In sh order.
Proof. unfold existing. intro H. apply filter_In in H. tauto. Qed.

Lemma targets_in_create T p size rec :
  In p T -> targets_in T (unflagged (imm_create_ops p size rec)).
Proof.
  intros Hp x q Hx Hq. unfold unflagged in Hx. apply in_map_iff in Hx.
  destruct Hx as [y [<- Hy]]. cbn [fst] in Hq. unfold imm_create_ops in Hy.
  destruct Hy as [<-|Hy].
  - destruct Hq as [<-|[]]. exact Hp.
  - apply in_map_iff in Hy. destruct Hy as [z [<- _]]. rewrite lift_targets in Hq.
    destruct Hq as [<-|[]]. exact Hp.
Qed.

Lemma step_targets_imm_lease T p rec s : In p T -> targets_in T (fst (imm_lease_step p rec s)).
Proof.
  intro Hp. unfold imm_lease_step. destruct (s p) as [f|]; [|apply targets_in_nil].
  destruct (imm_openable f); [|apply targets_in_nil].
  destruct (imm_add_or_renew_fops f rec); [|apply targets_in_nil].
  apply targets_in_lift_flagged. exact Hp.
Qed.

Lemma step_targets_lease T p ri rm s : In p T -> targets_in T (fst (lease_step p ri rm s)).
Proof.
  intro Hp. unfold lease_step. destruct (s p) as [f|]; [|apply targets_in_nil].
  destruct (mut_magic_ok f).
  - destruct (mut_add_or_renew_fops f rm); [|apply targets_in_nil]. apply targets_in_lift. exact Hp.
  - destruct (_ <? 4); [apply targets_in_nil|].
    destruct (imm_version_ok f); [|apply targets_in_nil].
    destruct (_ <? 12); [apply targets_in_nil|].
    destruct (imm_add_or_renew_fops f ri); [|apply targets_in_nil].
    apply targets_in_lift_flagged. exact Hp.
Qed.

Lemma step_targets_renew T p hs e s : In p T -> targets_in T (fst (renew_step p hs e s)).
Proof.
  intro Hp. unfold renew_step. destruct (s p) as [f|]; [|apply targets_in_nil].
  destruct (mut_magic_ok f).
  - destruct (mut_renew_fops f hs e); [|apply targets_in_nil]. apply targets_in_lift. exact Hp.
  - destruct (_ <? 4); [apply targets_in_nil|].
    destruct (imm_version_ok f); [|apply targets_in_nil].
    destruct (_ <? 12); [apply targets_in_nil|].
    destruct (imm_renew_fops f hs e); [|apply targets_in_nil].
    apply targets_in_lift. exact Hp.
Qed.

Lemma step_targets_alloc T si size rec sh s :
  In (Incoming si sh) T -> targets_in T (fst (alloc_step si size rec sh s)).
Proof.
  intro Hp. unfold alloc_step. destruct (_ || _); [apply targets_in_nil|].
  apply targets_in_create. exact Hp.
Qed.

Lemma step_targets_write T si nodeid we e s :
  In (Final si (tw_sh e)) T -> targets_in T (fst (write_step si nodeid we e s)).
Proof.
  destruct e as [[[sh tv] dv] nl]. cbn [tw_sh]. intro Hp. unfold write_step.
  assert (Hdel : targets_in T (fst ((if exists_at s (Final si sh)
                                      then unflagged [Unlink (Final si sh)] else []), true))).
  { cbn [fst]. destruct (exists_at s (Final si sh)); [|apply targets_in_nil].
    intros x q [<-|[]] [<-|[]]. exact Hp. }
  assert (Hwr : targets_in T (fst (let '(pre, f) :=
                    match s (Final si sh) with
                    | Some f => ([], f)
                    | None => ([Create (Final si sh); WriteAt (Final si sh) 0 (mut_header nodeid we)],
                               mut_header nodeid we)
                    end in
                  let '(o, ok) := mut_writev_all_fops f dv nl in
                  (unflagged (pre ++ map (lift (Final si sh)) o), ok)))).
  { destruct (s (Final si sh)) as [f|].
    - destruct (mut_writev_all_fops f dv nl) as [o ok]. cbn [fst app]. apply targets_in_lift. exact Hp.
    - destruct (mut_writev_all_fops _ dv nl) as [o ok]. cbn [fst].
      intros x q Hx Hq. unfold unflagged in Hx. apply in_map_iff in Hx.
      destruct Hx as [y [<- Hy]]. cbn [fst] in Hq. apply in_app_or in Hy. destruct Hy as [Hy|Hy].
      + destruct Hy as [<-|[<-|[]]]; destruct Hq as [<-|[]]; exact Hp.
      + apply in_map_iff in Hy. destruct Hy as [z [<- _]]. rewrite lift_targets in Hq.
        destruct Hq as [<-|[]]. exact Hp. }
  destruct nl as [[|nl]|]; [exact Hdel|exact Hwr|exact Hwr].
Qed.

Lemma step_targets_mlease T si rec e s :
  In (Final si (tw_sh e)) T -> targets_in T (fst (mlease_step si rec e s)).
Proof.
  destruct e as [[[sh tv] dv] nl]. cbn [tw_sh]. intro Hp. unfold mlease_step.
  assert (H : targets_in T (fst (match s (Final si sh) with
                                 | None => ([], true)
                                 | Some f => match mut_add_or_renew_fops f rec with
                                             | None => raise_
                                             | Some o => (unflagged (map (lift (Final si sh)) o), true)
                                             end
                                 end))).
  { destruct (s (Final si sh)) as [f|]; [|apply targets_in_nil].
    destruct (mut_add_or_renew_fops f rec); [|apply targets_in_nil]. apply targets_in_lift. exact Hp. }
  destruct nl as [[|nl]|]; [apply targets_in_nil|exact H|exact H].
Qed.

Lemma ops_targets o s : targets_in (touched o) (ops_of o s).
Proof.
  destruct o as [si order shnums size rec renew|si sh size off data|si sh|si sh
                |si sh size prev off data|si sh
                |si order ri rm|si order hs e|si order nodeid we tw lease]; cbn [ops_of touched].
  - destruct (all_existing _ _ _ _); [|apply targets_in_nil].
    apply targets_in_seq. intros st Hst s'. apply in_app_or in Hst. destruct Hst as [Hst|Hst].
    + destruct renew; [|destruct Hst]. apply in_map_iff in Hst. destruct Hst as [sh [<- Hsh]].
      apply step_targets_imm_lease. apply in_or_app. left. apply in_map.
      eapply existing_In. exact Hsh.
    + apply in_map_iff in Hst. destruct Hst as [sh [<- Hsh]].
      apply step_targets_alloc. apply in_or_app. right. apply in_map. exact Hsh.
  - destruct (_ <=? _); [|apply targets_in_nil].
    intros x q [<-|[]] [<-|[]]. left. reflexivity.
  - intros x q [<-|[]] Hq. exact Hq.
  - intros x q [<-|[]] Hq. exact Hq.
  - destruct (_ <=? _); [|apply targets_in_nil].
    destruct (covered _ _).
    + intros x q [<-|[<-|[]]] Hq.
      * destruct Hq as [<-|[]]. left. reflexivity.
      * exact Hq.
    + intros x q [<-|[]] [<-|[]]. left. reflexivity.
  - apply targets_in_nil.
  - apply targets_in_seq. intros st Hst s'. apply in_map_iff in Hst. destruct Hst as [sh [<- Hsh]].
    apply step_targets_lease. apply in_map. eapply existing_In. exact Hsh.
  - apply targets_in_seq. intros st Hst s'. apply in_map_iff in Hst. destruct Hst as [sh [<- Hsh]].
    apply step_targets_renew. apply in_map. eapply existing_In. exact Hsh.
  - destruct (_ && _); [|apply targets_in_nil].
    apply targets_in_seq. intros st Hst s'. apply in_app_or in Hst. destruct Hst as [Hst|Hst].
    + apply in_map_iff in Hst. destruct Hst as [e [<- He]].
      apply step_targets_write. apply in_map_iff. exists e. split; [reflexivity|exact He].
    + destruct lease as [rec|]; [|destruct Hst].
      apply in_map_iff in Hst. destruct Hst as [e [<- He]].
      apply step_targets_mlease. apply in_map_iff. exists e. split; [reflexivity|exact He].
Qed.

(* every crash point of every operation leaves the bytes of every path the
   operation does not name exactly as they were; a restart keeps final paths *)
Lemma other_shares_untouched_proof o s pre p :
  In pre (crash_prefixes (plain_ops o s)) ->
  ~ In p (touched o) ->
  run_p pre s p = s p /\ (is_incoming p = false -> recover (run_p pre s) p = s p).
Proof.
  intros Hpre Hp.
  assert (E : run_p pre s p = s p).
  { unfold run_p. eapply crash_untouched; [exact path_eqb_eq|exact Hpre|].
    intros x Hx Hin. apply Hp. unfold plain_ops in Hx. apply in_map_iff in Hx.
    destruct Hx as [y [<- Hy]]. eapply ops_targets; eassumption. }
  split; [exact E|]. intro Hf. unfold recover. rewrite Hf. exact E.
Qed.

(* ======================================================================== *)
(* 2. lease-only operations preserve share data                              *)
(* ======================================================================== *)
(* every stored share file is a well-formed container of its kind *)
Definition file_ok (f : file) : bool :=
  if mut_magic_ok f then mut_wf f
  else if imm_version_ok f then imm_wf f
  else true.

Definition Inv (s : state) : Prop :=
  forall si sh f, s (Final si sh) = Some f -> file_ok f = true.

Definition same_data (s s' : state) : Prop :=
  forall si sh, data_of (s' (Final si sh)) = data_of (s (Final si sh)).

Lemma same_data_refl s : same_data s s.
Proof. intros si sh. reflexivity. Qed.

Lemma same_data_trans a b c : same_data a b -> same_data b c -> same_data a c.
Proof. intros H1 H2 si sh. rewrite H2. apply H1. Qed.

Definition good_ops (s : state) (o : list lop) : Prop :=
  in_window o = false /\
  Inv (run_p (map fst o) s) /\
  forall k, in_window (firstn k o) = false -> same_data s (run_p (map fst (firstn k o)) s).

Definition good_step (st : step) : Prop := forall s, Inv s -> good_ops s (fst (st s)).

Lemma good_ops_nil s : Inv s -> good_ops s [].
Proof.
  intro H. repeat split; try assumption.
  intros k _. destruct k; apply same_data_refl.
Qed.

Lemma in_window_app {A} (a b : list (A * bool)) :
  in_window (a ++ b) = match b with [] => in_window a | _ => in_window b end.
Proof.
  destruct b as [|x b]; [rewrite app_nil_r; reflexivity|].
  unfold in_window. rewrite rev_app_distr.
  destruct (rev (x :: b)) as [|y r] eqn:E; [|reflexivity].
  apply (f_equal (@length _)) in E. rewrite rev_length in E. discriminate.
Qed.

Lemma seq_good steps : Forall good_step steps ->
  forall s, Inv s ->
  Inv (run_p (map fst (seq_steps steps s)) s) /\
  forall k, in_window (firstn k (seq_steps steps s)) = false ->
            same_data s (run_p (map fst (firstn k (seq_steps steps s))) s).
Proof.
  intro H. induction H as [|st r Hst _ IH]; intros s Hs.
  - split; [exact Hs|]. intros k _. destruct k; apply same_data_refl.
  - cbn [seq_steps]. pose proof (Hst s Hs) as G. destruct (st s) as [o ok]. cbn [fst] in G.
    destruct G as [Gw [Gi Gk]]. destruct ok.
    + specialize (IH (run_p (map fst o) s) Gi). destruct IH as [IHi IHk]. split.
      * rewrite map_app, run_p_app. exact IHi.
      * intros k Hk. set (R := seq_steps r (run_p (map fst o) s)) in *.
        destruct (Nat.le_gt_cases k (length o)) as [Hle|Hgt].
        -- assert (E : firstn k (o ++ R) = firstn k o).
           { rewrite firstn_app. replace (k - length o)%nat with 0%nat by lia.
             cbn [firstn]. apply app_nil_r. }
           rewrite E in Hk. rewrite E. apply Gk. exact Hk.
        -- assert (E : firstn k (o ++ R) = o ++ firstn (k - length o) R).
           { rewrite firstn_app, firstn_all2 by lia. reflexivity. }
           rewrite E in Hk. rewrite E, map_app, run_p_app.
           eapply same_data_trans.
           ++ pose proof (Gk (length o)) as G0. rewrite firstn_all in G0. apply G0. exact Gw.
           ++ apply IHk. pose proof (in_window_app o (firstn (k - length o) R)) as X.
              destruct (firstn (k - length o) R) as [|y P]; [reflexivity|].
              change (in_window (o ++ y :: P) = in_window (y :: P)) in X.
              rewrite <- X. exact Hk.
    + split; [exact Gi|exact Gk].
Qed.

(* -------- operations on one final share file, lifted to the file system --- *)
Lemma map_fst_firstn_lift_flagged p (o : list (fop * bool)) k :
  map fst (firstn k (lift_flagged p o)) = map (lift p) (map fst (firstn k o)).
Proof. unfold lift_flagged. rewrite firstn_map, !map_map. reflexivity. Qed.

Lemma in_window_lift_flagged p (o : list (fop * bool)) :
  in_window (lift_flagged p o) = in_window o.
Proof.
  unfold in_window, lift_flagged. rewrite <- map_rev.
  destruct (rev o) as [|[x b] r]; reflexivity.
Qed.

Lemma firstn_lift_flagged p (o : list (fop * bool)) k :
  firstn k (lift_flagged p o) = lift_flagged p (firstn k o).
Proof. unfold lift_flagged. apply firstn_map. Qed.

Lemma data_of_imm f : imm_wf f = true -> data_of (Some f) = Some (imm_data f) /\ file_ok f = true.
Proof.
  intro H. destruct (imm_wf_facts f H) as [_ [Hv _]].
  pose proof (version_not_magic f Hv) as Hm.
  unfold data_of, view_of, file_ok. rewrite Hm, H, Hv. auto.
Qed.

Lemma data_of_mut f :
  mut_magic_ok f = true -> mut_wf f = true -> (flen f <? 100) = false ->
  data_of (Some f) = Some (mut_data f) /\ file_ok f = true.
Proof.
  intros Hm Hw Hl. unfold data_of, view_of, file_ok. rewrite Hm, Hl, Hw. auto.
Qed.

Lemma good_ops_lifted s si sh f (o : list (fop * bool)) :
  Inv s -> s (Final si sh) = Some f ->
  in_window o = false ->
  (forall k, in_window (firstn k o) = false ->
             let g := run_fops (map fst (firstn k o)) f in
             file_ok g = true /\ data_of (Some g) = data_of (Some f)) ->
  good_ops s (lift_flagged (Final si sh) o).
Proof.
  intros Hs Hf Hw Hk. set (p := Final si sh) in *.
  assert (Hat : forall k, run_p (map fst (firstn k (lift_flagged p o))) s p
                          = Some (run_fops (map fst (firstn k o)) f)).
  { intro k. rewrite map_fst_firstn_lift_flagged. apply run_p_lift_same. exact Hf. }
  assert (Hoth : forall k q, q <> p -> run_p (map fst (firstn k (lift_flagged p o))) s q = s q).
  { intros k q Hq. rewrite map_fst_firstn_lift_flagged. apply run_p_lift_other. exact Hq. }
  repeat split.
  - rewrite in_window_lift_flagged. exact Hw.
  - intros si' sh' f' Hf'.
    pose proof (Hat (length (lift_flagged p o))) as A. pose proof (Hoth (length (lift_flagged p o))) as B.
    rewrite firstn_all in A, B.
    destruct (path_eqb (Final si' sh') p) eqn:E.
    + apply path_eqb_eq in E. rewrite E, A in Hf'. apply some_inj in Hf'. subst f'.
      apply Hk. unfold lift_flagged. rewrite map_length, firstn_all. exact Hw.
    + assert (Final si' sh' <> p) by (intro X; apply path_eqb_eq in X; congruence).
      rewrite B in Hf' by assumption. eapply Hs. exact Hf'.
  - intros k Hwk si' sh'.
    rewrite firstn_lift_flagged, in_window_lift_flagged in Hwk.
    destruct (path_eqb (Final si' sh') p) eqn:E.
    + apply path_eqb_eq in E. rewrite E, Hat, Hf. apply Hk. exact Hwk.
    + assert (Final si' sh' <> p) by (intro X; apply path_eqb_eq in X; congruence).
      rewrite Hoth by assumption. reflexivity.
Qed.

Lemma good_ops_lifted_unflagged s si sh f (o : list fop) :
  Inv s -> s (Final si sh) = Some f ->
  (forall k, let g := run_fops (firstn k o) f in
             file_ok g = true /\ data_of (Some g) = data_of (Some f)) ->
  good_ops s (unflagged (map (lift (Final si sh)) o)).
Proof.
  intros Hs Hf Hk. rewrite <- lift_flagged_unflagged.
  eapply good_ops_lifted; [exact Hs|exact Hf|apply in_window_unflagged_all|].
  intros k _. unfold unflagged. rewrite firstn_map, map_map. cbn [fst]. rewrite map_id. apply Hk.
Qed.

(* calls that only name incoming paths *)
Lemma good_ops_incoming s (l : list pop) :
  Inv s -> (forall x q, In x l -> In q (targets x) -> is_incoming q = true) ->
  good_ops s (unflagged l).
Proof.
  intros Hs Ht.
  assert (Hun : forall k si sh, run_p (map fst (firstn k (unflagged l))) s (Final si sh) = s (Final si sh)).
  { intros k si sh. apply run_p_untouched. intros x Hx Hin.
    apply in_map_iff in Hx. destruct Hx as [[y b] [<- Hy]]. apply In_firstn in Hy.
    unfold unflagged in Hy. apply in_map_iff in Hy. destruct Hy as [z [Ez Hz]].
    inversion Ez; subst. cbn [fst] in Hin. specialize (Ht _ _ Hz Hin). discriminate. }
  repeat split.
  - apply in_window_unflagged_all.
  - intros si sh f Hf. pose proof (Hun (length (unflagged l)) si sh) as E.
    rewrite firstn_all in E. rewrite E in Hf. eapply Hs. exact Hf.
  - intros k _ si sh. rewrite Hun. reflexivity.
Qed.

Lemma good_imm_lease_step si sh rec :
  length rec = 72%nat -> good_step (imm_lease_step (Final si sh) rec).
Proof.
  intros Hrec s Hs. unfold imm_lease_step.
  destruct (s (Final si sh)) as [f|] eqn:Hf; [|apply good_ops_nil; exact Hs].
  destruct (imm_openable f) eqn:Hop; [|apply good_ops_nil; exact Hs].
  unfold imm_openable in Hop. apply andb_true_iff in Hop. destruct Hop as [_ Hv].
  pose proof (Hs si sh f Hf) as Hok. unfold file_ok in Hok.
  rewrite (version_not_magic f Hv), Hv in Hok.
  destruct (imm_add_or_renew_fops f rec) as [o|] eqn:E; [|apply good_ops_nil; exact Hs].
  cbn [fst]. destruct (imm_lease_file f rec o Hok Hrec E) as [Hw Hk].
  eapply good_ops_lifted; [exact Hs|exact Hf|exact Hw|].
  intros k Hwk. destruct (Hk k Hwk) as [G1 G2].
  destruct (data_of_imm _ G1) as [D1 D2]. destruct (data_of_imm _ Hok) as [D3 _].
  split; [exact D2|]. rewrite D1, D3, G2. reflexivity.
Qed.

Lemma good_mut_fops s si sh f o :
  Inv s -> s (Final si sh) = Some f -> mut_magic_ok f = true -> Forall (safe f) o ->
  good_ops s (unflagged (map (lift (Final si sh)) o)).
Proof.
  intros Hs Hf Hm Hsafe.
  pose proof (Hs si sh f Hf) as Hok. unfold file_ok in Hok. rewrite Hm in Hok.
  eapply good_ops_lifted_unflagged; [exact Hs|exact Hf|].
  intros k. destruct (mut_lease_file f o k Hm Hok Hsafe) as [G1 [G2 [G3 G4]]].
  destruct (data_of_mut _ G1 G2 G4) as [D1 D2].
  destruct (mut_lease_file f o 0 Hm Hok Hsafe) as [_ [_ [_ G5]]]. cbn in G5.
  destruct (data_of_mut _ Hm Hok G5) as [D3 _].
  split; [exact D2|]. rewrite D1, D3, G3. reflexivity.
Qed.

Lemma good_lease_step si sh ri rm :
  length ri = 72%nat -> length rm = 92%nat -> good_step (lease_step (Final si sh) ri rm).
Proof.
  intros Hri Hrm s Hs. unfold lease_step.
  destruct (s (Final si sh)) as [f|] eqn:Hf; [|apply good_ops_nil; exact Hs].
  destruct (mut_magic_ok f) eqn:Hm.
  - destruct (mut_add_or_renew_fops f rm) as [o|] eqn:E; [|apply good_ops_nil; exact Hs].
    cbn [fst]. eapply good_mut_fops; try eassumption. eapply mut_add_or_renew_safe; eassumption.
  - destruct (_ <? 4); [apply good_ops_nil; exact Hs|].
    destruct (imm_version_ok f) eqn:Hv; [|apply good_ops_nil; exact Hs].
    destruct (_ <? 12); [apply good_ops_nil; exact Hs|].
    pose proof (Hs si sh f Hf) as Hok. unfold file_ok in Hok. rewrite Hm, Hv in Hok.
    destruct (imm_add_or_renew_fops f ri) as [o|] eqn:E; [|apply good_ops_nil; exact Hs].
    cbn [fst]. destruct (imm_lease_file f ri o Hok Hri E) as [Hw Hk].
    eapply good_ops_lifted; [exact Hs|exact Hf|exact Hw|].
    intros k Hwk. destruct (Hk k Hwk) as [G1 G2].
    destruct (data_of_imm _ G1) as [D1 D2]. destruct (data_of_imm _ Hok) as [D3 _].
    split; [exact D2|]. rewrite D1, D3, G2. reflexivity.
Qed.

Lemma good_renew_step si sh hs e : good_step (renew_step (Final si sh) hs e).
Proof.
  intros s Hs. unfold renew_step.
  destruct (s (Final si sh)) as [f|] eqn:Hf; [|apply good_ops_nil; exact Hs].
  destruct (mut_magic_ok f) eqn:Hm.
  - destruct (mut_renew_fops f hs e) as [o|] eqn:E; [|apply good_ops_nil; exact Hs].
    cbn [fst]. eapply good_mut_fops; try eassumption. eapply mut_renew_safe; eassumption.
  - destruct (_ <? 4); [apply good_ops_nil; exact Hs|].
    destruct (imm_version_ok f) eqn:Hv; [|apply good_ops_nil; exact Hs].
    destruct (_ <? 12); [apply good_ops_nil; exact Hs|].
    pose proof (Hs si sh f Hf) as Hok. unfold file_ok in Hok. rewrite Hm, Hv in Hok.
    destruct (imm_renew_fops f hs e) as [o|] eqn:E; [|apply good_ops_nil; exact Hs].
    cbn [fst]. eapply good_ops_lifted_unflagged; [exact Hs|exact Hf|].
    intros k. destruct (imm_renew_file f hs e o Hok E k) as [G1 G2].
    destruct (data_of_imm _ G1) as [D1 D2]. destruct (data_of_imm _ Hok) as [D3 _].
    split; [exact D2|]. rewrite D1, D3, G2. reflexivity.
Qed.

Lemma good_alloc_step si size rec sh : good_step (alloc_step si size rec sh).
Proof.
  intros s Hs. unfold alloc_step. destruct (_ || _); [apply good_ops_nil; exact Hs|].
  cbn [fst]. apply good_ops_incoming; [exact Hs|].
  intros x q Hx Hq. unfold imm_create_ops in Hx. destruct Hx as [<-|Hx].
  - destruct Hq as [<-|[]]. reflexivity.
  - apply in_map_iff in Hx. destruct Hx as [z [<- _]]. rewrite lift_targets in Hq.
    destruct Hq as [<-|[]]. reflexivity.
Qed.

(* the lease records have the size the serializers produce *)
Definition recs_ok (o : sop) : Prop :=
  match o with
  | ImmAllocate _ _ _ _ rec _ => length rec = 72%nat
  | AddLease _ _ ri rm => length ri = 72%nat /\ length rm = 92%nat
  | _ => True
  end.

Lemma Forall_map_intro {A B} (P : B -> Prop) (f : A -> B) l :
  (forall x, P (f x)) -> Forall P (map f l).
Proof. intro H. apply Forall_forall. intros y Hy. apply in_map_iff in Hy. destruct Hy as [x [<- _]]. apply H. Qed.

Lemma lease_ops_preserve_data_proof o s k :
  lease_only o = true -> recs_ok o -> Inv s ->
  in_window (firstn k (ops_of o s)) = false ->
  forall si sh,
    data_of (recover (run_p (map fst (firstn k (ops_of o s))) s) (Final si sh))
    = data_of (s (Final si sh)).
Proof.
  intros Hl Hr Hs Hk si sh. change (recover ?x (Final si sh)) with (x (Final si sh)).
  revert si sh. change (same_data s (run_p (map fst (firstn k (ops_of o s))) s)).
  destruct o as [si0 order shnums size rec renew|si0 sh0 size off data|si0 sh0|si0 sh0
                |si0 sh0 size prev off data|si0 sh0
                |si0 order ri rm|si0 order hs e|si0 order nodeid we tw lease];
    try discriminate Hl; cbn [ops_of recs_ok] in *.
  - destruct (all_existing _ _ _ _).
    + apply seq_good; [|exact Hs|exact Hk].
      apply Forall_app. split.
      * destruct renew; [|constructor]. apply Forall_map_intro. intro x.
        apply good_imm_lease_step. exact Hr.
      * apply Forall_map_intro. intro x. apply good_alloc_step.
    + destruct k; apply same_data_refl.
  - destruct Hr as [Hri Hrm]. apply seq_good; [|exact Hs|exact Hk].
    apply Forall_map_intro. intro x. apply good_lease_step; assumption.
  - apply seq_good; [|exact Hs|exact Hk].
    apply Forall_map_intro. intro x. apply good_renew_step.
Qed.

(* a complete lease-only operation keeps every share well-formed *)
Lemma lease_ops_preserve_inv o s :
  lease_only o = true -> recs_ok o -> Inv s -> Inv (run_p (plain_ops o s) s).
Proof.
  intros Hl Hr Hs. unfold plain_ops.
  destruct o as [si0 order shnums size rec renew|si0 sh0 size off data|si0 sh0|si0 sh0
                |si0 sh0 size prev off data|si0 sh0
                |si0 order ri rm|si0 order hs e|si0 order nodeid we tw lease];
    try discriminate Hl; cbn [ops_of recs_ok] in *.
  - destruct (all_existing _ _ _ _); [|exact Hs].
    apply seq_good; [|exact Hs].
    apply Forall_app. split.
    + destruct renew; [|constructor]. apply Forall_map_intro. intro x.
      apply good_imm_lease_step. exact Hr.
    + apply Forall_map_intro. intro x. apply good_alloc_step.
  - destruct Hr as [Hri Hrm]. apply seq_good; [|exact Hs].
    apply Forall_map_intro. intro x. apply good_lease_step; assumption.
  - apply seq_good; [|exact Hs]. apply Forall_map_intro. intro x. apply good_renew_step.
Qed.

(* ======================================================================== *)
(* 4. incoming discarded                                                     *)
(* ======================================================================== *)
Lemma incoming_discarded_proof (s : state) si sh : recover s (Incoming si sh) = None.
Proof. reflexivity. Qed.

Lemma recover_idem s p : recover (recover s) p = recover s p.
Proof. unfold recover. destruct (is_incoming p); reflexivity. Qed.

(* a crash inside the cleanup itself, followed by another restart *)
Lemma recover_after_partial_cleanup s (l : list path) k p :
  (forall q, In q l -> is_incoming q = true) ->
  recover (run_p (firstn k (map Unlink l)) s) p = recover s p.
Proof.
  intro H. unfold recover. destruct (is_incoming p) eqn:E; [reflexivity|].
  apply run_p_untouched. intros x Hx Hin. apply In_firstn in Hx.
  apply in_map_iff in Hx. destruct Hx as [q [<- Hq]]. destruct Hin as [<-|[]].
  rewrite (H _ Hq) in E. discriminate.
Qed.
