(* Invariants of Model/ImmStore.v over all operation histories, and the C22 theorems. *)
From Coq Require Import List NArith ZArith Bool Lia.
From Coq Require Import ZifyBool ZifyNat ZifyN.
From Verif Require Import Model.ImmStore Proofs.ImmStoreLib.
Import ListNotations.
Local Open Scope N_scope.

(* ------------------------------------------------------------------ induction over histories *)
Lemma run_from_inv (ro : bool) (P : store -> list event -> Prop) :
  (forall s tr o, P s tr -> P (fst (step ro s o)) (tr ++ [(o, snd (step ro s o))])) ->
  forall ops s tr0, P s tr0 -> P (fst (run_from ro s ops)) (tr0 ++ snd (run_from ro s ops)).
Proof.
  intros Hstep. induction ops as [|o ops IH]; intros s tr0 H0; cbn [run_from].
  - cbn [fst snd]. rewrite app_nil_r. assumption.
  - specialize (Hstep s tr0 o H0). destruct (step ro s o) as [s' r]. cbn [fst snd] in Hstep.
    specialize (IH s' (tr0 ++ [(o, r)]) Hstep).
    destruct (run_from ro s' ops) as [s'' tr]. cbn [fst snd] in *.
    rewrite <- app_assoc in IH. exact IH.
Qed.

Lemma in_snoc : forall (A : Type) (l : list A) (e x : A), In x (l ++ [e]) <-> In x l \/ x = e.
Proof. intros. rewrite in_app_iff. simpl. intuition. Qed.

(* ------------------------------------------------------------------ what a history says *)
(* the write (off, d) through writer wid of share k was accepted *)
Definition accepted (tr : list event) (k : key) (wid off : N) (d : list N) : Prop :=
  exists f, In (OWrite k wid off d, RWrote f) tr.

(* writer wid of share k was closed successfully *)
Definition closed_ok (tr : list event) (k : key) (wid : N) : Prop := In (OClose k wid, ROk) tr.

(* an allocate call for size z created a writer for share k *)
Definition allocated_for (tr : list event) (k : key) (z : N) : Prop :=
  exists shs c av al acc, In (OAlloc (fst k) shs z c av, RAlloc al acc) tr /\ In (snd k) acc.

(* the stored bytes are those of every accepted write ... *)
Definition agree (acc : N -> list N -> Prop) (data : list N) : Prop :=
  forall off d, acc off d ->
    off + blen d <= blen data /\ forall p, off <= p < off + blen d -> nthb data p = nthb d (p - off).

(* ... and zero where nothing was written *)
Definition zero_elsewhere (acc : N -> list N -> Prop) (data : list N) : Prop :=
  forall p, p < blen data -> (forall off d, acc off d -> ~ (off <= p < off + blen d)) -> nthb data p = 0.

Definition slot_ok (acc : N -> N -> list N -> Prop) (asz : N -> Prop) (next : N) (v : slot) : Prop :=
  match v with
  | Absent => True
  | Incoming w =>
      w_id w < next /\ blen (w_data w) = w_size w /\ asz (w_size w) /\ agree (acc (w_id w)) (w_data w)
      /\ (forall p, covered (w_ranges w) p = true <-> exists off d, acc (w_id w) off d /\ off <= p < off + blen d)
      /\ (forall p, p < w_size w -> covered (w_ranges w) p = false -> nthb (w_data w) p = 0)
  | Final wid data => wid < next /\ asz (blen data) /\ agree (acc wid) data /\ zero_elsewhere (acc wid) data
  end.

Record inv (s : store) (tr : list event) : Prop := mkInv {
  inv_keys : NoDup (keys (st_slots s));
  inv_slots : forall k, slot_ok (accepted tr k) (allocated_for tr k) (st_next s) (get s k);
  inv_fresh : forall k wid off d, accepted tr k wid off d -> wid < st_next s;
  inv_final : forall k wid d, get s k = Final wid d -> closed_ok tr k wid;
  inv_closed : forall k wid, closed_ok tr k wid -> exists d, get s k = Final wid d
}.

Lemma agree_ext : forall (acc acc' : N -> list N -> Prop) data, (forall off d, acc' off d -> acc off d) -> agree acc data -> agree acc' data.
Proof. unfold agree. intros acc acc' data H Ha off d Hacc. apply Ha. apply H. assumption. Qed.

Lemma zero_ext : forall (acc acc' : N -> list N -> Prop) data, (forall off d, acc off d -> acc' off d) -> zero_elsewhere acc data -> zero_elsewhere acc' data.
Proof.
  unfold zero_elsewhere. intros acc acc' data H Hz p Hp Hn. apply Hz; [assumption|].
  intros off d Hacc. apply Hn. apply H. assumption.
Qed.

Lemma slot_ok_ext : forall (acc acc' : N -> N -> list N -> Prop) (asz asz' : N -> Prop) next next' v,
  (forall wid off d, acc wid off d <-> acc' wid off d) -> (forall z, asz z -> asz' z) -> next <= next' ->
  slot_ok acc asz next v -> slot_ok acc' asz' next' v.
Proof.
  intros acc acc' asz asz' next next' v Hacc Hasz Hn H. destruct v as [|w|wid data]; cbn [slot_ok] in *.
  - exact I.
  - destruct H as (H1 & H2 & H3 & H4 & H5 & H6).
    split; [lia|]. split; [assumption|]. split; [auto|]. split; [|split].
    + eapply agree_ext; [|exact H4]. intros off d Ha. apply Hacc. assumption.
    + intros p. split.
      * intros Hc. apply H5 in Hc. destruct Hc as (off & d & Ha & Hp). exists off, d. split; auto. apply Hacc. assumption.
      * intros (off & d & Ha & Hp). apply H5. exists off, d. split; auto. apply Hacc. assumption.
    + exact H6.
  - destruct H as (H1 & H2 & H3 & H4).
    split; [lia|]. split; [auto|]. split.
    + eapply agree_ext; [|exact H3]. intros off d Ha. apply Hacc. assumption.
    + eapply zero_ext; [|exact H4]. intros off d Ha. apply Hacc. assumption.
Qed.

Lemma get_with_slots : forall s l k, get (with_slots s l) k = lookup k l.
Proof. reflexivity. Qed.

Lemma allocated_for_snoc : forall tr e k z, allocated_for tr k z -> allocated_for (tr ++ [e]) k z.
Proof.
  intros tr e k z (shs & c & av & al & acc & H1 & H2). exists shs, c, av, al, acc. split; auto.
  apply in_snoc. left. assumption.
Qed.

(* ------------------------------------------------------------------ events that are neither an
   accepted write nor a successful close *)
Definition quiet (e : event) : Prop :=
  (forall k wid off d f, e <> (OWrite k wid off d, RWrote f)) /\ (forall k wid, e <> (OClose k wid, ROk)).

Lemma accepted_snoc_quiet : forall tr e k wid off d, quiet e -> (accepted (tr ++ [e]) k wid off d <-> accepted tr k wid off d).
Proof.
  intros tr e k wid off d [Hq _]. unfold accepted. split; intros (f & H); exists f.
  - apply in_snoc in H. destruct H as [H|H]; auto. symmetry in H. apply Hq in H. contradiction.
  - apply in_snoc. left. assumption.
Qed.

Lemma closed_snoc_quiet : forall tr e k wid, quiet e -> (closed_ok (tr ++ [e]) k wid <-> closed_ok tr k wid).
Proof.
  intros tr e k wid [_ Hq]. unfold closed_ok. rewrite in_snoc. split; [|auto].
  intros [H|H]; auto. symmetry in H. apply Hq in H. contradiction.
Qed.

Definition not_final (v : slot) : Prop := forall wid d, v <> Final wid d.

(* a step that leaves every slot alone or replaces a non-final slot by a non-final one *)
Lemma inv_extend : forall s s' tr e,
  inv s tr -> quiet e ->
  NoDup (keys (st_slots s')) -> st_next s <= st_next s' ->
  (forall k, get s' k = get s k \/
             (not_final (get s k) /\ not_final (get s' k) /\
              slot_ok (accepted tr k) (allocated_for (tr ++ [e]) k) (st_next s') (get s' k))) ->
  inv s' (tr ++ [e]).
Proof.
  intros s s' tr e Hi Hq Hnd Hn Hk. destruct Hi as [I1 I2 I3 I4 I5]. constructor.
  - assumption.
  - intros k. destruct (Hk k) as [E|(N1 & N2 & Hs)].
    + rewrite E. eapply slot_ok_ext; [| |exact Hn|apply I2].
      * intros. symmetry. apply accepted_snoc_quiet. assumption.
      * intros. apply allocated_for_snoc. assumption.
    + eapply slot_ok_ext; [| |apply N.le_refl|exact Hs].
      * intros. symmetry. apply accepted_snoc_quiet. assumption.
      * auto.
  - intros k wid off d Ha. apply accepted_snoc_quiet in Ha; auto. apply I3 in Ha. lia.
  - intros k wid d Hg. apply closed_snoc_quiet; auto. destruct (Hk k) as [E|(N1 & N2 & _)].
    + rewrite E in Hg. eapply I4; eauto.
    + exfalso. eapply N2; eauto.
  - intros k wid Hc. apply closed_snoc_quiet in Hc; auto. destruct (I5 k wid Hc) as (d & Hg).
    destruct (Hk k) as [E|(N1 & _)].
    + exists d. rewrite E. assumption.
    + exfalso. eapply N1; eauto.
Qed.

(* replace one non-final slot *)
Lemma inv_update : forall s tr e k v,
  inv s tr -> quiet e -> not_final (get s k) -> not_final v ->
  slot_ok (accepted tr k) (allocated_for (tr ++ [e]) k) (st_next s) v ->
  inv (with_slots s (set_slot k v (st_slots s))) (tr ++ [e]).
Proof.
  intros s tr e k v Hi Hq N1 N2 Hs. apply inv_extend with (s := s); auto.
  - cbn [with_slots st_slots]. apply NoDup_keys_set_slot. apply Hi.
  - cbn [with_slots st_next]. lia.
  - intros k0. rewrite get_with_slots. destruct (key_eq_dec k0 k) as [->|Hne].
    + right. rewrite lookup_set_same. auto.
    + left. rewrite lookup_set_other by assumption. reflexivity.
Qed.

Lemma inv_same : forall s tr e, inv s tr -> quiet e -> inv s (tr ++ [e]).
Proof. intros s tr e Hi Hq. apply inv_extend with (s := s); auto. apply Hi. lia. Qed.

(* ------------------------------------------------------------------ allocate *)
Lemma alloc_loop_spec : forall ro si size canary now shs slots next rem acc slots' next' acc',
  alloc_loop ro si size canary now shs slots next rem acc = (slots', next', acc') ->
  NoDup (keys slots) ->
  NoDup (keys slots') /\ next <= next' /\ (forall x, In x acc -> In x acc') /\
  forall k, lookup k slots' = lookup k slots \/
            (lookup k slots = Absent /\ ro = false /\
             exists sh id, k = (si, sh) /\ In sh acc' /\ next <= id < next' /\
                           lookup k slots' = Incoming (new_writer id size now canary)).
Proof.
  intros ro si size canary now. induction shs as [|sh rest IH]; intros slots next rem acc slots' next' acc' H Hnd.
  - cbn [alloc_loop] in H. inversion H; subst. repeat split; auto. lia.
  - cbn [alloc_loop] in H.
    destruct (lookup (si, sh) slots) as [|w|wid d] eqn:L; try (eapply IH; eassumption).
    destruct ro; [eapply IH; eassumption|].
    destruct (fits rem size); [|eapply IH; eassumption].
    apply IH in H; [|apply NoDup_keys_set_slot; assumption].
    destruct H as (H1 & H2 & H3 & H4). split; [assumption|]. split; [lia|]. split.
    + intros x Hx. apply H3. apply in_app_iff. left. assumption.
    + intros k. destruct (key_eq_dec k (si, sh)) as [->|Hne].
      * right. split; [assumption|]. split; [reflexivity|]. exists sh, next.
        destruct (H4 (si, sh)) as [E|(E & _)]; rewrite lookup_set_same in E; [|discriminate].
        repeat split; auto; try lia. apply H3. apply in_app_iff. right. left. reflexivity.
      * destruct (H4 k) as [E|(E & E0 & sh' & id & E1 & E2 & E3 & E4)]; rewrite lookup_set_other in E by assumption.
        -- left. assumption.
        -- right. split; [assumption|]. split; [reflexivity|]. exists sh', id. repeat split; auto; lia.
Qed.

Lemma quiet_alloc : forall si shs size c av al acc, quiet (OAlloc si shs size c av, RAlloc al acc).
Proof. split; intros; discriminate. Qed.

Lemma inv_allocate : forall ro s tr si shs size c av,
  inv s tr ->
  inv (fst (allocate ro s si shs size c av)) (tr ++ [(OAlloc si shs size c av, snd (allocate ro s si shs size c av))]).
Proof.
  intros ro s tr si shs size c av Hi. unfold allocate.
  destruct (alloc_loop ro si size c (st_now s) shs (st_slots s) (st_next s)
              (option_map (fun a : N => (Z.of_N a - Z.of_N (allocated_size s))%Z) av) []) as [[slots' next'] acc'] eqn:E.
  cbn [fst snd].
  destruct (alloc_loop_spec _ _ _ _ _ _ _ _ _ _ _ _ _ E (inv_keys _ _ Hi)) as (H1 & H2 & _ & H4).
  apply inv_extend with (s := s); auto.
  - apply quiet_alloc.
  - intros k. unfold get at 1. cbn [st_slots st_next].
    destruct (H4 k) as [Ek|(Ek & _ & sh & id & -> & Hin & Hid & El)].
    + left. assumption.
    + right. unfold get at 1. rewrite Ek. split; [intros ? ?; discriminate|].
      unfold get. cbn [st_slots]. rewrite El. split; [intros ? ?; discriminate|].
      cbn [slot_ok new_writer w_id w_size w_data w_ranges]. repeat split.
      * lia.
      * apply blen_zeros.
      * exists shs, c, av, (get_buckets s si), acc'. split; [apply in_snoc; right; reflexivity|assumption].
      * exfalso. apply (inv_fresh _ _ Hi) in H. lia.
      * intros p Hp. exfalso. apply (inv_fresh _ _ Hi) in H. lia.
      * intros Hc. discriminate.
      * intros (off & d & Ha & _). exfalso. apply (inv_fresh _ _ Hi) in Ha. lia.
      * intros p _ _. apply nthb_zeros.
Qed.

(* ------------------------------------------------------------------ write *)
Lemma accepted_snoc_write : forall tr k wid off d f k0 w0 o0 d0,
  accepted (tr ++ [(OWrite k wid off d, RWrote f)]) k0 w0 o0 d0 <->
  accepted tr k0 w0 o0 d0 \/ (k0 = k /\ w0 = wid /\ o0 = off /\ d0 = d).
Proof.
  intros. unfold accepted. split.
  - intros (f0 & H). apply in_snoc in H. destruct H as [H|H].
    + left. exists f0. assumption.
    + right. inversion H. auto.
  - intros [(f0 & H)|(-> & -> & -> & ->)].
    + exists f0. apply in_snoc. left. assumption.
    + exists f. apply in_snoc. right. reflexivity.
Qed.

Lemma inv_write_accepted : forall s tr k w off d dl,
  inv s tr -> get s k = Incoming w -> blen d <> 0 ->
  chunks_agree (w_data w) off d (rm_query off (off + blen d) (w_ranges w)) = true ->
  off + blen d <= w_size w ->
  let rs := rm_set off (off + blen d) (w_ranges w) in
  let w' := mkWriter (w_id w) (w_size w) rs (write_at off d (w_data w)) dl (w_canary w) in
  forall f, inv (with_slots s (set_slot k (Incoming w') (st_slots s))) (tr ++ [(OWrite k (w_id w) off d, RWrote f)]).
Proof.
  intros s tr k w off d dl Hi Hg Hne Hagree Hfit rs w' f.
  pose proof (inv_slots _ _ Hi k) as Hs. rewrite Hg in Hs. cbn [slot_ok] in Hs.
  destruct Hs as (S1 & S2 & S3 & S4 & S5 & S6).
  assert (Hfit' : off + blen d <= blen (w_data w)) by lia.
  constructor.
  - cbn [with_slots st_slots]. apply NoDup_keys_set_slot. apply Hi.
  - intros k0. rewrite get_with_slots. cbn [with_slots st_next]. destruct (key_eq_dec k0 k) as [->|Hk].
    + rewrite lookup_set_same. subst w'. cbn [slot_ok w_id w_size w_data w_ranges]. repeat split.
      * assumption.
      * rewrite blen_write_at by assumption. assumption.
      * apply allocated_for_snoc. assumption.
      * apply accepted_snoc_write in H. rewrite blen_write_at by assumption.
        destruct H as [H|(_ & _ & -> & ->)]; [apply S4 in H; tauto|assumption].
      * intros p Hp. apply accepted_snoc_write in H. destruct H as [H|(_ & _ & -> & ->)].
        -- destruct (S4 _ _ H) as [Hb Hv].
           destruct (N.lt_ge_cases p off) as [C1|C1]; [rewrite nth_write_at_out by lia; auto|].
           destruct (N.lt_ge_cases p (off + blen d)) as [C2|C2]; [|rewrite nth_write_at_out by lia; auto].
           rewrite nth_write_at_in by lia. rewrite <- (Hv p Hp).
           symmetry. apply agree_pointwise with (l := w_ranges w); auto; try lia.
           apply S5. exists off0, d0. auto.
        -- apply nth_write_at_in; assumption.
      * intros Hc. subst rs. rewrite covered_rm_set in Hc by lia. apply orb_true_iff in Hc. destruct Hc as [Hc|Hc].
        -- exists off, d. split; [apply accepted_snoc_write; right; auto|]. unfold in_iv in Hc. lia.
        -- apply S5 in Hc. destruct Hc as (o0 & d0 & Ha & Hp). exists o0, d0. split; auto.
           apply accepted_snoc_write. left. assumption.
      * intros (o0 & d0 & Ha & Hp). subst rs. rewrite covered_rm_set by lia. apply orb_true_iff.
        apply accepted_snoc_write in Ha. destruct Ha as [Ha|(_ & _ & -> & ->)].
        -- right. apply S5. exists o0, d0. auto.
        -- left. unfold in_iv. lia.
      * intros p Hp Hc. subst rs. rewrite covered_rm_set in Hc by lia. apply orb_false_iff in Hc. destruct Hc as [C1 C2].
        unfold in_iv in C1. rewrite nth_write_at_out by lia. apply S6; assumption.
    + rewrite lookup_set_other by assumption. eapply slot_ok_ext; [| |apply N.le_refl|apply (inv_slots _ _ Hi)].
      * intros wid0 o0 d0. rewrite accepted_snoc_write. split; [auto|]. intros [H|(E & _)]; [assumption|contradiction].
      * intros. apply allocated_for_snoc. assumption.
  - intros k0 wid0 o0 d0 Ha. cbn [with_slots st_next]. apply accepted_snoc_write in Ha.
    destruct Ha as [Ha|(_ & -> & _ & _)]; [eapply inv_fresh; eauto|assumption].
  - intros k0 wid0 d0 Hg0. rewrite get_with_slots in Hg0. destruct (key_eq_dec k0 k) as [->|Hk].
    + rewrite lookup_set_same in Hg0. discriminate.
    + rewrite lookup_set_other in Hg0 by assumption. apply in_snoc. left. eapply inv_final; eauto.
  - intros k0 wid0 Hc. apply in_snoc in Hc. destruct Hc as [Hc|Hc]; [|discriminate].
    destruct (inv_closed _ _ Hi _ _ Hc) as (d0 & Hg0). exists d0. rewrite get_with_slots.
    destruct (key_eq_dec k0 k) as [->|Hk]; [congruence|]. rewrite lookup_set_other by assumption. assumption.
Qed.

Lemma slot_ok_touch : forall (acc : N -> N -> list N -> Prop) (asz : N -> Prop) next now w, slot_ok acc asz next (Incoming w) -> slot_ok acc asz next (Incoming (touch now w)).
Proof. intros. exact H. Qed.

Lemma inv_write : forall s tr k wid off d,
  inv s tr -> inv (fst (write s k wid off d)) (tr ++ [(OWrite k wid off d, snd (write s k wid off d))]).
Proof.
  intros s tr k wid off d Hi. unfold write.
  destruct (get s k) as [|w|wid0 d0] eqn:Hg; cbn [fst snd];
    try (apply inv_same; [assumption|split; intros; discriminate]).
  destruct (N.eqb_spec (w_id w) wid) as [Ew|Ew]; cbn [fst snd];
    [|apply inv_same; [assumption|split; intros; discriminate]].
  assert (Htouch : forall r, (forall f, r <> RWrote f) ->
            inv (with_slots s (set_slot k (Incoming (touch (st_now s) w)) (st_slots s))) (tr ++ [(OWrite k wid off d, r)])).
  { intros r Hr. apply inv_update; auto.
    - split; intros; try discriminate. intros E. inversion E. eapply Hr; eauto.
    - rewrite Hg. intros ? ?; discriminate.
    - intros ? ?; discriminate.
    - apply slot_ok_touch. pose proof (inv_slots _ _ Hi k) as Hs. rewrite Hg in Hs.
      eapply slot_ok_ext; [| |apply N.le_refl|exact Hs]; [reflexivity|]. intros. apply allocated_for_snoc. assumption. }
  unfold write_writer.
  destruct (N.eqb_spec (blen d) 0) as [E0|E0]; cbn [fst snd]; [apply Htouch; intros; discriminate|].
  destruct (chunks_agree (w_data w) off d (rm_query off (off + blen d) (w_ranges w))) eqn:Ec; cbn [negb fst snd];
    [|apply Htouch; intros; discriminate].
  destruct (N.ltb_spec (w_size w) (off + blen d)) as [El|El]; cbn [fst snd]; [apply Htouch; intros; discriminate|].
  subst wid. apply inv_write_accepted; auto.
Qed.

(* ------------------------------------------------------------------ close *)
Lemma inv_close : forall s tr k wid,
  inv s tr -> inv (fst (close s k wid)) (tr ++ [(OClose k wid, snd (close s k wid))]).
Proof.
  intros s tr k wid Hi. unfold close.
  destruct (get s k) as [|w|wid0 d0] eqn:Hg; cbn [fst snd];
    try (apply inv_same; [assumption|split; intros; discriminate]).
  destruct (N.eqb_spec (w_id w) wid) as [Ew|Ew]; cbn [fst snd];
    [|apply inv_same; [assumption|split; intros; discriminate]].
  pose proof (inv_slots _ _ Hi k) as Hs. rewrite Hg in Hs. cbn [slot_ok] in Hs.
  destruct Hs as (S1 & S2 & S3 & S4 & S5 & S6).
  assert (Hacc : forall k0 w0 o0 d0, accepted (tr ++ [(OClose k wid, ROk)]) k0 w0 o0 d0 <-> accepted tr k0 w0 o0 d0).
  { intros. unfold accepted. split; intros (f & H); exists f.
    - apply in_snoc in H. destruct H as [H|H]; [assumption|discriminate].
    - apply in_snoc. left. assumption. }
  constructor.
  - cbn [with_slots st_slots]. apply NoDup_keys_set_slot. apply Hi.
  - intros k0. rewrite get_with_slots. cbn [with_slots st_next]. destruct (key_eq_dec k0 k) as [->|Hk].
    + rewrite lookup_set_same. cbn [slot_ok]. subst wid. repeat split.
      * assumption.
      * rewrite S2. apply allocated_for_snoc. assumption.
      * apply Hacc in H. apply S4 in H. tauto.
      * apply Hacc in H. apply S4 in H. tauto.
      * intros p Hp Hn. rewrite S2 in Hp. apply S6; auto.
        destruct (covered (w_ranges w) p) eqn:Hc; auto.
        apply S5 in Hc. destruct Hc as (o0 & d0 & Ha & Hr). exfalso. apply (Hn o0 d0); auto. apply Hacc. assumption.
    + rewrite lookup_set_other by assumption. eapply slot_ok_ext; [| |apply N.le_refl|apply (inv_slots _ _ Hi)].
      * intros. symmetry. apply Hacc.
      * intros. apply allocated_for_snoc. assumption.
  - intros k0 wid0 o0 d0 Ha. cbn [with_slots st_next]. apply Hacc in Ha. eapply inv_fresh; eauto.
  - intros k0 wid0 d0 Hg0. rewrite get_with_slots in Hg0. apply in_snoc. destruct (key_eq_dec k0 k) as [->|Hk].
    + rewrite lookup_set_same in Hg0. inversion Hg0. right. reflexivity.
    + rewrite lookup_set_other in Hg0 by assumption. left. eapply inv_final; eauto.
  - intros k0 wid0 Hc. apply in_snoc in Hc. rewrite get_with_slots. destruct Hc as [Hc|Hc].
    + destruct (inv_closed _ _ Hi _ _ Hc) as (d0 & Hg0). exists d0.
      destruct (key_eq_dec k0 k) as [->|Hk]; [congruence|]. rewrite lookup_set_other by assumption. assumption.
    + inversion Hc; subst. exists (w_data w). apply lookup_set_same.
Qed.

(* ------------------------------------------------------------------ abort, timeout, disconnect *)
Lemma inv_abort : forall s tr k wid,
  inv s tr -> inv (fst (abort s k wid)) (tr ++ [(OAbort k wid, snd (abort s k wid))]).
Proof.
  intros s tr k wid Hi. unfold abort.
  destruct (get s k) as [|w|wid0 d0] eqn:Hg; cbn [fst snd];
    try (apply inv_same; [assumption|split; intros; discriminate]).
  destruct (N.eqb_spec (w_id w) wid) as [Ew|Ew]; cbn [fst snd];
    [|apply inv_same; [assumption|split; intros; discriminate]].
  apply inv_update; auto.
  - split; intros; discriminate.
  - rewrite Hg. intros ? ?; discriminate.
  - intros ? ?; discriminate.
  - exact I.
Qed.

Lemma inv_abort_where : forall s tr e p next' now',
  inv s tr -> quiet e -> st_next s <= next' ->
  inv (mkStore (abort_where p (st_slots s)) next' now') (tr ++ [e]).
Proof.
  intros s tr e p next' now' Hi Hq Hn. apply inv_extend with (s := s); [assumption|assumption| | |].
  - cbn [st_slots]. rewrite keys_abort_where. apply Hi.
  - cbn [st_next]. assumption.
  - intros k.
    assert (E : get (mkStore (abort_where p (st_slots s)) next' now') k =
                match get s k with Incoming w => if p w then Absent else Incoming w | v => v end).
    { unfold get. cbn [st_slots]. apply lookup_abort_where. }
    rewrite E. clear E.
    destruct (get s k) as [|w|wid0 d0] eqn:Hg; [left; reflexivity| |left; reflexivity].
    destruct (p w); [|left; reflexivity]. right.
    split; [intros ? ?; discriminate|]. split; [intros ? ?; discriminate|]. exact I.
Qed.

(* ------------------------------------------------------------------ every step *)
Lemma step_inv : forall ro s tr o, inv s tr -> inv (fst (step ro s o)) (tr ++ [(o, snd (step ro s o))]).
Proof.
  intros ro s tr o Hi. destruct o; cbn [step].
  - apply inv_allocate. assumption.
  - apply inv_write. assumption.
  - apply inv_close. assumption.
  - apply inv_abort. assumption.
  - cbn [fst snd]. unfold advance. apply inv_abort_where; auto. split; intros; discriminate. lia.
  - cbn [fst snd]. unfold disconnect, with_slots. apply inv_abort_where; auto. split; intros; discriminate. lia.
  - cbn [fst snd]. apply inv_same; auto. split; intros; discriminate.
  - cbn [fst snd]. apply inv_same; auto. split; intros; discriminate.
  - cbn [fst snd]. apply inv_same; auto. split; intros; discriminate.
Qed.

Lemma inv_init : inv init [].
Proof.
  constructor.
  - constructor.
  - intros k. exact I.
  - intros k wid off d (f & H). destruct H.
  - intros k wid d H. discriminate.
  - intros k wid H. destruct H.
Qed.

Theorem run_inv : forall ro ops, inv (fst (run ro ops)) (snd (run ro ops)).
Proof.
  intros ro ops. unfold run.
  exact (run_from_inv ro inv (step_inv ro) ops init [] inv_init).
Qed.

(* ================================================================== C22 theorems *)

(* a share is returned by get_buckets iff one of its uploads was closed *)
Theorem visible_iff_closed_ok : forall ro ops si sh,
  In sh (get_buckets (fst (run ro ops)) si) <-> exists wid, In (OClose (si, sh) wid, ROk) (snd (run ro ops)).
Proof.
  intros ro ops si sh. pose proof (run_inv ro ops) as Hi.
  unfold get_buckets. rewrite sortN_in. rewrite final_shnums_in by apply Hi. split.
  - intros (wid & d & H). exists wid. eapply inv_final; eauto.
  - intros (wid & H). destruct (inv_closed _ _ Hi _ _ H) as (d & Hg). exists wid, d. exact Hg.
Qed.

(* reading is refused exactly for shares that are not visible *)
Theorem read_none_iff_invisible_ok : forall ro ops si sh off len,
  read (fst (run ro ops)) (si, sh) off len = None <-> ~ In sh (get_buckets (fst (run ro ops)) si).
Proof.
  intros ro ops si sh off len. pose proof (run_inv ro ops) as Hi.
  unfold get_buckets. rewrite sortN_in. rewrite final_shnums_in by apply Hi. unfold read.
  fold (get (fst (run ro ops)) (si, sh)).
  destruct (get (fst (run ro ops)) (si, sh)) as [|w|wid d]; split; intros H; try reflexivity; try discriminate.
  - intros (w0 & d0 & E). discriminate.
  - intros (w0 & d0 & E). discriminate.
  - exfalso. apply H. eauto.
Qed.

Theorem read_is_written_clipped_ok : forall ro ops k wid data,
  get (fst (run ro ops)) k = Final wid data ->
  let tr := snd (run ro ops) in
  closed_ok tr k wid
  /\ allocated_for tr k (blen data)
  /\ (forall off len, read (fst (run ro ops)) k off len = Some (slice off len data))
  /\ (forall off d, accepted tr k wid off d ->
        off + blen d <= blen data /\ forall p, off <= p < off + blen d -> nthb data p = nthb d (p - off))
  /\ (forall p, p < blen data -> (forall off d, accepted tr k wid off d -> ~ (off <= p < off + blen d)) -> nthb data p = 0).
Proof.
  intros ro ops k wid data Hg tr. pose proof (run_inv ro ops) as Hi.
  pose proof (inv_slots _ _ Hi k) as Hs. rewrite Hg in Hs. cbn [slot_ok] in Hs. destruct Hs as (S1 & S2 & S3 & S4).
  split; [eapply inv_final; eauto|]. split; [exact S2|]. split; [|split; [exact S3|exact S4]].
  intros off len. unfold read. fold (get (fst (run ro ops)) k). rewrite Hg. rewrite read_share_data_slice. reflexivity.
Qed.

(* a write that differs from an accepted write of the same upload at a common position is refused
   and changes neither the stored bytes nor the written-range map nor any other share *)
Theorem conflict_rejected_unchanged_ok : forall ro ops k w off0 d0 off d p,
  let s := fst (run ro ops) in
  let tr := snd (run ro ops) in
  get s k = Incoming w ->
  accepted tr k (w_id w) off0 d0 ->
  off0 <= p < off0 + blen d0 -> off <= p < off + blen d ->
  nthb d0 (p - off0) <> nthb d (p - off) ->
  snd (step ro s (OWrite k (w_id w) off d)) = RConflict
  /\ (exists w', get (fst (step ro s (OWrite k (w_id w) off d))) k = Incoming w'
                 /\ w_data w' = w_data w /\ w_ranges w' = w_ranges w /\ w_size w' = w_size w /\ w_id w' = w_id w)
  /\ (forall k', k' <> k -> get (fst (step ro s (OWrite k (w_id w) off d))) k' = get s k')
  /\ allocated_size (fst (step ro s (OWrite k (w_id w) off d))) = allocated_size s.
Proof.
  intros ro ops k w off0 d0 off d p s tr Hg Ha Hp0 Hp Hne. pose proof (run_inv ro ops) as Hi. fold s tr in Hi.
  pose proof (inv_slots _ _ Hi k) as Hs. rewrite Hg in Hs. cbn [slot_ok] in Hs.
  destruct Hs as (S1 & S2 & S3 & S4 & S5 & S6).
  assert (Hc : chunks_agree (w_data w) off d (rm_query off (off + blen d) (w_ranges w)) = false).
  { destruct (chunks_agree (w_data w) off d (rm_query off (off + blen d) (w_ranges w))) eqn:E; auto. exfalso.
    assert (Hcov : covered (w_ranges w) p = true) by (apply S5; exists off0, d0; auto).
    pose proof (agree_pointwise _ _ _ _ _ E Hp Hcov) as A1.
    destruct (S4 _ _ Ha) as [_ A2]. rewrite (A2 p Hp0) in A1. contradiction. }
  cbn [step]. unfold write. rewrite Hg. rewrite N.eqb_refl. unfold write_writer.
  destruct (N.eqb_spec (blen d) 0) as [E0|E0]; [lia|]. rewrite Hc. cbn [negb fst snd].
  split; [reflexivity|]. split; [|split].
  - exists (touch (st_now s) w). rewrite get_with_slots, lookup_set_same. auto.
  - intros k' Hk. rewrite get_with_slots. apply lookup_set_other. assumption.
  - unfold allocated_size. cbn [with_slots st_slots].
    pose proof (sum_set_slot slot_alloc (st_slots s) k (Incoming (touch (st_now s) w)) eq_refl) as E.
    fold (get s k) in E. rewrite Hg in E. cbn [slot_alloc touch w_size] in E. lia.
Qed.

(* abort: the share is absent, not listed, its reservation is released, it can be allocated again *)
Theorem abort_leaves_nothing_ok : forall ro ops si sh w,
  let s := fst (run ro ops) in
  get s (si, sh) = Incoming w ->
  let s' := fst (step ro s (OAbort (si, sh) (w_id w))) in
  get s' (si, sh) = Absent
  /\ ~ In sh (get_buckets s' si)
  /\ read s' (si, sh) 0 (w_size w) = None
  /\ allocated_size s' + w_size w = allocated_size s
  /\ (forall k', k' <> (si, sh) -> get s' k' = get s k')
  /\ (forall size c, snd (step false s' (OAlloc si [sh] size c None)) = RAlloc (get_buckets s' si) [sh]).
Proof.
  intros ro ops si sh w s Hg s'. pose proof (run_inv ro ops) as Hi. fold s in Hi.
  assert (Es : s' = with_slots s (set_slot (si, sh) Absent (st_slots s))).
  { subst s'. cbn [step]. unfold abort. rewrite Hg, N.eqb_refl. reflexivity. }
  assert (G' : get s' (si, sh) = Absent) by (rewrite Es, get_with_slots; apply lookup_set_same).
  split; [exact G'|]. split; [|split; [|split; [|split]]].
  - unfold get_buckets. rewrite sortN_in. rewrite final_shnums_in.
    + intros (wid & d & E). unfold get in G'. congruence.
    + rewrite Es. cbn [with_slots st_slots]. apply NoDup_keys_set_slot. apply Hi.
  - unfold read. fold (get s' (si, sh)). rewrite G'. reflexivity.
  - rewrite Es. unfold allocated_size. cbn [with_slots st_slots].
    pose proof (sum_set_slot slot_alloc (st_slots s) (si, sh) Absent eq_refl) as E.
    fold (get s (si, sh)) in E. rewrite Hg in E. cbn [slot_alloc] in E. lia.
  - intros k' Hk. rewrite Es, get_with_slots. apply lookup_set_other. assumption.
  - intros size c. cbn [step]. unfold allocate. cbn [alloc_loop option_map]. fold (get s' (si, sh)). rewrite G'.
    cbn [fits alloc_loop app snd]. reflexivity.
Qed.

(* timeout and disconnect: every upload whose deadline has passed / whose connection is lost is
   aborted; the others are untouched *)
Theorem timeout_disconnect_leave_nothing_ok : forall ro ops si sh w,
  let s := fst (run ro ops) in
  get s (si, sh) = Incoming w ->
  (forall dt, w_deadline w <= st_now s + dt ->
     let s' := fst (step ro s (OAdvance dt)) in
     get s' (si, sh) = Absent /\ ~ In sh (get_buckets s' si) /\ allocated_size s' + w_size w <= allocated_size s)
  /\ (forall dt, st_now s + dt < w_deadline w -> get (fst (step ro s (OAdvance dt))) (si, sh) = Incoming w)
  /\ (let s' := fst (step ro s (ODisconnect (w_canary w))) in
      get s' (si, sh) = Absent /\ ~ In sh (get_buckets s' si) /\ allocated_size s' + w_size w <= allocated_size s)
  /\ (forall c, c <> w_canary w -> get (fst (step ro s (ODisconnect c))) (si, sh) = Incoming w).
Proof.
  intros ro ops si sh w s Hg. pose proof (run_inv ro ops) as Hi. fold s in Hi.
  assert (Hgen : forall p next now, p w = true ->
            let s' := mkStore (abort_where p (st_slots s)) next now in
            get s' (si, sh) = Absent /\ ~ In sh (get_buckets s' si) /\ allocated_size s' + w_size w <= allocated_size s).
  { intros p next now Hp s'.
    assert (G' : get s' (si, sh) = Absent).
    { unfold get, s'. cbn [st_slots]. rewrite lookup_abort_where. fold (get s (si, sh)). rewrite Hg, Hp. reflexivity. }
    split; [exact G'|]. split.
    - unfold get_buckets. rewrite sortN_in. rewrite final_shnums_in.
      + intros (wid & d & E). unfold get in G'. congruence.
      + unfold s'. cbn [st_slots]. rewrite keys_abort_where. apply Hi.
    - unfold allocated_size, s'. cbn [st_slots].
      apply (sum_abort_where_releases slot_alloc p (st_slots s) (si, sh) w eq_refl Hg Hp). }
  assert (Hkeep : forall p next now, p w = false -> get (mkStore (abort_where p (st_slots s)) next now) (si, sh) = Incoming w).
  { intros p next now Hp. unfold get. cbn [st_slots]. rewrite lookup_abort_where. fold (get s (si, sh)). rewrite Hg, Hp. reflexivity. }
  split; [|split; [|split]].
  - intros dt Hd. cbn [step fst]. unfold advance. apply Hgen. apply N.leb_le. assumption.
  - intros dt Hd. cbn [step fst]. unfold advance. apply Hkeep. apply N.leb_gt. assumption.
  - cbn [step fst]. unfold disconnect, with_slots. apply Hgen. apply N.eqb_refl.
  - intros c Hc. cbn [step fst]. unfold disconnect, with_slots. apply Hkeep. apply N.eqb_neq. auto.
Qed.
