(* C06, part 1: sets, dicts of sets, and what the selector's maps can contain.
   Soundness direction throughout: an edge of a map was put there by a server's answer. *)
From Coq Require Import List NArith ZArith Bool Lia.
From Verif Require Import Model.Matching Proofs.Matching Model.UploadSel.
Import ListNotations.
Local Open Scope N_scope.

(* ---------------------------------------------------------------- sets *)
Lemma In_set_add : forall x y l, In y (set_add x l) <-> y = x \/ In y l.
Proof.
  intros x y l. unfold set_add. destruct (memN x l) eqn:E.
  - split; [tauto|]. intros [->|H]; [apply memN_In; exact E|exact H].
  - rewrite in_app_iff. cbn [In]. split; [intros [H|[H|[]]]; auto|intros [->|H]; auto].
Qed.

Lemma In_set_remove : forall x y l, In y (set_remove x l) <-> In y l /\ y <> x.
Proof.
  intros x y l. unfold set_remove. rewrite filter_In. split.
  - intros [H E]. split; [exact H|]. intros ->. rewrite N.eqb_refl in E. discriminate.
  - intros [H E]. split; [exact H|]. destruct (N.eqb x y) eqn:F; [apply N.eqb_eq in F; congruence|reflexivity].
Qed.

Lemma In_set_diff : forall y a b, In y (set_diff a b) <-> In y a /\ ~ In y b.
Proof.
  intros y a b. unfold set_diff. rewrite filter_In. split.
  - intros [H E]. split; [exact H|]. intros Hb. apply memN_In in Hb. rewrite Hb in E. discriminate.
  - intros [H E]. split; [exact H|]. destruct (memN y b) eqn:F; [apply memN_In in F; tauto|reflexivity].
Qed.

Lemma is_nil_true : forall (A : Type) (l : list A), is_nil l = true -> l = [].
Proof. intros A [|a l]; cbn; [reflexivity|discriminate]. Qed.

(* ---------------------------------------------------------------- dicts of sets *)
Definition dm_in (m : dmap) (k v : N) : Prop := exists l, In (k, l) m /\ In v l.

Lemma dm_in_nil : forall k v, ~ dm_in [] k v.
Proof. intros k v [l [[] _]]. Qed.

Lemma dm_in_cons : forall k' l' m k v, dm_in ((k', l') :: m) k v <-> (k = k' /\ In v l') \/ dm_in m k v.
Proof.
  intros k' l' m k v. unfold dm_in. split.
  - intros [l [[E|H] Hv]]; [inversion E; subst; left; auto|right; exists l; auto].
  - intros [[-> Hv]|[l [H Hv]]]; [exists l'; split; [left; reflexivity|exact Hv]|exists l; split; [right; exact H|exact Hv]].
Qed.

Lemma dm_in_add : forall k v m k' v', dm_in (dm_add k v m) k' v' -> (k' = k /\ v' = v) \/ dm_in m k' v'.
Proof.
  intros k v m k' v'. induction m as [|[q l] r IH]; cbn [dm_add].
  - rewrite dm_in_cons. intros [[-> [->|[]]]|H]; [left; auto|right; exact H].
  - destruct (N.eqb k q) eqn:E.
    + apply N.eqb_eq in E. subst q. rewrite !dm_in_cons. intros [[-> H]|H].
      * apply In_set_add in H. destruct H as [->|H]; [left; auto|right; left; auto].
      * right; right; exact H.
    + rewrite !dm_in_cons. intros [H|H]; [right; left; exact H|].
      destruct (IH H) as [H'|H']; [left; exact H'|right; right; exact H'].
Qed.

Lemma dm_in_add_all : forall k vs m k' v', dm_in (dm_add_all k vs m) k' v' -> (k' = k /\ In v' vs) \/ dm_in m k' v'.
Proof.
  intros k vs. unfold dm_add_all. induction vs as [|v vs IH]; intros m k' v'; cbn [fold_left]; [auto|].
  intros H. destruct (IH _ _ _ H) as [[-> Hv]|H']; [left; split; [reflexivity|right; exact Hv]|].
  destruct (dm_in_add _ _ _ _ _ H') as [[-> ->]|H'']; [left; split; [reflexivity|left; reflexivity]|right; exact H''].
Qed.

Lemma dm_in_remove : forall k v m k' v', dm_in (dm_remove k v m) k' v' -> dm_in m k' v'.
Proof.
  intros k v m k' v'. induction m as [|[q l] r IH]; cbn [dm_remove]; [auto|].
  destruct (N.eqb k q) eqn:E.
  - destruct (is_nil (set_remove v l)) eqn:F.
    + intros H. apply dm_in_cons. right; exact H.
    + rewrite !dm_in_cons. intros [[-> H]|H]; [left; split; [reflexivity|apply In_set_remove in H; tauto]|right; exact H].
  - rewrite !dm_in_cons. intros [H|H]; [left; exact H|right; apply IH; exact H].
Qed.

Lemma dm_get_in : forall k m v, In v (dm_get k m) -> dm_in m k v.
Proof.
  intros k m v. induction m as [|[q l] r IH]; cbn [dm_get]; [intros []|].
  destruct (N.eqb k q) eqn:E.
  - apply N.eqb_eq in E. subst q. intros H. apply dm_in_cons. left; auto.
  - intros H. apply dm_in_cons. right; apply IH; exact H.
Qed.

(* fold of dm_add over a list with a fixed value *)
Lemma dm_in_fold_add_key : forall (p : N) (shs : list N) (m : dmap) k v,
  dm_in (fold_left (fun a s => dm_add s p a) shs m) k v -> (In k shs /\ v = p) \/ dm_in m k v.
Proof.
  intros p shs. induction shs as [|s shs IH]; intros m k v; cbn [fold_left]; [auto|].
  intros H. destruct (IH _ _ _ H) as [[Hk ->]|H']; [left; split; [right; exact Hk|reflexivity]|].
  destruct (dm_in_add _ _ _ _ _ H') as [[-> ->]|H'']; [left; split; [left; reflexivity|reflexivity]|right; exact H''].
Qed.

Lemma dm_in_transpose_gen : forall (m acc : dmap) s p,
  dm_in (fold_left (fun acc e => fold_left (fun a sh => dm_add sh (fst e) a) (snd e) acc) m acc) s p ->
  dm_in m p s \/ dm_in acc s p.
Proof.
  induction m as [|[q l] r IH]; intros acc s p; cbn [fold_left]; [auto|].
  intros H. destruct (IH _ _ _ H) as [H'|H']; [left; apply dm_in_cons; right; exact H'|].
  cbn [fst snd] in H'. destruct (dm_in_fold_add_key _ _ _ _ _ H') as [[Hs ->]|H'']; [left; apply dm_in_cons; left; auto|right; exact H''].
Qed.

Lemma dm_in_transpose : forall m s p, dm_in (transpose m) s p -> dm_in m p s.
Proof.
  intros m s p H. unfold transpose in H. destruct (dm_in_transpose_gen _ _ _ _ H) as [H'|H']; [exact H'|].
  exfalso; exact (dm_in_nil _ _ H').
Qed.

(* the sharemap edge of C08 is the same notion *)
Lemma sm_edge_dm_in : forall sm p s, sm_edge sm p s <-> dm_in sm s p.
Proof. intros sm p s. unfold sm_edge, dm_in. tauto. Qed.

(* ---------------------------------------------------------------- merged *)
Lemma dm_in_merged_gen : forall (bk : dmap) (use : list N) (acc : dmap) s p,
  dm_in (fold_left (fun acc q => fold_left (fun a sh => dm_add sh q a) (dm_get q bk) acc) use acc) s p ->
  (In p use /\ In s (dm_get p bk)) \/ dm_in acc s p.
Proof.
  intros bk use. induction use as [|q use IH]; intros acc s p; cbn [fold_left]; [auto|].
  intros H. destruct (IH _ _ _ H) as [[Hu Hs]|H']; [left; split; [right; exact Hu|exact Hs]|].
  destruct (dm_in_fold_add_key _ _ _ _ _ H') as [[Hs ->]|H'']; [left; split; [left; reflexivity|exact Hs]|right; exact H''].
Qed.

Lemma dm_in_merged : forall st s p,
  dm_in (merged st) s p -> dm_in (s_existing st) p s \/ (In p (s_use st) /\ In s (dm_get p (s_buckets st))).
Proof.
  intros st s p H. unfold merged in H. destruct (dm_in_merged_gen _ _ _ _ _ H) as [H'|H']; [right; exact H'|].
  left. apply dm_in_transpose. exact H'.
Qed.

Lemma In_sel_buckets : forall st p s, In (p, s) (sel_buckets st) <-> In p (s_use st) /\ In s (dm_get p (s_buckets st)).
Proof.
  intros st p s. unfold sel_buckets. rewrite in_flat_map. split.
  - intros [q [Hq H]]. apply in_map_iff in H. destruct H as [sh [E Hs]]. inversion E; subst. auto.
  - intros [Hu Hs]. exists p. split; [exact Hu|]. apply in_map_iff. exists s. auto.
Qed.
