(* Optional companion to C36: a Reed-Solomon style evaluation code is MDS.
   Over any field F, a message of k symbols is the coefficient list of a polynomial p of
   degree < k; the code word is its value at n pairwise distinct points.  ANY k of the n
   symbols determine the message: two messages that agree on k distinct points are equal.
   (zfec's code is of this family over GF(2^8), in systematic form.)  mathcomp only; never
   evaluated by the harness. *)
From mathcomp Require Import ssreflect ssrfun ssrbool eqtype ssrnat seq choice fintype bigop ssralg poly.
Set Implicit Arguments.
Unset Strict Implicit.
Unset Printing Implicit Defensive.
Import GRing.Theory.
Local Open Scope ring_scope.

Section RS.
Variable F : fieldType.

Lemma poly_agree_on_k_points (k : nat) (p q : {poly F}) (pts : seq F) :
  (size p <= k)%N -> (size q <= k)%N -> uniq pts -> size pts = k ->
  {in pts, forall x, p.[x] = q.[x]} -> p = q.
Proof.
move=> sp sq Hu Hs Hag.
apply/eqP; rewrite -subr_eq0; apply/negPn/negP => Hne.
have Hroots : all (root (p - q)) pts.
  apply/allP => x Hx; rewrite rootE !hornerE (Hag x Hx) subrr; exact: eqxx.
have := max_poly_roots Hne Hroots Hu.
have Hsz : (size (p - q)%R <= k)%N.
  apply: leq_trans (size_add _ _) _; rewrite size_opp geq_max sp sq; done.
by rewrite Hs ltnNge Hsz.
Qed.

(* the statement used in Props/C36.v *)
Definition encode (k : nat) (msg : seq F) (points : seq F) : seq F := [seq (Poly msg).[x] | x <- points].

Definition rs_mds_statement_for : Prop :=
  forall (k : nat) (m1 m2 : seq F) (points : seq F) (chosen : seq F),
    size m1 = k -> size m2 = k ->
    uniq chosen -> size chosen = k -> {subset chosen <= points} ->
    {in chosen, forall x, (Poly m1).[x] = (Poly m2).[x]} ->
    Poly m1 = Poly m2.

Lemma rs_mds_for : rs_mds_statement_for.
Proof.
move=> k m1 m2 points chosen s1 s2 Hu Hs _ Hag.
apply: (@poly_agree_on_k_points k _ _ chosen) => //.
- by apply: leq_trans (size_Poly _) _; rewrite s1.
- by apply: leq_trans (size_Poly _) _; rewrite s2.
Qed.
End RS.

Definition rs_mds_statement : Prop := forall F : fieldType, rs_mds_statement_for F.
Lemma rs_mds : rs_mds_statement.
Proof. move=> F; exact: rs_mds_for. Qed.
