(* C25: the statements about container files, as lemmas over `layout_ok` / `imm_layout_ok`. *)
From Coq Require Import List NArith Arith Bool Lia.
From Verif Require Import Lib.Hex Gen.MutConsts Model.MutContainer Model.Lease
  Proofs.MutContainerBytes Proofs.MutContainer Proofs.MutContainerRefine
  Proofs.LeaseMutable Proofs.LeaseImmutable Proofs.Lease.
Import ListNotations.
Local Open Scope N_scope.

Lemma map_upd_id (E : list (N * lease)) i l :
  (forall x, In (i, x) E -> x = l) -> map (fun il => if fst il =? i then (i, l) else il) E = E.
Proof.
  intro Hf. rewrite <- (map_id E) at 2. apply map_ext_in. intros [j x] Hin. cbn [fst].
  destruct (N.eqb_spec j i) as [->|]; [|reflexivity]. rewrite (Hf x Hin). reflexivity.
Qed.

Section WithHash.
Variable H : list N -> list N.

(* ================================ mutable ============================================ *)
Lemma mut_get_leases_flat maxsz c : wf maxsz c ->
  mut_get_leases (flat c) = Ok (map snd (enumL (slot c) (nseq (4 + c_nx c)))).
Proof. intro Hw. unfold mut_get_leases. rewrite (mut_enumerate_flat maxsz c Hw). reflexivity. Qed.

Lemma renew_not_duplicate_mut_proof maxsz f v avail li ls ls' :
  layout_ok maxsz f = true -> bytes_ok f -> l_owner li <> 0 -> l_expire li < 2 ^ 32 ->
  mut_get_leases f = Ok ls -> renew_first H v ls (l_renew li) (l_expire li) = Some ls' ->
  exists f', mut_add_or_renew H v f avail li = Done f' /\ mut_get_leases f' = Ok ls' /\
             length ls' = length ls /\ layout_ok maxsz f' = true /\ abs_data f' = abs_data f.
Proof.
  intros Hl Hb Ho Ht Hg Hr. apply layout_ok_iff in Hl. destruct Hl as (c & Hw & ->).
  assert (Els : ls = map snd (enumL (slot c) (nseq (4 + c_nx c)))) by (rewrite (mut_get_leases_flat maxsz c Hw) in Hg; congruence).
  subst ls. clear Hg.
  set (E := enumL (slot c) (nseq (4 + c_nx c))) in *.
  destruct (renew_first_some_match H v E _ _ _ Hr) as (i & l & Ef).
  pose proof (mut_renew_flat H maxsz v c (l_renew li) (l_expire li) Hw Hb Ht) as Hm. fold E in Hm. rewrite Ef in Hm.
  destruct Hm as (Hi & Hs & Hm).
  assert (Hnd : NoDup (map fst E)) by (unfold E; apply (NoDup_enumL_fst H); apply NoDup_nseq).
  rewrite (renew_first_map H v E _ (l_expire li) i l Hnd Ef) in Hr. inversion Hr; subst ls'. clear Hr.
  unfold mut_add_or_renew. destruct (N.eqb_spec (l_owner li) 0); [congruence|].
  unfold renewed. destruct (N.ltb_spec (l_expire l) (l_expire li)).
  - destruct (written_enum_update maxsz c i l _ _ Hw Hi Hs Hm) as (c' & Eo & Hw' & Hsd & Een).
    rewrite Eo. exists (flat c'). split; [reflexivity|]. unfold mut_get_leases. rewrite Een.
    split; [reflexivity|]. split; [rewrite !map_length; reflexivity|].
    split; [apply flat_layout_ok; exact Hw'|].
    rewrite (abs_data_flat _ _ Hw'), (abs_data_flat _ _ Hw), (same_data_c_data _ _ Hsd). reflexivity.
  - rewrite Hm. exists (flat c). split; [reflexivity|].
    rewrite (mut_get_leases_flat maxsz c Hw). fold E.
    rewrite map_upd_id by (intros x Hin; apply in_enumL in Hin; destruct Hin; congruence).
    split; [reflexivity|]. split; [reflexivity|]. split; [apply flat_layout_ok; exact Hw|reflexivity].
Qed.

Lemma never_shortens_mut_proof maxsz f v avail li E :
  layout_ok maxsz f = true -> lease_wf (stored_form H v li) -> l_owner li <> 0 ->
  mut_enumerate f = Ok E ->
  layout_ok maxsz (out_file (mut_add_or_renew H v f avail li)) = true /\
  abs_data (out_file (mut_add_or_renew H v f avail li)) = abs_data f /\
  exists E', mut_enumerate (out_file (mut_add_or_renew H v f avail li)) = Ok E' /\ never_shorter E E'.
Proof.
  intros Hl Hlw Ho He. apply layout_ok_iff in Hl. destruct Hl as (c & Hw & ->).
  assert (EE : E = enumL (slot c) (nseq (4 + c_nx c))) by (rewrite (mut_enumerate_flat maxsz c Hw) in He; congruence).
  subst E. clear He.
  destruct (cases_preserve H maxsz v c avail li Hw Hlw Ho) as (c' & Eo & Hw' & Hsd).
  split; [rewrite Eo; apply flat_layout_ok; exact Hw'|].
  split; [rewrite Eo, (abs_data_flat _ _ Hw'), (abs_data_flat _ _ Hw), (same_data_c_data _ _ Hsd); reflexivity|].
  apply (cases_never_shorten H maxsz); assumption.
Qed.

Lemma never_shortens_renew_mut_proof maxsz f v s t E :
  layout_ok maxsz f = true -> mut_enumerate f = Ok E ->
  layout_ok maxsz (out_file (mut_renew_lease H v f s t)) = true /\
  abs_data (out_file (mut_renew_lease H v f s t)) = abs_data f /\
  exists E', mut_enumerate (out_file (mut_renew_lease H v f s t)) = Ok E' /\ never_shorter E E'.
Proof.
  intros Hl He. apply layout_ok_iff in Hl. destruct Hl as (c & Hw & ->).
  assert (EE : E = enumL (slot c) (nseq (4 + c_nx c))) by (rewrite (mut_enumerate_flat maxsz c Hw) in He; congruence).
  subst E. clear He.
  destruct (renew_never_shorten H maxsz v c s t Hw) as (c' & E' & Eo & Hw' & Hsd & Een & Hns).
  rewrite Eo. split; [apply flat_layout_ok; exact Hw'|].
  split; [rewrite (abs_data_flat _ _ Hw'), (abs_data_flat _ _ Hw), (same_data_c_data _ _ Hsd); reflexivity|].
  exists E'. auto.
Qed.

Lemma unknown_secret_mut_proof v f s t ls :
  mut_get_leases f = Ok ls -> no_match H v ls s = true -> mut_renew_lease H v f s t = Raised f EIndex.
Proof.
  unfold mut_get_leases, mut_renew_lease. destruct (mut_enumerate f) as [E|e]; [|discriminate].
  intros Hg Hn. injection Hg as Hg; subst ls. rewrite renew_scan_find.
  apply (first_match_none H) in Hn. rewrite Hn. reflexivity.
Qed.

(* the same through add_or_renew: an unknown secret adds, it never renews *)
Lemma leases_survive_writes_proof maxsz f dv nl :
  468 + maxsz < 2 ^ 64 -> layout_ok maxsz f = true ->
  mut_enumerate (out_file (writev maxsz f dv nl)) = mut_enumerate f /\
  mut_get_leases (out_file (writev maxsz f dv nl)) = mut_get_leases f.
Proof.
  intros Hm Hl. apply layout_ok_iff in Hl. destruct Hl as (c & Hw & ->).
  destruct (writev_flat maxsz c dv nl Hw Hm) as (c' & Ef & Hw' & Hs & _ & _).
  assert (Een : mut_enumerate (flat c') = mut_enumerate (flat c)).
  { rewrite (mut_enumerate_flat maxsz c' Hw'), (mut_enumerate_flat maxsz c Hw).
    destruct Hs as (_ & Hsl & Hnx & Hex). unfold slot, rec_of, c_nx. rewrite Hsl, Hnx, Hex. reflexivity. }
  rewrite Ef. split; [exact Een|]. unfold mut_get_leases. rewrite Een. reflexivity.
Qed.

(* ---- v2: only the hashes of the secrets reach the file ---------------------------------------- *)
Lemma renew_scan_hash f ls s s' t : H s = H s' -> renew_scan H V2 f ls s t = renew_scan H V2 f ls s' t.
Proof.
  intro Hh. induction ls as [|[i l] r IH]; [reflexivity|]. cbn [renew_scan]. unfold is_renew_secret. rewrite Hh, IH. reflexivity.
Qed.

Lemma v2_renew_only_hash f s s' t : H s = H s' -> mut_renew_lease H V2 f s t = mut_renew_lease H V2 f s' t.
Proof. intro Hh. unfold mut_renew_lease. destruct (mut_enumerate f); [apply renew_scan_hash; exact Hh|reflexivity]. Qed.

Lemma v2_mut_only_hash f avail li li' : hash_lease H li = hash_lease H li' ->
  mut_add_or_renew H V2 f avail li = mut_add_or_renew H V2 f avail li'.
Proof.
  intro Hh. assert (Ho : l_owner li = l_owner li') by (injection Hh; auto).
  assert (Hr : H (l_renew li) = H (l_renew li')) by (injection Hh; auto).
  assert (He : l_expire li = l_expire li') by (injection Hh; auto).
  unfold mut_add_or_renew, mut_add_lease. cbn [stored_form]. rewrite Ho, He, Hh, (v2_renew_only_hash f _ _ _ Hr). reflexivity.
Qed.

Lemma imm_renew_scan_hash f lo i ls s s' t : H s = H s' ->
  imm_renew_scan H V2 f lo i ls s t = imm_renew_scan H V2 f lo i ls s' t.
Proof.
  intro Hh. revert i. induction ls as [|l r IH]; intro i; [reflexivity|]. cbn [imm_renew_scan]. unfold is_renew_secret. rewrite Hh, IH. reflexivity.
Qed.

Lemma v2_imm_only_hash f lo avail li li' : hash_lease H li = hash_lease H li' ->
  imm_add_or_renew H V2 f lo avail li = imm_add_or_renew H V2 f lo avail li'.
Proof.
  intro Hh. assert (Hr : H (l_renew li) = H (l_renew li')) by (injection Hh; auto).
  assert (He : l_expire li = l_expire li') by (injection Hh; auto).
  unfold imm_add_or_renew, imm_add_lease, imm_renew_lease. cbn [stored_form]. rewrite He, Hh.
  destruct (imm_get_leases f lo); [rewrite (imm_renew_scan_hash f lo 0 _ _ _ _ Hr)|]; reflexivity.
Qed.

Lemma v2_record_only_hash li li' : hash_lease H li = hash_lease H li' ->
  ser_mutable (stored_form H V2 li) = ser_mutable (stored_form H V2 li') /\
  ser_immutable (stored_form H V2 li) = ser_immutable (stored_form H V2 li').
Proof. intro Hh. cbn [stored_form]. rewrite Hh. auto. Qed.

(* ================================ immutable ============================================ *)
Definition iparse (f : file) : IC :=
  let n := N.to_nat (unbe (firstn 4 (skipn 8 f))) in
  mkIC (firstn 8 f) (firstn 4 (skipn 8 f)) (firstn (length f - 12 - n * 72) (skipn 12 f)) (skipn (length f - n * 72) f).

Lemma imm_layout_ok_parse f : imm_layout_ok f = true -> exists v, iwf v (iparse f) /\ f = iflat (iparse f).
Proof.
  unfold imm_layout_ok. destruct (imm_open f) as [[v lo]|] eqn:Eo; [|discriminate].
  destruct (imm_read_num_leases f) as [n|] eqn:En; [|discriminate]. intro Hc. apply N.leb_le in Hc.
  unfold imm_read_num_leases in En. apply unpack_be_inv in En. destruct En as [Ln Vn].
  unfold pread in Ln, Vn. change (N.to_nat 8) with 8%nat in *. change (N.to_nat 4) with 4%nat in *.
  unfold IMM_LEASE_SIZE, len in Hc.
  unfold imm_open in Eo. destruct (Nat.eqb_spec (length (pread f 0 12)) 12) as [L12|]; [|discriminate].
  destruct (imm_version_of (unbe (pread (pread f 0 12) 0 4))) as [v'|] eqn:Ev; [|discriminate].
  inversion Eo; subst v'. clear Eo.
  unfold pread in L12, Ev. change (N.to_nat 0) with 0%nat in *. change (N.to_nat 12) with 12%nat in *.
  change (N.to_nat 4) with 4%nat in *. cbn [skipn] in L12, Ev. rewrite firstn_length in L12.
  rewrite firstn_firstn in Ev. change (Nat.min 4 12) with 4%nat in Ev.
  exists v. unfold iparse. rewrite <- Vn. split.
  - constructor; cbn [i_head i_cnt i_data i_leases]; unfold i_n, len; cbn [i_cnt i_leases];
      rewrite ?firstn_length, ?skipn_length; try lia.
    rewrite firstn_firstn. change (Nat.min 4 8) with 4%nat. exact Ev.
  - unfold iflat. cbn [i_head i_cnt i_data i_leases]. symmetry.
    set (k := (length f - N.to_nat n * 72)%nat).
    assert (Hk : (12 <= k)%nat) by (subst k; lia).
    replace (length f - 12 - N.to_nat n * 72)%nat with (k - 12)%nat by (subst k; lia).
    rewrite (split_at f 12 k) by lia.
    assert (E2 : firstn 4 (skipn 8 f) ++ skipn 12 f = skipn 8 f) by (apply (split_at f 8 12); lia).
    rewrite E2. apply firstn_skipn.
Qed.

Lemma iflat_layout_ok v c : iwf v c -> imm_layout_ok (iflat c) = true.
Proof.
  intro Hw. unfold imm_layout_ok. rewrite (imm_open_flat v c Hw), (imm_read_num_flat v c Hw).
  apply N.leb_le. unfold len, IMM_LEASE_SIZE. rewrite (iflat_length v c Hw). lia.
Qed.

Lemma immfile_get_leases_flat v c : iwf v c -> immfile_get_leases (iflat c) = Ok (ileases c).
Proof. intro Hw. unfold immfile_get_leases. rewrite (imm_open_flat v c Hw). apply (imm_get_leases_flat v). exact Hw. Qed.

Lemma imm_data_flat v c : iwf v c -> imm_data (iflat c) = i_data c.
Proof.
  intro Hw. unfold imm_data. rewrite (imm_read_num_flat v c Hw). unfold len, IMM_LEASE_SIZE.
  rewrite (iflat_length v c Hw). rewrite pread_prn. unfold iflat. rewrite (app_assoc (i_head c)).
  replace (N.to_nat 12) with (length (i_head c ++ i_cnt c) + 0)%nat by (rewrite app_length; destruct Hw; lia).
  rewrite prn_app_skip. rewrite prn_inside by lia. unfold prn. cbn [skipn]. apply firstn_all2. lia.
Qed.

Lemma nseq_as_seq n : nseq n = map (fun k => 0 + N.of_nat k) (seq 0 (N.to_nat n)).
Proof. unfold nseq. apply map_ext. intro k. lia. Qed.

Lemma ileases_set v c i b : iwf v c -> i < i_n c -> length b = 72%nat ->
  ileases (set_ileases c (pwn (i_leases c) (N.to_nat (i * 72)) b)) =
  map (fun j => if j =? i then parse_imm b else islot c j) (nseq (i_n c)).
Proof.
  intros Hw Hi Hb. unfold ileases. change (i_n (set_ileases c _)) with (i_n c).
  apply map_ext_in. intros j Hj. apply in_nseq in Hj. unfold islot. rewrite (irec_set v) by assumption.
  destruct (j =? i); reflexivity.
Qed.

Lemma ser_immutable_cases l :
  ser_immutable l = Err EStruct \/ exists b, ser_immutable l = Ok b /\ length b = 72%nat /\ parse_imm b = norm_imm l.
Proof.
  destruct (N.ltb_spec (l_owner l) (2 ^ 32)) as [Ho|Ho]; [destruct (N.ltb_spec (l_expire l) (2 ^ 32)) as [He|He]|].
  - right. apply ser_immutable_ok; assumption.
  - left. unfold ser_immutable, pack_be. change (256 ^ N.of_nat 4) with (2 ^ 32).
    destruct (N.ltb_spec (l_owner l) (2 ^ 32)); [|reflexivity]. destruct (N.ltb_spec (l_expire l) (2 ^ 32)); [lia|reflexivity].
  - left. unfold ser_immutable, pack_be. change (256 ^ N.of_nat 4) with (2 ^ 32).
    destruct (N.ltb_spec (l_owner l) (2 ^ 32)); [lia|reflexivity].
Qed.

(* every way the renewal of an immutable lease can go *)
Lemma imm_renew_cases v c s t : iwf v c ->
  let o := imm_renew_lease H v (iflat c) (i_lo c) s t in
  match renew_first H v (ileases c) s t with
  | None => o = Raised (iflat c) EIndex
  | Some ls' =>
      o = Done (iflat c) /\ ls' = ileases c
      \/ (exists e, o = Raised (iflat c) e /\ e <> EIndex)
      \/ (exists c', o = Done (iflat c') /\ iwf v c' /\ i_data c' = i_data c /\ ileases c' = ls')
  end /\
  (bytes_ok (iflat c) -> t < 2 ^ 32 -> forall e, o <> Raised (iflat c) e \/ e = EIndex).
Proof.
  intros Hw o. subst o. unfold imm_renew_lease. rewrite (imm_get_leases_flat v c Hw).
  unfold ileases. rewrite nseq_as_seq, (imm_renew_scan_spec H v (iflat c) (i_lo c) s t (islot c)).
  rewrite <- nseq_as_seq.
  pose proof (renew_first_find H v (islot c) s t (N.to_nat (i_n c))) as Hf. cbn zeta in Hf. rewrite N2Nat.id in Hf.
  assert (Efind : find (fun k => is_renew_secret H v (islot c (0 + N.of_nat k)) s) (seq 0 (N.to_nat (i_n c)))
                  = find (fun k => is_renew_secret H v (islot c (N.of_nat k)) s) (seq 0 (N.to_nat (i_n c)))).
  { f_equal. }
  rewrite Efind. destruct (find _ (seq 0 (N.to_nat (i_n c)))) as [k|].
  - destruct Hf as (Hk & Hm & Hr). rewrite Hr. cbn zeta. rewrite N.add_0_l.
    set (i := N.of_nat k). assert (Hi : i < i_n c) by (subst i; lia).
    destruct (N.ltb_spec (l_expire (islot c i)) t) as [Hlt|Hge].
    + destruct (ser_immutable_cases (set_expire (islot c i) t)) as [Ee|(b & Es & Lb & Pb)].
      { rewrite Ee. split; [right; left; exists EStruct; split; [reflexivity|discriminate]|].
        intros Hb Ht e. exfalso.
        pose proof (li_owner _ (islot_wf v c i Hw Hb Hi)) as Hb'.
        destruct (ser_immutable_ok (set_expire (islot c i) t) Hb' Ht) as (b & Es & _). congruence. }
      rewrite Es.
      rewrite (imm_write_existing v c i b Hw Hi Lb).
      split; [|intros _ _ e; left; discriminate].
      right. right. eexists. split; [reflexivity|]. split.
      { apply iwf_set_ileases; auto. rewrite pwn_length_inside; [reflexivity|].
        pose proof (iw_leases _ _ Hw) as Hl. unfold len in Hl. lia. }
      split; [reflexivity|].
      pose proof (ileases_set v c i b Hw Hi Lb) as Hset. unfold ileases in Hset. rewrite Hset. clear Hset.
      apply map_ext_in. intros j Hj.
      destruct (N.eqb_spec j i) as [->|]; [|reflexivity].
      rewrite Pb. unfold renewed. destruct (N.ltb_spec (l_expire (islot c i)) t); [|lia].
      unfold norm_imm, islot, parse_imm. cbn [set_expire l_owner l_renew l_cancel l_expire l_nodeid].
      pose proof (irec_length v c i Hw Hi) as Lr.
      rewrite !fit_id; [reflexivity| |]; rewrite pread_prn; apply prn_length_inside;
        [change (N.to_nat 36) with 36%nat|change (N.to_nat 4) with 4%nat]; change (N.to_nat 32) with 32%nat; lia.
    + split; [|intros _ _ e; left; discriminate]. left. split; [reflexivity|].
      apply map_ext_in. intros j Hj. destruct (N.eqb_spec j i) as [->|]; [|reflexivity].
      unfold renewed. destruct (N.ltb_spec (l_expire (islot c i)) t); [lia|reflexivity].
  - rewrite Hf. split; [reflexivity|]. intros _ _ e. destruct e; try (left; discriminate). right. reflexivity.
Qed.

Lemma renew_not_duplicate_imm_proof f v lo avail li ls ls' :
  imm_layout_ok f = true -> bytes_ok f -> l_expire li < 2 ^ 32 -> imm_open f = Ok (v, lo) ->
  immfile_get_leases f = Ok ls -> renew_first H v ls (l_renew li) (l_expire li) = Some ls' ->
  exists f', immfile_add_or_renew H f avail li = Done f' /\ immfile_get_leases f' = Ok ls' /\
             length ls' = length ls /\ imm_layout_ok f' = true /\ imm_data f' = imm_data f.
Proof.
  intros Hl Hb Ht Ho Hg Hr. pose proof (renew_first_length H v ls _ _ ls' Hr) as Hlen.
  apply imm_layout_ok_parse in Hl. destruct Hl as (v0 & Hw & Ef). set (c := iparse f) in *. rewrite Ef in *. clearbody c. clear Ef.
  rewrite (imm_open_flat v0 c Hw) in Ho. inversion Ho; subst v0 lo. clear Ho.
  rewrite (immfile_get_leases_flat v c Hw) in Hg. injection Hg as Hg; subst ls.
  destruct (imm_renew_cases v c (l_renew li) (l_expire li) Hw) as [Hc Hnoerr]. cbn zeta in Hc, Hnoerr. rewrite Hr in Hc.
  unfold immfile_add_or_renew. rewrite (imm_open_flat v c Hw). unfold imm_add_or_renew.
  destruct Hc as [[Eo El]|[(e & Eo & Hne)|(c' & Eo & Hw' & Hd & El)]].
  - rewrite Eo. exists (iflat c). subst ls'. split; [reflexivity|]. split; [apply (immfile_get_leases_flat v); exact Hw|].
    split; [reflexivity|]. split; [apply (iflat_layout_ok v); exact Hw|reflexivity].
  - exfalso. destruct (Hnoerr Hb Ht e) as [Hx|Hx]; [apply Hx; exact Eo|congruence].
  - rewrite Eo. exists (iflat c'). split; [reflexivity|]. split; [rewrite (immfile_get_leases_flat v c' Hw'), El; reflexivity|].
    split; [exact Hlen|]. split; [apply (iflat_layout_ok v); exact Hw'|].
    rewrite (imm_data_flat v c' Hw'), (imm_data_flat v c Hw). exact Hd.
Qed.

Lemma never_shorter_list_refl ls : never_shorter_list ls ls.
Proof. intros k l Hk. exists l. split; [exact Hk|]. split; [apply same_lease_refl|lia]. Qed.

Lemma renew_first_never_shorter v ls s t ls' : renew_first H v ls s t = Some ls' -> never_shorter_list ls ls'.
Proof.
  revert ls'; induction ls as [|l r IH]; intros ls' Hr; [discriminate|]. cbn [renew_first] in Hr.
  destruct (is_renew_secret H v l s).
  - inversion Hr; subst. intros [|k] x Hk; cbn [nth_error] in *.
    + inversion Hk; subst. exists (renewed x t). split; [reflexivity|]. unfold renewed.
      destruct (N.ltb_spec (l_expire x) t); [split; [apply same_lease_set_expire|cbn; lia]|split; [apply same_lease_refl|lia]].
    + exists x. split; [exact Hk|]. split; [apply same_lease_refl|lia].
  - destruct (renew_first H v r s t) as [r'|]; [|discriminate]. inversion Hr; subst.
    intros [|k] x Hk; cbn [nth_error] in *.
    + inversion Hk; subst. exists x. split; [reflexivity|]. split; [apply same_lease_refl|lia].
    + apply (IH r' eq_refl k x Hk).
Qed.

Lemma ileases_append v c b : iwf v c -> i_n c + 1 < 2 ^ 32 -> length b = 72%nat ->
  ileases (set_icnt_leases c (be 4 (i_n c + 1)) (i_leases c ++ b)) = ileases c ++ [parse_imm b].
Proof.
  intros Hw Hn Hb. unfold ileases. rewrite (i_n_append c b Hn), nseq_succ, map_app. cbn [map]. f_equal.
  - apply map_ext_in. intros j Hj. apply in_nseq in Hj. unfold islot. rewrite (irec_append v) by (auto; lia).
    destruct (N.eqb_spec j (i_n c)); [lia|reflexivity].
  - unfold islot. rewrite (irec_append v) by (auto; lia). rewrite N.eqb_refl. reflexivity.
Qed.

Lemma never_shortens_imm_proof f avail li ls :
  imm_layout_ok f = true -> immfile_get_leases f = Ok ls ->
  imm_layout_ok (out_file (immfile_add_or_renew H f avail li)) = true /\
  imm_data (out_file (immfile_add_or_renew H f avail li)) = imm_data f /\
  exists ls', immfile_get_leases (out_file (immfile_add_or_renew H f avail li)) = Ok ls' /\ never_shorter_list ls ls'.
Proof.
  intros Hl Hg. apply imm_layout_ok_parse in Hl. destruct Hl as (v & Hw & Ef). set (c := iparse f) in *. rewrite Ef in *. clearbody c. clear Ef.
  rewrite (immfile_get_leases_flat v c Hw) in Hg. injection Hg as Hg; subst ls.
  assert (Hsame : forall o, out_file o = iflat c ->
     imm_layout_ok (out_file o) = true /\ imm_data (out_file o) = imm_data (iflat c) /\
     exists ls', immfile_get_leases (out_file o) = Ok ls' /\ never_shorter_list (ileases c) ls').
  { intros o Eo. rewrite Eo. split; [apply (iflat_layout_ok v); exact Hw|]. split; [reflexivity|].
    exists (ileases c). split; [apply (immfile_get_leases_flat v); exact Hw|apply never_shorter_list_refl]. }
  unfold immfile_add_or_renew. rewrite (imm_open_flat v c Hw). unfold imm_add_or_renew.
  destruct (imm_renew_cases v c (l_renew li) (l_expire li) Hw) as [Hc _]. cbn zeta in Hc.
  destruct (renew_first H v (ileases c) (l_renew li) (l_expire li)) as [ls'|] eqn:Er.
  - destruct Hc as [[Eo El]|[(e & Eo & Hne)|(c' & Eo & Hw' & Hd & El)]].
    + rewrite Eo. apply Hsame. reflexivity.
    + rewrite Eo. destruct e; try congruence; apply Hsame; reflexivity.
    + rewrite Eo. cbn [out_file]. split; [apply (iflat_layout_ok v); exact Hw'|].
      split; [rewrite (imm_data_flat v c' Hw'), (imm_data_flat v c Hw); exact Hd|].
      exists ls'. split; [rewrite (immfile_get_leases_flat v c' Hw'), El; reflexivity|].
      apply (renew_first_never_shorter v _ _ _ _ Er).
  - rewrite Hc. destruct (avail <? IMM_LEASE_SIZE); [apply Hsame; reflexivity|].
    unfold imm_add_lease. rewrite (imm_read_num_flat v c Hw).
    destruct (N.ltb_spec (i_n c + 1) (2 ^ 32)) as [Hn|Hn].
    2:{ unfold pack_be. change (256 ^ N.of_nat 4) with (2 ^ 32). destruct (N.ltb_spec (i_n c + 1) (2 ^ 32)); [lia|].
        apply Hsame. reflexivity. }
    rewrite (pack_be_ok 4) by exact Hn.
    destruct (ser_immutable_cases (stored_form H v li)) as [Es|(b & Es & Lb & _)]; rewrite Es.
    { cbn [imm_write_lease_record obind]. apply Hsame. reflexivity. }
    rewrite (imm_add_flat v c b Hw Hn Lb). cbn [out_file].
    pose proof (iwf_append v c b Hw Hn Lb) as Hw'.
    split; [apply (iflat_layout_ok v); exact Hw'|].
    split; [rewrite (imm_data_flat v _ Hw'), (imm_data_flat v c Hw); reflexivity|].
    exists (ileases c ++ [parse_imm b]). split; [rewrite (immfile_get_leases_flat v _ Hw'), (ileases_append v c b Hw Hn Lb); reflexivity|].
    intros k l Hk. exists l. split; [rewrite nth_error_app1; [exact Hk|apply nth_error_Some; congruence]|].
    split; [apply same_lease_refl|lia].
Qed.

Lemma unknown_secret_imm_proof f v lo s t ls :
  imm_open f = Ok (v, lo) -> immfile_get_leases f = Ok ls -> no_match H v ls s = true ->
  immfile_renew H f s t = Raised f EIndex.
Proof.
  unfold immfile_get_leases, immfile_renew, imm_renew_lease. intros Ho. rewrite Ho. intros Hg Hn. rewrite Hg.
  clear Hg. generalize 0 as i. induction ls as [|l r IH]; intro i; [reflexivity|].
  unfold no_match in Hn. cbn [forallb] in Hn. apply andb_prop in Hn. destruct Hn as [H1 H2].
  cbn [imm_renew_scan]. destruct (is_renew_secret H v l s); [discriminate|]. apply IH. exact H2.
Qed.

End WithHash.
